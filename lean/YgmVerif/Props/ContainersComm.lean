import YgmVerif.Model.ContainersComm
import YgmVerif.Props.DistComm
import YgmVerif.Props.C13
import YgmVerif.Props.C14
import YgmVerif.Props.C15
import YgmVerif.Props.C16
import YgmVerif.Props.C17
/-!
# C13 / C14 end to end over the joint messaging model

`Props/C13.lean`, `Props/C14.lean` state their results for "the final state is `run a ms'` for SOME permutation `ms'` of
the issued messages" — exactly-once atomic execution on the owner is ASSUMED there.  Here it is DISCHARGED from
`Props/C02C01.lean` / `Props/DistComm.lean`: the container is run over `YgmVerif.Comm` (message movement × multi-epoch
barrier), an operation is a message `opOf uid`, the memory of a rank changes only at `execEnd`.
-/
namespace YgmVerif.ContainersComm
open YgmVerif
open YgmVerif.Comm (Label St)
open YgmVerif.DistComm

/-! ## C13 array -/

section Array
variable {α : Type}
open ArrayOps Part

/-- the sequential array model and the per-rank container agree: executing `E` by `ArrayOps.run` (issue + route by
`owner` + handler on the owner) gives on every rank the state `Dist.execGlobal` computes with the handler alone -/
theorem execGlobal_arr {a a' : Arr α} {E : List (ArrayOps.Msg α)} (h : ArrayOps.run a E = some a') (r : Nat) :
    Dist.execGlobal (arrContainer a.len a.ranks) (arrOwner a.len a.ranks) (arrInit a) E r = arrInit a' r := by
  induction E generalizing a with
  | nil => simp [run_nil] at h; subst h; rfl
  | cons m E ih =>
    rw [run_cons] at h
    cases h1 : ArrayOps.apply a m with
    | none => simp [h1] at h
    | some a1 =>
      simp only [h1, Option.bind_some] at h
      obtain ⟨hlt, d, vec, hd, hvec, hc1, hc2, hc3, rfl⟩ := apply_inv h1
      have hdl : d < a.vecs.length := (List.getElem?_eq_some_iff.mp hvec).1
      have := ih h
      simp only [Dist.execGlobal]
      rw [← this]
      congr 1
      funext q
      have hown : arrOwner a.len a.ranks m = d := by simp [arrOwner, hd]
      rw [hown]
      by_cases hq : q = d
      · subst hq
        have hv : a.vecs[q] = vec := by
          have := hvec; rw [List.getElem?_eq_getElem hdl] at this; exact Option.some.inj this
        simp [arrContainer, arrInit, ArrayOps.deliver, hc1, hc2, hdl, hv, hc3]
      · have : ¬ d = q := fun e => hq e.symm
        simp [arrInit, hq, this]

/-- **C13 end to end** (`ygm::container::array`).  For every number of ranks `n`, every routing function, every
joint history accepted from program start in which every message carries an array update `opOf uid` with a legal
index, sent point-to-point to `owner(index)` — issued by main programs, by handlers (e.g. a visitor that updates the
array again) or by pre-barrier callbacks, in any interleaving: at the FIRST return of a barrier

* the handlers executed so far, in their execution order `E = execOps`, are a permutation of ALL updates issued so
  far (each executed exactly once) and `ArrayOps.run a0 E` — the sequential model of `Props/C13.lean` — succeeds
  (no trap in `owner`, no `ASSERT_RELEASE` in a handler) with a well-formed result `a'`;
* the memory of EVERY rank `q` induced by the history is exactly `m_local_vec` of `q` in `a'`;
* for every index `i`: the updates addressed to `i` that were executed are a permutation of the updates addressed to `i`
  that were issued, element `i` is the fold of exactly these, each applied once (`final_is_fold`, now about the
  history instead of an assumed permutation), and it sits on rank `owner i` at `local_index i`. -/
theorem C13_array_after_barrier (a0 : Arr α) (hw : WF a0) (hr0 : 0 < a0.ranks) (opOf : Nat → ArrayOps.Msg α)
    (n : Nat) (nh : Nat → Nat → Nat) (ls : List Label) (s : St) (hrun : Comm.run n nh Comm.init ls = some s)
    (ha : Addressed (arrOwner a0.len a0.ranks) opOf ls)
    (hidx : ∀ m ∈ ls.flatMap Comm.issued, (opOf m.1).idx < a0.len)
    (r : Nat) (hr : r < n) (hx : BarrierME.exitEnabled s.b r = true) (hne : ∀ q, q < n → s.b.epoch q ≤ s.b.epoch r) :
    ∃ a', ArrayOps.run a0 (execOps opOf s) = some a' ∧ WF a' ∧ a'.len = a0.len ∧ a'.ranks = a0.ranks ∧
      (execOps opOf s).Perm (issuedOps opOf ls) ∧
      (∀ q, memOf (arrContainer a0.len a0.ranks) opOf n nh (arrInit a0) ls q = (q, a'.vecs[q]?)) ∧
      ∀ i, i < a0.len →
        (updatesOf (execOps opOf s) i).Perm (updatesOf (issuedOps opOf ls) i) ∧
        ArrayOps.get a' i = (ArrayOps.get a0 i).map (fun v0 => (updatesOf (execOps opOf s) i).foldl (fun v m => m.f i v) v0) ∧
        ∃ d, Part.owner a0.len a0.ranks i = some d ∧ d < a0.ranks ∧
          (memOf (arrContainer a0.len a0.ranks) opOf n nh (arrInit a0) ls d).2.bind
            (·[localIndex a0.len a0.ranks d i]?) = ArrayOps.get a' i := by
  have hperm := execOps_perm_issuedOps opOf n nh ls s hrun r hr hx hne
  have hall : ∀ m ∈ execOps opOf s, m.idx < a0.len := by
    intro m hm
    have := hperm.mem_iff.1 hm
    unfold issuedOps at this
    obtain ⟨x, hx', rfl⟩ := List.mem_map.1 this
    exact hidx x hx'
  obtain ⟨a', h1, hw', hl', hr'⟩ := run_some (execOps opOf s) hw hr0 hall
  have hmem : ∀ q, memOf (arrContainer a0.len a0.ranks) opOf n nh (arrInit a0) ls q = (q, a'.vecs[q]?) := by
    intro q
    unfold memOf
    rw [mem_eq_execGlobal (arrContainer a0.len a0.ranks) (arrOwner a0.len a0.ranks) opOf n nh (arrInit a0) ls s hrun ha q,
      execGlobal_arr h1 q]
    rfl
  refine ⟨a', h1, hw', hl', hr', hperm, hmem, ?_⟩
  intro i hi
  refine ⟨hperm.filter _, final_is_fold hr0 h1 i hi, ?_⟩
  obtain ⟨d, hd, hdr, _, _⟩ := owner_spec a0.len a0.ranks i hr0 hi
  refine ⟨d, hd, hdr, ?_⟩
  rw [hmem d]
  unfold ArrayOps.get
  rw [hl', hr', hd]
  rfl

/-- **C13 end to end, order-independent form**: if the issued updates addressed to one element commute pairwise (one
operator family of `Op.eval_comm`, an associative-commutative operator, …), then at the first return of a barrier
every element is the fold of the updates addressed to it IN ISSUE ORDER (hence in any order): the result does not
depend on the interleaving, the routing or the number of ranks. -/
theorem C13_array_after_barrier_commuting (a0 : Arr α) (hw : WF a0) (hr0 : 0 < a0.ranks)
    (opOf : Nat → ArrayOps.Msg α)
    (n : Nat) (nh : Nat → Nat → Nat) (ls : List Label) (s : St) (hrun : Comm.run n nh Comm.init ls = some s)
    (ha : Addressed (arrOwner a0.len a0.ranks) opOf ls)
    (hidx : ∀ m ∈ ls.flatMap Comm.issued, (opOf m.1).idx < a0.len)
    (hc : ∀ x ∈ issuedOps opOf ls, ∀ y ∈ issuedOps opOf ls, x.idx = y.idx →
      ∀ v, y.f y.idx (x.f x.idx v) = x.f x.idx (y.f y.idx v))
    (r : Nat) (hr : r < n) (hx : BarrierME.exitEnabled s.b r = true) (hne : ∀ q, q < n → s.b.epoch q ≤ s.b.epoch r) :
    ∃ a', ArrayOps.run a0 (execOps opOf s) = some a' ∧
      (∀ q, memOf (arrContainer a0.len a0.ranks) opOf n nh (arrInit a0) ls q = (q, a'.vecs[q]?)) ∧
      ∀ i, i < a0.len →
        ArrayOps.get a' i = (ArrayOps.get a0 i).map (fun v0 => (updatesOf (issuedOps opOf ls) i).foldl (fun v m => m.f i v) v0) := by
  obtain ⟨a', h1, _, _, _, hperm, hmem, hfold⟩ :=
    C13_array_after_barrier a0 hw hr0 opOf n nh ls s hrun ha hidx r hr hx hne
  refine ⟨a', h1, hmem, ?_⟩
  intro i hi
  obtain ⟨hp, hf, _⟩ := hfold i hi
  rw [hf]
  congr 1
  funext v0
  apply List.Perm.foldl_eq' hp
  intro x hx' y hy z
  unfold updatesOf at hx' hy
  simp only [List.mem_filter, beq_iff_eq] at hx' hy
  have := hc x (hperm.mem_iff.1 hx'.1) y (hperm.mem_iff.1 hy.1) (by omega) z
  rw [hx'.2, hy.2] at this
  exact this

/-- **C13 end to end for `async_binary_op_update_value` with an associative-commutative operator**: every message
`uid` carries `(index, value) = upd uid`; at the first return of a barrier element `i` is its initial value combined
with the values addressed to `i`, in issue order -/
theorem C13_array_after_barrier_assoc_comm (op : α → α → α) (hassoc : ∀ x y z, op (op x y) z = op x (op y z))
    (hcomm : ∀ x y, op x y = op y x)
    (a0 : Arr α) (hw : WF a0) (hr0 : 0 < a0.ranks) (upd : Nat → Nat × α)
    (n : Nat) (nh : Nat → Nat → Nat) (ls : List Label) (s : St) (hrun : Comm.run n nh Comm.init ls = some s)
    (ha : Addressed (arrOwner a0.len a0.ranks) (fun u => binMsg op (upd u)) ls)
    (hidx : ∀ m ∈ ls.flatMap Comm.issued, (upd m.1).1 < a0.len)
    (r : Nat) (hr : r < n) (hx : BarrierME.exitEnabled s.b r = true) (hne : ∀ q, q < n → s.b.epoch q ≤ s.b.epoch r) :
    ∃ a', ArrayOps.run a0 (execOps (fun u => binMsg op (upd u)) s) = some a' ∧
      ∀ i, i < a0.len →
        ArrayOps.get a' i = (ArrayOps.get a0 i).map (fun v0 =>
          ((((ls.flatMap Comm.issued).map (fun m => upd m.1)).filter (fun p => p.1 == i)).map (·.2)).foldl op v0) := by
  obtain ⟨a', h1, _, hfold⟩ :=
    C13_array_after_barrier_commuting a0 hw hr0 (fun u => binMsg op (upd u)) n nh ls s hrun ha hidx
      (by
        intro x hx' y hy _ v
        unfold issuedOps at hx' hy
        obtain ⟨p, _, rfl⟩ := List.mem_map.1 hx'
        obtain ⟨q, _, rfl⟩ := List.mem_map.1 hy
        exact binop_updates_commute op hassoc hcomm _ _ v)
      r hr hx hne
  refine ⟨a', h1, ?_⟩
  intro i hi
  rw [hfold i hi]
  congr 1
  funext v0
  unfold updatesOf issuedOps
  rw [List.filter_map, List.foldl_map, List.filter_map, List.foldl_map, List.foldl_map]
  rfl

/-! ### non-vacuity (C13) -/

section ArrayExample

/-- 5 elements on 3 ranks: blocks [0,1], [2,3], [4] -/
private def arr0 : Arr UInt64 := fresh 5 3 10

/-- which update each message carries (one commuting family: plus / minus / inc) -/
private def arrOp : Nat → ArrayOps.Msg UInt64
  | 1 => Op.msg 4 (.plus 2)
  | 2 => Op.msg 4 (.plus 3)
  | 3 => Op.msg 0 .inc
  | _ => Op.msg 2 (.minus 1)

private def round3 : List Label :=
  [.contribute 0, .contribute 1, .contribute 2, .result 0, .result 1, .result 2]

/-- ranks 0 and 1 both update element 4 (owner: rank 2) before the barrier; the handler of the first update, running
on rank 2 INSIDE the barrier, issues an update of element 0 (owner: rank 0); a pre-barrier callback of rank 1 issues an
update of element 2 (its own element: a self-send) -/
private def arrDemo : List Label :=
  [.regcb 1, .async 0 1 2 false, .async 1 2 2 false, .enter 0, .enter 1, .enter 2,
   .runcb 1 [(4, 1, false)] 0,
   .isend 0 2, .recvBegin 2 0 0, .execBegin 2 1, .async 2 3 0 false, .execEnd 2 1, .recvEnd 2,
   .isend 1 2, .recvBegin 2 1 0, .execBegin 2 2, .execEnd 2 2, .recvEnd 2,
   .isend 1 1, .recvBegin 1 1 1, .execBegin 1 4, .execEnd 1 4, .recvEnd 1,
   .isend 2 0, .recvBegin 0 2 0, .execBegin 0 3, .execEnd 0 3, .recvEnd 0] ++ round3 ++ round3

set_option maxRecDepth 32768 in
/-- the history is accepted; at its end the exit rule holds on every rank and nobody has left barrier 0 -/
example : ((Comm.run 3 (fun _ d => d) Comm.init arrDemo).map (fun s =>
    (s.d.executed, BarrierME.exitEnabled s.b 0, BarrierME.exitEnabled s.b 2, (List.range 3).map s.b.epoch,
     (Comm.step 3 (fun _ d => d) s (.exit 0)).isSome))) =
    some ([(2, 1), (2, 2), (1, 4), (0, 3)], true, true, [0, 0, 0], true) := by decide

set_option maxRecDepth 32768 in
/-- the hypotheses of `C13_array_after_barrier` about the history hold -/
example : Addressed (arrOwner arr0.len arr0.ranks) arrOp arrDemo ∧
    (∀ m ∈ arrDemo.flatMap Comm.issued, (arrOp m.1).idx < arr0.len) := by decide

set_option maxRecDepth 32768 in
/-- the induced memories: element 4 = 10 + 2 + 3 on rank 2, element 0 = 11 on rank 0, element 2 = 9 on rank 1 -/
example : (List.range 3).map (memOf (arrContainer arr0.len arr0.ranks) arrOp 3 (fun _ d => d) (arrInit arr0) arrDemo) =
    [(0, some [11, 10]), (1, some [9, 10]), (2, some [15])] := by decide

/-- the end-to-end theorem applied to the demo (every hypothesis about the history discharged by `decide`) -/
example (s : St) (hrun : Comm.run 3 (fun _ d => d) Comm.init arrDemo = some s)
    (hx : BarrierME.exitEnabled s.b 0 = true) (hne : ∀ q, q < 3 → s.b.epoch q ≤ s.b.epoch 0) :
    ∃ a', ArrayOps.run arr0 (execOps arrOp s) = some a' ∧
      (∀ q, memOf (arrContainer arr0.len arr0.ranks) arrOp 3 (fun _ d => d) (arrInit arr0) arrDemo q = (q, a'.vecs[q]?)) ∧
      ∀ i, i < arr0.len → ArrayOps.get a' i = (ArrayOps.get arr0 i).map (fun v0 =>
        (updatesOf (issuedOps arrOp arrDemo) i).foldl (fun v m => m.f i v) v0) :=
  C13_array_after_barrier_commuting arr0 (fresh_wf 5 3 10) (by decide) arrOp 3 (fun _ d => d) arrDemo s hrun
    (by decide) (by decide)
    (by
      intro x hx' y hy _ v
      have key : ∀ m ∈ issuedOps arrOp arrDemo, ∃ o : Op, o.family = some 0 ∧ m.f = o.eval := by
        intro m hm
        simp only [issuedOps, arrDemo, round3, List.flatMap_cons, List.flatMap_nil, Comm.issued, List.cons_append,
          List.nil_append, List.append_nil, List.map_cons, List.map_nil, List.mem_cons, List.not_mem_nil,
          or_false, arrOp, Op.msg] at hm
        rcases hm with rfl | rfl | rfl | rfl
        · exact ⟨.plus 2, rfl, rfl⟩
        · exact ⟨.plus 3, rfl, rfl⟩
        · exact ⟨.minus 1, rfl, rfl⟩
        · exact ⟨.inc, rfl, rfl⟩
      obtain ⟨o1, f1, e1⟩ := key x hx'
      obtain ⟨o2, f2, e2⟩ := key y hy
      rw [e1, e2]
      exact Op.eval_comm o1 o2 _ _ v (by rw [f1, f2]) (by rw [f1]; simp))
    0 (by decide) hx hne

/-- an update sent to a rank that does not own its index violates the issuing discipline -/
example : ¬ Addressed (arrOwner arr0.len arr0.ranks) arrOp [.async 0 1 1 false] := by decide

/-- a handler run on the wrong rank trips the handler's assertion: the state records it (`none`), it is not hidden -/
example : ((arrContainer 5 3).apply (arrInit arr0 1) (arrOp 1)).1 = (1, none) := by decide

end ArrayExample

end Array

/-! ## C14 bag -/

section Bag
variable {α : Type}
open BagOps

theorem getD_modify {β : Type} (L : List β) (d q : Nat) (f : β → β) (dflt : β) (hd : d < L.length) :
    (L.modify d f).getD q dflt = if q = d then f (L.getD q dflt) else L.getD q dflt := by
  simp only [List.getD_eq_getElem?_getD, List.getElem?_modify]
  by_cases h : q = d
  · subst h
    simp [List.getElem?_eq_getElem hd]
  · have : ¬ d = q := fun e => h e.symm
    simp [h, this]

/-- the sequential bag model and the per-rank container agree: `BagOps.deliverAll b E` gives on every rank the state
`Dist.execGlobal` computes with the remote lambda alone -/
theorem execGlobal_bag {b b' : Bag α} {E : List (BagOps.Msg α)} (h : deliverAll b E = some b') (r : Nat) :
    Dist.execGlobal bagContainer bagOwner (bagInit b) E r = bagInit b' r := by
  induction E generalizing b with
  | nil => simp only [deliverAll, Option.some.injEq] at h; subst h; rfl
  | cons m E ih =>
    simp only [deliverAll] at h
    cases h1 : deliver b m with
    | none => simp [h1] at h
    | some b1 =>
      simp only [h1, Option.bind_some] at h
      obtain ⟨hd, rfl⟩ := deliver_inv h1
      have := ih h
      simp only [Dist.execGlobal]
      rw [← this]
      congr 1
      funext q
      simp only [bagInit, bagContainer, bagOwner]
      rw [getD_modify _ _ _ _ _ hd]
      by_cases hq : q = m.dest <;> simp [hq]

theorem foldl_append_items (g : List α) (L : List (BagOps.Msg α)) :
    L.foldl (fun st m => st ++ m.items) g = g ++ L.flatMap (·.items) := by
  induction L generalizing g with
  | nil => simp
  | cons m L ih => simp [List.foldl_cons, ih, List.flatMap_cons, List.append_assoc]

theorem flatten_eq_flatMap_getD (L : List (List α)) :
    L.flatten = (List.range L.length).flatMap (fun q => L.getD q []) := by
  induction L with
  | nil => rfl
  | cons l L ih =>
    rw [List.length_cons, List.range_succ_eq_map, List.flatMap_cons, List.flatMap_map, List.flatten_cons, ih]
    rfl

/-- **C14 end to end** (`ygm::container::bag`).  For every number of ranks `n`, every routing function, every joint
history accepted from program start in which every message carries a bag insert `opOf uid` = (destination, items) —
`async_insert(item)` with the round-robin destination, `async_insert(item, dest)`, `async_insert(vector, dest)`; the
destination is whatever the message says — sent point-to-point to that destination, from main programs, handlers or
pre-barrier callbacks: at the FIRST return of a barrier

* the executed inserts, in execution order, are a permutation of ALL inserts issued so far and `BagOps.deliverAll`
  (the sequential model of `Props/C14.lean`) succeeds on them;
* the memory of every rank `q` induced by the history is `m_local_bag` of `q` in the result, and it is, as a multiset,
  the initial local bag plus the items of exactly the inserts addressed to `q`;
* the multiset union of the local bags is the initial content plus exactly the items inserted so far (nothing lost,
  nothing duplicated, nothing invented), and the local sizes are the initial sizes plus what was addressed there. -/
theorem C14_bag_after_barrier (b0 : Bag α) (n : Nat) (hb : b0.bags.length = n) (opOf : Nat → BagOps.Msg α)
    (nh : Nat → Nat → Nat) (ls : List Label) (s : St) (hrun : Comm.run n nh Comm.init ls = some s)
    (ha : Addressed bagOwner opOf ls)
    (r : Nat) (hr : r < n) (hx : BarrierME.exitEnabled s.b r = true) (hne : ∀ q, q < n → s.b.epoch q ≤ s.b.epoch r) :
    ∃ b', deliverAll b0 (execOps opOf s) = some b' ∧ b'.bags.length = n ∧
      (execOps opOf s).Perm (issuedOps opOf ls) ∧
      (∀ q, memOf bagContainer opOf n nh (bagInit b0) ls q = b'.bags.getD q []) ∧
      (∀ q, (memOf bagContainer opOf n nh (bagInit b0) ls q).Perm
        (b0.bags.getD q [] ++ ((issuedOps opOf ls).filter (fun m => m.dest = q)).flatMap (·.items))) ∧
      ((List.range n).flatMap (memOf bagContainer opOf n nh (bagInit b0) ls)).Perm
        (items b0 ++ (issuedOps opOf ls).flatMap (·.items)) ∧
      (items b').Perm (items b0 ++ (issuedOps opOf ls).flatMap (·.items)) ∧
      (∀ q, (memOf bagContainer opOf n nh (bagInit b0) ls q).length =
        (b0.bags.getD q []).length + recv (issuedOps opOf ls) q) := by
  have hperm := execOps_perm_issuedOps opOf n nh ls s hrun r hr hx hne
  have hdest : ∀ m ∈ execOps opOf s, m.dest < b0.bags.length := by
    intro m hm
    unfold execOps at hm
    obtain ⟨p, hp, rfl⟩ := List.mem_map.1 hm
    have h1 := executed_owned bagOwner opOf n nh ls s hrun ha p hp
    have h2 := executed_rank_lt n nh ls s hrun p hp
    unfold bagOwner at h1
    rw [hb, h1]; exact h2
  obtain ⟨b', h1⟩ := deliverAll_some b0 (execOps opOf s) hdest
  obtain ⟨_, _, e3, e4, e5, _⟩ := deliverAll_spec h1
  have hmem : ∀ q, memOf bagContainer opOf n nh (bagInit b0) ls q = b'.bags.getD q [] := by
    intro q
    unfold memOf
    rw [mem_eq_execGlobal bagContainer bagOwner opOf n nh (bagInit b0) ls s hrun ha q, execGlobal_bag h1 q]
    rfl
  have hitems : (items b').Perm (items b0 ++ (issuedOps opOf ls).flatMap (·.items)) :=
    e4.trans (List.Perm.append_left _ (hperm.flatMap_right _))
  refine ⟨b', h1, by rw [e3, hb], hperm, hmem, ?_, ?_, hitems, ?_⟩
  · intro q
    rw [state_is_fold bagContainer opOf n nh (bagInit b0) ls s hrun q,
      opsExecutedOn_eq_filter bagOwner opOf n nh ls s hrun ha q]
    show (List.foldl (fun (st : List α) (m : BagOps.Msg α) => st ++ m.items) (bagInit b0 q) _).Perm _
    rw [foldl_append_items]
    exact List.Perm.append_left _ ((hperm.filter _).flatMap_right _)
  · have : (List.range n).flatMap (memOf bagContainer opOf n nh (bagInit b0) ls) = items b' := by
      unfold items
      rw [flatten_eq_flatMap_getD, e3, hb]
      apply flatMap_congr_mem
      intro q _
      exact hmem q
    rw [this]; exact hitems
  · intro q
    rw [hmem q, e5 q, recv_perm hperm q]

/-! ### non-vacuity (C14) -/

section BagExample

private def bag0 : Bag Nat := { ranks := 3, bags := [[1], [], [2]], rr := [0, 0, 0] }

/-- which insert each message carries: `async_insert(7, 1)`, `async_insert({8, 9}, 1)`, `async_insert(5, 0)` -/
private def bagOp : Nat → BagOps.Msg Nat
  | 1 => insertTo 1 7
  | 2 => insertVec 1 [8, 9]
  | _ => insertTo 0 5

private def bround3 : List Label :=
  [.contribute 0, .contribute 1, .contribute 2, .result 0, .result 1, .result 2]

/-- rank 0 inserts 7 at rank 1, rank 2 inserts the vector {8, 9} at rank 1; the handler of the first insert (running on
rank 1 inside the barrier) inserts 5 at rank 0 -/
private def bagDemo : List Label :=
  [.async 0 1 1 false, .async 2 2 1 false, .enter 0, .enter 1, .enter 2,
   .isend 2 1, .isend 0 1, .recvBegin 1 0 0, .execBegin 1 1, .async 1 3 0 false, .execEnd 1 1, .recvEnd 1,
   .recvBegin 1 2 0, .execBegin 1 2, .execEnd 1 2, .recvEnd 1,
   .isend 1 0, .recvBegin 0 1 0, .execBegin 0 3, .execEnd 0 3, .recvEnd 0] ++ bround3 ++ bround3

set_option maxRecDepth 32768 in
/-- accepted; the exit rule holds at the end, nobody has left barrier 0; the issuing discipline holds -/
example : ((Comm.run 3 (fun _ d => d) Comm.init bagDemo).map (fun s =>
    (s.d.executed, BarrierME.exitEnabled s.b 1, (List.range 3).map s.b.epoch))) =
    some ([(1, 1), (1, 2), (0, 3)], true, [0, 0, 0]) ∧ Addressed bagOwner bagOp bagDemo := by decide

set_option maxRecDepth 32768 in
/-- the induced local bags -/
example : (List.range 3).map (memOf bagContainer bagOp 3 (fun _ d => d) (bagInit bag0) bagDemo) =
    [[1, 5], [7, 8, 9], [2]] := by decide

/-- the end-to-end theorem applied to the demo -/
example (s : St) (hrun : Comm.run 3 (fun _ d => d) Comm.init bagDemo = some s)
    (hx : BarrierME.exitEnabled s.b 1 = true) (hne : ∀ q, q < 3 → s.b.epoch q ≤ s.b.epoch 1) :
    ((List.range 3).flatMap (memOf bagContainer bagOp 3 (fun _ d => d) (bagInit bag0) bagDemo)).Perm
      ([1, 2] ++ [7, 8, 9, 5]) := by
  obtain ⟨_, _, _, _, _, _, h, _⟩ :=
    C14_bag_after_barrier bag0 3 rfl bagOp (fun _ d => d) bagDemo s hrun (by decide) 1 (by decide) hx hne
  exact h

/-- an insert delivered to a rank other than the one the message names violates the issuing discipline -/
example : ¬ Addressed bagOwner bagOp [.async 0 1 2 false] := by decide

end BagExample

end Bag

end YgmVerif.ContainersComm

/-! ## C15 counting_set over the joint messaging model -/

namespace YgmVerif.CSetComm
open YgmVerif
open YgmVerif.Barrier (upd upd_same upd_other b2n)
open YgmVerif.Cache (csetCfg Frame Phase)

/-! ### the cache of one rank: container calls in progress keep a callback registered -/

def isFall : Frame Nat → Bool
  | .fall _ _ => true
  | _ => false

/-- the flush-all loop is entered with no container call active, so its frame is the bottom of the stack -/
def fallOnlyLast : List (Frame Nat) → Bool
  | [] => true
  | [_] => true
  | f :: g :: rest => !isFall f && fallOnlyLast (g :: rest)

def hasFall (st : List (Frame Nat)) : Bool := st.any isFall

/-- callbacks the cache needs the communicator to hold for it: one if the flag says "registered", one for the
continuation of a flush-all loop in progress -/
def owed (s : Cache.St Nat) : Nat := b2n s.reg + b2n (hasFall s.stack)

/-- a container call in progress implies a registered callback or a flush-all loop in progress -/
def KInv (s : Cache.St Nat) : Prop :=
  fallOnlyLast s.stack = true ∧ (s.stack ≠ [] → s.reg = true ∨ hasFall s.stack = true)

theorem kinv_init : KInv (Cache.St.init : Cache.St Nat) := ⟨rfl, fun h => absurd rfl h⟩

theorem isFall_setPhase (f : Frame Nat) (ph : Phase Nat) : isFall (f.setPhase ph) = isFall f := by
  cases f <;> rfl

theorem insLoop_notFall (cfg : Cache.Cfg Nat) (c : Cache.CMap Nat) (k v : Nat) :
    isFall (Cache.insLoop cfg c k v).2 = false := by
  unfold Cache.insLoop Cache.enter
  split
  · split <;> rfl
  · split
    · split <;> rfl
    · rfl

theorem fallLoop_isFall (cfg : Cache.Cfg Nat) (c : Cache.CMap Nat) (i : Nat) :
    isFall (Cache.fallLoop cfg c i).2 = true := by
  unfold Cache.fallLoop
  split
  · rfl
  · split <;> rfl

theorem fol_replace {f f' : Frame Nat} (rest : List (Frame Nat)) (h : isFall f' = isFall f) :
    fallOnlyLast (f' :: rest) = fallOnlyLast (f :: rest) := by
  cases rest with
  | nil => rfl
  | cons g rest => simp [fallOnlyLast, h]

theorem fol_cons_nonfall {f : Frame Nat} (st : List (Frame Nat)) (h : isFall f = false) :
    fallOnlyLast (f :: st) = fallOnlyLast st := by
  cases st with
  | nil => rfl
  | cons g rest => simp [fallOnlyLast, h]

theorem fol_cons_fall {f : Frame Nat} {st : List (Frame Nat)} (h : isFall f = true)
    (hf : fallOnlyLast (f :: st) = true) : st = [] := by
  cases st with
  | nil => rfl
  | cons g rest => simp [fallOnlyLast, h] at hf

theorem fol_tail {f : Frame Nat} {st : List (Frame Nat)} (hf : fallOnlyLast (f :: st) = true) :
    fallOnlyLast st = true := by
  cases st with
  | nil => rfl
  | cons g rest => simp [fallOnlyLast] at hf; exact hf.2

theorem hasFall_cons (f : Frame Nat) (st : List (Frame Nat)) : hasFall (f :: st) = (isFall f || hasFall st) := by
  simp [hasFall]

/-- what one cache step does to the flag and to the frame kinds (counting_set configuration) -/
theorem step_kinv (ns : Nat) (s s' : Cache.St Nat) (lab : Cache.Label Nat) (hk : KInv s)
    (h : Cache.step (csetCfg ns) s lab = some s') :
    KInv s' ∧
    (match lab with
     | .ins _ _ => s'.reg = true ∧ hasFall s'.stack = hasFall s.stack
     | .fb => s.reg = true ∧ hasFall s.stack = false ∧ s'.reg = false ∧ hasFall s'.stack = true
     | .fe => s'.reg = s.reg ∧ hasFall s.stack = true ∧ hasFall s'.stack = false
     | _ => s'.reg = s.reg ∧ hasFall s'.stack = hasFall s.stack) := by
  obtain ⟨hf, hj⟩ := hk
  cases lab with
  | ins k v =>
    simp only [Cache.step] at h
    split at h
    · have : (csetCfg ns).isOwner k = false := rfl
      simp only [this, Bool.false_eq_true, if_false] at h
      have hnf := insLoop_notFall (csetCfg ns) s.cache k v
      cases hil : Cache.insLoop (csetCfg ns) s.cache k v with
      | mk c f =>
        rw [hil] at h hnf
        simp only [Option.some.injEq] at h
        subst h
        simp only at hnf ⊢
        refine ⟨⟨by rw [fol_cons_nonfall _ hnf]; exact hf, fun _ => Or.inl rfl⟩, trivial, ?_⟩
        rw [hasFall_cons, hnf]; rfl
    · cases h
  | pack =>
    simp only [Cache.step] at h
    split at h
    · rename_i f rest hst
      split at h
      · simp only [Option.some.injEq] at h
        subst h
        simp only [hst] at hf hj ⊢
        have e := isFall_setPhase f Phase.sent
        refine ⟨⟨by rw [fol_replace rest e]; exact hf, fun _ => ?_⟩, trivial, ?_⟩
        · have := hj (by simp)
          rw [hasFall_cons] at this ⊢
          rw [e]; exact this
        · rw [hasFall_cons, hasFall_cons, e]
      · cases h
    · cases h
  | ret =>
    simp only [Cache.step] at h
    split at h
    · rename_i k v rest hst
      have hnf := insLoop_notFall (csetCfg ns) s.cache k v
      cases hil : Cache.insLoop (csetCfg ns) s.cache k v with
      | mk c f =>
        rw [hil] at h hnf
        simp only [Option.some.injEq] at h
        subst h
        simp only [hst] at hf hj ⊢
        simp only at hnf
        have e : isFall f = isFall (Frame.ins k v Phase.sent) := by rw [hnf]; rfl
        refine ⟨⟨by rw [fol_replace rest e]; exact hf, fun _ => ?_⟩, trivial, ?_⟩
        · have := hj (by simp)
          rw [hasFall_cons] at this ⊢
          rw [e]; exact this
        · rw [hasFall_cons, hasFall_cons, e]
    · rename_i rest hst
      simp only [Option.some.injEq] at h
      subst h
      simp only [hst] at hf hj ⊢
      have e : isFall (Frame.tail Phase.fin : Frame Nat) = isFall (Frame.tail Phase.sent) := rfl
      refine ⟨⟨by rw [fol_replace rest e]; exact hf, fun _ => ?_⟩, trivial, ?_⟩
      · have := hj (by simp)
        rw [hasFall_cons] at this ⊢
        rw [e]; exact this
      · rw [hasFall_cons, hasFall_cons, e]
    · rename_i i rest hst
      have hfl := fallLoop_isFall (csetCfg ns) s.cache i
      cases hil : Cache.fallLoop (csetCfg ns) s.cache i with
      | mk c f =>
        rw [hil] at h hfl
        simp only [Option.some.injEq] at h
        subst h
        simp only [hst] at hf hj ⊢
        simp only at hfl
        have e : isFall f = isFall (Frame.fall i Phase.sent) := by rw [hfl]; rfl
        refine ⟨⟨by rw [fol_replace rest e]; exact hf, fun _ => ?_⟩, trivial, ?_⟩
        · have := hj (by simp)
          rw [hasFall_cons] at this ⊢
          rw [e]; exact this
        · rw [hasFall_cons, hasFall_cons, e]
    · cases h
  | done =>
    simp only [Cache.step] at h
    split at h
    · rename_i rest hst
      simp only [Option.some.injEq] at h
      subst h
      simp only [hst] at hf hj ⊢
      refine ⟨⟨fol_tail hf, fun _ => ?_⟩, trivial, ?_⟩
      · have := hj (by simp)
        rw [hasFall_cons] at this
        simpa [isFall] using this
      · rw [hasFall_cons]; rfl
    · cases h
  | fb =>
    simp only [Cache.step] at h
    split at h
    · rename_i hc
      have hfl := fallLoop_isFall (csetCfg ns) s.cache 0
      cases hil : Cache.fallLoop (csetCfg ns) s.cache 0 with
      | mk c f =>
        rw [hil] at h hfl
        simp only [Option.some.injEq] at h
        subst h
        simp only at hfl ⊢
        have hemp : s.stack = [] := by
          cases hst : s.stack with
          | nil => rfl
          | cons a b => rw [hst] at hc; simp at hc
        refine ⟨⟨rfl, fun _ => Or.inr ?_⟩, hc.2, by rw [hemp]; rfl, trivial, ?_⟩
        · rw [hasFall_cons, hfl]; rfl
        · rw [hasFall_cons, hfl]; rfl
    · cases h
  | fe =>
    simp only [Cache.step] at h
    split at h
    · rename_i i rest hst
      simp only [Option.some.injEq] at h
      subst h
      simp only [hst] at hf hj ⊢
      have hr : rest = [] := fol_cons_fall (f := Frame.fall i Phase.fin) rfl hf
      subst hr
      exact ⟨⟨rfl, fun h => absurd rfl h⟩, trivial, rfl, rfl⟩
    · cases h
  | bar =>
    simp only [Cache.step] at h
    split at h
    · simp only [Option.some.injEq] at h
      subst h
      exact ⟨⟨hf, hj⟩, rfl, rfl⟩
    · cases h

/-! ### the component histories are recoverable -/

theorem step_some {P : Par} {S S' : St} {l : Label} (h : step P S l = some S') :
    guard P S l = true ∧ Comm.run P.n P.nh S.c (projC P l) = some S'.c ∧ kStep P S l = some S'.k := by
  unfold step at h
  split at h
  · rename_i hg
    split at h
    · rename_i c' k' hc hk
      cases h
      exact ⟨hg, hc, hk⟩
    · cases h
  · cases h

theorem kStep_cases {P : Par} {S : St} {l : Label} {k' : Nat → Cache.St Nat} (h : kStep P S l = some k') :
    (projK l = none ∧ k' = S.k) ∨
    ∃ q lab s', projK l = some (q, lab) ∧ Cache.step (csetCfg P.nslots) (S.k q) lab = some s' ∧ k' = upd S.k q s' := by
  unfold kStep at h
  split at h
  · rename_i hp
    exact Or.inl ⟨hp, (Option.some.inj h).symm⟩
  · rename_i q lab hp
    cases hs : Cache.step (csetCfg P.nslots) (S.k q) lab with
    | none => rw [hs] at h; cases h
    | some s' =>
      rw [hs] at h
      exact Or.inr ⟨q, lab, s', hp, hs, (Option.some.inj h).symm⟩

/-- **a joint history is a history of the joint messaging model `Comm`** (so C01, C02ME, C02C01, DistComm apply) -/
theorem run_projC {P : Par} {S S' : St} (jls : List Label) (h : run P S jls = some S') :
    Comm.run P.n P.nh S.c (jls.flatMap (projC P)) = some S'.c := by
  induction jls generalizing S with
  | nil => simp only [run] at h; cases h; rfl
  | cons l jls ih =>
    simp only [run] at h
    cases hst : step P S l with
    | none => rw [hst] at h; cases h
    | some S1 =>
      rw [hst] at h
      rw [List.flatMap_cons]
      exact Comm.run_append _ _ (step_some hst).2.1 (ih h)

theorem projR_cons (r : Nat) (l : Label) (jls : List Label) :
    projR r (l :: jls) = (match projK l with
      | some (q, lab) => if q = r then [lab] else []
      | none => []) ++ projR r jls := by
  unfold projR
  rw [List.filterMap_cons]
  cases projK l with
  | none => rfl
  | some p =>
    obtain ⟨q, lab⟩ := p
    by_cases hq : q = r <;> simp [hq]

/-- **the history of every rank is a history of the count-cache model `Cache`** (so the C15 theorems apply) -/
theorem run_projK {P : Par} {S S' : St} (jls : List Label) (h : run P S jls = some S') (r : Nat) :
    Cache.run (csetCfg P.nslots) (S.k r) (projR r jls) = some (S'.k r) := by
  induction jls generalizing S with
  | nil => simp only [run] at h; cases h; rfl
  | cons l jls ih =>
    simp only [run] at h
    cases hst : step P S l with
    | none => rw [hst] at h; cases h
    | some S1 =>
      rw [hst] at h
      have := ih h
      rw [projR_cons]
      rcases kStep_cases (step_some hst).2.2 with ⟨hp, hk⟩ | ⟨q, lab, s', hp, hs, hk⟩
      · rw [hp]
        rw [hk] at this
        simpa using this
      · rw [hp]
        by_cases hq : q = r
        · subst hq
          rw [hk, upd_same] at this
          simp only [if_true, List.singleton_append, Cache.run, hs]
          exact this
        · rw [hk, upd_other _ _ _ _ (fun e => hq e.symm)] at this
          simpa [hq] using this

/-! ### what the `Comm` side of a cache label does to the callback counter -/

theorem comm_run_single {n : Nat} {nh : Nat → Nat → Nat} {c c' : Comm.St} {l : Comm.Label}
    (h : Comm.run n nh c [l] = some c') : Comm.step n nh c l = some c' := by
  simp only [Comm.run] at h
  cases hs : Comm.step n nh c l with
  | none => rw [hs] at h; cases h
  | some c1 => rw [hs] at h; simpa using h

theorem comm_cbs_allowed {n : Nat} {nh : Nat → Nat → Nat} {c c' : Comm.St} {l : Comm.Label}
    (ha : allowed l = true) (h : Comm.step n nh c l = some c') : c'.b.cbs = c.b.cbs := by
  have hB := (Comm.step_some h).2.2.1
  cases l with
  | async r uid dest direct => cases ha
  | regcb r => cases ha
  | runcb r msgs j => cases ha
  | isend r hop => simp only [Comm.projB, BarrierME.run] at hB; rw [← Option.some.inj hB]
  | recvBegin r src seq => simp only [Comm.projB, BarrierME.run] at hB; rw [← Option.some.inj hB]
  | fwd r uid => simp only [Comm.projB, BarrierME.run] at hB; rw [← Option.some.inj hB]
  | recvEnd r => simp only [Comm.projB, BarrierME.run] at hB; rw [← Option.some.inj hB]
  | execBegin r uid =>
    simp only [Comm.projB, Comm.bRun_single, BarrierME.step] at hB
    split at hB
    · rw [← Option.some.inj hB]
    · cases hB
  | execEnd r uid =>
    simp only [Comm.projB, Comm.bRun_single, BarrierME.step] at hB
    split at hB
    · rw [← Option.some.inj hB]
    · cases hB
  | enter r =>
    simp only [Comm.projB, Comm.bRun_single, BarrierME.step] at hB
    split at hB
    · rw [← Option.some.inj hB]
    · cases hB
  | contribute r =>
    simp only [Comm.projB, Comm.bRun_single, BarrierME.step] at hB
    split at hB
    · rw [← Option.some.inj hB]
    · cases hB
  | result r =>
    simp only [Comm.projB, Comm.bRun_single, BarrierME.step] at hB
    split at hB
    · rw [← Option.some.inj hB]
    · cases hB
  | exit r =>
    simp only [Comm.projB, Comm.bRun_single, BarrierME.step] at hB
    split at hB
    · rw [← Option.some.inj hB]
    · cases hB

theorem comm_cbs_async {n : Nat} {nh : Nat → Nat → Nat} {c c' : Comm.St} {r uid dest : Nat} {direct : Bool}
    (h : Comm.step n nh c (.async r uid dest direct) = some c') : c'.b.cbs = c.b.cbs := by
  have hB := (Comm.step_some h).2.2.1
  simp only [Comm.projB, Comm.bRun_single, BarrierME.step] at hB
  split at hB
  · rw [← Option.some.inj hB]
  · cases hB

theorem comm_cbs_regcb {n : Nat} {nh : Nat → Nat → Nat} {c c' : Comm.St} {r : Nat}
    (h : Comm.step n nh c (.regcb r) = some c') : c'.b.cbs = upd c.b.cbs r (c.b.cbs r + 1) := by
  have hB := (Comm.step_some h).2.2.1
  simp only [Comm.projB, Comm.bRun_single, BarrierME.step] at hB
  split at hB
  · rw [← Option.some.inj hB]
  · cases hB

theorem comm_cbs_runcb {n : Nat} {nh : Nat → Nat → Nat} {c c' : Comm.St} {r j : Nat} {msgs : List Comm.Msg}
    (h : Comm.step n nh c (.runcb r msgs j) = some c') :
    0 < c.b.cbs r ∧ c'.b.cbs = upd c.b.cbs r (c.b.cbs r - 1 + j) := by
  have hB := (Comm.step_some h).2.2.1
  simp only [Comm.projB, Comm.bRun_single, BarrierME.step] at hB
  split at hB
  · rename_i hc
    rw [← Option.some.inj hB]
    exact ⟨hc.2.1, rfl⟩
  · cases hB

/-! ### the linking invariant: the communicator holds a callback for every cache that needs one -/

def JInv (S : St) : Prop := ∀ q, KInv (S.k q) ∧ owed (S.k q) ≤ S.c.b.cbs q

theorem jinv_init : JInv init := fun _ => ⟨kinv_init, Nat.le_refl _⟩

theorem b2n_le_one (b : Bool) : b2n b ≤ 1 := by cases b <;> decide

theorem step_jinv {P : Par} {S S' : St} {l : Label} (hi : JInv S) (h : step P S l = some S') : JInv S' := by
  obtain ⟨hg, hc, hk⟩ := step_some h
  rcases kStep_cases hk with ⟨hp, hk'⟩ | ⟨q, lab, s', hp, hs, hk'⟩
  · -- a `Comm` label alone
    cases l with
    | comm l0 =>
      have := comm_cbs_allowed hg (comm_run_single hc)
      intro q
      rw [hk', this]; exact hi q
    | _ => cases hp
  · obtain ⟨hkq, hrel⟩ := step_kinv P.nslots (S.k q) s' lab (hi q).1 hs
    have hoq := (hi q).2
    -- other ranks: cache untouched, counter untouched or only that of `q` changed
    have other : ∀ x, x ≠ q → S'.k x = S.k x := fun x hx => by rw [hk', upd_other _ _ _ _ hx]
    have same : S'.k q = s' := by rw [hk', upd_same]
    cases l with
    | comm l0 => cases hp
    | ins r k first =>
      simp only [projK, Option.some.injEq, Prod.mk.injEq] at hp
      obtain ⟨rfl, rfl⟩ := hp
      simp only at hrel
      simp only [guard, Bool.and_eq_true, decide_eq_true_eq, beq_iff_eq] at hg
      cases hreg : (S.k r).reg with
      | true =>
        have hf : first = false := by rw [hg.2, hreg]; rfl
        subst hf
        simp only [projC, Bool.false_eq_true, if_false, Comm.run, Option.some.injEq] at hc
        intro x
        by_cases hx : x = r
        · subst hx
          rw [same, ← hc]
          refine ⟨hkq, ?_⟩
          unfold owed at hoq ⊢
          rw [hrel.1, hrel.2]; rw [hreg] at hoq; exact hoq
        · rw [other x hx, ← hc]; exact hi x
      | false =>
        have hf : first = true := by rw [hg.2, hreg]; rfl
        subst hf
        simp only [projC, if_true] at hc
        have hcb := comm_cbs_regcb (comm_run_single hc)
        intro x
        by_cases hx : x = r
        · subst hx
          rw [same, hcb, upd_same]
          refine ⟨hkq, ?_⟩
          unfold owed at hoq ⊢
          rw [hrel.1, hrel.2]; rw [hreg] at hoq
          simp [b2n] at hoq ⊢
          omega
        · rw [other x hx, hcb, upd_other _ _ _ _ hx]; exact hi x
    | pack r uid =>
      simp only [projK, Option.some.injEq, Prod.mk.injEq] at hp
      obtain ⟨rfl, rfl⟩ := hp
      simp only at hrel
      have hcb := comm_cbs_async (comm_run_single hc)
      intro x
      by_cases hx : x = r
      · subst hx
        rw [same, hcb]
        refine ⟨hkq, ?_⟩
        unfold owed at hoq ⊢
        rw [hrel.1, hrel.2]; exact hoq
      · rw [other x hx, hcb]; exact hi x
    | cbpack r uid =>
      simp only [projK, Option.some.injEq, Prod.mk.injEq] at hp
      obtain ⟨rfl, rfl⟩ := hp
      simp only at hrel
      obtain ⟨hpos, hcb⟩ := comm_cbs_runcb (comm_run_single hc)
      intro x
      by_cases hx : x = r
      · subst hx
        rw [same, hcb, upd_same]
        refine ⟨hkq, ?_⟩
        unfold owed at hoq ⊢
        rw [hrel.1, hrel.2]; omega
      · rw [other x hx, hcb, upd_other _ _ _ _ hx]; exact hi x
    | ret r =>
      simp only [projK, Option.some.injEq, Prod.mk.injEq] at hp
      obtain ⟨rfl, rfl⟩ := hp
      simp only at hrel
      simp only [projC, Comm.run, Option.some.injEq] at hc
      intro x
      by_cases hx : x = r
      · subst hx
        rw [same, ← hc]
        refine ⟨hkq, ?_⟩
        unfold owed at hoq ⊢
        rw [hrel.1, hrel.2]; exact hoq
      · rw [other x hx, ← hc]; exact hi x
    | done r =>
      simp only [projK, Option.some.injEq, Prod.mk.injEq] at hp
      obtain ⟨rfl, rfl⟩ := hp
      simp only at hrel
      simp only [projC, Comm.run, Option.some.injEq] at hc
      intro x
      by_cases hx : x = r
      · subst hx
        rw [same, ← hc]
        refine ⟨hkq, ?_⟩
        unfold owed at hoq ⊢
        rw [hrel.1, hrel.2]; exact hoq
      · rw [other x hx, ← hc]; exact hi x
    | fb r =>
      simp only [projK, Option.some.injEq, Prod.mk.injEq] at hp
      obtain ⟨rfl, rfl⟩ := hp
      simp only at hrel
      obtain ⟨hpos, hcb⟩ := comm_cbs_runcb (comm_run_single hc)
      intro x
      by_cases hx : x = r
      · subst hx
        rw [same, hcb, upd_same]
        refine ⟨hkq, ?_⟩
        unfold owed at hoq ⊢
        rw [hrel.2.2.1, hrel.2.2.2]; rw [hrel.1, hrel.2.1] at hoq
        simp [b2n] at hoq ⊢
        first | done | omega
      · rw [other x hx, hcb, upd_other _ _ _ _ hx]; exact hi x
    | fe r =>
      simp only [projK, Option.some.injEq, Prod.mk.injEq] at hp
      obtain ⟨rfl, rfl⟩ := hp
      simp only at hrel
      obtain ⟨hpos, hcb⟩ := comm_cbs_runcb (comm_run_single hc)
      intro x
      by_cases hx : x = r
      · subst hx
        rw [same, hcb, upd_same]
        refine ⟨hkq, ?_⟩
        unfold owed at hoq ⊢
        rw [hrel.1, hrel.2.2]; rw [hrel.2.1] at hoq
        simp [b2n] at hoq ⊢
        omega
      · rw [other x hx, hcb, upd_other _ _ _ _ hx]; exact hi x

theorem run_jinv {P : Par} {S S' : St} (jls : List Label) (hi : JInv S) (h : run P S jls = some S') : JInv S' := by
  induction jls generalizing S with
  | nil => simp only [run] at h; cases h; exact hi
  | cons l jls ih =>
    simp only [run] at h
    cases hst : step P S l with
    | none => rw [hst] at h; cases h
    | some S1 => rw [hst] at h; exact ih (step_jinv hi hst) h

/-! ### what the history issued, rank by rank -/

theorem run_ranks {P : Par} {S S' : St} (jls : List Label) (h : run P S jls = some S') :
    (∀ p ∈ insList jls, p.1 < P.n) ∧ (∀ p ∈ sentList jls, p.1 < P.n) := by
  induction jls generalizing S with
  | nil => exact ⟨fun p hp => (List.not_mem_nil hp).elim, fun p hp => (List.not_mem_nil hp).elim⟩
  | cons l jls ih =>
    simp only [run] at h
    cases hst : step P S l with
    | none => rw [hst] at h; cases h
    | some S1 =>
      rw [hst] at h
      obtain ⟨i1, i2⟩ := ih h
      have hg := (step_some hst).1
      unfold insList sentList at *
      cases l <;> simp only [List.filterMap_cons, List.mem_cons] <;>
        simp only [guard, Bool.and_eq_true, decide_eq_true_eq] at hg
      all_goals first
        | exact ⟨i1, i2⟩
        | exact ⟨fun p hp => by rcases hp with rfl | hp; exact hg.1; exact i1 p hp, i2⟩
        | exact ⟨i1, fun p hp => by rcases hp with rfl | hp; exact hg.1; exact i2 p hp⟩
        | exact ⟨i1, fun p hp => by rcases hp with rfl | hp; exact hg.1.1; exact i2 p hp⟩

/-- **the messages emitted by the caches are the asyncs of `Comm`**: the messages the joint history issues in `Comm` are
exactly the packed messages, each addressed point-to-point to the owner of its key -/
theorem issued_projC {P : Par} {S S' : St} (jls : List Label) (h : run P S jls = some S') :
    (jls.flatMap (projC P)).flatMap Comm.issued =
      (sentList jls).map (fun p => (p.2, P.owner (P.opOf p.2).key, false)) := by
  induction jls generalizing S with
  | nil => rfl
  | cons l jls ih =>
    simp only [run] at h
    cases hst : step P S l with
    | none => rw [hst] at h; cases h
    | some S1 =>
      rw [hst] at h
      have := ih h
      have hg := (step_some hst).1
      rw [List.flatMap_cons, List.flatMap_append, this]
      unfold sentList
      cases l with
      | comm l0 =>
        simp only [guard] at hg
        cases l0 <;> first | rfl | cases hg
      | ins r k first => cases first <;> rfl
      | pack r uid => rfl
      | cbpack r uid => rfl
      | ret r => rfl
      | done r => rfl
      | fb r => rfl
      | fe r => rfl

theorem emitted_cons {s s' : Cache.St Nat} {cfg : Cache.Cfg Nat} {lab : Cache.Label Nat} (ls : List (Cache.Label Nat))
    (hs : Cache.step cfg s lab = some s') :
    Cache.emitted cfg s (lab :: ls) = (match lab, Cache.pending s with
      | .pack, some m => [m]
      | _, _ => []) ++ Cache.emitted cfg s' ls := by
  simp only [Cache.emitted, hs]
  split <;> simp_all

/-- per rank, the messages `Cache.emitted` lists (what `pack` serialised, oldest first) are the messages `opOf uid` of
the `Comm.async` / `Comm.runcb` labels of that rank, in order -/
theorem emitted_projR {P : Par} {S S' : St} (jls : List Label) (h : run P S jls = some S') (r : Nat) :
    Cache.emitted (csetCfg P.nslots) (S.k r) (projR r jls) =
      ((sentList jls).filter (fun p => p.1 == r)).map (fun p => P.opOf p.2) := by
  induction jls generalizing S with
  | nil => rfl
  | cons l jls ih =>
    simp only [run] at h
    cases hst : step P S l with
    | none => rw [hst] at h; cases h
    | some S1 =>
      rw [hst] at h
      have ih' := ih h
      obtain ⟨hg, _, hk⟩ := step_some hst
      rw [projR_cons]
      rcases kStep_cases hk with ⟨hp, hk'⟩ | ⟨q, lab, s', hp, hs, hk'⟩
      · rw [hp]
        rw [hk'] at ih'
        cases l with
        | comm l0 => simpa [sentList] using ih'
        | _ => cases hp
      · rw [hp]
        by_cases hq : q = r
        · subst hq
          rw [hk', upd_same] at ih'
          simp only [if_true, List.singleton_append]
          rw [emitted_cons _ hs, ih']
          cases l with
          | comm l0 => cases hp
          | ins r' k first =>
            simp only [projK, Option.some.injEq, Prod.mk.injEq] at hp
            obtain ⟨rfl, rfl⟩ := hp
            simp [sentList]
          | pack r' uid =>
            simp only [projK, Option.some.injEq, Prod.mk.injEq] at hp
            obtain ⟨rfl, rfl⟩ := hp
            simp only [guard, Bool.and_eq_true, decide_eq_true_eq, beq_iff_eq] at hg
            simp [sentList, hg.2]
          | cbpack r' uid =>
            simp only [projK, Option.some.injEq, Prod.mk.injEq] at hp
            obtain ⟨rfl, rfl⟩ := hp
            simp only [guard, Bool.and_eq_true, decide_eq_true_eq, beq_iff_eq] at hg
            simp [sentList, hg.1.2]
          | ret r' =>
            simp only [projK, Option.some.injEq, Prod.mk.injEq] at hp
            obtain ⟨rfl, rfl⟩ := hp
            simp [sentList]
          | done r' =>
            simp only [projK, Option.some.injEq, Prod.mk.injEq] at hp
            obtain ⟨rfl, rfl⟩ := hp
            simp [sentList]
          | fb r' =>
            simp only [projK, Option.some.injEq, Prod.mk.injEq] at hp
            obtain ⟨rfl, rfl⟩ := hp
            simp [sentList]
          | fe r' =>
            simp only [projK, Option.some.injEq, Prod.mk.injEq] at hp
            obtain ⟨rfl, rfl⟩ := hp
            simp [sentList]
        · rw [hk', upd_other _ _ _ _ (fun e => hq e.symm)] at ih'
          simp only [hq, if_false, List.nil_append]
          rw [ih']
          cases l with
          | comm l0 => cases hp
          | ins r' k first => simp [sentList]
          | pack r' uid =>
            simp only [projK, Option.some.injEq, Prod.mk.injEq] at hp
            obtain ⟨rfl, rfl⟩ := hp
            simp [sentList, hq]
          | cbpack r' uid =>
            simp only [projK, Option.some.injEq, Prod.mk.injEq] at hp
            obtain ⟨rfl, rfl⟩ := hp
            simp [sentList, hq]
          | ret r' => simp [sentList]
          | done r' => simp [sentList]
          | fb r' => simp [sentList]
          | fe r' => simp [sentList]

/-- per rank, the contributions `Cache.received` lists are the `async_insert` calls of that rank, each with count 1 -/
theorem received_projR (jls : List Label) (r : Nat) :
    Cache.received (projR r jls) = ((insList jls).filter (fun p => p.1 == r)).map (fun p => (p.2, 1)) := by
  induction jls with
  | nil => rfl
  | cons l jls ih =>
    rw [projR_cons]
    cases l with
    | comm l0 => simpa [insList, projK] using ih
    | ins q k first =>
      by_cases hq : q = r
      · subst hq
        simp only [projK, if_true, List.singleton_append, Cache.received, ih]
        simp [insList]
      · simp only [projK, hq, if_false, List.nil_append, ih]
        simp [insList, hq]
    | pack q uid =>
      by_cases hq : q = r <;> simp only [projK, hq, if_true, if_false, List.singleton_append, List.nil_append,
        Cache.received, ih] <;> simp [insList]
    | cbpack q uid =>
      by_cases hq : q = r <;> simp only [projK, hq, if_true, if_false, List.singleton_append, List.nil_append,
        Cache.received, ih] <;> simp [insList]
    | ret q =>
      by_cases hq : q = r <;> simp only [projK, hq, if_true, if_false, List.singleton_append, List.nil_append,
        Cache.received, ih] <;> simp [insList]
    | done q =>
      by_cases hq : q = r <;> simp only [projK, hq, if_true, if_false, List.singleton_append, List.nil_append,
        Cache.received, ih] <;> simp [insList]
    | fb q =>
      by_cases hq : q = r <;> simp only [projK, hq, if_true, if_false, List.singleton_append, List.nil_append,
        Cache.received, ih] <;> simp [insList]
    | fe q =>
      by_cases hq : q = r <;> simp only [projK, hq, if_true, if_false, List.singleton_append, List.nil_append,
        Cache.received, ih] <;> simp [insList]

/-! ### the owner side -/

theorem cnt_foldl (L : List (Cache.Msg Nat)) (g : Nat → Nat) (k : Nat) :
    (L.foldl (fun st m => (cntContainer.apply st m).1) g) k = g k + Cache.ownerCount L k := by
  induction L generalizing g with
  | nil => simp [Cache.ownerCount]
  | cons m L ih =>
    rw [List.foldl_cons, ih]
    unfold Cache.ownerCount
    rw [Cache.msgValsOf_cons]
    by_cases hm : m.key = k
    · simp [cntContainer, hm]; omega
    · simp [cntContainer, hm]

theorem ownerCount_perm {l₁ l₂ : List (Cache.Msg Nat)} (h : l₁.Perm l₂) (k : Nat) :
    Cache.ownerCount l₁ k = Cache.ownerCount l₂ k :=
  Cache.perm_sum ((h.filter _).map _)

/-- at the first return of a barrier every cache is quiet: no container call active, no callback registered, nothing
cached — and the `Cache` model's own label `bar` ("barrier() returns on this rank") is enabled -/
theorem caches_quiet_at_exit (P : Par) (hn : 0 < P.nslots) (jls : List Label) (S : St)
    (hrun : run P init jls = some S) (r : Nat) (hr : r < P.n)
    (hx : BarrierME.exitEnabled S.c.b r = true) (hne : ∀ q, q < P.n → S.c.b.epoch q ≤ S.c.b.epoch r)
    (q : Nat) (hq : q < P.n) :
    (S.k q).stack = [] ∧ (S.k q).reg = false ∧ Cache.quiet (S.k q) ∧
      Cache.step (csetCfg P.nslots) (S.k q) .bar = some (S.k q) := by
  have hC : Comm.run P.n P.nh Comm.init (jls.flatMap (projC P)) = some S.c := run_projC jls hrun
  have hdead := BarrierME.C02ME_exit_implies_quiescent P.n S.c.b _ (Comm.run_projB _ hC) r hr hx _ rfl hne
  have hcb : S.c.b.cbs q = 0 := (hdead.2 q hq).2.2.2
  obtain ⟨⟨_, hj⟩, how⟩ := run_jinv jls jinv_init hrun q
  rw [hcb] at how
  unfold owed at how
  have hreg : (S.k q).reg = false := by
    cases h : (S.k q).reg with
    | false => rfl
    | true => rw [h] at how; simp [b2n] at how
  have hfall : hasFall (S.k q).stack = false := by
    cases h : hasFall (S.k q).stack with
    | false => rfl
    | true => rw [h] at how; simp [b2n] at how
  have hst : (S.k q).stack = [] := by
    cases h : (S.k q).stack with
    | nil => rfl
    | cons a b =>
      rcases hj (by rw [h]; simp) with h1 | h1
      · rw [hreg] at h1; cases h1
      · rw [hfall] at h1; cases h1
  have hK : Cache.run (csetCfg P.nslots) Cache.St.init (projR q jls) = some (S.k q) := run_projK jls hrun q
  have hquiet := (Cache.barrier_leaves_nothing_cached P.nslots hn (projR q jls) (S.k q) hK hst hreg 0).1
  refine ⟨hst, hreg, hquiet, ?_⟩
  simp [Cache.step, hst, hreg]

/-- **C15 end to end** (`ygm::container::counting_set`).  For every number of ranks, every routing function, every cache
size, every key partitioner and every history of the PRODUCT of the joint messaging model with one count cache per
rank — `async_insert` from main programs and from handlers at any nesting depth, evictions, overflow flushes, the
pre-barrier flush-all callback with handlers running during its sends, any interleaving of all ranks, any number of
barriers —: at the FIRST return of a barrier, for every key `k`,

* `count(k)` on `owner k` — the value the owner's map holds in the memory induced by the history (changed only by the
  handlers `execEnd`, each adding the count its message carries) — is exactly the NUMBER of `async_insert(k)` calls
  issued so far on all ranks from any context;
* no other rank holds a count for `k`;
* the handlers executed so far are a permutation of all packed messages (none in a buffer, on the wire or cached). -/
theorem C15_count_after_barrier (P : Par) (hn : 0 < P.nslots) (jls : List Label) (S : St)
    (hrun : run P init jls = some S) (r : Nat) (hr : r < P.n)
    (hx : BarrierME.exitEnabled S.c.b r = true) (hne : ∀ q, q < P.n → S.c.b.epoch q ≤ S.c.b.epoch r) (k : Nat) :
    DistComm.memOf cntContainer P.opOf P.n P.nh (fun _ _ => 0) (jls.flatMap (projC P)) (P.owner k) k
      = ((insList jls).filter (fun p => p.2 = k)).length ∧
    (∀ q, q ≠ P.owner k →
      DistComm.memOf cntContainer P.opOf P.n P.nh (fun _ _ => 0) (jls.flatMap (projC P)) q k = 0) ∧
    (DistComm.execOps P.opOf S.c).Perm ((sentList jls).map (fun p => P.opOf p.2)) := by
  have hC : Comm.run P.n P.nh Comm.init (jls.flatMap (projC P)) = some S.c := run_projC jls hrun
  have hiss := issued_projC jls hrun
  have ha : DistComm.Addressed (fun m => P.owner m.key) P.opOf (jls.flatMap (projC P)) := by
    intro m hm
    rw [hiss] at hm
    obtain ⟨p, _, rfl⟩ := List.mem_map.1 hm
    exact ⟨rfl, rfl⟩
  have hperm := DistComm.execOps_perm_issuedOps P.opOf P.n P.nh _ S.c hC r hr hx hne
  have hio : DistComm.issuedOps P.opOf (jls.flatMap (projC P)) = (sentList jls).map (fun p => P.opOf p.2) := by
    unfold DistComm.issuedOps
    rw [hiss, List.map_map]; rfl
  rw [hio] at hperm
  -- the induced memory of a rank, at key k
  have hmem : ∀ q, DistComm.memOf cntContainer P.opOf P.n P.nh (fun _ _ => 0) (jls.flatMap (projC P)) q k =
      Cache.ownerCount ((DistComm.execOps P.opOf S.c).filter (fun o => P.owner o.key = q)) k := by
    intro q
    unfold DistComm.memOf
    rw [DistComm.mem_eq_execGlobal cntContainer (fun m => P.owner m.key) P.opOf P.n P.nh (fun _ _ => 0) _ S.c hC ha q,
      Dist.execGlobal_rank, Dist.run_state_eq_foldl, cnt_foldl]
    simp
  -- the packed messages, rank by rank, are what the caches emitted; every cache is quiet
  let runs := (List.range P.n).map (fun q => projR q jls)
  have hAQ : Cache.AllQuiet P.nslots runs := by
    intro ls hls
    obtain ⟨q, hq, rfl⟩ := List.mem_map.1 hls
    have hq' := List.mem_range.1 hq
    exact ⟨S.k q, run_projK jls hrun q, (caches_quiet_at_exit P hn jls S hrun r hr hx hne q hq').2.2.1⟩
  have hones : ∀ ls ∈ runs, Cache.AllOnes ls := by
    intro ls hls p hp
    obtain ⟨q, _, rfl⟩ := List.mem_map.1 hls
    rw [received_projR] at hp
    obtain ⟨x, _, rfl⟩ := List.mem_map.1 hp
    rfl
  have hcount := Cache.count_eq_number_of_inserts P.nslots runs hAQ hones k
  obtain ⟨hri, hrs⟩ := run_ranks jls hrun
  have hmsgs : ((sentList jls).map (fun p => P.opOf p.2)).Perm (Cache.allMsgs P.nslots runs) := by
    have hp := DistComm.perm_flatMap_filter (fun p : Nat × Nat => p.1) (List.range P.n) (sentList jls)
      List.nodup_range (fun p hp => List.mem_range.2 (hrs p hp))
    have := hp.map (fun p => P.opOf p.2)
    rw [List.map_flatMap] at this
    refine this.trans (List.Perm.of_eq ?_)
    unfold Cache.allMsgs
    rw [List.flatMap_map]
    apply DistComm.flatMap_congr_mem
    intro q _
    exact (emitted_projR jls hrun q).symm
  have hins : ((insList jls).map (fun p => (p.2, 1))).Perm (Cache.allIns runs) := by
    have hp := DistComm.perm_flatMap_filter (fun p : Nat × Nat => p.1) (List.range P.n) (insList jls)
      List.nodup_range (fun p hp => List.mem_range.2 (hri p hp))
    have := hp.map (fun p : Nat × Nat => (p.2, 1))
    rw [List.map_flatMap] at this
    refine this.trans (List.Perm.of_eq ?_)
    unfold Cache.allIns
    rw [List.flatMap_map]
    apply DistComm.flatMap_congr_mem
    intro q _
    exact (received_projR jls q).symm
  have hlen : (Cache.valsOf k (Cache.allIns runs)).length = ((insList jls).filter (fun p => p.2 = k)).length := by
    rw [← (Cache.valsOf_perm k hins).length_eq]
    unfold Cache.valsOf
    rw [List.length_map, List.filter_map, List.length_map]
    rfl
  have hall : Cache.ownerCount (DistComm.execOps P.opOf S.c) k = ((insList jls).filter (fun p => p.2 = k)).length := by
    rw [ownerCount_perm hperm k, ownerCount_perm hmsgs k, hcount, hlen]
  refine ⟨?_, ?_, hperm⟩
  · rw [hmem, ← hall]
    unfold Cache.ownerCount Cache.msgValsOf
    rw [List.filter_filter]
    congr 2
    apply List.filter_congr
    intro o _
    by_cases ho : o.key = k <;> simp [ho]
  · intro q hq
    rw [hmem]
    unfold Cache.ownerCount Cache.msgValsOf
    rw [List.filter_filter]
    have : (DistComm.execOps P.opOf S.c).filter (fun a => decide (a.key = k) && decide (P.owner a.key = q)) = [] := by
      apply List.filter_eq_nil_iff.2
      intro o _
      by_cases ho : o.key = k
      · simp [ho]; exact fun e => hq e.symm
      · simp [ho]
    rw [this]; rfl

/-! ### non-vacuity (C15) -/

section CSetExample

/-- which (key, count) each packed message carries -/
private def csOp : Nat → Cache.Msg Nat
  | 1 => ⟨true, 1, 1⟩
  | 2 => ⟨true, 3, 1⟩
  | _ => ⟨true, 3, 2⟩

/-- 2 ranks, a 2-slot cache (keys 1 and 3 collide in slot 1), keys owned by `key % 2`, direct routing -/
private def csPar : Par := { n := 2, nslots := 2, nh := fun _ d => d, owner := fun k => k % 2, opOf := csOp }

private def csRound2 : List Label :=
  [.comm (.contribute 0), .comm (.contribute 1), .comm (.result 0), .comm (.result 1)]

/-- rank 0 inserts key 1 (registers the callback) and then key 3, which EVICTS key 1: the eviction's message (uid 1) is
an `async` to rank 1.  Rank 1 inserts key 3.  Both enter the barrier.  While the handler of uid 1 runs on rank 1 (inside
the barrier) it inserts key 3 again (a handler-context insert, combined in the cache).  The pre-barrier callbacks flush:
rank 0 sends (3, 1) as uid 2, rank 1 sends (3, 2) to itself as uid 3. -/
private def csDemo : List Label :=
  [.ins 0 1 true, .done 0, .ins 0 3 false, .pack 0 1, .ret 0, .done 0, .ins 1 3 true, .done 1,
   .comm (.enter 0), .comm (.enter 1),
   .comm (.isend 0 1), .comm (.recvBegin 1 0 0), .comm (.execBegin 1 1), .ins 1 3 false, .done 1,
   .comm (.execEnd 1 1), .comm (.recvEnd 1),
   .fb 0, .cbpack 0 2, .ret 0, .fe 0, .fb 1, .cbpack 1 3, .ret 1, .fe 1,
   .comm (.isend 0 1), .comm (.recvBegin 1 0 1), .comm (.execBegin 1 2), .comm (.execEnd 1 2), .comm (.recvEnd 1),
   .comm (.isend 1 1), .comm (.recvBegin 1 1 0), .comm (.execBegin 1 3), .comm (.execEnd 1 3), .comm (.recvEnd 1)]
  ++ csRound2 ++ csRound2

set_option maxRecDepth 65536 in
/-- the joint history is accepted; at its end the exit rule holds, nobody has left barrier 0, all three messages
have executed on rank 1 and both caches are back in their initial (quiet) state -/
example : ((run csPar init csDemo).map (fun S =>
    (S.c.d.executed, BarrierME.exitEnabled S.c.b 0, BarrierME.exitEnabled S.c.b 1, (List.range 2).map S.c.b.epoch,
     decide (S.k 0 = Cache.St.init), decide (S.k 1 = Cache.St.init)))) =
    some ([(1, 1), (1, 2), (1, 3)], true, true, [0, 0], true, true) := by decide

set_option maxRecDepth 65536 in
/-- what the theorem says about it: count(3) = 3 = number of `async_insert(3)` (one on rank 0, two on rank 1, one of
them from a handler), count(1) = 1, both on rank 1; rank 0 holds nothing -/
example :
    DistComm.memOf cntContainer csOp 2 (fun _ d => d) (fun _ _ => 0) (csDemo.flatMap (projC csPar)) 1 3 = 3 ∧
    ((insList csDemo).filter (fun p => p.2 = 3)).length = 3 ∧
    DistComm.memOf cntContainer csOp 2 (fun _ d => d) (fun _ _ => 0) (csDemo.flatMap (projC csPar)) 1 1 = 1 ∧
    DistComm.memOf cntContainer csOp 2 (fun _ d => d) (fun _ _ => 0) (csDemo.flatMap (projC csPar)) 0 3 = 0 ∧
    sentList csDemo = [(0, 1), (0, 2), (1, 3)] := by decide

/-- the end-to-end theorem applied to the demo -/
example (S : St) (hrun : run csPar init csDemo = some S) (hx : BarrierME.exitEnabled S.c.b 0 = true)
    (hne : ∀ q, q < 2 → S.c.b.epoch q ≤ S.c.b.epoch 0) :
    DistComm.memOf cntContainer csOp 2 (fun _ d => d) (fun _ _ => 0) (csDemo.flatMap (projC csPar)) 1 3
      = ((insList csDemo).filter (fun p => p.2 = 3)).length :=
  (C15_count_after_barrier csPar (by decide) csDemo S hrun 0 (by decide) hx hne 3).1

set_option maxRecDepth 65536 in
/-- the joint guards bite: a packed message must carry what the cache copied out (uid 2 carries (3, 1), not the evicted
(1, 1)); the flush-all callback cannot begin while an insert is in progress; no reduction round can start while the
flush-all loop is in progress (its continuation is a pending callback) -/
example :
    (run csPar init [.ins 0 1 true, .done 0, .ins 0 3 false, .pack 0 2]).isNone = true ∧
    (run csPar init [.ins 0 1 true, .fb 0]).isNone = true ∧
    (run csPar init [.ins 0 1 true, .done 0, .comm (.enter 0), .fb 0, .comm (.contribute 0)]).isNone = true ∧
    (run csPar init [.ins 0 1 true, .done 0, .comm (.enter 0), .comm (.contribute 0)]).isNone = true := by decide

end CSetExample

end YgmVerif.CSetComm

/-! ## C17 disjoint_set over the joint messaging model -/

namespace YgmVerif.DSetComm
open YgmVerif
open YgmVerif.Barrier (upd upd_same upd_other)

/-- a handler body only APPENDS to the in-flight list (what it sends) -/
theorem handle_msgs_append (s : DSet.State) (m : DSet.Msg) : ∃ new, (DSet.handle s m).msgs = s.msgs ++ new := by
  cases m with
  | setp x z => exact ⟨[], by simp [DSet.handle, DSet.onSetp]⟩
  | resolve p x k =>
    simp only [DSet.handle, DSet.onResolve]
    split
    · exact ⟨[], by simp⟩
    · split
      · exact ⟨[], by simp⟩
      · split
        · refine ⟨[], ?_⟩
          unfold DSet.increaseRank
          split <;> simp
        · exact ⟨[DSet.Msg.setp x (DSet.parent (DSet.visit s p) p)], by simp⟩
  | walk ex t c op oi ork oa ob =>
    simp only [DSet.handle, DSet.onWalk, DSet.splitChild]
    split <;> split <;> (try split) <;> simp <;> exact ⟨_, rfl⟩

theorem handle_msgs (s : DSet.State) (m : DSet.Msg) : (DSet.handle s m).msgs = s.msgs ++ sent s m := by
  obtain ⟨new, h⟩ := handle_msgs_append s m
  unfold sent
  rw [h, List.drop_left]

theorem flatMap_upd_perm {β : Type} (f g : Nat → List β) (r : Nat) (x : List β)
    (hne : ∀ q, q ≠ r → g q = f q) (hr : (g r).Perm (x ++ f r)) :
    ∀ (L : List Nat), L.Nodup → r ∈ L → (L.flatMap g).Perm (x ++ L.flatMap f) := by
  intro L
  induction L with
  | nil => intro _ h; cases h
  | cons a L ih =>
    intro hnd hmem
    obtain ⟨ha, hnd'⟩ := List.nodup_cons.1 hnd
    simp only [List.flatMap_cons]
    by_cases har : a = r
    · subst har
      have : L.flatMap g = L.flatMap f := by
        apply DistComm.flatMap_congr_mem
        intro q hq
        exact hne q (fun e => ha (e ▸ hq))
      rw [this, ← List.append_assoc]
      exact List.Perm.append_right _ hr
    · have hmem' : r ∈ L := by
        rcases List.mem_cons.1 hmem with h | h
        · exact absurd h.symm har
        · exact h
      rw [hne a har]
      exact (List.Perm.append_left _ (ih hnd' hmem')).trans (List.perm_append_comm_assoc _ _ _)

theorem map_erase_perm {α β : Type} [BEq α] [LawfulBEq α] [BEq β] [LawfulBEq β] (f : α → β) (l : List α) (a : α)
    (h : a ∈ l) : ((l.map f).erase (f a)).Perm ((l.erase a).map f) := by
  have h1 : (l.map f).Perm (f a :: (l.erase a).map f) := (List.perm_cons_erase h).map f
  have h2 := h1.erase (f a)
  rw [List.erase_cons_head] at h2
  exact h2

/-! ### the component histories are recoverable -/

theorem step_some {P : Par} {S S' : St} {l : Label} (h : step P S l = some S') :
    guard P S l = true ∧ Comm.run P.n P.nh S.c (projC P l) = some S'.c ∧
      S'.ds = (next P S l).1 ∧ S'.fl = (next P S l).2.1 ∧ S'.outbox = (next P S l).2.2 := by
  unfold step at h
  split at h
  · rename_i hg
    split at h
    · rename_i c' hc
      cases h
      exact ⟨hg, hc, rfl, rfl, rfl⟩
    · cases h
  · cases h

/-- **a joint history is a history of the joint messaging model `Comm`** -/
theorem run_projC {P : Par} {S S' : St} (jls : List Label) (h : run P S jls = some S') :
    Comm.run P.n P.nh S.c (jls.flatMap (projC P)) = some S'.c := by
  induction jls generalizing S with
  | nil => simp only [run] at h; cases h; rfl
  | cons l jls ih =>
    simp only [run] at h
    cases hst : step P S l with
    | none => rw [hst] at h; cases h
    | some S1 =>
      rw [hst] at h
      rw [List.flatMap_cons]
      exact Comm.run_append _ _ (step_some hst).2.1 (ih h)

/-- **every joint history projects to a run of the disjoint_set message system `DSet`** (a simulation: `union` is
`DSet.Step.issue`, `begin` is `DSet.Step.deliver` of that very message, every other label leaves `DSet` where it is), and
the ghost `issued` of `DSet` is the list of unions of the history -/
theorem run_projDS {P : Par} {S S' : St} (jls : List Label) (h : run P S jls = some S') :
    DSet.Steps S.ds S'.ds ∧ S'.ds.issued = (unions jls).reverse ++ S.ds.issued := by
  induction jls generalizing S with
  | nil => simp only [run] at h; cases h; exact ⟨DSet.Steps.refl _, rfl⟩
  | cons l jls ih =>
    simp only [run] at h
    cases hst : step P S l with
    | none => rw [hst] at h; cases h
    | some S1 =>
      rw [hst] at h
      obtain ⟨i1, i2⟩ := ih h
      have hds := (step_some hst).2.2.1
      cases l with
      | comm l0 =>
        simp only [next] at hds
        rw [hds] at i1 i2
        exact ⟨i1, by simpa [unions] using i2⟩
      | hsend r uid =>
        simp only [next] at hds
        rw [hds] at i1 i2
        exact ⟨i1, by simpa [unions] using i2⟩
      | union r uid ex a b =>
        simp only [next] at hds
        rw [hds] at i1 i2
        refine ⟨DSet.Steps.trans (DSet.Steps.tail (DSet.Steps.refl _) (DSet.Step.issue S.ds ex a b)) i1, ?_⟩
        rw [i2]
        simp [unions, DSet.issue]
      | begin r uid =>
        simp only [next] at hds
        rw [hds] at i1 i2
        refine ⟨DSet.Steps.trans (DSet.Steps.tail (DSet.Steps.refl _) (DSet.Step.deliver S.ds _)) i1, ?_⟩
        rw [i2, DSet.issued_deliver]
        simp [unions]

/-! ### what the `Comm` side does to `und` and `busy` -/

theorem comm_run_single {n : Nat} {nh : Nat → Nat → Nat} {c c' : Comm.St} {l : Comm.Label}
    (h : Comm.run n nh c [l] = some c') : Comm.step n nh c l = some c' :=
  CSetComm.comm_run_single h

theorem comm_async {n : Nat} {nh : Nat → Nat → Nat} {c c' : Comm.St} {r uid dest : Nat} {direct : Bool}
    (h : Comm.step n nh c (.async r uid dest direct) = some c') :
    c'.b.und = c.b.und + 1 ∧ c'.b.busy = c.b.busy := by
  have hB := (Comm.step_some h).2.2.1
  simp only [Comm.projB, Comm.bRun_single, BarrierME.step] at hB
  split at hB
  · rw [← Option.some.inj hB]; exact ⟨rfl, rfl⟩
  · cases hB

theorem comm_execBegin {n : Nat} {nh : Nat → Nat → Nat} {c c' : Comm.St} {r uid : Nat}
    (h : Comm.step n nh c (.execBegin r uid) = some c') :
    0 < c.b.und ∧ c'.b.und = c.b.und - 1 ∧ c'.b.busy = upd c.b.busy r true := by
  have hB := (Comm.step_some h).2.2.1
  simp only [Comm.projB, Comm.bRun_single, BarrierME.step] at hB
  split at hB
  · rename_i hc
    rw [← Option.some.inj hB]; exact ⟨hc.2.1, rfl, rfl⟩
  · cases hB

theorem comm_allowed {n : Nat} {nh : Nat → Nat → Nat} {c c' : Comm.St} {l : Comm.Label}
    (ha : allowed l = true) (h : Comm.step n nh c l = some c') :
    c'.b.und = c.b.und ∧ (c'.b.busy = c.b.busy ∨ ∃ r uid, l = .execEnd r uid ∧ c'.b.busy = upd c.b.busy r false) := by
  have hB := (Comm.step_some h).2.2.1
  cases l with
  | async r uid dest direct => cases ha
  | runcb r msgs j => cases ha
  | execBegin r uid => cases ha
  | isend r hop => simp only [Comm.projB, BarrierME.run] at hB; rw [← Option.some.inj hB]; exact ⟨rfl, Or.inl rfl⟩
  | recvBegin r src seq =>
    simp only [Comm.projB, BarrierME.run] at hB; rw [← Option.some.inj hB]; exact ⟨rfl, Or.inl rfl⟩
  | fwd r uid => simp only [Comm.projB, BarrierME.run] at hB; rw [← Option.some.inj hB]; exact ⟨rfl, Or.inl rfl⟩
  | recvEnd r => simp only [Comm.projB, BarrierME.run] at hB; rw [← Option.some.inj hB]; exact ⟨rfl, Or.inl rfl⟩
  | execEnd r uid =>
    simp only [Comm.projB, Comm.bRun_single, BarrierME.step] at hB
    split at hB
    · rw [← Option.some.inj hB]; exact ⟨rfl, Or.inr ⟨r, uid, rfl, rfl⟩⟩
    · cases hB
  | regcb r =>
    simp only [Comm.projB, Comm.bRun_single, BarrierME.step] at hB
    split at hB
    · rw [← Option.some.inj hB]; exact ⟨rfl, Or.inl rfl⟩
    · cases hB
  | enter r =>
    simp only [Comm.projB, Comm.bRun_single, BarrierME.step] at hB
    split at hB
    · rw [← Option.some.inj hB]; exact ⟨rfl, Or.inl rfl⟩
    · cases hB
  | contribute r =>
    simp only [Comm.projB, Comm.bRun_single, BarrierME.step] at hB
    split at hB
    · rw [← Option.some.inj hB]; exact ⟨rfl, Or.inl rfl⟩
    · cases hB
  | result r =>
    simp only [Comm.projB, Comm.bRun_single, BarrierME.step] at hB
    split at hB
    · rw [← Option.some.inj hB]; exact ⟨rfl, Or.inl rfl⟩
    · cases hB
  | exit r =>
    simp only [Comm.projB, Comm.bRun_single, BarrierME.step] at hB
    split at hB
    · rw [← Option.some.inj hB]; exact ⟨rfl, Or.inl rfl⟩
    · cases hB

/-! ### the linking invariant: DSet's in-flight multiset is Comm's -/

/-- `DSet`'s in-flight list is, as a multiset, the messages of the uids issued in `Comm` whose handler has not started
together with what the running handlers still have to send; the number of the former is `BarrierME`'s `und`; a rank that
runs no handler has nothing left to send -/
def JInv (P : Par) (S : St) : Prop :=
  S.ds.msgs.Perm (S.fl.map P.opOf ++ (List.range P.n).flatMap S.outbox) ∧
  S.fl.length = S.c.b.und ∧
  ∀ q, S.c.b.busy q = false → S.outbox q = []

theorem jinv_init (P : Par) : JInv P init := by
  refine ⟨?_, rfl, fun _ _ => rfl⟩
  show ([] : List DSet.Msg).Perm ([] ++ (List.range P.n).flatMap (fun _ => []))
  simp

theorem step_jinv {P : Par} {S S' : St} {l : Label} (hi : JInv P S) (h : step P S l = some S') : JInv P S' := by
  obtain ⟨hg, hc, hds, hfl, hob⟩ := step_some h
  obtain ⟨ia, ib, ic⟩ := hi
  cases l with
  | comm l0 =>
    simp only [next] at hds hfl hob
    simp only [guard, Bool.and_eq_true] at hg
    obtain ⟨hu, hb⟩ := comm_allowed hg.1 (comm_run_single hc)
    refine ⟨by rw [hds, hfl, hob]; exact ia, by rw [hfl, hu]; exact ib, ?_⟩
    intro q hq
    rw [hob]
    rcases hb with hb | ⟨r, uid, rfl, hb⟩
    · rw [hb] at hq; exact ic q hq
    · by_cases hqr : q = r
      · subst hqr
        have := hg.2
        simpa using this
      · rw [hb, upd_other _ _ _ _ hqr] at hq; exact ic q hq
  | union r uid ex a b =>
    simp only [next] at hds hfl hob
    simp only [guard, Bool.and_eq_true, decide_eq_true_eq, beq_iff_eq] at hg
    obtain ⟨hu, hb⟩ := comm_async (comm_run_single hc)
    refine ⟨?_, by rw [hfl, hu, List.length_append, ib]; rfl, fun q hq => by rw [hob]; rw [hb] at hq; exact ic q hq⟩
    rw [hds, hfl, hob]
    show (S.ds.msgs ++ [DSet.Msg.walk ex a a b b (-1) a b]).Perm _
    rw [← hg.2, List.map_append, List.map_singleton, List.append_assoc]
    refine (List.Perm.append_right _ ia).trans ?_
    rw [List.append_assoc]
    exact List.Perm.append_left _ List.perm_append_comm
  | hsend r uid =>
    simp only [next] at hds hfl hob
    simp only [guard, Bool.and_eq_true, decide_eq_true_eq, beq_iff_eq] at hg
    obtain ⟨hu, hb⟩ := comm_async (comm_run_single hc)
    have hcons : S.outbox r = P.opOf uid :: (S.outbox r).tail := by
      cases ho : S.outbox r with
      | nil => rw [ho] at hg; simp at hg
      | cons x xs => rw [ho] at hg; simp at hg; rw [hg.2]; rfl
    refine ⟨?_, by rw [hfl, hu, List.length_append, ib]; rfl, ?_⟩
    · rw [hds, hfl, hob, List.map_append, List.map_singleton, List.append_assoc]
      refine ia.trans (List.Perm.append_left _ ?_)
      apply flatMap_upd_perm (upd S.outbox r (S.outbox r).tail) S.outbox r [P.opOf uid]
      · intro q hq; rw [upd_other _ _ _ _ hq]
      · rw [upd_same]; exact List.Perm.of_eq hcons
      · exact List.nodup_range
      · exact List.mem_range.2 hg.1
    · intro q hq
      rw [hb] at hq
      rw [hob]
      by_cases hqr : q = r
      · subst hqr
        rw [upd_same, ic q hq]; rfl
      · rw [upd_other _ _ _ _ hqr]; exact ic q hq
  | begin r uid =>
    simp only [next] at hds hfl hob
    simp only [guard, Bool.and_eq_true, decide_eq_true_eq, List.contains_iff_mem] at hg
    obtain ⟨⟨hrn, hmemfl⟩, hmemm⟩ := hg
    obtain ⟨hpos, hu, hb⟩ := comm_execBegin (comm_run_single hc)
    have hlt : S.ds.msgs.idxOf (P.opOf uid) < S.ds.msgs.length := List.idxOf_lt_length_of_mem hmemm
    have hget : S.ds.msgs[S.ds.msgs.idxOf (P.opOf uid)]? = some (P.opOf uid) := by
      rw [List.getElem?_eq_getElem hlt, List.getElem_idxOf hlt]
    have hmsgs : S'.ds.msgs = S.ds.msgs.erase (P.opOf uid) ++
        sent { S.ds with msgs := S.ds.msgs.eraseIdx (S.ds.msgs.idxOf (P.opOf uid)) } (P.opOf uid) := by
      rw [hds]
      unfold DSet.deliver
      rw [hget]
      simp only
      rw [handle_msgs, List.erase_eq_eraseIdx_of_idxOf rfl]
    refine ⟨?_, ?_, ?_⟩
    · rw [hmsgs, hfl, hob]
      have h1 : (S.ds.msgs.erase (P.opOf uid)).Perm
          ((S.fl.erase uid).map P.opOf ++ (List.range P.n).flatMap S.outbox) := by
        have := ia.erase (P.opOf uid)
        rw [List.erase_append_left _ (List.mem_map.2 ⟨uid, hmemfl, rfl⟩)] at this
        exact this.trans (List.Perm.append_right _ (map_erase_perm P.opOf S.fl uid hmemfl))
      have h2 := flatMap_upd_perm S.outbox (upd S.outbox r (S.outbox r ++
          sent { S.ds with msgs := S.ds.msgs.eraseIdx (S.ds.msgs.idxOf (P.opOf uid)) } (P.opOf uid))) r
          (sent { S.ds with msgs := S.ds.msgs.eraseIdx (S.ds.msgs.idxOf (P.opOf uid)) } (P.opOf uid))
          (fun q hq => by rw [upd_other _ _ _ _ hq]) (by rw [upd_same]; exact List.perm_append_comm)
          (List.range P.n) List.nodup_range (List.mem_range.2 hrn)
      refine (List.Perm.append_right _ h1).trans ?_
      rw [List.append_assoc]
      refine List.Perm.append_left _ ?_
      exact List.perm_append_comm.trans h2.symm
    · rw [hfl, hu, List.length_erase_of_mem hmemfl, ib]
    · intro q hq
      rw [hob]
      rw [hb] at hq
      by_cases hqr : q = r
      · subst hqr; rw [upd_same] at hq; cases hq
      · rw [upd_other _ _ _ _ hqr] at hq ⊢; exact ic q hq

theorem run_jinv {P : Par} {S S' : St} (jls : List Label) (hi : JInv P S) (h : run P S jls = some S') :
    JInv P S' := by
  induction jls generalizing S with
  | nil => simp only [run] at h; cases h; exact hi
  | cons l jls ih =>
    simp only [run] at h
    cases hst : step P S l with
    | none => rw [hst] at h; cases h
    | some S1 => rw [hst] at h; exact ih (step_jinv hi hst) h

/-- **C17 end to end** (`ygm::container::disjoint_set`).  For every number of ranks, every routing function, every item
partitioner and every history of the PRODUCT of the joint messaging model with the disjoint_set message system —
`async_union` / `async_union_and_execute` from any rank, every handler (`simul_parent_walk_functor`,
`update_parent_lambda`, `resolve_merge_lambda`) running between `execBegin` and `execEnd` of its message and issuing its
own messages as `async`s, any interleaving, any number of barriers —: at the FIRST return of a barrier

* nothing of the disjoint_set is in flight (`DSet`'s quiescence, the hypothesis `hq` of `DSet.complete` /
  `DSet.connectivity`, is DERIVED from the barrier);
* the state is a reachable state of `DSet` (so every theorem of `Props/C17.lean` applies), no assertion fired;
* two items have the same representative IFF they are connected by the unions issued so far. -/
theorem C17_connectivity_after_barrier (P : Par) (jls : List Label) (S : St)
    (hrun : run P init jls = some S) (r : Nat) (hr : r < P.n)
    (hx : BarrierME.exitEnabled S.c.b r = true) (hne : ∀ q, q < P.n → S.c.b.epoch q ≤ S.c.b.epoch r) :
    S.ds.msgs = [] ∧ DSet.Reach S.ds ∧ S.ds.aborted = false ∧ S.ds.issued = (unions jls).reverse ∧
    (∀ x y, DSet.root S.ds x = DSet.root S.ds y ↔ DSet.Conn (unions jls).reverse x y) ∧
    (∀ x y, DSet.Conn (unions jls).reverse x y → DSet.sameTree S.ds x y) := by
  have hC : Comm.run P.n P.nh Comm.init (jls.flatMap (projC P)) = some S.c := run_projC jls hrun
  have hdead := BarrierME.C02ME_exit_implies_quiescent P.n S.c.b _ (Comm.run_projB _ hC) r hr hx _ rfl hne
  obtain ⟨ia, ib, ic⟩ := run_jinv jls (jinv_init P) hrun
  obtain ⟨hsteps, hiss⟩ := run_projDS jls hrun
  have hreach : DSet.Reach S.ds := hsteps
  have hfl : S.fl = [] := List.eq_nil_of_length_eq_zero (by rw [ib]; exact hdead.1)
  have hob : (List.range P.n).flatMap S.outbox = [] := by
    apply List.flatMap_eq_nil_iff.2
    intro q hq
    exact ic q (hdead.2 q (List.mem_range.1 hq)).2.2.1
  have hq : S.ds.msgs = [] := by
    rw [hfl, hob] at ia
    exact List.Perm.eq_nil ia
  have hiss' : S.ds.issued = (unions jls).reverse := by rw [hiss]; simp [init, DSet.init]
  refine ⟨hq, hreach, DSet.no_abort hreach, hiss', ?_, ?_⟩
  · intro x y
    rw [← hiss']
    exact DSet.connectivity hreach hq x y
  · intro x y hxy
    rw [← hiss'] at hxy
    exact DSet.complete hreach hq hxy

/-! ### non-vacuity (C17) -/

section DSetExample

/-- the four messages of one `async_union(1, 2)` (cf. `DSet.ex1`): the initial walk to item 1, the switched walk to
item 2, the walk back to item 1 (which attaches 1 below 2) and the `resolve_merge` to item 2 -/
private def dsOp : Nat → DSet.Msg
  | 1 => .walk false 1 1 2 2 (-1) 1 2
  | 2 => .walk false 2 2 1 1 0 1 2
  | 3 => .walk false 1 1 2 2 0 1 2
  | _ => .resolve 2 1 0

/-- 2 ranks, items owned by `item % 2`, direct routing -/
private def dsPar : Par := { n := 2, nh := fun _ d => d, owner := fun x => x % 2, opOf := dsOp }

private def dsRound2 : List Label :=
  [.comm (.contribute 0), .comm (.contribute 1), .comm (.result 0), .comm (.result 1)]

/-- rank 0 calls `async_union(1, 2)` and both ranks enter the barrier; the walk bounces rank 1 → rank 0 → rank 1 → rank 0,
every handler issuing the next message from INSIDE the barrier -/
private def dsDemo : List Label :=
  [.union 0 1 false 1 2, .comm (.enter 0), .comm (.enter 1),
   .comm (.isend 0 1), .comm (.recvBegin 1 0 0), .begin 1 1, .hsend 1 2, .comm (.execEnd 1 1), .comm (.recvEnd 1),
   .comm (.isend 1 0), .comm (.recvBegin 0 1 0), .begin 0 2, .hsend 0 3, .comm (.execEnd 0 2), .comm (.recvEnd 0),
   .comm (.isend 0 1), .comm (.recvBegin 1 0 1), .begin 1 3, .hsend 1 4, .comm (.execEnd 1 3), .comm (.recvEnd 1),
   .comm (.isend 1 0), .comm (.recvBegin 0 1 1), .begin 0 4, .comm (.execEnd 0 4), .comm (.recvEnd 0)]
  ++ dsRound2 ++ dsRound2

set_option maxRecDepth 65536 in
/-- the joint history is accepted; at its end the exit rule holds, nobody has left barrier 0 … -/
example : ((run dsPar init dsDemo).map (fun S =>
    (S.c.d.executed, BarrierME.exitEnabled S.c.b 0, (List.range 2).map S.c.b.epoch))) =
    some ([(1, 1), (0, 2), (1, 3), (0, 4)], true, [0, 0]) := by decide

set_option maxRecDepth 65536 in
/-- … nothing of the disjoint_set is in flight, the ghost `issued` is the union of the history … -/
example : ((run dsPar init dsDemo).map (fun S => (S.ds.msgs.length, S.fl, S.ds.issued))) = some (0, [], [(1, 2)]) := by
  decide

set_option maxRecDepth 65536 in
/-- … 1 hangs below 2, the rank of 2 was bumped by `resolve_merge`, and both have the same representative -/
example : ((run dsPar init dsDemo).map (fun S =>
      (DSet.parent S.ds 1, decide (DSet.rank S.ds 2 = 1), decide (DSet.root S.ds 1 = DSet.root S.ds 2)))) =
    some (2, true, true) := by decide

/-- the end-to-end theorem applied to the demo -/
example (S : St) (hrun : run dsPar init dsDemo = some S) (hx : BarrierME.exitEnabled S.c.b 0 = true)
    (hne : ∀ q, q < 2 → S.c.b.epoch q ≤ S.c.b.epoch 0) : DSet.root S.ds 1 = DSet.root S.ds 2 := by
  have h := (C17_connectivity_after_barrier dsPar dsDemo S hrun 0 (by decide) hx hne).2.2.2.2.1 1 2
  exact h.2 (DSet.Conn.edge (by decide))

set_option maxRecDepth 65536 in
/-- the joint guards bite: a handler cannot return before it has issued what its body sends; it cannot issue a
different message; a handler cannot start for a message that is not in flight in `DSet` -/
example :
    (run dsPar init [.union 0 1 false 1 2, .comm (.isend 0 1), .comm (.recvBegin 1 0 0), .begin 1 1,
      .comm (.execEnd 1 1)]).isNone = true ∧
    (run dsPar init [.union 0 1 false 1 2, .comm (.isend 0 1), .comm (.recvBegin 1 0 0), .begin 1 1,
      .hsend 1 3]).isNone = true ∧
    (run dsPar init [.union 0 1 false 1 2, .comm (.isend 0 1), .comm (.recvBegin 1 0 0), .begin 1 2]).isNone = true ∧
    (run dsPar init [.union 0 1 false 1 2, .comm (.isend 0 1), .comm (.recvBegin 1 0 0), .begin 1 1,
      .hsend 1 2, .comm (.execEnd 1 1)]).isSome = true := by decide

end DSetExample

end YgmVerif.DSetComm

/-! ## C16 reducing adapter over the joint messaging model -/

namespace YgmVerif.ReduceComm
open YgmVerif
open YgmVerif.Barrier (upd upd_same upd_other b2n)
open YgmVerif.Cache (Frame Phase)
open YgmVerif.CSetComm (isFall fallOnlyLast hasFall owed isFall_setPhase insLoop_notFall fallLoop_isFall fol_replace
  fol_cons_nonfall fol_cons_fall fol_tail hasFall_cons)

/-! ### the cache of one rank, any configuration -/

def RInv (ns : Nat) (s : Cache.St Nat) : Prop :=
  fallOnlyLast s.stack = true ∧ Cache.FlagInv s ∧ Cache.InRange ns s.cache

theorem rinv_init (ns : Nat) : RInv ns (Cache.St.init : Cache.St Nat) :=
  ⟨rfl, Cache.flagInv_init, fun t e ht => by simp [Cache.St.init, Cache.CMap.get] at ht⟩

/-- what one cache step does to the flag, the frame kinds and the stack -/
theorem step_rinv (cfg : Cache.Cfg Nat) (hn : 0 < cfg.nslots) (s s' : Cache.St Nat) (lab : Cache.Label Nat)
    (hk : RInv cfg.nslots s) (h : Cache.step cfg s lab = some s') :
    RInv cfg.nslots s' ∧
    (match lab with
     | .ins k _ => (if cfg.isOwner k = true then s'.reg = s.reg else s'.reg = true) ∧
         hasFall s'.stack = hasFall s.stack
     | .fb => s.reg = true ∧ hasFall s.stack = false ∧ s'.reg = false ∧ hasFall s'.stack = true
     | .fe => s'.reg = s.reg ∧ hasFall s.stack = true ∧ hasFall s'.stack = false ∧ s'.stack = []
     | .bar => s'.reg = s.reg ∧ hasFall s'.stack = hasFall s.stack
     | _ => s'.reg = s.reg ∧ hasFall s'.stack = hasFall s.stack ∧ s.stack ≠ []) := by
  obtain ⟨hf, hfl, hir⟩ := hk
  have hfl' := Cache.step_flag cfg s s' lab hir hfl h
  have hir' := Cache.step_inRange cfg hn s s' lab hir h
  refine ⟨⟨?_, hfl', hir'⟩, ?_⟩
  all_goals
    cases lab with
    | ins k v =>
      simp only [Cache.step] at h
      split at h
      · split at h
        · rename_i ho
          simp only [Option.some.injEq] at h
          subst h
          first
            | (show fallOnlyLast (_ :: s.stack) = true
               rw [fol_cons_nonfall _ rfl]; exact hf)
            | (simp only [ho, if_true]
               exact ⟨trivial, by rw [hasFall_cons]; rfl⟩)
        · rename_i ho
          have hnf := insLoop_notFall cfg s.cache k v
          cases hil : Cache.insLoop cfg s.cache k v with
          | mk c f =>
            rw [hil] at h hnf
            simp only [Option.some.injEq] at h
            subst h
            simp only at hnf
            first
              | (show fallOnlyLast (f :: s.stack) = true
                 rw [fol_cons_nonfall _ hnf]; exact hf)
              | (simp only [ho, if_false]
                 exact ⟨trivial, by rw [hasFall_cons, hnf]; rfl⟩)
      · cases h
    | pack =>
      simp only [Cache.step] at h
      split at h
      · rename_i f rest hst
        split at h
        · simp only [Option.some.injEq] at h
          subst h
          have e := isFall_setPhase f Phase.sent
          first
            | (show fallOnlyLast (f.setPhase Phase.sent :: rest) = true
               rw [fol_replace rest e, ← hst]; exact hf)
            | (refine ⟨rfl, ?_, by rw [hst]; simp⟩
               show hasFall (f.setPhase Phase.sent :: rest) = hasFall s.stack
               rw [hst, hasFall_cons, hasFall_cons, e])
        · cases h
      · cases h
    | ret =>
      simp only [Cache.step] at h
      split at h
      · rename_i k v rest hst
        have hnf := insLoop_notFall cfg s.cache k v
        cases hil : Cache.insLoop cfg s.cache k v with
        | mk c f =>
          rw [hil] at h hnf
          simp only [Option.some.injEq] at h
          subst h
          simp only at hnf
          have e : isFall f = isFall (Frame.ins k v Phase.sent) := by rw [hnf]; rfl
          first
            | (show fallOnlyLast (f :: rest) = true
               rw [fol_replace rest e, ← hst]; exact hf)
            | (refine ⟨rfl, ?_, by rw [hst]; simp⟩
               show hasFall (f :: rest) = hasFall s.stack
               rw [hst, hasFall_cons, hasFall_cons, e])
      · rename_i rest hst
        simp only [Option.some.injEq] at h
        subst h
        have e : isFall (Frame.tail Phase.fin : Frame Nat) = isFall (Frame.tail Phase.sent) := rfl
        first
          | (show fallOnlyLast (Frame.tail Phase.fin :: rest) = true
             rw [fol_replace rest e, ← hst]; exact hf)
          | (refine ⟨rfl, ?_, by rw [hst]; simp⟩
             show hasFall (Frame.tail Phase.fin :: rest) = hasFall s.stack
             rw [hst, hasFall_cons, hasFall_cons, e])
      · rename_i i rest hst
        have hfl2 := fallLoop_isFall cfg s.cache i
        cases hil : Cache.fallLoop cfg s.cache i with
        | mk c f =>
          rw [hil] at h hfl2
          simp only [Option.some.injEq] at h
          subst h
          simp only at hfl2
          have e : isFall f = isFall (Frame.fall i Phase.sent) := by rw [hfl2]; rfl
          first
            | (show fallOnlyLast (f :: rest) = true
               rw [fol_replace rest e, ← hst]; exact hf)
            | (refine ⟨rfl, ?_, by rw [hst]; simp⟩
               show hasFall (f :: rest) = hasFall s.stack
               rw [hst, hasFall_cons, hasFall_cons, e])
      · cases h
    | done =>
      simp only [Cache.step] at h
      split at h
      · rename_i rest hst
        simp only [Option.some.injEq] at h
        subst h
        first
          | (show fallOnlyLast rest = true
             rw [hst] at hf; exact fol_tail hf)
          | (refine ⟨rfl, ?_, by rw [hst]; simp⟩
             show hasFall rest = hasFall s.stack
             rw [hst, hasFall_cons]; rfl)
      · cases h
    | fb =>
      simp only [Cache.step] at h
      split at h
      · rename_i hc
        have hfl2 := fallLoop_isFall cfg s.cache 0
        cases hil : Cache.fallLoop cfg s.cache 0 with
        | mk c f =>
          rw [hil] at h hfl2
          simp only [Option.some.injEq] at h
          subst h
          simp only at hfl2
          have hemp : s.stack = [] := by
            cases hst : s.stack with
            | nil => rfl
            | cons a b => rw [hst] at hc; simp at hc
          first
            | rfl
            | (refine ⟨hc.2, by rw [hemp]; rfl, rfl, ?_⟩
               show hasFall [f] = true
               rw [hasFall_cons, hfl2]; rfl)
      · cases h
    | fe =>
      simp only [Cache.step] at h
      split at h
      · rename_i i rest hst
        simp only [Option.some.injEq] at h
        subst h
        have hr : rest = [] := fol_cons_fall (f := Frame.fall i Phase.fin) rfl (hst ▸ hf)
        subst hr
        first
          | rfl
          | exact ⟨rfl, by rw [hst]; rfl, rfl, rfl⟩
      · cases h
    | bar =>
      simp only [Cache.step] at h
      split at h
      · simp only [Option.some.injEq] at h
        subst h
        first
          | exact hf
          | exact ⟨rfl, rfl⟩
      · cases h

/-! ### inversion of `Cache.netStep` -/

theorem getD_set' {β : Type} (L : List β) (r q : Nat) (x d : β) (hr : r < L.length) :
    (L.set r x).getD q d = if q = r then x else L.getD q d := by
  simp only [List.getD_eq_getElem?_getD, List.getElem?_set]
  by_cases h : q = r
  · subst h; simp [hr]
  · have : ¬ r = q := fun e => h e.symm
    simp [h, this]

theorem getD_of_getElem? {β : Type} {L : List β} {r : Nat} {x : β} (d : β) (h : L[r]? = some x) :
    L.getD r d = x ∧ r < L.length := by
  refine ⟨by simp [List.getD_eq_getElem?_getD, h], (List.getElem?_eq_some_iff.1 h).1⟩

theorem netStep_user {nc : Cache.NetCfg Nat} {n n' : Cache.Net Nat} {r k v : Nat}
    (h : Cache.netStep nc n (.user r k v) = some n') :
    ∃ s s', n.ranks[r]? = some s ∧ Cache.step (nc.at r) s (.ins k v) = some s' ∧
      n' = { n with ranks := n.ranks.set r s' } := by
  simp only [Cache.netStep] at h
  split at h
  · cases h
  · rename_i s hs
    split at h
    · cases h
    · rename_i s' hs'
      exact ⟨s, s', hs, hs', (Option.some.inj h).symm⟩

/-- what a local label does to the in-flight list: `pack` adds the message it serialises -/
def flightAfter (nc : Cache.NetCfg Nat) (r : Nat) (lab : Cache.Label Nat) (s : Cache.St Nat)
    (fl : List (Nat × Cache.Msg Nat)) : List (Nat × Cache.Msg Nat) :=
  match lab, Cache.pending s with
  | .pack, some m => (nc.dest r m, m) :: fl
  | _, _ => fl

theorem netStep_loc {nc : Cache.NetCfg Nat} {n n' : Cache.Net Nat} {r : Nat} {lab : Cache.Label Nat}
    (hl : ∀ k v, lab ≠ .ins k v) (h : Cache.netStep nc n (.loc r lab) = some n') :
    ∃ s s', n.ranks[r]? = some s ∧ Cache.step (nc.at r) s lab = some s' ∧ n'.ranks = n.ranks.set r s' ∧
      n'.stored = n.stored ∧ n'.flight = flightAfter nc r lab s n.flight := by
  cases lab with
  | ins k v => exact absurd rfl (hl k v)
  | pack =>
    simp only [Cache.netStep] at h
    split at h
    · cases h
    · rename_i s hs
      split at h
      · cases h
      · rename_i s' hs'
        refine ⟨s, s', hs, hs', ?_⟩
        split at h
        · rename_i m hp
          rw [← Option.some.inj h]; simp [flightAfter, hp]
        · rename_i hp
          rw [← Option.some.inj h]
          refine ⟨rfl, rfl, ?_⟩
          unfold flightAfter
          cases hpd : Cache.pending s with
          | none => rfl
          | some m => exact (hp m rfl hpd).elim
  | ret =>
    simp only [Cache.netStep] at h
    split at h
    · cases h
    · rename_i s hs
      split at h
      · cases h
      · rename_i s' hs'
        refine ⟨s, s', hs, hs', ?_⟩
        rw [← Option.some.inj h]; exact ⟨rfl, rfl, rfl⟩
  | done =>
    simp only [Cache.netStep] at h
    split at h
    · cases h
    · rename_i s hs
      split at h
      · cases h
      · rename_i s' hs'
        refine ⟨s, s', hs, hs', ?_⟩
        rw [← Option.some.inj h]; exact ⟨rfl, rfl, rfl⟩
  | fb =>
    simp only [Cache.netStep] at h
    split at h
    · cases h
    · rename_i s hs
      split at h
      · cases h
      · rename_i s' hs'
        refine ⟨s, s', hs, hs', ?_⟩
        rw [← Option.some.inj h]; exact ⟨rfl, rfl, rfl⟩
  | fe =>
    simp only [Cache.netStep] at h
    split at h
    · cases h
    · rename_i s hs
      split at h
      · cases h
      · rename_i s' hs'
        refine ⟨s, s', hs, hs', ?_⟩
        rw [← Option.some.inj h]; exact ⟨rfl, rfl, rfl⟩
  | bar =>
    simp only [Cache.netStep] at h
    split at h
    · cases h
    · rename_i s hs
      split at h
      · cases h
      · rename_i s' hs'
        refine ⟨s, s', hs, hs', ?_⟩
        rw [← Option.some.inj h]; exact ⟨rfl, rfl, rfl⟩

theorem netStep_deliver {nc : Cache.NetCfg Nat} {n n' : Cache.Net Nat} {i : Nat}
    (h : Cache.netStep nc n (.deliver i) = some n') :
    ∃ d m, n.flight[i]? = some (d, m) ∧ n'.flight = n.flight.eraseIdx i ∧
      ((m.toContainer = true ∧ n'.ranks = n.ranks) ∨
       (m.toContainer = false ∧ n'.stored = n.stored ∧ ∃ s s', n.ranks[d]? = some s ∧
          Cache.step (nc.at d) s (.ins m.key m.val) = some s' ∧ n'.ranks = n.ranks.set d s')) := by
  simp only [Cache.netStep] at h
  split at h
  · cases h
  · rename_i d m hf
    refine ⟨d, m, hf, ?_⟩
    split at h
    · rename_i ht
      rw [← Option.some.inj h]
      exact ⟨rfl, Or.inl ⟨ht, rfl⟩⟩
    · rename_i ht
      split at h
      · cases h
      · rename_i s hs
        split at h
        · cases h
        · rename_i s' hs'
          rw [← Option.some.inj h]
          exact ⟨rfl, Or.inr ⟨by simpa using ht, rfl, s, s', hs, hs', rfl⟩⟩

/-! ### what the `Comm` side does to the counters the linking invariant reads -/

/-- the rank a `Comm` label belongs to -/
def commRank : Comm.Label → Nat
  | .async r _ _ _ => r
  | .isend r _ => r
  | .recvBegin r _ _ => r
  | .fwd r _ => r
  | .recvEnd r => r
  | .execBegin r _ => r
  | .execEnd r _ => r
  | .regcb r => r
  | .runcb r _ _ => r
  | .enter r => r
  | .contribute r => r
  | .result r => r
  | .exit r => r

/-- a `Comm` label of rank r leaves `busy`, `inBar`, `cbs` of every other rank alone -/
theorem comm_other {n : Nat} {nh : Nat → Nat → Nat} {c c' : Comm.St} {l : Comm.Label}
    (h : Comm.step n nh c l = some c') (q : Nat) (hq : q ≠ commRank l) :
    c'.b.busy q = c.b.busy q ∧ c'.b.inBar q = c.b.inBar q ∧ c'.b.cbs q = c.b.cbs q := by
  have hB := (Comm.step_some h).2.2.1
  cases l <;> simp only [commRank] at hq <;>
    simp only [Comm.projB, Comm.bRun_single, BarrierME.run, BarrierME.step] at hB
  all_goals first
    | (rw [← Option.some.inj hB]; exact ⟨rfl, rfl, rfl⟩)
    | (split at hB
       · rw [← Option.some.inj hB]
         simp only [upd_other _ _ _ _ hq]
         exact ⟨trivial, trivial, trivial⟩
       · cases hB)

theorem comm_run_other {n : Nat} {nh : Nat → Nat → Nat} {r : Nat} : ∀ (ls : List Comm.Label) {c c' : Comm.St},
    Comm.run n nh c ls = some c' → (∀ l ∈ ls, commRank l = r) → ∀ q, q ≠ r →
    c'.b.busy q = c.b.busy q ∧ c'.b.inBar q = c.b.inBar q ∧ c'.b.cbs q = c.b.cbs q
  | [], c, c', h, _, q, _ => by simp only [Comm.run] at h; cases h; exact ⟨rfl, rfl, rfl⟩
  | l :: ls, c, c', h, hl, q, hq => by
    simp only [Comm.run] at h
    cases hs : Comm.step n nh c l with
    | none => rw [hs] at h; cases h
    | some c1 =>
      rw [hs] at h
      have h1 := comm_other hs q (by rw [hl l List.mem_cons_self]; exact hq)
      have h2 := comm_run_other ls h (fun l' hl' => hl l' (List.mem_cons_of_mem _ hl')) q hq
      exact ⟨h2.1.trans h1.1, h2.2.1.trans h1.2.1, h2.2.2.trans h1.2.2⟩

theorem comm_async {n : Nat} {nh : Nat → Nat → Nat} {c c' : Comm.St} {r uid dest : Nat} {direct : Bool}
    (h : Comm.step n nh c (.async r uid dest direct) = some c') :
    (c.b.inBar r = false ∨ c.b.busy r = true) ∧ c'.b.und = c.b.und + 1 ∧ c'.b.busy = c.b.busy ∧
      c'.b.inBar = c.b.inBar ∧ c'.b.cbs = c.b.cbs := by
  have hB := (Comm.step_some h).2.2.1
  simp only [Comm.projB, Comm.bRun_single, BarrierME.step] at hB
  split at hB
  · rename_i hc
    rw [← Option.some.inj hB]; exact ⟨hc.2, rfl, rfl, rfl, rfl⟩
  · cases hB

theorem comm_regcb {n : Nat} {nh : Nat → Nat → Nat} {c c' : Comm.St} {r : Nat}
    (h : Comm.step n nh c (.regcb r) = some c') :
    c'.b.und = c.b.und ∧ c'.b.busy = c.b.busy ∧ c'.b.inBar = c.b.inBar ∧
      c'.b.cbs = upd c.b.cbs r (c.b.cbs r + 1) := by
  have hB := (Comm.step_some h).2.2.1
  simp only [Comm.projB, Comm.bRun_single, BarrierME.step] at hB
  split at hB
  · rw [← Option.some.inj hB]; exact ⟨rfl, rfl, rfl, rfl⟩
  · cases hB

theorem comm_runcb {n : Nat} {nh : Nat → Nat → Nat} {c c' : Comm.St} {r j : Nat} {msgs : List Comm.Msg}
    (h : Comm.step n nh c (.runcb r msgs j) = some c') :
    0 < c.b.cbs r ∧ c.b.busy r = false ∧ c'.b.und = c.b.und + msgs.length ∧ c'.b.busy = c.b.busy ∧
      c'.b.inBar = c.b.inBar ∧ c'.b.cbs = upd c.b.cbs r (c.b.cbs r - 1 + j) := by
  have hB := (Comm.step_some h).2.2.1
  simp only [Comm.projB, Comm.bRun_single, BarrierME.step] at hB
  split at hB
  · rename_i hc
    rw [← Option.some.inj hB]; exact ⟨hc.2.1, hc.2.2, rfl, rfl, rfl, rfl⟩
  · cases hB

theorem comm_execBegin {n : Nat} {nh : Nat → Nat → Nat} {c c' : Comm.St} {r uid : Nat}
    (h : Comm.step n nh c (.execBegin r uid) = some c') :
    0 < c.b.und ∧ c.b.busy r = false ∧ c'.b.und = c.b.und - 1 ∧ c'.b.busy = upd c.b.busy r true ∧
      c'.b.inBar = c.b.inBar ∧ c'.b.cbs = c.b.cbs := by
  have hB := (Comm.step_some h).2.2.1
  simp only [Comm.projB, Comm.bRun_single, BarrierME.step] at hB
  split at hB
  · rename_i hc
    rw [← Option.some.inj hB]; exact ⟨hc.2.1, hc.2.2, rfl, rfl, rfl, rfl⟩
  · cases hB

/-- the labels that occur on their own: `und` and `cbs` are untouched; `busy` / `inBar` change only at the end of a
handler and at the entry / return of `barrier()` -/
theorem comm_allowed {n : Nat} {nh : Nat → Nat → Nat} {c c' : Comm.St} {l : Comm.Label}
    (ha : allowed l = true) (h : Comm.step n nh c l = some c') :
    c'.b.und = c.b.und ∧ c'.b.cbs = c.b.cbs ∧
    ((c'.b.busy = c.b.busy ∧ c'.b.inBar = c.b.inBar) ∨
     (∃ r uid, l = .execEnd r uid ∧ c.b.busy r = true ∧ c'.b.busy = upd c.b.busy r false ∧ c'.b.inBar = c.b.inBar) ∨
     (∃ r, l = .enter r ∧ c.b.busy r = false ∧ c'.b.busy = c.b.busy ∧ c'.b.inBar = upd c.b.inBar r true) ∨
     (∃ r, l = .exit r ∧ c'.b.busy = c.b.busy ∧ c'.b.inBar = upd c.b.inBar r false)) := by
  have hB := (Comm.step_some h).2.2.1
  cases l with
  | async r uid dest direct => cases ha
  | runcb r msgs j => cases ha
  | execBegin r uid => cases ha
  | regcb r => cases ha
  | isend r hop =>
    simp only [Comm.projB, BarrierME.run] at hB; rw [← Option.some.inj hB]; exact ⟨rfl, rfl, Or.inl ⟨rfl, rfl⟩⟩
  | recvBegin r src seq =>
    simp only [Comm.projB, BarrierME.run] at hB; rw [← Option.some.inj hB]; exact ⟨rfl, rfl, Or.inl ⟨rfl, rfl⟩⟩
  | fwd r uid =>
    simp only [Comm.projB, BarrierME.run] at hB; rw [← Option.some.inj hB]; exact ⟨rfl, rfl, Or.inl ⟨rfl, rfl⟩⟩
  | recvEnd r =>
    simp only [Comm.projB, BarrierME.run] at hB; rw [← Option.some.inj hB]; exact ⟨rfl, rfl, Or.inl ⟨rfl, rfl⟩⟩
  | execEnd r uid =>
    simp only [Comm.projB, Comm.bRun_single, BarrierME.step] at hB
    split at hB
    · rename_i hc
      rw [← Option.some.inj hB]; exact ⟨rfl, rfl, Or.inr (Or.inl ⟨r, uid, rfl, hc.2, rfl, rfl⟩)⟩
    · cases hB
  | enter r =>
    simp only [Comm.projB, Comm.bRun_single, BarrierME.step] at hB
    split at hB
    · rename_i hc
      rw [← Option.some.inj hB]; exact ⟨rfl, rfl, Or.inr (Or.inr (Or.inl ⟨r, rfl, hc.2.2, rfl, rfl⟩))⟩
    · cases hB
  | contribute r =>
    simp only [Comm.projB, Comm.bRun_single, BarrierME.step] at hB
    split at hB
    · rw [← Option.some.inj hB]; exact ⟨rfl, rfl, Or.inl ⟨rfl, rfl⟩⟩
    · cases hB
  | result r =>
    simp only [Comm.projB, Comm.bRun_single, BarrierME.step] at hB
    split at hB
    · rw [← Option.some.inj hB]; exact ⟨rfl, rfl, Or.inl ⟨rfl, rfl⟩⟩
    · cases hB
  | exit r =>
    simp only [Comm.projB, Comm.bRun_single, BarrierME.step] at hB
    split at hB
    · rw [← Option.some.inj hB]; exact ⟨rfl, rfl, Or.inr (Or.inr (Or.inr ⟨r, rfl, rfl, rfl⟩))⟩
    · cases hB

theorem comm_run_single {n : Nat} {nh : Nat → Nat → Nat} {c c' : Comm.St} {l : Comm.Label}
    (h : Comm.run n nh c [l] = some c') : Comm.step n nh c l = some c' :=
  CSetComm.comm_run_single h

theorem comm_run_two {n : Nat} {nh : Nat → Nat → Nat} {c c' : Comm.St} {l1 l2 : Comm.Label}
    (h : Comm.run n nh c [l1, l2] = some c') :
    ∃ c1, Comm.step n nh c l1 = some c1 ∧ Comm.step n nh c1 l2 = some c' := by
  simp only [Comm.run] at h
  cases hs : Comm.step n nh c l1 with
  | none => rw [hs] at h; cases h
  | some c1 =>
    rw [hs] at h
    refine ⟨c1, rfl, ?_⟩
    simp only at h
    cases hs2 : Comm.step n nh c1 l2 with
    | none => rw [hs2] at h; cases h
    | some c2 => rw [hs2] at h; simpa using h

/-! ### the linking invariant -/

/-- per rank: the cache invariant; the communicator holds a callback for a cache that needs one; a rank waiting in
`barrier()` with no handler running and no callback pending has no container call in progress; a handler that started
in that situation started with an empty call stack -/
def QInv (ns : Nat) (s : Cache.St Nat) (busy inBar : Bool) (cbs hb : Nat) : Prop :=
  RInv ns s ∧ owed s ≤ cbs ∧ (busy = false → inBar = true → cbs = 0 → s.stack = []) ∧
    (busy = true → inBar = true → cbs = 0 → hb = 0)

/-- all ranks have a cache; the partial values in flight are `Comm`'s messages whose handler has not started (their
number is `BarrierME.und`); `QInv` on every rank -/
def JInv (P : Par) (S : St) : Prop :=
  S.net.ranks.length = P.n ∧ S.net.flight.length = S.c.b.und ∧
  ∀ q, q < P.n → QInv P.nc.nslots (rankSt S q) (S.c.b.busy q) (S.c.b.inBar q) (S.c.b.cbs q) (S.hb q)

theorem jinv_init (P : Par) (st0 : List (Nat × Nat)) : JInv P (init P st0) := by
  refine ⟨by simp [init, Cache.Net.init], rfl, ?_⟩
  intro q hq
  have : rankSt (init P st0) q = Cache.St.init := by
    simp [rankSt, init, Cache.Net.init, List.getD_eq_getElem?_getD, hq]
  rw [this]
  exact ⟨rinv_init _, Nat.zero_le _, fun _ _ _ => rfl, fun h => by cases h⟩

theorem step_some {P : Par} {S S' : St} {l : Label} (h : step P S l = some S') :
    guard P S l = true ∧ Comm.run P.n P.nh S.c (projC P l) = some S'.c ∧ nStep P S l = some S'.net ∧
      S'.hb = nextHb S l := by
  unfold step at h
  split at h
  · rename_i hg
    split at h
    · rename_i c' net' hc hk
      cases h
      exact ⟨hg, hc, hk, rfl⟩
    · cases h
  · cases h

theorem jinv_of {P : Par} {S S' : St} {r : Nat} (hi : JInv P S)
    (hlen : S'.net.ranks.length = P.n) (hfl : S'.net.flight.length = S'.c.b.und)
    (hother : ∀ q, q ≠ r → rankSt S' q = rankSt S q ∧ S'.c.b.busy q = S.c.b.busy q ∧
      S'.c.b.inBar q = S.c.b.inBar q ∧ S'.c.b.cbs q = S.c.b.cbs q ∧ S'.hb q = S.hb q)
    (hr' : r < P.n → QInv P.nc.nslots (rankSt S' r) (S'.c.b.busy r) (S'.c.b.inBar r) (S'.c.b.cbs r) (S'.hb r)) :
    JInv P S' := by
  refine ⟨hlen, hfl, ?_⟩
  intro q hq
  by_cases hqr : q = r
  · subst hqr; exact hr' hq
  · obtain ⟨e1, e2, e3, e4, e5⟩ := hother q hqr
    rw [e1, e2, e3, e4, e5]; exact hi.2.2 q hq

theorem rankSt_set {S S' : St} {r : Nat} {s' : Cache.St Nat} (hr : r < S.net.ranks.length)
    (h : S'.net.ranks = S.net.ranks.set r s') (q : Nat) :
    rankSt S' q = if q = r then s' else rankSt S q := by
  unfold rankSt
  rw [h, getD_set' _ _ _ _ _ hr]

theorem flightAfter_nopack {nc : Cache.NetCfg Nat} {r : Nat} {lab : Cache.Label Nat} {s : Cache.St Nat}
    {fl : List (Nat × Cache.Msg Nat)} (h : lab ≠ .pack) : flightAfter nc r lab s fl = fl := by
  unfold flightAfter
  cases lab <;> first | exact absurd rfl h | (cases Cache.pending s <;> rfl)

theorem flightAfter_pack {nc : Cache.NetCfg Nat} {r : Nat} {s : Cache.St Nat} {m : Cache.Msg Nat}
    {fl : List (Nat × Cache.Msg Nat)} (h : Cache.pending s = some m) :
    flightAfter nc r .pack s fl = (nc.dest r m, m) :: fl := by
  unfold flightAfter
  rw [h]

theorem other_of {P : Par} {S S' : St} {r : Nat} {l : Label}
    (hc : Comm.run P.n P.nh S.c (projC P l) = some S'.c) (hrank : ∀ l' ∈ projC P l, commRank l' = r)
    (hranks : ∀ q, q ≠ r → rankSt S' q = rankSt S q) (hhb : ∀ q, q ≠ r → S'.hb q = S.hb q) :
    ∀ q, q ≠ r → rankSt S' q = rankSt S q ∧ S'.c.b.busy q = S.c.b.busy q ∧
      S'.c.b.inBar q = S.c.b.inBar q ∧ S'.c.b.cbs q = S.c.b.cbs q ∧ S'.hb q = S.hb q := by
  intro q hq
  obtain ⟨e1, e2, e3⟩ := comm_run_other _ hc hrank q hq
  exact ⟨hranks q hq, e1, e2, e3, hhb q hq⟩

theorem rank_lookup {S : St} {r : Nat} {s : Cache.St Nat} (h : S.net.ranks[r]? = some s) :
    rankSt S r = s ∧ r < S.net.ranks.length := getD_of_getElem? _ h

theorem nslots_at (nc : Cache.NetCfg Nat) (r : Nat) : (nc.at r).nslots = nc.nslots := rfl

/-- the `ins` of a `cache_reduce` (from user code or from the handler of a forwarded partial value): the callback
counter grows exactly when the cache registers -/
theorem owed_ins {nc : Cache.NetCfg Nat} {r k : Nat} {s s' : Cache.St Nat} {cbs cbs' : Nat} {first : Bool}
    (hrel : (if (nc.at r).isOwner k = true then s'.reg = s.reg else s'.reg = true) ∧ hasFall s'.stack = hasFall s.stack)
    (hfirst : first = (!s.reg && !(nc.at r).isOwner k)) (hcb : cbs' = if first then cbs + 1 else cbs)
    (ho : owed s ≤ cbs) : owed s' ≤ cbs' ∧ (cbs' = 0 → first = false ∧ cbs = 0) := by
  unfold owed at ho ⊢
  rw [hrel.2]
  cases hown : (nc.at r).isOwner k <;> cases hreg : s.reg <;> rw [hown] at hrel hfirst <;> rw [hreg] at hfirst ho <;>
    simp at hrel hfirst <;> subst hfirst <;> simp at hcb <;> subst hcb <;>
    (first | rw [hrel.1] | skip) <;> (try rw [hreg]) <;> simp [b2n] at ho ⊢ <;> omega

theorem step_jinv {P : Par} (hn : 0 < P.nc.nslots) {S S' : St} {l : Label} (hi : JInv P S)
    (h : step P S l = some S') : JInv P S' := by
  obtain ⟨hg, hc, hk, hhb⟩ := step_some h
  obtain ⟨ilen, ifl, iq⟩ := hi
  have hi : JInv P S := ⟨ilen, ifl, iq⟩
  cases l with
  | comm l0 =>
    simp only [nStep, netLabel] at hk
    have hnet : S'.net = S.net := (Option.some.inj hk).symm
    simp only [nextHb] at hhb
    simp only [guard, Bool.and_eq_true] at hg
    obtain ⟨hu, hcb, hcase⟩ := comm_allowed hg.1 (comm_run_single hc)
    have hrs : ∀ q, rankSt S' q = rankSt S q := fun q => by unfold rankSt; rw [hnet]
    refine ⟨by rw [hnet]; exact ilen, by rw [hnet, hu]; exact ifl, ?_⟩
    intro q hq
    obtain ⟨q1, q2, q3, q4⟩ := iq q hq
    rw [hrs q, hcb, hhb]
    rcases hcase with ⟨hb, hib⟩ | ⟨r, uid, rfl, hbr, hb, hib⟩ | ⟨r, rfl, hbr, hb, hib⟩ | ⟨r, rfl, hb, hib⟩
    · rw [hb, hib]; exact ⟨q1, q2, q3, q4⟩
    · rw [hb, hib]
      by_cases hqr : q = r
      · subst hqr
        rw [upd_same]
        refine ⟨q1, q2, fun _ h2 h3 => ?_, fun h1 => by cases h1⟩
        have h0 := q4 hbr h2 h3
        have hlen := hg.2
        simp only [beq_iff_eq] at hlen
        rw [h0] at hlen
        exact List.eq_nil_of_length_eq_zero hlen
      · rw [upd_other _ _ _ _ hqr]; exact ⟨q1, q2, q3, q4⟩
    · rw [hb, hib]
      by_cases hqr : q = r
      · subst hqr
        rw [upd_same]
        refine ⟨q1, q2, fun _ _ _ => ?_, fun h1 => by rw [hbr] at h1; cases h1⟩
        have := hg.2
        simpa using this
      · rw [upd_other _ _ _ _ hqr]; exact ⟨q1, q2, q3, q4⟩
    · rw [hb, hib]
      by_cases hqr : q = r
      · subst hqr
        rw [upd_same]
        exact ⟨q1, q2, (fun _ h2 => Bool.noConfusion h2), (fun _ h2 => Bool.noConfusion h2)⟩
      · rw [upd_other _ _ _ _ hqr]; exact ⟨q1, q2, q3, q4⟩
  | user r k v first =>
    simp only [nStep, netLabel] at hk
    obtain ⟨s, s', hs, hst, hnet⟩ := netStep_user hk
    obtain ⟨hrs, hrl⟩ := rank_lookup hs
    simp only [nextHb] at hhb
    simp only [guard, Bool.and_eq_true, decide_eq_true_eq, Bool.or_eq_true, beq_iff_eq] at hg
    obtain ⟨⟨hrn, hctx⟩, hfirst⟩ := hg
    obtain ⟨q1, q2, q3, q4⟩ := iq r hrn
    rw [hrs] at q1 q2 q3
    have hranks : S'.net.ranks = S.net.ranks.set r s' := by rw [hnet]
    obtain ⟨hri, hrel⟩ := step_rinv (P.nc.at r) hn s s' _ q1 hst
    simp only at hrel
    have hfirst' : first = (!s.reg && !(P.nc.at r).isOwner k) := by rw [hfirst, registers, hrs]
    -- the Comm side
    have hcomm : S'.c.b.und = S.c.b.und ∧ S'.c.b.busy = S.c.b.busy ∧ S'.c.b.inBar = S.c.b.inBar ∧
        S'.c.b.cbs r = if first then S.c.b.cbs r + 1 else S.c.b.cbs r := by
      cases first with
      | true =>
        simp only [projC, if_true] at hc
        obtain ⟨e1, e2, e3, e4⟩ := comm_regcb (comm_run_single hc)
        exact ⟨e1, e2, e3, by rw [e4, upd_same]; rfl⟩
      | false =>
        simp only [projC, Bool.false_eq_true, if_false, Comm.run, Option.some.injEq] at hc
        rw [← hc]; exact ⟨rfl, rfl, rfl, rfl⟩
    obtain ⟨cu, cb, ci, cc⟩ := hcomm
    obtain ⟨ho, hz⟩ := owed_ins hrel hfirst' cc q2
    refine jinv_of (r := r) hi (by rw [hranks, List.length_set]; exact ilen) (by rw [hnet, cu]; exact ifl)
      (other_of (r := r) hc (by intro l' hl'; cases first <;> simp [projC] at hl'; subst hl'; rfl)
        (fun q hq => by rw [rankSt_set hrl hranks, if_neg hq]) (fun q _ => by rw [hhb])) ?_
    intro _
    rw [rankSt_set hrl hranks, if_pos rfl, cb, ci, hhb]
    refine ⟨hri, ho, fun h1 h2 _ => ?_, fun h1 h2 h3 => ?_⟩
    · rcases hctx with hctx | hctx
      · rw [hctx] at h2; cases h2
      · rw [hctx] at h1; cases h1
    · obtain ⟨_, hz0⟩ := hz h3
      exact q4 h1 h2 hz0
  | pack r uid =>
    simp only [nStep, netLabel] at hk
    obtain ⟨s, s', hs, hst, hranks, _, hflight⟩ := netStep_loc (by intro k v e; cases e) hk
    obtain ⟨hrs, hrl⟩ := rank_lookup hs
    simp only [nextHb] at hhb
    simp only [guard, Bool.and_eq_true, decide_eq_true_eq, beq_iff_eq] at hg
    obtain ⟨hrn, hpend⟩ := hg
    rw [hrs] at hpend
    obtain ⟨q1, q2, q3, q4⟩ := iq r hrn
    rw [hrs] at q1 q2 q3
    obtain ⟨hri, hrel⟩ := step_rinv (P.nc.at r) hn s s' _ q1 hst
    simp only at hrel
    simp only [projC] at hc
    obtain ⟨hctx, cu, cb, ci, cc⟩ := comm_async (comm_run_single hc)
    refine jinv_of (r := r) hi (by rw [hranks, List.length_set]; exact ilen)
      (by rw [hflight, flightAfter_pack hpend, List.length_cons, cu, ifl])
      (other_of (r := r) (l := .pack r uid) hc (by intro l' hl'; simp [projC] at hl'; subst hl'; rfl)
        (fun q hq => by rw [rankSt_set hrl hranks, if_neg hq]) (fun q _ => by rw [hhb])) ?_
    intro _
    rw [rankSt_set hrl hranks, if_pos rfl, cb, ci, cc, hhb]
    refine ⟨hri, ?_, fun h1 h2 _ => ?_, q4⟩
    · unfold owed at q2 ⊢; rw [hrel.1, hrel.2.1]; exact q2
    · rcases hctx with hctx | hctx
      · rw [hctx] at h2; cases h2
      · rw [hctx] at h1; cases h1
  | cbpack r uid =>
    simp only [nStep, netLabel] at hk
    obtain ⟨s, s', hs, hst, hranks, _, hflight⟩ := netStep_loc (by intro k v e; cases e) hk
    obtain ⟨hrs, hrl⟩ := rank_lookup hs
    simp only [nextHb] at hhb
    simp only [guard, Bool.and_eq_true, decide_eq_true_eq, beq_iff_eq] at hg
    obtain ⟨hrn, hpend⟩ := hg
    rw [hrs] at hpend
    obtain ⟨q1, q2, q3, q4⟩ := iq r hrn
    rw [hrs] at q1 q2 q3
    obtain ⟨hri, hrel⟩ := step_rinv (P.nc.at r) hn s s' _ q1 hst
    simp only at hrel
    simp only [projC] at hc
    obtain ⟨hpos, hnb, cu, cb, ci, cc⟩ := comm_runcb (comm_run_single hc)
    refine jinv_of (r := r) hi (by rw [hranks, List.length_set]; exact ilen)
      (by rw [hflight, flightAfter_pack hpend, List.length_cons, cu, ifl]; rfl)
      (other_of (r := r) (l := .cbpack r uid) hc (by intro l' hl'; simp [projC] at hl'; subst hl'; rfl)
        (fun q hq => by rw [rankSt_set hrl hranks, if_neg hq]) (fun q _ => by rw [hhb])) ?_
    intro _
    rw [rankSt_set hrl hranks, if_pos rfl, cb, ci, cc, upd_same, hhb]
    refine ⟨hri, ?_, fun _ _ h3 => by omega, fun h1 => by rw [hnb] at h1; cases h1⟩
    unfold owed at q2 ⊢; rw [hrel.1, hrel.2.1]; omega
  | ret r =>
    simp only [nStep, netLabel] at hk
    obtain ⟨s, s', hs, hst, hranks, _, hflight⟩ := netStep_loc (by intro k v e; cases e) hk
    obtain ⟨hrs, hrl⟩ := rank_lookup hs
    simp only [nextHb] at hhb
    simp only [guard, decide_eq_true_eq] at hg
    obtain ⟨q1, q2, q3, q4⟩ := iq r hg
    rw [hrs] at q1 q2 q3
    obtain ⟨hri, hrel⟩ := step_rinv (P.nc.at r) hn s s' _ q1 hst
    simp only at hrel
    simp only [projC, Comm.run, Option.some.injEq] at hc
    have hc' : Comm.run P.n P.nh S.c (projC P (.ret r)) = some S'.c := by simp [projC, Comm.run, hc]
    refine jinv_of (r := r) hi (by rw [hranks, List.length_set]; exact ilen)
      (by rw [hflight, flightAfter_nopack (by intro e; cases e), ← hc]; exact ifl)
      (other_of (r := r) (l := .ret r) hc' (by intro l' hl'; simp [projC] at hl')
        (fun q hq => by rw [rankSt_set hrl hranks, if_neg hq]) (fun q _ => by rw [hhb])) ?_
    intro _
    rw [rankSt_set hrl hranks, if_pos rfl, ← hc, hhb]
    refine ⟨hri, ?_, fun h1 h2 h3 => absurd (q3 h1 h2 h3) hrel.2.2, q4⟩
    unfold owed at q2 ⊢; rw [hrel.1, hrel.2.1]; exact q2
  | done r =>
    simp only [nStep, netLabel] at hk
    obtain ⟨s, s', hs, hst, hranks, _, hflight⟩ := netStep_loc (by intro k v e; cases e) hk
    obtain ⟨hrs, hrl⟩ := rank_lookup hs
    simp only [nextHb] at hhb
    simp only [guard, decide_eq_true_eq] at hg
    obtain ⟨q1, q2, q3, q4⟩ := iq r hg
    rw [hrs] at q1 q2 q3
    obtain ⟨hri, hrel⟩ := step_rinv (P.nc.at r) hn s s' _ q1 hst
    simp only at hrel
    simp only [projC, Comm.run, Option.some.injEq] at hc
    have hc' : Comm.run P.n P.nh S.c (projC P (.done r)) = some S'.c := by simp [projC, Comm.run, hc]
    refine jinv_of (r := r) hi (by rw [hranks, List.length_set]; exact ilen)
      (by rw [hflight, flightAfter_nopack (by intro e; cases e), ← hc]; exact ifl)
      (other_of (r := r) (l := .done r) hc' (by intro l' hl'; simp [projC] at hl')
        (fun q hq => by rw [rankSt_set hrl hranks, if_neg hq]) (fun q _ => by rw [hhb])) ?_
    intro _
    rw [rankSt_set hrl hranks, if_pos rfl, ← hc, hhb]
    refine ⟨hri, ?_, fun h1 h2 h3 => absurd (q3 h1 h2 h3) hrel.2.2, q4⟩
    unfold owed at q2 ⊢; rw [hrel.1, hrel.2.1]; exact q2
  | fb r =>
    simp only [nStep, netLabel] at hk
    obtain ⟨s, s', hs, hst, hranks, _, hflight⟩ := netStep_loc (by intro k v e; cases e) hk
    obtain ⟨hrs, hrl⟩ := rank_lookup hs
    simp only [nextHb] at hhb
    simp only [guard, decide_eq_true_eq] at hg
    obtain ⟨q1, q2, q3, q4⟩ := iq r hg
    rw [hrs] at q1 q2 q3
    obtain ⟨hri, hrel⟩ := step_rinv (P.nc.at r) hn s s' _ q1 hst
    simp only at hrel
    simp only [projC] at hc
    obtain ⟨hpos, hnb, cu, cb, ci, cc⟩ := comm_runcb (comm_run_single hc)
    refine jinv_of (r := r) hi (by rw [hranks, List.length_set]; exact ilen)
      (by rw [hflight, flightAfter_nopack (by intro e; cases e), cu, ifl]; rfl)
      (other_of (r := r) (l := .fb r) hc (by intro l' hl'; simp [projC] at hl'; subst hl'; rfl)
        (fun q hq => by rw [rankSt_set hrl hranks, if_neg hq]) (fun q _ => by rw [hhb])) ?_
    intro _
    rw [rankSt_set hrl hranks, if_pos rfl, cb, ci, cc, upd_same, hhb]
    refine ⟨hri, ?_, fun _ _ h3 => by omega, fun h1 => by rw [hnb] at h1; cases h1⟩
    unfold owed at q2 ⊢
    rw [hrel.2.2.1, hrel.2.2.2]; rw [hrel.1, hrel.2.1] at q2
    simp [b2n] at q2 ⊢ <;> first | done | omega
  | fe r =>
    simp only [nStep, netLabel] at hk
    obtain ⟨s, s', hs, hst, hranks, _, hflight⟩ := netStep_loc (by intro k v e; cases e) hk
    obtain ⟨hrs, hrl⟩ := rank_lookup hs
    simp only [nextHb] at hhb
    simp only [guard, decide_eq_true_eq] at hg
    obtain ⟨q1, q2, q3, q4⟩ := iq r hg
    rw [hrs] at q1 q2 q3
    obtain ⟨hri, hrel⟩ := step_rinv (P.nc.at r) hn s s' _ q1 hst
    simp only at hrel
    simp only [projC] at hc
    obtain ⟨hpos, hnb, cu, cb, ci, cc⟩ := comm_runcb (comm_run_single hc)
    refine jinv_of (r := r) hi (by rw [hranks, List.length_set]; exact ilen)
      (by rw [hflight, flightAfter_nopack (by intro e; cases e), cu, ifl]; rfl)
      (other_of (r := r) (l := .fe r) hc (by intro l' hl'; simp [projC] at hl'; subst hl'; rfl)
        (fun q hq => by rw [rankSt_set hrl hranks, if_neg hq]) (fun q _ => by rw [hhb])) ?_
    intro _
    rw [rankSt_set hrl hranks, if_pos rfl, cb, ci, cc, upd_same, hhb]
    refine ⟨hri, ?_, fun _ _ _ => hrel.2.2.2, fun h1 => by rw [hnb] at h1; cases h1⟩
    unfold owed at q2 ⊢
    rw [hrel.1, hrel.2.2.1]; rw [hrel.2.1] at q2
    simp [b2n] at q2 ⊢; omega
  | begin r uid first =>
    simp only [nStep, netLabel] at hk
    obtain ⟨d, m, hfl, hflight, hcase⟩ := netStep_deliver hk
    simp only [nextHb] at hhb
    simp only [guard, Bool.and_eq_true, decide_eq_true_eq, List.contains_iff_mem, beq_iff_eq] at hg
    obtain ⟨⟨hrn, hmem⟩, hfirst⟩ := hg
    have hlt : S.net.flight.idxOf (r, P.opOf uid) < S.net.flight.length := List.idxOf_lt_length_of_mem hmem
    have hdm : (d, m) = (r, P.opOf uid) := by
      rw [List.getElem?_eq_getElem hlt, List.getElem_idxOf hlt] at hfl
      exact (Option.some.inj hfl).symm
    obtain ⟨hd, hm⟩ := Prod.mk.inj hdm
    subst hd hm
    obtain ⟨q1, q2, q3, q4⟩ := iq d hrn
    -- the Comm side: execBegin, then regcb iff the cache registers
    have hcomm : ∃ c1, Comm.step P.n P.nh S.c (.execBegin d uid) = some c1 ∧ S'.c.b.und = c1.b.und ∧
        S'.c.b.busy = c1.b.busy ∧ S'.c.b.inBar = c1.b.inBar ∧
        S'.c.b.cbs d = if first then c1.b.cbs d + 1 else c1.b.cbs d := by
      cases first with
      | true =>
        simp only [projC, if_true] at hc
        obtain ⟨c1, h1, h2⟩ := comm_run_two hc
        obtain ⟨e1, e2, e3, e4⟩ := comm_regcb h2
        exact ⟨c1, h1, e1, e2, e3, by rw [e4, upd_same]; rfl⟩
      | false =>
        simp only [projC, Bool.false_eq_true, if_false] at hc
        exact ⟨S'.c, comm_run_single hc, rfl, rfl, rfl, rfl⟩
    obtain ⟨c1, hb1, cu, cb, ci, cc⟩ := hcomm
    obtain ⟨hpos, hnb, bu, bb, bi, bc⟩ := comm_execBegin hb1
    have hflen : S'.net.flight.length = S'.c.b.und := by
      rw [hflight, List.length_eraseIdx, if_pos hlt, cu, bu, ifl]
    have hrankall : ∀ l' ∈ projC P (.begin d uid first), commRank l' = d := by
      intro l' hl'
      cases first <;> simp [projC] at hl'
      · subst hl'; rfl
      · rcases hl' with rfl | rfl <;> rfl
    rcases hcase with ⟨htc, hranks⟩ | ⟨htc, _, s, s', hs, hst, hranks⟩
    · -- a container operation: the caches are untouched
      have hf : first = false := by rw [hfirst, htc]; rfl
      subst hf
      have hrs' : ∀ q, rankSt S' q = rankSt S q := fun q => by unfold rankSt; rw [hranks]
      refine jinv_of (r := d) hi (by rw [hranks]; exact ilen) hflen
        (other_of (r := d) hc hrankall (fun q _ => hrs' q) (fun q hq => by rw [hhb, upd_other _ _ _ _ hq])) ?_
      intro _
      rw [hrs' d, cb, bb, ci, bi, cc, bc, hhb, upd_same, upd_same]
      simp only [Bool.false_eq_true, if_false]
      exact ⟨q1, q2, (fun h1 => Bool.noConfusion h1), fun _ h2 h3 => by rw [q3 hnb h2 h3]; rfl⟩
    · -- a forwarded partial value re-enters the cache of this rank
      obtain ⟨hrs, hrl⟩ := rank_lookup hs
      rw [hrs] at q1 q2 q3
      obtain ⟨hri, hrel⟩ := step_rinv (P.nc.at d) hn s s' _ q1 hst
      simp only at hrel
      have hfirst' : first = (!s.reg && !(P.nc.at d).isOwner (P.opOf uid).key) := by
        rw [hfirst, htc, registers, hrs]; rfl
      have cc' : S'.c.b.cbs d = if first then S.c.b.cbs d + 1 else S.c.b.cbs d := by rw [cc, bc]
      obtain ⟨ho, hz⟩ := owed_ins hrel hfirst' cc' q2
      refine jinv_of (r := d) hi (by rw [hranks, List.length_set]; exact ilen) hflen
        (other_of (r := d) hc hrankall (fun q hq => by rw [rankSt_set hrl hranks, if_neg hq])
          (fun q hq => by rw [hhb, upd_other _ _ _ _ hq])) ?_
      intro _
      rw [rankSt_set hrl hranks, if_pos rfl, cb, bb, ci, bi, hhb, upd_same, upd_same, hrs]
      refine ⟨hri, ho, (fun h1 => Bool.noConfusion h1), fun _ h2 h3 => ?_⟩
      obtain ⟨_, hz0⟩ := hz h3
      rw [q3 hnb h2 hz0]; rfl

theorem run_jinv {P : Par} (hn : 0 < P.nc.nslots) {S S' : St} (jls : List Label) (hi : JInv P S)
    (h : run P S jls = some S') : JInv P S' := by
  induction jls generalizing S with
  | nil => simp only [run] at h; cases h; exact hi
  | cons l jls ih =>
    simp only [run] at h
    cases hst : step P S l with
    | none => rw [hst] at h; cases h
    | some S1 => rw [hst] at h; exact ih (step_jinv hn hi hst) h

/-! ### the component histories are recoverable -/

/-- **a joint history is a history of the joint messaging model `Comm`** -/
theorem run_projC {P : Par} {S S' : St} (jls : List Label) (h : run P S jls = some S') :
    Comm.run P.n P.nh S.c (jls.flatMap (projC P)) = some S'.c := by
  induction jls generalizing S with
  | nil => simp only [run] at h; cases h; rfl
  | cons l jls ih =>
    simp only [run] at h
    cases hst : step P S l with
    | none => rw [hst] at h; cases h
    | some S1 =>
      rw [hst] at h
      rw [List.flatMap_cons]
      exact Comm.run_append _ _ (step_some hst).2.1 (ih h)

/-- **a joint history is a history of the system of all adapters `Cache.Net`** (so `reduce_ledger`,
`reduce_quiescent_spec`, … of `Props/C16.lean` apply), and the contributions `Cache.userContribs` counts are the
`async_reduce` calls of user code -/
theorem run_projN {P : Par} {S S' : St} (jls : List Label) (h : run P S jls = some S') :
    Cache.netRun P.nc S.net (netLabels P S jls) = some S'.net ∧
      Cache.userContribs (netLabels P S jls) = contribs jls := by
  induction jls generalizing S with
  | nil => simp only [run] at h; cases h; exact ⟨rfl, rfl⟩
  | cons l jls ih =>
    simp only [run] at h
    cases hst : step P S l with
    | none => rw [hst] at h; cases h
    | some S1 =>
      rw [hst] at h
      obtain ⟨i1, i2⟩ := ih h
      have hk := (step_some hst).2.2.1
      simp only [netLabels, hst]
      unfold nStep at hk
      cases hnl : netLabel P S l with
      | none =>
        rw [hnl] at hk
        simp only [List.nil_append]
        rw [Option.some.inj hk]
        refine ⟨i1, ?_⟩
        rw [i2]
        cases l <;> simp [netLabel] at hnl
        simp [contribs]
      | some nl =>
        rw [hnl] at hk
        simp only [List.singleton_append, Cache.netRun, hk]
        refine ⟨i1, ?_⟩
        cases l <;> simp only [netLabel, Option.some.injEq] at hnl <;> (try cases hnl) <;>
          simp [Cache.userContribs, contribs, i2]

/-- at the first return of a barrier the whole adapter system is quiet: nothing in flight, every cache empty, no
container call in progress -/
theorem net_quiet_at_exit (P : Par) (hn : 0 < P.nc.nslots) (st0 : List (Nat × Nat)) (jls : List Label) (S : St)
    (hrun : run P (init P st0) jls = some S) (r : Nat) (hr : r < P.n)
    (hx : BarrierME.exitEnabled S.c.b r = true) (hne : ∀ q, q < P.n → S.c.b.epoch q ≤ S.c.b.epoch r) :
    Cache.netQuiet S.net := by
  have hC : Comm.run P.n P.nh Comm.init (jls.flatMap (projC P)) = some S.c := run_projC jls hrun
  have hdead := BarrierME.C02ME_exit_implies_quiescent P.n S.c.b _ (Comm.run_projB _ hC) r hr hx _ rfl hne
  obtain ⟨ilen, ifl, iq⟩ := run_jinv hn jls (jinv_init P st0) hrun
  refine ⟨?_, List.eq_nil_of_length_eq_zero (by rw [ifl]; exact hdead.1)⟩
  intro s hs
  obtain ⟨q, hq, hqs⟩ := List.mem_iff_getElem.1 hs
  have hqn : q < P.n := by rw [← ilen]; exact hq
  have hrs : rankSt S q = s := by
    unfold rankSt
    rw [List.getD_eq_getElem?_getD, List.getElem?_eq_getElem hq, hqs]; rfl
  obtain ⟨_, _, hb, hcb⟩ := hdead.2 q hqn
  obtain ⟨⟨_, hflag, _⟩, how, hd, _⟩ := iq q hqn
  rw [hrs] at hflag how hd
  have hst : s.stack = [] := hd hb (hdead.2 q hqn).2.1 hcb
  have hreg : s.reg = false := by
    rw [hcb] at how
    unfold owed at how
    cases h : s.reg with
    | false => rfl
    | true => rw [h] at how; simp [b2n] at how
  refine ⟨hst, ?_⟩
  obtain ⟨ts, _, hcase⟩ := hflag hreg
  rcases hcase with ⟨_, he⟩ | ⟨i, ph, h1, _⟩
  · exact he
  · rw [hst] at h1
    cases ts <;> simp at h1

/-- **C16 end to end** (`ygm::container::reducing_adapter`).  For every number of ranks, every routing function of the
communicator, every cache size, every key partitioner, every next-hop function of the adapter, every associative and
commutative reducer and every history of the PRODUCT of the joint messaging model with the system of all adapter
caches — `async_reduce` from main programs and from handlers, owner bypass, evictions, partial values forwarded hop by
hop and re-entering the cache of the next rank in handler context, the pre-barrier flush-all callback with handlers
running during its sends, any interleaving, any number of barriers —: at the FIRST return of a barrier the whole system
is quiet and the target container's entry of every key is the fold of its previous value (if any) with EVERY value
passed to `async_reduce` for that key so far, on any rank, each exactly once. -/
theorem C16_reduce_after_barrier (P : Par) [Std.Associative P.nc.op] [Std.Commutative P.nc.op]
    (hn : 0 < P.nc.nslots) (st0 : List (Nat × Nat)) (jls : List Label) (S : St)
    (hrun : run P (init P st0) jls = some S) (r : Nat) (hr : r < P.n)
    (hx : BarrierME.exitEnabled S.c.b r = true) (hne : ∀ q, q < P.n → S.c.b.epoch q ≤ S.c.b.epoch r) (k : Nat) :
    Cache.storedOf k S.net.stored =
      Cache.omerge P.nc.op (Cache.storedOf k st0) (Cache.total P.nc.op (Cache.valsOf k (contribs jls))) ∧
    Cache.netQuiet S.net := by
  have hq := net_quiet_at_exit P hn st0 jls S hrun r hr hx hne
  obtain ⟨hN, hU⟩ := run_projN jls hrun
  have := Cache.reduce_quiescent_spec P.nc P.n st0 _ S.net hN hq k
  rw [hU] at this
  exact ⟨this, hq⟩

/-! ### non-vacuity (C16) -/

section ReduceExample

/-- which message each uid carries: partial values travelling to the next hop (`toContainer = false`) and container
operations executed by the owner (`toContainer = true`) -/
private def rdOp : Nat → Cache.Msg Nat
  | 1 => ⟨false, 1, 10⟩
  | 2 => ⟨true, 1, 5⟩
  | 3 => ⟨true, 1, 10⟩
  | 4 => ⟨false, 3, 7⟩
  | _ => ⟨true, 3, 7⟩

/-- 2 ranks, sum, a 2-slot cache (keys 1 and 3 collide), every key owned by rank 1 -/
private def rdNc : Cache.NetCfg Nat := { nslots := 2, op := (· + ·), owner := fun _ => 1, nh := fun _ o => o }

private def rdPar : Par := { n := 2, nc := rdNc, nh := fun _ d => d, opOf := rdOp }

instance : Std.Associative rdPar.nc.op := ⟨Nat.add_assoc⟩
instance : Std.Commutative rdPar.nc.op := ⟨Nat.add_comm⟩

private def rdRound2 : List Label :=
  [.comm (.contribute 0), .comm (.contribute 1), .comm (.result 0), .comm (.result 1)]

/-- rank 0 contributes (1, 10) (cached, registers the callback) and (3, 7), which EVICTS (1, 10) towards rank 1; the
owner, rank 1, contributes (1, 5) (owner bypass: a container operation to itself).  Inside the barrier the evicted
partial value re-enters the adapter on rank 1 in handler context (bypass again: uid 3), the pre-barrier callback of
rank 0 flushes (3, 7), which takes the same path (uid 4, then uid 5). -/
private def rdDemo : List Label :=
  [.user 0 1 10 true, .done 0, .user 0 3 7 false, .pack 0 1, .ret 0, .done 0,
   .user 1 1 5 false, .pack 1 2, .ret 1, .done 1,
   .comm (.enter 0), .comm (.enter 1),
   .comm (.isend 0 1), .comm (.recvBegin 1 0 0), .begin 1 1 false, .pack 1 3, .ret 1, .done 1,
   .comm (.execEnd 1 1), .comm (.recvEnd 1),
   .fb 0, .cbpack 0 4, .ret 0, .fe 0,
   .comm (.isend 1 1), .comm (.recvBegin 1 1 0), .begin 1 2 false, .comm (.execEnd 1 2),
   .begin 1 3 false, .comm (.execEnd 1 3), .comm (.recvEnd 1),
   .comm (.isend 0 1), .comm (.recvBegin 1 0 1), .begin 1 4 false, .pack 1 5, .ret 1, .done 1,
   .comm (.execEnd 1 4), .comm (.recvEnd 1),
   .comm (.isend 1 1), .comm (.recvBegin 1 1 1), .begin 1 5 false, .comm (.execEnd 1 5), .comm (.recvEnd 1)]
  ++ rdRound2 ++ rdRound2

set_option maxRecDepth 65536 in
/-- the joint history is accepted; at its end the exit rule holds and nobody has left barrier 0 … -/
example : ((run rdPar (init rdPar []) rdDemo).map (fun S =>
    (S.c.d.executed, BarrierME.exitEnabled S.c.b 0, (List.range 2).map S.c.b.epoch))) =
    some ([(1, 1), (1, 2), (1, 3), (1, 4), (1, 5)], true, [0, 0]) := by decide

set_option maxRecDepth 65536 in
/-- … the target container holds 1 ↦ 10 + 5 and 3 ↦ 7, nothing is in flight, both caches are back in their initial
state -/
example : ((run rdPar (init rdPar []) rdDemo).map (fun S =>
    (S.net.stored, S.net.flight.length, decide (S.net.ranks = [Cache.St.init, Cache.St.init])))) =
    some ([(1, 15), (3, 7)], 0, true) ∧ contribs rdDemo = [(1, 10), (3, 7), (1, 5)] := by decide

/-- the end-to-end theorem applied to the demo -/
example (S : St) (hrun : run rdPar (init rdPar []) rdDemo = some S) (hx : BarrierME.exitEnabled S.c.b 0 = true)
    (hne : ∀ q, q < 2 → S.c.b.epoch q ≤ S.c.b.epoch 0) :
    Cache.storedOf 1 S.net.stored = some 15 := by
  have h := (C16_reduce_after_barrier rdPar (by decide) [] rdDemo S hrun 0 (by decide) hx hne 1).1
  rw [h]
  decide

set_option maxRecDepth 65536 in
/-- the joint guards bite: `barrier()` cannot be entered with a container call in progress; a handler cannot return
before the `cache_reduce` it made has returned; user code cannot call `async_reduce` on a rank that waits in the
barrier and runs no handler -/
example :
    (run rdPar (init rdPar []) [.user 1 1 5 false, .comm (.enter 1)]).isNone = true ∧
    (run rdPar (init rdPar []) [.user 0 1 10 true, .done 0, .user 0 3 7 false, .pack 0 1, .ret 0, .done 0,
      .comm (.isend 0 1), .comm (.recvBegin 1 0 0), .begin 1 1 false, .comm (.execEnd 1 1)]).isNone = true ∧
    (run rdPar (init rdPar []) [.comm (.enter 1), .user 1 1 5 false]).isNone = true := by decide

end ReduceExample

end YgmVerif.ReduceComm
