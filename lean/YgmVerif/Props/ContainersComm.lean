import YgmVerif.Model.ContainersComm
import YgmVerif.Props.DistComm
import YgmVerif.Props.C13
import YgmVerif.Props.C14
/-!
# C13 / C14 end to end over the joint messaging model

`Props/C13.lean`, `Props/C14.lean` state their results for "the final state is `run a ms'` for SOME permutation `ms'` of
the issued messages" — exactly-once atomic execution on the owner is ASSUMED there.  Here it is DISCHARGED from
`Props/C02C01.lean` / `Props/DistComm.lean`: the container is run over `YgmVerif.Comm` (message movement × multi-epoch
barrier), an operation is a message `opOf uid`, the memory of a rank changes only at `execEnd`.
-/
namespace YgmVerif.ContainersComm
open YgmVerif
open YgmVerif.Comm (Label St)
open YgmVerif.DistComm

/-! ## C13 array -/

section Array
variable {α : Type}
open ArrayOps Part

/-- the sequential array model and the per-rank container agree: executing `E` by `ArrayOps.run` (issue + route by
`owner` + handler on the owner) gives on every rank the state `Dist.execGlobal` computes with the handler alone -/
theorem execGlobal_arr {a a' : Arr α} {E : List (ArrayOps.Msg α)} (h : ArrayOps.run a E = some a') (r : Nat) :
    Dist.execGlobal (arrContainer a.len a.ranks) (arrOwner a.len a.ranks) (arrInit a) E r = arrInit a' r := by
  induction E generalizing a with
  | nil => simp [run_nil] at h; subst h; rfl
  | cons m E ih =>
    rw [run_cons] at h
    cases h1 : ArrayOps.apply a m with
    | none => simp [h1] at h
    | some a1 =>
      simp only [h1, Option.bind_some] at h
      obtain ⟨hlt, d, vec, hd, hvec, hc1, hc2, hc3, rfl⟩ := apply_inv h1
      have hdl : d < a.vecs.length := (List.getElem?_eq_some_iff.mp hvec).1
      have := ih h
      simp only [Dist.execGlobal]
      rw [← this]
      congr 1
      funext q
      have hown : arrOwner a.len a.ranks m = d := by simp [arrOwner, hd]
      rw [hown]
      by_cases hq : q = d
      · subst hq
        have hv : a.vecs[q] = vec := by
          have := hvec; rw [List.getElem?_eq_getElem hdl] at this; exact Option.some.inj this
        simp [arrContainer, arrInit, ArrayOps.deliver, hc1, hc2, hdl, hv, hc3]
      · have : ¬ d = q := fun e => hq e.symm
        simp [arrInit, hq, this]

/-- **C13 end to end** (`ygm::container::array`).  For every number of ranks `n`, every routing function, every
joint history accepted from program start in which every message carries an array update `opOf uid` with a legal
index, sent point-to-point to `owner(index)` — issued by main programs, by handlers (e.g. a visitor that updates the
array again) or by pre-barrier callbacks, in any interleaving: at the FIRST return of a barrier

* the handlers executed so far, in their execution order `E = execOps`, are a permutation of ALL updates issued so
  far (each executed exactly once) and `ArrayOps.run a0 E` — the sequential model of `Props/C13.lean` — succeeds
  (no trap in `owner`, no `ASSERT_RELEASE` in a handler) with a well-formed result `a'`;
* the memory of EVERY rank `q` induced by the history is exactly `m_local_vec` of `q` in `a'`;
* for every index `i`: the updates addressed to `i` that were executed are a permutation of the updates addressed to `i`
  that were issued, element `i` is the fold of exactly these, each applied once (`final_is_fold`, now about the
  history instead of an assumed permutation), and it sits on rank `owner i` at `local_index i`. -/
theorem C13_array_after_barrier (a0 : Arr α) (hw : WF a0) (hr0 : 0 < a0.ranks) (opOf : Nat → ArrayOps.Msg α)
    (n : Nat) (nh : Nat → Nat → Nat) (ls : List Label) (s : St) (hrun : Comm.run n nh Comm.init ls = some s)
    (ha : Addressed (arrOwner a0.len a0.ranks) opOf ls)
    (hidx : ∀ m ∈ ls.flatMap Comm.issued, (opOf m.1).idx < a0.len)
    (r : Nat) (hr : r < n) (hx : BarrierME.exitEnabled s.b r = true) (hne : ∀ q, q < n → s.b.epoch q ≤ s.b.epoch r) :
    ∃ a', ArrayOps.run a0 (execOps opOf s) = some a' ∧ WF a' ∧ a'.len = a0.len ∧ a'.ranks = a0.ranks ∧
      (execOps opOf s).Perm (issuedOps opOf ls) ∧
      (∀ q, memOf (arrContainer a0.len a0.ranks) opOf n nh (arrInit a0) ls q = (q, a'.vecs[q]?)) ∧
      ∀ i, i < a0.len →
        (updatesOf (execOps opOf s) i).Perm (updatesOf (issuedOps opOf ls) i) ∧
        ArrayOps.get a' i = (ArrayOps.get a0 i).map (fun v0 => (updatesOf (execOps opOf s) i).foldl (fun v m => m.f i v) v0) ∧
        ∃ d, Part.owner a0.len a0.ranks i = some d ∧ d < a0.ranks ∧
          (memOf (arrContainer a0.len a0.ranks) opOf n nh (arrInit a0) ls d).2.bind
            (·[localIndex a0.len a0.ranks d i]?) = ArrayOps.get a' i := by
  have hperm := execOps_perm_issuedOps opOf n nh ls s hrun r hr hx hne
  have hall : ∀ m ∈ execOps opOf s, m.idx < a0.len := by
    intro m hm
    have := hperm.mem_iff.1 hm
    unfold issuedOps at this
    obtain ⟨x, hx', rfl⟩ := List.mem_map.1 this
    exact hidx x hx'
  obtain ⟨a', h1, hw', hl', hr'⟩ := run_some (execOps opOf s) hw hr0 hall
  have hmem : ∀ q, memOf (arrContainer a0.len a0.ranks) opOf n nh (arrInit a0) ls q = (q, a'.vecs[q]?) := by
    intro q
    unfold memOf
    rw [mem_eq_execGlobal (arrContainer a0.len a0.ranks) (arrOwner a0.len a0.ranks) opOf n nh (arrInit a0) ls s hrun ha q,
      execGlobal_arr h1 q]
    rfl
  refine ⟨a', h1, hw', hl', hr', hperm, hmem, ?_⟩
  intro i hi
  refine ⟨hperm.filter _, final_is_fold hr0 h1 i hi, ?_⟩
  obtain ⟨d, hd, hdr, _, _⟩ := owner_spec a0.len a0.ranks i hr0 hi
  refine ⟨d, hd, hdr, ?_⟩
  rw [hmem d]
  unfold ArrayOps.get
  rw [hl', hr', hd]
  rfl

/-- **C13 end to end, order-independent form**: if the issued updates addressed to one element commute pairwise (one
operator family of `Op.eval_comm`, an associative-commutative operator, …), then at the first return of a barrier
every element is the fold of the updates addressed to it IN ISSUE ORDER (hence in any order): the result does not
depend on the interleaving, the routing or the number of ranks. -/
theorem C13_array_after_barrier_commuting (a0 : Arr α) (hw : WF a0) (hr0 : 0 < a0.ranks)
    (opOf : Nat → ArrayOps.Msg α)
    (n : Nat) (nh : Nat → Nat → Nat) (ls : List Label) (s : St) (hrun : Comm.run n nh Comm.init ls = some s)
    (ha : Addressed (arrOwner a0.len a0.ranks) opOf ls)
    (hidx : ∀ m ∈ ls.flatMap Comm.issued, (opOf m.1).idx < a0.len)
    (hc : ∀ x ∈ issuedOps opOf ls, ∀ y ∈ issuedOps opOf ls, x.idx = y.idx →
      ∀ v, y.f y.idx (x.f x.idx v) = x.f x.idx (y.f y.idx v))
    (r : Nat) (hr : r < n) (hx : BarrierME.exitEnabled s.b r = true) (hne : ∀ q, q < n → s.b.epoch q ≤ s.b.epoch r) :
    ∃ a', ArrayOps.run a0 (execOps opOf s) = some a' ∧
      (∀ q, memOf (arrContainer a0.len a0.ranks) opOf n nh (arrInit a0) ls q = (q, a'.vecs[q]?)) ∧
      ∀ i, i < a0.len →
        ArrayOps.get a' i = (ArrayOps.get a0 i).map (fun v0 => (updatesOf (issuedOps opOf ls) i).foldl (fun v m => m.f i v) v0) := by
  obtain ⟨a', h1, _, _, _, hperm, hmem, hfold⟩ :=
    C13_array_after_barrier a0 hw hr0 opOf n nh ls s hrun ha hidx r hr hx hne
  refine ⟨a', h1, hmem, ?_⟩
  intro i hi
  obtain ⟨hp, hf, _⟩ := hfold i hi
  rw [hf]
  congr 1
  funext v0
  apply List.Perm.foldl_eq' hp
  intro x hx' y hy z
  unfold updatesOf at hx' hy
  simp only [List.mem_filter, beq_iff_eq] at hx' hy
  have := hc x (hperm.mem_iff.1 hx'.1) y (hperm.mem_iff.1 hy.1) (by omega) z
  rw [hx'.2, hy.2] at this
  exact this

/-- **C13 end to end for `async_binary_op_update_value` with an associative-commutative operator**: every message
`uid` carries `(index, value) = upd uid`; at the first return of a barrier element `i` is its initial value combined
with the values addressed to `i`, in issue order -/
theorem C13_array_after_barrier_assoc_comm (op : α → α → α) (hassoc : ∀ x y z, op (op x y) z = op x (op y z))
    (hcomm : ∀ x y, op x y = op y x)
    (a0 : Arr α) (hw : WF a0) (hr0 : 0 < a0.ranks) (upd : Nat → Nat × α)
    (n : Nat) (nh : Nat → Nat → Nat) (ls : List Label) (s : St) (hrun : Comm.run n nh Comm.init ls = some s)
    (ha : Addressed (arrOwner a0.len a0.ranks) (fun u => binMsg op (upd u)) ls)
    (hidx : ∀ m ∈ ls.flatMap Comm.issued, (upd m.1).1 < a0.len)
    (r : Nat) (hr : r < n) (hx : BarrierME.exitEnabled s.b r = true) (hne : ∀ q, q < n → s.b.epoch q ≤ s.b.epoch r) :
    ∃ a', ArrayOps.run a0 (execOps (fun u => binMsg op (upd u)) s) = some a' ∧
      ∀ i, i < a0.len →
        ArrayOps.get a' i = (ArrayOps.get a0 i).map (fun v0 =>
          ((((ls.flatMap Comm.issued).map (fun m => upd m.1)).filter (fun p => p.1 == i)).map (·.2)).foldl op v0) := by
  obtain ⟨a', h1, _, hfold⟩ :=
    C13_array_after_barrier_commuting a0 hw hr0 (fun u => binMsg op (upd u)) n nh ls s hrun ha hidx
      (by
        intro x hx' y hy _ v
        unfold issuedOps at hx' hy
        obtain ⟨p, _, rfl⟩ := List.mem_map.1 hx'
        obtain ⟨q, _, rfl⟩ := List.mem_map.1 hy
        exact binop_updates_commute op hassoc hcomm _ _ v)
      r hr hx hne
  refine ⟨a', h1, ?_⟩
  intro i hi
  rw [hfold i hi]
  congr 1
  funext v0
  unfold updatesOf issuedOps
  rw [List.filter_map, List.foldl_map, List.filter_map, List.foldl_map, List.foldl_map]
  rfl

/-! ### non-vacuity (C13) -/

section ArrayExample

/-- 5 elements on 3 ranks: blocks [0,1], [2,3], [4] -/
private def arr0 : Arr UInt64 := fresh 5 3 10

/-- which update each message carries (one commuting family: plus / minus / inc) -/
private def arrOp : Nat → ArrayOps.Msg UInt64
  | 1 => Op.msg 4 (.plus 2)
  | 2 => Op.msg 4 (.plus 3)
  | 3 => Op.msg 0 .inc
  | _ => Op.msg 2 (.minus 1)

private def round3 : List Label :=
  [.contribute 0, .contribute 1, .contribute 2, .result 0, .result 1, .result 2]

/-- ranks 0 and 1 both update element 4 (owner: rank 2) before the barrier; the handler of the first update, running
on rank 2 INSIDE the barrier, issues an update of element 0 (owner: rank 0); a pre-barrier callback of rank 1 issues an
update of element 2 (its own element: a self-send) -/
private def arrDemo : List Label :=
  [.regcb 1, .async 0 1 2 false, .async 1 2 2 false, .enter 0, .enter 1, .enter 2,
   .runcb 1 [(4, 1, false)] 0,
   .isend 0 2, .recvBegin 2 0 0, .execBegin 2 1, .async 2 3 0 false, .execEnd 2 1, .recvEnd 2,
   .isend 1 2, .recvBegin 2 1 0, .execBegin 2 2, .execEnd 2 2, .recvEnd 2,
   .isend 1 1, .recvBegin 1 1 1, .execBegin 1 4, .execEnd 1 4, .recvEnd 1,
   .isend 2 0, .recvBegin 0 2 0, .execBegin 0 3, .execEnd 0 3, .recvEnd 0] ++ round3 ++ round3

set_option maxRecDepth 32768 in
/-- the history is accepted; at its end the exit rule holds on every rank and nobody has left barrier 0 -/
example : ((Comm.run 3 (fun _ d => d) Comm.init arrDemo).map (fun s =>
    (s.d.executed, BarrierME.exitEnabled s.b 0, BarrierME.exitEnabled s.b 2, (List.range 3).map s.b.epoch,
     (Comm.step 3 (fun _ d => d) s (.exit 0)).isSome))) =
    some ([(2, 1), (2, 2), (1, 4), (0, 3)], true, true, [0, 0, 0], true) := by decide

set_option maxRecDepth 32768 in
/-- the hypotheses of `C13_array_after_barrier` about the history hold -/
example : Addressed (arrOwner arr0.len arr0.ranks) arrOp arrDemo ∧
    (∀ m ∈ arrDemo.flatMap Comm.issued, (arrOp m.1).idx < arr0.len) := by decide

set_option maxRecDepth 32768 in
/-- the induced memories: element 4 = 10 + 2 + 3 on rank 2, element 0 = 11 on rank 0, element 2 = 9 on rank 1 -/
example : (List.range 3).map (memOf (arrContainer arr0.len arr0.ranks) arrOp 3 (fun _ d => d) (arrInit arr0) arrDemo) =
    [(0, some [11, 10]), (1, some [9, 10]), (2, some [15])] := by decide

/-- the end-to-end theorem applied to the demo (every hypothesis about the history discharged by `decide`) -/
example (s : St) (hrun : Comm.run 3 (fun _ d => d) Comm.init arrDemo = some s)
    (hx : BarrierME.exitEnabled s.b 0 = true) (hne : ∀ q, q < 3 → s.b.epoch q ≤ s.b.epoch 0) :
    ∃ a', ArrayOps.run arr0 (execOps arrOp s) = some a' ∧
      (∀ q, memOf (arrContainer arr0.len arr0.ranks) arrOp 3 (fun _ d => d) (arrInit arr0) arrDemo q = (q, a'.vecs[q]?)) ∧
      ∀ i, i < arr0.len → ArrayOps.get a' i = (ArrayOps.get arr0 i).map (fun v0 =>
        (updatesOf (issuedOps arrOp arrDemo) i).foldl (fun v m => m.f i v) v0) :=
  C13_array_after_barrier_commuting arr0 (fresh_wf 5 3 10) (by decide) arrOp 3 (fun _ d => d) arrDemo s hrun
    (by decide) (by decide)
    (by
      intro x hx' y hy _ v
      have key : ∀ m ∈ issuedOps arrOp arrDemo, ∃ o : Op, o.family = some 0 ∧ m.f = o.eval := by
        intro m hm
        simp only [issuedOps, arrDemo, round3, List.flatMap_cons, List.flatMap_nil, Comm.issued, List.cons_append,
          List.nil_append, List.append_nil, List.map_cons, List.map_nil, List.mem_cons, List.not_mem_nil,
          or_false, arrOp, Op.msg] at hm
        rcases hm with rfl | rfl | rfl | rfl
        · exact ⟨.plus 2, rfl, rfl⟩
        · exact ⟨.plus 3, rfl, rfl⟩
        · exact ⟨.minus 1, rfl, rfl⟩
        · exact ⟨.inc, rfl, rfl⟩
      obtain ⟨o1, f1, e1⟩ := key x hx'
      obtain ⟨o2, f2, e2⟩ := key y hy
      rw [e1, e2]
      exact Op.eval_comm o1 o2 _ _ v (by rw [f1, f2]) (by rw [f1]; simp))
    0 (by decide) hx hne

/-- an update sent to a rank that does not own its index violates the issuing discipline -/
example : ¬ Addressed (arrOwner arr0.len arr0.ranks) arrOp [.async 0 1 1 false] := by decide

/-- a handler run on the wrong rank trips the handler's assertion: the state records it (`none`), it is not hidden -/
example : ((arrContainer 5 3).apply (arrInit arr0 1) (arrOp 1)).1 = (1, none) := by decide

end ArrayExample

end Array

/-! ## C14 bag -/

section Bag
variable {α : Type}
open BagOps

theorem getD_modify {β : Type} (L : List β) (d q : Nat) (f : β → β) (dflt : β) (hd : d < L.length) :
    (L.modify d f).getD q dflt = if q = d then f (L.getD q dflt) else L.getD q dflt := by
  simp only [List.getD_eq_getElem?_getD, List.getElem?_modify]
  by_cases h : q = d
  · subst h
    simp [List.getElem?_eq_getElem hd]
  · have : ¬ d = q := fun e => h e.symm
    simp [h, this]

/-- the sequential bag model and the per-rank container agree: `BagOps.deliverAll b E` gives on every rank the state
`Dist.execGlobal` computes with the remote lambda alone -/
theorem execGlobal_bag {b b' : Bag α} {E : List (BagOps.Msg α)} (h : deliverAll b E = some b') (r : Nat) :
    Dist.execGlobal bagContainer bagOwner (bagInit b) E r = bagInit b' r := by
  induction E generalizing b with
  | nil => simp only [deliverAll, Option.some.injEq] at h; subst h; rfl
  | cons m E ih =>
    simp only [deliverAll] at h
    cases h1 : deliver b m with
    | none => simp [h1] at h
    | some b1 =>
      simp only [h1, Option.bind_some] at h
      obtain ⟨hd, rfl⟩ := deliver_inv h1
      have := ih h
      simp only [Dist.execGlobal]
      rw [← this]
      congr 1
      funext q
      simp only [bagInit, bagContainer, bagOwner]
      rw [getD_modify _ _ _ _ _ hd]
      by_cases hq : q = m.dest <;> simp [hq]

theorem foldl_append_items (g : List α) (L : List (BagOps.Msg α)) :
    L.foldl (fun st m => st ++ m.items) g = g ++ L.flatMap (·.items) := by
  induction L generalizing g with
  | nil => simp
  | cons m L ih => simp [List.foldl_cons, ih, List.flatMap_cons, List.append_assoc]

theorem flatten_eq_flatMap_getD (L : List (List α)) :
    L.flatten = (List.range L.length).flatMap (fun q => L.getD q []) := by
  induction L with
  | nil => rfl
  | cons l L ih =>
    rw [List.length_cons, List.range_succ_eq_map, List.flatMap_cons, List.flatMap_map, List.flatten_cons, ih]
    rfl

/-- **C14 end to end** (`ygm::container::bag`).  For every number of ranks `n`, every routing function, every joint
history accepted from program start in which every message carries a bag insert `opOf uid` = (destination, items) —
`async_insert(item)` with the round-robin destination, `async_insert(item, dest)`, `async_insert(vector, dest)`; the
destination is whatever the message says — sent point-to-point to that destination, from main programs, handlers or
pre-barrier callbacks: at the FIRST return of a barrier

* the executed inserts, in execution order, are a permutation of ALL inserts issued so far and `BagOps.deliverAll`
  (the sequential model of `Props/C14.lean`) succeeds on them;
* the memory of every rank `q` induced by the history is `m_local_bag` of `q` in the result, and it is, as a multiset,
  the initial local bag plus the items of exactly the inserts addressed to `q`;
* the multiset union of the local bags is the initial content plus exactly the items inserted so far (nothing lost,
  nothing duplicated, nothing invented), and the local sizes are the initial sizes plus what was addressed there. -/
theorem C14_bag_after_barrier (b0 : Bag α) (n : Nat) (hb : b0.bags.length = n) (opOf : Nat → BagOps.Msg α)
    (nh : Nat → Nat → Nat) (ls : List Label) (s : St) (hrun : Comm.run n nh Comm.init ls = some s)
    (ha : Addressed bagOwner opOf ls)
    (r : Nat) (hr : r < n) (hx : BarrierME.exitEnabled s.b r = true) (hne : ∀ q, q < n → s.b.epoch q ≤ s.b.epoch r) :
    ∃ b', deliverAll b0 (execOps opOf s) = some b' ∧ b'.bags.length = n ∧
      (execOps opOf s).Perm (issuedOps opOf ls) ∧
      (∀ q, memOf bagContainer opOf n nh (bagInit b0) ls q = b'.bags.getD q []) ∧
      (∀ q, (memOf bagContainer opOf n nh (bagInit b0) ls q).Perm
        (b0.bags.getD q [] ++ ((issuedOps opOf ls).filter (fun m => m.dest = q)).flatMap (·.items))) ∧
      ((List.range n).flatMap (memOf bagContainer opOf n nh (bagInit b0) ls)).Perm
        (items b0 ++ (issuedOps opOf ls).flatMap (·.items)) ∧
      (items b').Perm (items b0 ++ (issuedOps opOf ls).flatMap (·.items)) ∧
      (∀ q, (memOf bagContainer opOf n nh (bagInit b0) ls q).length =
        (b0.bags.getD q []).length + recv (issuedOps opOf ls) q) := by
  have hperm := execOps_perm_issuedOps opOf n nh ls s hrun r hr hx hne
  have hdest : ∀ m ∈ execOps opOf s, m.dest < b0.bags.length := by
    intro m hm
    unfold execOps at hm
    obtain ⟨p, hp, rfl⟩ := List.mem_map.1 hm
    have h1 := executed_owned bagOwner opOf n nh ls s hrun ha p hp
    have h2 := executed_rank_lt n nh ls s hrun p hp
    unfold bagOwner at h1
    rw [hb, h1]; exact h2
  obtain ⟨b', h1⟩ := deliverAll_some b0 (execOps opOf s) hdest
  obtain ⟨_, _, e3, e4, e5, _⟩ := deliverAll_spec h1
  have hmem : ∀ q, memOf bagContainer opOf n nh (bagInit b0) ls q = b'.bags.getD q [] := by
    intro q
    unfold memOf
    rw [mem_eq_execGlobal bagContainer bagOwner opOf n nh (bagInit b0) ls s hrun ha q, execGlobal_bag h1 q]
    rfl
  have hitems : (items b').Perm (items b0 ++ (issuedOps opOf ls).flatMap (·.items)) :=
    e4.trans (List.Perm.append_left _ (hperm.flatMap_right _))
  refine ⟨b', h1, by rw [e3, hb], hperm, hmem, ?_, ?_, hitems, ?_⟩
  · intro q
    rw [state_is_fold bagContainer opOf n nh (bagInit b0) ls s hrun q,
      opsExecutedOn_eq_filter bagOwner opOf n nh ls s hrun ha q]
    show (List.foldl (fun (st : List α) (m : BagOps.Msg α) => st ++ m.items) (bagInit b0 q) _).Perm _
    rw [foldl_append_items]
    exact List.Perm.append_left _ ((hperm.filter _).flatMap_right _)
  · have : (List.range n).flatMap (memOf bagContainer opOf n nh (bagInit b0) ls) = items b' := by
      unfold items
      rw [flatten_eq_flatMap_getD, e3, hb]
      apply flatMap_congr_mem
      intro q _
      exact hmem q
    rw [this]; exact hitems
  · intro q
    rw [hmem q, e5 q, recv_perm hperm q]

/-! ### non-vacuity (C14) -/

section BagExample

private def bag0 : Bag Nat := { ranks := 3, bags := [[1], [], [2]], rr := [0, 0, 0] }

/-- which insert each message carries: `async_insert(7, 1)`, `async_insert({8, 9}, 1)`, `async_insert(5, 0)` -/
private def bagOp : Nat → BagOps.Msg Nat
  | 1 => insertTo 1 7
  | 2 => insertVec 1 [8, 9]
  | _ => insertTo 0 5

private def bround3 : List Label :=
  [.contribute 0, .contribute 1, .contribute 2, .result 0, .result 1, .result 2]

/-- rank 0 inserts 7 at rank 1, rank 2 inserts the vector {8, 9} at rank 1; the handler of the first insert (running on
rank 1 inside the barrier) inserts 5 at rank 0 -/
private def bagDemo : List Label :=
  [.async 0 1 1 false, .async 2 2 1 false, .enter 0, .enter 1, .enter 2,
   .isend 2 1, .isend 0 1, .recvBegin 1 0 0, .execBegin 1 1, .async 1 3 0 false, .execEnd 1 1, .recvEnd 1,
   .recvBegin 1 2 0, .execBegin 1 2, .execEnd 1 2, .recvEnd 1,
   .isend 1 0, .recvBegin 0 1 0, .execBegin 0 3, .execEnd 0 3, .recvEnd 0] ++ bround3 ++ bround3

set_option maxRecDepth 32768 in
/-- accepted; the exit rule holds at the end, nobody has left barrier 0; the issuing discipline holds -/
example : ((Comm.run 3 (fun _ d => d) Comm.init bagDemo).map (fun s =>
    (s.d.executed, BarrierME.exitEnabled s.b 1, (List.range 3).map s.b.epoch))) =
    some ([(1, 1), (1, 2), (0, 3)], true, [0, 0, 0]) ∧ Addressed bagOwner bagOp bagDemo := by decide

set_option maxRecDepth 32768 in
/-- the induced local bags -/
example : (List.range 3).map (memOf bagContainer bagOp 3 (fun _ d => d) (bagInit bag0) bagDemo) =
    [[1, 5], [7, 8, 9], [2]] := by decide

/-- the end-to-end theorem applied to the demo -/
example (s : St) (hrun : Comm.run 3 (fun _ d => d) Comm.init bagDemo = some s)
    (hx : BarrierME.exitEnabled s.b 1 = true) (hne : ∀ q, q < 3 → s.b.epoch q ≤ s.b.epoch 1) :
    ((List.range 3).flatMap (memOf bagContainer bagOp 3 (fun _ d => d) (bagInit bag0) bagDemo)).Perm
      ([1, 2] ++ [7, 8, 9, 5]) := by
  obtain ⟨_, _, _, _, _, _, h, _⟩ :=
    C14_bag_after_barrier bag0 3 rfl bagOp (fun _ d => d) bagDemo s hrun (by decide) 1 (by decide) hx hne
  exact h

/-- an insert delivered to a rank other than the one the message names violates the issuing discipline -/
example : ¬ Addressed bagOwner bagOp [.async 0 1 2 false] := by decide

end BagExample

end Bag

end YgmVerif.ContainersComm
