import YgmVerif.Model.ContainersComm
import YgmVerif.Props.DistComm
import YgmVerif.Props.C13
import YgmVerif.Props.C14
import YgmVerif.Props.C15
/-!
# C13 / C14 end to end over the joint messaging model

`Props/C13.lean`, `Props/C14.lean` state their results for "the final state is `run a ms'` for SOME permutation `ms'` of
the issued messages" — exactly-once atomic execution on the owner is ASSUMED there.  Here it is DISCHARGED from
`Props/C02C01.lean` / `Props/DistComm.lean`: the container is run over `YgmVerif.Comm` (message movement × multi-epoch
barrier), an operation is a message `opOf uid`, the memory of a rank changes only at `execEnd`.
-/
namespace YgmVerif.ContainersComm
open YgmVerif
open YgmVerif.Comm (Label St)
open YgmVerif.DistComm

/-! ## C13 array -/

section Array
variable {α : Type}
open ArrayOps Part

/-- the sequential array model and the per-rank container agree: executing `E` by `ArrayOps.run` (issue + route by
`owner` + handler on the owner) gives on every rank the state `Dist.execGlobal` computes with the handler alone -/
theorem execGlobal_arr {a a' : Arr α} {E : List (ArrayOps.Msg α)} (h : ArrayOps.run a E = some a') (r : Nat) :
    Dist.execGlobal (arrContainer a.len a.ranks) (arrOwner a.len a.ranks) (arrInit a) E r = arrInit a' r := by
  induction E generalizing a with
  | nil => simp [run_nil] at h; subst h; rfl
  | cons m E ih =>
    rw [run_cons] at h
    cases h1 : ArrayOps.apply a m with
    | none => simp [h1] at h
    | some a1 =>
      simp only [h1, Option.bind_some] at h
      obtain ⟨hlt, d, vec, hd, hvec, hc1, hc2, hc3, rfl⟩ := apply_inv h1
      have hdl : d < a.vecs.length := (List.getElem?_eq_some_iff.mp hvec).1
      have := ih h
      simp only [Dist.execGlobal]
      rw [← this]
      congr 1
      funext q
      have hown : arrOwner a.len a.ranks m = d := by simp [arrOwner, hd]
      rw [hown]
      by_cases hq : q = d
      · subst hq
        have hv : a.vecs[q] = vec := by
          have := hvec; rw [List.getElem?_eq_getElem hdl] at this; exact Option.some.inj this
        simp [arrContainer, arrInit, ArrayOps.deliver, hc1, hc2, hdl, hv, hc3]
      · have : ¬ d = q := fun e => hq e.symm
        simp [arrInit, hq, this]

/-- **C13 end to end** (`ygm::container::array`).  For every number of ranks `n`, every routing function, every
joint history accepted from program start in which every message carries an array update `opOf uid` with a legal
index, sent point-to-point to `owner(index)` — issued by main programs, by handlers (e.g. a visitor that updates the
array again) or by pre-barrier callbacks, in any interleaving: at the FIRST return of a barrier

* the handlers executed so far, in their execution order `E = execOps`, are a permutation of ALL updates issued so
  far (each executed exactly once) and `ArrayOps.run a0 E` — the sequential model of `Props/C13.lean` — succeeds
  (no trap in `owner`, no `ASSERT_RELEASE` in a handler) with a well-formed result `a'`;
* the memory of EVERY rank `q` induced by the history is exactly `m_local_vec` of `q` in `a'`;
* for every index `i`: the updates addressed to `i` that were executed are a permutation of the updates addressed to `i`
  that were issued, element `i` is the fold of exactly these, each applied once (`final_is_fold`, now about the
  history instead of an assumed permutation), and it sits on rank `owner i` at `local_index i`. -/
theorem C13_array_after_barrier (a0 : Arr α) (hw : WF a0) (hr0 : 0 < a0.ranks) (opOf : Nat → ArrayOps.Msg α)
    (n : Nat) (nh : Nat → Nat → Nat) (ls : List Label) (s : St) (hrun : Comm.run n nh Comm.init ls = some s)
    (ha : Addressed (arrOwner a0.len a0.ranks) opOf ls)
    (hidx : ∀ m ∈ ls.flatMap Comm.issued, (opOf m.1).idx < a0.len)
    (r : Nat) (hr : r < n) (hx : BarrierME.exitEnabled s.b r = true) (hne : ∀ q, q < n → s.b.epoch q ≤ s.b.epoch r) :
    ∃ a', ArrayOps.run a0 (execOps opOf s) = some a' ∧ WF a' ∧ a'.len = a0.len ∧ a'.ranks = a0.ranks ∧
      (execOps opOf s).Perm (issuedOps opOf ls) ∧
      (∀ q, memOf (arrContainer a0.len a0.ranks) opOf n nh (arrInit a0) ls q = (q, a'.vecs[q]?)) ∧
      ∀ i, i < a0.len →
        (updatesOf (execOps opOf s) i).Perm (updatesOf (issuedOps opOf ls) i) ∧
        ArrayOps.get a' i = (ArrayOps.get a0 i).map (fun v0 => (updatesOf (execOps opOf s) i).foldl (fun v m => m.f i v) v0) ∧
        ∃ d, Part.owner a0.len a0.ranks i = some d ∧ d < a0.ranks ∧
          (memOf (arrContainer a0.len a0.ranks) opOf n nh (arrInit a0) ls d).2.bind
            (·[localIndex a0.len a0.ranks d i]?) = ArrayOps.get a' i := by
  have hperm := execOps_perm_issuedOps opOf n nh ls s hrun r hr hx hne
  have hall : ∀ m ∈ execOps opOf s, m.idx < a0.len := by
    intro m hm
    have := hperm.mem_iff.1 hm
    unfold issuedOps at this
    obtain ⟨x, hx', rfl⟩ := List.mem_map.1 this
    exact hidx x hx'
  obtain ⟨a', h1, hw', hl', hr'⟩ := run_some (execOps opOf s) hw hr0 hall
  have hmem : ∀ q, memOf (arrContainer a0.len a0.ranks) opOf n nh (arrInit a0) ls q = (q, a'.vecs[q]?) := by
    intro q
    unfold memOf
    rw [mem_eq_execGlobal (arrContainer a0.len a0.ranks) (arrOwner a0.len a0.ranks) opOf n nh (arrInit a0) ls s hrun ha q,
      execGlobal_arr h1 q]
    rfl
  refine ⟨a', h1, hw', hl', hr', hperm, hmem, ?_⟩
  intro i hi
  refine ⟨hperm.filter _, final_is_fold hr0 h1 i hi, ?_⟩
  obtain ⟨d, hd, hdr, _, _⟩ := owner_spec a0.len a0.ranks i hr0 hi
  refine ⟨d, hd, hdr, ?_⟩
  rw [hmem d]
  unfold ArrayOps.get
  rw [hl', hr', hd]
  rfl

/-- **C13 end to end, order-independent form**: if the issued updates addressed to one element commute pairwise (one
operator family of `Op.eval_comm`, an associative-commutative operator, …), then at the first return of a barrier
every element is the fold of the updates addressed to it IN ISSUE ORDER (hence in any order): the result does not
depend on the interleaving, the routing or the number of ranks. -/
theorem C13_array_after_barrier_commuting (a0 : Arr α) (hw : WF a0) (hr0 : 0 < a0.ranks)
    (opOf : Nat → ArrayOps.Msg α)
    (n : Nat) (nh : Nat → Nat → Nat) (ls : List Label) (s : St) (hrun : Comm.run n nh Comm.init ls = some s)
    (ha : Addressed (arrOwner a0.len a0.ranks) opOf ls)
    (hidx : ∀ m ∈ ls.flatMap Comm.issued, (opOf m.1).idx < a0.len)
    (hc : ∀ x ∈ issuedOps opOf ls, ∀ y ∈ issuedOps opOf ls, x.idx = y.idx →
      ∀ v, y.f y.idx (x.f x.idx v) = x.f x.idx (y.f y.idx v))
    (r : Nat) (hr : r < n) (hx : BarrierME.exitEnabled s.b r = true) (hne : ∀ q, q < n → s.b.epoch q ≤ s.b.epoch r) :
    ∃ a', ArrayOps.run a0 (execOps opOf s) = some a' ∧
      (∀ q, memOf (arrContainer a0.len a0.ranks) opOf n nh (arrInit a0) ls q = (q, a'.vecs[q]?)) ∧
      ∀ i, i < a0.len →
        ArrayOps.get a' i = (ArrayOps.get a0 i).map (fun v0 => (updatesOf (issuedOps opOf ls) i).foldl (fun v m => m.f i v) v0) := by
  obtain ⟨a', h1, _, _, _, hperm, hmem, hfold⟩ :=
    C13_array_after_barrier a0 hw hr0 opOf n nh ls s hrun ha hidx r hr hx hne
  refine ⟨a', h1, hmem, ?_⟩
  intro i hi
  obtain ⟨hp, hf, _⟩ := hfold i hi
  rw [hf]
  congr 1
  funext v0
  apply List.Perm.foldl_eq' hp
  intro x hx' y hy z
  unfold updatesOf at hx' hy
  simp only [List.mem_filter, beq_iff_eq] at hx' hy
  have := hc x (hperm.mem_iff.1 hx'.1) y (hperm.mem_iff.1 hy.1) (by omega) z
  rw [hx'.2, hy.2] at this
  exact this

/-- **C13 end to end for `async_binary_op_update_value` with an associative-commutative operator**: every message
`uid` carries `(index, value) = upd uid`; at the first return of a barrier element `i` is its initial value combined
with the values addressed to `i`, in issue order -/
theorem C13_array_after_barrier_assoc_comm (op : α → α → α) (hassoc : ∀ x y z, op (op x y) z = op x (op y z))
    (hcomm : ∀ x y, op x y = op y x)
    (a0 : Arr α) (hw : WF a0) (hr0 : 0 < a0.ranks) (upd : Nat → Nat × α)
    (n : Nat) (nh : Nat → Nat → Nat) (ls : List Label) (s : St) (hrun : Comm.run n nh Comm.init ls = some s)
    (ha : Addressed (arrOwner a0.len a0.ranks) (fun u => binMsg op (upd u)) ls)
    (hidx : ∀ m ∈ ls.flatMap Comm.issued, (upd m.1).1 < a0.len)
    (r : Nat) (hr : r < n) (hx : BarrierME.exitEnabled s.b r = true) (hne : ∀ q, q < n → s.b.epoch q ≤ s.b.epoch r) :
    ∃ a', ArrayOps.run a0 (execOps (fun u => binMsg op (upd u)) s) = some a' ∧
      ∀ i, i < a0.len →
        ArrayOps.get a' i = (ArrayOps.get a0 i).map (fun v0 =>
          ((((ls.flatMap Comm.issued).map (fun m => upd m.1)).filter (fun p => p.1 == i)).map (·.2)).foldl op v0) := by
  obtain ⟨a', h1, _, hfold⟩ :=
    C13_array_after_barrier_commuting a0 hw hr0 (fun u => binMsg op (upd u)) n nh ls s hrun ha hidx
      (by
        intro x hx' y hy _ v
        unfold issuedOps at hx' hy
        obtain ⟨p, _, rfl⟩ := List.mem_map.1 hx'
        obtain ⟨q, _, rfl⟩ := List.mem_map.1 hy
        exact binop_updates_commute op hassoc hcomm _ _ v)
      r hr hx hne
  refine ⟨a', h1, ?_⟩
  intro i hi
  rw [hfold i hi]
  congr 1
  funext v0
  unfold updatesOf issuedOps
  rw [List.filter_map, List.foldl_map, List.filter_map, List.foldl_map, List.foldl_map]
  rfl

/-! ### non-vacuity (C13) -/

section ArrayExample

/-- 5 elements on 3 ranks: blocks [0,1], [2,3], [4] -/
private def arr0 : Arr UInt64 := fresh 5 3 10

/-- which update each message carries (one commuting family: plus / minus / inc) -/
private def arrOp : Nat → ArrayOps.Msg UInt64
  | 1 => Op.msg 4 (.plus 2)
  | 2 => Op.msg 4 (.plus 3)
  | 3 => Op.msg 0 .inc
  | _ => Op.msg 2 (.minus 1)

private def round3 : List Label :=
  [.contribute 0, .contribute 1, .contribute 2, .result 0, .result 1, .result 2]

/-- ranks 0 and 1 both update element 4 (owner: rank 2) before the barrier; the handler of the first update, running
on rank 2 INSIDE the barrier, issues an update of element 0 (owner: rank 0); a pre-barrier callback of rank 1 issues an
update of element 2 (its own element: a self-send) -/
private def arrDemo : List Label :=
  [.regcb 1, .async 0 1 2 false, .async 1 2 2 false, .enter 0, .enter 1, .enter 2,
   .runcb 1 [(4, 1, false)] 0,
   .isend 0 2, .recvBegin 2 0 0, .execBegin 2 1, .async 2 3 0 false, .execEnd 2 1, .recvEnd 2,
   .isend 1 2, .recvBegin 2 1 0, .execBegin 2 2, .execEnd 2 2, .recvEnd 2,
   .isend 1 1, .recvBegin 1 1 1, .execBegin 1 4, .execEnd 1 4, .recvEnd 1,
   .isend 2 0, .recvBegin 0 2 0, .execBegin 0 3, .execEnd 0 3, .recvEnd 0] ++ round3 ++ round3

set_option maxRecDepth 32768 in
/-- the history is accepted; at its end the exit rule holds on every rank and nobody has left barrier 0 -/
example : ((Comm.run 3 (fun _ d => d) Comm.init arrDemo).map (fun s =>
    (s.d.executed, BarrierME.exitEnabled s.b 0, BarrierME.exitEnabled s.b 2, (List.range 3).map s.b.epoch,
     (Comm.step 3 (fun _ d => d) s (.exit 0)).isSome))) =
    some ([(2, 1), (2, 2), (1, 4), (0, 3)], true, true, [0, 0, 0], true) := by decide

set_option maxRecDepth 32768 in
/-- the hypotheses of `C13_array_after_barrier` about the history hold -/
example : Addressed (arrOwner arr0.len arr0.ranks) arrOp arrDemo ∧
    (∀ m ∈ arrDemo.flatMap Comm.issued, (arrOp m.1).idx < arr0.len) := by decide

set_option maxRecDepth 32768 in
/-- the induced memories: element 4 = 10 + 2 + 3 on rank 2, element 0 = 11 on rank 0, element 2 = 9 on rank 1 -/
example : (List.range 3).map (memOf (arrContainer arr0.len arr0.ranks) arrOp 3 (fun _ d => d) (arrInit arr0) arrDemo) =
    [(0, some [11, 10]), (1, some [9, 10]), (2, some [15])] := by decide

/-- the end-to-end theorem applied to the demo (every hypothesis about the history discharged by `decide`) -/
example (s : St) (hrun : Comm.run 3 (fun _ d => d) Comm.init arrDemo = some s)
    (hx : BarrierME.exitEnabled s.b 0 = true) (hne : ∀ q, q < 3 → s.b.epoch q ≤ s.b.epoch 0) :
    ∃ a', ArrayOps.run arr0 (execOps arrOp s) = some a' ∧
      (∀ q, memOf (arrContainer arr0.len arr0.ranks) arrOp 3 (fun _ d => d) (arrInit arr0) arrDemo q = (q, a'.vecs[q]?)) ∧
      ∀ i, i < arr0.len → ArrayOps.get a' i = (ArrayOps.get arr0 i).map (fun v0 =>
        (updatesOf (issuedOps arrOp arrDemo) i).foldl (fun v m => m.f i v) v0) :=
  C13_array_after_barrier_commuting arr0 (fresh_wf 5 3 10) (by decide) arrOp 3 (fun _ d => d) arrDemo s hrun
    (by decide) (by decide)
    (by
      intro x hx' y hy _ v
      have key : ∀ m ∈ issuedOps arrOp arrDemo, ∃ o : Op, o.family = some 0 ∧ m.f = o.eval := by
        intro m hm
        simp only [issuedOps, arrDemo, round3, List.flatMap_cons, List.flatMap_nil, Comm.issued, List.cons_append,
          List.nil_append, List.append_nil, List.map_cons, List.map_nil, List.mem_cons, List.not_mem_nil,
          or_false, arrOp, Op.msg] at hm
        rcases hm with rfl | rfl | rfl | rfl
        · exact ⟨.plus 2, rfl, rfl⟩
        · exact ⟨.plus 3, rfl, rfl⟩
        · exact ⟨.minus 1, rfl, rfl⟩
        · exact ⟨.inc, rfl, rfl⟩
      obtain ⟨o1, f1, e1⟩ := key x hx'
      obtain ⟨o2, f2, e2⟩ := key y hy
      rw [e1, e2]
      exact Op.eval_comm o1 o2 _ _ v (by rw [f1, f2]) (by rw [f1]; simp))
    0 (by decide) hx hne

/-- an update sent to a rank that does not own its index violates the issuing discipline -/
example : ¬ Addressed (arrOwner arr0.len arr0.ranks) arrOp [.async 0 1 1 false] := by decide

/-- a handler run on the wrong rank trips the handler's assertion: the state records it (`none`), it is not hidden -/
example : ((arrContainer 5 3).apply (arrInit arr0 1) (arrOp 1)).1 = (1, none) := by decide

end ArrayExample

end Array

/-! ## C14 bag -/

section Bag
variable {α : Type}
open BagOps

theorem getD_modify {β : Type} (L : List β) (d q : Nat) (f : β → β) (dflt : β) (hd : d < L.length) :
    (L.modify d f).getD q dflt = if q = d then f (L.getD q dflt) else L.getD q dflt := by
  simp only [List.getD_eq_getElem?_getD, List.getElem?_modify]
  by_cases h : q = d
  · subst h
    simp [List.getElem?_eq_getElem hd]
  · have : ¬ d = q := fun e => h e.symm
    simp [h, this]

/-- the sequential bag model and the per-rank container agree: `BagOps.deliverAll b E` gives on every rank the state
`Dist.execGlobal` computes with the remote lambda alone -/
theorem execGlobal_bag {b b' : Bag α} {E : List (BagOps.Msg α)} (h : deliverAll b E = some b') (r : Nat) :
    Dist.execGlobal bagContainer bagOwner (bagInit b) E r = bagInit b' r := by
  induction E generalizing b with
  | nil => simp only [deliverAll, Option.some.injEq] at h; subst h; rfl
  | cons m E ih =>
    simp only [deliverAll] at h
    cases h1 : deliver b m with
    | none => simp [h1] at h
    | some b1 =>
      simp only [h1, Option.bind_some] at h
      obtain ⟨hd, rfl⟩ := deliver_inv h1
      have := ih h
      simp only [Dist.execGlobal]
      rw [← this]
      congr 1
      funext q
      simp only [bagInit, bagContainer, bagOwner]
      rw [getD_modify _ _ _ _ _ hd]
      by_cases hq : q = m.dest <;> simp [hq]

theorem foldl_append_items (g : List α) (L : List (BagOps.Msg α)) :
    L.foldl (fun st m => st ++ m.items) g = g ++ L.flatMap (·.items) := by
  induction L generalizing g with
  | nil => simp
  | cons m L ih => simp [List.foldl_cons, ih, List.flatMap_cons, List.append_assoc]

theorem flatten_eq_flatMap_getD (L : List (List α)) :
    L.flatten = (List.range L.length).flatMap (fun q => L.getD q []) := by
  induction L with
  | nil => rfl
  | cons l L ih =>
    rw [List.length_cons, List.range_succ_eq_map, List.flatMap_cons, List.flatMap_map, List.flatten_cons, ih]
    rfl

/-- **C14 end to end** (`ygm::container::bag`).  For every number of ranks `n`, every routing function, every joint
history accepted from program start in which every message carries a bag insert `opOf uid` = (destination, items) —
`async_insert(item)` with the round-robin destination, `async_insert(item, dest)`, `async_insert(vector, dest)`; the
destination is whatever the message says — sent point-to-point to that destination, from main programs, handlers or
pre-barrier callbacks: at the FIRST return of a barrier

* the executed inserts, in execution order, are a permutation of ALL inserts issued so far and `BagOps.deliverAll`
  (the sequential model of `Props/C14.lean`) succeeds on them;
* the memory of every rank `q` induced by the history is `m_local_bag` of `q` in the result, and it is, as a multiset,
  the initial local bag plus the items of exactly the inserts addressed to `q`;
* the multiset union of the local bags is the initial content plus exactly the items inserted so far (nothing lost,
  nothing duplicated, nothing invented), and the local sizes are the initial sizes plus what was addressed there. -/
theorem C14_bag_after_barrier (b0 : Bag α) (n : Nat) (hb : b0.bags.length = n) (opOf : Nat → BagOps.Msg α)
    (nh : Nat → Nat → Nat) (ls : List Label) (s : St) (hrun : Comm.run n nh Comm.init ls = some s)
    (ha : Addressed bagOwner opOf ls)
    (r : Nat) (hr : r < n) (hx : BarrierME.exitEnabled s.b r = true) (hne : ∀ q, q < n → s.b.epoch q ≤ s.b.epoch r) :
    ∃ b', deliverAll b0 (execOps opOf s) = some b' ∧ b'.bags.length = n ∧
      (execOps opOf s).Perm (issuedOps opOf ls) ∧
      (∀ q, memOf bagContainer opOf n nh (bagInit b0) ls q = b'.bags.getD q []) ∧
      (∀ q, (memOf bagContainer opOf n nh (bagInit b0) ls q).Perm
        (b0.bags.getD q [] ++ ((issuedOps opOf ls).filter (fun m => m.dest = q)).flatMap (·.items))) ∧
      ((List.range n).flatMap (memOf bagContainer opOf n nh (bagInit b0) ls)).Perm
        (items b0 ++ (issuedOps opOf ls).flatMap (·.items)) ∧
      (items b').Perm (items b0 ++ (issuedOps opOf ls).flatMap (·.items)) ∧
      (∀ q, (memOf bagContainer opOf n nh (bagInit b0) ls q).length =
        (b0.bags.getD q []).length + recv (issuedOps opOf ls) q) := by
  have hperm := execOps_perm_issuedOps opOf n nh ls s hrun r hr hx hne
  have hdest : ∀ m ∈ execOps opOf s, m.dest < b0.bags.length := by
    intro m hm
    unfold execOps at hm
    obtain ⟨p, hp, rfl⟩ := List.mem_map.1 hm
    have h1 := executed_owned bagOwner opOf n nh ls s hrun ha p hp
    have h2 := executed_rank_lt n nh ls s hrun p hp
    unfold bagOwner at h1
    rw [hb, h1]; exact h2
  obtain ⟨b', h1⟩ := deliverAll_some b0 (execOps opOf s) hdest
  obtain ⟨_, _, e3, e4, e5, _⟩ := deliverAll_spec h1
  have hmem : ∀ q, memOf bagContainer opOf n nh (bagInit b0) ls q = b'.bags.getD q [] := by
    intro q
    unfold memOf
    rw [mem_eq_execGlobal bagContainer bagOwner opOf n nh (bagInit b0) ls s hrun ha q, execGlobal_bag h1 q]
    rfl
  have hitems : (items b').Perm (items b0 ++ (issuedOps opOf ls).flatMap (·.items)) :=
    e4.trans (List.Perm.append_left _ (hperm.flatMap_right _))
  refine ⟨b', h1, by rw [e3, hb], hperm, hmem, ?_, ?_, hitems, ?_⟩
  · intro q
    rw [state_is_fold bagContainer opOf n nh (bagInit b0) ls s hrun q,
      opsExecutedOn_eq_filter bagOwner opOf n nh ls s hrun ha q]
    show (List.foldl (fun (st : List α) (m : BagOps.Msg α) => st ++ m.items) (bagInit b0 q) _).Perm _
    rw [foldl_append_items]
    exact List.Perm.append_left _ ((hperm.filter _).flatMap_right _)
  · have : (List.range n).flatMap (memOf bagContainer opOf n nh (bagInit b0) ls) = items b' := by
      unfold items
      rw [flatten_eq_flatMap_getD, e3, hb]
      apply flatMap_congr_mem
      intro q _
      exact hmem q
    rw [this]; exact hitems
  · intro q
    rw [hmem q, e5 q, recv_perm hperm q]

/-! ### non-vacuity (C14) -/

section BagExample

private def bag0 : Bag Nat := { ranks := 3, bags := [[1], [], [2]], rr := [0, 0, 0] }

/-- which insert each message carries: `async_insert(7, 1)`, `async_insert({8, 9}, 1)`, `async_insert(5, 0)` -/
private def bagOp : Nat → BagOps.Msg Nat
  | 1 => insertTo 1 7
  | 2 => insertVec 1 [8, 9]
  | _ => insertTo 0 5

private def bround3 : List Label :=
  [.contribute 0, .contribute 1, .contribute 2, .result 0, .result 1, .result 2]

/-- rank 0 inserts 7 at rank 1, rank 2 inserts the vector {8, 9} at rank 1; the handler of the first insert (running on
rank 1 inside the barrier) inserts 5 at rank 0 -/
private def bagDemo : List Label :=
  [.async 0 1 1 false, .async 2 2 1 false, .enter 0, .enter 1, .enter 2,
   .isend 2 1, .isend 0 1, .recvBegin 1 0 0, .execBegin 1 1, .async 1 3 0 false, .execEnd 1 1, .recvEnd 1,
   .recvBegin 1 2 0, .execBegin 1 2, .execEnd 1 2, .recvEnd 1,
   .isend 1 0, .recvBegin 0 1 0, .execBegin 0 3, .execEnd 0 3, .recvEnd 0] ++ bround3 ++ bround3

set_option maxRecDepth 32768 in
/-- accepted; the exit rule holds at the end, nobody has left barrier 0; the issuing discipline holds -/
example : ((Comm.run 3 (fun _ d => d) Comm.init bagDemo).map (fun s =>
    (s.d.executed, BarrierME.exitEnabled s.b 1, (List.range 3).map s.b.epoch))) =
    some ([(1, 1), (1, 2), (0, 3)], true, [0, 0, 0]) ∧ Addressed bagOwner bagOp bagDemo := by decide

set_option maxRecDepth 32768 in
/-- the induced local bags -/
example : (List.range 3).map (memOf bagContainer bagOp 3 (fun _ d => d) (bagInit bag0) bagDemo) =
    [[1, 5], [7, 8, 9], [2]] := by decide

/-- the end-to-end theorem applied to the demo -/
example (s : St) (hrun : Comm.run 3 (fun _ d => d) Comm.init bagDemo = some s)
    (hx : BarrierME.exitEnabled s.b 1 = true) (hne : ∀ q, q < 3 → s.b.epoch q ≤ s.b.epoch 1) :
    ((List.range 3).flatMap (memOf bagContainer bagOp 3 (fun _ d => d) (bagInit bag0) bagDemo)).Perm
      ([1, 2] ++ [7, 8, 9, 5]) := by
  obtain ⟨_, _, _, _, _, _, h, _⟩ :=
    C14_bag_after_barrier bag0 3 rfl bagOp (fun _ d => d) bagDemo s hrun (by decide) 1 (by decide) hx hne
  exact h

/-- an insert delivered to a rank other than the one the message names violates the issuing discipline -/
example : ¬ Addressed bagOwner bagOp [.async 0 1 2 false] := by decide

end BagExample

end Bag

end YgmVerif.ContainersComm

/-! ## C15 counting_set over the joint messaging model -/

namespace YgmVerif.CSetComm
open YgmVerif
open YgmVerif.Barrier (upd upd_same upd_other b2n)
open YgmVerif.Cache (csetCfg Frame Phase)

/-! ### the cache of one rank: container calls in progress keep a callback registered -/

def isFall : Frame Nat → Bool
  | .fall _ _ => true
  | _ => false

/-- the flush-all loop is entered with no container call active, so its frame is the bottom of the stack -/
def fallOnlyLast : List (Frame Nat) → Bool
  | [] => true
  | [_] => true
  | f :: g :: rest => !isFall f && fallOnlyLast (g :: rest)

def hasFall (st : List (Frame Nat)) : Bool := st.any isFall

/-- callbacks the cache needs the communicator to hold for it: one if the flag says "registered", one for the
continuation of a flush-all loop in progress -/
def owed (s : Cache.St Nat) : Nat := b2n s.reg + b2n (hasFall s.stack)

/-- a container call in progress implies a registered callback or a flush-all loop in progress -/
def KInv (s : Cache.St Nat) : Prop :=
  fallOnlyLast s.stack = true ∧ (s.stack ≠ [] → s.reg = true ∨ hasFall s.stack = true)

theorem kinv_init : KInv (Cache.St.init : Cache.St Nat) := ⟨rfl, fun h => absurd rfl h⟩

theorem isFall_setPhase (f : Frame Nat) (ph : Phase Nat) : isFall (f.setPhase ph) = isFall f := by
  cases f <;> rfl

theorem insLoop_notFall (cfg : Cache.Cfg Nat) (c : Cache.CMap Nat) (k v : Nat) :
    isFall (Cache.insLoop cfg c k v).2 = false := by
  unfold Cache.insLoop Cache.enter
  split
  · split <;> rfl
  · split
    · split <;> rfl
    · rfl

theorem fallLoop_isFall (cfg : Cache.Cfg Nat) (c : Cache.CMap Nat) (i : Nat) :
    isFall (Cache.fallLoop cfg c i).2 = true := by
  unfold Cache.fallLoop
  split
  · rfl
  · split <;> rfl

theorem fol_replace {f f' : Frame Nat} (rest : List (Frame Nat)) (h : isFall f' = isFall f) :
    fallOnlyLast (f' :: rest) = fallOnlyLast (f :: rest) := by
  cases rest with
  | nil => rfl
  | cons g rest => simp [fallOnlyLast, h]

theorem fol_cons_nonfall {f : Frame Nat} (st : List (Frame Nat)) (h : isFall f = false) :
    fallOnlyLast (f :: st) = fallOnlyLast st := by
  cases st with
  | nil => rfl
  | cons g rest => simp [fallOnlyLast, h]

theorem fol_cons_fall {f : Frame Nat} {st : List (Frame Nat)} (h : isFall f = true)
    (hf : fallOnlyLast (f :: st) = true) : st = [] := by
  cases st with
  | nil => rfl
  | cons g rest => simp [fallOnlyLast, h] at hf

theorem fol_tail {f : Frame Nat} {st : List (Frame Nat)} (hf : fallOnlyLast (f :: st) = true) :
    fallOnlyLast st = true := by
  cases st with
  | nil => rfl
  | cons g rest => simp [fallOnlyLast] at hf; exact hf.2

theorem hasFall_cons (f : Frame Nat) (st : List (Frame Nat)) : hasFall (f :: st) = (isFall f || hasFall st) := by
  simp [hasFall]

/-- what one cache step does to the flag and to the frame kinds (counting_set configuration) -/
theorem step_kinv (ns : Nat) (s s' : Cache.St Nat) (lab : Cache.Label Nat) (hk : KInv s)
    (h : Cache.step (csetCfg ns) s lab = some s') :
    KInv s' ∧
    (match lab with
     | .ins _ _ => s'.reg = true ∧ hasFall s'.stack = hasFall s.stack
     | .fb => s.reg = true ∧ hasFall s.stack = false ∧ s'.reg = false ∧ hasFall s'.stack = true
     | .fe => s'.reg = s.reg ∧ hasFall s.stack = true ∧ hasFall s'.stack = false
     | _ => s'.reg = s.reg ∧ hasFall s'.stack = hasFall s.stack) := by
  obtain ⟨hf, hj⟩ := hk
  cases lab with
  | ins k v =>
    simp only [Cache.step] at h
    split at h
    · have : (csetCfg ns).isOwner k = false := rfl
      simp only [this, Bool.false_eq_true, if_false] at h
      have hnf := insLoop_notFall (csetCfg ns) s.cache k v
      cases hil : Cache.insLoop (csetCfg ns) s.cache k v with
      | mk c f =>
        rw [hil] at h hnf
        simp only [Option.some.injEq] at h
        subst h
        simp only at hnf ⊢
        refine ⟨⟨by rw [fol_cons_nonfall _ hnf]; exact hf, fun _ => Or.inl rfl⟩, trivial, ?_⟩
        rw [hasFall_cons, hnf]; rfl
    · cases h
  | pack =>
    simp only [Cache.step] at h
    split at h
    · rename_i f rest hst
      split at h
      · simp only [Option.some.injEq] at h
        subst h
        simp only [hst] at hf hj ⊢
        have e := isFall_setPhase f Phase.sent
        refine ⟨⟨by rw [fol_replace rest e]; exact hf, fun _ => ?_⟩, trivial, ?_⟩
        · have := hj (by simp)
          rw [hasFall_cons] at this ⊢
          rw [e]; exact this
        · rw [hasFall_cons, hasFall_cons, e]
      · cases h
    · cases h
  | ret =>
    simp only [Cache.step] at h
    split at h
    · rename_i k v rest hst
      have hnf := insLoop_notFall (csetCfg ns) s.cache k v
      cases hil : Cache.insLoop (csetCfg ns) s.cache k v with
      | mk c f =>
        rw [hil] at h hnf
        simp only [Option.some.injEq] at h
        subst h
        simp only [hst] at hf hj ⊢
        simp only at hnf
        have e : isFall f = isFall (Frame.ins k v Phase.sent) := by rw [hnf]; rfl
        refine ⟨⟨by rw [fol_replace rest e]; exact hf, fun _ => ?_⟩, trivial, ?_⟩
        · have := hj (by simp)
          rw [hasFall_cons] at this ⊢
          rw [e]; exact this
        · rw [hasFall_cons, hasFall_cons, e]
    · rename_i rest hst
      simp only [Option.some.injEq] at h
      subst h
      simp only [hst] at hf hj ⊢
      have e : isFall (Frame.tail Phase.fin : Frame Nat) = isFall (Frame.tail Phase.sent) := rfl
      refine ⟨⟨by rw [fol_replace rest e]; exact hf, fun _ => ?_⟩, trivial, ?_⟩
      · have := hj (by simp)
        rw [hasFall_cons] at this ⊢
        rw [e]; exact this
      · rw [hasFall_cons, hasFall_cons, e]
    · rename_i i rest hst
      have hfl := fallLoop_isFall (csetCfg ns) s.cache i
      cases hil : Cache.fallLoop (csetCfg ns) s.cache i with
      | mk c f =>
        rw [hil] at h hfl
        simp only [Option.some.injEq] at h
        subst h
        simp only [hst] at hf hj ⊢
        simp only at hfl
        have e : isFall f = isFall (Frame.fall i Phase.sent) := by rw [hfl]; rfl
        refine ⟨⟨by rw [fol_replace rest e]; exact hf, fun _ => ?_⟩, trivial, ?_⟩
        · have := hj (by simp)
          rw [hasFall_cons] at this ⊢
          rw [e]; exact this
        · rw [hasFall_cons, hasFall_cons, e]
    · cases h
  | done =>
    simp only [Cache.step] at h
    split at h
    · rename_i rest hst
      simp only [Option.some.injEq] at h
      subst h
      simp only [hst] at hf hj ⊢
      refine ⟨⟨fol_tail hf, fun _ => ?_⟩, trivial, ?_⟩
      · have := hj (by simp)
        rw [hasFall_cons] at this
        simpa [isFall] using this
      · rw [hasFall_cons]; rfl
    · cases h
  | fb =>
    simp only [Cache.step] at h
    split at h
    · rename_i hc
      have hfl := fallLoop_isFall (csetCfg ns) s.cache 0
      cases hil : Cache.fallLoop (csetCfg ns) s.cache 0 with
      | mk c f =>
        rw [hil] at h hfl
        simp only [Option.some.injEq] at h
        subst h
        simp only at hfl ⊢
        have hemp : s.stack = [] := by
          cases hst : s.stack with
          | nil => rfl
          | cons a b => rw [hst] at hc; simp at hc
        refine ⟨⟨rfl, fun _ => Or.inr ?_⟩, hc.2, by rw [hemp]; rfl, trivial, ?_⟩
        · rw [hasFall_cons, hfl]; rfl
        · rw [hasFall_cons, hfl]; rfl
    · cases h
  | fe =>
    simp only [Cache.step] at h
    split at h
    · rename_i i rest hst
      simp only [Option.some.injEq] at h
      subst h
      simp only [hst] at hf hj ⊢
      have hr : rest = [] := fol_cons_fall (f := Frame.fall i Phase.fin) rfl hf
      subst hr
      exact ⟨⟨rfl, fun h => absurd rfl h⟩, trivial, rfl, rfl⟩
    · cases h
  | bar =>
    simp only [Cache.step] at h
    split at h
    · simp only [Option.some.injEq] at h
      subst h
      exact ⟨⟨hf, hj⟩, rfl, rfl⟩
    · cases h

/-! ### the component histories are recoverable -/

theorem step_some {P : Par} {S S' : St} {l : Label} (h : step P S l = some S') :
    guard P S l = true ∧ Comm.run P.n P.nh S.c (projC P l) = some S'.c ∧ kStep P S l = some S'.k := by
  unfold step at h
  split at h
  · rename_i hg
    split at h
    · rename_i c' k' hc hk
      cases h
      exact ⟨hg, hc, hk⟩
    · cases h
  · cases h

theorem kStep_cases {P : Par} {S : St} {l : Label} {k' : Nat → Cache.St Nat} (h : kStep P S l = some k') :
    (projK l = none ∧ k' = S.k) ∨
    ∃ q lab s', projK l = some (q, lab) ∧ Cache.step (csetCfg P.nslots) (S.k q) lab = some s' ∧ k' = upd S.k q s' := by
  unfold kStep at h
  split at h
  · rename_i hp
    exact Or.inl ⟨hp, (Option.some.inj h).symm⟩
  · rename_i q lab hp
    cases hs : Cache.step (csetCfg P.nslots) (S.k q) lab with
    | none => rw [hs] at h; cases h
    | some s' =>
      rw [hs] at h
      exact Or.inr ⟨q, lab, s', hp, hs, (Option.some.inj h).symm⟩

/-- **a joint history is a history of the joint messaging model `Comm`** (so C01, C02ME, C02C01, DistComm apply) -/
theorem run_projC {P : Par} {S S' : St} (jls : List Label) (h : run P S jls = some S') :
    Comm.run P.n P.nh S.c (jls.flatMap (projC P)) = some S'.c := by
  induction jls generalizing S with
  | nil => simp only [run] at h; cases h; rfl
  | cons l jls ih =>
    simp only [run] at h
    cases hst : step P S l with
    | none => rw [hst] at h; cases h
    | some S1 =>
      rw [hst] at h
      rw [List.flatMap_cons]
      exact Comm.run_append _ _ (step_some hst).2.1 (ih h)

theorem projR_cons (r : Nat) (l : Label) (jls : List Label) :
    projR r (l :: jls) = (match projK l with
      | some (q, lab) => if q = r then [lab] else []
      | none => []) ++ projR r jls := by
  unfold projR
  rw [List.filterMap_cons]
  cases projK l with
  | none => rfl
  | some p =>
    obtain ⟨q, lab⟩ := p
    by_cases hq : q = r <;> simp [hq]

/-- **the history of every rank is a history of the count-cache model `Cache`** (so the C15 theorems apply) -/
theorem run_projK {P : Par} {S S' : St} (jls : List Label) (h : run P S jls = some S') (r : Nat) :
    Cache.run (csetCfg P.nslots) (S.k r) (projR r jls) = some (S'.k r) := by
  induction jls generalizing S with
  | nil => simp only [run] at h; cases h; rfl
  | cons l jls ih =>
    simp only [run] at h
    cases hst : step P S l with
    | none => rw [hst] at h; cases h
    | some S1 =>
      rw [hst] at h
      have := ih h
      rw [projR_cons]
      rcases kStep_cases (step_some hst).2.2 with ⟨hp, hk⟩ | ⟨q, lab, s', hp, hs, hk⟩
      · rw [hp]
        rw [hk] at this
        simpa using this
      · rw [hp]
        by_cases hq : q = r
        · subst hq
          rw [hk, upd_same] at this
          simp only [if_true, List.singleton_append, Cache.run, hs]
          exact this
        · rw [hk, upd_other _ _ _ _ (fun e => hq e.symm)] at this
          simpa [hq] using this

/-! ### what the `Comm` side of a cache label does to the callback counter -/

theorem comm_run_single {n : Nat} {nh : Nat → Nat → Nat} {c c' : Comm.St} {l : Comm.Label}
    (h : Comm.run n nh c [l] = some c') : Comm.step n nh c l = some c' := by
  simp only [Comm.run] at h
  cases hs : Comm.step n nh c l with
  | none => rw [hs] at h; cases h
  | some c1 => rw [hs] at h; simpa using h

theorem comm_cbs_allowed {n : Nat} {nh : Nat → Nat → Nat} {c c' : Comm.St} {l : Comm.Label}
    (ha : allowed l = true) (h : Comm.step n nh c l = some c') : c'.b.cbs = c.b.cbs := by
  have hB := (Comm.step_some h).2.2.1
  cases l with
  | async r uid dest direct => cases ha
  | regcb r => cases ha
  | runcb r msgs j => cases ha
  | isend r hop => simp only [Comm.projB, BarrierME.run] at hB; rw [← Option.some.inj hB]
  | recvBegin r src seq => simp only [Comm.projB, BarrierME.run] at hB; rw [← Option.some.inj hB]
  | fwd r uid => simp only [Comm.projB, BarrierME.run] at hB; rw [← Option.some.inj hB]
  | recvEnd r => simp only [Comm.projB, BarrierME.run] at hB; rw [← Option.some.inj hB]
  | execBegin r uid =>
    simp only [Comm.projB, Comm.bRun_single, BarrierME.step] at hB
  split at hB
  · rw [← Option.some.inj hB]
  · cases hB
  | execEnd r uid =>
    simp only [Comm.projB, Comm.bRun_single, BarrierME.step] at hB
  split at hB
  · rw [← Option.some.inj hB]
  · cases hB
  | enter r =>
    simp only [Comm.projB, Comm.bRun_single, BarrierME.step] at hB
  split at hB
  · rw [← Option.some.inj hB]
  · cases hB
  | contribute r =>
    simp only [Comm.projB, Comm.bRun_single, BarrierME.step] at hB
  split at hB
  · rw [← Option.some.inj hB]
  · cases hB
  | result r =>
    simp only [Comm.projB, Comm.bRun_single, BarrierME.step] at hB
  split at hB
  · rw [← Option.some.inj hB]
  · cases hB
  | exit r =>
    simp only [Comm.projB, Comm.bRun_single, BarrierME.step] at hB
  split at hB
  · rw [← Option.some.inj hB]
  · cases hB

theorem comm_cbs_async {n : Nat} {nh : Nat → Nat → Nat} {c c' : Comm.St} {r uid dest : Nat} {direct : Bool}
    (h : Comm.step n nh c (.async r uid dest direct) = some c') : c'.b.cbs = c.b.cbs := by
  have hB := (Comm.step_some h).2.2.1
  simp only [Comm.projB, Comm.bRun_single, BarrierME.step] at hB
  split at hB
  · rw [← Option.some.inj hB]
  · cases hB

theorem comm_cbs_regcb {n : Nat} {nh : Nat → Nat → Nat} {c c' : Comm.St} {r : Nat}
    (h : Comm.step n nh c (.regcb r) = some c') : c'.b.cbs = upd c.b.cbs r (c.b.cbs r + 1) := by
  have hB := (Comm.step_some h).2.2.1
  simp only [Comm.projB, Comm.bRun_single, BarrierME.step] at hB
  split at hB
  · rw [← Option.some.inj hB]
  · cases hB

theorem comm_cbs_runcb {n : Nat} {nh : Nat → Nat → Nat} {c c' : Comm.St} {r j : Nat} {msgs : List Comm.Msg}
    (h : Comm.step n nh c (.runcb r msgs j) = some c') :
    0 < c.b.cbs r ∧ c'.b.cbs = upd c.b.cbs r (c.b.cbs r - 1 + j) := by
  have hB := (Comm.step_some h).2.2.1
  simp only [Comm.projB, Comm.bRun_single, BarrierME.step] at hB
  split at hB
  · rename_i hc
    rw [← Option.some.inj hB]
    exact ⟨hc.2.1, rfl⟩
  · cases hB

/-! ### the linking invariant: the communicator holds a callback for every cache that needs one -/

def JInv (S : St) : Prop := ∀ q, KInv (S.k q) ∧ owed (S.k q) ≤ S.c.b.cbs q

theorem jinv_init : JInv init := fun _ => ⟨kinv_init, Nat.le_refl _⟩

theorem b2n_le_one (b : Bool) : b2n b ≤ 1 := by cases b <;> decide

theorem step_jinv {P : Par} {S S' : St} {l : Label} (hi : JInv S) (h : step P S l = some S') : JInv S' := by
  obtain ⟨hg, hc, hk⟩ := step_some h
  rcases kStep_cases hk with ⟨hp, hk'⟩ | ⟨q, lab, s', hp, hs, hk'⟩
  · -- a `Comm` label alone
    cases l with
    | comm l0 =>
      have := comm_cbs_allowed hg (comm_run_single hc)
      intro q
      rw [hk', this]; exact hi q
    | _ => cases hp
  · obtain ⟨hkq, hrel⟩ := step_kinv P.nslots (S.k q) s' lab (hi q).1 hs
    have hoq := (hi q).2
    -- other ranks: cache untouched, counter untouched or only that of `q` changed
    have other : ∀ x, x ≠ q → S'.k x = S.k x := fun x hx => by rw [hk', upd_other _ _ _ _ hx]
    have same : S'.k q = s' := by rw [hk', upd_same]
    cases l with
    | comm l0 => cases hp
    | ins r k first =>
      simp only [projK, Option.some.injEq, Prod.mk.injEq] at hp
      obtain ⟨rfl, rfl⟩ := hp
      simp only at hrel
      simp only [guard, Bool.and_eq_true, decide_eq_true_eq, beq_iff_eq] at hg
      cases hreg : (S.k r).reg with
      | true =>
        have hf : first = false := by rw [hg.2, hreg]; rfl
        subst hf
        simp only [projC, Bool.false_eq_true, if_false, Comm.run, Option.some.injEq] at hc
        intro x
        by_cases hx : x = r
        · subst hx
          rw [same, ← hc]
          refine ⟨hkq, ?_⟩
          unfold owed at hoq ⊢
          rw [hrel.1, hrel.2]; rw [hreg] at hoq; exact hoq
        · rw [other x hx, ← hc]; exact hi x
      | false =>
        have hf : first = true := by rw [hg.2, hreg]; rfl
        subst hf
        simp only [projC, if_true] at hc
        have hcb := comm_cbs_regcb (comm_run_single hc)
        intro x
        by_cases hx : x = r
        · subst hx
          rw [same, hcb, upd_same]
          refine ⟨hkq, ?_⟩
          unfold owed at hoq ⊢
          rw [hrel.1, hrel.2]; rw [hreg] at hoq
          simp [b2n] at hoq ⊢
          omega
        · rw [other x hx, hcb, upd_other _ _ _ _ hx]; exact hi x
    | pack r uid =>
      simp only [projK, Option.some.injEq, Prod.mk.injEq] at hp
      obtain ⟨rfl, rfl⟩ := hp
      simp only at hrel
      have hcb := comm_cbs_async (comm_run_single hc)
      intro x
      by_cases hx : x = r
      · subst hx
        rw [same, hcb]
        refine ⟨hkq, ?_⟩
        unfold owed at hoq ⊢
        rw [hrel.1, hrel.2]; exact hoq
      · rw [other x hx, hcb]; exact hi x
    | cbpack r uid =>
      simp only [projK, Option.some.injEq, Prod.mk.injEq] at hp
      obtain ⟨rfl, rfl⟩ := hp
      simp only at hrel
      obtain ⟨hpos, hcb⟩ := comm_cbs_runcb (comm_run_single hc)
      intro x
      by_cases hx : x = r
      · subst hx
        rw [same, hcb, upd_same]
        refine ⟨hkq, ?_⟩
        unfold owed at hoq ⊢
        rw [hrel.1, hrel.2]; omega
      · rw [other x hx, hcb, upd_other _ _ _ _ hx]; exact hi x
    | ret r =>
      simp only [projK, Option.some.injEq, Prod.mk.injEq] at hp
      obtain ⟨rfl, rfl⟩ := hp
      simp only at hrel
      simp only [projC, Comm.run, Option.some.injEq] at hc
      intro x
      by_cases hx : x = r
      · subst hx
        rw [same, ← hc]
        refine ⟨hkq, ?_⟩
        unfold owed at hoq ⊢
        rw [hrel.1, hrel.2]; exact hoq
      · rw [other x hx, ← hc]; exact hi x
    | done r =>
      simp only [projK, Option.some.injEq, Prod.mk.injEq] at hp
      obtain ⟨rfl, rfl⟩ := hp
      simp only at hrel
      simp only [projC, Comm.run, Option.some.injEq] at hc
      intro x
      by_cases hx : x = r
      · subst hx
        rw [same, ← hc]
        refine ⟨hkq, ?_⟩
        unfold owed at hoq ⊢
        rw [hrel.1, hrel.2]; exact hoq
      · rw [other x hx, ← hc]; exact hi x
    | fb r =>
      simp only [projK, Option.some.injEq, Prod.mk.injEq] at hp
      obtain ⟨rfl, rfl⟩ := hp
      simp only at hrel
      obtain ⟨hpos, hcb⟩ := comm_cbs_runcb (comm_run_single hc)
      intro x
      by_cases hx : x = r
      · subst hx
        rw [same, hcb, upd_same]
        refine ⟨hkq, ?_⟩
        unfold owed at hoq ⊢
        rw [hrel.2.2.1, hrel.2.2.2]; rw [hrel.1, hrel.2.1] at hoq
        simp [b2n] at hoq ⊢
        first | done | omega
      · rw [other x hx, hcb, upd_other _ _ _ _ hx]; exact hi x
    | fe r =>
      simp only [projK, Option.some.injEq, Prod.mk.injEq] at hp
      obtain ⟨rfl, rfl⟩ := hp
      simp only at hrel
      obtain ⟨hpos, hcb⟩ := comm_cbs_runcb (comm_run_single hc)
      intro x
      by_cases hx : x = r
      · subst hx
        rw [same, hcb, upd_same]
        refine ⟨hkq, ?_⟩
        unfold owed at hoq ⊢
        rw [hrel.1, hrel.2.2]; rw [hrel.2.1] at hoq
        simp [b2n] at hoq ⊢
        omega
      · rw [other x hx, hcb, upd_other _ _ _ _ hx]; exact hi x

theorem run_jinv {P : Par} {S S' : St} (jls : List Label) (hi : JInv S) (h : run P S jls = some S') : JInv S' := by
  induction jls generalizing S with
  | nil => simp only [run] at h; cases h; exact hi
  | cons l jls ih =>
    simp only [run] at h
    cases hst : step P S l with
    | none => rw [hst] at h; cases h
    | some S1 => rw [hst] at h; exact ih (step_jinv hi hst) h

end YgmVerif.CSetComm
