import YgmVerif.Lemmas.Deliver
import YgmVerif.Props.C04
import YgmVerif.Props.C04P
/-!
# C01 — every async executes exactly once, on its destination, with its arguments

Theorems about `YgmVerif.Deliver.step/run` (the function the driver's `deliver` mode replays real event
histories through), for every communicator size `n`, every next-hop function `nh` (hence every layout and
every routing scheme) and every label sequence the model accepts.  Payload integrity is C06's
(`Wire.parseBuffer_encode`, `forward_bytes_id`); this file is about which handler runs where, how often.
-/
namespace YgmVerif.Deliver

/-- **no loss, no duplication, no invention**: after any accepted history the entries are exactly the
`async` calls of the history, in order, each once — whatever was buffered, sent, received or forwarded -/
theorem C01_entries_are_the_asyncs (n : Nat) (nh : Nat → Nat → Nat) (ls : List Label) (s : St)
    (h : run n nh St.init ls = some s) : s.es.map key = ls.flatMap newKeys := by
  have gen : ∀ (ls : List Label) (s0 s : St), run n nh s0 ls = some s →
      s.es.map key = s0.es.map key ++ ls.flatMap newKeys := by
    intro ls
    induction ls with
    | nil => intro s0 s h; simp only [run] at h; cases h; simp
    | cons l ls ih =>
      intro s0 s h
      simp only [run] at h
      cases hst : step n nh s0 l with
      | none => rw [hst] at h; cases h
      | some s1 =>
        rw [hst] at h
        rw [ih s1 s h, step_keys hst]; simp [List.flatMap_cons]
  have := gen ls St.init s h
  simpa [St.init] using this

/-- **on its destination and on no other rank**: a handler execution recorded on rank `r` belongs to an
issued message whose destination is `r` (for a broadcast leg: the rank the leg was sent to) -/
theorem C01_exec_at_dest (n : Nat) (nh : Nat → Nat → Nat) (ls : List Label) (s : St)
    (h : run n nh St.init ls = some s) (r u : Nat) (hx : (r, u) ∈ s.executed) :
    ∃ e ∈ s.es, e.uid = u ∧ e.dest = r := by
  have hi := inv_run ls inv_init h
  obtain ⟨e, he, hu, hd⟩ := hi.execDone r u hx
  exact ⟨e, he, hu, (hi.doneDest e he r hd).symm⟩

/-- **at most once**: no uid is executed twice, on the same or on different ranks, at any time -/
theorem C01_at_most_once (n : Nat) (nh : Nat → Nat → Nat) (ls : List Label) (s : St)
    (h : run n nh St.init ls = some s) : (s.executed.map (·.2)).Nodup := by
  have hi := inv_run ls inv_init h
  have hinj : ∀ a ∈ s.executed, ∀ b ∈ s.executed, a.2 = b.2 → a = b := by
    intro a ha b hb hab
    obtain ⟨e1, he1, hu1, hd1⟩ := hi.execDone a.1 a.2 (by simpa using ha)
    obtain ⟨e2, he2, hu2, hd2⟩ := hi.execDone b.1 b.2 (by simpa using hb)
    have := eq_of_uid_eq hi.nodup he1 he2 (by rw [hu1, hu2, hab])
    rw [this, hd2] at hd1
    cases a; cases b; simp only at hab hd1 ⊢
    simp only [Loc.done.injEq] at hd1
    rw [hab, hd1]
  exact nodup_map_of_inj_on hinj hi.execNodup

/-- **exactly once**: when nothing is left in any buffer, on the wire or in a walk (the state barrier()
waits for — C02), the executions are a permutation of the issued messages paired with their destinations -/
theorem C01_exactly_once (n : Nat) (nh : Nat → Nat → Nat) (ls : List Label) (s : St)
    (h : run n nh St.init ls = some s) (hq : quiescent s = true) :
    List.Perm s.executed (s.es.map (fun e => (e.dest, e.uid))) := by
  have hi := inv_run ls inv_init h
  have hall : ∀ e ∈ s.es, e.loc = .done e.dest := by
    intro e he
    have := (List.all_eq_true.1 hq) e he
    cases hl : e.loc with
    | done r => rw [hi.doneDest e he r hl]
    | inBuf _ _ => simp [hl] at this
    | inWire _ _ _ => simp [hl] at this
    | inWalk _ => simp [hl] at this
  have hnd2 : (s.es.map (fun e => (e.dest, e.uid))).Nodup := by
    apply nodup_of_nodup_map (fun p : Nat × Nat => p.2)
    rw [List.map_map]; exact hi.nodup
  rw [List.perm_ext_iff_of_nodup hi.execNodup hnd2]
  intro ⟨r, u⟩
  constructor
  · intro hx
    obtain ⟨e, he, hu, hd⟩ := hi.execDone r u hx
    have := hi.doneDest e he r hd
    exact List.mem_map.2 ⟨e, he, by rw [← this, hu]⟩
  · intro hx
    obtain ⟨e, he, hk⟩ := List.mem_map.1 hx
    simp only [Prod.mk.injEq] at hk
    have := hi.doneExec e he e.dest (hall e he)
    rw [hk.1, hk.2] at this; exact this

/-- **no message circulates for ever**: from any reachable state, a history without further `async` calls
has at most `total` steps, provided the routing function gets strictly closer with every hop
(`Progress`, proved for NONE / NR / NLNR on every layout in `Props/C04`) -/
theorem C01_drain_bounded (n : Nat) (nh hops : Nat → Nat → Nat) (hp : Progress n nh hops)
    (ls0 : List Label) (s : St) (h0 : run n nh St.init ls0 = some s)
    (ls : List Label) (hna : ∀ l ∈ ls, isAsync l = false) (s' : St) (h : run n nh s ls = some s') :
    ls.length + total n hops s' ≤ total n hops s := by
  have hi := inv_run ls0 inv_init h0
  have hd : DestLt n s := by
    have gen : ∀ (ls : List Label) (s0 s : St), DestLt n s0 → run n nh s0 ls = some s → DestLt n s := by
      intro ls
      induction ls with
      | nil => intro s0 s hd h; simp only [run] at h; cases h; exact hd
      | cons l ls ih =>
        intro s0 s hd h
        simp only [run] at h
        cases hst : step n nh s0 l with
        | none => rw [hst] at h; cases h
        | some s1 => rw [hst] at h; exact ih s1 s (destLt_step hd hst) h
    exact gen ls0 St.init s (by intro e he; simp [St.init] at he) h0
  clear h0
  induction ls generalizing s with
  | nil => simp only [run] at h; cases h; simp
  | cons l ls ih =>
    simp only [run] at h
    cases hst : step n nh s l with
    | none => rw [hst] at h; cases h
    | some s1 =>
      rw [hst] at h
      have h1 := step_total hi hd hp (hna l List.mem_cons_self) hst
      have h2 := ih s1 (fun l' hl' => hna l' (List.mem_cons_of_mem _ hl')) h (inv_step hi hst) (destLt_step hd hst)
      simp only [List.length_cons]; omega

/-! ### non-vacuity: 2 nodes x 2 ranks, "NR-like" routing, rank 0 sends to rank 3 via rank 2 -/
private def nhDemo (me d : Nat) : Nat := if me / 2 = d / 2 then d else (d / 2) * 2 + me % 2

private def demo : List Label :=
  [.async 0 7 3 false, .async 0 8 1 false, .isend 0 2, .recvBegin 2 0 0, .fwd 2 7, .recvEnd 2,
   .isend 2 3, .recvBegin 3 2 0, .exec 3 7, .recvEnd 3, .isend 0 1, .recvBegin 1 0 1, .exec 1 8, .recvEnd 1]

example : ((run 4 nhDemo St.init demo).map (fun s => (s.executed, quiescent s))) =
    some ([(3, 7), (1, 8)], true) := by decide

/-- executing a message on a rank it is not addressed to is not accepted -/
example : (run 4 nhDemo St.init [.async 0 7 3 false, .isend 0 2, .recvBegin 2 0 0, .exec 2 7]).isNone = true := by
  decide

/-- the routing schemes make progress under EVERY placement of ranks on nodes (`RouterP.Placement.route_progress`):
block, round-robin, or any other bijection between ranks and (node, local id) pairs -/
theorem routerP_progress (P : RouterP.Placement) (hP : P.WF) (sch : Router.Scheme) :
    Progress P.size (P.nextHop sch) (fun x d => P.hopsLeft sch x d) := by
  intro r d hr hd hne
  exact RouterP.Placement.route_progress hP sch hr hd hne

/-- **C01 drain bound for the real router under any placement** (in particular `RouterP.cyclic N p`, the placement
of `srun -m cyclic` / `mpirun --map-by node`): no message circulates for ever -/
theorem C01_drain_bounded_routerP (P : RouterP.Placement) (hP : P.WF) (sch : Router.Scheme)
    (ls0 : List Label) (s : St) (h0 : run P.size (P.nextHop sch) St.init ls0 = some s)
    (ls : List Label) (hna : ∀ l ∈ ls, isAsync l = false) (s' : St)
    (h : run P.size (P.nextHop sch) s ls = some s') :
    ls.length + total P.size (fun x d => P.hopsLeft sch x d) s' ≤
      total P.size (fun x d => P.hopsLeft sch x d) s :=
  C01_drain_bounded P.size _ _ (routerP_progress P hP sch) ls0 s h0 ls hna s' h

/-- instance: round-robin placement on every `N × p` layout -/
theorem C01_drain_bounded_cyclic (sch : Router.Scheme) (N p : Nat)
    (ls0 : List Label) (s : St) (h0 : run (N * p) ((RouterP.cyclic N p).nextHop sch) St.init ls0 = some s)
    (ls : List Label) (hna : ∀ l ∈ ls, isAsync l = false) (s' : St)
    (h : run (N * p) ((RouterP.cyclic N p).nextHop sch) s ls = some s') :
    ls.length + total (N * p) (fun x d => (RouterP.cyclic N p).hopsLeft sch x d) s' ≤
      total (N * p) (fun x d => (RouterP.cyclic N p).hopsLeft sch x d) s :=
  C01_drain_bounded_routerP (RouterP.cyclic N p) (RouterP.cyclic_wf N p) sch ls0 s h0 ls hna s' h

end YgmVerif.Deliver

/-! ### instantiation with the real routing function (C04) -/
namespace YgmVerif.Deliver
open YgmVerif

/-- the routing schemes of comm_router.hpp make progress on every layout (`Router.route_progress`, C04) -/
theorem router_progress (sch : Router.Scheme) (N p : Nat) (hp : 0 < p) :
    Progress (N * p) (Router.nextHop sch p) (fun x d => Router.hopsLeft sch p x d) := by
  intro r d hr hd hne
  exact Router.route_progress sch hp hr hd hne

/-- **C01 drain bound for the real router**: under NONE, NR and NLNR on every `N × p` layout no message
circulates for ever -/
theorem C01_drain_bounded_router (sch : Router.Scheme) (N p : Nat) (hp : 0 < p)
    (ls0 : List Label) (s : St) (h0 : run (N * p) (Router.nextHop sch p) St.init ls0 = some s)
    (ls : List Label) (hna : ∀ l ∈ ls, isAsync l = false) (s' : St)
    (h : run (N * p) (Router.nextHop sch p) s ls = some s') :
    ls.length + total (N * p) (fun x d => Router.hopsLeft sch p x d) s' ≤
      total (N * p) (fun x d => Router.hopsLeft sch p x d) s :=
  C01_drain_bounded (N * p) _ _ (router_progress sch N p hp) ls0 s h0 ls hna s' h

end YgmVerif.Deliver
