import YgmVerif.Props.C01Live
/-!
# C03 — `local_wait_until(cond)`: a message that a peer has issued AND flushed is executed by the waiting rank's own polling

`comm::local_wait_until(fn)` is `while (!fn()) local_progress();` and `local_progress` polls the receive queue
(`process_receive_queue` → `handle_next_receive`: walk a received buffer, execute what is addressed here, forward the rest,
re-post the receive).  C03 promises that the call returns when `fn` becomes true "through messages that peers issue and
then flush".  Over the executable `Deliver.step`:

**`C03_wait_until_served`** — in every reachable state, if the message `u` addressed to rank `r` (or a broadcast leg sent to
`r`) has been put on the wire towards `r` (`inWire _ r _`: issued and flushed by the peer, in any position of any physical
buffer, behind any number of older buffers of the same or other channels) or is already in the buffer `r` is walking, then
there is a sequence of steps OF RANK `r` ALONE (`ownRecv r`: `recvBegin r`, `exec r`, `fwd r`, `recvEnd r` — exactly what its
polling does; no step of any other rank, no MPI progress beyond delivering what was already sent) of length ≤ `total` after
which the handler of `u` has executed on `r`.  No other rank has to do anything: the waiting rank cannot be starved by its
peers once the message is on the wire, and executing / forwarding the messages packed around `u` never blocks.

`own_step_exists` (while `u` is pending at `r`, one of `r`'s own receive steps is enabled) and `atR_step` (whatever any rank
does, `u` stays on its way into `r`: on the wire to `r`, in `r`'s walk, or executed on `r` — it is never forwarded away because
it is addressed here) are the two halves.  Not covered: a message the peer has only BUFFERED (not flushed) — the property
excludes it — and routed messages still at an intermediate rank (that rank has to poll: `C01_never_stuck`).
-/
namespace YgmVerif.Deliver

/-- the receive-side steps of rank r: what its own polling does -/
def ownRecv (r : Nat) : Label → Bool
  | .recvBegin a _ _ => a == r
  | .exec a _ => a == r
  | .fwd a _ => a == r
  | .recvEnd a => a == r
  | _ => false

theorem ownRecv_not_async {r : Nat} {l : Label} (h : ownRecv r l = true) : isAsync l = false := by
  cases l <;> simp [ownRecv] at h <;> rfl

/-- message u is addressed to r and is on the wire towards r, in r's walk, or executed on r -/
def AtR (r u : Nat) (s : St) : Prop :=
  ∃ e ∈ s.es, e.uid = u ∧ (e.dest = r ∨ e.direct = true) ∧
    ((∃ a k, e.loc = .inWire a r k) ∨ e.loc = .inWalk r ∨ e.loc = .done r)

/-- ... and its handler has not run yet -/
def Pend (r u : Nat) (s : St) : Prop :=
  ∃ e ∈ s.es, e.uid = u ∧ ((∃ a k, e.loc = .inWire a r k) ∨ e.loc = .inWalk r)

/-- while u is pending at r, one of r's own receive steps is enabled -/
theorem own_step_exists {n : Nat} {nh : Nat → Nat → Nat} {s : St} {r u : Nat}
    (hi : Inv s) (hl : LocOk n s) (hp : Pend r u s) :
    ∃ l, ownRecv r l = true ∧ (step n nh s l).isSome = true := by
  have walker : s.walking r = true → ∃ l, ownRecv r l = true ∧ (step n nh s l).isSome = true := by
    intro hw
    have hrn := hl.walkLt r hw
    by_cases hany : s.es.any (inWalkOf r) = true
    · obtain ⟨e, he, hq⟩ := List.any_eq_true.1 hany
      by_cases hx : (e.dest == r || e.direct) = true
      · refine ⟨.exec r e.uid, by simp [ownRecv], ?_⟩
        have : s.es.any (fun e' => e'.uid == e.uid && inWalkOf r e' && (e'.dest == r || e'.direct)) = true :=
          List.any_eq_true.2 ⟨e, he, by simp [hq, hx]⟩
        simp only [step, hrn, hw, this, and_self, if_true, Option.isSome_some]
      · refine ⟨.fwd r e.uid, by simp [ownRecv], ?_⟩
        have hfind : ∃ e0, s.es.find? (fun e' => e'.uid == e.uid && inWalkOf r e') = some e0 := by
          cases hf : s.es.find? (fun e' => e'.uid == e.uid && inWalkOf r e') with
          | some e0 => exact ⟨e0, rfl⟩
          | none =>
            have := List.find?_eq_none.1 hf e he
            simp [hq] at this
        obtain ⟨e0, hf⟩ := hfind
        have hp0 := List.find?_some hf
        have he0 := List.mem_of_find?_eq_some hf
        simp only [Bool.and_eq_true, beq_iff_eq] at hp0
        have hee : e0 = e := eq_of_uid_eq hi.nodup he0 he hp0.1
        subst hee
        simp only [Bool.or_eq_true, beq_iff_eq, not_or, Bool.not_eq_true] at hx
        simp only [step, hf, hrn, hw, hx.2, ne_eq, hx.1, not_false_eq_true, and_self, if_true,
          Option.isSome_some]
    · refine ⟨.recvEnd r, by simp [ownRecv], ?_⟩
      simp only [step, hrn, hw, hany, Bool.false_eq_true, not_false_eq_true, and_self, if_true,
        Option.isSome_some]
  obtain ⟨e, he, _, hloc⟩ := hp
  rcases hloc with ⟨a, k, hloc⟩ | hloc
  · have hdn := hl.wire e he a r k hloc
    cases hwd : s.walking r with
    | true => exact walker hwd
    | false =>
      obtain ⟨k', ⟨e1, he1, hloc1⟩, hno⟩ := oldest_in_flight s.es a r k ⟨e, he, hloc⟩
      refine ⟨.recvBegin r a k', by simp [ownRecv], ?_⟩
      have h2 : s.es.any (inWireOf a r k') = true := List.any_eq_true.2 ⟨e1, he1, inWireOf_iff.2 hloc1⟩
      simp only [step, hdn, hwd, h2, hno, Bool.false_eq_true, not_false_eq_true, and_self, if_true,
        Option.isSome_some]
  · exact walker (hl.walk e he r hloc)

/-- relocation keeps `AtR` when it moves the message (if at all) further into r -/
theorem atR_relocate {r u : Nat} {es : List Entry} (p : Entry → Bool) (L : Loc)
    (h : ∃ e ∈ es, e.uid = u ∧ (e.dest = r ∨ e.direct = true) ∧
      ((∃ a k, e.loc = .inWire a r k) ∨ e.loc = .inWalk r ∨ e.loc = .done r))
    (hp : ∀ e ∈ es, e.uid = u → (e.dest = r ∨ e.direct = true) →
      ((∃ a k, e.loc = .inWire a r k) ∨ e.loc = .inWalk r ∨ e.loc = .done r) → p e = true →
      (L = .inWalk r ∨ L = .done r)) :
    ∃ e ∈ relocate p L es, e.uid = u ∧ (e.dest = r ∨ e.direct = true) ∧
      ((∃ a k, e.loc = .inWire a r k) ∨ e.loc = .inWalk r ∨ e.loc = .done r) := by
  obtain ⟨e, he, hu, hd, hloc⟩ := h
  refine ⟨if p e then { e with loc := L } else e, mem_relocate.2 ⟨e, he, rfl⟩, ?_, ?_, ?_⟩
  · split <;> exact hu
  · split <;> exact hd
  · by_cases hpe : p e = true
    · simp only [hpe, if_true]
      rcases hp e he hu hd hloc hpe with h1 | h1
      · right; left; exact h1
      · right; right; exact h1
    · simp only [hpe]; exact hloc

/-- whatever any rank does (except that no new message is needed), u stays on its way into r -/
theorem atR_step {n : Nat} {nh : Nat → Nat → Nat} {s s' : St} {l : Label} {r u : Nat}
    (hi : Inv s) (h : AtR r u s) (hst : step n nh s l = some s') : AtR r u s' := by
  cases l with
  | async r0 uid dest direct =>
    simp only [step] at hst; split at hst
    · cases hst
      obtain ⟨e, he, hrest⟩ := h
      exact ⟨e, List.mem_append_left _ he, hrest⟩
    · cases hst
  | isend r0 hop =>
    simp only [step] at hst; split at hst
    · cases hst
      apply atR_relocate _ _ h
      intro e _ _ _ hloc hpe
      have := inBufOf_iff.1 hpe
      rcases hloc with ⟨a, k, h1⟩ | h1 | h1 <;> rw [h1] at this <;> cases this
    · cases hst
  | recvBegin r0 src seq =>
    simp only [step] at hst; split at hst
    · cases hst
      apply atR_relocate _ _ h
      intro e _ _ _ hloc hpe
      have := inWireOf_iff.1 hpe
      rcases hloc with ⟨a, k, h1⟩ | h1 | h1
      · rw [h1] at this; simp only [Loc.inWire.injEq] at this; left; rw [this.2.1]
      · rw [h1] at this; cases this
      · rw [h1] at this; cases this
    · cases hst
  | exec r0 uid =>
    simp only [step] at hst; split at hst
    · cases hst
      apply atR_relocate _ _ h
      intro e _ _ _ hloc hpe
      simp only [Bool.and_eq_true] at hpe
      have := inWalkOf_iff.1 hpe.2
      rcases hloc with ⟨a, k, h1⟩ | h1 | h1
      · rw [h1] at this; cases this
      · rw [h1] at this; simp only [Loc.inWalk.injEq] at this; right; rw [this]
      · rw [h1] at this; cases this
    · cases hst
  | fwd r0 uid =>
    simp only [step] at hst
    split at hst
    · rename_i e0 hf
      split at hst
      · rename_i hc
        cases hst
        have hp0 := List.find?_some hf
        have he0 := List.mem_of_find?_eq_some hf
        simp only [Bool.and_eq_true, beq_iff_eq] at hp0
        apply atR_relocate _ _ h
        intro e he hu hd hloc hpe
        exfalso
        simp only [Bool.and_eq_true, beq_iff_eq] at hpe
        have hee : e = e0 := eq_of_uid_eq hi.nodup he he0 (hpe.1.trans hp0.1.symm)
        subst hee
        have hw := inWalkOf_iff.1 hpe.2
        have hr0 : r0 = r := by
          rcases hloc with ⟨a, k, h1⟩ | h1 | h1
          · rw [h1] at hw; cases hw
          · rw [h1] at hw; simp only [Loc.inWalk.injEq] at hw; exact hw.symm
          · rw [h1] at hw; cases hw
        subst hr0
        rcases hd with h1 | h1
        · exact hc.2.2.1 h1
        · rw [hc.2.2.2] at h1; cases h1
      · cases hst
    · cases hst
  | recvEnd r0 =>
    simp only [step] at hst; split at hst
    · cases hst; exact h
    · cases hst

/-- **`local_wait_until` is served by the waiting rank's own polling** -/
theorem C03_wait_until_served (n : Nat) (nh hops : Nat → Nat → Nat) (hr : InRange n nh) (hp : Progress n nh hops)
    (ls0 : List Label) (s : St) (h0 : run n nh St.init ls0 = some s) (r u : Nat) (hat : AtR r u s) :
    ∃ ls s', (∀ l ∈ ls, ownRecv r l = true) ∧ ls.length ≤ total n hops s ∧
      run n nh s ls = some s' ∧ (r, u) ∈ s'.executed := by
  have gen : ∀ (t : Nat) (ls0 : List Label) (s : St), run n nh St.init ls0 = some s → total n hops s ≤ t → AtR r u s →
      ∃ ls s', (∀ l ∈ ls, ownRecv r l = true) ∧ ls.length ≤ total n hops s ∧
        run n nh s ls = some s' ∧ (r, u) ∈ s'.executed := by
    intro t
    induction t with
    | zero =>
      intro ls0 s h0 ht hat
      obtain ⟨hi, hd, hl⟩ := reach_init hr ls0 s h0
      by_cases hpend : Pend r u s
      · obtain ⟨l, hown, hen⟩ := own_step_exists (nh := nh) hi hl hpend
        cases hst : step n nh s l with
        | none => rw [hst] at hen; cases hen
        | some s1 => have := step_total hi hd hp (ownRecv_not_async hown) hst; omega
      · obtain ⟨e, he, hu, _, hloc⟩ := hat
        rcases hloc with ⟨a, k, h1⟩ | h1 | h1
        · exact absurd ⟨e, he, hu, Or.inl ⟨a, k, h1⟩⟩ hpend
        · exact absurd ⟨e, he, hu, Or.inr h1⟩ hpend
        · exact ⟨[], s, by simp, by simp, rfl, by rw [← hu]; exact hi.doneExec e he r h1⟩
    | succ t ih =>
      intro ls0 s h0 ht hat
      obtain ⟨hi, hd, hl⟩ := reach_init hr ls0 s h0
      by_cases hpend : Pend r u s
      · obtain ⟨l, hown, hen⟩ := own_step_exists (nh := nh) hi hl hpend
        cases hst : step n nh s l with
        | none => rw [hst] at hen; cases hen
        | some s1 =>
          have hdec := step_total hi hd hp (ownRecv_not_async hown) hst
          have h1 : run n nh St.init (ls0 ++ [l]) = some s1 := by
            rw [run_append ls0 [l] St.init s h0]; simp only [run, hst]
          obtain ⟨ls, s', hall, hlen, hrun, hex⟩ := ih (ls0 ++ [l]) s1 h1 (by omega) (atR_step hi hat hst)
          refine ⟨l :: ls, s', ?_, ?_, ?_, hex⟩
          · intro l' hl'
            rcases List.mem_cons.1 hl' with rfl | h'
            · exact hown
            · exact hall l' h'
          · simp only [List.length_cons]; omega
          · simp only [run, hst]; exact hrun
      · obtain ⟨e, he, hu, _, hloc⟩ := hat
        rcases hloc with ⟨a, k, h1⟩ | h1 | h1
        · exact absurd ⟨e, he, hu, Or.inl ⟨a, k, h1⟩⟩ hpend
        · exact absurd ⟨e, he, hu, Or.inr h1⟩ hpend
        · exact ⟨[], s, by simp, by simp, rfl, by rw [← hu]; exact hi.doneExec e he r h1⟩
  exact gen (total n hops s) ls0 s h0 (Nat.le_refl _) hat

/-- instance for the real router (NONE / NR / NLNR on every N × p block layout) -/
theorem C03_wait_until_served_router (sch : Router.Scheme) (N p : Nat) (hp : 0 < p)
    (ls0 : List Label) (s : St) (h0 : run (N * p) (Router.nextHop sch p) St.init ls0 = some s) (r u : Nat)
    (hat : AtR r u s) :
    ∃ ls s', (∀ l ∈ ls, ownRecv r l = true) ∧ ls.length ≤ total (N * p) (fun x d => Router.hopsLeft sch p x d) s ∧
      run (N * p) (Router.nextHop sch p) s ls = some s' ∧ (r, u) ∈ s'.executed :=
  C03_wait_until_served (N * p) _ _ (router_inRange sch N p) (router_progress sch N p hp) ls0 s h0 r u hat

/-- ... and under every well-formed placement of ranks on nodes -/
theorem C03_wait_until_served_routerP (P : RouterP.Placement) (hP : P.WF) (sch : Router.Scheme)
    (ls0 : List Label) (s : St) (h0 : run P.size (P.nextHop sch) St.init ls0 = some s) (r u : Nat) (hat : AtR r u s) :
    ∃ ls s', (∀ l ∈ ls, ownRecv r l = true) ∧ ls.length ≤ total P.size (fun x d => P.hopsLeft sch x d) s ∧
      run P.size (P.nextHop sch) s ls = some s' ∧ (r, u) ∈ s'.executed :=
  C03_wait_until_served P.size _ _ (routerP_inRange P hP sch) (routerP_progress P hP sch) ls0 s h0 r u hat

/-! non-vacuity: rank 0 sends 8 then 7 to rank 1 and flushes; rank 1, polling alone, executes 7 (after 8) -/
private def nhD (_ d : Nat) : Nat := d
example : ((run 2 nhD St.init [.async 0 8 1 false, .isend 0 1, .async 0 7 1 false, .isend 0 1]).map
    (fun s => s.es.map (fun e => (e.uid, e.loc)))) =
    some [(8, .inWire 0 1 0), (7, .inWire 0 1 1)] := by decide
example : ((run 2 nhD St.init [.async 0 8 1 false, .isend 0 1, .async 0 7 1 false, .isend 0 1,
      .recvBegin 1 0 0, .exec 1 8, .recvEnd 1, .recvBegin 1 0 1, .exec 1 7, .recvEnd 1]).map
    (fun s => s.executed)) = some [(1, 8), (1, 7)] := by decide
/-- a message only BUFFERED by the peer (not flushed) is not `AtR`: rank 1 has no step at all -/
example : ((run 2 nhD St.init [.async 0 7 1 false]).map
    (fun s => ((step 2 nhD s (.recvBegin 1 0 0)).isSome, (step 2 nhD s (.recvEnd 1)).isSome))) =
    some (false, false) := by decide

end YgmVerif.Deliver
