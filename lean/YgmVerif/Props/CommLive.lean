import YgmVerif.Props.C02C01
import YgmVerif.Props.C01Live
import YgmVerif.Props.C02Term
/-!
# C03 on the PRODUCT model — once every rank is inside barrier(), the whole communicator can always move

`Comm` = `Deliver × BarrierME` with joint labels (Model/Comm.lean); its `step` calls the two component `step`
functions unchanged.  `C01_never_stuck` and `C02ME_never_stuck` are about the components; a joint step needs BOTH sides
enabled (starting a handler needs the entry in the walk AND `und > 0`, `busy = false` on the barrier side; finishing it needs
`cur r = some uid` AND the entry still executable).  This file proves, through the linking invariant `Link`, that the two
sides never block each other:

**`C03_joint_never_stuck`** — in every reachable joint state in which every rank is inside `barrier()` some library-driven
joint step (`isLib`: everything except the user actions `async`, `regcb`, `enter`) is enabled:
a running handler can return; otherwise an unsent buffer can be posted, the oldest message of a channel received, a walked
message forwarded or its handler STARTED (the barrier side agrees: `und` counts exactly the entries not yet started), an
exhausted walk ended; otherwise a pending callback can run; otherwise — everything issued has executed — the barrier loops
move (`contribute / result / exit`).

**`C03_joint_quiescent_barrier_ends`** — and when everything issued has executed and every rank is idle inside barrier e, the
barrier side of the joint state is exactly the start state of `C02ME_all_exit`: every maximal continuation of barrier-loop steps
leaves all ranks outside, in epoch e+1, within `n·(2K+6)` steps.
-/
namespace YgmVerif.Comm
open YgmVerif
open YgmVerif.Barrier (sumTo upd b2n)
open YgmVerif.Deliver (Entry Loc isDone inWalkOf inWalkOf_iff InRange LocOk settled)

/-- a step the library takes by itself (not a user action) -/
def isLib : Label → Bool
  | .async .. => false
  | .regcb _ => false
  | .enter _ => false
  | _ => true

/-- a joint label whose barrier projection is empty is enabled as soon as its Deliver label is -/
theorem step_of_deliver {n : Nat} {nh : Nat → Nat → Nat} {s : St} {l : Label} {dl : Deliver.Label}
    (hg : guard s l = true) (hD : projD l = [dl]) (hB : projB l = [])
    (hen : (Deliver.step n nh s.d dl).isSome = true) : (step n nh s l).isSome = true := by
  unfold step
  rw [hg, hD, hB, dRun_single, bRun_nil]
  cases hst : Deliver.step n nh s.d dl with
  | none => rw [hst] at hen; cases hen
  | some d' => rfl

/-- a joint label whose Deliver projection is empty is enabled as soon as its barrier label is -/
theorem step_of_barrier {n : Nat} {nh : Nat → Nat → Nat} {s : St} {l : Label} {bl : BarrierME.Label}
    (hg : guard s l = true) (hD : projD l = []) (hB : projB l = [bl])
    (hen : (BarrierME.step n s.b bl).isSome = true) : (step n nh s l).isSome = true := by
  unfold step
  rw [hg, hD, hB, bRun_single, dRun_nil]
  cases hst : BarrierME.step n s.b bl with
  | none => rw [hst] at hen; cases hen
  | some b' => rfl

theorem deliver_facts {n : Nat} {nh : Nat → Nat → Nat} (hr : InRange n nh) {ls : List Label} {s : St}
    (hrun : run n nh init ls = some s) : Deliver.Inv s.d ∧ Deliver.DestLt n s.d ∧ LocOk n s.d :=
  Deliver.reach_init hr _ s.d (run_projD ls hrun)

/-- **the product never gets stuck inside the barrier** -/
theorem C03_joint_never_stuck (n : Nat) (hn : 0 < n) (nh : Nat → Nat → Nat) (hr : InRange n nh)
    (ls : List Label) (s : St) (hrun : run n nh init ls = some s)
    (hall : ∀ r, r < n → s.b.inBar r = true) :
    ∃ l, isLib l = true ∧ (step n nh s l).isSome = true := by
  obtain ⟨hdi, hlk⟩ := run_link hrun
  obtain ⟨_, _, hloc⟩ := deliver_facts hr hrun
  have hbi := BarrierME.run_inv _ (run_projB ls hrun)
  -- 1. a running handler can return
  by_cases hcur : ∃ r u, s.cur r = some u
  · obtain ⟨r, u, hc⟩ := hcur
    obtain ⟨hrn, hw, e, he, hu, heloc, hdst⟩ := hlk.curWalk r u hc
    refine ⟨.execEnd r u, rfl, ?_⟩
    have hbusy : s.b.busy r = true := by rw [hlk.busyCur r, hc]; rfl
    have hany : s.d.es.any (fun e' => e'.uid == u && inWalkOf r e' && (e'.dest == r || e'.direct)) = true := by
      refine List.any_eq_true.2 ⟨e, he, ?_⟩
      have h1 : inWalkOf r e = true := inWalkOf_iff.2 heloc
      rcases hdst with h2 | h2
      · simp [hu, h1, h2]
      · simp [hu, h1, h2]
    have hD : (Deliver.step n nh s.d (.exec r u)).isSome = true := by
      simp only [Deliver.step, hrn, hw, hany, and_self, if_true, Option.isSome_some]
    have hB : (BarrierME.step n s.b (.finish r)).isSome = true := by
      simp only [BarrierME.step, hrn, hbusy, and_self, if_true, Option.isSome_some]
    unfold step
    have hg : guard s (.execEnd r u) = true := by simp [guard, hc]
    rw [hg]
    simp only [projD, projB, dRun_single, bRun_single, if_true]
    cases h1 : Deliver.step n nh s.d (.exec r u) with
    | none => rw [h1] at hD; cases hD
    | some d' =>
      cases h2 : BarrierME.step n s.b (.finish r) with
      | none => rw [h2] at hB; cases hB
      | some b' => rfl
  have hnone : ∀ r, s.cur r = none := by
    intro r
    cases hc : s.cur r with
    | none => rfl
    | some u => exact absurd ⟨r, u, hc⟩ hcur
  have hnb : ∀ r, s.b.busy r = false := by
    intro r; rw [hlk.busyCur r, hnone r]; rfl
  -- 2. the movement side is not settled: it has an enabled step, and the barrier side agrees
  by_cases hset : settled n s.d
  · -- 3. everything has executed: callbacks, then the barrier loops
    have hund : s.b.und = 0 := by
      rw [hlk.und]
      apply List.countP_eq_zero.2
      intro e he
      have hq := (List.all_eq_true.1 hset.1) e he
      have hd : isDone e = true := by unfold isDone; exact hq
      simp [pending, hd]
    by_cases hcb : ∃ r, r < n ∧ 0 < s.b.cbs r
    · obtain ⟨r, hrn, hc⟩ := hcb
      refine ⟨.runcb r [] 0, rfl, ?_⟩
      have hB : (BarrierME.step n s.b (.runcb r 0 0)).isSome = true := by
        simp only [BarrierME.step, hrn, hc, hnb r, and_self, if_true, Option.isSome_some]
      unfold step
      have hg : guard s (.runcb r [] 0) = true := rfl
      rw [hg]
      simp only [projD, projB, asyncLabels, List.map_nil, List.length_nil, dRun_nil, bRun_single, if_true]
      cases h2 : BarrierME.step n s.b (.runcb r 0 0) with
      | none => rw [h2] at hB; cases hB
      | some b' => rfl
    · have hnc : ∀ r, r < n → s.b.cbs r = 0 := by
        intro r hrn
        by_cases h0 : s.b.cbs r = 0
        · exact h0
        · exact absurd ⟨r, hrn, by omega⟩ hcb
      obtain ⟨bl, hloop, hen⟩ := BarrierME.C02ME_idle_never_stuck n hn s.b hbi hall (fun q _ => hnb q) hnc
      cases bl with
      | contribute q => exact ⟨.contribute q, rfl, step_of_barrier rfl rfl rfl hen⟩
      | result q => exact ⟨.result q, rfl, step_of_barrier rfl rfl rfl hen⟩
      | exit q => exact ⟨.exit q, rfl, step_of_barrier rfl rfl rfl hen⟩
      | issue q => simp [BarrierME.isLoop] at hloop
      | start q => simp [BarrierME.isLoop] at hloop
      | finish q => simp [BarrierME.isLoop] at hloop
      | regcb q => simp [BarrierME.isLoop] at hloop
      | runcb q k j => simp [BarrierME.isLoop] at hloop
      | enter q => simp [BarrierME.isLoop] at hloop
  · obtain ⟨dl, hna, hen⟩ := Deliver.not_stuck (nh := nh) hdi hloc hset
    cases dl with
    | async r uid dest direct => simp [Deliver.isAsync] at hna
    | isend r hop => exact ⟨.isend r hop, rfl, step_of_deliver rfl rfl rfl hen⟩
    | recvBegin r src seq => exact ⟨.recvBegin r src seq, rfl, step_of_deliver rfl rfl rfl hen⟩
    | fwd r uid => exact ⟨.fwd r uid, rfl, step_of_deliver rfl rfl rfl hen⟩
    | recvEnd r => exact ⟨.recvEnd r, rfl, step_of_deliver rfl rfl rfl hen⟩
    | exec r uid =>
      -- the handler can START: the entry is runnable, and it is one of the `und` not-yet-started entries
      refine ⟨.execBegin r uid, rfl, ?_⟩
      have hcond : r < n ∧ s.d.walking r = true ∧
          s.d.es.any (fun e => e.uid == uid && inWalkOf r e && (e.dest == r || e.direct)) = true := by
        simp only [Deliver.step] at hen
        split at hen
        · rename_i hc; exact hc
        · cases hen
      obtain ⟨e, he, hq⟩ := List.any_eq_true.1 hcond.2.2
      have hpend : pending s.cur e = true := by
        simp only [Bool.and_eq_true] at hq
        have hloc' := inWalkOf_iff.1 hq.1.2
        simp [pending, beingExec, isDone, hloc', hnone r]
      have hpos : 0 < s.b.und := by
        rw [hlk.und]
        exact List.countP_pos_iff.2 ⟨e, he, hpend⟩
      have hB : (BarrierME.step n s.b (.start r)).isSome = true := by
        simp only [BarrierME.step, hcond.1, hpos, hnb r, and_self, if_true, Option.isSome_some]
      have hg : guard s (.execBegin r uid) = true := by
        simp only [guard, runnable, hcond.2.1, hcond.2.2, Bool.and_self]
      exact step_of_barrier hg rfl rfl hB

/-! ### after joint quiescence the barrier ends -/

def isBarLoop : Label → Bool
  | .contribute _ => true
  | .result _ => true
  | .exit _ => true
  | _ => false

def toB : Label → BarrierME.Label
  | .contribute r => .contribute r
  | .result r => .result r
  | .exit r => .exit r
  | _ => .exit 0

theorem barLoop_proj {l : Label} (h : isBarLoop l = true) :
    projD l = [] ∧ projB l = [toB l] ∧ BarrierME.isLoop (toB l) = true ∧ ∀ s, guard s l = true := by
  cases l <;> simp [isBarLoop] at h <;> exact ⟨rfl, rfl, rfl, fun _ => rfl⟩

/-- a joint barrier-loop step IS the barrier component's step; the movement component does not move -/
theorem barLoop_step {n : Nat} {nh : Nat → Nat → Nat} {s : St} {l : Label} (h : isBarLoop l = true) :
    step n nh s l = (BarrierME.step n s.b (toB l)).map (fun b' => { d := s.d, b := b', cur := s.cur }) := by
  obtain ⟨hD, hB, _, hg⟩ := barLoop_proj h
  unfold step
  rw [hg s, hD, hB, dRun_nil, bRun_single]
  cases l <;> simp [isBarLoop] at h <;> (cases BarrierME.step n s.b _ <;> rfl)

theorem barLoop_run {n : Nat} {nh : Nat → Nat → Nat} :
    ∀ (js : List Label) (s s' : St), (∀ l ∈ js, isBarLoop l = true) → run n nh s js = some s' →
      BarrierME.run n s.b (js.map toB) = some s'.b ∧ s'.d = s.d ∧ s'.cur = s.cur := by
  intro js
  induction js with
  | nil => intro s s' _ h; simp only [run] at h; cases h; exact ⟨rfl, rfl, rfl⟩
  | cons l js ih =>
    intro s s' hall h
    simp only [run] at h
    have hl := hall l List.mem_cons_self
    rw [barLoop_step hl] at h
    simp only [List.map_cons, BarrierME.run]
    cases hst : BarrierME.step n s.b (toB l) with
    | none => rw [hst] at h; cases h
    | some b1 =>
      rw [hst] at h
      simp only [Option.map_some] at h
      have := ih { d := s.d, b := b1, cur := s.cur } s' (fun l' hl' => hall l' (List.mem_cons_of_mem _ hl')) h
      exact this

/-- **after joint quiescence the barrier ends on every rank**: everything issued has executed, every rank is idle inside
barrier e; then every continuation by barrier-loop steps has at most `n·(2K+6)` steps, no message moves any more, and when no
barrier-loop step is enabled every rank has left the barrier (epoch e+1) -/
theorem C03_joint_quiescent_barrier_ends (n K e : Nat) (nh : Nat → Nat → Nat)
    (ls : List Label) (s : St) (hrun : run n nh init ls = some s)
    (hset : settled n s.d)
    (hin : ∀ q, q < n → s.b.inBar q = true ∧ s.b.epoch q = e ∧ s.b.cbs q = 0)
    (hK : ∀ q, q < n → s.b.rounds q ≤ K)
    (js : List Label) (hloop : ∀ l ∈ js, isBarLoop l = true) (s' : St) (h : run n nh s js = some s') :
    js.length ≤ n * (2 * K + 6) ∧ s'.d = s.d ∧
    ((∀ l, isBarLoop l = true → step n nh s' l = none) →
      ∀ q, q < n → s'.b.inBar q = false ∧ s'.b.epoch q = e + 1) := by
  obtain ⟨_, hlk⟩ := run_link hrun
  have hnone : ∀ r, s.cur r = none := by
    intro r
    cases hc : s.cur r with
    | none => rfl
    | some u =>
      obtain ⟨_, _, e0, he0, _, heloc, _⟩ := hlk.curWalk r u hc
      have hq := (List.all_eq_true.1 hset.1) e0 he0
      rw [heloc] at hq; cases hq
  have hnb : ∀ r, s.b.busy r = false := by intro r; rw [hlk.busyCur r, hnone r]; rfl
  have hund : s.b.und = 0 := by
    rw [hlk.und]
    apply List.countP_eq_zero.2
    intro e0 he0
    have hq := (List.all_eq_true.1 hset.1) e0 he0
    have hd : isDone e0 = true := by unfold isDone; exact hq
    simp [pending, hd]
  have hd : s.b.und = 0 ∧ ∀ q, q < n → s.b.epoch q = e ∧ s.b.inBar q = true ∧ s.b.busy q = false ∧ s.b.cbs q = 0 :=
    ⟨hund, fun q hq => ⟨(hin q hq).2.1, (hin q hq).1, hnb q, (hin q hq).2.2⟩⟩
  have hB0 := run_projB ls hrun
  obtain ⟨hBrun, hdeq, _⟩ := barLoop_run js s s' hloop h
  have hallB : ∀ bl ∈ js.map toB, BarrierME.isLoop bl = true := by
    intro bl hbl
    obtain ⟨l, hl, rfl⟩ := List.mem_map.1 hbl
    exact (barLoop_proj (hloop l hl)).2.2.1
  have hbound := BarrierME.C02ME_exit_bounded n K e _ s.b hB0 hd hK (js.map toB) hallB s'.b hBrun
  refine ⟨by have := hbound.1; have := hbound.2; simp only [List.length_map] at *; omega, hdeq, ?_⟩
  intro hmax
  apply BarrierME.C02ME_all_exit n K e _ s.b hB0 hd hK (js.map toB) hallB s'.b hBrun
  intro bl hbl
  cases bl with
  | contribute q =>
    have := hmax (.contribute q) rfl
    rw [barLoop_step rfl] at this
    cases hst : BarrierME.step n s'.b (.contribute q) with
    | none => rfl
    | some b1 => simp only [toB, hst, Option.map_some] at this; cases this
  | result q =>
    have := hmax (.result q) rfl
    rw [barLoop_step rfl] at this
    cases hst : BarrierME.step n s'.b (.result q) with
    | none => rfl
    | some b1 => simp only [toB, hst, Option.map_some] at this; cases this
  | exit q =>
    have := hmax (.exit q) rfl
    rw [barLoop_step rfl] at this
    cases hst : BarrierME.step n s'.b (.exit q) with
    | none => rfl
    | some b1 => simp only [toB, hst, Option.map_some] at this; cases this
  | issue q => simp [BarrierME.isLoop] at hbl
  | start q => simp [BarrierME.isLoop] at hbl
  | finish q => simp [BarrierME.isLoop] at hbl
  | regcb q => simp [BarrierME.isLoop] at hbl
  | runcb q k j => simp [BarrierME.isLoop] at hbl
  | enter q => simp [BarrierME.isLoop] at hbl

/-! ### non-vacuity: 2 ranks, rank 0 sends one message to rank 1, both enter the barrier -/
private def nh2 (_ d : Nat) : Nat := d
private def h1 : List Label := [.async 0 7 1 false, .enter 0, .enter 1]
private def h2 : List Label := h1 ++ [.isend 0 1, .recvBegin 1 0 0, .execBegin 1 7, .execEnd 1 7, .recvEnd 1]

/-- all ranks inside the barrier, message still buffered: the library can post it (and cannot yet leave) -/
example : ((run 2 nh2 init h1).map (fun s => (s.b.inBar 0, s.b.inBar 1, Deliver.quiescent s.d,
    (step 2 nh2 s (.isend 0 1)).isSome, (step 2 nh2 s (.contribute 0)).isSome))) =
    some (true, true, false, true, true) := by decide
/-- the handler can start only when the barrier side agrees (`und > 0`, not busy) and return only once started -/
example : ((run 2 nh2 init (h1 ++ [.isend 0 1, .recvBegin 1 0 0])).map (fun s =>
    ((step 2 nh2 s (.execBegin 1 7)).isSome, (step 2 nh2 s (.execEnd 1 7)).isSome))) = some (true, false) := by decide
/-- the hypotheses of `C03_joint_quiescent_barrier_ends` are met after delivery (K = 0, e = 0) -/
example : ((run 2 nh2 init h2).map (fun s => (Deliver.quiescent s.d, s.d.walking 0, s.d.walking 1,
    s.b.inBar 0, s.b.inBar 1))) = some (true, false, false, true, true) := by decide
example : ((run 2 nh2 init h2).map (fun s => (s.b.epoch 0, s.b.epoch 1, s.b.cbs 0, s.b.cbs 1, s.b.rounds 0,
    s.b.rounds 1))) = some (0, 0, 0, 0, 0, 0) := by decide

end YgmVerif.Comm
