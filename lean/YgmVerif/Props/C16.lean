import YgmVerif.Lemmas.Cache
import YgmVerif.PinnedCache
/-!
# C16 — the reducing adapter folds every contributed value exactly once

Theorems about the system `YgmVerif.Cache.Net`: every rank runs the cache machine of
`Model/Cache.lean` (repaired statement order) configured as a reducing adapter (owner bypass,
flushes go to the adapter of the next hop), messages travel through `flight`, container
operations are folded into `stored` by the owner.  A run is ANY sequence of system labels
accepted by `netStep`: contributions from any context on any rank (also while that rank is
inside a send of a flush), deliveries in any order, intermediate ranks combining and
re-forwarding.  The operator is any associative and commutative one.
-/
namespace YgmVerif.Cache

section
set_option linter.unusedSectionVars false
variable {V : Type} (nc : NetCfg V) [Std.Associative nc.op] [Std.Commutative nc.op]

theorem netRun_cons (n n' : Net V) (l : NetLabel V) (ls : List (NetLabel V))
    (h : netRun nc n (l :: ls) = some n') : ∃ n₁, netStep nc n l = some n₁ ∧ netRun nc n₁ ls = some n' := by
  simp only [netRun] at h
  cases hs : netStep nc n l with
  | none => rw [hs] at h; cases h
  | some n₁ => rw [hs] at h; exact ⟨n₁, rfl, h⟩

/-- **reduce_ledger**.  After every accepted run, for every key: the fold over
(stored value ⊎ cached / copied-out / in-progress values on every rank ⊎ values in flight)
equals the fold over what was there at the start and every value the program contributed.
Nothing is lost, nothing is counted twice — whatever the interleaving, the re-entry
points and the number of intermediate hops that combined partial values. -/
theorem reduce_ledger (n n' : Net V) (ls : List (NetLabel V)) (hwf : NetWF nc n)
    (h : netRun nc n ls = some n') (k : Key) :
    netHeld nc n' k = omerge nc.op (netHeld nc n k) (total nc.op (valsOf k (userContribs ls))) := by
  induction ls generalizing n with
  | nil => simp only [netRun] at h; cases h; simp [userContribs]
  | cons l ls ih =>
    obtain ⟨n₁, h1, h2⟩ := netRun_cons nc n n' l ls h
    rw [ih n₁ (netStep_wf nc n n₁ l hwf h1) h2, netStep_ledger nc n n₁ l hwf h1 k, userContribs_cons_total]
    ac_rfl

theorem netWF_init (nranks : Nat) (st : List (Key × V)) : NetWF nc (Net.init nranks st) := by
  intro s hs
  simp only [Net.init, List.mem_replicate] at hs
  rw [hs.2]; exact WF.nil _

theorem netHeld_init (nranks : Nat) (st : List (Key × V)) (k : Key) :
    netHeld nc (Net.init nranks st) k = storedOf k st := by
  have : heldAll nc (List.replicate nranks (St.init : St V)) k = none := by
    induction nranks with
    | zero => rfl
    | succ m ih => simp only [heldAll, List.replicate_succ, List.map_cons, ototal_cons] at ih ⊢; rw [ih]; rfl
  simp [netHeld, Net.init, this, flightTot]

/-- **reduce_quiescent_spec**.  Once the adapter is destroyed or a barrier completed (all ranks
idle, every cache empty, nothing in flight), the target's entry of every key is the fold of
its previous value (if any) with every value passed to `async_reduce` for that key on any
rank — each exactly once. -/
theorem reduce_quiescent_spec (nranks : Nat) (st₀ : List (Key × V)) (ls : List (NetLabel V)) (n' : Net V)
    (h : netRun nc (Net.init nranks st₀) ls = some n') (hq : netQuiet n') (k : Key) :
    storedOf k n'.stored = omerge nc.op (storedOf k st₀) (total nc.op (valsOf k (userContribs ls))) := by
  have := reduce_ledger nc _ n' ls (netWF_init nc nranks st₀) h k
  rw [netHeld_init] at this
  rw [← this]
  simp [netHeld, heldAll_quiet nc n'.ranks hq.1 k, hq.2, flightTot]

/-- **reduce_by_key_spec**.  `reduce_by_key_map` starts from an empty map; `pairs` are the
(key, value) pairs of the source collection over all ranks (the program contributes them in
some interleaving `ls`).  The result holds, for every key, exactly the fold of its values;
a key is present iff some pair has it. -/
theorem reduce_by_key_spec (nranks : Nat) (pairs : List (Key × V)) (ls : List (NetLabel V)) (n' : Net V)
    (h : netRun nc (Net.init nranks []) ls = some n') (hq : netQuiet n')
    (hp : (userContribs ls).Perm pairs) (k : Key) :
    storedOf k n'.stored = total nc.op (valsOf k pairs) ∧
      (storedOf k n'.stored = none ↔ ∀ p ∈ pairs, p.1 ≠ k) := by
  have h1 := reduce_quiescent_spec nc nranks [] ls n' h hq k
  simp only [storedOf, omerge_none_left] at h1
  have h2 : total nc.op (valsOf k (userContribs ls)) = total nc.op (valsOf k pairs) :=
    total_perm nc.op (valsOf_perm k hp)
  refine ⟨h1.trans h2, ?_⟩
  rw [h1, h2]
  constructor
  · intro hn p hp' hk
    have := total_eq_none _ hn
    have hm : p.2 ∈ valsOf k pairs := by
      simp only [valsOf, List.mem_map, List.mem_filter]; exact ⟨p, ⟨hp', by simp [hk]⟩, rfl⟩
    rw [this] at hm; cases hm
  · intro hall
    have : valsOf k pairs = [] := by
      simp only [valsOf, List.map_eq_nil_iff, List.filter_eq_nil_iff]
      intro p hp'; simpa using hall p hp'
    rw [this]; rfl

end

/-! ### where a flushed value goes -/

/-- a flush on rank `r` addresses the adapter of the next hop towards the key's owner;
the bypass addresses the owner's container -/
theorem flush_dest {V : Type} (nc : NetCfg V) (r : Nat) (m : Msg V) :
    nc.dest r m = if m.toContainer then nc.owner m.key else nc.nh r (nc.owner m.key) := rfl

/-- on the owner the value does not enter the cache: the container operation is sent -/
theorem owner_bypasses {V : Type} (nc : NetCfg V) (r : Nat) (s : St V) (k : Key) (v : V)
    (hown : nc.owner k = r) (hen : canEnter s.stack = true) :
    step (nc.at r) s (.ins k v) = some { s with stack := .tail (.pend ⟨true, k, v⟩) :: s.stack } := by
  simp [step, hen, NetCfg.at, adapterCfg, hown]

/-- on any other rank it is cached (or combined, or evicts) and a callback is registered -/
theorem nonowner_caches {V : Type} (nc : NetCfg V) (r : Nat) (s : St V) (k : Key) (v : V)
    (hown : nc.owner k ≠ r) (hen : canEnter s.stack = true) :
    step (nc.at r) s (.ins k v) =
      some { cache := (insLoop (nc.at r) s.cache k v).1, reg := true, stack := (insLoop (nc.at r) s.cache k v).2 :: s.stack } := by
  simp [step, hen, NetCfg.at, adapterCfg, hown]

theorem hopPath_self (nh : Nat → Nat → Nat) (o fuel : Nat) : hopPath nh o fuel o = [] := by
  cases fuel <;> simp [hopPath]

/-- **reduce_reaches_owner** (next-hop function as a parameter).  If iterating the next hop
towards `o` reaches `o` within `f` steps, the chain of flush destinations of a value
contributed on rank `r` ends on the owner after at most `f` messages. -/
theorem reduce_reaches_owner (nh : Nat → Nat → Nat) (o : Nat) (f : Nat) (r : Nat)
    (H : ∃ j, j ≤ f ∧ hopIter nh o j r = o) :
    (hopPath nh o f r).length ≤ f ∧ (r ≠ o → (hopPath nh o f r).getLast? = some o) := by
  induction f generalizing r with
  | zero =>
    obtain ⟨j, hj, hit⟩ := H
    have : j = 0 := by omega
    subst this
    simp only [hopIter] at hit
    exact ⟨by simp [hopPath], fun h => absurd hit h⟩
  | succ f ih =>
    by_cases hro : r = o
    · subst hro; simp [hopPath]
    · obtain ⟨j, hj, hit⟩ := H
      cases j with
      | zero => simp only [hopIter] at hit; exact absurd hit hro
      | succ j =>
        simp only [hopIter] at hit
        obtain ⟨h1, h2⟩ := ih (nh r o) ⟨j, by omega, hit⟩
        simp only [hopPath, if_neg hro, List.length_cons]
        refine ⟨by omega, fun _ => ?_⟩
        by_cases hn : nh r o = o
        · rw [hn, hopPath_self]; rfl
        · have := h2 hn
          cases hp : hopPath nh o f (nh r o) with
          | nil => rw [hp] at this; cases this
          | cons a l => rw [hp] at this; rw [List.getLast?_cons_cons]; exact this

theorem divmod_mk (p a c : Nat) (hc : c < p) : (a * p + c) / p = a ∧ (a * p + c) % p = c := by
  have hp : 0 < p := by omega
  constructor
  · rw [Nat.mul_comm, Nat.mul_add_div hp, Nat.div_eq_of_lt hc]; rfl
  · rw [Nat.mul_comm, Nat.mul_add_mod, Nat.mod_eq_of_lt hc]

theorem nlnr_same (p r o : Nat) (h : r / p = o / p) : nlnrHop p r o = o := by
  simp [nlnrHop, h]

/-- the NLNR next hop of comm_router.hpp (block placement, `p > 0` ranks per node) reaches
every destination within three hops: on-node to the rank that talks to the destination's
node, off-node to the rank with the same on-node index, on-node to the destination -/
theorem nlnr_reaches (p : Nat) (hp : 0 < p) (r o : Nat) :
    ∃ j, j ≤ 3 ∧ hopIter (nlnrHop p) o j r = o := by
  by_cases hab : r / p = o / p
  · exact ⟨1, by omega, nlnr_same p r o hab⟩
  · have hch : (o / p + r / p) % p < p := Nat.mod_lt _ hp
    by_cases hL : r = r / p * p + (o / p + r / p) % p
    · have h1 : nlnrHop p r o = o / p * p + r % p := by
        unfold nlnrHop; rw [if_neg hab]; simp only []; rw [if_pos hL]
      obtain ⟨hd, _⟩ := divmod_mk p (o / p) (r % p) (Nat.mod_lt _ hp)
      refine ⟨2, by omega, ?_⟩
      show nlnrHop p (nlnrHop p r o) o = o
      rw [h1]; exact nlnr_same p _ o hd
    · have h1 : nlnrHop p r o = r / p * p + (o / p + r / p) % p := by
        unfold nlnrHop; rw [if_neg hab]; simp only []; rw [if_neg hL]
      obtain ⟨hd, hm⟩ := divmod_mk p (r / p) ((o / p + r / p) % p) hch
      have h2 : nlnrHop p (r / p * p + (o / p + r / p) % p) o = o / p * p + (o / p + r / p) % p := by
        unfold nlnrHop; rw [hd, if_neg hab]; simp only []; rw [if_pos trivial, hm]
      obtain ⟨hd3, _⟩ := divmod_mk p (o / p) ((o / p + r / p) % p) hch
      refine ⟨3, by omega, ?_⟩
      show nlnrHop p (nlnrHop p (nlnrHop p r o) o) o = o
      rw [h1, h2]; exact nlnr_same p _ o hd3

/-- **reduce_reaches_owner** for the router of the code: at most 3 flush messages -/
theorem reduce_reaches_owner_nlnr (p : Nat) (hp : 0 < p) (r o : Nat) :
    (hopPath (nlnrHop p) o 3 r).length ≤ 3 ∧ (r ≠ o → (hopPath (nlnrHop p) o 3 r).getLast? = some o) :=
  reduce_reaches_owner (nlnrHop p) o 3 r (nlnr_reaches p hp r o)

/-! ### the hypotheses are met by a non-trivial run -/

instance : Std.Associative (fun a b : Nat => a + b) := ⟨Nat.add_assoc⟩
instance : Std.Commutative (fun a b : Nat => a + b) := ⟨Nat.add_comm⟩

/-- 2 nodes × 2 ranks, sum, 4 slots; key 1 and key 5 share slot 1 and are owned by rank 3 -/
def demoCfg : NetCfg Nat := { nslots := 4, op := (· + ·), owner := fun _ => 3, nh := nlnrHop 2 }

instance : Std.Associative demoCfg.op := ⟨Nat.add_assoc⟩
instance : Std.Commutative demoCfg.op := ⟨Nat.add_comm⟩

/-- rank 0 contributes (1,10), then (5,7) evicts it; while the eviction's send is in progress a
handler contributes (1,3) on rank 0; the partial values travel 0 → 1 → 3 (rank 1 combines
them), the owner 3 bypasses its cache; barrier flushes the rest. -/
def demoRun : List (NetLabel Nat) :=
  [.user 0 1 10, .loc 0 .done,
   .user 0 5 7, .loc 0 .pack,            -- evict (1,10): in flight to rank 1
     .user 0 1 3, .loc 0 .done,          -- re-entrant contribution into the freed slot
   .loc 0 .ret, .loc 0 .pack, .loc 0 .ret, .loc 0 .done,   -- loop re-check evicts (1,3), then occupies (5,7)
   .deliver 1, .loc 1 .done,             -- (1,10) cached on rank 1
   .deliver 0, .loc 1 .done,             -- (1,3) combined on rank 1: (1,13)
   .loc 0 .fb, .loc 0 .pack, .loc 0 .ret, .loc 0 .fe,      -- rank 0 flushes (5,7) to rank 1
   .deliver 0, .loc 1 .pack, .loc 1 .ret, .loc 1 .done,    -- rank 1: (5,7) evicts (1,13) → rank 3
   .loc 1 .fb, .loc 1 .pack, .loc 1 .ret, .loc 1 .fe,      -- rank 1 flushes (5,7) → rank 3
   .deliver 1, .loc 3 .pack, .loc 3 .ret, .loc 3 .done,    -- owner bypass of (1,13)
   .deliver 1, .loc 3 .pack, .loc 3 .ret, .loc 3 .done,    -- owner bypass of (5,7)
   .deliver 0, .deliver 0]                                 -- container operations

example : (netRun demoCfg (Net.init 4 []) demoRun).map (fun n => (n.stored, n.flight.length, n.ranks.map (fun s => (s.cache.length, s.reg, s.stack.length))))
    = some ([(5, 7), (1, 13)], 0, [(0, false, 0), (0, false, 0), (0, false, 0), (0, false, 0)]) := by decide

example : userContribs demoRun = [(1, 10), (5, 7), (1, 3)] := by decide

/-- the pinned order loses the 3 on this very history shape (`PinnedCache.reduce_loses`) -/
example : total (· + ·) (valsOf 1 (userContribs demoRun)) = some 13 := by decide

example : hopPath (nlnrHop 2) 3 3 0 = [1, 3] := by decide
example : hopPath (nlnrHop 3) 7 3 1 = [2, 8, 7] := by decide


/-! ### the operator needs no neutral element

`total` folds a NON-EMPTY list (`none` stands for "no value yet", it is not a value of `V`),
so none of the theorems above injects a neutral or value-initialised element into a fold:
the specification is meaningful for `min`, product, bitwise and, … where `T{}` is absorbing.
An implementation that seeds a partial result with `T{}` instead of the first contributed
value therefore violates `reduce_quiescent_spec` whenever `T{}` is not neutral. -/

theorem total_singleton {V : Type} (op : V → V → V) (a : V) : total op [a] = some a := rfl

/-- the fold stays inside every set that is closed under the operator and contains the folded values -/
theorem total_closed {V : Type} (op : V → V → V) (P : V → Prop) (hop : ∀ a b, P a → P b → P (op a b))
    (l : List V) (h : ∀ x ∈ l, P x) (m : V) (hm : total op l = some m) : P m := by
  induction l generalizing m with
  | nil => cases hm
  | cons a l ih =>
    simp only [total_cons] at hm
    cases ht : total op l with
    | none => rw [ht] at hm; simp at hm; subst hm; exact h a (by simp)
    | some b =>
      rw [ht] at hm; simp at hm; subst hm
      exact hop a b (h a (by simp)) (ih (fun x hx => h x (by simp [hx])) b ht)

/-- **reduce_result_closed**: the entry `reduce_by_key_map` stores for a key lies in every
operator-closed set containing the values contributed for that key — e.g. with `min` over
values ≥ 10 it is ≥ 10, never the 0 of a value-initialised accumulator. -/
theorem reduce_result_closed {V : Type} (nc : NetCfg V) [Std.Associative nc.op] [Std.Commutative nc.op]
    (P : V → Prop) (hop : ∀ a b, P a → P b → P (nc.op a b))
    (nranks : Nat) (pairs : List (Key × V)) (ls : List (NetLabel V)) (n' : Net V)
    (h : netRun nc (Net.init nranks []) ls = some n') (hq : netQuiet n')
    (hp : (userContribs ls).Perm pairs) (k : Key) (hP : ∀ p ∈ pairs, p.1 = k → P p.2)
    (m : V) (hm : storedOf k n'.stored = some m) : P m := by
  have h1 := (reduce_by_key_spec nc nranks pairs ls n' h hq hp k).1
  rw [h1] at hm
  apply total_closed nc.op P hop (valsOf k pairs) _ m hm
  intro x hx
  simp only [valsOf, List.mem_map, List.mem_filter] at hx
  obtain ⟨p, ⟨hp1, hp2⟩, rfl⟩ := hx
  exact hP p hp1 (by simpa using hp2)

/-- the demo system with `min`: no neutral element exists in `Nat` -/
def demoMin : NetCfg Nat := { demoCfg with op := min }
instance : Std.Associative demoMin.op := ⟨Nat.min_assoc⟩
instance : Std.Commutative demoMin.op := ⟨Nat.min_comm⟩

/-- same history as `demoRun` (re-entry, combining on rank 1, owner bypass): key 1 ends as
min 10 3 = 3 — a `T{}`-seeded accumulator would have produced 0 -/
example : (netRun demoMin (Net.init 4 []) demoRun).map (·.stored) = some [(5, 7), (1, 3)] := by decide
example : total min (valsOf 1 (userContribs demoRun)) = some 3 := by decide
example : omerge min (some 0) (total min (valsOf 1 (userContribs demoRun))) = some 0 := by decide

end YgmVerif.Cache
