import YgmVerif.Lemmas.Ser
/-!
# C20 — serialize followed by deserialize reproduces a container

Theorems about `YgmVerif.Ser` (model of the `serialize`/`deserialize` members of
map_impl.hpp, set_impl.hpp, bag.ipp, counting_set.hpp and of the JSON string
writer/reader behind cereal's JSON archives).  Quantifiers: every communicator size
(= number of per-rank states), every content (empty containers and ranks that own
nothing are lists with `items = []`), every previous state of the target, every byte string.

Outside the model (trusted, exercised by the correspondence run): cereal's document
structure and number formatting, `std::fstream`, the order `std::less<Key>` of the key type
(parameter `lt`; for `std::string` it is `bytesLt`, whose order laws are proved below).
A communicator-size mismatch only prints a warning in the code and is outside the property.
-/
namespace YgmVerif.Ser

/-! ## JSON string tokens -/

/-- RapidJSON layer: reading back the token written for `bs` yields `bs`, for EVERY byte
string (quotes, backslashes, all control characters incl. NUL, 0x7F, bytes ≥ 0x80). -/
theorem json_string_roundtrip (bs : Bytes) : unescape (escape bs) = some bs :=
  unescape_escape bs

/-- different strings get different tokens -/
theorem escape_injective {a b : Bytes} (h : escape a = escape b) : a = b := by
  have := congrArg unescape h
  rw [unescape_escape, unescape_escape] at this
  exact Option.some.inj this

/-- a written token contains no raw control byte: strings with newlines, NULs … cannot break
the document's line/record structure -/
theorem token_has_no_raw_control (bs : Bytes) : ∀ b ∈ escape bs, (32 : UInt8) ≤ b := by
  intro b hb
  simp only [escape, List.mem_cons, List.mem_append, List.not_mem_nil, or_false] at hb
  rcases hb with rfl | hb | rfl
  · decide
  · exact escapeBody_clean bs b hb
  · decide

/-- FULL STATEMENT WANTED BY THE PROPERTY (does not hold for the code as it is):
`∀ bs, cLoad (escape bs) = some bs`.
cereal's `loadValue(std::string&)` assigns `GetString()` (a `const char*`), so what the
archive hands back is the prefix before the first NUL.  Proved instead: the exact result
for every byte string, and the exact condition under which the round trip is the identity. -/
theorem cereal_load_roundtrip_partial (bs : Bytes) : cLoad (escape bs) = some (cstr bs) := by
  unfold cLoad
  rw [unescape_escape]
  rfl

/-- the archive returns the string unchanged iff it contains no NUL byte -/
theorem cereal_load_exact_iff (bs : Bytes) : cLoad (escape bs) = some bs ↔ (0 : UInt8) ∉ bs := by
  rw [cereal_load_roundtrip_partial]
  constructor
  · intro h; exact (cstr_eq_self_iff bs).mp (Option.some.inj h)
  · intro h; rw [(cstr_eq_self_iff bs).mpr h]

/-- NUL-free strings (what the property can promise on top of this archive) round-trip -/
theorem cereal_load_roundtrip_nul_free (bs : Bytes) (h : (0 : UInt8) ∉ bs) :
    cLoad (escape bs) = some bs := (cereal_load_exact_iff bs).mpr h

/-! ## container images -/

variable {E K X : Type}

/-- `std::vector` store (bag): exact round trip on a communicator of the same size, for all
contents, whatever the target held -/
theorem roundtrip_seq (key : E → K) (lt : K → K → Bool) (c tgt : List (Local E X))
    (hlen : tgt.length = c.length) :
    deserializeAll .seq key lt (serializeAll c) tgt = c :=
  zipWith_deser_seq key lt c.length c tgt hlen

/-- ordered store with unique keys on every rank (map, set, counting_set: the insert
handlers keep keys unique, so every rank iterates strictly increasing keys): exact round trip -/
theorem roundtrip_unique_keys (key : E → K) (lt : K → K → Bool) (c tgt : List (Local E X))
    (hlen : tgt.length = c.length) (hs : ∀ l ∈ c, StrictSorted key lt l.items) :
    deserializeAll .tree key lt (serializeAll c) tgt = c :=
  zipWith_deser_strict key lt c.length c tgt hlen hs

/-- by container kind: bag unconditionally; map, set, counting_set (and any multimap / multiset
whose ranks happen to hold no repeated key) under the store's own invariant -/
theorem roundtrip (k : Kind) (key : E → K) (lt : K → K → Bool) (c tgt : List (Local E X))
    (hlen : tgt.length = c.length)
    (hinv : k = .bag ∨ ∀ l ∈ c, StrictSorted key lt l.items) :
    deserializeAll k.disc key lt (serializeAll c) tgt = c := by
  cases k with
  | bag => exact roundtrip_seq key lt c tgt hlen
  | map => exact roundtrip_unique_keys key lt c tgt hlen (hinv.resolve_left (by decide))
  | multimap => exact roundtrip_unique_keys key lt c tgt hlen (hinv.resolve_left (by decide))
  | set => exact roundtrip_unique_keys key lt c tgt hlen (hinv.resolve_left (by decide))
  | multiset => exact roundtrip_unique_keys key lt c tgt hlen (hinv.resolve_left (by decide))
  | countingSet => exact roundtrip_unique_keys key lt c tgt hlen (hinv.resolve_left (by decide))

/-- one rank of an ordered store with repeated keys (multimap): same extra member, the
same elements with the same multiplicities, again sorted — the order *within* a run of equal
keys is not preserved (cereal re-inserts with a hint that reverses it) -/
theorem roundtrip_multi_rank (key : E → K) (lt : K → K → Bool)
    (asymm : ∀ a b, lt a b = true → lt b a = false)
    (negTrans : ∀ a b c, lt a b = false → lt b c = false → lt a c = false)
    (n : Nat) (c old : Local E X) :
    let r := deserializeRank .tree key lt (serializeRank n c) old
    r.items.Perm c.items ∧ r.extra = c.extra ∧ WeakSorted key lt r.items := by
  refine ⟨rebuild_perm .tree key lt c.items, rfl, ?_⟩
  exact foldl_insertLB_weakSorted key lt asymm negTrans c.items [] (by simp [WeakSorted])

/-- all ranks of a multimap -/
theorem roundtrip_multi (key : E → K) (lt : K → K → Bool)
    (asymm : ∀ a b, lt a b = true → lt b a = false)
    (negTrans : ∀ a b c, lt a b = false → lt b c = false → lt a c = false)
    (c tgt : List (Local E X)) (hlen : tgt.length = c.length) :
    (deserializeAll .tree key lt (serializeAll c) tgt).length = c.length ∧
    ∀ i (h1 : i < (deserializeAll .tree key lt (serializeAll c) tgt).length) (h2 : i < c.length),
      ((deserializeAll .tree key lt (serializeAll c) tgt)[i]).items.Perm (c[i]).items ∧
      ((deserializeAll .tree key lt (serializeAll c) tgt)[i]).extra = (c[i]).extra ∧
      WeakSorted key lt ((deserializeAll .tree key lt (serializeAll c) tgt)[i]).items := by
  refine ⟨by simp [deserializeAll, serializeAll, hlen], ?_⟩
  intro i h1 h2
  simp only [deserializeAll, serializeAll, List.getElem_zipWith, List.getElem_map]
  exact roundtrip_multi_rank key lt asymm negTrans c.length c[i] _

/-- multiset: elements are their own keys and the order is total, so equal keys are equal
elements and even the iteration order is reproduced exactly -/
theorem roundtrip_multiset (lt : E → E → Bool)
    (total : ∀ a b, lt a b = false → lt b a = false → a = b)
    (c tgt : List (Local E X)) (hlen : tgt.length = c.length)
    (hs : ∀ l ∈ c, WeakSorted id lt l.items) :
    deserializeAll .tree id lt (serializeAll c) tgt = c := by
  unfold deserializeAll serializeAll
  generalize c.length = n
  induction c generalizing tgt with
  | nil => simp
  | cons a as ih =>
    cases tgt with
    | nil => simp at hlen
    | cons t ts =>
      simp only [List.map_cons, List.zipWith_cons_cons, List.cons.injEq]
      refine ⟨?_, ih ts (by simpa using hlen) (fun l hl => hs l (by simp [hl]))⟩
      simp only [deserializeRank, serializeRank, rebuild]
      rw [foldl_insertLB_id lt total a.items [] (by simpa using hs a (by simp))]
      simp

/-- whatever the target held before is irrelevant -/
theorem target_irrelevant (d : Disc) (key : E → K) (lt : K → K → Bool)
    (imgs : List (Image E X)) (t1 t2 : List (Local E X)) (h : t1.length = t2.length) :
    deserializeAll d key lt imgs t1 = deserializeAll d key lt imgs t2 := by
  unfold deserializeAll
  induction imgs generalizing t1 t2 with
  | nil => simp
  | cons a as ih =>
    cases t1 with
    | nil => cases t2 with
      | nil => rfl
      | cons _ _ => simp at h
    | cons x xs => cases t2 with
      | nil => simp at h
      | cons y ys =>
        simp only [List.zipWith_cons_cons, List.cons.injEq]
        exact ⟨rfl, ih xs ys (by simpa using h)⟩

/-- every file records the size of the communicator it was written on; reading on a
communicator of that size raises no warning -/
theorem image_has_size (c : List (Local E X)) :
    ∀ img ∈ serializeAll c, img.commSize = c.length ∧ sizeWarning c.length img = false := by
  intro img h
  simp only [serializeAll, List.mem_map] at h
  obtain ⟨l, _, rfl⟩ := h
  simp [serializeRank, sizeWarning]

/-- one file per rank -/
theorem one_file_per_rank (c : List (Local E X)) : (serializeAll c).length = c.length := by
  simp [serializeAll]

/-! ## the target may have unflushed operations

`deserialize` starts with `barrier()`: operations issued on the TARGET before the call and still
in flight (send buffers, counting_set's count cache) are applied first (`afterBarrier`), and only
then is the rank file loaded over the result. -/

/-- one rank: pending operations on the target do not survive `deserialize` -/
theorem deserialize_discards_pending_rank (d : Disc) (key : E → K) (lt : K → K → Bool) {Op : Type}
    (apply : Local E X → Op → Local E X) (img : Image E X) (old : Local E X) (arr : List Op) :
    deserializeRank d key lt img (afterBarrier apply old arr) = deserializeRank d key lt img old := rfl

/-- all ranks: `target_irrelevant` also covers targets with unflushed operations — whatever
each rank had pending (`arrs`), the reloaded container is the one loaded into a quiescent target -/
theorem deserialize_discards_pending (d : Disc) (key : E → K) (lt : K → K → Bool) {Op : Type}
    (apply : Local E X → Op → Local E X) (imgs : List (Image E X)) (tgt : List (Local E X))
    (arrs : List (List Op)) (h : arrs.length = tgt.length) :
    deserializeAll d key lt imgs (List.zipWith (afterBarrier apply) tgt arrs) =
      deserializeAll d key lt imgs tgt :=
  target_irrelevant d key lt imgs _ _ (by simp [h])

/-! ## file names -/

/-- writer and reader use the same name `fname + to_string(rank)` (one definition, `rankFileName`);
different ranks get different names, for every communicator size (9, 10, 11, 100 … alike) -/
theorem rank_file_names_distinct (fname : Bytes) {a b : Nat}
    (h : rankFileName fname a = rankFileName fname b) : a = b := by
  unfold rankFileName at h
  exact YgmVerif.Out.dec_injective (List.append_cancel_left h)

/-- `serialize` on `n` ranks creates `n` pairwise different files -/
theorem fileNames_nodup (fname : Bytes) (n : Nat) :
    (fileNames fname n).length = n ∧ (fileNames fname n).Nodup := by
  refine ⟨by simp [fileNames], ?_⟩
  unfold fileNames
  rw [List.Nodup, List.pairwise_map]
  exact List.Pairwise.imp (fun h e => h (rank_file_names_distinct fname e)) List.nodup_range

/-! ## reused file prefix

`Files` is what the rank files `fname + r` hold before the call — anything: nothing, images of
an earlier `serialize` of a larger container, images written on more ranks. -/

/-- serialize overwrites EVERY rank's file, whatever was there before and whether or not the
rank owns anything: after the call file `r` holds exactly rank `r`'s image, for every rank -/
theorem serialize_overwrites_every_rank_file (fs : Files E X) (c : List (Local E X)) (r : Nat)
    (h : r < c.length) : writeAll fs c r = some (serializeRank c.length c[r]) := by
  simp [writeAll, h]

/-- … so the rank files after the call do not depend on what the prefix held before -/
theorem serialize_forgets_previous_files (fs fs' : Files E X) (c : List (Local E X)) (r : Nat)
    (h : r < c.length) : writeAll fs c r = writeAll fs' c r := by
  simp [writeAll, h]

/-- files of indices beyond the communicator (a prefix first used on more ranks) are left alone;
no rank of this communicator reads them -/
theorem serialize_leaves_other_files (fs : Files E X) (c : List (Local E X)) (r : Nat)
    (h : c.length ≤ r) : writeAll fs c r = fs r := by
  simp [writeAll, Nat.not_lt.mpr h]

/-- round trip through a reused prefix: every rank finds a file, and what it loads is what it
would load from a fresh prefix — for every previous content `fs` of the prefix, every container
(empty ranks, empty container), every target.  With `roundtrip` / `roundtrip_multi` this is the
container just serialized, never a trace of `fs`. -/
theorem roundtrip_reused_prefix (d : Disc) (key : E → K) (lt : K → K → Bool) (fs : Files E X)
    (c tgt : List (Local E X)) (hlen : tgt.length = c.length) :
    readAll d key lt (writeAll fs c) tgt = (deserializeAll d key lt (serializeAll c) tgt).map some := by
  apply List.ext_getElem
  · simp [readAll, deserializeAll, serializeAll, hlen]
  · intro i h1 h2
    have hi : i < c.length := by simpa [readAll, hlen] using h1
    simp [readAll, deserializeAll, serializeAll, writeAll, hi]

/-- a stale image on every index, a shrunken container whose rank 1 owns nothing: rank 1 reloads nothing -/
example : readAll (E := Nat) (X := Nat) .seq id (fun a b => decide (a < b))
    (writeAll (fun _ => some ⟨[7, 7, 7], 9, 2⟩) [⟨[1], 0⟩, ⟨[], 0⟩]) [⟨[5], 5⟩, ⟨[5], 5⟩] =
    [some ⟨[1], 0⟩, some ⟨[], 0⟩] := by decide

/-! ## the leading barrier: pending operations are in the image

`serialize` calls `barrier()` before anything else; C02 says that when it returns every
operation issued before it (by any rank) has been applied at its destination.  `arr` is the
arrival order at rank `r`: a permutation of the pending operations destined to `r`. -/

/-- nothing pending for `r` is missing from what `r` applied before writing, nothing is
applied twice, nothing foreign is applied -/
theorem includes_pending {Op : Type} [DecidableEq Op] (dest : Op → Nat) (pending arr : List Op) (r : Nat)
    (harr : arr.Perm (pendingFor dest pending r)) :
    (∀ o ∈ pending, dest o = r → o ∈ arr) ∧
    (∀ o, arr.count o = (pendingFor dest pending r).count o) ∧
    (∀ o ∈ arr, dest o = r ∧ o ∈ pending) := by
  refine ⟨?_, fun o => harr.count_eq o, ?_⟩
  · intro o ho hd
    exact harr.mem_iff.mpr (by simp [pendingFor, ho, hd])
  · intro o ho
    have := harr.mem_iff.mp ho
    simp only [pendingFor, List.mem_filter, decide_eq_true_eq] at this
    exact ⟨this.2, this.1⟩

/-- bag (`push_back` handler): the image of rank `r` holds its previous items followed by
the pending items destined to it, each exactly once, in arrival order; the cursor is the
rank's own -/
theorem includes_pending_bag {Op : Type} (dest : Op → Nat) (item : Op → E) (pending arr : List Op)
    (r n : Nat) (c : Local E X) (harr : arr.Perm (pendingFor dest pending r)) :
    let img := serializeRank n
      (afterBarrier (fun (l : Local E X) (o : Op) => { l with items := l.items ++ [item o] }) c arr)
    img.contents = c.items ++ arr.map item ∧
    img.contents.Perm (c.items ++ (pendingFor dest pending r).map item) ∧
    img.extra = c.extra ∧ img.commSize = n := by
  have key : ∀ (arr : List Op) (c : Local E X),
      (afterBarrier (fun (l : Local E X) (o : Op) => { l with items := l.items ++ [item o] }) c arr)
        = ⟨c.items ++ arr.map item, c.extra⟩ := by
    intro arr
    induction arr with
    | nil => intro c; simp [afterBarrier]
    | cons a as ih =>
      intro c
      have := ih ⟨c.items ++ [item a], c.extra⟩
      simp only [afterBarrier, List.foldl_cons] at this ⊢
      rw [this]; simp
  intro img
  have himg : img = ⟨c.items ++ arr.map item, c.extra, n⟩ := by
    simp only [img, serializeRank, key]
  rw [himg]
  exact ⟨rfl, List.Perm.append_left _ (harr.map item), rfl, rfl⟩

/-- set (`insert unless present` handler): after the barrier rank `r` holds exactly its
previous elements and the pending elements destined to it, without duplicates -/
theorem includes_pending_set [DecidableEq E] (key : E → K) (lt : K → K → Bool) (dest : E → Nat)
    (pending arr : List E) (r n : Nat) (c : Local E X) (hc : c.items.Nodup)
    (harr : arr.Perm (pendingFor dest pending r)) :
    let img := serializeRank n (afterBarrier (setInsert key lt) c arr)
    (∀ z, z ∈ img.contents ↔ z ∈ c.items ∨ (z ∈ pending ∧ dest z = r)) ∧ img.contents.Nodup := by
  intro img
  refine ⟨?_, nodup_afterBarrier_set key lt c arr hc⟩
  intro z
  show z ∈ (afterBarrier (setInsert key lt) c arr).items ↔ _
  rw [mem_afterBarrier_set, harr.mem_iff]
  simp [pendingFor]

/-! ### dependent operations: per-issuer order

Operations of ONE rank on one key reach the owner in the order they were issued (per-sender FIFO
delivery, C01): the hypothesis `hfifo` says that the operations on `x` arrive in issue order. -/

/-- whether `x` is in the image is decided by the LAST operation issued on it before serialize -/
theorem includes_pending_in_issue_order [DecidableEq E] (key : E → K) (lt : K → K → Bool) (n : Nat)
    (c : Local E X) (issued arr : List (SetOp E)) (x : E)
    (hfifo : arr.filter (fun o => o.elem = x) = issued.filter (fun o => o.elem = x)) :
    x ∈ (serializeRank n (afterBarrier (applySetOp key lt) c arr)).contents ↔
      survives x (decide (x ∈ c.items)) issued = true := by
  show x ∈ (afterBarrier (applySetOp key lt) c arr).items ↔ _
  rw [mem_after_setops, survives_filter x _ arr, hfifo, ← survives_filter]

/-- `async_insert(x); async_erase(x); serialize`: `x` is not in the image -/
theorem erased_pair_not_in_image [DecidableEq E] (key : E → K) (lt : K → K → Bool) (n : Nat)
    (c : Local E X) (pre post arr : List (SetOp E)) (x : E)
    (hpost : ∀ o ∈ post, o.elem ≠ x)
    (hfifo : arr.filter (fun o => o.elem = x) = (pre ++ [SetOp.ins x, SetOp.del x] ++ post).filter (fun o => o.elem = x)) :
    x ∉ (serializeRank n (afterBarrier (applySetOp key lt) c arr)).contents := by
  rw [includes_pending_in_issue_order key lt n c _ arr x hfifo, survives_filter]
  have hp : post.filter (fun o => o.elem = x) = [] := by
    rw [List.filter_eq_nil_iff]; intro o ho; simpa using hpost o ho
  rw [List.filter_append, List.filter_append, hp, List.append_nil]
  unfold survives
  rw [List.foldl_append]
  simp [SetOp.elem]

/-! ## the order of `std::string` keys satisfies the hypotheses used above -/

theorem bytes_order_laws :
    (∀ a b, bytesLt a b = true → bytesLt b a = false) ∧
    (∀ a b c, bytesLt a b = false → bytesLt b c = false → bytesLt a c = false) ∧
    (∀ a b, bytesLt a b = false → bytesLt b a = false → a = b) :=
  ⟨bytesLt_asymm, bytesLt_negTrans, bytesLt_total⟩

/-! ## non-vacuity / witnesses -/

/-- quote, backslash, NUL, 0x1F, newline, 0x7F, 0x80, 0xFF, '/' -/
example : escape [34, 92, 0, 31, 10, 127, 128, 255, 47] =
    [34, 92, 34, 92, 92, 92, 117, 48, 48, 48, 48, 92, 117, 48, 48, 49, 70, 92, 110, 127, 128, 255, 47, 34] := by decide
example : unescape (escape [34, 92, 0, 31, 10, 127, 128, 255, 47]) = some [34, 92, 0, 31, 10, 127, 128, 255, 47] := by decide
/-- the cereal layer loses everything from the first NUL on: "a\0b" comes back as "a",
so the keys "a\0b" and "a\0c" collide after a reload -/
example : cLoad (escape [97, 0, 98]) = some [97] ∧ cLoad (escape [97, 0, 99]) = some [97] := by decide
/-- the reader also accepts what the writer never produces: `\/`, lower-case hex, a surrogate pair -/
example : unescape [34, 92, 47, 92, 117, 48, 48, 101, 57, 34] = some [47, 195, 169] := by decide
/-- unique keys come back as they were; a run of equal keys comes back reversed -/
example : rebuild (E := Nat × Nat) .tree (·.1) (fun a b => decide (a < b)) [(1, 7), (2, 8), (5, 9)] = [(1, 7), (2, 8), (5, 9)] := by decide
example : rebuild (E := Nat × Nat) .tree (·.1) (fun a b => decide (a < b)) [(1, 1), (1, 2), (2, 9)] = [(1, 2), (1, 1), (2, 9)] := by decide
/-- three ranks, one of them owning nothing, into a pre-populated target -/
example : deserializeAll (E := Nat) (X := Nat) .seq id (fun a b => decide (a < b))
    (serializeAll [⟨[3, 1], 5⟩, ⟨[], 0⟩, ⟨[2], 1⟩]) [⟨[9, 9], 9⟩, ⟨[9], 9⟩, ⟨[], 9⟩] =
    [⟨[3, 1], 5⟩, ⟨[], 0⟩, ⟨[2], 1⟩] := by decide
example : bytesLt [97] [97, 0] = true ∧ bytesLt [97, 255] [98] = true ∧ bytesLt [128] [127] = false := by decide

end YgmVerif.Ser
