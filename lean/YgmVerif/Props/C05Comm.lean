import YgmVerif.Lemmas.BcastComm
/-!
# C05, end to end — async_bcast executes the user function exactly once on every rank, and barrier() accounts for it

Theorems about joint histories of `YgmVerif.Comm` (message movement × multi-epoch count barrier) that obey the
broadcast discipline `YgmVerif.BcastComm.Disc` (Model/BcastComm.lean) for a list `B` of broadcast ids with origins
`origin b`: every message whose uid has a broadcast id in `B` is a leg of `Bcast.bcastLegs N p (origin b)` — the fan-out
`pack_lambda_broadcast` computes —, stage-1 legs are issued by the origin (from its main program, a handler or a
callback), a leg of stage k+1 with source r is issued by r from inside the handler of the stage-k leg r received, and a
returned leg handler has issued all the legs it forwards.  Everything else in the history is arbitrary: any number of
broadcasts from any origins (also several from the same origin, also started from inside handlers), interleaved with
any point-to-point `async`s, sends, receives, forwards, callbacks and barrier traffic of all ranks.

For every layout `N × p` (`origin b < N * p`, hence `N, p > 0`), `n = N * p`, every next-hop function `nh`, every accepted
history `ls` from program start, at the moment the exit rule of `comm::barrier` is enabled for a rank `r` in its barrier
`e` and no rank has completed barrier `e` (the FIRST return of barrier `e`, exactly the hypotheses of
`C02C01_exit_implies_all_executed`):

* `legs_all_issued`                 every leg of every started broadcast has been issued and its handler has returned;
* `bcast_execs_exact`               the handler returns of broadcast b are exactly one per leg, on the leg's destination;
* `bcast_executes_everywhere_once`  MAIN: the ranks on which the user function of b has run are a permutation of
                                     `0 … n-1`: exactly once on every rank of the communicator, nowhere else;
* `bcast_counted_by_barrier`        b's legs are n of the messages counted in Σ m_send_count and n of the handler returns
                                     counted in Σ m_recv_count; per rank: `bcastSentBy` sends, one receive;
* `bcast_ledger_balance`            Σ m_send_count = Σ m_recv_count = n·|B| + the other traffic;
* `stage1_all_or_nothing`           with the program order of the stage-1 loop on the origin (`Stage1Order`): a broadcast of
                                     which ANY leg has been issued is started — no barrier returns while an `async_bcast`
                                     call is half-way;
* `bcast_issued_executes_everywhere_once`  all of the above in one statement, from "the call has begun" (`Begun`);
* `bcast_first_exit_step`           the `exit` label itself is only accepted (as first return) in such a state;
* `bcast_later_exits`               … and the runs stay exactly one per rank for ever after (every later return).
-/
namespace YgmVerif.BcastComm
open YgmVerif
open YgmVerif.Comm (Label St Msg)
open YgmVerif.Bcast (Leg bcastLegs bcastExec)
open YgmVerif.Barrier (sumTo)
open YgmVerif.Deliver (isDone)

/-! ### (1) no broadcast is cut off half-way -/

/-- **every leg is issued and executed.**  When the exit rule of a barrier is enabled (first return of that barrier),
every leg `i < n` of every broadcast `b ∈ B` whose stage-1 legs were issued has been issued — as the message
`legMsg … i = (legUid n b i, destination of leg i, direct)` — and its handler has returned on the leg's destination. -/
theorem legs_all_issued (N p : Nat) (nh : Nat → Nat → Nat) (ls : List Label) (s : St)
    (hrun : Comm.run (N * p) nh Comm.init ls = some s)
    (origin : Nat → Nat) (B : List Nat) (hd : Disc N p origin B ls)
    (r : Nat) (hr : r < N * p) (hx : BarrierME.exitEnabled s.b r = true)
    (hne : ∀ q, q < N * p → s.b.epoch q ≤ s.b.epoch r)
    (b : Nat) (hb : b ∈ B) (hs : Started N p (origin b) b ls) :
    ∀ i, i < N * p →
      legMsg N p (origin b) b i ∈ ls.flatMap Comm.issued ∧
      ((legAt N p (origin b) i).dst, legUid (N * p) b i) ∈ s.d.executed := by
  have hmain := Comm.C02C01_exit_implies_all_executed (N * p) nh ls s hrun r hr hx hne
  have ho := hd.origins b hb
  have hexec : ∀ m ∈ ls.flatMap Comm.issued, (m.2.1, m.1) ∈ s.d.executed :=
    fun m hm => hmain.2.mem_iff.2 (List.mem_map.2 ⟨m, hm, rfl⟩)
  have hrec := run_executed hrun
  -- by induction on the stage: a leg of stage 1 is issued by hypothesis, a leg of stage k+1 by the (returned) handler
  -- of the stage-k leg its source received
  have key : ∀ k i, i < N * p → (legAt N p (origin b) i).stage = k →
      legMsg N p (origin b) b i ∈ ls.flatMap Comm.issued := by
    intro k
    induction k using Nat.strongRecOn with
    | ind k ih =>
      intro i hi hk
      rcases Bcast.bcast_legs_causal N p (origin b) _ (legAt_mem ho hi) with ⟨h1, _⟩ | ⟨g', hg', hdst, hst⟩
      · obtain ⟨m, hm, hmu⟩ := List.mem_map.1 (hs i hi h1)
        have hmu' : m.1 = legUid (N * p) b i := hmu
        have hsh := issued_leg_shape hd.wellIssued hm (b := b) (by rw [hmu', bidOf_legUid hi]) hb
        rw [hmu', idxOf_legUid hi] at hsh
        rw [← hsh]; exact hm
      · obtain ⟨j, hj, rfl⟩ := exists_legAt_of_mem ho hg'
        have hjm := ih _ (by omega) j hj rfl
        have hjx : ((legAt N p (origin b) j).dst, legUid (N * p) b j) ∈ ls.flatMap execRec := by
          rw [← hrec]; exact hexec _ hjm
        have hf := hd.forwards _ hjx (by show bidOf (N * p) (legUid (N * p) b j) ∈ B; rw [bidOf_legUid hj]; exact hb)
        have hf' : ForwardedBy N p (origin b) b (legUid (N * p) b j) ls := by
          have e : bidOf (N * p) (legUid (N * p) b j) = b := bidOf_legUid hj
          simpa only [e] using hf
        have hi' := hf' i hi (by
          show SuccLeg N p (origin b) (idxOf (N * p) (legUid (N * p) b j)) i
          rw [idxOf_legUid hj]; exact ⟨hdst.symm, hst.symm⟩)
        exact mem_issued_of_tagged hi'
  intro i hi
  have h1 := key _ i hi rfl
  exact ⟨h1, hexec _ h1⟩

/-- the issued messages with broadcast id `b` are exactly the `n` legs of `b`, each once -/
theorem issued_legs_perm (N p : Nat) (nh : Nat → Nat → Nat) (ls : List Label) (s : St)
    (hrun : Comm.run (N * p) nh Comm.init ls = some s)
    (origin : Nat → Nat) (B : List Nat) (hd : Disc N p origin B ls)
    (r : Nat) (hr : r < N * p) (hx : BarrierME.exitEnabled s.b r = true)
    (hne : ∀ q, q < N * p → s.b.epoch q ≤ s.b.epoch r)
    (b : Nat) (hb : b ∈ B) (hs : Started N p (origin b) b ls) :
    ((ls.flatMap Comm.issued).filter (fun m => bidOf (N * p) m.1 == b)).Perm
      ((List.range (N * p)).map (legMsg N p (origin b) b)) := by
  have hall := legs_all_issued N p nh ls s hrun origin B hd r hr hx hne b hb hs
  have hn : 0 < N * p := Nat.lt_of_le_of_lt (Nat.zero_le _) (hd.origins b hb)
  have nd1 : ((ls.flatMap Comm.issued).filter (fun m => bidOf (N * p) m.1 == b)).Nodup :=
    (issued_nodup hrun).sublist List.filter_sublist
  have nd2 : ((List.range (N * p)).map (legMsg N p (origin b) b)).Nodup := by
    apply Deliver.nodup_of_nodup_map (fun m : Msg => m.1)
    rw [List.map_map, List.Nodup, List.pairwise_map]
    exact List.nodup_range.imp (fun hne e => hne (legUid_inj e))
  rw [List.perm_ext_iff_of_nodup nd1 nd2]
  intro m
  rw [List.mem_filter, List.mem_map]
  constructor
  · rintro ⟨hm, hbm⟩
    have hbm' : bidOf (N * p) m.1 = b := by simpa using hbm
    exact ⟨idxOf (N * p) m.1, List.mem_range.2 (idxOf_lt hn _), (issued_leg_shape hd.wellIssued hm hbm' hb).symm⟩
  · rintro ⟨i, hi, rfl⟩
    have hi' := List.mem_range.1 hi
    refine ⟨(hall i hi').1, ?_⟩
    show (bidOf (N * p) (legUid (N * p) b i) == b) = true
    rw [bidOf_legUid hi']; simp

/-! ### (2) MAIN -/

/-- the handler returns of broadcast `b` are exactly: leg `i` on the destination of leg `i`, each once -/
theorem bcast_execs_exact (N p : Nat) (nh : Nat → Nat → Nat) (ls : List Label) (s : St)
    (hrun : Comm.run (N * p) nh Comm.init ls = some s)
    (origin : Nat → Nat) (B : List Nat) (hd : Disc N p origin B ls)
    (r : Nat) (hr : r < N * p) (hx : BarrierME.exitEnabled s.b r = true)
    (hne : ∀ q, q < N * p → s.b.epoch q ≤ s.b.epoch r)
    (b : Nat) (hb : b ∈ B) (hs : Started N p (origin b) b ls) :
    (s.d.executed.filter (fun x => bidOf (N * p) x.2 == b)).Perm
      ((List.range (N * p)).map (fun i => ((legAt N p (origin b) i).dst, legUid (N * p) b i))) := by
  have hmain := Comm.C02C01_exit_implies_all_executed (N * p) nh ls s hrun r hr hx hne
  have h1 := hmain.2.filter (fun x => bidOf (N * p) x.2 == b)
  have e : ((ls.flatMap Comm.issued).map (fun m => (m.2.1, m.1))).filter (fun x => bidOf (N * p) x.2 == b)
      = ((ls.flatMap Comm.issued).filter (fun m => bidOf (N * p) m.1 == b)).map (fun m => (m.2.1, m.1)) := by
    rw [List.filter_map]; rfl
  rw [e] at h1
  have h2 := (issued_legs_perm N p nh ls s hrun origin B hd r hr hx hne b hb hs).map (fun m => (m.2.1, m.1))
  rw [List.map_map] at h2
  exact h1.trans h2

/-- **C05, main theorem.**  When barrier() may return (first return of that barrier), for every started broadcast
`b ∈ B` the ranks on which the user function of `b` has run are a permutation of `0 … n-1`: it has run exactly once
(`count = 1`) on every rank `r' < n` of the communicator and on no other rank — for any number of concurrent broadcasts
from any origins, also from inside handlers, concurrently with any point-to-point traffic. -/
theorem bcast_executes_everywhere_once (N p : Nat) (nh : Nat → Nat → Nat) (ls : List Label) (s : St)
    (hrun : Comm.run (N * p) nh Comm.init ls = some s)
    (origin : Nat → Nat) (B : List Nat) (hd : Disc N p origin B ls)
    (r : Nat) (hr : r < N * p) (hx : BarrierME.exitEnabled s.b r = true)
    (hne : ∀ q, q < N * p → s.b.epoch q ≤ s.b.epoch r)
    (b : Nat) (hb : b ∈ B) (hs : Started N p (origin b) b ls) :
    (userRuns (N * p) b s).Perm (List.range (N * p)) ∧
    (∀ r', r' < N * p → (userRuns (N * p) b s).count r' = 1) ∧
    (∀ r', N * p ≤ r' → (userRuns (N * p) b s).count r' = 0) := by
  have ho := hd.origins b hb
  have h1 := (bcast_execs_exact N p nh ls s hrun origin B hd r hr hx hne b hb hs).map (·.1)
  rw [List.map_map] at h1
  have e : (List.range (N * p)).map ((fun x : Nat × Nat => x.1) ∘
      fun i => ((legAt N p (origin b) i).dst, legUid (N * p) b i)) = bcastExec N p (origin b) := by
    rw [← map_legAt_dst ho]; rfl
  rw [e] at h1
  have hperm : (userRuns (N * p) b s).Perm (List.range (N * p)) := h1.trans (Bcast.bcast_exec_perm ho)
  refine ⟨hperm, ?_, ?_⟩
  · intro r' hr'
    rw [hperm.count_eq, List.nodup_range.count, if_pos (List.mem_range.2 hr')]
  · intro r' hr'
    rw [hperm.count_eq, List.nodup_range.count, if_neg]
    intro h; have := List.mem_range.1 h; omega

/-! ### (3) the barrier accounts for the broadcast traffic -/

/-- at the first return of a barrier every message has been executed -/
theorem all_done_at_exit (n : Nat) (nh : Nat → Nat → Nat) (ls : List Label) (s : St)
    (hrun : Comm.run n nh Comm.init ls = some s) (r : Nat) (hr : r < n)
    (hx : BarrierME.exitEnabled s.b r = true) (hne : ∀ q, q < n → s.b.epoch q ≤ s.b.epoch r) :
    ∀ e ∈ s.d.es, isDone e = true := by
  have hq := (Comm.C02C01_exit_implies_all_executed n nh ls s hrun r hr hx hne).1
  intro e he
  have := (List.all_eq_true.1 hq) e he
  unfold isDone
  cases hl : e.loc <;> simp [hl] at this ⊢

/-- **the legs of a broadcast in the barrier's ledger.**  At the first return of a barrier, for a started broadcast `b`:
exactly `n` of the entries counted by Σ m_send_count (`C02C01_link`: Σ sent = number of entries) are legs of `b`;
exactly `n` of the handler returns counted by Σ m_recv_count (Σ recvd = number of `done` entries) are legs of `b`;
per rank: rank `r'` issued `bcastSentBy … r'` legs (`m_send_count++` in `queue_message_bytes`) and the user function
ran `bcastRecvBy … r' = 1` times on it (`m_recv_count++` after the handler). -/
theorem bcast_counted_by_barrier (N p : Nat) (nh : Nat → Nat → Nat) (ls : List Label) (s : St)
    (hrun : Comm.run (N * p) nh Comm.init ls = some s)
    (origin : Nat → Nat) (B : List Nat) (hd : Disc N p origin B ls)
    (r : Nat) (hr : r < N * p) (hx : BarrierME.exitEnabled s.b r = true)
    (hne : ∀ q, q < N * p → s.b.epoch q ≤ s.b.epoch r)
    (b : Nat) (hb : b ∈ B) (hs : Started N p (origin b) b ls) :
    s.d.es.countP (isLegOf (N * p) b) = N * p ∧
    s.d.es.countP (fun e => isLegOf (N * p) b e && isDone e) = N * p ∧
    (∀ r', legsIssuedBy (N * p) b r' ls = Bcast.bcastSentBy N p (origin b) r') ∧
    (∀ r', r' < N * p → (userRuns (N * p) b s).count r' = Bcast.bcastRecvBy N p (origin b) r' ∧
      Bcast.bcastRecvBy N p (origin b) r' = 1) := by
  have ho := hd.origins b hb
  have hperm := issued_legs_perm N p nh ls s hrun origin B hd r hr hx hne b hb hs
  have hkeys := Comm.C02C01_entries_are_the_asyncs (N * p) nh ls s hrun
  have hcnt : s.d.es.countP (isLegOf (N * p) b) = N * p := by
    have e1 : s.d.es.countP (isLegOf (N * p) b)
        = (s.d.es.map Deliver.key).countP (fun m => bidOf (N * p) m.1 == b) := by
      rw [List.countP_map]; rfl
    rw [e1, hkeys, List.countP_eq_length_filter, hperm.length_eq, List.length_map, List.length_range]
  refine ⟨hcnt, ?_, ?_, ?_⟩
  · have hdone := all_done_at_exit (N * p) nh ls s hrun r hr hx hne
    refine Eq.trans ?_ hcnt
    apply List.countP_congr
    intro e he
    rw [hdone e he]; simp
  · intro r'
    unfold legsIssuedBy
    -- the issuer of a leg is the leg's source
    have e1 : (tagged ls).countP (fun t => bidOf (N * p) t.uid == b && t.rank == r')
        = (tagged ls).countP (fun t => bidOf (N * p) t.uid == b &&
            (legAt N p (origin b) (idxOf (N * p) t.uid)).src == r') := by
      apply List.countP_congr
      intro t ht
      cases hbt : (bidOf (N * p) t.uid == b) with
      | false => simp
      | true =>
        have hbt' : bidOf (N * p) t.uid = b := by simpa using hbt
        rw [tagged_leg_rank hd.wellIssued ht hbt' hb]
    have e2 : (tagged ls).countP (fun t => bidOf (N * p) t.uid == b &&
            (legAt N p (origin b) (idxOf (N * p) t.uid)).src == r')
        = ((tagged ls).map Issue.msg).countP (fun m => bidOf (N * p) m.1 == b &&
            (legAt N p (origin b) (idxOf (N * p) m.1)).src == r') := by
      rw [List.countP_map]; rfl
    have e3 : (ls.flatMap Comm.issued).countP (fun m => bidOf (N * p) m.1 == b &&
            (legAt N p (origin b) (idxOf (N * p) m.1)).src == r')
        = ((ls.flatMap Comm.issued).filter (fun m => bidOf (N * p) m.1 == b)).countP
            (fun m => (legAt N p (origin b) (idxOf (N * p) m.1)).src == r') := by
      rw [List.countP_filter]
      apply List.countP_congr
      intro m _; rw [Bool.and_comm]
    rw [e1, e2, tagged_msgs, e3, hperm.countP_eq, List.countP_map]
    have e4 : (List.range (N * p)).countP
          ((fun m : Msg => (legAt N p (origin b) (idxOf (N * p) m.1)).src == r') ∘ legMsg N p (origin b) b)
        = (List.range (N * p)).countP (fun i => (legAt N p (origin b) i).src == r') := by
      apply List.countP_congr
      intro i hi
      show ((legAt N p (origin b) (idxOf (N * p) (legUid (N * p) b i))).src == r') = true ↔ _
      rw [idxOf_legUid (List.mem_range.1 hi)]
    rw [e4]
    unfold Bcast.bcastSentBy
    rw [← map_legAt ho Leg.src, List.count_eq_countP, List.countP_map]
    rfl
  · intro r' hr'
    have h2 := (bcast_executes_everywhere_once N p nh ls s hrun origin B hd r hr hx hne b hb hs).2.1 r' hr'
    have h3 := (Bcast.bcast_legs_counted ho).2.2 r' hr'
    exact ⟨by rw [h2, h3], h3⟩

/-- **ledger balance.**  At the first return of a barrier, with all the (pairwise different) broadcasts of `B` started:
the global counts the barrier reduces are equal, and each of them is `n` per broadcast plus the rest of the traffic
(the messages that are not legs of a broadcast of `B`) — the broadcast traffic is fully accounted for. -/
theorem bcast_ledger_balance (N p : Nat) (nh : Nat → Nat → Nat) (ls : List Label) (s : St)
    (hrun : Comm.run (N * p) nh Comm.init ls = some s)
    (origin : Nat → Nat) (B : List Nat) (hd : Disc N p origin B ls) (hB : B.Nodup)
    (r : Nat) (hr : r < N * p) (hx : BarrierME.exitEnabled s.b r = true)
    (hne : ∀ q, q < N * p → s.b.epoch q ≤ s.b.epoch r)
    (hs : ∀ b ∈ B, Started N p (origin b) b ls) :
    s.d.es.countP (isBcastLeg (N * p) B) = N * p * B.length ∧
    sumTo (N * p) s.b.sent = N * p * B.length + s.d.es.countP (fun e => !isBcastLeg (N * p) B e) ∧
    sumTo (N * p) s.b.recvd = N * p * B.length + s.d.es.countP (fun e => !isBcastLeg (N * p) B e) ∧
    sumTo (N * p) s.b.sent = sumTo (N * p) s.b.recvd := by
  have hlink := Comm.C02C01_link (N * p) nh ls s hrun
  have hdone := all_done_at_exit (N * p) nh ls s hrun r hr hx hne
  have hB' : s.d.es.countP (isBcastLeg (N * p) B) = N * p * B.length := by
    unfold isBcastLeg
    apply countP_contains (fun e : Deliver.Entry => bidOf (N * p) e.uid) s.d.es (N * p) B hB
    intro b hb
    exact (bcast_counted_by_barrier N p nh ls s hrun origin B hd r hr hx hne b hb (hs b hb)).1
  have hpart := countP_add_countP_not (isBcastLeg (N * p) B) s.d.es
  have hsent := hlink.2.2.1
  have hrecvd := hlink.2.2.2.1
  have hall : s.d.es.countP isDone = s.d.es.length := List.countP_eq_length.2 hdone
  refine ⟨hB', ?_, ?_, ?_⟩ <;> omega

/-! ### (1') the stage-1 loop too: a broadcast that has BEGUN is complete -/

/-- **no barrier returns while an `async_bcast` call is half-way through its stage-1 loop.**  Under the program order
of `pack_lambda_broadcast` on the origin (`Stage1Order`: while the loop is half-way the origin neither starts / finishes
a handler nor enters / leaves a barrier), when the exit rule of a barrier is enabled (first return of that barrier), a
broadcast of which ANY stage-1 leg has been issued has ALL its stage-1 legs issued: the origin would still be outside
the barrier (call from the main program) or inside a handler (call from a handler), and the exit rule needs every rank
inside the barrier with no handler running (`C02ME_exit_implies_quiescent`). -/
theorem stage1_all_or_nothing (N p : Nat) (nh : Nat → Nat → Nat) (ls : List Label) (s : St)
    (hrun : Comm.run (N * p) nh Comm.init ls = some s)
    (o b : Nat) (ho : o < N * p) (hpo : Stage1Order N p o b ls)
    (r : Nat) (hr : r < N * p) (hx : BarrierME.exitEnabled s.b r = true)
    (hne : ∀ q, q < N * p → s.b.epoch q ≤ s.b.epoch r)
    (hbegun : Begun N p o b ls) : Started N p o b ls := by
  apply Decidable.by_contra
  intro hns
  have hq := BarrierME.C02ME_exit_implies_quiescent (N * p) s.b _ (Comm.run_projB ls hrun) r hr hx _ rfl hne
  have hinv := open_inv (N := N) (p := p) (o := o) (b := b) ls [] Comm.init s hrun hpo
    (fun hop => absurd hop.1 (not_begun_nil N p o b))
  rw [List.nil_append] at hinv
  obtain ⟨_, h2, h3, _⟩ := hq.2 o ho
  rcases hinv ⟨hbegun, hns⟩ with h | h
  · rw [h2] at h; cases h
  · rw [h3] at h; cases h

/-- **C05, end to end, in one statement.**  Every accepted history from program start obeying the broadcast discipline
and the program order of the stage-1 loop, at the first return of any barrier: every broadcast `b ∈ B` whose
`async_bcast` call has begun (any stage-1 leg issued) has ALL its `n` legs issued and executed, and its user function has
run exactly once on every rank `r' < n` and on no other rank. -/
theorem bcast_issued_executes_everywhere_once (N p : Nat) (nh : Nat → Nat → Nat) (ls : List Label) (s : St)
    (hrun : Comm.run (N * p) nh Comm.init ls = some s)
    (origin : Nat → Nat) (B : List Nat) (hd : Disc N p origin B ls)
    (hpo : ∀ b ∈ B, Stage1Order N p (origin b) b ls)
    (r : Nat) (hr : r < N * p) (hx : BarrierME.exitEnabled s.b r = true)
    (hne : ∀ q, q < N * p → s.b.epoch q ≤ s.b.epoch r)
    (b : Nat) (hb : b ∈ B) (hbegun : Begun N p (origin b) b ls) :
    (∀ i, i < N * p → legMsg N p (origin b) b i ∈ ls.flatMap Comm.issued ∧
      ((legAt N p (origin b) i).dst, legUid (N * p) b i) ∈ s.d.executed) ∧
    (userRuns (N * p) b s).Perm (List.range (N * p)) ∧
    (∀ r', r' < N * p → (userRuns (N * p) b s).count r' = 1) ∧
    (∀ r', N * p ≤ r' → (userRuns (N * p) b s).count r' = 0) := by
  have hs := stage1_all_or_nothing N p nh ls s hrun (origin b) b (hd.origins b hb) (hpo b hb) r hr hx hne hbegun
  exact ⟨legs_all_issued N p nh ls s hrun origin B hd r hr hx hne b hb hs,
    bcast_executes_everywhere_once N p nh ls s hrun origin B hd r hr hx hne b hb hs⟩

/-- the same at the `exit` label itself: barrier() can only return (as the first return of its barrier) when every
begun broadcast has run its user function exactly once on every rank -/
theorem bcast_first_exit_step (N p : Nat) (nh : Nat → Nat → Nat) (ls : List Label) (s s' : St)
    (hrun : Comm.run (N * p) nh Comm.init ls = some s)
    (origin : Nat → Nat) (B : List Nat) (hd : Disc N p origin B ls)
    (hpo : ∀ b ∈ B, Stage1Order N p (origin b) b ls)
    (r : Nat) (hne : ∀ q, q < N * p → s.b.epoch q ≤ s.b.epoch r)
    (hstep : Comm.step (N * p) nh s (.exit r) = some s')
    (b : Nat) (hb : b ∈ B) (hbegun : Begun N p (origin b) b ls) :
    (userRuns (N * p) b s).Perm (List.range (N * p)) := by
  have hB := (Comm.step_some hstep).2.2.1
  simp only [Comm.projB, Comm.bRun_single, BarrierME.step] at hB
  split at hB
  · rename_i hc
    have hx : BarrierME.exitEnabled s.b r = true := by
      rw [BarrierME.exitEnabled_iff]; exact ⟨hc.2.1, hc.2.2.1, hc.2.2.2.1, hc.2.2.2.2⟩
    exact (bcast_issued_executes_everywhere_once N p nh ls s hrun origin B hd hpo r hc.1 hx hne b hb hbegun).2.1
  · cases hB

/-- **every later return of the same barrier, and everything after it**: once the first rank may leave the barrier
(state `s1`, history `ls1`), whatever happens afterwards (`ls2`: other ranks leave, new messages and new broadcasts are
issued, the next barrier starts, …), the user function of a broadcast `b` started before never runs again: its runs stay
exactly one per rank.  So the guarantee holds when barrier() returns on ANY rank, not only on the first one. -/
theorem bcast_later_exits (N p : Nat) (nh : Nat → Nat → Nat) (ls1 ls2 : List Label) (s1 s2 : St)
    (h1 : Comm.run (N * p) nh Comm.init ls1 = some s1) (h2 : Comm.run (N * p) nh s1 ls2 = some s2)
    (origin : Nat → Nat) (B : List Nat) (hd : Disc N p origin B ls1)
    (r : Nat) (hr : r < N * p) (hx : BarrierME.exitEnabled s1.b r = true)
    (hne : ∀ q, q < N * p → s1.b.epoch q ≤ s1.b.epoch r)
    (b : Nat) (hb : b ∈ B) (hs : Started N p (origin b) b ls1) :
    userRuns (N * p) b s2 = userRuns (N * p) b s1 ∧ (userRuns (N * p) b s2).Perm (List.range (N * p)) := by
  have hn : 0 < N * p := Nat.lt_of_le_of_lt (Nat.zero_le _) (hd.origins b hb)
  have hex := run_executed_from ls2 h2
  have hnd := Deliver.C01_at_most_once (N * p) nh _ s2.d (Comm.run_projD _ (Comm.run_append ls1 ls2 h1 h2))
  have hall := legs_all_issued N p nh ls1 s1 h1 origin B hd r hr hx hne b hb hs
  have hempty : (ls2.flatMap execRec).filter (fun x => bidOf (N * p) x.2 == b) = [] := by
    rw [List.filter_eq_nil_iff]
    intro x hxm hbx
    have hbx' : bidOf (N * p) x.2 = b := by simpa using hbx
    have h := (hall _ (idxOf_lt hn x.2)).2
    have e : legUid (N * p) b (idxOf (N * p) x.2) = x.2 := by rw [← hbx']; exact legUid_bid_idx (N * p) x.2
    rw [e] at h
    rw [hex, List.map_append, List.nodup_append] at hnd
    exact hnd.2.2 x.2 (List.mem_map.2 ⟨_, h, rfl⟩) x.2 (List.mem_map.2 ⟨x, hxm, rfl⟩) rfl
  have heq : userRuns (N * p) b s2 = userRuns (N * p) b s1 := by
    unfold userRuns; rw [hex, List.filter_append, hempty, List.append_nil]
  refine ⟨heq, ?_⟩
  rw [heq]
  exact (bcast_executes_everywhere_once N p nh ls1 s1 h1 origin B hd r hr hx hne b hb hs).1

/-! ### (4) non-vacuity -/

/-- 2 nodes x 2 ranks, "NR-like" routing for point-to-point messages: rank 0 reaches rank 3 via rank 2 -/
private def nhDemo (me d : Nat) : Nat := if me / 2 = d / 2 then d else (d / 2) * 2 + me % 2

private def round4 : List Label :=
  [.contribute 0, .contribute 1, .contribute 2, .contribute 3, .result 0, .result 1, .result 2, .result 3]

/-- the legs of a broadcast from rank 1 on 2 x 2: two stage-1 legs (one a self-send), rank 1 forwards to rank 3 on the
other node, rank 3 forwards to its node-mate rank 2; with broadcast id 1 their uids are 4, 5, 6, 7 -/
example : bcastLegs 2 2 1 = [(1, 0, 1), (1, 1, 1), (1, 3, 2), (3, 2, 3)] ∧
    (List.range 4).map (legMsg 2 2 1 1) = [(4, 0, true), (5, 1, true), (6, 3, true), (7, 2, true)] := by decide

/-- rank 0 issues a point-to-point message (uid 0) to rank 3, concurrently rank 1 calls async_bcast (broadcast 1: uids
4, 5); everybody enters the barrier; the point-to-point message is forwarded by rank 2; leg 4 executes on rank 0 -/
private def demoA1 : List Label :=
  [.async 0 0 3 false, .async 1 4 0 true, .async 1 5 1 true,
   .enter 0, .enter 1, .enter 2, .enter 3,
   .isend 0 2, .recvBegin 2 0 0, .fwd 2 0, .recvEnd 2, .isend 2 3,
   .isend 1 0, .recvBegin 0 1 0, .execBegin 0 4, .execEnd 0 4, .recvEnd 0]

/-- rank 1 receives its own leg 5 and forwards leg 6 to rank 3 from INSIDE the handler; the point-to-point message
executes on rank 3; rank 3 runs leg 6 and forwards leg 7 to rank 2 from inside that handler; leg 7 executes -/
private def demoA2 : List Label :=
  [.isend 1 1, .recvBegin 1 1 1, .execBegin 1 5, .async 1 6 3 true, .execEnd 1 5, .recvEnd 1,
   .recvBegin 3 2 0, .execBegin 3 0, .execEnd 3 0, .recvEnd 3,
   .isend 1 3, .recvBegin 3 1 2, .execBegin 3 6, .async 3 7 2 true, .execEnd 3 6, .recvEnd 3,
   .isend 3 2, .recvBegin 2 3 0, .execBegin 2 7, .execEnd 2 7, .recvEnd 2]

/-- a reduction round in the middle (it sees 1 received / 3 sent), two more after everything has executed -/
private def demoA : List Label := demoA1 ++ round4 ++ demoA2 ++ round4 ++ round4

set_option maxRecDepth 65536 in
/-- the history is accepted; at its end the exit rule holds, `exit` is accepted, and the user function of broadcast 1 has
run on ranks 0, 1, 3, 2 (once each) -/
example : ((Comm.run 4 nhDemo Comm.init demoA).map (fun s =>
    (s.d.executed, userRuns 4 1 s, BarrierME.exitEnabled s.b 0, s.b.cur 0, (Comm.step 4 nhDemo s (.exit 0)).isSome))) =
    some ([(0, 4), (1, 5), (3, 0), (3, 6), (2, 7)], [0, 1, 3, 2], true, (5, 5), true) := by decide

set_option maxRecDepth 65536 in
/-- the hypotheses of the theorems are satisfiable: the history obeys the discipline and the program order, the
broadcast has begun and is started -/
example : Disc 2 2 (fun _ => 1) [1] demoA ∧ Stage1Order 2 2 1 1 demoA ∧ Begun 2 2 1 1 demoA ∧ Started 2 2 1 1 demoA := by
  decide

/-- who issued what from which context: the stage-1 legs from rank 1's main program, leg 6 from inside the handler of
leg 5 on rank 1, leg 7 from inside the handler of leg 6 on rank 3 -/
example : tagged demoA = [(0, none, 0, 3, false), (1, none, 4, 0, true), (1, none, 5, 1, true),
    (1, some 5, 6, 3, true), (3, some 6, 7, 2, true)] := by decide

set_option maxRecDepth 65536 in
/-- half-way (only leg 4 has executed, leg 5 is still in rank 1's send buffer, legs 6 and 7 do not exist yet): the
reduction round saw 1 received / 3 sent, nobody may leave and `exit` is refused -/
example : ((Comm.run 4 nhDemo Comm.init (demoA1 ++ round4)).map (fun s =>
    (userRuns 4 1 s, s.b.cur 0, BarrierME.exitEnabled s.b 0, (Comm.step 4 nhDemo s (.exit 0)).isNone))) =
    some ([0], (1, 3), false, true) := by decide

/-- the discipline is not vacuous: a history in which rank 1's handler of leg 5 returns WITHOUT forwarding to rank 3
violates `Forwards`; one in which leg 6 is issued outside the handler of leg 5 violates `WellIssued` -/
example : ¬ Forwards 2 2 (fun _ => 1) [1]
    [.async 1 4 0 true, .async 1 5 1 true, .isend 1 1, .recvBegin 1 1 0, .execBegin 1 5, .execEnd 1 5] := by decide

example : ¬ WellIssued 2 2 (fun _ => 1) [1]
    [.async 1 4 0 true, .async 1 5 1 true, .async 1 6 3 true] := by decide

/-- … a leg sent to the wrong rank violates `WellIssued` as well -/
example : ¬ WellIssued 2 2 (fun _ => 1) [1] [.async 1 4 2 true] := by decide

/-- the program order is not vacuous: the origin entering the barrier between its two stage-1 legs violates it (and the
joint model refuses the second `async`: inside a barrier, outside a handler) -/
example : ¬ Stage1Order 2 2 1 1 [.async 1 4 0 true, .enter 1, .async 1 5 1 true] ∧
    (Comm.run 4 nhDemo Comm.init [.async 1 4 0 true, .enter 1, .async 1 5 1 true]).isNone = true := by decide

private def round2 : List Label := [.contribute 0, .contribute 1, .result 0, .result 1]

/-- 1 node x 2 ranks, TWO concurrent broadcasts from different origins: broadcast 1 (uids 2, 3) from rank 0's main
program — rank 1 enters the barrier while rank 0 is half-way through its stage-1 loop —, broadcast 2 (uids 4, 5) started
by rank 1 from INSIDE the handler of a point-to-point message (uid 0), inside the barrier -/
private def demoB : List Label :=
  [.async 0 0 1 false, .async 0 2 0 true, .enter 1, .async 0 3 1 true, .enter 0,
   .isend 0 1, .recvBegin 1 0 0, .execBegin 1 0, .async 1 4 0 true, .async 1 5 1 true, .execEnd 1 0,
   .execBegin 1 3, .execEnd 1 3, .recvEnd 1,
   .isend 0 0, .isend 1 0, .recvBegin 0 1 0, .execBegin 0 4, .execEnd 0 4, .recvEnd 0,
   .recvBegin 0 0 1, .execBegin 0 2, .execEnd 0 2, .recvEnd 0,
   .isend 1 1, .recvBegin 1 1 1, .execBegin 1 5, .execEnd 1 5, .recvEnd 1] ++ round2 ++ round2

set_option maxRecDepth 65536 in
example : ((Comm.run 2 (fun _ d => d) Comm.init demoB).map (fun s =>
    (s.d.executed, userRuns 2 1 s, userRuns 2 2 s, BarrierME.exitEnabled s.b 0, s.b.cur 0))) =
    some ([(1, 0), (1, 3), (0, 4), (0, 2), (1, 5)], [1, 0], [0, 1], true, (5, 5)) := by decide

set_option maxRecDepth 65536 in
example : Disc 1 2 (fun b => b - 1) [1, 2] demoB ∧
    Stage1Order 1 2 0 1 demoB ∧ Stage1Order 1 2 1 2 demoB ∧ Begun 1 2 0 1 demoB ∧ Begun 1 2 1 2 demoB := by decide

end YgmVerif.BcastComm
