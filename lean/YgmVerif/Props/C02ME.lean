import YgmVerif.Lemmas.BarrierME
/-!
# C02, multi-epoch — every barrier() of a multi-barrier program returns only after global quiescence

The theorems are about the executable `YgmVerif.BarrierME.step` (the function the driver's `barrierme` mode replays
whole multi-barrier event histories through), started from the ONE fixed initial state `init` (program start).
Barrier epochs overlap in time (a rank may already contribute the first reduction round of barrier e+1 while
another has not yet consumed the last result of barrier e) and all reduction rounds form one global sequence.

What is proved, for every number of ranks and every accepted label sequence (no assumption on how epochs interleave):
the first rank that may leave barrier e sees a globally quiescent system in which EVERY rank is inside barrier e —
in particular all ranks of an epoch agree on its first and last reduction round (`C02ME_same_boundary`), which the
single-epoch development (Props/C02.lean) had to check at run time.
-/
namespace YgmVerif.BarrierME
open YgmVerif.Barrier (sumTo upd b2n)

/-- every enabled step of the executable model is a step of the relation the invariant is proved for -/
theorem step_sound {n : Nat} {s s' : Sys} {l : Label} (h : step n s l = some s') : Step n s s' := by
  cases l with
  | issue r =>
    simp only [step] at h; split at h
    · rename_i hc; cases h; exact Step.issue s r hc.1 hc.2
    · cases h
  | start r =>
    simp only [step] at h; split at h
    · rename_i hc; cases h; exact Step.start s r hc.1 hc.2.1 hc.2.2
    · cases h
  | finish r =>
    simp only [step] at h; split at h
    · rename_i hc; cases h; exact Step.finish s r hc.1 hc.2
    · cases h
  | regcb r =>
    simp only [step] at h; split at h
    · rename_i hc; cases h; exact Step.regcb s r hc.1 hc.2
    · cases h
  | runcb r k j =>
    simp only [step] at h; split at h
    · rename_i hc; cases h; exact Step.runcb s r k j hc.1 hc.2.1 hc.2.2
    · cases h
  | enter r =>
    simp only [step] at h; split at h
    · rename_i hc; cases h; exact Step.enter s r hc.1 hc.2.1 hc.2.2
    · cases h
  | contribute r =>
    simp only [step] at h; split at h
    · rename_i hc; cases h
      exact Step.contribute s r hc.1 hc.2.1 hc.2.2.1 hc.2.2.2.1 hc.2.2.2.2.1 hc.2.2.2.2.2
    · cases h
  | result r =>
    simp only [step] at h; split at h
    · rename_i hc; cases h; exact Step.result s r hc.1 hc.2.1 hc.2.2.1 hc.2.2.2
    · cases h
  | exit r =>
    simp only [step] at h; split at h
    · rename_i hc; cases h; exact Step.exit s r hc.1 hc.2.1 hc.2.2.1 hc.2.2.2.1 hc.2.2.2.2
    · cases h

/-- every state reached by an accepted label sequence from a reachable state is `Reachable` -/
theorem run_reachable {n : Nat} {s0 s : Sys} (ls : List Label) (h0 : Reachable n s0)
    (hrun : run n s0 ls = some s) : Reachable n s := by
  induction ls generalizing s0 with
  | nil => simp only [run] at hrun; cases hrun; exact h0
  | cons l ls ih =>
    simp only [run] at hrun
    cases hst : step n s0 l with
    | none => rw [hst] at hrun; cases hrun
    | some s1 =>
      rw [hst] at hrun
      exact ih (Reachable.step s0 s1 h0 (step_sound hst)) hrun

/-- the 22-clause invariant holds in every state of every accepted history -/
theorem run_inv {n : Nat} {s : Sys} (ls : List Label) (hrun : run n init ls = some s) : Inv n s :=
  reachable_inv (run_reachable ls Reachable.init hrun)

theorem exitEnabled_iff (s : Sys) (r : Nat) : exitEnabled s r = true ↔ ExitEnabled s r := by
  unfold exitEnabled ExitEnabled
  simp [Bool.and_eq_true, beq_iff_eq, and_assoc]

/-- **C02 multi-epoch, main theorem.**  For every number of ranks and every label sequence accepted by `step` from
program start (every interleaving of issue / handler start / handler finish / callback registration / callback
run / barrier entry / count contribution / result consumption / barrier return of all ranks, over any number of
overlapping barrier epochs): if the exit rule is enabled for rank `r`, which is in its barrier number `e`, and no rank
has completed barrier `e` yet, then no message is undelivered and every rank is inside barrier `e` (same epoch), runs
no handler and has no pending pre-barrier callback. -/
theorem C02ME_exit_implies_quiescent (n : Nat) (s : Sys) (ls : List Label)
    (hrun : run n init ls = some s) (r : Nat) (hr : r < n) (hx : exitEnabled s r = true)
    (e : Nat) (he : e = s.epoch r) (hne : ∀ q, q < n → s.epoch q ≤ e) :
    s.und = 0 ∧ ∀ q, q < n → s.epoch q = e ∧ s.inBar q = true ∧ s.busy q = false ∧ s.cbs q = 0 := by
  subst he
  have hd := exit_dead (run_inv ls hrun) r hr ((exitEnabled_iff s r).1 hx) hne
  exact ⟨hd.1, fun q hq => ⟨(hd.2 q hq).2.2.2, (hd.2 q hq).2.2.1, (hd.2 q hq).1, (hd.2 q hq).2.1⟩⟩

/-- the `exit` label itself is only ever accepted in such a quiescent state (first return of barrier e) -/
theorem C02ME_first_exit_step_quiescent (n : Nat) (s s' : Sys) (ls : List Label) (r : Nat)
    (hrun : run n init ls = some s) (hne : ∀ q, q < n → s.epoch q ≤ s.epoch r)
    (hstep : step n s (.exit r) = some s') :
    s.und = 0 ∧ ∀ q, q < n → s.epoch q = s.epoch r ∧ s.inBar q = true ∧ s.busy q = false ∧ s.cbs q = 0 := by
  simp only [step] at hstep
  split at hstep
  · rename_i hc
    refine C02ME_exit_implies_quiescent n s ls hrun r hc.1 ?_ _ rfl hne
    rw [exitEnabled_iff]; exact ⟨hc.2.1, hc.2.2.1, hc.2.2.2.1, hc.2.2.2.2⟩
  · cases hstep

/-- contrapositive, the form the property is usually quoted in: while anything is still in flight, a handler runs, a
callback is pending, or some rank has not entered barrier e (it is outside a barrier or still in an earlier one),
no rank can be the first to leave barrier e. -/
theorem C02ME_no_exit_while_active (n : Nat) (s : Sys) (ls : List Label)
    (hrun : run n init ls = some s) (r : Nat) (hr : r < n) (hne : ∀ q, q < n → s.epoch q ≤ s.epoch r)
    (hact : 0 < s.und ∨ ∃ q, q < n ∧ (s.epoch q < s.epoch r ∨ s.inBar q = false ∨ s.busy q = true ∨ 0 < s.cbs q)) :
    exitEnabled s r = false := by
  cases hx : exitEnabled s r with
  | false => rfl
  | true =>
    have h := C02ME_exit_implies_quiescent n s ls hrun r hr hx _ rfl hne
    rcases hact with hu | ⟨q, hq, hq'⟩
    · omega
    · have := h.2 q hq
      rcases hq' with h1 | h1 | h1 | h1
      · omega
      · rw [this.2.1] at h1; cases h1
      · rw [this.2.2.1] at h1; cases h1
      · omega

/-- quiescence persists: in a quiescent all-in-barrier state the only enabled labels are contribute / result / exit,
so work issued before the barrier can never run after the first return (no `start`, `finish`, `runcb`, `issue`,
`regcb` — and no `enter` — is enabled). -/
theorem C02ME_dead_no_work (n : Nat) (s : Sys) (e : Nat)
    (hd : s.und = 0 ∧ ∀ q, q < n → s.epoch q = e ∧ s.inBar q = true ∧ s.busy q = false ∧ s.cbs q = 0)
    (r k j : Nat) :
    step n s (.start r) = none ∧ step n s (.finish r) = none ∧ step n s (.runcb r k j) = none ∧
    step n s (.issue r) = none ∧ step n s (.regcb r) = none ∧ step n s (.enter r) = none := by
  refine ⟨?_, ?_, ?_, ?_, ?_, ?_⟩ <;> simp only [step] <;> split <;> try rfl
  all_goals rename_i hc
  · omega
  · have := (hd.2 r hc.1).2.2.1; rw [hc.2] at this; cases this
  · have := (hd.2 r hc.1).2.2.2; omega
  · have := hd.2 r hc.1
    rcases hc.2 with h | h
    · rw [this.2.1] at h; cases h
    · rw [this.2.2.1] at h; cases h
  · have := hd.2 r hc.1
    rcases hc.2 with h | h
    · rw [this.2.1] at h; cases h
    · rw [this.2.2.1] at h; cases h
  · have := (hd.2 r hc.1).2.1; rw [hc.2.1] at this; cases this

theorem spread_reachable {n : Nat} {s : Sys} (h : Reachable n s) :
    ∀ q q', q < n → q' < n → s.epoch q ≤ s.epoch q' + 1 := by
  induction h with
  | init => intro q q' _ _; exact Nat.le_succ _
  | step s s' hreach st ih =>
    have hinv := reachable_inv hreach
    cases st with
    | issue r hr h => exact ih
    | start r hr hu hb => exact ih
    | finish r hr hb => exact ih
    | regcb r hr h => exact ih
    | runcb r k j hr hc hb => exact ih
    | enter r hr hi' hb => exact ih
    | contribute r hr hi' hb hc hg hx => exact ih
    | result r hr hi' hg hc => exact ih
    | exit r hr hi' hg h1 h2 =>
      intro q q' hq hq'
      have hxe : ExitEnabled s r := ⟨hi', hg, h1, h2⟩
      show upd s.epoch r (s.epoch r + 1) q ≤ upd s.epoch r (s.epoch r + 1) q' + 1
      have key : ∀ x, x < n → s.epoch x ≤ s.epoch r + 1 ∧ s.epoch r ≤ s.epoch x := by
        by_cases hall : ∀ x, x < n → s.epoch x ≤ s.epoch r
        · have hd := exit_dead hinv r hr hxe hall
          intro x hx
          have := (hd.2 x hx).2.2.2
          omega
        · -- somebody is already ahead of r: r only catches up
          have hex : ∃ x, x < n ∧ s.epoch r < s.epoch x := by
            apply Classical.byContradiction
            intro hno
            exact hall (fun x hx => Nat.le_of_not_lt (fun h => hno ⟨x, hx, h⟩))
          obtain ⟨y, hy, hlt⟩ := hex
          intro x hx
          have a1 := ih x r hx hr
          have a2 := ih y x hy hx
          omega
      have kq := key q hq
      have kq' := key q' hq'
      by_cases a : q = r <;> by_cases b : q' = r
      · subst a; subst b; omega
      · subst a; rw [Barrier.upd_same, Barrier.upd_other _ _ _ _ b]; omega
      · subst b; rw [Barrier.upd_same, Barrier.upd_other _ _ _ _ a]; omega
      · rw [Barrier.upd_other _ _ _ _ a, Barrier.upd_other _ _ _ _ b]; omega

/-- at no time are two ranks more than one barrier apart -/
theorem C02ME_epoch_spread (n : Nat) (s : Sys) (ls : List Label) (hrun : run n init ls = some s) :
    ∀ q q', q < n → q' < n → s.epoch q ≤ s.epoch q' + 1 :=
  spread_reachable (run_reachable ls Reachable.init hrun)

/-- all ranks of an epoch use the same reduction rounds: a rank inside barrier e started it at the global round
`bnd e`, a rank outside a barrier stands exactly at `bnd (its epoch)`; `bnd (e+1)` is where barrier e ended. -/
theorem C02ME_same_boundary (n : Nat) (s : Sys) (ls : List Label) (hrun : run n init ls = some s)
    (q : Nat) (hq : q < n) :
    (s.inBar q = true → s.base q = s.bnd (s.epoch q)) ∧
    (s.inBar q = false → s.rounds q = s.bnd (s.epoch q) ∧ s.got q = s.rounds q) :=
  ⟨(run_inv ls hrun).bIn q hq, (run_inv ls hrun).bOut q hq⟩

/-! ### non-vacuity: two ranks, two barriers, overlapping epochs

Barrier 0: rank 0 sends one message to rank 1, which handles it only after its first contribution: rounds 0,1,2 with
results (0,1), (1,1), (1,1).  Rank 0 consumes the result of round 2, leaves, issues a new message, enters barrier 1
and contributes to round 3 (label 19) BEFORE rank 1 has consumed the result of round 2 (label 22), the last result
of barrier 0.  Barrier 1 uses rounds 3,4 with results (2,2), (2,2). -/
private def epoch0 : List Label :=
  [.issue 0, .enter 0, .contribute 0, .enter 1, .contribute 1, .start 1, .finish 1,
   .result 0, .result 1, .contribute 0, .contribute 1, .result 0, .result 1,
   .contribute 0, .contribute 1, .result 0]

private def demoLabels : List Label :=
  epoch0 ++
  [-- rank 0 leaves barrier 0 and goes on; rank 1 is still waiting for the result of round 2
   .exit 0, .issue 0, .enter 0, .contribute 0,
   .start 1, .finish 1, .result 1, .exit 1, .enter 1, .contribute 1,
   .result 0, .result 1, .contribute 0, .contribute 1, .result 0, .result 1]

set_option maxRecDepth 8192 in
/-- the whole history is accepted; at its end both ranks are in barrier 1 (epoch 1, first round 3), nothing is
undelivered and the exit rule holds for both -/
example : ((run 2 init demoLabels).map (fun s => (exitEnabled s 0, exitEnabled s 1, s.epoch 0, s.epoch 1, s.und))) =
    some (true, true, 1, 1, 0) := by decide

set_option maxRecDepth 8192 in
example : ((run 2 init demoLabels).map (fun s => (s.rounds 0, s.rounds 1, s.base 0, s.base 1, s.bnd 1))) =
    some (5, 5, 3, 3, 3) := by decide

set_option maxRecDepth 8192 in
/-- the overlap is real: after 20 labels rank 0 has contributed its first round of barrier 1 (round 3) while rank 1
is still inside barrier 0 and has consumed only two of its three results -/
example : ((run 2 init (demoLabels.take 20)).map
    (fun s => ((s.epoch 0, s.inBar 0, s.rounds 0, s.cnt 3), (s.epoch 1, s.inBar 1, s.got 1)))) =
    some ((1, true, 4, 1), (0, true, 2)) := by decide

/-- an idle second barrier: its first result (round 3) is (1,1), identical to the last result of barrier 0 (round 2)
and balanced — -/
private def idleLabels : List Label :=
  epoch0 ++ [.exit 0, .enter 0, .contribute 0, .result 1, .exit 1, .enter 1, .contribute 1, .result 0, .result 1]

set_option maxRecDepth 8192 in
/-- — yet nobody may leave after one round: the rule never compares with a result of the previous barrier -/
example : ((run 2 init idleLabels).map
    (fun s => (s.cur 0, s.accR 2, s.accS 2, exitEnabled s 0, exitEnabled s 1))) =
    some ((1, 1), 1, 1, false, false) := by decide

set_option maxRecDepth 8192 in
/-- `contribute` is refused while the exit rule holds (the code's `while` has left the loop) -/
example : ((run 2 init demoLabels).bind (fun s => step 2 s (.contribute 0))).isNone = true := by decide

end YgmVerif.BarrierME
