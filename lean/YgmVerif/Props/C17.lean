import YgmVerif.Lemmas.DSet
namespace YgmVerif.DSet
end YgmVerif.DSet
