import YgmVerif.Lemmas.DSet
/-!
# C17 — disjoint_set connectivity equals the union graph; merges are reported once

Theorems about `YgmVerif.DSet` (Model/DSet.lean: the message system of
`async_union` / `async_union_and_execute`, handler bodies transcribed from
detail/disjoint_set_impl.hpp).  `Reach s` = `s` is reachable from the empty container by
any number of `issue` (a rank calls async_union[_and_execute]), `deliver i` (ANY in-flight
message is delivered next), `compress x` (all_find / all_compress write-back) and `clear`
(only at quiescence: `clear()` starts with a barrier) steps, in any order: all union
multigraphs, all delivery orders, all epochs.  `issued`, `cbs`, `mergeLog` restart at a clear.

Everything is derived from one inductive invariant (`InvP`, Lemmas/DSet.lean) whose
per-message clauses are `MsgOk`:
* `walk t c op oi ork`: `c`, `oi` are `t`, `op` themselves or non-roots strictly below them in
  the `(rank, item)` order; `ork ≤ rank op`; both pairs share a tree; `t` sits in the tree of one
  endpoint of the union the walk belongs to and `op` in the tree of the other;
* `setp x z`: `x` is a non-root, `(rank x, x) < (rank z, z)`, `x` and `z` share a tree;
* `resolve p x k`: `x` is a non-root of rank `k` with `(k, x) < (rank p, p)`.
-/
namespace YgmVerif.DSet

/-! ## the order `(rank, item)`, acyclicity, termination -/

/-- in every reachable state every non-root is strictly below its parent in the order
`(rank, item)` (the code's tie-break: equal ranks are ordered by `my_item < other_parent`) -/
theorem lex_increasing {s : State} (h : Reach s) (x : Item) (hx : parent s x ≠ x) :
    rank s x < rank s (parent s x) ∨ (rank s x = rank s (parent s x) ∧ x < parent s x) :=
  h.inv.a.lex x hx

/-- the per-message invariants hold for every message in flight -/
theorem messages_ok {s : State} (h : Reach s) (m : Msg) (hm : m ∈ s.msgs) : MsgOk s m :=
  h.inv.msgs m (by simpa using hm)

/-- the two `ASSERT_RELEASE`s of `resolve_merge_lambda` never fire -/
theorem no_abort {s : State} (h : Reach s) : s.aborted = false := h.inv.noabort

/-- when a `resolve` message is delivered, `my_rank >= merging_rank` holds (the assertion itself) -/
theorem resolve_assert {s : State} (h : Reach s) {p x : Item} {k : Int} (hm : Msg.resolve p x k ∈ s.msgs) :
    k ≤ rank s p := by
  obtain ⟨_, h2, h3, _⟩ := messages_ok h _ hm
  have := lexLt_rank_le h3
  omega

/-- the parent structure is acyclic: mutual ancestors are equal -/
theorem acyclic {s : State} (h : Reach s) {x y : Item} (h1 : Anc s x y) (h2 : Anc s y x) : x = y :=
  anc_antisymm h.inv.a h1 h2

/-- every lookup terminates: following parents from `x` reaches a root after at most
`above s x` steps, the number of present items above `x` in the `(rank, item)` order -/
theorem find_terminates {s : State} (h : Reach s) (x : Item) (n : Nat) (hn : above s x < n) :
    isRoot s (find s n x) ∧ Anc s x (find s n x) :=
  ⟨find_isRoot h.inv.a n x hn, find_anc s n x⟩

/-- each step up strictly decreases the measure -/
theorem measure_decreases {s : State} (h : Reach s) {x : Item} (hx : ¬ isRoot s x) :
    above s (parent s x) < above s x := above_parent_lt h.inv.a hx

/-- `root` (= `find` with fuel `size + 1`) is a root above `x` … -/
theorem root_isRoot {s : State} (h : Reach s) (x : Item) : isRoot s (root s x) ∧ Anc s x (root s x) :=
  ⟨root_isRoot' h.inv.a x, root_anc s x⟩

/-- … and the only one -/
theorem root_unique {s : State} (h : Reach s) {x r : Item} (ha : Anc s x r) (hr : isRoot s r) : r = root s x :=
  root_unique' h.inv.a ha hr

/-- equal representatives ⇔ common ancestor -/
theorem sameTree_iff_root_eq {s : State} (h : Reach s) (x y : Item) : sameTree s x y ↔ root s x = root s y :=
  sameTree_iff_root_eq' h.inv.a x y

/-! ## connectivity -/

/-- sound: items of one tree are connected by the unions issued so far (at every moment,
not only at barriers) -/
theorem sound {s : State} (h : Reach s) {x y : Item} (hxy : sameTree s x y) : Conn s.issued x y :=
  conn_of_sameTree h.inv.sound hxy

/-- every issued union is either already reflected in the trees or still has its walk in flight -/
theorem union_pending_or_done {s : State} (h : Reach s) {a b : Item} (hab : (a, b) ∈ s.issued) :
    sameTree s a b ∨ ∃ ex t c op oi ork, Msg.walk ex t c op oi ork a b ∈ s.msgs := by
  simpa using h.inv.done a b hab

/-- complete: at quiescence (no message in flight, i.e. after a barrier) items connected by the
issued unions are in one tree -/
theorem complete {s : State} (h : Reach s) (hq : s.msgs = []) {x y : Item} (hxy : Conn s.issued x y) :
    sameTree s x y := by
  refine Conn.rec_equiv (sameTree s) (sameTree.refl s) (fun _ _ h => h.symm) (fun _ _ _ h1 h2 => h1.trans h2) ?_ hxy
  intro a b hab
  rcases union_pending_or_done h hab with h1 | ⟨_, _, _, _, _, _, hw⟩
  · exact h1
  · rw [hq] at hw; cases hw

/-- after a barrier: equal representatives ⇔ connected by the unions issued so far -/
theorem connectivity {s : State} (h : Reach s) (hq : s.msgs = []) (x y : Item) :
    root s x = root s y ↔ Conn s.issued x y :=
  (sameTree_iff_root_eq h x y).symm.trans ⟨sound h, complete h hq⟩

/-- path splitting, the resolve write-back and all_find's compression never split a set: the
re-parenting they perform (a non-root `x` moved below a `z` of its own tree with
`(rank x, x) < (rank z, z)`) keeps every two items that shared a tree in a common tree -/
theorem no_split {s : State} (h : Reach s) {x z : Item} (hx : ¬ isRoot s x)
    (hlt : lexLt s x z) (hst : sameTree s x z) {u v : Item} (huv : sameTree s u v) :
    sameTree (reparent s x z) u v :=
  sameTree.reparent_nonroot h.inv.a.lex hx hlt hst huv

/-- from barrier to barrier sets only grow, as long as the container is not cleared: items in
one set after a barrier are in one set after every later barrier (whatever was issued,
delivered or compressed in between) -/
theorem sets_only_grow {s s' : State} {l : List (Item × Item)} (h : Reach s) (st : USteps s l s')
    (hq : s.msgs = []) (hq' : s'.msgs = []) {x y : Item} (hxy : root s x = root s y) : root s' x = root s' y := by
  have h' : Reach s' := Steps.trans h st.toSteps
  exact (connectivity h' hq' x y).2 (Conn.mono (issued_mono st) ((connectivity h hq x y).1 hxy))

/-! ## clear -/

/-- `clear()` (taken at quiescence: it starts with a barrier) leaves a reachable state that is
empty in every respect: no item present, `size() = 0`, `num_sets() = 0`, nothing in flight,
every item reads as an unvisited singleton, and the ghost logs are restarted -/
theorem clear_resets {s : State} (h : Reach s) (hq : s.msgs = []) :
    Reach (clear s) ∧ (clear s).dom = [] ∧ size (clear s) = 0 ∧ numSets (clear s) = 0 ∧ (clear s).msgs = [] ∧
    (∀ x, rank (clear s) x = 0 ∧ parent (clear s) x = x) ∧
    (clear s).issued = [] ∧ (clear s).cbs = [] ∧ (clear s).mergeLog = [] ∧ (clear s).plainIssued = 0 :=
  ⟨Steps.tail h (Step.clear s hq), rfl, rfl, rfl, rfl, fun _ => ⟨rfl, rfl⟩, rfl, rfl, rfl, rfl⟩

/-- the ghost field `issued` of a state reached without a `clear` from a cleared (or the initial)
container is exactly the list of unions issued since then -/
theorem issued_since_clear {s s' : State} {l : List (Item × Item)} (st : USteps (clear s) l s') : s'.issued = l := by
  rw [issued_usteps st]; exact List.append_nil l

/-- connectivity after a `clear`: at any later barrier (before the next clear) two items have the
same representative iff they are connected by the unions `l` issued AFTER the clear — nothing of
the earlier epochs survives, whatever they were -/
theorem connectivity_after_clear {s s' : State} {l : List (Item × Item)} (h : Reach s) (hq : s.msgs = [])
    (st : USteps (clear s) l s') (hq' : s'.msgs = []) (x y : Item) :
    root s' x = root s' y ↔ Conn l x y := by
  have h' : Reach s' := Steps.trans (clear_resets h hq).1 st.toSteps
  have := connectivity h' hq' x y
  rw [issued_since_clear st] at this
  exact this

/-! ## counting -/

/-- #root merges + num_sets = size, in every reachable state -/
theorem merges_count {s : State} (h : Reach s) : s.mergeLog.length + numSets s = size s := h.inv.count

/-- the callback ran exactly once per root merge performed by an `_and_execute` walk -/
theorem callbacks_eq_exec_merges {s : State} (h : Reach s) :
    s.cbs.length = (s.mergeLog.filter (·.1)).length := h.inv.cbs_eq

/-- if only `async_union_and_execute` was used: #callbacks = #items − #sets -/
theorem callbacks_count {s : State} (h : Reach s) (hp : s.plainIssued = 0) :
    s.cbs.length + numSets s = size s := by
  have h1 := h.inv.cbs_eq
  have h2 : s.mergeLog.filter (·.1) = s.mergeLog := by
    apply List.filter_eq_self.2
    intro e he; exact (h.inv.exec hp).2 e he
  rw [h2] at h1
  rw [h1]; exact h.inv.count

/-- every callback edge joined two distinct trees: it connects items that the older callback
edges do not connect — the callback edges are a forest … -/
theorem callbacks_forest {s : State} (h : Reach s) : Forest s.cbs := h.inv.forest

/-- … of edges that were issued as unions, each inside one tree -/
theorem callbacks_issued {s : State} (h : Reach s) (e : Item × Item) (he : e ∈ s.cbs) :
    e ∈ s.issued ∧ sameTree s e.1 e.2 := ⟨h.inv.cbs_issued e he, h.inv.cbs_tree e he⟩

/-- … and, when only `async_union_and_execute` was used, spanning: after a barrier the callback
edges connect exactly what the issued unions connect -/
theorem callbacks_spanning {s : State} (h : Reach s) (hp : s.plainIssued = 0) (hq : s.msgs = []) (x y : Item) :
    Conn s.cbs x y ↔ Conn s.issued x y :=
  ⟨fun c => Conn.mono (fun e he => h.inv.cbs_issued e he) c,
   fun c => conn_of_sameTree (h.inv.span hp) (complete h hq c)⟩

/-- … and so do the counts: with only `async_union_and_execute` after the clear, the callbacks run
since the clear number (#items − #sets) of the items touched since the clear -/
theorem callbacks_after_clear {s s' : State} {l : List (Item × Item)} (h : Reach s) (hq : s.msgs = [])
    (st : USteps (clear s) l s') (hp : s'.plainIssued = 0) : s'.cbs.length + numSets s' = size s' :=
  callbacks_count (Steps.trans (clear_resets h hq).1 st.toSteps) hp

/-! ## num_sets, representatives -/

/-- `num_sets()` counts the items that are their own representative -/
theorem num_sets_eq_roots {s : State} (h : Reach s) :
    numSets s = (s.dom.filter (fun x => root s x = x)).length := by
  unfold numSets
  congr 1
  apply List.filter_congr
  intro x _
  have hiff : parent s x = x ↔ root s x = x := by
    constructor
    · intro hr; exact (root_unique h (Anc.refl x) hr).symm
    · intro hr; have := (root_isRoot h x).1; rw [hr] at this; exact this
  by_cases h1 : parent s x = x
  · simp [h1, hiff.1 h1]
  · have h2 : ¬ root s x = x := fun h' => h1 (hiff.2 h')
    simp [h1, h2]

/-- the representative of a present item is a present item of the same set, and is its own
representative -/
theorem representative_is_member {s : State} (h : Reach s) {x : Item} (hx : x ∈ s.dom) :
    root s x ∈ s.dom ∧ sameTree s x (root s x) ∧ root s (root s x) = root s x :=
  ⟨anc_mem_dom h.inv.a (root_anc s x) hx, sameTree.of_anc (root_anc s x),
   (root_unique h (Anc.refl _) (root_isRoot h x).1).symm⟩

/-- items never visited are singletons, and nobody points at … them wrongly: an absent item
reads as `(0, self)` -/
theorem absent_is_singleton {s : State} (h : Reach s) {x : Item} (hx : x ∉ s.dom) : rank s x = 0 ∧ parent s x = x := by
  have := h.inv.a.nondom x hx
  unfold rank parent; rw [this]; exact ⟨rfl, rfl⟩

/-- the decidable checks the driver evaluates on dumps of the real parent map hold in every
reachable state of the model -/
theorem checks_hold {s : State} (h : Reach s) : checkLex s = true ∧ checkClosed s = true := by
  constructor
  · unfold checkLex
    rw [List.all_eq_true]
    intro x _
    by_cases hr : parent s x = x
    · simp [hr]
    · have := (lexLtB_iff s x (parent s x)).2 (h.inv.a.lex x hr)
      simp [this]
  · unfold checkClosed
    rw [List.all_eq_true]
    intro x hx
    simpa using h.inv.a.closed x hx

/-! ## non-vacuity: concrete reachable states -/

/-- `async_union(1,2)` delivered to quiescence (4 messages): 1 hangs below 2, rank of 2 bumped -/
def ex1 : State := deliver (deliver (deliver (deliver (issue init false 1 2) 0) 0) 0) 0

theorem ex1_reach : Reach ex1 :=
  .tail (.tail (.tail (.tail (.tail (.refl _) (.issue _ false 1 2)) (.deliver _ 0)) (.deliver _ 0)) (.deliver _ 0)) (.deliver _ 0)

example : ex1.msgs = [] ∧ parent ex1 1 = 2 ∧ rank ex1 2 = 1 ∧ numSets ex1 = 1 ∧ size ex1 = 2 ∧ ex1.mergeLog.length = 1 := by decide

/-- two `_and_execute` unions of the same edge from two ranks, delivered newest-first: one callback -/
def ex2 : State :=
  let s := issue (issue init true 3 5) true 5 3
  deliver (deliver (deliver (deliver (deliver (deliver s 1) 1) 1) 0) 0) 0

example : ex2.msgs = [] ∧ ex2.cbs.length = 1 ∧ numSets ex2 = 1 ∧ size ex2 = 2 ∧ ex2.plainIssued = 0 ∧ root ex2 3 = root ex2 5 := by decide

/-- a state with messages in flight satisfies the hypotheses of `messages_ok` non-trivially -/
example : (deliver (issue init false 1 2) 0).msgs = [Msg.walk false 2 2 1 1 0 1 2] := by decide

/-- clear after `ex1`, then `async_union(1,3)` to quiescence: 2 is gone, {1,3} is the only set -/
def ex3 : State := deliver (deliver (deliver (deliver (issue (clear ex1) false 1 3) 0) 0) 0) 0

theorem ex3_steps : USteps (clear ex1) [(1, 3)] ex3 :=
  .tail (.tail (.tail (.tail (.tail (.refl _) (.issue _ false 1 3)) (.deliver _ 0)) (.deliver _ 0)) (.deliver _ 0)) (.deliver _ 0)

example : ex1.msgs = [] ∧ ex3.msgs = [] ∧ size (clear ex1) = 0 ∧ size ex3 = 2 ∧ numSets ex3 = 1 ∧
    root ex3 1 = root ex3 3 ∧ root ex3 1 ≠ root ex3 2 ∧ ex3.issued = [(1, 3)] := by decide

/-- `Forest` is not vacuous: it rejects a cycle -/
example : ¬ Forest [(1, 2), (2, 1)] := by
  intro h; exact h.1 (Conn.symm (Conn.edge List.mem_cons_self))

end YgmVerif.DSet
