import YgmVerif.Model.Atomic
/-!
# C08 — handlers are atomic: none runs inside another or while an interrupt mask is held

Theorems about `YgmVerif.Atomic.step/run` (one rank; ranks do not share these flags), for every label
sequence the model accepts.  The guards of `step` are the *local rules* of the code (which call sites test
the re-entrancy flag, where it is set, the early return under a mask); the theorems derive the global
guarantee from them.  The acceptor replays the hook events of real runs, rank by rank, through `step`.
-/
namespace YgmVerif.Atomic

/-- the reachable states: six call-stack shapes with the flag values that go with them (10 states) -/
def shapes : List St :=
  [ ⟨[], false, false⟩, ⟨[], false, true⟩,
    ⟨[.poll false], true, false⟩, ⟨[.poll true], true, true⟩,
    ⟨[.walk, .poll false], true, false⟩,
    ⟨[.handler false, .walk, .poll false], true, false⟩, ⟨[.handler false, .walk, .poll false], true, true⟩,
    ⟨[.bwalk], true, false⟩,
    ⟨[.handler false, .bwalk], true, false⟩, ⟨[.handler false, .bwalk], true, true⟩ ]

def Shape (s : St) : Prop := s ∈ shapes

def allLabels : List Label :=
  [.pollBegin, .pollEnd, .walkBegin, .walkEnd, .bwalkBegin, .bwalkEnd, .handlerBegin, .handlerEnd, .maskOn, .maskOff]

theorem mem_allLabels (l : Label) : l ∈ allLabels := by cases l <;> decide

theorem shape_init : Shape St.init := by show St.init ∈ shapes; decide

/-- the finite table: every enabled step from one of the ten states lands in one of the ten states -/
theorem shapes_closed : ∀ s ∈ shapes, ∀ l ∈ allLabels,
    (step s l).all (fun s' => decide (s' ∈ shapes)) = true := by decide

theorem shape_step {s s' : St} {l : Label} (hs : Shape s) (h : step s l = some s') : Shape s' := by
  have := shapes_closed s hs l (mem_allLabels l)
  rw [h] at this
  simpa [Shape] using this

theorem shape_run {s s' : St} (ls : List Label) (hs : Shape s) (h : run s ls = some s') : Shape s' := by
  induction ls generalizing s with
  | nil => simp only [run] at h; cases h; exact hs
  | cons l ls ih =>
    simp only [run] at h
    cases hst : step s l with
    | none => rw [hst] at h; cases h
    | some s1 => rw [hst] at h; exact ih (shape_step hs hst) h

/-- **no handler runs inside another**: in every state reachable by an accepted history the handler depth
is at most one — whichever call delivered the message (progress from the main program, a back-pressure
wait, the waits inside barrier) and whatever the handler itself calls (async, local_progress). -/
theorem C08_depth_le_one (ls : List Label) (s : St) (h : run St.init ls = some s) : depth s ≤ 1 := by
  have hs := shape_run ls shape_init h
  have key : ∀ s ∈ shapes, depth s ≤ 1 := by decide
  exact key s hs

/-- **no handler starts while an interrupt mask is alive**, however many asyncs the rank issues and
however full its buffers are -/
theorem C08_no_exec_under_mask (ls : List Label) (s s' : St) (h : run St.init ls = some s)
    (hb : step s .handlerBegin = some s') : s.M = false := by
  have hs := shape_run ls shape_init h
  have key : ∀ s ∈ shapes, (step s .handlerBegin).isSome = true → s.M = false := by decide
  exact key s hs (by rw [hb]; rfl)

/-- progress is deferred while a handler is active: no poll (hence no MPI test / wait, no receive
processing) can start inside a handler, whatever the handler calls -/
theorem C08_no_poll_in_handler (ls : List Label) (s : St) (h : run St.init ls = some s)
    (hd : depth s = 1) : step s .pollBegin = none ∧ step s .bwalkBegin = none ∧ step s .walkBegin = none := by
  have hs := shape_run ls shape_init h
  have key : ∀ s ∈ shapes, depth s = 1 →
      step s .pollBegin = none ∧ step s .bwalkBegin = none ∧ step s .walkBegin = none := by decide
  exact key s hs hd

/-- under a mask a poll does nothing: it cannot start processing a receive -/
theorem C08_masked_poll_is_inert (s s1 : St) (hm : s.M = true) (h1 : step s .pollBegin = some s1) :
    step s1 .walkBegin = none := by
  obtain ⟨stack, G, M⟩ := s
  simp only at hm; subst hm
  simp only [step] at h1
  split at h1
  · cases h1; simp [step]
  · cases h1

/-! non-vacuity: a poll delivers a buffer with two handlers, the second sets and clears a mask; then a
masked poll; then the barrier path -/
example : (run St.init [.pollBegin, .walkBegin, .handlerBegin, .handlerEnd, .handlerBegin, .maskOn, .maskOff,
    .handlerEnd, .walkEnd, .pollEnd, .maskOn, .pollBegin, .pollEnd, .maskOff, .bwalkBegin, .handlerBegin,
    .handlerEnd, .bwalkEnd]).isSome = true := by decide
/-- a poll from inside a handler is rejected (this is what the pinned barrier path allowed) -/
example : (run St.init [.bwalkBegin, .handlerBegin, .pollBegin]).isNone = true := by decide

end YgmVerif.Atomic
