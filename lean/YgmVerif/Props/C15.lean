import YgmVerif.Lemmas.Cache
import YgmVerif.PinnedCache
/-!
# C15 — counting_set counts equal the number of inserts, from any context

Theorems about `YgmVerif.Cache` (the model of counting_set.hpp's count cache in the repaired
statement order; `YgmVerif.PinnedCache` holds `decide`d histories on which the pinned order
fails each of them).  A run is ANY sequence of labels accepted by `step`: inserts from the
main program and from handlers, at any nesting depth, placed anywhere inside the sends of
evictions, overflow flushes and the flush-all loop.
-/
namespace YgmVerif.Cache

instance (n : Nat) : Std.Associative (csetCfg n).op := ⟨Nat.add_assoc⟩
instance (n : Nat) : Std.Commutative (csetCfg n).op := ⟨Nat.add_comm⟩

/-! ### Nat view of the `Option` ledger -/

theorem getD_omerge_add (a b : Option Nat) : (omerge (· + ·) a b).getD 0 = a.getD 0 + b.getD 0 := by
  cases a <;> cases b <;> simp [omerge]

theorem getD_total_add (l : List Nat) : (total (· + ·) l).getD 0 = l.sum := by
  induction l with
  | nil => rfl
  | cons a l ih => rw [total_cons, getD_omerge_add, ih]; simp

/-- **cache_ledger** (operator-generic form).  For every configuration with an associative and
commutative operator, every accepted label sequence from the initial state and every key:
what the rank still holds (cached, copied out but not yet packed, inserts in progress)
combined with everything it packed equals everything it received. -/
theorem cache_ledger {V : Type} (cfg : Cfg V) [Std.Associative cfg.op] [Std.Commutative cfg.op]
    (ls : List (Label V)) (s' : St V) (h : run cfg .init ls = some s') (k : Key) :
    omerge cfg.op (held cfg s' k) (total cfg.op (msgValsOf k (emitted cfg .init ls)))
      = total cfg.op (valsOf k (received ls)) := by
  have := run_ledger cfg .init s' ls (WF.nil _) h k
  rw [held_init, omerge_none_left] at this
  exact this

/-- counting_set: per key, Σ emitted counts + held count = Σ inserted counts -/
theorem cache_ledger_counts (n : Nat) (ls : List (Label Nat)) (s' : St Nat)
    (h : run (csetCfg n) .init ls = some s') (k : Key) :
    (held (csetCfg n) s' k).getD 0 + ownerCount (emitted (csetCfg n) .init ls) k
      = (valsOf k (received ls)).sum := by
  have h1 := cache_ledger (csetCfg n) ls s' h k
  have h2 : (omerge (· + ·) (held (csetCfg n) s' k) (total (· + ·) (msgValsOf k (emitted (csetCfg n) .init ls)))).getD 0
      = (total (· + ·) (valsOf k (received ls))).getD 0 := congrArg (·.getD 0) h1
  rw [getD_omerge_add, getD_total_add, getD_total_add] at h2
  exact h2

/-- `async_insert` always contributes a count of one -/
def AllOnes (ls : List (Label Nat)) : Prop := ∀ p, p ∈ received ls → p.2 = 1

/-- number of `async_insert(k)` calls in a history -/
def insertsOf (ls : List (Label Nat)) (k : Key) : Nat := (valsOf k (received ls)).length

theorem sum_eq_length_of_ones (l : List Nat) (h : ∀ x ∈ l, x = 1) : l.sum = l.length := by
  induction l with
  | nil => rfl
  | cons a l ih =>
    simp only [List.sum_cons, List.length_cons]
    rw [h a (by simp), ih (fun x hx => h x (by simp [hx]))]; omega

theorem valsOf_ones {ls : List (Label Nat)} (h : AllOnes ls) (k : Key) :
    (valsOf k (received ls)).sum = insertsOf ls k := by
  apply sum_eq_length_of_ones
  intro x hx
  simp only [valsOf, List.mem_map, List.mem_filter] at hx
  obtain ⟨p, ⟨hp, _⟩, rfl⟩ := hx
  exact h p hp

/-- **cache_ledger** in the words of the property: Σ emitted counts + held count = #inserts of `k` -/
theorem cache_ledger_inserts (n : Nat) (ls : List (Label Nat)) (s' : St Nat)
    (h : run (csetCfg n) .init ls = some s') (hones : AllOnes ls) (k : Key) :
    (held (csetCfg n) s' k).getD 0 + ownerCount (emitted (csetCfg n) .init ls) k = insertsOf ls k := by
  rw [cache_ledger_counts n ls s' h k, valsOf_ones hones]

/-- **flushAll_empties_or_reregisters**.  In every reachable state in which no container call
is active — in particular right after the pre-barrier callback has returned — either every
slot is free or a (new) callback is registered.  (`barrier()` does not return while a
callback is registered, so nothing stays cached past a barrier.) -/
theorem flushAll_empties_or_reregisters {V : Type} (cfg : Cfg V) (hn : 0 < cfg.nslots)
    (ls : List (Label V)) (s' : St V) (h : run cfg .init ls = some s') (hidle : s'.stack = []) :
    s'.reg = true ∨ cacheEmpty s'.cache := by
  have hinv := (run_flag cfg hn .init s' ls (fun t e ht => by simp [St.init, CMap.get] at ht) flagInv_init h).1
  cases hreg : s'.reg with
  | true => exact Or.inl rfl
  | false =>
    obtain ⟨ts, _, hsh⟩ := hinv hreg
    cases hsh with
    | inl h1 => exact Or.inr h1.2
    | inr h1 =>
      obtain ⟨i, ph, h2, _, _⟩ := h1
      rw [hidle] at h2
      cases ts <;> simp at h2

/-- the same, phrased at the callback: when `flush_all` returns to the barrier loop -/
theorem flushAll_returns_empty_or_registered {V : Type} (cfg : Cfg V) (hn : 0 < cfg.nslots)
    (ls : List (Label V)) (s₁ s' : St V) (h : run cfg .init ls = some s₁)
    (hfe : step cfg s₁ .fe = some s') (hidle : s'.stack = []) :
    s'.reg = true ∨ cacheEmpty s'.cache := by
  apply flushAll_empties_or_reregisters cfg hn (ls ++ [.fe]) s' _ hidle
  rw [run_append, h]
  simp only [Option.bind, run, hfe]

/-- a barrier has completed on this rank: no container call active, no callback registered.
Then the cache is empty and, per key, the emitted counts are exactly the inserted ones. -/
theorem barrier_leaves_nothing_cached (n : Nat) (hn : 0 < n) (ls : List (Label Nat)) (s' : St Nat)
    (h : run (csetCfg n) .init ls = some s') (hidle : s'.stack = []) (hreg : s'.reg = false) (k : Key) :
    quiet s' ∧ ownerCount (emitted (csetCfg n) .init ls) k = (valsOf k (received ls)).sum := by
  have hq : quiet s' := by
    refine ⟨hidle, ?_⟩
    cases flushAll_empties_or_reregisters (csetCfg n) hn ls s' h hidle with
    | inl h1 => rw [hreg] at h1; cases h1
    | inr h1 => exact h1
  refine ⟨hq, ?_⟩
  have := cache_ledger_counts n ls s' h k
  rw [held_quiet _ s' hq] at this
  simpa using this

/-- the same at the label `bar`: whenever `barrier()` can return on a rank, its cache is empty
and everything inserted before has been emitted — nothing stays cached past a barrier -/
theorem barrier_return_quiet (n : Nat) (hn : 0 < n) (ls : List (Label Nat)) (s₁ s' : St Nat)
    (h : run (csetCfg n) .init ls = some s₁) (hb : step (csetCfg n) s₁ .bar = some s') (k : Key) :
    s' = s₁ ∧ quiet s' ∧ ownerCount (emitted (csetCfg n) .init ls) k = (valsOf k (received ls)).sum := by
  simp only [step] at hb
  split at hb
  · rename_i hc
    have hs : s₁ = s' := Option.some.inj hb
    subst hs
    have hidle : s₁.stack = [] := by
      cases hst : s₁.stack with
      | nil => rfl
      | cons a b => rw [hst] at hc; simp at hc
    obtain ⟨hq, hcount⟩ := barrier_leaves_nothing_cached n hn ls s₁ h hidle hc.2 k
    exact ⟨rfl, hq, hcount⟩
  · cases hb

/-! ### all ranks together and the owner-side fold -/

/-- the histories of all ranks, each ending quiet (barrier completed everywhere) -/
def AllQuiet (n : Nat) (runs : List (List (Label Nat))) : Prop :=
  ∀ ls ∈ runs, ∃ s', run (csetCfg n) .init ls = some s' ∧ quiet s'

def allMsgs (n : Nat) (runs : List (List (Label Nat))) : List (Msg Nat) :=
  runs.flatMap (emitted (csetCfg n) .init)

def allIns (runs : List (List (Label Nat))) : List (Key × Nat) := runs.flatMap received

theorem ownerCount_append (a b : List (Msg Nat)) (k : Key) :
    ownerCount (a ++ b) k = ownerCount a k + ownerCount b k := by
  simp [ownerCount, msgValsOf_append, List.sum_append]

/-- per rank and key: the packed messages carry a value for `k` iff `k` was inserted, and the
counts agree -/
theorem quiet_rank (n : Nat) (ls : List (Label Nat)) (s' : St Nat)
    (h : run (csetCfg n) .init ls = some s') (hq : quiet s') (k : Key) :
    total (· + ·) (msgValsOf k (emitted (csetCfg n) .init ls)) = total (· + ·) (valsOf k (received ls)) := by
  have := cache_ledger (csetCfg n) ls s' h k
  rw [held_quiet _ s' hq, omerge_none_left] at this
  exact this

/-- **count_eq_inserts**: after a barrier `count(k)` — the owner's sum over all executed
`(k, to_add)` visits of all ranks, each executed exactly once (C01), in any order — equals the
total of the inserted counts of `k`, i.e. the number of `async_insert(k)` calls on all ranks. -/
theorem count_eq_inserts (n : Nat) (runs : List (List (Label Nat))) (h : AllQuiet n runs) (k : Key) :
    ownerCount (allMsgs n runs) k = (valsOf k (allIns runs)).sum := by
  induction runs with
  | nil => rfl
  | cons ls runs ih =>
    obtain ⟨s', hr, hq⟩ := h ls (by simp)
    have ih' := ih (fun l hl => h l (by simp [hl]))
    simp only [allMsgs, allIns, List.flatMap_cons] at ih' ⊢
    rw [ownerCount_append, valsOf_append, List.sum_append, ih']
    have := congrArg (·.getD 0) (quiet_rank n ls s' hr hq k)
    simp only [getD_total_add] at this
    simp only [ownerCount, this]

/-- in the property's words, when every insert contributes one -/
theorem count_eq_number_of_inserts (n : Nat) (runs : List (List (Label Nat))) (h : AllQuiet n runs)
    (hones : ∀ ls ∈ runs, AllOnes ls) (k : Key) :
    ownerCount (allMsgs n runs) k = (valsOf k (allIns runs)).length := by
  rw [count_eq_inserts n runs h k]
  apply sum_eq_length_of_ones
  intro x hx
  simp only [valsOf, allIns, List.mem_map, List.mem_filter, List.mem_flatMap] at hx
  obtain ⟨p, ⟨⟨ls, hls, hp⟩, _⟩, rfl⟩ := hx
  exact hones ls hls p hp

/-- a key has an entry in the owner's map iff it was inserted somewhere -/
theorem key_present_iff (n : Nat) (runs : List (List (Label Nat))) (h : AllQuiet n runs) (k : Key) :
    (∃ m ∈ allMsgs n runs, m.key = k) ↔ (∃ p ∈ allIns runs, p.1 = k) := by
  have key : ∀ ls ∈ runs, (∃ m ∈ emitted (csetCfg n) .init ls, m.key = k) ↔ (∃ p ∈ received ls, p.1 = k) := by
    intro ls hls
    obtain ⟨s', hr, hq⟩ := h ls hls
    have hl := quiet_rank n ls s' hr hq k
    constructor
    · intro ⟨m, hm, hmk⟩
      have hne : msgValsOf k (emitted (csetCfg n) .init ls) ≠ [] := by
        intro he
        have : m.val ∈ msgValsOf k (emitted (csetCfg n) .init ls) := by
          simp only [msgValsOf, List.mem_map, List.mem_filter]; exact ⟨m, ⟨hm, by simp [hmk]⟩, rfl⟩
        rw [he] at this; cases this
      have : valsOf k (received ls) ≠ [] := by
        intro he; rw [he] at hl; exact hne (total_eq_none _ hl)
      cases hv : valsOf k (received ls) with
      | nil => exact absurd hv this
      | cons a l =>
        have : a ∈ valsOf k (received ls) := by rw [hv]; simp
        simp only [valsOf, List.mem_map, List.mem_filter] at this
        obtain ⟨p, ⟨hp, hpk⟩, _⟩ := this
        exact ⟨p, hp, by simpa using hpk⟩
    · intro ⟨p, hp, hpk⟩
      have hne : valsOf k (received ls) ≠ [] := by
        intro he
        have : p.2 ∈ valsOf k (received ls) := by
          simp only [valsOf, List.mem_map, List.mem_filter]; exact ⟨p, ⟨hp, by simp [hpk]⟩, rfl⟩
        rw [he] at this; cases this
      have : msgValsOf k (emitted (csetCfg n) .init ls) ≠ [] := by
        intro he; rw [he] at hl; exact hne (total_eq_none _ hl.symm)
      cases hv : msgValsOf k (emitted (csetCfg n) .init ls) with
      | nil => exact absurd hv this
      | cons a l =>
        have : a ∈ msgValsOf k (emitted (csetCfg n) .init ls) := by rw [hv]; simp
        simp only [msgValsOf, List.mem_map, List.mem_filter] at this
        obtain ⟨m, ⟨hm, hmk⟩, _⟩ := this
        exact ⟨m, hm, by simpa using hmk⟩
  simp only [allMsgs, allIns, List.mem_flatMap]
  constructor
  · intro ⟨m, ⟨ls, hls, hm⟩, hmk⟩
    obtain ⟨p, hp, hpk⟩ := (key ls hls).1 ⟨m, hm, hmk⟩
    exact ⟨p, ⟨ls, hls, hp⟩, hpk⟩
  · intro ⟨p, ⟨ls, hls, hp⟩, hpk⟩
    obtain ⟨m, hm, hmk⟩ := (key ls hls).2 ⟨p, hp, hpk⟩
    exact ⟨m, ⟨ls, hls, hm⟩, hmk⟩

theorem mem_dedup (a : Nat) (l : List Nat) : a ∈ dedup l ↔ a ∈ l := by
  induction l with
  | nil => simp [dedup]
  | cons b l ih =>
    simp only [dedup]
    by_cases hb : b ∈ dedup l
    · rw [if_pos hb]; simp only [List.mem_cons, ih]
      constructor
      · exact Or.inr
      · intro h; cases h with
        | inl h => subst h; exact ih.1 hb
        | inr h => exact h
    · rw [if_neg hb]; simp only [List.mem_cons, ih]

theorem nodup_dedup (l : List Nat) : (dedup l).Nodup := by
  induction l with
  | nil => simp [dedup]
  | cons b l ih =>
    simp only [dedup]
    by_cases hb : b ∈ dedup l
    · rw [if_pos hb]; exact ih
    · rw [if_neg hb]; exact List.nodup_cons.2 ⟨hb, ih⟩

/-- **size_eq**: `size()` = number of distinct inserted keys -/
theorem size_eq (n : Nat) (runs : List (List (Label Nat))) (h : AllQuiet n runs) :
    (ownerKeys (allMsgs n runs)).length = (dedup ((allIns runs).map (·.1))).length := by
  apply List.Perm.length_eq
  apply (List.perm_ext_iff_of_nodup (nodup_dedup _) (nodup_dedup _)).2
  intro k
  simp only [mem_dedup, List.mem_map]
  have := key_present_iff n runs h k
  constructor
  · intro ⟨m, hm, hk⟩; obtain ⟨p, hp, hpk⟩ := this.1 ⟨m, hm, hk⟩; exact ⟨p, hp, hpk⟩
  · intro ⟨p, hp, hk⟩; obtain ⟨m, hm, hmk⟩ := this.2 ⟨p, hp, hk⟩; exact ⟨m, hm, hmk⟩

theorem sum_map_single (K : List Nat) (hK : K.Nodup) (a x : Nat) (ha : a ∈ K) :
    (K.map (fun k => if a = k then x else 0)).sum = x := by
  induction K with
  | nil => cases ha
  | cons b K ih =>
    obtain ⟨hb, hK'⟩ := List.nodup_cons.1 hK
    simp only [List.map_cons, List.sum_cons]
    by_cases hab : a = b
    · subst hab
      have : (K.map (fun k => if a = k then x else 0)).sum = 0 := by
        clear ih hK hK' ha
        induction K with
        | nil => rfl
        | cons c K ih2 =>
          simp only [List.mem_cons, not_or] at hb
          simp only [List.map_cons, List.sum_cons, if_neg hb.1, ih2 hb.2]
      simp [this]
    · simp only [if_neg hab]
      rw [ih hK' (by simpa [hab] using ha)]; omega

/-- a sum over messages, regrouped by key -/
theorem sum_by_key (ms : List (Key × Nat)) (K : List Nat) (hK : K.Nodup) (hcov : ∀ p ∈ ms, p.1 ∈ K) :
    (ms.map (·.2)).sum = (K.map (fun k => (valsOf k ms).sum)).sum := by
  induction ms with
  | nil =>
    simp only [List.map_nil, List.sum_nil, valsOf_nil]
    clear hK hcov
    induction K with
    | nil => rfl
    | cons a K ih => simp only [List.map_cons, List.sum_cons, ← ih]; rfl
  | cons p ms ih =>
    obtain ⟨a, x⟩ := p
    have ih' := ih (fun q hq => hcov q (by simp [hq]))
    have hstep : ∀ k, (valsOf k ((a, x) :: ms)).sum = (if a = k then x else 0) + (valsOf k ms).sum := by
      intro k; rw [valsOf_cons]; by_cases h : a = k <;> simp [h]
    simp only [List.map_cons, List.sum_cons, hstep]
    have hsplit : ∀ (f g : Nat → Nat) (L : List Nat), (L.map (fun k => f k + g k)).sum = (L.map f).sum + (L.map g).sum := by
      intro f g L; induction L with
      | nil => rfl
      | cons b L ihL => simp only [List.map_cons, List.sum_cons, ihL]; omega
    rw [hsplit, sum_map_single K hK a x (hcov (a, x) (by simp)), ih']

theorem msg_pairs (ms : List (Msg Nat)) (k : Key) :
    msgValsOf k ms = valsOf k (ms.map (fun m => (m.key, m.val))) := by
  induction ms with
  | nil => rfl
  | cons m ms ih => rw [msgValsOf_cons, List.map_cons, valsOf_cons, ih]

/-- **count_all_eq**: `count_all()` = total of the inserted counts = number of inserts -/
theorem count_all_eq (n : Nat) (runs : List (List (Label Nat))) (h : AllQuiet n runs) :
    ownerCountAll (allMsgs n runs) = ((allIns runs).map (·.2)).sum := by
  let K := dedup ((allMsgs n runs).map (·.key) ++ (allIns runs).map (·.1))
  have hK : K.Nodup := nodup_dedup _
  have h1 := sum_by_key ((allMsgs n runs).map (fun m => (m.key, m.val))) K hK (by
    intro p hp
    simp only [List.mem_map] at hp
    obtain ⟨m, hm, rfl⟩ := hp
    exact (mem_dedup _ _).2 (List.mem_append_left _ (List.mem_map.2 ⟨m, hm, rfl⟩)))
  have h2 := sum_by_key (allIns runs) K hK (by
    intro p hp
    exact (mem_dedup _ _).2 (List.mem_append_right _ (List.mem_map.2 ⟨p, hp, rfl⟩)))
  have hmap : ((allMsgs n runs).map (fun m => (m.key, m.val))).map (·.2) = (allMsgs n runs).map (·.val) := by
    simp [List.map_map, Function.comp_def]
  rw [hmap] at h1
  rw [ownerCountAll, h1, h2]
  congr 1
  apply List.map_congr_left
  intro k _
  rw [← msg_pairs]
  exact count_eq_inserts n runs h k

theorem count_all_eq_number_of_inserts (n : Nat) (runs : List (List (Label Nat))) (h : AllQuiet n runs)
    (hones : ∀ ls ∈ runs, AllOnes ls) : ownerCountAll (allMsgs n runs) = (allIns runs).length := by
  rw [count_all_eq n runs h]
  have : ((allIns runs).map (·.2)).length = (allIns runs).length := by simp
  rw [← this]
  apply sum_eq_length_of_ones
  intro x hx
  simp only [allIns, List.mem_map, List.mem_flatMap] at hx
  obtain ⟨p, ⟨ls, hls, hp⟩, rfl⟩ := hx
  exact hones ls hls p hp

/-- the owner's map, built by executing the visits one after the other in ANY order, has
exactly the entries (k, count k): `for_all`, `topk` and `all_gather` read this map -/
theorem visitAll_eq (ms : List (Msg Nat)) (k : Key) :
    visitAll ms k = if msgValsOf k ms = [] then none else some (ownerCount ms k) := by
  induction ms with
  | nil => rfl
  | cons m ms ih =>
    simp only [visitAll, ownerCount, msgValsOf_cons]
    by_cases hm : m.key = k
    · simp only [hm, if_true, List.cons_ne_nil, if_false, List.sum_cons]
      rw [ih]
      by_cases he : msgValsOf k ms = []
      · simp [he]
      · simp [he, ownerCount]; omega
    · simp only [hm, if_false]; rw [ih]; rfl

theorem perm_sum {l₁ l₂ : List Nat} (h : l₁.Perm l₂) : l₁.sum = l₂.sum := by
  induction h with
  | nil => rfl
  | cons a _ ih => simp [ih]
  | swap a b l => simp only [List.sum_cons]; omega
  | trans _ _ ih₁ ih₂ => exact ih₁.trans ih₂

theorem visitAll_perm {ms ms' : List (Msg Nat)} (h : ms.Perm ms') (k : Key) : visitAll ms k = visitAll ms' k := by
  have hp : (msgValsOf k ms).Perm (msgValsOf k ms') := (h.filter _).map _
  rw [visitAll_eq, visitAll_eq, ownerCount, ownerCount, perm_sum hp]
  have : msgValsOf k ms = [] ↔ msgValsOf k ms' = [] := by
    constructor <;> intro he
    · exact List.Perm.eq_nil (he ▸ hp.symm)
    · exact List.Perm.eq_nil (he ▸ hp)
  by_cases he : msgValsOf k ms = []
  · simp [he, this.1 he]
  · have he' : ¬ msgValsOf k ms' = [] := fun h' => he (this.2 h')
    simp [he, he']


/-! ### `n` inserts of one key at once (`verif_cache_insert_n`)

The label `ins k n` of the counting_set machine contributes a count of `n`.  The hook
`counting_set::verif_cache_insert_n(key, n)` of the code (one real `cache_insert`, then `n-1`
added to the cached count, only if the result stays below INT32_MAX) is replayed as that one
label.  It is the same as `n` ordinary, uninterrupted inserts of the key — as long as no
intermediate count reaches the saturation guard — so every ledger theorem above (they are
stated for arbitrary contributed counts, see `cache_ledger_counts`) covers it, and the guard
itself is exercised by the ordinary inserts that follow a preload of INT32_MAX - 1 … - 3. -/

theorem CMap.clear_clear {V} (c : CMap V) (s : Nat) : (c.clear s).clear s = c.clear s := by
  simp [CMap.clear, List.filter_filter]

theorem CMap.set_set {V} (c : CMap V) (s : Nat) (e e' : Key × V) : (c.set s e).set s e' = c.set s e' := by
  simp [CMap.set, CMap.clear, List.filter_filter]

/-- cached count of `k` in its slot (0 when the slot is free) -/
def cnt (N : Nat) (s : St Nat) (k : Key) : Nat :=
  match s.cache.get (k % N) with
  | some (_, c) => c
  | none => 0

/-- the slot of `k` is free or already holds `k` -/
def SlotReady (N : Nat) (s : St Nat) (k : Key) : Prop :=
  s.cache.get (k % N) = none ∨ ∃ c, s.cache.get (k % N) = some (k, c)

/-- one uninterrupted insert contributing `v`, away from the guard: the slot holds `cnt + v` afterwards -/
theorem ins_done_atomic (N : Nat) (s : St Nat) (k : Key) (v : Nat) (hen : canEnter s.stack = true)
    (hslot : SlotReady N s k) (hnf : cnt N s k + v ≠ 2147483647) :
    run (csetCfg N) s [.ins k v, .done]
      = some { cache := s.cache.set (k % N) (k, cnt N s k + v), reg := true, stack := s.stack } := by
  have hfull : ∀ w, w ≠ 2147483647 → (csetCfg N).full w = false := by
    intro w hw; simp [csetCfg, hw]
  cases hslot with
  | inl hnone =>
    have hc : cnt N s k = 0 := by simp [cnt, hnone]
    have : v ≠ 2147483647 := by rw [hc] at hnf; simpa using hnf
    simp [run, step, hen, csetCfg, insLoop, slot, hnone, enter, this, hc]
  | inr hsome =>
    obtain ⟨c, hc⟩ := hsome
    have hcn : cnt N s k = c := by simp [cnt, hc]
    rw [hcn] at hnf
    simp [run, step, hen, csetCfg, insLoop, slot, hc, enter, hnf, hcn]

/-- **insert_n_eq_preload**: `n ≥ 1` uninterrupted ordinary inserts of `k` (no count on the way
reaches INT32_MAX) leave exactly the state of the single label `ins k n`. -/
theorem insert_n_eq_preload (N : Nat) (s : St Nat) (k : Key) (n : Nat) (hn : 0 < n)
    (hen : canEnter s.stack = true) (hslot : SlotReady N s k) (hsmall : cnt N s k + n < 2147483647) :
    run (csetCfg N) s (List.flatten (List.replicate n [Label.ins k 1, Label.done]))
      = run (csetCfg N) s [.ins k n, .done] := by
  rw [ins_done_atomic N s k n hen hslot (by omega)]
  induction n generalizing s with
  | zero => omega
  | succ m ih =>
    cases m with
    | zero =>
      simp only [List.replicate, List.flatten_cons, List.flatten_nil, List.append_nil]
      exact ins_done_atomic N s k 1 hen hslot (by omega)
    | succ m =>
      rw [List.replicate_succ, List.flatten_cons, run_append,
        ins_done_atomic N s k 1 hen hslot (by omega)]
      simp only [Option.bind]
      obtain ⟨s₁, hs₁⟩ : ∃ s₁ : St Nat, s₁ = { cache := s.cache.set (k % N) (k, cnt N s k + 1), reg := true, stack := s.stack } := ⟨_, rfl⟩
      have hc1 : cnt N s₁ k = cnt N s k + 1 := by simp [cnt, hs₁, CMap.get_set_self]
      have hready : SlotReady N s₁ k := Or.inr ⟨cnt N s k + 1, by simp [hs₁, CMap.get_set_self]⟩
      have hen₁ : canEnter s₁.stack = true := by rw [hs₁]; exact hen
      have := ih s₁ (by omega) hen₁ hready (by rw [hc1]; omega)
      rw [← hs₁, this, hc1, hs₁]
      simp only [CMap.set_set]
      have : cnt N s k + 1 + (m + 1) = cnt N s k + (m + 1 + 1) := by omega
      rw [this]

/-- the guard: the insert that brings the cached count to INT32_MAX flushes it at once (a send
of `(k, 2147483647)` is in progress) instead of letting the 32-bit counter wrap -/
theorem saturation_flushes (N : Nat) (s : St Nat) (k : Key) (v : Nat) (hen : canEnter s.stack = true)
    (c : Nat) (hslot : s.cache.get (k % N) = some (k, c)) (hfull : c + v = 2147483647) :
    step (csetCfg N) s (.ins k v)
      = some { cache := s.cache.clear (k % N), reg := true,
               stack := .tail (.pend ⟨true, k, 2147483647⟩) :: s.stack } := by
  simp [step, hen, csetCfg, insLoop, slot, hslot, enter, hfull]

/-- a preload of INT32_MAX - 1 followed by one ordinary insert: the guard flushes 2147483647, and the
barrier flushes nothing more for that key -/
example : (run (csetCfg 4) .init [.ins 5 2147483646, .done, .ins 5 1, .pack, .ret, .done, .ins 5 1, .done, .fb, .pack, .ret, .fe, .bar]).map
    (fun s => (s.stack.length, s.reg, s.cache.length)) = some (0, false, 0) := by decide
example : ownerCount (emitted (csetCfg 4) .init [.ins 5 2147483646, .done, .ins 5 1, .pack, .ret, .done, .ins 5 1, .done, .fb, .pack, .ret, .fe, .bar]) 5
    = 2147483648 := by decide
example : run (csetCfg 4) .init (List.flatten (List.replicate 3 [Label.ins 5 1, Label.done]))
    = run (csetCfg 4) .init [.ins 5 3, .done] := insert_n_eq_preload 4 .init 5 3 (by omega) rfl (Or.inl rfl) (by decide)

/-! ### the hypotheses are satisfiable by non-trivial runs (and the pinned order fails there) -/

/-- two keys sharing slot 1 of a 4-slot cache; a handler inserts while the eviction's send is in progress -/
example : ∃ s', run (csetCfg 4) .init PinnedCache.d5HistoryRepaired = some s' ∧ quiet s' := by
  refine ⟨⟨[], false, []⟩, by decide, rfl, fun _ => rfl⟩

example : AllOnes PinnedCache.d5HistoryRepaired := by
  intro p hp
  have : received PinnedCache.d5HistoryRepaired = [(1, 1), (5, 1), (5, 1)] := by decide
  rw [this] at hp
  simp at hp
  rcases hp with rfl | rfl <;> rfl

example : AllQuiet 4 [PinnedCache.d5HistoryRepaired, [.ins 5 1, .done, .fb, .pack, .ret, .fe]] := by
  intro ls hls
  simp at hls
  rcases hls with rfl | rfl
  · exact ⟨⟨[], false, []⟩, by decide, rfl, fun _ => rfl⟩
  · exact ⟨⟨[], false, []⟩, by decide, rfl, fun _ => rfl⟩

/-- on that system the count of key 5 is 3 (2 on one rank, one of them from a handler, 1 on the other) -/
example : ownerCount (allMsgs 4 [PinnedCache.d5HistoryRepaired, [.ins 5 1, .done, .fb, .pack, .ret, .fe]]) 5 = 3 := by
  decide

end YgmVerif.Cache
