import YgmVerif.Lemmas.Barrier
/-!
# C02 — barrier() returns only after global quiescence of all RPC activity

The theorems are about the executable `YgmVerif.Barrier.step` (the function the driver's `barrier` mode
replays real event histories through).  `step_sound` connects it to the relation `Step` over which the
18-clause invariant of `Lemmas/Barrier.lean` is proved.

Scope: one barrier epoch, from ANY start state in which no rank is inside the barrier and the message
ledger balances (`Init`: arbitrary counters, handlers possibly running, callbacks possibly pending) —
so every epoch of a multi-barrier program is an instance; the acceptor replays epochs one by one.
-/
namespace YgmVerif.Barrier

/-- every enabled step of the executable model is a step of the relation the invariant is proved for -/
theorem step_sound {n : Nat} {s s' : Sys} {l : Label} (h : step n s l = some s') : Step n s s' := by
  cases l with
  | issue r =>
    simp only [step] at h; split at h
    · rename_i hc; cases h; exact Step.issue s r hc.1 hc.2
    · cases h
  | start r =>
    simp only [step] at h; split at h
    · rename_i hc; cases h; exact Step.start s r hc.1 hc.2.1 hc.2.2
    · cases h
  | finish r =>
    simp only [step] at h; split at h
    · rename_i hc; cases h; exact Step.finish s r hc.1 hc.2
    · cases h
  | regcb r =>
    simp only [step] at h; split at h
    · rename_i hc; cases h; exact Step.regcb s r hc.1 hc.2
    · cases h
  | runcb r k j =>
    simp only [step] at h; split at h
    · rename_i hc; cases h; exact Step.runcb s r k j hc.1 hc.2.1 hc.2.2
    · cases h
  | enter r =>
    simp only [step] at h; split at h
    · rename_i hc; cases h; exact Step.enter s r hc.1 hc.2.1 hc.2.2.1 hc.2.2.2
    · cases h
  | contribute r =>
    simp only [step] at h; split at h
    · rename_i hc; cases h; exact Step.contribute s r hc.1 hc.2.1 hc.2.2.1 hc.2.2.2.1 hc.2.2.2.2
    · cases h
  | result r =>
    simp only [step] at h; split at h
    · rename_i hc; cases h; exact Step.result s r hc.1 hc.2.1 hc.2.2.1 hc.2.2.2
    · cases h
  | exit r =>
    simp only [step] at h; split at h
    · rename_i hc; cases h; exact Step.exit s r hc.1 hc.2.1 hc.2.2.1 hc.2.2.2.1 hc.2.2.2.2
    · cases h

/-- every state reached by an accepted label sequence from an initial state is `Reachable` -/
theorem run_reachable {n : Nat} {s0 s : Sys} (ls : List Label) (h0 : Reachable n s0)
    (hrun : run n s0 ls = some s) : Reachable n s := by
  induction ls generalizing s0 with
  | nil => simp only [run] at hrun; cases hrun; exact h0
  | cons l ls ih =>
    simp only [run] at hrun
    cases hst : step n s0 l with
    | none => rw [hst] at hrun; cases hrun
    | some s1 =>
      rw [hst] at hrun
      exact ih (Reachable.step s0 s1 h0 (step_sound hst)) hrun

theorem exitEnabled_iff (s : Sys) (r : Nat) : exitEnabled s r = true ↔ ExitEnabled s r := by
  unfold exitEnabled ExitEnabled
  simp [Bool.and_eq_true, beq_iff_eq, and_assoc]

/-- **C02, main theorem.**  For every number of ranks, every start state of an epoch and every label
sequence accepted by `step` (i.e. every interleaving of issue / handler start / handler finish / callback
registration / callback run / barrier entry / count contribution / result consumption / exit of all
ranks): if in the reached state no rank has left the barrier yet and the exit rule is enabled for some
rank `r`, then no message is undelivered, and every rank is inside the barrier, runs no handler and
has no pending pre-barrier callback. -/
theorem C02_exit_implies_quiescent (n : Nat) (s0 s : Sys) (ls : List Label)
    (h0 : Init n s0) (hrun : run n s0 ls = some s)
    (hne : ∀ q, q < n → s.exited q = false) (r : Nat) (hr : r < n) (hx : exitEnabled s r = true) :
    s.und = 0 ∧ ∀ q, q < n → s.inBar q = true ∧ s.busy q = false ∧ s.cbs q = 0 := by
  have hreach := run_reachable ls (Reachable.init s0 h0) hrun
  have hd := exit_dead (reachable_inv hreach) hne r hr ((exitEnabled_iff s r).1 hx)
  exact ⟨hd.1, fun q hq => ⟨(hd.2 q hq).2.2.1, (hd.2 q hq).1, (hd.2 q hq).2.1⟩⟩

/-- the `exit` label itself is only ever accepted in such a quiescent state (first exit of the epoch) -/
theorem C02_first_exit_step_quiescent (n : Nat) (s0 s s' : Sys) (ls : List Label) (r : Nat)
    (h0 : Init n s0) (hrun : run n s0 ls = some s) (hne : ∀ q, q < n → s.exited q = false)
    (hstep : step n s (.exit r) = some s') :
    s.und = 0 ∧ ∀ q, q < n → s.inBar q = true ∧ s.busy q = false ∧ s.cbs q = 0 := by
  simp only [step] at hstep
  split at hstep
  · rename_i hc
    refine C02_exit_implies_quiescent n s0 s ls h0 hrun hne r hc.1 ?_
    rw [exitEnabled_iff]; exact ⟨hc.2.1, hc.2.2.1, hc.2.2.2.1, hc.2.2.2.2⟩
  · cases hstep

/-- contrapositive, the form the property is usually quoted in: while anything is still in flight,
a handler runs, a callback is pending or some rank has not entered, nobody can leave. -/
theorem C02_no_exit_while_active (n : Nat) (s0 s : Sys) (ls : List Label)
    (h0 : Init n s0) (hrun : run n s0 ls = some s) (hne : ∀ q, q < n → s.exited q = false)
    (hact : 0 < s.und ∨ ∃ q, q < n ∧ (s.inBar q = false ∨ s.busy q = true ∨ 0 < s.cbs q))
    (r : Nat) (hr : r < n) : exitEnabled s r = false := by
  cases hx : exitEnabled s r with
  | false => rfl
  | true =>
    have h := C02_exit_implies_quiescent n s0 s ls h0 hrun hne r hr hx
    rcases hact with hu | ⟨q, hq, hq'⟩
    · omega
    · have := h.2 q hq
      rcases hq' with h1 | h1 | h1
      · rw [this.1] at h1; cases h1
      · rw [this.2.1] at h1; cases h1
      · omega

/-- quiescence persists: once dead, the only enabled labels are contribute / result / exit, so work issued
before the barrier can never run after the first exit (no `start`, `finish`, `runcb` is enabled). -/
theorem C02_dead_no_work (n : Nat) (s : Sys)
    (hd : s.und = 0 ∧ ∀ q, q < n → s.inBar q = true ∧ s.busy q = false ∧ s.cbs q = 0) (r k j : Nat) :
    step n s (.start r) = none ∧ step n s (.finish r) = none ∧ step n s (.runcb r k j) = none ∧
    step n s (.issue r) = none ∧ step n s (.regcb r) = none := by
  refine ⟨?_, ?_, ?_, ?_, ?_⟩ <;> simp only [step] <;> split <;> try rfl
  all_goals rename_i hc
  · omega
  · have := (hd.2 r hc.1).2.1; rw [hc.2] at this; cases this
  · have := (hd.2 r hc.1).2.2; omega
  · have := hd.2 r hc.1
    rcases hc.2 with h | h
    · rw [this.1] at h; cases h
    · rw [this.2.1] at h; cases h
  · have := hd.2 r hc.1
    rcases hc.2 with h | h
    · rw [this.1] at h; cases h
    · rw [this.2.1] at h; cases h

/-- the start states the driver builds satisfy `Init` whenever the ledger balances -/
theorem mkInit_Init (n : Nat) (sent recvd : Nat → Nat) (busy : Nat → Bool) (cbs : Nat → Nat) (und : Nat)
    (hl : und + sumTo n (fun r => b2n (busy r)) + sumTo n recvd = sumTo n sent) :
    Init n (mkInit sent recvd busy cbs und) := by
  refine ⟨fun r _ => ⟨rfl, rfl, rfl, rfl⟩, fun k => ⟨rfl, rfl, rfl⟩, hl⟩

/-! ### non-vacuity: a concrete two-rank epoch in which rank 0 sends one message to rank 1 -/
private def demoLabels : List Label :=
  [.issue 0, .enter 0, .contribute 0, .start 1, .finish 1, .enter 1, .contribute 1,
   .result 0, .result 1, .contribute 0, .contribute 1, .result 0, .result 1,
   .contribute 0, .contribute 1, .result 0, .result 1]

example : ((run 2 (mkInit (fun _ => 0) (fun _ => 0) (fun _ => false) (fun _ => 0) 0) demoLabels).map
    (fun s => (exitEnabled s 0, exitEnabled s 1, s.und))) = some (true, true, 0) := by decide

/-- after a single reduction round the rule cannot fire, balanced or not -/
example : ((run 2 (mkInit (fun _ => 0) (fun _ => 0) (fun _ => false) (fun _ => 0) 0) (demoLabels.take 9)).map
    (fun s => (exitEnabled s 0, exitEnabled s 1))) = some (false, false) := by decide

end YgmVerif.Barrier
