import YgmVerif.Lemmas.Part
/-!
# C10 — each key/index has exactly one owner; array blocks partition the index range

Theorems about `YgmVerif.Part` (the model of array.ipp / hash_partitioner.hpp /
bag.ipp's rebalance target).  For all `ranks > 0`, all `len` (including `0` and
`len < ranks`), all `i < len`.
-/
namespace YgmVerif.Part

theorem start_zero (len ranks : Nat) : start len ranks 0 = 0 := by
  rw [start_eq]; simp

/-- contiguous and disjoint: block `r+1` starts where block `r` ends -/
theorem start_succ (len ranks r : Nat) :
    start len ranks (r+1) = start len ranks r + localSize len ranks r := by
  rw [start_eq, start_eq, localSize_eq, Nat.add_mul]
  by_cases h : r < rem len ranks
  · simp only [h, if_true]
    rw [Nat.min_eq_left (by omega), Nat.min_eq_left (by omega)]; omega
  · simp only [h, if_false]
    rw [Nat.min_eq_right (by omega), Nat.min_eq_right (by omega)]; omega

/-- cover: the last block ends at `len` -/
theorem start_ranks (len ranks : Nat) (hr : 0 < ranks) : start len ranks ranks = len := by
  rw [start_eq, Nat.min_eq_right (Nat.le_of_lt (rem_lt len ranks hr))]
  exact small_mul_add len ranks

theorem start_mono (len ranks : Nat) {a b : Nat} (h : a ≤ b) :
    start len ranks a ≤ start len ranks b := by
  induction h with
  | refl => exact Nat.le_refl _
  | step _ ih => rw [start_succ]; omega

/-- block sizes differ by at most one -/
theorem sizes_differ_le_one (len ranks a b : Nat) :
    localSize len ranks a ≤ localSize len ranks b + 1 := by
  unfold localSize; split <;> split <;> omega

/-- the owner computed by the code exists (no division by zero), is in range, and is the
rank whose block contains `i` -/
theorem owner_spec (len ranks i : Nat) (hr : 0 < ranks) (hi : i < len) :
    ∃ r, owner len ranks i = some r ∧ r < ranks ∧
      start len ranks r ≤ i ∧ i < start len ranks r + localSize len ranks r := by
  have hdm := small_mul_add len ranks
  have hrem : rem len ranks < ranks := rem_lt len ranks hr
  unfold owner cdiv
  by_cases h1 : i < rem len ranks * large len ranks
  · have hpos : rem len ranks > 0 := by
      rcases Nat.eq_zero_or_pos (rem len ranks) with h | h
      · rw [h] at h1; simp at h1
      · exact h
    have hL : large len ranks = small len ranks + 1 := large_of_rem_pos _ _ hpos
    have hLpos : large len ranks ≠ 0 := by omega
    simp only [h1, hLpos, if_true, if_false]
    have hq : i / large len ranks < rem len ranks := by
      rw [Nat.div_lt_iff_lt_mul (by omega)]; exact h1
    refine ⟨_, rfl, by omega, ?_, ?_⟩
    · unfold start; simp only [hq, if_true]; exact Nat.div_mul_le_self i _
    · unfold start localSize; simp only [hq, if_true]
      rw [← hL]
      exact Nat.lt_div_mul_add (by omega)
  · -- small-block region
    simp only [h1, if_false]
    have hge : rem len ranks * large len ranks ≤ i := by omega
    -- small > 0, otherwise len = rem and i < len = rem * large contradicts
    have hs : small len ranks ≠ 0 := by
      intro hz
      have hlen : len = rem len ranks := by rw [hz] at hdm; simpa using hdm.symm
      by_cases hp : 0 < rem len ranks
      · rw [large_of_rem_pos _ _ hp, hz] at hge; simp at hge; omega
      · omega
    simp only [hs, if_false, Option.map_some]
    obtain ⟨j, hj⟩ : ∃ j, i = rem len ranks * large len ranks + j := ⟨i - rem len ranks * large len ranks, by omega⟩
    have hij : i - rem len ranks * large len ranks = j := by omega
    rw [hij]
    -- the part after the large blocks has (ranks - rem) * small elements
    have hRL : rem len ranks * large len ranks = rem len ranks * small len ranks + rem len ranks := by
      by_cases hp : 0 < rem len ranks
      · rw [large_of_rem_pos _ _ hp, Nat.mul_add, Nat.mul_one]
      · have hz : rem len ranks = 0 := by omega
        simp [hz]
    have hsplit : ranks * small len ranks =
        rem len ranks * small len ranks + (ranks - rem len ranks) * small len ranks := by
      rw [← Nat.add_mul]; congr 1; omega
    have hjlt : j < (ranks - rem len ranks) * small len ranks := by omega
    have hq : j / small len ranks < ranks - rem len ranks := by
      rw [Nat.div_lt_iff_lt_mul (by omega)]; exact hjlt
    refine ⟨rem len ranks + j / small len ranks, rfl, by omega, ?_, ?_⟩
    · unfold start
      have hn : ¬ (rem len ranks + j / small len ranks < rem len ranks) := Nat.not_lt.mpr (Nat.le_add_right _ _)
      simp only [hn, if_false]
      have : rem len ranks + j / small len ranks - rem len ranks = j / small len ranks := Nat.add_sub_cancel_left _ _
      rw [this]
      have := Nat.div_mul_le_self j (small len ranks)
      omega
    · unfold start localSize
      have hn : ¬ (rem len ranks + j / small len ranks < rem len ranks) := Nat.not_lt.mpr (Nat.le_add_right _ _)
      simp only [hn, if_false]
      have : rem len ranks + j / small len ranks - rem len ranks = j / small len ranks := Nat.add_sub_cancel_left _ _
      rw [this]
      have := Nat.lt_div_mul_add (a := j) (b := small len ranks) (by omega)
      omega

/-- a rank whose block contains `i` is the owner: exactly one owner -/
theorem owner_unique (len ranks i r : Nat) (hr : 0 < ranks) (hi : i < len)
    (h1 : start len ranks r ≤ i) (h2 : i < start len ranks r + localSize len ranks r) :
    owner len ranks i = some r := by
  obtain ⟨q, hq, _, hq1, hq2⟩ := owner_spec len ranks i hr hi
  rw [hq]; congr 1
  rcases Nat.lt_trichotomy q r with h | h | h
  · have := start_mono len ranks (show q + 1 ≤ r by omega)
    rw [start_succ] at this; omega
  · exact h
  · have := start_mono len ranks (show r + 1 ≤ q by omega)
    rw [start_succ] at this; omega

/-- `local_index` / `global_index` are inverse on the owner's block -/
theorem global_local_inverse (len ranks r i : Nat) (h1 : start len ranks r ≤ i) :
    globalIndex len ranks r (localIndex len ranks r i) = i := by
  unfold globalIndex localIndex; omega

theorem local_global_inverse (len ranks r j : Nat) :
    localIndex len ranks r (globalIndex len ranks r j) = j := by
  unfold globalIndex localIndex; omega

/-- the local index the owner computes is inside its local vector
(the `ASSERT_RELEASE(l_index < m_local_vec.size())` of the handlers cannot fire) -/
theorem localIndex_lt (len ranks i : Nat) (hr : 0 < ranks) (hi : i < len) :
    ∃ r, owner len ranks i = some r ∧ localIndex len ranks r i < localSize len ranks r := by
  obtain ⟨q, hq, _, hq1, hq2⟩ := owner_spec len ranks i hr hi
  exact ⟨q, hq, by unfold localIndex; omega⟩

/-- every index a rank presents in `for_all` is owned by that rank -/
theorem indicesOf_owned (len ranks r i : Nat) (hr : 0 < ranks) (hrr : r < ranks)
    (h : i ∈ indicesOf len ranks r) : i < len ∧ owner len ranks i = some r := by
  unfold indicesOf at h
  simp only [List.mem_map, List.mem_range] at h
  obtain ⟨j, hj, rfl⟩ := h
  unfold globalIndex
  have hle : start len ranks (r+1) ≤ start len ranks ranks := start_mono len ranks (by omega)
  rw [start_succ, start_ranks len ranks hr] at hle
  have hlt : start len ranks r + j < len := by omega
  exact ⟨hlt, owner_unique len ranks _ r hr hlt (by omega) (by omega)⟩

/-- every index below `len` is presented by its owner (so: exactly once across ranks) -/
theorem mem_indicesOf_owner (len ranks i : Nat) (hr : 0 < ranks) (hi : i < len) :
    ∃ r, r < ranks ∧ owner len ranks i = some r ∧ i ∈ indicesOf len ranks r := by
  obtain ⟨q, hq, hqr, hq1, hq2⟩ := owner_spec len ranks i hr hi
  refine ⟨q, hqr, hq, ?_⟩
  unfold indicesOf
  simp only [List.mem_map, List.mem_range]
  exact ⟨i - start len ranks q, by omega, by unfold globalIndex; omega⟩

theorem indicesOf_nodup (len ranks r : Nat) : (indicesOf len ranks r).Nodup := by
  unfold indicesOf
  rw [List.Nodup, List.pairwise_map]
  exact List.Pairwise.imp (fun h => by unfold globalIndex; omega) List.nodup_range

/-- hash containers: the owner is always a valid rank -/
theorem hashOwner_lt (h nranks : Nat) (hn : 0 < nranks) : hashOwner h nranks < nranks :=
  Nat.mod_lt _ hn

/-- non-vacuity: a non-divisible length on several ranks, and `len < ranks` -/
example : owner 10 4 9 = some 3 ∧ owner 3 4 1 = some 1 ∧ owner 3 4 2 = some 2 := by decide
example : (List.range 4).map (localSize 3 4) = [1, 1, 1, 0] := by decide

end YgmVerif.Part
