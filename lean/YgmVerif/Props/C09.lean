import YgmVerif.Lemmas.Coll
/-!
# C09 — collectives equal the sequential fold at every communicator size

Theorems about `YgmVerif.Coll`.  Two kinds:

* YGM's own code (`comm::all_reduce` reduction tree, `mpi_send/mpi_recv/mpi_bcast`, the serialised
  `ygm::bcast`, `is_same`, `prefix_sum`'s rank-0 handling): proved for every communicator size
  `n ≥ 1` (powers of two or not), every input vector, every merge function satisfying the stated
  algebraic hypotheses.
* MPI-delegated wrappers (`all_reduce_sum/min/max`, `sum/min/max/logical_*`, `prefix_sum`, POD
  `bcast`): `MPI_Allreduce / MPI_Exscan / MPI_Bcast` are *modelled by their MPI-standard
  specification* (`mpiAllreduce`, `mpiExscan`, `mpiBcast`), so the theorems named `*_wrapper_*`
  only say that YGM's composition of those calls meets the property *given* that specification; the
  YGM-side content is `mpiTypeof_faithful` (datatype mapping) and `reductions_after_barrier`.
-/
namespace YgmVerif.Coll

/-- the exact nesting for an arbitrary merge (no algebraic hypothesis):
`tmp = merge (merge x_r V(2r+1)) V(2r+2)`, each child only if it is a rank -/
theorem subtreeVal_shape {α : Type} (n : Nat) (merge : α → α → α) (x : Nat → α) (r : Nat) :
    subtreeVal n merge x r =
      (let t1 := if firstChild r < n then merge (x r) (subtreeVal n merge x (firstChild r)) else x r
       if secondChild r < n then merge t1 (subtreeVal n merge x (secondChild r)) else t1) :=
  subtreeVal_unfold n merge x r

/-- the ranks merged into rank 0's value are a permutation of `0 … n-1`: every input enters exactly once -/
theorem subtree_perm (n : Nat) : (subtreeList n 0).Perm (List.range n) := subtreeList_perm_range n

/-- the receives posted in Step 1 and the sends of Step 2 pair up exactly: rank `r` receives from `c`
iff rank `c` (≠ 0) sends to `r` — no unmatched blocking call at any size -/
theorem recv_matches_send (n r c : Nat) :
    (c < n ∧ (c = firstChild r ∨ c = secondChild r)) ↔ (c < n ∧ c ≠ 0 ∧ parent c = r) := by
  constructor
  · rintro ⟨hc, rfl | rfl⟩
    · exact ⟨hc, by simp [firstChild], parent_firstChild r⟩
    · exact ⟨hc, by simp [secondChild], parent_secondChild r⟩
  · rintro ⟨hc, h0, rfl⟩
    refine ⟨hc, ?_⟩
    rcases child_of_parent c (by omega) with h | h
    · exact .inl h.symm
    · exact .inr h.symm

/-- merge ORDER for an associative (not necessarily commutative) merge: every rank returns the left fold
of the inputs taken in heap pre-order `subtreeList n 0 = 0, 1, 3, 7, …, 4, …, 2, 5, …, 6, …` -/
theorem treeReduce_order {α : Type} (merge : α → α → α)
    (assoc : ∀ a b c, merge (merge a b) c = merge a (merge b c))
    (n : Nat) (hn : 0 < n) (x : Nat → α) (rank : Nat) :
    treeReduce n merge x rank = ((subtreeList n 0).tail.map x).foldl merge (x 0) := by
  unfold treeReduce bcastFrom
  exact subtreeVal_eq_foldl merge assoc n x 0 hn

/-- associative + commutative merge ⇒ every rank returns `x₀ ⊕ x₁ ⊕ … ⊕ x_{n-1}` (rank order) -/
theorem treeReduce_eq_fold {α : Type} (merge : α → α → α)
    (assoc : ∀ a b c, merge (merge a b) c = merge a (merge b c))
    (comm : ∀ a b, merge a b = merge b a)
    (n : Nat) (hn : 0 < n) (x : Nat → α) (rank : Nat) :
    treeReduce n merge x rank = ((List.range' 1 (n - 1)).map x).foldl merge (x 0) := by
  rw [treeReduce_order merge assoc n hn]
  have hp : ((subtreeList n 0).tail).Perm (List.range' 1 (n - 1)) := by
    have h := subtree_perm n
    rw [subtreeList_head_tail hn, List.range_eq_range'] at h
    obtain ⟨k, rfl⟩ : ∃ k, n = k + 1 := ⟨n - 1, by omega⟩
    rw [List.range'_succ] at h
    simpa using h.cons_inv
  exact List.Perm.foldl_eq' (hp.map x) (fun a _ b _ z => by rw [assoc, comm a b, ← assoc]) _

/-- all ranks return the same value (Step 3 broadcasts rank 0's) -/
theorem treeReduce_all_equal {α : Type} (n : Nat) (merge : α → α → α) (x : Nat → α) (r q : Nat) :
    treeReduce n merge x r = treeReduce n merge x q := rfl

/-- headline, list form: on `rest.length + 1 ≥ 1` ranks with inputs `x0 :: rest` every rank gets the sequential fold -/
theorem treeReduceL_eq_fold {α : Type} (merge : α → α → α)
    (assoc : ∀ a b c, merge (merge a b) c = merge a (merge b c))
    (comm : ∀ a b, merge a b = merge b a) (x0 : α) (rest : List α) :
    treeReduceL merge x0 rest = List.replicate (rest.length + 1) (rest.foldl merge x0) := by
  unfold treeReduceL
  have hmap : (List.range' 1 rest.length).map (fun i => (x0 :: rest).getD i x0) = rest := by
    apply List.ext_getElem
    · simp
    · intro i h1 h2
      simp [List.getD_eq_getElem?_getD, Nat.add_comm 1 i, h2]
  apply List.ext_getElem
  · simp
  · intro i h1 h2
    simp only [List.getElem_map, List.getElem_replicate]
    rw [treeReduce_eq_fold merge assoc comm _ (Nat.succ_pos _)]
    rw [show rest.length.succ - 1 = rest.length from rfl, hmap]
    rfl

/-! ## MPI-delegated collectives -/

/-- [MPI spec assumed] `all_reduce_sum/min/max`, `sum/min/max/logical_and/logical_or` = fold on every rank -/
theorem allReduceOp_wrapper_spec {α : Type} (op : α → α → α) (x0 : α) (rest : List α) :
    allReduceOp op (x0 :: rest) = List.replicate (rest.length + 1) (rest.foldl op x0) := rfl

theorem allReduceOp_wrapper_all_equal {α : Type} (op : α → α → α) (xs : List α) (r q : Nat)
    (hr : r < xs.length) (hq : q < xs.length) :
    (allReduceOp op xs)[r]? = (allReduceOp op xs)[q]? ∧ (allReduceOp op xs).length = xs.length := by
  cases xs with
  | nil => simp at hr
  | cons x0 rest =>
    simp only [List.length_cons] at hr hq
    simp [allReduceOp, mpiAllreduce, hr, hq]

/-- [MPI spec assumed] `prefix_sum` on rank `r` = `Σ_{q<r} x_q` (exclusive), for every `r < n` including 0 -/
theorem prefix_wrapper_spec {α : Type} (zero : α) (add : α → α → α) (hz : ∀ a, add zero a = a)
    (xs : List α) (r : Nat) (hr : r < xs.length) :
    (prefixSum zero add xs)[r]? = some ((xs.take r).foldl add zero) := by
  unfold prefixSum mpiExscan
  simp only [List.map_map, List.getElem?_map, List.getElem?_range hr, Option.map_some, Function.comp]
  congr 1
  cases h : xs.take r with
  | nil => rfl
  | cons y0 ys => simp [hz]

/-- rank 0 gets `0` whatever `add` is: it is YGM's initialiser `T to_return{0}`, not MPI, that provides it -/
theorem prefix_wrapper_rank0 {α : Type} (zero : α) (add : α → α → α) (x0 : α) (rest : List α) :
    (prefixSum zero add (x0 :: rest))[0]? = some zero := by
  simp [prefixSum, mpiExscan, List.range_succ_eq_map]

/-- [MPI spec assumed] POD `bcast`: every rank ends with the root's value, for every root `< n` -/
theorem bcastPod_wrapper_spec {α : Type} (root : Nat) (vals : List α) (h : root < vals.length) :
    bcastPod root vals = some (List.replicate vals.length vals[root]) := by
  unfold bcastPod
  rw [List.getElem?_eq_getElem h, Option.map_some]
  congr 1
  exact List.map_const' ..

theorem bcastPod_bad_root {α : Type} (root : Nat) (vals : List α) (h : vals.length ≤ root) :
    bcastPod root vals = none := by
  unfold bcastPod; rw [List.getElem?_eq_none h]; rfl

/-- `mpi_send` → `mpi_recv` is the identity, given the serialiser round trip (C06) -/
theorem xfer_id {α β : Type} (c : Codec α β) (ok : ∀ v, c.des (c.ser v) = some v) (v : α) :
    xfer c v = some v := by
  unfold xfer; simp [ok]

theorem mpiBcast_uniform {β : Type} (root : Nat) (bufs : List (List β)) (b : List β)
    (hroot : bufs[root]? = some b) (hlen : ∀ x ∈ bufs, x.length = b.length) :
    mpiBcast root bufs = some (List.replicate bufs.length b) := by
  unfold mpiBcast
  rw [hroot]
  have : bufs.all (fun x => x.length == b.length) = true := by
    rw [List.all_eq_true]; intro x hx; simp [hlen x hx]
  simp only [this, if_true]
  congr 1
  exact List.map_const' ..

/-- serialised `ygm::bcast`: both `MPI_Bcast`s are legal (equal counts on all ranks) and every rank ends with
the root's value — every root, every size, given the serialiser round trip -/
theorem bcastSer_spec {α β : Type} (c : Codec α β) (ok : ∀ v, c.des (c.ser v) = some v) (dflt : β)
    (root : Nat) (vals : List α) (h : root < vals.length) :
    bcastSer c dflt root vals = some (List.replicate vals.length (some vals[root])) := by
  unfold bcastSer
  simp only []
  rw [mpiBcast_uniform root _ [(c.ser vals[root]).length]]
  · simp only [List.length_map, List.length_range]
    rw [mpiBcast_uniform root _ (c.ser vals[root])]
    · simp only [List.length_map, List.length_range]
      congr 1
      apply List.ext_getElem
      · simp
      · intro i h1 h2
        simp only [List.length_map, List.length_range] at h1
        simp only [List.getElem_map, List.getElem_range, List.getElem_replicate]
        by_cases hi : i = root
        · subst hi; simp [h]
        · simp [hi, List.getD_eq_getElem?_getD, h1, ok]
    · simp [h]
    · intro x hx
      simp only [List.mem_map, List.mem_range] at hx
      obtain ⟨r, hr, rfl⟩ := hx
      by_cases hi : r = root
      · subst hi; simp [h, List.getD_eq_getElem?_getD]
      · simp [hi, hr, List.getD_eq_getElem?_getD]
  · simp [h]
  · intro x hx
    simp only [List.mem_map] at hx
    obtain ⟨_, _, rfl⟩ := hx
    rfl

/-- `comm::mpi_bcast` (the root deserialises too) -/
theorem mpiBcastSer_spec {α β : Type} (c : Codec α β) (ok : ∀ v, c.des (c.ser v) = some v) (dflt : β)
    (root : Nat) (vals : List α) (h : root < vals.length) :
    mpiBcastSer c dflt root vals = some (List.replicate vals.length (some vals[root])) := by
  unfold mpiBcastSer
  rw [bcastSer_spec c ok dflt root vals h]
  simp only []
  congr 1
  apply List.ext_getElem
  · simp
  · intro i h1 h2
    simp only [List.length_map, List.length_range] at h1
    simp only [List.getElem_map, List.getElem_range, List.getElem_replicate]
    by_cases hi : i = root
    · subst hi; simp [h, xfer_id c ok]
    · simp [hi, List.getD_eq_getElem?_getD, h1]

/-- `is_same` returns on every rank whether all inputs equal rank 0's -/
theorem isSame_spec {α : Type} (eq : α → α → Bool) (x0 : α) (rest : List α) :
    isSame eq (x0 :: rest) = List.replicate (rest.length + 1) ((x0 :: rest).all (fun v => eq v x0)) := by
  unfold isSame
  rw [bcastPod_wrapper_spec 0 (x0 :: rest) (Nat.succ_pos _)]
  simp only [List.getElem_cons_zero, List.length_cons]
  have hz : ∀ (l : List α) (k : Nat), l.length ≤ k →
      (l.zip (List.replicate k x0)).map (fun (p : α × α) => eq p.1 p.2) = l.map (fun v => eq v x0) := by
    intro l
    induction l with
    | nil => intro k _; simp
    | cons a t ih =>
      intro k hk
      obtain ⟨k', rfl⟩ : ∃ k', k = k' + 1 := ⟨k - 1, by simp at hk; omega⟩
      simp only [List.replicate_succ, List.zip_cons_cons, List.map_cons]
      rw [ih k' (by simp at hk; omega)]
  rw [hz _ _ (by simp)]
  have hf : ∀ (l : List Bool) (b : Bool), l.foldl (· && ·) b = (b && l.all id) := by
    intro l
    induction l with
    | nil => intro b; simp
    | cons a t ih => intro b; simp [ih, Bool.and_assoc]
  simp only [List.map_cons, allReduceOp, mpiAllreduce, List.length_map, hf, List.all_cons, List.all_map]
  rfl

/-! ## datatype mapping and program structure (finite tables: `decide` / case split is the whole quantifier) -/

/-- `mpi_typeof<T>` names an MPI datatype of the same value category and width as `T` -/
theorem mpiTypeof_faithful (t : CTy) :
    (mpiTypeof t).kind = t.kind ∧ (mpiTypeof t).bytes = t.bytes := by
  cases t <;> exact ⟨rfl, rfl⟩

theorem mpiTypeof_injective (a b : CTy) (h : mpiTypeof a = mpiTypeof b) : a = b := by
  cases a <;> cases b <;> first | rfl | cases h

/-- structural: each free-function reduction of collective.hpp runs `barrier()` before its MPI reduction
(composition with C02 gives "all outstanding asyncs are complete") -/
theorem reductions_after_barrier (c : Coll) (h : c ∈ Coll.freeReductions) :
    barrierBeforeReductions c.prims = true := by
  simp only [Coll.freeReductions, List.mem_cons, List.not_mem_nil, or_false] at h
  rcases h with rfl | rfl | rfl | rfl | rfl | rfl | rfl <;> rfl

/-- structural: `bcast` and the `comm::all_reduce*` members do NOT barrier (callers must; cf. finding D7) -/
theorem comm_members_do_not_barrier (c : Coll)
    (h : c ∈ [Coll.bcast, .commAllReduceSum, .commAllReduceMin, .commAllReduceMax, .commAllReduce]) :
    Prim.barrier ∉ c.prims := by
  simp only [List.mem_cons, List.not_mem_nil, or_false] at h
  rcases h with rfl | rfl | rfl | rfl | rfl <;> decide

/-- structural: `sum / min / max / prefix_sum` fold the values their argument variables hold AFTER the
barrier, i.e. with every outstanding async applied (composition with C02), whatever they held at the call -/
theorem reductions_read_after_barrier {α : Type} (c : Coll) (h : c ∈ [Coll.sum, .min, .max, .prefixSum])
    (atCall final : List α) : contributed c atCall final = final := by
  simp only [List.mem_cons, List.not_mem_nil, or_false] at h
  rcases h with rfl | rfl | rfl | rfl <;> rfl

/-- structural: `logical_and / logical_or` (bool by value) and `is_same` (read before `logical_and`'s
barrier) fold the values passed at the call — later handler updates of the variable are not seen -/
theorem by_value_reductions_read_at_call {α : Type} (c : Coll) (h : c ∈ [Coll.logicalAnd, .logicalOr, .isSame])
    (atCall final : List α) : contributed c atCall final = atCall := by
  simp only [List.mem_cons, List.not_mem_nil, or_false] at h
  rcases h with rfl | rfl | rfl <;> rfl

/-- meaning of the boolean check used above -/
theorem barrierBeforeReductions_sound (ps : List Prim) (h : barrierBeforeReductions ps = true)
    (i : Nat) (p : Prim) (hp : ps[i]? = some p) (hr : p.isReduction = true) :
    ∃ j, j < i ∧ ps[j]? = some Prim.barrier := by
  induction ps generalizing i with
  | nil => simp at hp
  | cons q rest ih =>
    cases i with
    | zero =>
      simp only [List.getElem?_cons_zero, Option.some.injEq] at hp
      subst hp
      cases q <;> simp_all [barrierBeforeReductions, Prim.isReduction]
    | succ i =>
      by_cases hq : q = Prim.barrier
      · exact ⟨0, Nat.succ_pos _, by simp [hq]⟩
      · have hrest : barrierBeforeReductions rest = true := by
          cases q <;> simp_all [barrierBeforeReductions]
        obtain ⟨j, hj, hjb⟩ := ih hrest i (by simpa using hp)
        exact ⟨j + 1, by omega, by simpa using hjb⟩

/-! ## the operators of the correspondence run satisfy the hypotheses of `treeReduce_eq_fold` -/

theorem opInt_comm (t : CTy) (o : Op) (a b : Int) : opInt t o a b = opInt t o b a := by
  cases o <;> simp only [opInt, addTy]
  · split <;> simp [Int.add_comm]
  · split <;> split <;> omega
  · split <;> split <;> omega
  · simp [and_comm]
  · simp [or_comm]

theorem opInt_assoc (t : CTy) (o : Op) (a b c : Int) :
    opInt t o (opInt t o a b) c = opInt t o a (opInt t o b c) := by
  cases o <;> simp only [opInt, addTy]
  · cases t.kind <;> simp [Int.emod_add_emod, Int.add_emod_emod, Int.add_assoc]
  · repeat' split
    all_goals omega
  · repeat' split
    all_goals omega
  · repeat' split
    all_goals simp_all
  · repeat' split
    all_goals simp_all

/-- instance of the headline theorem for every (type, MPI-style operator) pair the check runs the tree with -/
theorem treeReduceL_opInt (t : CTy) (o : Op) (x0 : Int) (rest : List Int) :
    treeReduceL (opInt t o) x0 rest = allReduceOp (opInt t o) (x0 :: rest) := by
  rw [treeReduceL_eq_fold _ (opInt_assoc t o) (opInt_comm t o)]; rfl

theorem string_append_assoc (a b c : String) : (a ++ b) ++ c = a ++ (b ++ c) := String.append_assoc ..

/-- the tree with string / list append (associative, NOT commutative): the result is the
concatenation of the inputs in heap pre-order — not in rank order -/
theorem treeReduce_append_order {γ : Type} (n : Nat) (hn : 0 < n) (x : Nat → List γ) (rank : Nat) :
    treeReduce n (· ++ ·) x rank = ((subtreeList n 0).map x).flatten := by
  rw [treeReduce_order _ (fun a b c => List.append_assoc a b c) n hn, subtreeList_head_tail hn]
  simp only [List.tail_cons, List.map_cons, List.flatten_cons]
  generalize (subtreeList n 0).tail = l
  generalize x 0 = a
  induction l generalizing a with
  | nil => simp
  | cons y t ih => simp only [List.map_cons, List.foldl_cons, List.flatten_cons]; rw [ih, List.append_assoc]

/-! ## non-vacuity -/
example : subtreeList 6 0 = [0, 1, 3, 4, 2, 5] := by
  simp [subtreeList_of_lt, subtreeList_of_ge, firstChild, secondChild]
example : treeReduceL parenMerge "a" ["b", "c", "d", "e", "f"] = List.replicate 6 "((a.((b.d).e)).(c.f))" := by
  simp [treeReduceL, treeReduce, bcastFrom, subtreeVal_unfold, firstChild, secondChild, parenMerge, List.range_succ]
example : treeReduceL (· ++ ·) [0] [[1], [2], [3], [4]] = List.replicate 5 [0, 1, 3, 4, 2] := by
  simp [treeReduceL, treeReduce, bcastFrom, subtreeVal_unfold, firstChild, secondChild, List.range_succ]
example : treeReduceL (opInt .u8 .SUM) 200 [100, 7] = [51, 51, 51] := by
  simp [treeReduceL, treeReduce, bcastFrom, subtreeVal_unfold, firstChild, secondChild, List.range_succ, opInt, addTy, CTy.kind, CTy.bytes]
example : prefixSum (0 : Int) (· + ·) [5, 6, 7, 8] = [0, 5, 11, 18] := by decide
example : isSame (· == ·) [5, 5, 5, 6] = [false, false, false, false] ∧ isSame (· == ·) [5, 5] = [true, true] := by decide
example : bcastPod 2 [10, 11, 12] = some [12, 12, 12] ∧ bcastPod 3 [10, 11, 12] = none := by decide
example : mpiBcast 0 [[1, 2], [0]] = none := by decide   -- mismatched counts are an error, not a silent truncation
example : barrierBeforeReductions Coll.commAllReduceSum.prims = false := by decide
end YgmVerif.Coll
