import YgmVerif.Lemmas.MapOps
/-!
# C11 — map / multimap contents equal a sequential application of all operations

Theorems about `YgmVerif.MapOps` (the model of map_impl.hpp) composed with `YgmVerif.Dist`.
For all user lambdas `u`, default values, contents `m`, keys, values, operation sequences.

* composition: `final_values_fold`, `callbacks_fold`, `ops_on_other_keys_commute`,
  `rank_holds_fold`, `stored_only_on_owner`, `owner_holds_key_fold`
* one theorem per clause of the statement: `insert_overwrites`, `insert_if_missing_keeps`,
  `visit_creates_default_and_calls_once`, `visit_map_calls_once`, `visit_multi_once_per_value`,
  `group_once`, `visit_if_exists_never_creates`, `visit_if_exists_calls_per_value`,
  `else_visit_offered_value`, `reduce_is_fold`, `reduce_perm`, `erase_removes_all`, `multimap_adds`
* the `map` invariant: `map_invariant`, `map_invariant_run`, `nodupKeys_count_le_one`
* queries: `queries_agree_*`
* copy construction: `copy_same_default`, `copy_independent`
-/
namespace YgmVerif.MapOps

variable {K V A : Type} [DecidableEq K]

/-! ## composition with the messaging layer (instances of `Dist`) -/

/-- the values of key `k` after ANY executed sequence are the fold of the per-key step over the
subsequence of operations on `k`, in execution order — operations on other keys are irrelevant -/
theorem final_values_fold (u : User K V A) (dflt : V) (m : Assoc K V) (ops : List (Op K V A)) (k : K) :
    values (Dist.run (container u dflt) m ops).state k
      = (Dist.run ⟨applyK u dflt⟩ (values m k) (ops.filter (fun o => o.key = k))).state :=
  Dist.proj_run (keyed u dflt) m ops k

/-- … and the visitor invocations logged for `k` are those of that per-key fold -/
theorem callbacks_fold (u : User K V A) (dflt : V) (m : Assoc K V) (ops : List (Op K V A)) (k : K) :
    (Dist.run (container u dflt) m ops).cbs.filter (fun cb => cb.key = k)
      = (Dist.run ⟨applyK u dflt⟩ (values m k) (ops.filter (fun o => o.key = k))).cbs :=
  Dist.cbs_run (keyed u dflt) m ops k

theorem ops_on_other_keys_commute (u : User K V A) (dflt : V) (m : Assoc K V)
    (pre post : List (Op K V A)) (a b : Op K V A) (hab : a.key ≠ b.key) (k : K) :
    values (Dist.run (container u dflt) m (pre ++ a :: b :: post)).state k
      = values (Dist.run (container u dflt) m (pre ++ b :: a :: post)).state k :=
  Dist.commute (keyed u dflt) m pre post a b hab k

/-- exactly-once fold: after the global execution sequence `E`, rank `r` holds
`foldl apply` over the operations whose key it owns, in execution order -/
theorem rank_holds_fold (u : User K V A) (dflt : V) (ownerK : K → Nat) (g : Nat → Assoc K V)
    (E : List (Op K V A)) (r : Nat) :
    Dist.execGlobal (container u dflt) (fun o => ownerK o.key) g E r
      = (E.filter (fun o => ownerK o.key = r)).foldl (fun st op => (apply u dflt st op).1) (g r) := by
  rw [Dist.execGlobal_rank, Dist.run_state_eq_foldl]; rfl

theorem stored_only_on_owner (u : User K V A) (dflt : V) (ownerK : K → Nat) (g : Nat → Assoc K V)
    (E : List (Op K V A)) (r : Nat) (k : K) (hr : ownerK k ≠ r) :
    values (Dist.execGlobal (container u dflt) (fun o => ownerK o.key) g E r) k = values (g r) k :=
  Dist.stored_only_on_owner (keyed u dflt) ownerK g E r k hr

theorem owner_holds_key_fold (u : User K V A) (dflt : V) (ownerK : K → Nat) (g : Nat → Assoc K V)
    (E : List (Op K V A)) (k : K) :
    values (Dist.execGlobal (container u dflt) (fun o => ownerK o.key) g E (ownerK k)) k
      = (Dist.run ⟨applyK u dflt⟩ (values (g (ownerK k)) k) (E.filter (fun o => o.key = k))).state :=
  Dist.owner_holds_fold (keyed u dflt) ownerK g E k

/-! ## the `map` invariant -/

theorem values_nil_of_not_mem (m : Assoc K V) (k : K) (h : k ∉ m.map Prod.fst) : values m k = [] := by
  induction m with
  | nil => rfl
  | cons p m ih =>
    simp only [List.map_cons, List.mem_cons, not_or] at h
    rw [values_cons, if_neg (fun e => h.1 e.symm)]
    exact ih h.2

theorem not_mem_of_values_nil (m : Assoc K V) (k : K) (h : values m k = []) : k ∉ m.map Prod.fst := by
  induction m with
  | nil => simp
  | cons p m ih =>
    rw [values_cons] at h
    by_cases hp : p.1 = k
    · simp [hp] at h
    · simp only [hp, if_false] at h
      simp only [List.map_cons, List.mem_cons, not_or]
      exact ⟨fun e => hp e.symm, ih h⟩

/-- in a `map` every key has at most one value -/
theorem nodupKeys_count_le_one (m : Assoc K V) (h : NodupKeys m) (k : K) : count m k ≤ 1 := by
  unfold count
  induction m with
  | nil => simp
  | cons p m ih =>
    unfold NodupKeys at h ih
    simp only [List.map_cons, List.nodup_cons] at h
    rw [values_cons]
    by_cases hp : p.1 = k
    · rw [if_pos hp, values_nil_of_not_mem m k (hp ▸ h.1)]; simp
    · rw [if_neg hp]; exact ih h.2

theorem keys_modifyFirst (f : V → V) (k : K) (m : Assoc K V) :
    (modifyFirst k f m).map Prod.fst = m.map Prod.fst := by
  induction m with
  | nil => rfl
  | cons p m ih =>
    obtain ⟨k', v⟩ := p
    unfold modifyFirst
    by_cases h : k' = k <;> simp [h, ih]

theorem keys_localVisit {O C : Type} (f : V → V × List O × List C) (k : K) (m : Assoc K V) :
    (localVisit f k m).1.map Prod.fst = m.map Prod.fst := by
  induction m with
  | nil => rfl
  | cons p m ih =>
    obtain ⟨k', v⟩ := p
    unfold localVisit
    by_cases h : k' = k <;> simp [h, ih]

theorem keys_assign (nv : List V) (k : K) (m : Assoc K V) :
    (assign k nv m).map Prod.fst = m.map Prod.fst := by
  induction m generalizing nv with
  | nil => cases nv <;> rfl
  | cons p m ih =>
    obtain ⟨k', v⟩ := p
    by_cases h : k' = k
    · cases nv <;> simp [assign, h, ih]
    · simp [assign, h, ih]

theorem nodupKeys_append_absent (m : Assoc K V) (k : K) (v : V) (h : NodupKeys m)
    (hc : contains m k = false) : NodupKeys (m ++ [(k, v)]) := by
  unfold NodupKeys at *
  rw [List.map_append, List.nodup_append]
  refine ⟨h, by simp, ?_⟩
  intro a ha b hb
  simp only [List.map_cons, List.map_nil, List.mem_singleton] at hb
  subst hb
  intro e; subst e
  exact not_mem_of_values_nil m a ((contains_false_iff m a).1 hc) ha

theorem nodupKeys_ensure (dflt : V) (m : Assoc K V) (k : K) (h : NodupKeys m) :
    NodupKeys (ensure dflt m k) := by
  unfold ensure
  cases hc : contains m k
  · simp only [Bool.false_eq_true, if_false]; exact nodupKeys_append_absent m k dflt h hc
  · simpa using h

/-- **invariant of `map`**: every operation of the `map` interface keeps one pair per key -/
theorem map_invariant (u : User K V A) (dflt : V) (m : Assoc K V) (op : Op K V A)
    (h : NodupKeys m) (hop : op.isMapOp = true) : NodupKeys (apply u dflt m op).1 := by
  cases op with
  | insert k v =>
    simp only [apply]
    cases hc : contains m k
    · simpa using nodupKeys_append_absent m k v h hc
    · simp only [if_true]; unfold NodupKeys; rw [keys_modifyFirst]; exact h
  | insertMulti k v => simp [Op.isMapOp] at hop
  | insertIfMissing k v =>
    simp only [apply]
    cases hc : contains m k
    · simpa using nodupKeys_append_absent m k v h hc
    · simpa using h
  | visit k vis a =>
    simp only [apply]; unfold NodupKeys; rw [keys_localVisit]; exact nodupKeys_ensure dflt m k h
  | visitGroup k vis a => simp [Op.isMapOp] at hop
  | visitIfExists k vis a =>
    simp only [apply]; unfold NodupKeys; rw [keys_localVisit]; exact h
  | elseVisit k v vis a =>
    simp only [apply]
    cases hc : contains m k
    · simpa using nodupKeys_append_absent m k v h hc
    · simp only [if_true]; unfold NodupKeys; rw [keys_localVisit]; exact h
  | reduce k v rop =>
    simp only [apply]
    cases hc : contains m k
    · simpa using nodupKeys_append_absent m k v h hc
    · simp only [if_true]; unfold NodupKeys; rw [keys_modifyFirst]; exact h
  | erase k =>
    simp only [apply, eraseKey]
    unfold NodupKeys at *
    have : (m.filter (fun p => decide (p.1 ≠ k))).map Prod.fst
        = (m.map Prod.fst).filter (fun x => decide (x ≠ k)) := by
      rw [List.filter_map]; rfl
    rw [this]
    exact List.Nodup.sublist List.filter_sublist h

/-- … hence after any sequence of `map` operations -/
theorem map_invariant_run (u : User K V A) (dflt : V) (m : Assoc K V) (ops : List (Op K V A))
    (h : NodupKeys m) (hops : ∀ o ∈ ops, o.isMapOp = true) :
    NodupKeys (Dist.run (container u dflt) m ops).state := by
  induction ops generalizing m with
  | nil => exact h
  | cons op ops ih =>
    simp only [Dist.run]
    exact ih _ (map_invariant u dflt m op h (hops op (List.mem_cons_self ..)))
      (fun o ho => hops o (List.mem_cons_of_mem _ ho))

/-! ## one theorem per clause -/

/-- `async_insert` on a map overwrites: afterwards the key has exactly the new value, nothing else
changes, no lambda runs -/
theorem insert_overwrites (u : User K V A) (dflt : V) (m : Assoc K V) (k : K) (v : V)
    (h : NodupKeys m) :
    values (apply u dflt m (.insert k v)).1 k = [v]
    ∧ (∀ k', k' ≠ k → values (apply u dflt m (.insert k v)).1 k' = values m k')
    ∧ (apply u dflt m (.insert k v)).2 = ([], []) := by
  refine ⟨?_, fun k' hk => apply_other u dflt m (.insert k v) k' hk, ?_⟩
  · have := apply_same u dflt m (.insert k v)
    simp only [Op.key, applyK] at this
    rw [this]
    have hle := nodupKeys_count_le_one m h k
    unfold count at hle
    have key : ∀ vs : List V, vs.length ≤ 1 →
        (if vs.isEmpty then [v] else modifyHead (fun _ => v) vs) = [v] := by
      intro vs hl
      cases vs with
      | nil => rfl
      | cons x r => cases r with
        | nil => rfl
        | cons y r' => simp at hl
    exact key _ hle
  · rw [apply_out]; rfl

/-- `async_insert_if_missing` never changes an existing value; it inserts when the key is absent -/
theorem insert_if_missing_keeps (u : User K V A) (dflt : V) (m : Assoc K V) (k : K) (v : V) :
    (values m k ≠ [] → apply u dflt m (.insertIfMissing k v) = (m, [], []))
    ∧ (values m k = [] → values (apply u dflt m (.insertIfMissing k v)).1 k = [v]
        ∧ (apply u dflt m (.insertIfMissing k v)).2 = ([], [])) := by
  constructor
  · intro hne
    simp [apply, (contains_true_iff m k).2 hne]
  · intro hnil
    simp [apply, (contains_false_iff m k).2 hnil, values_append, values_single_same, hnil]

/-- callbacks of a visit: one per value of the (possibly just created) key, in container order -/
theorem visit_multi_once_per_value (u : User K V A) (dflt : V) (m : Assoc K V) (k : K) (vis : Nat) (a : A) :
    (apply u dflt m (.visit k vis a)).2.2
        = (ensureVals dflt (values m k)).map (fun v => Cb.single vis k v a)
    ∧ values (apply u dflt m (.visit k vis a)).1 k
        = (ensureVals dflt (values m k)).map (fun v => (u.visitor vis k v a).1)
    ∧ (∀ k', k' ≠ k → values (apply u dflt m (.visit k vis a)).1 k' = values m k') := by
  refine ⟨?_, ?_, fun k' hk => apply_other u dflt m (.visit k vis a) k' hk⟩
  · rw [apply_out]; simp only [Op.key, applyK]
    exact visitVals_cbs (fun v => u.visitor vis k v a) (fun v => Cb.single vis k v a) _
  · have := apply_same u dflt m (.visit k vis a)
    simp only [Op.key, applyK] at this
    rw [this, visitVals_vals]

/-- `async_visit` on an absent key creates the default value and calls the visitor exactly once,
with that default value -/
theorem visit_creates_default_and_calls_once (u : User K V A) (dflt : V) (m : Assoc K V) (k : K)
    (vis : Nat) (a : A) (habs : values m k = []) :
    (apply u dflt m (.visit k vis a)).2.2 = [Cb.single vis k dflt a]
    ∧ values (apply u dflt m (.visit k vis a)).1 k = [(u.visitor vis k dflt a).1]
    ∧ (apply u dflt m (.visit k vis a)).2.1 = (u.visitor vis k dflt a).2 := by
  obtain ⟨h1, h2, _⟩ := visit_multi_once_per_value u dflt m k vis a
  refine ⟨by rw [h1, habs]; rfl, by rw [h2, habs]; rfl, ?_⟩
  rw [apply_out]; simp [Op.key, applyK, habs, ensureVals, visitVals]

/-- on a `map` (one pair per key) the visitor is called exactly once per `async_visit` -/
theorem visit_map_calls_once (u : User K V A) (dflt : V) (m : Assoc K V) (k : K) (vis : Nat) (a : A)
    (h : NodupKeys m) : (apply u dflt m (.visit k vis a)).2.2.length = 1 := by
  rw [(visit_multi_once_per_value u dflt m k vis a).1, List.length_map]
  have hle := nodupKeys_count_le_one m h k
  unfold count at hle
  unfold ensureVals
  cases hv : values m k with
  | nil => simp
  | cons x r => rw [hv] at hle; simp at hle ⊢; exact hle

/-- `async_visit_group`: exactly one call, with the whole group of values of the key -/
theorem group_once (u : User K V A) (dflt : V) (m : Assoc K V) (k : K) (vis : Nat) (a : A) :
    (apply u dflt m (.visitGroup k vis a)).2.2 = [Cb.group vis k (ensureVals dflt (values m k)) a]
    ∧ count (apply u dflt m (.visitGroup k vis a)).1 k = (ensureVals dflt (values m k)).length
    ∧ (∀ k', k' ≠ k → values (apply u dflt m (.visitGroup k vis a)).1 k' = values m k') := by
  refine ⟨?_, ?_, fun k' hk => apply_other u dflt m (.visitGroup k vis a) k' hk⟩
  · rw [apply_out]; rfl
  · unfold count
    have := apply_same u dflt m (.visitGroup k vis a)
    simp only [Op.key, applyK] at this
    rw [this, assignVals_length]

theorem localVisit_absent {O C : Type} (f : V → V × List O × List C) (k : K) (m : Assoc K V)
    (h : values m k = []) : localVisit f k m = (m, [], []) := by
  induction m with
  | nil => rfl
  | cons p m ih =>
    obtain ⟨k', v⟩ := p
    rw [values_cons] at h
    by_cases hk : k' = k
    · simp [hk] at h
    · simp only [hk, if_false] at h
      unfold localVisit
      simp [hk, ih h]

/-- `async_visit_if_exists` on an absent key does nothing at all: nothing is created, no call -/
theorem visit_if_exists_never_creates (u : User K V A) (dflt : V) (m : Assoc K V) (k : K)
    (vis : Nat) (a : A) (habs : values m k = []) :
    apply u dflt m (.visitIfExists k vis a) = (m, [], []) := by
  simp only [apply]; exact localVisit_absent _ k m habs

/-- … and on a present key calls the visitor once per stored value and never changes the number
of values of any key -/
theorem visit_if_exists_calls_per_value (u : User K V A) (dflt : V) (m : Assoc K V) (k : K)
    (vis : Nat) (a : A) :
    (apply u dflt m (.visitIfExists k vis a)).2.2 = (values m k).map (fun v => Cb.single vis k v a)
    ∧ (∀ k', count (apply u dflt m (.visitIfExists k vis a)).1 k' = count m k') := by
  constructor
  · rw [apply_out]; simp only [Op.key, applyK]
    exact visitVals_cbs (fun v => u.visitor vis k v a) (fun v => Cb.single vis k v a) _
  · intro k'
    unfold count
    by_cases hk : k' = k
    · subst hk
      have := apply_same u dflt m (.visitIfExists k' vis a)
      simp only [Op.key, applyK] at this
      rw [this, visitVals_length]
    · rw [apply_other u dflt m (.visitIfExists k vis a) k' hk]

/-- `async_insert_if_missing_else_visit`: inserts the offered value when absent (no call), else
visits every stored value handing it the offered value -/
theorem else_visit_offered_value (u : User K V A) (dflt : V) (m : Assoc K V) (k : K) (v : V)
    (vis : Nat) (a : A) :
    (values m k = [] →
        values (apply u dflt m (.elseVisit k v vis a)).1 k = [v]
        ∧ (apply u dflt m (.elseVisit k v vis a)).2 = ([], []))
    ∧ (values m k ≠ [] →
        (apply u dflt m (.elseVisit k v vis a)).2.2 = (values m k).map (fun old => Cb.offered vis k old v a)
        ∧ values (apply u dflt m (.elseVisit k v vis a)).1 k
            = (values m k).map (fun old => (u.visitor2 vis k old v a).1)) := by
  have hs := apply_same u dflt m (.elseVisit k v vis a)
  have ho := apply_out u dflt m (.elseVisit k v vis a)
  simp only [Op.key, applyK] at hs ho
  constructor
  · intro habs
    have he : (values m k).isEmpty = true := by rw [habs]; rfl
    rw [hs, ho]; simp [he]
  · intro hne
    have he : (values m k).isEmpty = false := by cases hv : values m k <;> simp_all
    rw [hs, ho]
    simp only [he, Bool.false_eq_true, if_false]
    exact ⟨visitVals_cbs (fun old => u.visitor2 vis k old v a) (fun old => Cb.offered vis k old v a) _,
      visitVals_vals _ _⟩

/-- the reduction of a non-empty list of contributions: first one is stored, the others are
folded in with `itr->second = reducer(itr->second, value)` -/
def fold1 (f : V → V → V) : List V → List V
  | [] => []
  | v :: r => [r.foldl f v]

omit [DecidableEq K] in
theorem run_reduces (u : User K V A) (dflt : V) (k : K) (rop : Nat) (vs : List V) (x : V) :
    (Dist.run ⟨applyK u dflt⟩ [x] (vs.map (fun v => Op.reduce k v rop))).state
      = [vs.foldl (u.reducer rop) x] := by
  induction vs generalizing x with
  | nil => rfl
  | cons v r ih => simp only [List.map_cons, Dist.run, applyK, List.foldl_cons]; exact ih _

/-- `async_reduce` folds with the operator: if the operations executed on `k` (whatever else was
executed on other keys, in any interleaving) are the reductions of `vs` in this order and `k` was
absent, `k` ends with the single value `foldl op v₀ [v₁, …]` -/
theorem reduce_is_fold (u : User K V A) (dflt : V) (m : Assoc K V) (ops : List (Op K V A)) (k : K)
    (rop : Nat) (vs : List V) (habs : values m k = [])
    (hops : ops.filter (fun o => o.key = k) = vs.map (fun v => Op.reduce k v rop)) :
    values (Dist.run (container u dflt) m ops).state k = fold1 (u.reducer rop) vs := by
  rw [final_values_fold, hops, habs]
  cases vs with
  | nil => rfl
  | cons v r =>
    simp only [List.map_cons, Dist.run, fold1]
    exact run_reduces u dflt k rop r v

/-- for an associative and commutative operator the result does not depend on the order in which
the contributions were executed -/
theorem reduce_perm (f : V → V → V) (hassoc : ∀ a b c, f (f a b) c = f a (f b c))
    (hcomm : ∀ a b, f a b = f b a) (vs1 vs2 : List V) (hp : vs1.Perm vs2) :
    fold1 f vs1 = fold1 f vs2 := by
  have rc : ∀ z x y, f (f z x) y = f (f z y) x := by
    intro z x y; rw [hassoc, hcomm x y, ← hassoc]
  induction hp with
  | nil => rfl
  | cons x hp _ =>
    simp only [fold1]
    rw [List.Perm.foldl_eq' hp (fun a _ b _ z => rc z a b)]
  | swap x y l =>
    simp only [fold1, List.foldl_cons]
    rw [hcomm y x]
  | trans _ _ ih1 ih2 => exact ih1.trans ih2

/-- container-level form: two executions in which the contributions to `k` arrive in different
orders (and anything happens to other keys) leave the same value under `k` -/
theorem reduce_order_independent (u : User K V A) (dflt : V) (m : Assoc K V)
    (ops1 ops2 : List (Op K V A)) (k : K) (rop : Nat) (vs1 vs2 : List V) (habs : values m k = [])
    (h1 : ops1.filter (fun o => o.key = k) = vs1.map (fun v => Op.reduce k v rop))
    (h2 : ops2.filter (fun o => o.key = k) = vs2.map (fun v => Op.reduce k v rop))
    (hp : vs1.Perm vs2)
    (hassoc : ∀ a b c, u.reducer rop (u.reducer rop a b) c = u.reducer rop a (u.reducer rop b c))
    (hcomm : ∀ a b, u.reducer rop a b = u.reducer rop b a) :
    values (Dist.run (container u dflt) m ops1).state k
      = values (Dist.run (container u dflt) m ops2).state k := by
  rw [reduce_is_fold u dflt m ops1 k rop vs1 habs h1, reduce_is_fold u dflt m ops2 k rop vs2 habs h2]
  exact reduce_perm _ hassoc hcomm _ _ hp

omit [DecidableEq K] in
theorem run_insertMultis (u : User K V A) (dflt : V) (k : K) (vs xs : List V) :
    (Dist.run ⟨applyK u dflt⟩ xs (vs.map (fun v => Op.insertMulti k v))).state = xs ++ vs := by
  induction vs generalizing xs with
  | nil => simp [Dist.run]
  | cons v r ih => simp only [List.map_cons, Dist.run, applyK]; rw [ih]; simp

/-- multimap inserts executed on `k` (interleaved with anything on other keys) append their values
in execution order; as a multiset the result does not depend on that order -/
theorem multimap_inserts_append (u : User K V A) (dflt : V) (m : Assoc K V) (ops : List (Op K V A))
    (k : K) (vs : List V)
    (hops : ops.filter (fun o => o.key = k) = vs.map (fun v => Op.insertMulti k v)) :
    values (Dist.run (container u dflt) m ops).state k = values m k ++ vs
    ∧ ∀ vs', vs.Perm vs' → (values (Dist.run (container u dflt) m ops).state k).Perm (values m k ++ vs') := by
  have h : values (Dist.run (container u dflt) m ops).state k = values m k ++ vs := by
    rw [final_values_fold, hops]; exact run_insertMultis u dflt k vs _
  exact ⟨h, fun vs' hp => h ▸ hp.append_left _⟩

/-- `async_erase` removes every value of the key and nothing else -/
theorem erase_removes_all (u : User K V A) (dflt : V) (m : Assoc K V) (k : K) :
    values (apply u dflt m (.erase k)).1 k = [] ∧ count (apply u dflt m (.erase k)).1 k = 0
    ∧ (∀ k', k' ≠ k → values (apply u dflt m (.erase k)).1 k' = values m k')
    ∧ (apply u dflt m (.erase k)).2 = ([], []) := by
  have h : values (apply u dflt m (.erase k)).1 k = [] := values_eraseKey_same m k
  refine ⟨h, by unfold count; rw [h]; rfl, fun k' hk => values_eraseKey_other m k k' hk, rfl⟩

/-- `multimap::async_insert` adds: the new value comes after the existing values of the key -/
theorem multimap_adds (u : User K V A) (dflt : V) (m : Assoc K V) (k : K) (v : V) :
    values (apply u dflt m (.insertMulti k v)).1 k = values m k ++ [v]
    ∧ size (apply u dflt m (.insertMulti k v)).1 = size m + 1
    ∧ (∀ k', k' ≠ k → values (apply u dflt m (.insertMulti k v)).1 k' = values m k') := by
  refine ⟨by simp [apply, values_append, values_single_same], by simp [apply, size], ?_⟩
  intro k' hk
  exact apply_other u dflt m (.insertMulti k v) k' hk

/-! ## queries agree with the abstract contents -/

/-- `for_all` presents exactly the stored pairs: under key `k` the values of `k`, in order -/
theorem queries_agree_for_all (m : Assoc K V) (k : K) (v : V) :
    ((forAll m).filterMap (fun p => if p.1 = k then some p.2 else none) = values m k)
    ∧ ((k, v) ∈ forAll m ↔ v ∈ values m k) := by
  refine ⟨rfl, ?_⟩
  unfold forAll values
  simp only [List.mem_filterMap]
  constructor
  · intro h; exact ⟨(k, v), h, by simp⟩
  · rintro ⟨p, hp, hpk⟩
    by_cases h : p.1 = k
    · simp only [h, if_true, Option.some.injEq] at hpk
      obtain ⟨a, b⟩ := p
      simp only at h hpk; subst h; subst hpk; exact hp
    · simp [h] at hpk

/-- `count(key)` is the number of values stored under the key -/
theorem queries_agree_count (m : Assoc K V) (k : K) : count m k = (values m k).length := rfl

omit [DecidableEq K] in
/-- global size / count are the sums of the local ones (`all_reduce_sum`), and only the owner
contributes to a count -/
theorem queries_agree_size_global (ms : List (Assoc K V)) :
    size ms.flatten = (ms.map size).sum := by
  unfold size; rw [List.length_flatten]

theorem queries_agree_count_global (ms : List (Assoc K V)) (k : K) :
    count ms.flatten k = (ms.map (fun m => count m k)).sum := by
  unfold count values
  rw [List.filterMap_flatten, List.length_flatten, List.map_map]; rfl

/-- `multimap::all_gather`: a pair is returned iff its key was requested and the value is stored
under it; one requested key returns exactly its values -/
theorem queries_agree_gather_multi (m : Assoc K V) (keys : List K) (k : K) (v : V) :
    (allGatherMulti m [k] = (values m k).map (fun v => (k, v)))
    ∧ ((k, v) ∈ allGatherMulti m keys ↔ k ∈ keys ∧ v ∈ values m k) := by
  constructor
  · simp [allGatherMulti]
  · unfold allGatherMulti
    simp only [List.mem_flatMap, List.mem_map, Prod.mk.injEq]
    constructor
    · rintro ⟨k', hk', v', hv', rfl, rfl⟩; exact ⟨hk', hv'⟩
    · rintro ⟨hk, hv⟩; exact ⟨k, hk, v, hv, rfl, rfl⟩

theorem firstPerKey_subset (l : List (K × V)) : ∀ p ∈ firstPerKey l, p ∈ l := by
  induction l with
  | nil => simp [firstPerKey]
  | cons p l ih =>
    obtain ⟨k, v⟩ := p
    intro q hq
    simp only [firstPerKey, List.mem_cons, List.mem_filter] at hq
    rcases hq with hq | hq
    · exact hq ▸ List.mem_cons_self ..
    · exact List.mem_cons_of_mem _ (ih q hq.1)

theorem firstPerKey_nodupKeys (l : List (K × V)) : NodupKeys (firstPerKey l) := by
  induction l with
  | nil => exact List.nodup_nil
  | cons p l ih =>
    obtain ⟨k, v⟩ := p
    unfold NodupKeys at *
    simp only [firstPerKey, List.map_cons, List.nodup_cons, List.mem_map, List.mem_filter]
    constructor
    · rintro ⟨q, ⟨_, hq⟩, hqk⟩; simp [hqk] at hq
    · have : ((firstPerKey l).filter (fun p => decide (p.1 ≠ k))).map Prod.fst
          = ((firstPerKey l).map Prod.fst).filter (fun x => decide (x ≠ k)) := by
        rw [List.filter_map]; rfl
      rw [this]; exact List.Nodup.sublist List.filter_sublist ih

theorem mem_firstPerKey (l : List (K × V)) (hfun : ∀ k v v', (k, v) ∈ l → (k, v') ∈ l → v = v')
    (k : K) (v : V) : (k, v) ∈ firstPerKey l ↔ (k, v) ∈ l := by
  constructor
  · exact firstPerKey_subset l (k, v)
  · induction l with
    | nil => simp
    | cons p l ih =>
      obtain ⟨k0, v0⟩ := p
      intro h
      simp only [firstPerKey, List.mem_cons, List.mem_filter]
      by_cases hk : k = k0
      · subst hk
        left
        have := hfun k v v0 h (List.mem_cons_self ..)
        rw [this]
      · right
        rcases List.mem_cons.1 h with h | h
        · simp only [Prod.mk.injEq] at h; exact absurd h.1 hk
        · refine ⟨ih (fun k v v' h1 h2 => hfun k v v' (List.mem_cons_of_mem _ h1) (List.mem_cons_of_mem _ h2)) h, ?_⟩
          simp [hk]

/-- `map::all_gather`: on a map (one pair per key) a pair is returned iff its key was requested
and it is the stored pair; every key at most once -/
theorem queries_agree_gather_map (m : Assoc K V) (h : NodupKeys m) (keys : List K) (k : K) (v : V) :
    ((k, v) ∈ allGatherMap m keys ↔ k ∈ keys ∧ values m k = [v])
    ∧ NodupKeys (allGatherMap m keys) := by
  refine ⟨?_, firstPerKey_nodupKeys _⟩
  have hone : ∀ k v, v ∈ values m k → values m k = [v] := by
    intro k v hv
    have hle := nodupKeys_count_le_one m h k
    unfold count at hle
    cases hvs : values m k with
    | nil => rw [hvs] at hv; simp at hv
    | cons x r =>
      rw [hvs] at hle hv
      have hr : r = [] := by cases r <;> simp_all
      subst hr; simp at hv; rw [hv]
  unfold allGatherMap
  rw [mem_firstPerKey]
  · rw [(queries_agree_gather_multi m keys k v).2]
    constructor
    · rintro ⟨hk, hv⟩; exact ⟨hk, hone k v hv⟩
    · rintro ⟨hk, hv⟩; exact ⟨hk, by rw [hv]; simp⟩
  · intro k v v' h1 h2
    have e1 := hone k v ((queries_agree_gather_multi m keys k v).2.1 h1).2
    have e2 := hone k v' ((queries_agree_gather_multi m keys k v').2.1 h2).2
    rw [e1] at e2; simpa using e2

omit [DecidableEq K] in
/-- `topk(n, cfn)`: `min n size` stored pairs, in the order of the comparator (for a total,
transitive comparator); the whole contents when `n ≥ size` -/
theorem queries_agree_topk (n : Nat) (le : K × V → K × V → Bool) (m : Assoc K V) :
    (topk n le m).length = min n (size m)
    ∧ (∀ p ∈ topk n le m, p ∈ forAll m)
    ∧ (size m ≤ n → (topk n le m).Perm m)
    ∧ ((∀ a b c, le a b = true → le b c = true → le a c = true) → (∀ a b, (le a b || le b a) = true) →
        (topk n le m).Pairwise (fun a b => le a b = true)) := by
  unfold topk size forAll
  refine ⟨by rw [List.length_take, List.length_mergeSort], ?_, ?_, ?_⟩
  · intro p hp
    exact (List.mergeSort_perm m le).subset ((List.take_sublist _ _).subset hp)
  · intro hle
    rw [List.take_of_length_le (by rw [List.length_mergeSort]; exact hle)]
    exact List.mergeSort_perm m le
  · intro htrans htot
    exact List.Pairwise.sublist (List.take_sublist _ _) (List.pairwise_mergeSort htrans htot m)

/-- `clear()` leaves nothing; `swap` exchanges contents and default values and is an involution -/
theorem queries_agree_clear_swap (a b : Assoc K V × V) (m : Assoc K V) (k : K) :
    values (clear m) k = [] ∧ size (clear m) = 0
    ∧ (swap a b).1 = b ∧ (swap a b).2 = a ∧ swap (swap a b).1 (swap a b).2 = (a, b) :=
  ⟨rfl, rfl, rfl, rfl, rfl⟩

/-! ## copy construction -/

/-- **a copy has the same contents and the same default value**: in particular `async_visit` of a
key that is absent in the copy creates the ORIGINAL's default value and calls the visitor once
with it -/
theorem copy_same_default (u : User K V A) (a : Assoc K V × V) (k : K) (vis : Nat) (arg : A) :
    (copy a).2 = a.2 ∧ (∀ k', values (copy a).1 k' = values a.1 k')
    ∧ (values a.1 k = [] →
        (apply u (copy a).2 (copy a).1 (.visit k vis arg)).2.2 = [Cb.single vis k a.2 arg]
        ∧ values (apply u (copy a).2 (copy a).1 (.visit k vis arg)).1 k = [(u.visitor vis k a.2 arg).1]) := by
  refine ⟨rfl, fun _ => rfl, fun habs => ?_⟩
  obtain ⟨h1, h2, _⟩ := visit_creates_default_and_calls_once u a.2 a.1 k vis arg habs
  exact ⟨h1, h2⟩

/-- **operations on the copy do not affect the original** (and vice versa): after any sequence of
operations addressed to the copy, the original still has the contents and default it had when the
copy was made; the copy is the fold of those operations over the copied contents -/
theorem copy_independent (u : User K V A) (a : Assoc K V × V) (ops : List (Op K V A)) :
    (ops.foldl (fun p op => applyAt u p true op) (a, copy a)).1 = a
    ∧ (ops.foldl (fun p op => applyAt u p true op) (a, copy a)).2
        = ((Dist.run (container u a.2) a.1 ops).state, a.2)
    ∧ (ops.foldl (fun p op => applyAt u p false op) (a, copy a)).2 = copy a := by
  have key : ∀ (x y : Assoc K V × V),
      (ops.foldl (fun p op => applyAt u p true op) (x, y)).1 = x
      ∧ (ops.foldl (fun p op => applyAt u p true op) (x, y)).2
          = ((Dist.run (container u y.2) y.1 ops).state, y.2)
      ∧ (ops.foldl (fun p op => applyAt u p false op) (x, y)).2 = y := by
    induction ops with
    | nil => intro x y; exact ⟨rfl, rfl, rfl⟩
    | cons op ops ih =>
      intro x y
      simp only [List.foldl_cons, applyAt, if_true, Bool.false_eq_true, if_false, Dist.run]
      obtain ⟨h1, h2, _⟩ := ih x ((apply u y.2 y.1 op).1, y.2)
      obtain ⟨_, _, h3⟩ := ih ((apply u x.2 x.1 op).1, x.2) y
      exact ⟨h1, h2, h3⟩
  exact key a (copy a)

/-! ## non-vacuity: the hypotheses are met by concrete states, and the operations really differ -/

section Examples
/-- a user table over `Nat` keys / values: visitor 1 adds the argument and emits a reduce on key+100 -/
def exUser : User Nat Nat Nat where
  visitor := fun vis k v a => if vis = 1 then (v + a, [.reduce (k + 100) v 0]) else (v, [])
  visitor2 := fun _ _ v n a => (v + n + a, [])
  visitorG := fun _ _ vs _ => (vs.reverse, [])
  reducer := fun rop x y => if rop = 0 then x + y else 2 * x + y

example : NodupKeys ([(1, 10), (2, 20)] : Assoc Nat Nat) := by unfold NodupKeys; decide
example : values (apply exUser 0 [(1, 10), (2, 20)] (.insert 1 7)).1 1 = [7] := by decide
example : apply exUser 0 [(1, 10)] (.insertIfMissing 1 7) = ([(1, 10)], [], []) := by decide
example : apply exUser 5 [(1, 10)] (.visit 3 1 2) = ([(1, 10), (3, 7)], [.reduce 103 5 0], [.single 1 3 5 2]) := by decide
example : (apply exUser 5 [(1, 10), (1, 11), (2, 0)] (.visit 1 1 2)).2.2 = [.single 1 1 10 2, .single 1 1 11 2] := by decide
example : apply exUser 5 [(1, 10), (2, 0), (1, 11)] (.visitGroup 1 0 2)
    = ([(1, 11), (2, 0), (1, 10)], [], [.group 0 1 [10, 11] 2]) := by decide
example : apply exUser 5 [(1, 10)] (.visitIfExists 3 1 2) = ([(1, 10)], [], []) := by decide
example : apply exUser 5 [(1, 10)] (.elseVisit 1 4 0 2) = ([(1, 16)], [], [.offered 0 1 10 4 2]) := by decide
example : values (Dist.run (container exUser 0) [(9, 9)]
    [.reduce 1 3 1, .insert 2 2, .reduce 1 4 1, .erase 9, .reduce 1 5 1]).state 1 = fold1 (exUser.reducer 1) [3, 4, 5] := by decide
/-- a non-commutative operator does depend on the order (so `reduce_perm` needs its hypotheses) -/
example : fold1 (exUser.reducer 1) [3, 4, 5] ≠ fold1 (exUser.reducer 1) [4, 3, 5] := by decide
example : values (apply exUser 0 [(1, 10), (2, 3), (1, 11)] (.erase 1)).1 1 = [] := by decide
example : values (apply exUser 0 [(1, 10), (2, 3)] (.insertMulti 1 4)).1 1 = [10, 4] := by decide
example : allGatherMap ([(1, 10), (2, 3)] : Assoc Nat Nat) [2, 2, 7, 1] = [(2, 3), (1, 10)] := by decide
example : topk 2 (fun a b => decide (b.2 ≤ a.2)) ([(2, 30), (3, 20), (1, 10)] : Assoc Nat Nat) = [(2, 30), (3, 20)] := by
  unfold topk; rw [List.mergeSort_of_pairwise (by decide)]; rfl
end Examples

end YgmVerif.MapOps
