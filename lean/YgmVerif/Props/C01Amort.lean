import YgmVerif.Props.C01Live
/-!
# C01 / C03 — finitely many asyncs ⇒ finitely many steps: every history is at most `(6H+7) · #async` steps long

`C01_drain_bounded` bounds an async-FREE continuation.  C03 quantifies over programs "whose handlers generate finitely many
messages".  This file closes the gap on the movement model: the potential `total` pays for every non-`async` step, and an
`async` raises it by at most `6H + 6` (`H` = the largest number of hops the routing function ever needs), so for EVERY accepted
history from program start

    `ls.length + total s ≤ (6H + 7) · (number of async labels in ls)`            (`C01_history_bounded`)

— whatever the interleaving of issuing, buffering, sending, receiving, forwarding and executing, and whoever issues (main
programs, handlers, callbacks).  With the real router `H = 3` (NLNR), so a program that issues `A` messages in total makes at
most `25·A` movement steps (`C01_history_bounded_router`).  Together with `C01_never_stuck` (something is enabled until everything
has executed) this is termination of message movement for every program with finitely many messages.
-/
namespace YgmVerif.Deliver

def asyncCount (ls : List Label) : Nat := (ls.filter isAsync).length

theorem pot_new_le {hops : Nat → Nat → Nat} {H : Nat} (uid dest r : Nat) (direct : Bool) (hop : Nat)
    (hh : direct = false → hops hop dest ≤ H) :
    pot hops ⟨uid, dest, direct, Loc.inBuf r hop⟩ ≤ 6 * H + 6 := by
  cases direct with
  | true => simp [pot]
  | false =>
    have := hh rfl
    simp only [pot, Bool.false_eq_true, if_false]
    omega

/-- an `async` raises the potential by at most 6H + 6 -/
theorem step_total_async {n H : Nat} {nh hops : Nat → Nat → Nat} {s s' : St} {l : Label}
    (hr : InRange n nh) (hH : ∀ x d, x < n → d < n → hops x d ≤ H)
    (hl : isAsync l = true) (h : step n nh s l = some s') : total n hops s' ≤ total n hops s + (6 * H + 6) := by
  cases l with
  | async r uid dest direct =>
    simp only [step] at h; split at h
    · rename_i hc
      cases h
      simp only [total, List.map_append, List.map_cons, List.map_nil, List.sum_append, List.sum_cons, List.sum_nil]
      have hb := pot_new_le (hops := hops) (H := H) uid dest r direct (if direct = true then dest else nh r dest)
        (by
          intro hd
          subst hd
          simp only [Bool.false_eq_true, if_false]
          exact hH (nh r dest) dest (hr r dest hc.1 hc.2.1) hc.2.1)
      omega
    · cases h
  | isend _ _ => simp [isAsync] at hl
  | recvBegin _ _ _ => simp [isAsync] at hl
  | exec _ _ => simp [isAsync] at hl
  | fwd _ _ => simp [isAsync] at hl
  | recvEnd _ => simp [isAsync] at hl

theorem history_bounded_gen {n H : Nat} {nh hops : Nat → Nat → Nat}
    (hr : InRange n nh) (hp : Progress n nh hops) (hH : ∀ x d, x < n → d < n → hops x d ≤ H) :
    ∀ (ls : List Label) (s0 s : St), Inv s0 → DestLt n s0 → run n nh s0 ls = some s →
      ls.length + total n hops s ≤ total n hops s0 + (6 * H + 7) * asyncCount ls := by
  intro ls
  induction ls with
  | nil => intro s0 s _ _ h; simp only [run] at h; cases h; simp [asyncCount]
  | cons l ls ih =>
    intro s0 s hi hd h
    simp only [run] at h
    cases hst : step n nh s0 l with
    | none => rw [hst] at h; cases h
    | some s1 =>
      rw [hst] at h
      have h2 := ih s1 s (inv_step hi hst) (destLt_step hd hst) h
      cases hl : isAsync l with
      | true =>
        have h1 := step_total_async hr hH hl hst
        have hc : asyncCount (l :: ls) = asyncCount ls + 1 := by simp [asyncCount, hl]
        rw [hc, Nat.mul_add]
        simp only [List.length_cons]; omega
      | false =>
        have h1 := step_total hi hd hp hl hst
        have hc : asyncCount (l :: ls) = asyncCount ls := by simp [asyncCount, hl]
        rw [hc]
        simp only [List.length_cons]; omega

/-- **every history is finite in its asyncs**: from program start, `#steps + potential left ≤ (6H+7) · #asyncs` -/
theorem C01_history_bounded (n H : Nat) (nh hops : Nat → Nat → Nat)
    (hr : InRange n nh) (hp : Progress n nh hops) (hH : ∀ x d, x < n → d < n → hops x d ≤ H)
    (ls : List Label) (s : St) (h : run n nh St.init ls = some s) :
    ls.length + total n hops s ≤ (6 * H + 7) * asyncCount ls := by
  have := history_bounded_gen hr hp hH ls St.init s inv_init (by intro e he; simp [St.init] at he) h
  have h0 : total n hops St.init = 0 := by
    simp only [total, St.init, List.map_nil, List.sum_nil, Nat.zero_add]
    have : ∀ m, sumTo m (fun _ => b2n false) = 0 := by
      intro m; induction m with
      | zero => rfl
      | succ k ih => simp only [sumTo, ih]; rfl
    exact this n
  omega

/-- the real router needs at most 3 hops (NLNR), 2 (NR), 1 (NONE) -/
theorem router_hops_le (sch : Router.Scheme) (p : Nat) (hp : 0 < p) (x d : Nat) :
    Router.hopsLeft sch p x d ≤ 3 := by
  unfold Router.hopsLeft
  split
  · omega
  · cases sch with
    | NONE => rw [Router.route_none]; simp
    | NR => have := (Router.route_NR_shape hp x d).1; omega
    | NLNR => exact (Router.route_NLNR_shape hp x d).1

/-- **the real router**: a program that issues A messages in total makes at most 25·A movement steps -/
theorem C01_history_bounded_router (sch : Router.Scheme) (N p : Nat) (hp : 0 < p)
    (ls : List Label) (s : St) (h : run (N * p) (Router.nextHop sch p) St.init ls = some s) :
    ls.length + total (N * p) (fun x d => Router.hopsLeft sch p x d) s ≤ 25 * asyncCount ls :=
  C01_history_bounded (N * p) 3 _ _ (router_inRange sch N p) (router_progress sch N p hp)
    (fun x d _ _ => router_hops_le sch p hp x d) ls s h

/-- every well-formed placement (block, round-robin, any bijection): at most 3 hops as well -/
theorem routerP_hops_le (P : RouterP.Placement) (hP : P.WF) (sch : Router.Scheme) (x d : Nat)
    (hx : x < P.size) (hd : d < P.size) : P.hopsLeft sch x d ≤ 3 := by
  unfold RouterP.Placement.hopsLeft
  split
  · omega
  · cases sch with
    | NONE => rw [RouterP.Placement.route_none]; simp
    | NR => have := (RouterP.Placement.route_NR_shape hP hx hd).1; omega
    | NLNR => exact (RouterP.Placement.route_NLNR_shape hP hx hd).1

theorem C01_history_bounded_routerP (P : RouterP.Placement) (hP : P.WF) (sch : Router.Scheme)
    (ls : List Label) (s : St) (h : run P.size (P.nextHop sch) St.init ls = some s) :
    ls.length + total P.size (fun x d => P.hopsLeft sch x d) s ≤ 25 * asyncCount ls :=
  C01_history_bounded P.size 3 _ _ (routerP_inRange P hP sch) (routerP_progress P hP sch)
    (fun x d hx hd => routerP_hops_le P hP sch x d hx hd) ls s h

end YgmVerif.Deliver
