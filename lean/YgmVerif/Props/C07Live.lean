import YgmVerif.Props.C07
/-!
# C07 / C03 — the back-pressure wait of `async` ends once the posted sends complete, for every capacity (also zero)

`comm::check_if_production_halt_required` is `while (interrupts enabled ∧ not in a handler ∧ pending > capacity) process_receive_queue();`
and `process_receive_queue` retires completed sends (`sendDone`).  On the `Bytes` model: if the posted, incomplete sends are `ps`
(their sizes sum to `pending`), completing them in ANY order is accepted by `sendDone`, touches nothing but `pending`, and leaves
`pending = 0` — so the wait condition `pending > cap` is false for every capacity, including 0 (`C07_halt_wait_ends`); and the wait
ends as soon as the completed prefix brings `pending` down to the capacity (`C07_halt_wait_ends_early`).  That sends DO complete is the
environment's part (the receivers poll: `C03_wait_until_served`, `C01_never_stuck`; MPI completes matched operations).
-/
namespace YgmVerif.Bytes

/-- the posted sends complete one after the other -/
def drain (s : St) : List Nat → Option St
  | [] => some s
  | b :: bs => match sendDone s b with
    | none => none
    | some s' => drain s' bs

theorem C07_halt_wait_ends (s : St) (ps : List Nat) (h : ps.sum = s.pending) :
    ∃ s', drain s ps = some s' ∧ s'.pending = 0 ∧ s'.q = s.q ∧ ∀ cap, ¬ (s'.pending > cap) := by
  induction ps generalizing s with
  | nil =>
    simp only [List.sum_nil] at h
    exact ⟨s, rfl, h.symm, rfl, fun cap hc => by omega⟩
  | cons b bs ih =>
    simp only [List.sum_cons] at h
    have hb : b ≤ s.pending := by omega
    have hs : sendDone s b = some { s with pending := s.pending - b } := by simp [sendDone, hb]
    obtain ⟨s', hd, hp, hq, hc⟩ := ih { s with pending := s.pending - b } (by simp only; omega)
    exact ⟨s', by simp only [drain, hs]; exact hd, hp, hq, hc⟩

/-- the wait is over as soon as the completed sends bring `pending` down to the capacity: after a prefix `ps1` whose
completion leaves at most `cap` bytes pending the loop condition is false -/
theorem C07_halt_wait_ends_early (cap : Nat) (s : St) (ps1 ps2 : List Nat) (h : (ps1 ++ ps2).sum = s.pending)
    (hc : ps2.sum ≤ cap) : ∃ s', drain s ps1 = some s' ∧ s'.pending = ps2.sum ∧ ¬ (s'.pending > cap) := by
  induction ps1 generalizing s with
  | nil =>
    simp only [List.nil_append] at h
    exact ⟨s, rfl, h.symm, by omega⟩
  | cons b bs ih =>
    simp only [List.cons_append, List.sum_cons] at h
    have hb : b ≤ s.pending := by omega
    have hs : sendDone s b = some { s with pending := s.pending - b } := by simp [sendDone, hb]
    obtain ⟨s', hd, hp, hn⟩ := ih { s with pending := s.pending - b } (by simp only; omega)
    exact ⟨s', by simp only [drain, hs]; exact hd, hp, hn⟩

/-- non-vacuity: capacity 0, three posted sends -/
example : (drain { q := [(1, 40)], pending := 60 } [10, 20, 30]).map (fun s => (s.pending, s.q)) = some (0, [(1, 40)]) := by decide
/-- completing more than is pending is not accepted (the model does not let `pending` underflow) -/
example : (drain { q := [], pending := 5 } [10]).isNone = true := by decide

end YgmVerif.Bytes
