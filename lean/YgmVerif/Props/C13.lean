import YgmVerif.Lemmas.ArrayOps
/-!
# C13 — array updates hit exactly the addressed element exactly once

Theorems about `YgmVerif.ArrayOps` (model of array.hpp / detail/array.ipp above `Part`).
Everything is for all lengths (0 and `< ranks` included), all `ranks > 0`, all value types,
all update functions and all histories.  Execution model: the final state is `run a ms'` for SOME
permutation `ms'` of the issued messages `ms` (exactly-once delivery to the addressed rank, atomic
handlers — C01/C08); the order-independence theorems quantify over all such permutations.
-/
namespace YgmVerif.ArrayOps
open YgmVerif.Part

variable {α : Type}

/-! ## construction -/

theorem fresh_wf (len ranks : Nat) (dv : α) : WF (fresh len ranks dv) := by
  refine ⟨by simp [fresh], ?_⟩
  intro r hr
  have hr' : r < ranks := hr
  simp [fresh, List.getElem?_range hr']

/-- on a well-formed array the slot `l < localSize r` of rank `r` is the element `start r + l` -/
theorem get_globalIndex {a : Arr α} (hr : 0 < a.ranks) {r l : Nat} (hrr : r < a.ranks)
    (hl : l < localSize a.len a.ranks r) :
    get a (globalIndex a.len a.ranks r l) = slot a r l := by
  have hle : start a.len a.ranks (r+1) ≤ start a.len a.ranks a.ranks := start_mono _ _ (by omega)
  rw [start_succ, start_ranks _ _ hr] at hle
  have hlt : globalIndex a.len a.ranks r l < a.len := by unfold globalIndex; omega
  have ho := owner_unique a.len a.ranks (globalIndex a.len a.ranks r l) r hr hlt
    (by unfold globalIndex; omega) (by unfold globalIndex; omega)
  unfold get
  rw [ho]
  simp only []
  rw [local_global_inverse]

/-- every legal element of a well-formed array exists (the lookup neither traps nor leaves the block) -/
theorem get_some_of_wf {a : Arr α} (hw : WF a) (hr : 0 < a.ranks) {i : Nat} (hi : i < a.len) :
    ∃ v, get a i = some v := by
  obtain ⟨d, hd, hdr, h1, h2⟩ := owner_spec a.len a.ranks i hr hi
  have hlen := hw.2 d hdr
  have hdl : d < a.vecs.length := by rw [hw.1]; exact hdr
  rw [List.getElem?_eq_getElem hdl] at hlen
  simp only [Option.map_some, Option.some.injEq] at hlen
  have hli : localIndex a.len a.ranks d i < a.vecs[d].length := by unfold localIndex; omega
  refine ⟨a.vecs[d][localIndex a.len a.ranks d i], ?_⟩
  unfold get slot
  rw [hd]
  simp [List.getElem?_eq_getElem hdl, List.getElem?_eq_getElem hli]

/-- **fresh_default**: a newly constructed array holds the default value in every element, on every
rank, and nothing else -/
theorem fresh_default (len ranks : Nat) (dv : α) (hr : 0 < ranks) :
    (∀ i, i < len → get (fresh len ranks dv) i = some dv) ∧
    (∀ r l x, slot (fresh len ranks dv) r l = some x → x = dv) ∧
    (∀ r, r < ranks → presentedValues (fresh len ranks dv) r = List.replicate (localSize len ranks r) dv) := by
  have hslot : ∀ r l x, slot (fresh len ranks dv) r l = some x → x = dv := by
    intro r l x h
    unfold slot fresh at h
    simp only [List.getElem?_map] at h
    cases hq : (List.range ranks)[r]? with
    | none => simp [hq] at h
    | some q =>
      simp only [hq, Option.map_some, Option.bind_some, List.getElem?_replicate] at h
      split at h
      · exact (Option.some.inj h).symm
      · simp at h
  refine ⟨?_, hslot, ?_⟩
  · intro i hi
    obtain ⟨v, hv⟩ := get_some_of_wf (fresh_wf len ranks dv) hr (i := i) hi
    rw [hv]; congr 1
    unfold get at hv
    split at hv
    · simp at hv
    · exact hslot _ _ _ hv
  · intro r hrr
    simp [presentedValues, fresh, List.getElem?_range hrr]

/-! ## resize -/

/-- after an explicit `resize` the array is well-formed for the NEW length (whatever it was before):
every theorem below applies to updates issued right after it -/
theorem resize_wf (a : Arr α) (newLen : Nat) (fill : α) :
    WF (resize a newLen fill) ∧ (resize a newLen fill).len = newLen ∧ (resize a newLen fill).ranks = a.ranks := by
  refine ⟨⟨by simp [resize], ?_⟩, rfl, rfl⟩
  intro r hr
  have hr' : r < a.ranks := hr
  simp only [resize, List.getElem?_map, List.getElem?_range hr', Option.map_some, List.length_append,
    List.length_take, List.length_replicate]
  congr 1
  omega

/-- what `resize` keeps: slot `l` of rank `r` holds what it held locally before, or the fill value if the
local vector was shorter (`std::vector::resize`) -/
theorem resize_slots (a : Arr α) (newLen : Nat) (fill : α) (r l : Nat) (hr : r < a.ranks)
    (hl : l < localSize newLen a.ranks r) :
    slot (resize a newLen fill) r l =
      if l < (a.vecs.getD r []).length then (a.vecs.getD r [])[l]? else some fill := by
  simp only [slot, resize, List.getElem?_map, List.getElem?_range hr, Option.map_some, Option.bind_some]
  generalize a.vecs.getD r [] = old
  by_cases h : l < old.length
  · rw [if_pos h, List.getElem?_append_left (by rw [List.length_take]; omega), List.getElem?_take, if_pos hl]
  · rw [if_neg h, List.getElem?_append_right (by rw [List.length_take]; omega), List.length_take,
      List.getElem?_replicate, if_pos (by omega)]

/-- a length below the number of ranks, and a changed remainder: 7 elements on 3 ranks (3,2,2) resized to 2
(1,1,0) and to 8 (3,3,2); local prefixes are kept, new slots get the fill value -/
example : (resize ({ len := 7, ranks := 3, dv := 0, vecs := [[1, 2, 3], [4, 5], [6, 7]] } : Arr Nat) 2 9).vecs = [[1], [4], []] ∧
    (resize ({ len := 7, ranks := 3, dv := 0, vecs := [[1, 2, 3], [4, 5], [6, 7]] } : Arr Nat) 8 9).vecs = [[1, 2, 3], [4, 5, 9], [6, 7]] := by
  decide

/-! ## one update -/

/-- a legal update on a well-formed array is executed (no trap in `owner`, no assertion in the handler)
and keeps the array well-formed -/
theorem apply_some {a : Arr α} (m : Msg α) (hw : WF a) (hr : 0 < a.ranks) (hi : m.idx < a.len) :
    ∃ a', apply a m = some a' ∧ WF a' ∧ a'.len = a.len ∧ a'.ranks = a.ranks := by
  obtain ⟨a', h⟩ := apply_some_of_wf m hw hr hi
  have := apply_slots h
  exact ⟨a', h, apply_wf hw h, this.2.1, this.2.2.1⟩

/-- **update_hits_addressed** (raw form, every slot of every rank): exactly the slot
`(owner i, local_index i)` changes, by exactly one application of the update; all other slots of all
ranks are untouched -/
theorem update_hits_addressed_slots {a a' : Arr α} {m : Msg α} (h : apply a m = some a') :
    ∃ d, owner a.len a.ranks m.idx = some d ∧
      ∀ r l, slot a' r l =
        if r = d ∧ l = localIndex a.len a.ranks d m.idx then (slot a r l).map (m.f m.idx) else slot a r l := by
  obtain ⟨_, _, _, _, d, hd, _, _, hs⟩ := apply_slots h
  exact ⟨d, hd, hs⟩

/-- **update_hits_addressed**: element `i` gets the update applied once; every other element `j ≠ i`
keeps its value -/
theorem update_hits_addressed {a a' : Arr α} {m : Msg α} (hr : 0 < a.ranks) (h : apply a m = some a') :
    get a' m.idx = (get a m.idx).map (m.f m.idx) ∧
    ∀ j, j < a.len → j ≠ m.idx → get a' j = get a j := by
  obtain ⟨hi, hl, hrk, _, d, hd, hst, _, hs⟩ := apply_slots h
  constructor
  · unfold get; rw [hl, hrk, hd]; simp only []; rw [hs]; simp
  · intro j hj hne
    obtain ⟨q, hq, _, hq1, _⟩ := owner_spec a.len a.ranks j hr hj
    unfold get; rw [hl, hrk, hq]; simp only []; rw [hs]
    have : ¬ (q = d ∧ localIndex a.len a.ranks q j = localIndex a.len a.ranks d m.idx) := by
      rintro ⟨rfl, he⟩
      exact hne (slot_injective hq1 hst he)
    simp [this]

/-! ## histories -/

theorem run_nil (a : Arr α) : run a [] = some a := rfl

theorem run_cons (a : Arr α) (m : Msg α) (ms : List (Msg α)) :
    run a (m :: ms) = (apply a m).bind (fun a1 => run a1 ms) := by
  simp [run, List.foldlM_cons]

/-- legal histories on well-formed arrays always execute completely -/
theorem run_some {a : Arr α} (ms : List (Msg α)) (hw : WF a) (hr : 0 < a.ranks)
    (hi : ∀ m ∈ ms, m.idx < a.len) :
    ∃ a', run a ms = some a' ∧ WF a' ∧ a'.len = a.len ∧ a'.ranks = a.ranks := by
  induction ms generalizing a with
  | nil => exact ⟨a, rfl, hw, rfl, rfl⟩
  | cons m ms ih =>
    obtain ⟨a1, h1, hw1, hl1, hr1⟩ := apply_some m hw hr (hi m (by simp))
    obtain ⟨a', h', hw', hl', hr'⟩ := ih hw1 (by omega) (by intro x hx; rw [hl1]; exact hi x (by simp [hx]))
    exact ⟨a', by rw [run_cons, h1]; exact h', hw', by omega, by omega⟩

theorem run_len {a a' : Arr α} {ms : List (Msg α)} (h : run a ms = some a') :
    a'.len = a.len ∧ a'.ranks = a.ranks := by
  induction ms generalizing a with
  | nil => simp [run_nil] at h; subst h; exact ⟨rfl, rfl⟩
  | cons m ms ih =>
    rw [run_cons] at h
    cases h1 : apply a m with
    | none => simp [h1] at h
    | some a1 =>
      simp only [h1, Option.bind_some] at h
      have := apply_slots h1
      have := ih h
      omega

/-- the updates addressed to element `i`, in execution order -/
def updatesOf (ms : List (Msg α)) (i : Nat) : List (Msg α) := ms.filter (fun m => m.idx == i)

/-- **final_is_fold**: after any history, each element is the sequential fold of exactly the updates
addressed to it (each applied exactly once, nothing else applied), in their execution order -/
theorem final_is_fold {a a' : Arr α} {ms : List (Msg α)} (hr : 0 < a.ranks) (h : run a ms = some a')
    (i : Nat) (hi : i < a.len) :
    get a' i = (get a i).map (fun v0 => (updatesOf ms i).foldl (fun v m => m.f i v) v0) := by
  induction ms generalizing a with
  | nil => simp [run_nil] at h; subst h; simp [updatesOf]
  | cons m ms ih =>
    rw [run_cons] at h
    cases h1 : apply a m with
    | none => simp [h1] at h
    | some a1 =>
      simp only [h1, Option.bind_some] at h
      have hs := apply_slots h1
      have hu := update_hits_addressed hr h1
      rw [ih (by omega) h (by omega)]
      unfold updatesOf
      rw [List.filter_cons]
      by_cases hmi : m.idx = i
      · subst hmi
        rw [hu.1]
        simp [Option.map_map, Function.comp_def]
      · rw [hu.2 i hi (fun h => hmi h.symm)]
        simp [hmi]

/-- **final_is_fold**, order-independent part: if the updates addressed to the same element commute
pairwise, every execution order (every permutation of the history) yields the same value in every
element -/
theorem final_order_independent {a a1 a2 : Arr α} {ms ms' : List (Msg α)} (hr : 0 < a.ranks)
    (hp : ms.Perm ms')
    (hc : ∀ x ∈ ms, ∀ y ∈ ms, x.idx = y.idx → ∀ v, y.f y.idx (x.f x.idx v) = x.f x.idx (y.f y.idx v))
    (h1 : run a ms = some a1) (h2 : run a ms' = some a2) (i : Nat) (hi : i < a.len) :
    get a1 i = get a2 i := by
  rw [final_is_fold hr h1 i hi, final_is_fold hr h2 i hi]
  congr 1
  funext v0
  apply List.Perm.foldl_eq' (hp.filter _)
  intro x hx y hy z
  simp only [List.mem_filter, beq_iff_eq] at hx hy
  have := hc x hx.1 y hy.1 (by omega) z
  rw [hx.2, hy.2] at this
  exact this

/-- the whole distributed state (every rank's vector), not only the elements, is order-independent -/
theorem final_state_order_independent {a a1 a2 : Arr α} {ms ms' : List (Msg α)} (hw : WF a) (hr : 0 < a.ranks)
    (hp : ms.Perm ms')
    (hc : ∀ x ∈ ms, ∀ y ∈ ms, x.idx = y.idx → ∀ v, y.f y.idx (x.f x.idx v) = x.f x.idx (y.f y.idx v))
    (h1 : run a ms = some a1) (h2 : run a ms' = some a2) : a1.vecs = a2.vecs := by
  have hi : ∀ m ∈ ms, m.idx < a.len := by
    intro m hm
    by_cases hlt : m.idx < a.len
    · exact hlt
    · exfalso
      -- an illegal index makes `run` fail
      clear hc hp h2
      induction ms generalizing a with
      | nil => simp at hm
      | cons x xs ih =>
        rw [run_cons] at h1
        cases hx : apply a x with
        | none => simp [hx] at h1
        | some ax =>
          simp only [hx, Option.bind_some] at h1
          have hs := apply_slots hx
          rcases List.mem_cons.mp hm with rfl | hm'
          · exact hlt hs.1
          · exact ih (apply_wf hw hx) (by omega) h1 hm' (by omega)
  obtain ⟨b1, hb1, hw1, hl1, hr1⟩ := run_some ms hw hr hi
  obtain ⟨b2, hb2, hw2, hl2, hr2⟩ := run_some ms' hw hr (fun m hm => hi m (hp.mem_iff.mpr hm))
  rw [h1] at hb1; rw [h2] at hb2
  cases hb1; cases hb2
  apply List.ext_getElem?
  intro r
  by_cases hrr : r < a.ranks
  · have e1 := hw1.2 r (by omega)
    have e2 := hw2.2 r (by omega)
    have hl1' : r < a1.vecs.length := by rw [hw1.1]; omega
    have hl2' : r < a2.vecs.length := by rw [hw2.1]; omega
    rw [List.getElem?_eq_getElem hl1'] at e1 ⊢
    rw [List.getElem?_eq_getElem hl2'] at e2 ⊢
    simp only [Option.map_some, Option.some.injEq] at e1 e2
    congr 1
    apply List.ext_getElem?
    intro l
    by_cases hll : l < localSize a.len a.ranks r
    · have g1 := get_globalIndex (a := a1) (by omega) (r := r) (l := l) (by omega) (by rw [hl1, hr1]; exact hll)
      have g2 := get_globalIndex (a := a2) (by omega) (r := r) (l := l) (by omega) (by rw [hl2, hr2]; exact hll)
      have hlt : globalIndex a.len a.ranks r l < a.len := by
        have hle : start a.len a.ranks (r+1) ≤ start a.len a.ranks a.ranks := start_mono _ _ (by omega)
        rw [start_succ, start_ranks _ _ hr] at hle
        unfold globalIndex; omega
      have := final_order_independent hr hp hc h1 h2 _ hlt
      rw [hl1, hr1] at g1; rw [hl2, hr2] at g2
      rw [g1, g2] at this
      simpa [slot, List.getElem?_eq_getElem hl1', List.getElem?_eq_getElem hl2'] using this
    · rw [List.getElem?_eq_none (by rw [e1, hl1, hr1]; omega), List.getElem?_eq_none (by rw [e2, hl2, hr2]; omega)]
  · rw [List.getElem?_eq_none (by rw [hw1.1]; omega), List.getElem?_eq_none (by rw [hw2.1]; omega)]

/-- updates `v ↦ op v x` of an associative-commutative operator commute -/
theorem binop_updates_commute (op : α → α → α) (hassoc : ∀ x y z, op (op x y) z = op x (op y z))
    (hcomm : ∀ x y, op x y = op y x) (x y v : α) : op (op v x) y = op (op v y) x := by
  rw [hassoc, hassoc, hcomm x y]

/-- the message of `async_binary_op_update_value(index, value, op)` -/
def binMsg (op : α → α → α) (p : Nat × α) : Msg α := { idx := p.1, f := fun _ v => op v p.2 }

/-- **final_is_fold** for an associative-commutative operator: each element is its initial value
combined with the arguments addressed to it, and the result does not depend on the execution order -/
theorem final_assoc_comm (op : α → α → α) (hassoc : ∀ x y z, op (op x y) z = op x (op y z))
    (hcomm : ∀ x y, op x y = op y x)
    {a a1 a2 : Arr α} {upd upd' : List (Nat × α)} (hr : 0 < a.ranks) (hp : upd.Perm upd')
    (h1 : run a (upd.map (binMsg op)) = some a1) (h2 : run a (upd'.map (binMsg op)) = some a2)
    (i : Nat) (hi : i < a.len) :
    get a1 i = (get a i).map (fun v0 => ((upd.filter (fun p => p.1 == i)).map (·.2)).foldl op v0) ∧
    get a2 i = get a1 i := by
  constructor
  · rw [final_is_fold hr h1 i hi]
    congr 1
    funext v0
    unfold updatesOf
    rw [List.filter_map, List.foldl_map, List.foldl_map]
    rfl
  · symm
    apply final_order_independent hr (hp.map _) _ h1 h2 i hi
    intro x hx y hy _ v
    simp only [List.mem_map] at hx hy
    obtain ⟨p, _, rfl⟩ := hx
    obtain ⟨q, _, rfl⟩ := hy
    exact binop_updates_commute op hassoc hcomm p.2 q.2 v

/-! ## for_all callbacks that update the array they iterate -/

theorem flatMap_append_perm {β γ : Type} (L : List β) (A B : β → List γ) :
    (L.flatMap (fun x => A x ++ B x)).Perm (L.flatMap A ++ L.flatMap B) := by
  induction L with
  | nil => simp
  | cons x xs ih =>
    simp only [List.flatMap_cons, List.append_assoc]
    refine (List.Perm.append_left _ ((List.Perm.append_left _ ih).trans ?_))
    rw [← List.append_assoc, ← List.append_assoc]
    exact List.Perm.append_right _ List.perm_append_comm

theorem flatMap_perm_congr {β γ : Type} {L : List β} {f g : β → List γ} (h : ∀ x ∈ L, (f x).Perm (g x)) :
    (L.flatMap f).Perm (L.flatMap g) := by
  induction L with
  | nil => exact List.Perm.refl _
  | cons x xs ih =>
    simp only [List.flatMap_cons]
    exact (h x (by simp)).append (ih (fun y hy => h y (by simp [hy])))

theorem flatMap_cons_perm {β γ : Type} (L : List β) (h : β → γ) (t : β → List γ) :
    (L.flatMap (fun l => h l :: t l)).Perm (L.map h ++ L.flatMap t) := by
  induction L with
  | nil => simp
  | cons x xs ih =>
    simp only [List.flatMap_cons, List.map_cons, List.cons_append]
    exact List.Perm.cons _ (((List.Perm.append_left _ ih)).trans (List.perm_append_comm_assoc _ _ _))

/-- the callbacks' own modifications (through the reference), one per presented slot -/
def directOf (a : Arr α) (cb : Callback α) : List (Msg α) :=
  (List.range a.ranks).flatMap (fun r => (List.range (localSize a.len a.ranks r)).map (fun l =>
    ({ idx := globalIndex a.len a.ranks r l, f := fun _ v => cb.direct r l (globalIndex a.len a.ranks r l) v } : Msg α)))

/-- everything the callbacks emit -/
def emittedOf (a : Arr α) (cb : Callback α) : List (Msg α) :=
  (List.range a.ranks).flatMap (fun r => (List.range (localSize a.len a.ranks r)).flatMap (fun l =>
    cb.emits r l (globalIndex a.len a.ranks r l)))

/-- `for_all(cb)` = one own modification per element (each index `0..len-1` exactly once) plus the emitted
updates — nothing else touches the array -/
theorem forAllMsgs_split (a : Arr α) (cb : Callback α) (hr : 0 < a.ranks) :
    (forAllMsgs a cb).Perm (directOf a cb ++ emittedOf a cb) ∧ (directOf a cb).map (·.idx) = List.range a.len := by
  constructor
  · unfold forAllMsgs directOf emittedOf
    refine List.Perm.trans ?_ (flatMap_append_perm _ _ _)
    apply flatMap_perm_congr
    intro r _
    exact flatMap_cons_perm _ _ _
  · unfold directOf
    rw [List.map_flatMap]
    have : (List.range a.ranks).flatMap (fun r => ((List.range (localSize a.len a.ranks r)).map (fun l =>
        ({ idx := globalIndex a.len a.ranks r l, f := fun _ v => cb.direct r l (globalIndex a.len a.ranks r l) v } : Msg α))).map (·.idx)) =
        (List.range a.ranks).flatMap (indicesOf a.len a.ranks) := by
      apply flatMap_congr'
      intro r _
      simp [indicesOf, List.map_map, Function.comp_def]
    rw [this, flatMap_indicesOf, start_ranks _ _ hr]

/-- **emitted updates are covered by the fold theorems**: whatever order the callbacks' own modifications and
the updates they emit are executed in (inside the emitting callback, inside another callback, in the
closing barrier), every element ends as the fold of exactly the updates addressed to it — own
modification included, each exactly once — provided updates to one element commute -/
theorem forAll_emit_is_fold {a a' : Arr α} {cb : Callback α} {ms' : List (Msg α)} (hr : 0 < a.ranks)
    (hp : ms'.Perm (forAllMsgs a cb))
    (hc : ∀ x ∈ forAllMsgs a cb, ∀ y ∈ forAllMsgs a cb, x.idx = y.idx → ∀ v, y.f y.idx (x.f x.idx v) = x.f x.idx (y.f y.idx v))
    (h : run a ms' = some a') (i : Nat) (hi : i < a.len) :
    get a' i = (get a i).map (fun v0 => (updatesOf (forAllMsgs a cb) i).foldl (fun v m => m.f i v) v0) := by
  rw [final_is_fold hr h i hi]
  congr 1
  funext v0
  apply List.Perm.foldl_eq' (hp.filter _)
  intro x hx y hy z
  simp only [List.mem_filter, beq_iff_eq] at hx hy
  have := hc x (hp.mem_iff.mp hx.1) y (hp.mem_iff.mp hy.1) (by omega) z
  rw [hx.2, hy.2] at this
  exact this

/-- a `for_all` whose callbacks emit only legal indices never traps, in any execution order -/
theorem forAll_emit_some {a : Arr α} {cb : Callback α} {ms' : List (Msg α)} (hw : WF a) (hr : 0 < a.ranks)
    (hp : ms'.Perm (forAllMsgs a cb)) (hl : ∀ m ∈ emittedOf a cb, m.idx < a.len) :
    ∃ a', run a ms' = some a' ∧ WF a' := by
  obtain ⟨hperm, hidx⟩ := forAllMsgs_split a cb hr
  have hall : ∀ m ∈ ms', m.idx < a.len := by
    intro m hm
    have := (hperm.mem_iff.mp (hp.mem_iff.mp hm))
    rcases List.mem_append.mp this with h1 | h1
    · have : m.idx ∈ (directOf a cb).map (·.idx) := List.mem_map_of_mem h1
      rw [hidx] at this
      exact List.mem_range.mp this
    · exact hl m h1
  obtain ⟨a', h1, h2, _, _⟩ := run_some ms' hw hr hall
  exact ⟨a', h1, h2⟩

/-! ## the concrete operators of array.hpp on `uint64_t` -/

/-- families of operations whose updates commute with each other: additive (plus, minus, increment,
decrement), multiplies, bit_and, bit_or, bit_xor, logical_and, logical_or.  `set`, `divides` and the
user visitor are in no family. -/
def Op.family : Op → Option Nat
  | .plus _ | .minus _ | .inc | .dec => some 0
  | .mult _ => some 1 | .band _ => some 2 | .bor _ => some 3 | .bxor _ => some 4
  | .land _ => some 5 | .lor _ => some 6
  | .set _ | .div _ | .visit _ => none

theorem b2u_ne_zero (b : Bool) : (b2u b != 0) = b := by cases b <;> decide

/-- operations of one family commute as updates (so their histories are order-independent) -/
theorem Op.eval_comm (x y : Op) (i j : Nat) (v : UInt64) (hf : x.family = y.family) (hn : x.family ≠ none) :
    y.eval j (x.eval i v) = x.eval i (y.eval j v) := by
  cases x <;> cases y <;> simp [Op.family] at hf hn <;> simp only [Op.eval]
  all_goals first
    | grind
    | (simp only [UInt64.and_assoc, UInt64.or_assoc, UInt64.xor_assoc]; congr 1; first | exact UInt64.and_comm _ _ | exact UInt64.or_comm _ _ | exact UInt64.xor_comm _ _)
    | (simp only [b2u_ne_zero, Bool.and_assoc, Bool.or_assoc]; congr 2; first | exact Bool.and_comm _ _ | exact Bool.or_comm _ _)

/-- the updates of the harness' emitting callback (own modification and emitted ones) all belong to one
operator family, hence commute: `forAll_emit_is_fold` applies to the `E` scripts of the check -/
theorem harnessCallback_commutes (a : Arr UInt64) (mk : UInt64 → Op) (fam : Nat) (hf : ∀ x, (mk x).family = some fam)
    (c salt k : Nat) :
    ∀ x ∈ forAllMsgs a (harnessCallback a.len mk c salt k), ∀ y ∈ forAllMsgs a (harnessCallback a.len mk c salt k),
      ∀ v, y.f y.idx (x.f x.idx v) = x.f x.idx (y.f y.idx v) := by
  have key : ∀ m ∈ forAllMsgs a (harnessCallback a.len mk c salt k), ∃ u i', ∀ v, m.f m.idx v = (mk u).eval i' v := by
    intro m hm
    simp only [forAllMsgs, harnessCallback, List.mem_flatMap, List.mem_range, List.mem_cons] at hm
    obtain ⟨r, _, l, _, hm⟩ := hm
    rcases hm with rfl | ⟨j, _, hm⟩
    · exact ⟨_, _, fun v => rfl⟩
    · simp only [List.mem_cons, List.not_mem_nil, or_false] at hm
      rcases hm with rfl | rfl | rfl <;> exact ⟨_, _, fun v => rfl⟩
  intro x hx y hy v
  obtain ⟨u1, i1, h1⟩ := key x hx
  obtain ⟨u2, i2, h2⟩ := key y hy
  rw [h1, h2, h2, h1]
  exact Op.eval_comm (mk u1) (mk u2) i1 i2 v (by rw [hf, hf]) (by rw [hf]; simp)

/-! ## for_all and copies -/

/-- indices presented by rank `r` of a well-formed array are exactly its block, in order -/
theorem presented_indices {a : Arr α} (hw : WF a) {r : Nat} (hrr : r < a.ranks) :
    (presented a r).map Prod.fst = indicesOf a.len a.ranks r := by
  have hlen := hw.2 r hrr
  have hdl : r < a.vecs.length := by rw [hw.1]; exact hrr
  rw [List.getElem?_eq_getElem hdl] at hlen
  simp only [Option.map_some, Option.some.injEq] at hlen
  unfold presented indicesOf
  rw [List.getElem?_eq_getElem hdl]
  simp only [Option.getD_some, List.map_map]
  have : (Prod.fst ∘ fun p : α × Nat => (globalIndex a.len a.ranks r p.2, p.1)) =
      (globalIndex a.len a.ranks r) ∘ Prod.snd := by funext p; rfl
  rw [this, ← List.map_map, List.zipIdx_map_snd, hlen, List.range'_eq_map_range]
  simp

/-- **for_all_each_index_once**: over all ranks, `for_all` presents the global indices
`0, 1, …, len-1`, each exactly once (rank after rank they are even in increasing order), each with
the value the array holds at that index; and a rank presents only indices it owns -/
theorem for_all_each_index_once {a : Arr α} (hw : WF a) (hr : 0 < a.ranks) :
    (presentedAll a).map Prod.fst = List.range a.len ∧
    (∀ p ∈ presentedAll a, get a p.1 = some p.2) ∧
    (∀ r, r < a.ranks → ∀ p ∈ presented a r, owner a.len a.ranks p.1 = some r) := by
  have hidx : ∀ r, r < a.ranks → (presented a r).map Prod.fst = indicesOf a.len a.ranks r :=
    fun r hrr => presented_indices hw hrr
  have hown : ∀ r, r < a.ranks → ∀ p ∈ presented a r, owner a.len a.ranks p.1 = some r := by
    intro r hrr p hp
    have : p.1 ∈ indicesOf a.len a.ranks r := by
      rw [← hidx r hrr]; exact List.mem_map_of_mem hp
    exact (indicesOf_owned a.len a.ranks r p.1 hr hrr this).2
  refine ⟨?_, ?_, hown⟩
  · unfold presentedAll
    rw [List.map_flatMap]
    have : (List.range a.ranks).flatMap (fun r => (presented a r).map Prod.fst) =
        (List.range a.ranks).flatMap (indicesOf a.len a.ranks) := by
      apply flatMap_congr'
      intro r hrr
      exact hidx r (List.mem_range.mp hrr)
    rw [this, flatMap_indicesOf, start_ranks _ _ hr]
  · intro p hp
    unfold presentedAll at hp
    simp only [List.mem_flatMap, List.mem_range] at hp
    obtain ⟨r, hrr, hp⟩ := hp
    have hlen := hw.2 r hrr
    have hdl : r < a.vecs.length := by rw [hw.1]; exact hrr
    rw [List.getElem?_eq_getElem hdl] at hlen
    simp only [Option.map_some, Option.some.injEq] at hlen
    unfold presented at hp
    rw [List.getElem?_eq_getElem hdl] at hp
    simp only [Option.getD_some, List.mem_map] at hp
    obtain ⟨q, hq, rfl⟩ := hp
    rw [List.mem_zipIdx_iff_getElem?] at hq
    have hql : q.2 < a.vecs[r].length := by
      have := List.getElem?_eq_some_iff.mp hq; exact this.1
    simp only []
    rw [get_globalIndex hr hrr (by omega)]
    simp [slot, List.getElem?_eq_getElem hdl, hq]

/-- the value-only form of `for_all` presents exactly the values of the (index, value) form -/
theorem presentedValues_eq (a : Arr α) (r : Nat) : presentedValues a r = (presented a r).map Prod.snd := by
  unfold presentedValues presented
  rw [List.map_map]
  have : (Prod.snd ∘ fun p : α × Nat => (globalIndex a.len a.ranks r p.2, p.1)) = Prod.fst := by funext p; rfl
  rw [this, List.zipIdx_map_fst]

/-- **copy_same**: a copy holds the same values at the same indices (on the same ranks), and later
updates of the copy leave the original as it was -/
theorem copy_same (a : Arr α) :
    (∀ i, get (copy a) i = get a i) ∧ (∀ r l, slot (copy a) r l = slot a r l) ∧
    (copy a).len = a.len ∧ (copy a).ranks = a.ranks ∧ (WF a → WF (copy a)) := by
  have : copy a = a := by cases a; simp [copy]
  rw [this]
  exact ⟨fun _ => rfl, fun _ _ => rfl, rfl, rfl, id⟩

/-! ## non-vacuity -/

/-- 3 elements on 4 ranks (`len < ranks`, last rank empty): updates from "every rank" to the boundary
elements execute, and the result is the fold -/
example : (run (fresh 3 4 (5 : UInt64)) [Op.msg 0 (.plus 2), Op.msg 2 (.visit 1), Op.msg 0 .inc, Op.msg 2 (.set 9)]).map
    (fun a => a.vecs) = some [[8], [5], [9], []] := by decide
example : (presentedAll (fresh 3 4 (5 : UInt64))) = [(0, 5), (1, 5), (2, 5)] := by decide
/-- an index beyond the length is refused (the model does not silently clamp) -/
example : (apply (fresh 3 4 (5 : UInt64)) (Op.msg 3 .inc)).isNone = true := by decide
/-- delivering to a rank that does not own the index is refused (unsigned wrap of `index - start`) -/
example : (deliver 10 4 2 [0, 0] (Op.msg 3 .inc)).isNone = true := by decide
/-- `set` after `plus` differs from `plus` after `set`: the commutation hypothesis is not vacuous -/
example : (run (fresh 1 1 (0 : UInt64)) [Op.msg 0 (.set 4), Op.msg 0 (.plus 1)]).map (·.vecs) ≠
    (run (fresh 1 1 (0 : UInt64)) [Op.msg 0 (.plus 1), Op.msg 0 (.set 4)]).map (·.vecs) := by decide

end YgmVerif.ArrayOps
