import YgmVerif.Lemmas.Wire
/-!
# C06 — arguments and functor state arrive bit-exact; packed messages never overlap

Theorems about `YgmVerif.Wire` (model of ygm_cereal_archive.hpp, cereal_boost_json.hpp,
ygm_ptr.hpp and of `pack_header` / `pack_lambda_generic` / `async`'s back-patch /
`queue_message_bytes` / `handle_next_receive` in comm.ipp).  Quantified over every value of the
type universe (any nesting, any length below 2^64), every message list, every position in a
buffer, every route length.  No send-buffer capacity occurs anywhere: a message larger than the
capacity is just a longer byte list.

Widths that do exist in the code are explicit hypotheses (`MsgOk`): lambda id < 2^16,
message body < 2^32 bytes (`uint32_t message_size`), destination < 2^31 (`int32_t dest`).
-/
namespace YgmVerif.Wire

/-! ## values -/

/-- Reading back what was written yields the value and leaves exactly the bytes that followed:
a handler consumes its own bytes and not one byte of its neighbour's. -/
theorem des_ser (v : Val) (t : Ty) (h : HasTy v t) (rest : Bytes) :
    des t (ser v ++ rest) = some (v, rest) := des_ser_aux v t h rest

/-- the same for a whole argument tuple (`std::tuple<PackArgs...>`) -/
theorem desAll_ser (vs : List Val) (ts : List Ty) (h : HasTys vs ts) (rest : Bytes) :
    desAll ts (serList vs ++ rest) = some (vs, rest) := desAll_ser_aux vs ts h rest

/-- bit-exact: two values of one type with the same bytes are the same value -/
theorem ser_injective (v w : Val) (t : Ty) (hv : HasTy v t) (hw : HasTy w t) (h : ser v = ser w) : v = w := by
  have a := des_ser v t hv []
  have b := des_ser w t hw []
  rw [h, b] at a
  injection a with a; injection a with a _; exact a.symm

/-- no bound on the payload: a string (likewise any container) of *any* length a `size_t` can
count round-trips; nothing refers to a buffer capacity -/
theorem size_any (bs : Bytes) (h : bs.length < 2 ^ 64) (rest : Bytes) :
    des .str (ser (.str bs) ++ rest) = some (.str bs, rest) ∧ (ser (.str bs)).length = 8 + bs.length := by
  refine ⟨des_ser _ _ (.str bs (by simpa using h)) rest, ?_⟩
  simp [ser, leBytes_length]

/-- tuples (and user types archiving their members in order) are the members back to back -/
theorem ser_tuple (vs : List Val) : ser (Val.tuple vs) = serList vs := by
  induction vs with
  | nil => rfl
  | cons v vs ih => simp [Val.tuple, ser, serList, ih]

theorem hasTy_tuple (vs : List Val) (ts : List Ty) (h : HasTys vs ts) : HasTy (Val.tuple vs) (Ty.tuple ts) := by
  induction h with
  | nil => exact .unit
  | cons v t vs ts hv _ ih => exact .pair t _ v _ hv ih

/-! ## one message -/

/-- `message_size` written by the back-patch is the number of bytes that follow the header -/
theorem header_size_exact (m : Msg) (hb : m.bcast = false) (h : (body m).length < 2 ^ 32) :
    ∃ hdrRest, encodeMsg true m = leBytes 4 (body m).length ++ hdrRest ++ body m ∧ hdrRest.length = 4 ∧
      readNat 4 (encodeMsg true m) = some ((body m).length, hdrRest ++ body m) := by
  refine ⟨leBytes 4 (toTwos 4 (m.dest : Int)), ?_, leBytes_length _ _, ?_⟩
  · simp [encodeMsg, msgHeader, hb, header]
  · simp only [encodeMsg, msgHeader, hb, if_true, Bool.false_eq_true, if_false]
    exact readHeader _ _ (by simpa using h) _

/-- `comm::async` (size-0 header, packed lambda, `memcpy` of the size at
`end - (header_bytes + bytes)`) appends exactly `encodeMsg` and touches nothing before it -/
theorem asyncAppend_eq (routed : Bool) (buf : Bytes) (m : Msg) (h : (body m).length < 2 ^ 32) :
    asyncAppend routed buf m = buf ++ encodeMsg routed { m with bcast := false } := by
  have hbody : body { m with bcast := false } = body m := rfl
  cases routed with
  | false => simp [asyncAppend, encodeMsg, hbody]
  | true =>
    simp only [asyncAppend, encodeMsg, msgHeader, if_true, Bool.false_eq_true, if_false, hbody]
    rw [Nat.mod_eq_of_lt h]
    have hpos : (buf ++ header 0 (m.dest : Int) ++ body m).length - (8 + (body m).length) = buf.length := by
      simp [header_length]
    rw [hpos]
    simp only [header, List.append_assoc]
    exact patch_mid buf (leBytes 4 0) _ (leBytes 4 (body m).length) (by simp [leBytes_length])

theorem queueAppend_eq (routed : Bool) (buf : Bytes) (m : Msg) :
    queueAppend routed buf m = buf ++ encodeMsg routed { m with bcast := true } := by
  have hbody : body { m with bcast := true } = body m := rfl
  cases routed <;> simp [queueAppend, encodeMsg, msgHeader, hbody]

/-! ## a physical buffer -/

/-- Any list of messages packed back to back is split by the receive loop into exactly those
messages, each with its own functor bytes and arguments (executed) or its own raw bytes
(forwarded) — whatever precedes or follows it in the buffer. -/
theorem parseBuffer_encode (routed : Bool) (tbl : Table) (me : Int) (ms : List Msg)
    (ok : ∀ m ∈ ms, MsgOk tbl m) :
    parseBuffer routed tbl me (encodeAll routed ms) = some (ms.map (view routed me)) :=
  parseLoop_encode routed tbl me ms ok _ (Nat.le_refl _)

/-- every position inside a shared buffer: the items of a concatenation are the concatenation
of the items -/
theorem parseBuffer_append (routed : Bool) (tbl : Table) (me : Int) (pre post : List Msg) (m : Msg)
    (ok : ∀ x ∈ pre ++ m :: post, MsgOk tbl x) :
    parseBuffer routed tbl me (encodeAll routed pre ++ (encodeMsg routed m ++ encodeAll routed post))
      = some (pre.map (view routed me) ++ view routed me m :: post.map (view routed me)) := by
  have := parseBuffer_encode routed tbl me (pre ++ m :: post) ok
  rw [encodeAll_append] at this
  simpa [encodeAll] using this

/-- a buffer built by any interleaving of `async` and `queue_message_bytes` calls is parsed back
into those calls -/
def buildBuffer (routed : Bool) : List Msg → Bytes → Bytes
  | [], buf => buf
  | m :: ms, buf => buildBuffer routed ms (if m.bcast then queueAppend routed buf m else asyncAppend routed buf m)

theorem buildBuffer_eq (routed : Bool) (ms : List Msg) (buf : Bytes) (h : ∀ m ∈ ms, (body m).length < 2 ^ 32) :
    buildBuffer routed ms buf = buf ++ encodeAll routed ms := by
  induction ms generalizing buf with
  | nil => simp [buildBuffer, encodeAll]
  | cons m ms ih =>
    simp only [buildBuffer, encodeAll]
    rw [ih _ (fun x hx => h x (by simp [hx]))]
    cases hb : m.bcast with
    | true =>
      have : ({ m with bcast := true } : Msg) = m := by cases m; simp_all
      simp [queueAppend_eq, this]
    | false =>
      have : ({ m with bcast := false } : Msg) = m := by cases m; simp_all
      simp [asyncAppend_eq routed buf m (h m (by simp)), this]

theorem parse_built_buffer (routed : Bool) (tbl : Table) (me : Int) (ms : List Msg) (ok : ∀ m ∈ ms, MsgOk tbl m) :
    parseBuffer routed tbl me (buildBuffer routed ms []) = some (ms.map (view routed me)) := by
  rw [buildBuffer_eq routed ms [] (fun m hm => by simpa using (ok m hm).size)]
  simpa using parseBuffer_encode routed tbl me ms ok

/-! ## forwarding -/

/-- at a rank that is not the destination the message is re-buffered byte for byte, behind
whatever the outgoing buffer already holds -/
theorem forward_bytes_id (tbl : Table) (me : Int) (m : Msg) (ok : MsgOk tbl m) (hb : m.bcast = false)
    (hne : (m.dest : Int) ≠ me) (rest buf : Bytes) :
    ∃ s d p, parseStep true tbl me (encodeMsg true m ++ rest) = some (.fwd s d p, rest) ∧
      forwardCopy buf s d p = buf ++ encodeMsg true m := by
  refine ⟨(body m).length, (m.dest : Int), body m, ?_, ?_⟩
  · rw [parseStep_encode true tbl me m ok rest]; simp [view, hb, hne]
  · simp [forwardCopy, encodeMsg, msgHeader, hb]

/-- one hop: what leaves is the encoding of exactly the messages that were not for this rank -/
theorem hop_forward (tbl : Table) (me : Int) (ms : List Msg) (ok : ∀ m ∈ ms, MsgOk tbl m) :
    hopBytes tbl me (encodeAll true ms)
      = some (encodeAll true (ms.filter fun m => !m.bcast && !decide ((m.dest : Int) = me))) := by
  simp [hopBytes, parseBuffer_encode true tbl me ms ok, forwardAll_views]

/-- routes of any length: relayed through any list of ranks none of which is a destination,
the bytes are unchanged -/
theorem relay_route (tbl : Table) (route : List Nat) (ms : List Msg) (ok : ∀ m ∈ ms, MsgOk tbl m)
    (hr : ∀ r ∈ route, ∀ m ∈ ms, m.bcast = false ∧ m.dest ≠ r) :
    relay tbl route (encodeAll true ms) = some (encodeAll true ms) := by
  induction route with
  | nil => rfl
  | cons r rs ih =>
    simp only [relay]
    rw [hop_forward tbl r ms ok]
    have hfilter : (ms.filter fun m => !m.bcast && !decide ((m.dest : Int) = (r : Int))) = ms := by
      apply List.filter_eq_self.mpr
      intro m hm
      obtain ⟨h1, h2⟩ := hr r (by simp) m hm
      have : ¬ ((m.dest : Int) = (r : Int)) := by omega
      simp [h1, this]
    rw [hfilter]
    exact ih (fun r' hr' => hr r' (by simp [hr']))

/-- end to end: after any number of intermediate hops the destination's handler gets the
arguments and functor bytes that were passed to `async` -/
theorem route_delivers (tbl : Table) (route : List Nat) (m : Msg) (ok : MsgOk tbl m) (hb : m.bcast = false)
    (hr : ∀ r ∈ route, m.dest ≠ r) (buf : Bytes) :
    relay tbl route (asyncAppend true [] m) = some buf →
      parseBuffer true tbl (m.dest : Int) buf = some [.exec (body m).length (m.dest : Int) m.lid m.fn m.args] := by
  have hm : ({ m with bcast := false } : Msg) = m := by cases m; simp_all
  have hsz : (body m).length < 2 ^ 32 := by simpa using ok.size
  rw [asyncAppend_eq true [] m hsz, hm]
  have henc : ([] : Bytes) ++ encodeMsg true m = encodeAll true [m] := by simp [encodeAll]
  rw [henc, relay_route tbl route [m] (by simpa using ok) (by simpa using fun r hr' => ⟨hb, hr r hr'⟩)]
  intro h; injection h with h; subst h
  rw [parseBuffer_encode true tbl _ [m] (by simpa using ok)]
  simp [view, hb]

/-! ## non-vacuity: the hypotheses are met by concrete, non-trivial values -/

/-- `std::map<std::string, std::vector<int16_t>>{{"ab", {-2, 300}}}` -/
def exMap : Val := .seq [.pair (.str [97, 98]) (.seq [.i 2 (-2), .i 2 300])]

theorem exMap_ty : HasTy exMap (.map .str (.vec (.i 2))) := by
  refine .map _ _ _ (by decide) ?_
  intro x hx
  simp only [List.mem_singleton] at hx
  subst hx
  refine .pair _ _ _ _ (.str _ (by decide)) (.vec _ _ (by decide) ?_)
  intro v hv
  simp only [List.mem_cons, List.mem_nil_iff, or_false] at hv
  rcases hv with rfl | rfl
  · exact .i 2 (-2) (by decide) (by decide)
  · exact .i 2 300 (by decide) (by decide)

example : ser exMap = [1,0,0,0,0,0,0,0, 2,0,0,0,0,0,0,0, 97,98, 2,0,0,0,0,0,0,0, 0xfe,0xff, 0x2c,0x01] := by rfl
example : des (.map .str (.vec (.i 2))) (ser exMap ++ [7, 7]) = some (exMap, [7, 7]) := des_ser _ _ exMap_ty _
example : des (.map .str (.vec (.i 2))) (ser exMap ++ [7, 7]) = some (exMap, [7, 7]) := by rfl

/-- `{"k": [null, true, -1]}` as a boost::json::value -/
def exJson : Val :=
  .pair (.u 1 7) (.seq ([([107], Val.pair (.u 1 6) (.seq [.pair (.u 1 0) .unit, .pair (.u 1 1) (.bool true),
    .pair (.u 1 2) (.i 8 (-1))]))].map fun m => .pair (.str m.1) m.2))

theorem exJson_ty : HasTy exJson .json := by
  refine .json _ (.obj _ (by decide) (by intro m hm; simp at hm; subst hm; decide) ?_)
  intro m hm
  simp only [List.mem_singleton] at hm
  subst hm
  refine .arr _ (by decide) ?_
  intro j hj
  simp only [List.mem_cons, List.mem_nil_iff, or_false] at hj
  rcases hj with rfl | rfl | rfl
  · exact .null
  · exact .bool true
  · exact .int (-1) (by decide) (by decide)

example : des .json (ser exJson ++ [9]) = some (exJson, [9]) := des_ser _ _ exJson_ty _
example : (ser exJson).length = 1 + 8 + (8 + 1) + (1 + 8 + (1 + 2 + 9)) := by rfl

/-- two messages with a 3-byte functor and arguments `(uint64_t, std::string)`; the first is for
rank 5, the second for rank 2 -/
def exTbl : Table := fun lid => if lid = 17 then some (3, [.u 8, .str]) else none
def exM1 : Msg := { bcast := false, dest := 5, lid := 17, fn := [1, 2, 3], args := [.u 8 77, .str [104, 105]] }
def exM2 : Msg := { bcast := false, dest := 2, lid := 17, fn := [9, 9, 9], args := [.u 8 78, .str []] }

theorem exM1_ok : MsgOk exTbl exM1 :=
  ⟨by decide, ⟨[.u 8, .str], rfl, .cons _ _ _ _ (.u 8 77 (by decide)) (.cons _ _ _ _ (.str _ (by decide)) .nil)⟩,
   by decide, by decide⟩
theorem exM2_ok : MsgOk exTbl exM2 :=
  ⟨by decide, ⟨[.u 8, .str], rfl, .cons _ _ _ _ (.u 8 78 (by decide)) (.cons _ _ _ _ (.str _ (by decide)) .nil)⟩,
   by decide, by decide⟩

example : (encodeMsg true exM1).take 8 = [23, 0, 0, 0, 5, 0, 0, 0] := by rfl
example : parseBuffer true exTbl 2 (encodeAll true [exM1, exM2])
    = some [.fwd 23 5 (body exM1), .exec 21 2 17 [9, 9, 9] [.u 8 78, .str []]] :=
  parseBuffer_encode true exTbl 2 [exM1, exM2] (by intro m hm; simp at hm; rcases hm with rfl | rfl; exact exM1_ok; exact exM2_ok)
example : parseBuffer true exTbl 2 (encodeAll true [exM1, exM2])
    = some [.fwd 23 5 (body exM1), .exec 21 2 17 [9, 9, 9] [.u 8 78, .str []]] := by rfl
example : relay exTbl [2, 0, 3] (asyncAppend true [] exM1) = some (encodeMsg true exM1) := by rfl
example : parseBuffer false exTbl 0 (buildBuffer false [exM1, exM2] [])
    = some [.exec 0 0 17 [1, 2, 3] [.u 8 77, .str [104, 105]], .exec 0 0 17 [9, 9, 9] [.u 8 78, .str []]] := by rfl

end YgmVerif.Wire
