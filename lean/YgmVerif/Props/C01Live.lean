import YgmVerif.Lemmas.DeliverLive
import YgmVerif.Props.C01
/-!
# C01 (liveness half) — the movement logic never gets stuck, and always can finish

`Props/C01.lean` proves that a history WITHOUT further `async` calls is bounded (`C01_drain_bounded`): nothing
circulates for ever.  A bound alone would also hold of a model that deadlocks.  This file proves the other
half over the same executable `Deliver.step` the trace acceptor replays real runs through:

* `C01_never_stuck` — in every reachable state in which some issued message has not executed yet (or some rank
  is still inside `handle_next_receive`) a non-`async` step is enabled: a non-empty send buffer can be posted, the
  OLDEST physical message of every channel can be received by an idle rank (MPI non-overtaking does not block),
  a walked message is either executable here or forwardable, an exhausted walk can end.
* `C01_maximal_run_settled` — a history that cannot be extended by any non-`async` step has executed every issued
  message exactly once on its destination.
* `C01_drains_to_settled` — from every reachable state there IS an async-free continuation of at most
  `total` steps that ends settled; `C01_every_drain_settles` — and EVERY async-free continuation, extended
  maximally, ends there (no schedule choice can paint the system into a corner): at most `total` steps, then settled.

Hypotheses: `InRange` (the routing function stays inside the communicator — `Router.nextHop_lt` for NONE/NR/NLNR)
and `Progress` (`Router.route_progress`).  What this does NOT prove: that MPI and the polling loops of `comm.ipp`
schedule the enabled step (C03's environment assumption, explored under simmpi).
-/
namespace YgmVerif.Deliver

theorem reach_facts {n : Nat} {nh : Nat → Nat → Nat} (hr : InRange n nh) :
    ∀ (ls : List Label) (s0 s : St), Inv s0 → DestLt n s0 → LocOk n s0 → run n nh s0 ls = some s →
      Inv s ∧ DestLt n s ∧ LocOk n s := by
  intro ls
  induction ls with
  | nil => intro s0 s hi hd hl h; simp only [run] at h; cases h; exact ⟨hi, hd, hl⟩
  | cons l ls ih =>
    intro s0 s hi hd hl h
    simp only [run] at h
    cases hst : step n nh s0 l with
    | none => rw [hst] at h; cases h
    | some s1 =>
      rw [hst] at h
      exact ih s1 s (inv_step hi hst) (destLt_step hd hst) (locOk_step hr hd hl hst) h

theorem reach_init {n : Nat} {nh : Nat → Nat → Nat} (hr : InRange n nh) (ls : List Label) (s : St)
    (h : run n nh St.init ls = some s) : Inv s ∧ DestLt n s ∧ LocOk n s :=
  reach_facts hr ls St.init s inv_init (by intro e he; simp [St.init] at he) (locOk_init n) h

/-- **never stuck**: in every reachable state that is not settled some non-`async` step is enabled -/
theorem C01_never_stuck (n : Nat) (nh : Nat → Nat → Nat) (hr : InRange n nh)
    (ls0 : List Label) (s : St) (h0 : run n nh St.init ls0 = some s) (hns : ¬ settled n s) :
    ∃ l, isAsync l = false ∧ (step n nh s l).isSome = true := by
  obtain ⟨hi, _, hl⟩ := reach_init hr ls0 s h0
  exact not_stuck hi hl hns

/-- **a maximal history has delivered everything**: if no non-`async` step is enabled, every issued message has
executed exactly once on its destination and no rank is inside a receive -/
theorem C01_maximal_run_settled (n : Nat) (nh : Nat → Nat → Nat) (hr : InRange n nh)
    (ls0 : List Label) (s : St) (h0 : run n nh St.init ls0 = some s)
    (hmax : ∀ l, isAsync l = false → step n nh s l = none) :
    settled n s ∧ List.Perm s.executed (s.es.map (fun e => (e.dest, e.uid))) := by
  have hs : settled n s := by
    by_cases hs : settled n s
    · exact hs
    · obtain ⟨l, hl, hen⟩ := C01_never_stuck n nh hr ls0 s h0 hs
      rw [hmax l hl] at hen; cases hen
  exact ⟨hs, C01_exactly_once n nh ls0 s h0 hs.1⟩

theorem run_append {n : Nat} {nh : Nat → Nat → Nat} :
    ∀ (ls1 ls2 : List Label) (s s1 : St), run n nh s ls1 = some s1 →
      run n nh s (ls1 ++ ls2) = run n nh s1 ls2 := by
  intro ls1
  induction ls1 with
  | nil => intro ls2 s s1 h; simp only [run] at h; cases h; rfl
  | cons l ls ih =>
    intro ls2 s s1 h
    simp only [run, List.cons_append] at h ⊢
    cases hst : step n nh s l with
    | none => rw [hst] at h; cases h
    | some s' => rw [hst] at h; simp only; exact ih ls2 s' s1 h

/-- **it can always finish**: from every reachable state there is an async-free continuation of at most
`total` steps after which everything issued has executed -/
theorem C01_drains_to_settled (n : Nat) (nh hops : Nat → Nat → Nat) (hr : InRange n nh)
    (hp : Progress n nh hops) (ls0 : List Label) (s : St) (h0 : run n nh St.init ls0 = some s) :
    ∃ ls s', (∀ l ∈ ls, isAsync l = false) ∧ ls.length ≤ total n hops s ∧
      run n nh s ls = some s' ∧ settled n s' ∧
      List.Perm s'.executed (s'.es.map (fun e => (e.dest, e.uid))) := by
  have gen : ∀ (t : Nat) (ls0 : List Label) (s : St), run n nh St.init ls0 = some s → total n hops s ≤ t →
      ∃ ls s', (∀ l ∈ ls, isAsync l = false) ∧ ls.length ≤ total n hops s ∧
        run n nh s ls = some s' ∧ settled n s' := by
    intro t
    induction t with
    | zero =>
      intro ls0 s h0 ht
      by_cases hs : settled n s
      · exact ⟨[], s, by simp, by simp, rfl, hs⟩
      · obtain ⟨l, hl, hen⟩ := C01_never_stuck n nh hr ls0 s h0 hs
        obtain ⟨hi, hd, _⟩ := reach_init hr ls0 s h0
        cases hst : step n nh s l with
        | none => rw [hst] at hen; cases hen
        | some s1 => have := step_total hi hd hp hl hst; omega
    | succ t ih =>
      intro ls0 s h0 ht
      by_cases hs : settled n s
      · exact ⟨[], s, by simp, by simp, rfl, hs⟩
      · obtain ⟨l, hl, hen⟩ := C01_never_stuck n nh hr ls0 s h0 hs
        obtain ⟨hi, hd, _⟩ := reach_init hr ls0 s h0
        cases hst : step n nh s l with
        | none => rw [hst] at hen; cases hen
        | some s1 =>
          have hdec := step_total hi hd hp hl hst
          have h1 : run n nh St.init (ls0 ++ [l]) = some s1 := by
            rw [run_append ls0 [l] St.init s h0]; simp only [run, hst]
          obtain ⟨ls, s', hna, hlen, hrun, hset⟩ := ih (ls0 ++ [l]) s1 h1 (by omega)
          refine ⟨l :: ls, s', ?_, ?_, ?_, hset⟩
          · intro l' hl'
            rcases List.mem_cons.1 hl' with rfl | h'
            · exact hl
            · exact hna l' h'
          · simp only [List.length_cons]; omega
          · simp only [run, hst]; exact hrun
  obtain ⟨ls, s', hna, hlen, hrun, hset⟩ := gen (total n hops s) ls0 s h0 (Nat.le_refl _)
  have hreach : run n nh St.init (ls0 ++ ls) = some s' := by rw [run_append ls0 ls St.init s h0]; exact hrun
  exact ⟨ls, s', hna, hlen, hrun, hset, C01_exactly_once n nh (ls0 ++ ls) s' hreach hset.1⟩

/-- **no schedule can paint the system into a corner**: EVERY async-free continuation of a reachable state is at
most `total` steps long, and one that cannot be extended has delivered everything -/
theorem C01_every_drain_settles (n : Nat) (nh hops : Nat → Nat → Nat) (hr : InRange n nh)
    (hp : Progress n nh hops) (ls0 : List Label) (s : St) (h0 : run n nh St.init ls0 = some s)
    (ls : List Label) (hna : ∀ l ∈ ls, isAsync l = false) (s' : St) (h : run n nh s ls = some s') :
    ls.length ≤ total n hops s ∧
    ((∀ l, isAsync l = false → step n nh s' l = none) →
      settled n s' ∧ List.Perm s'.executed (s'.es.map (fun e => (e.dest, e.uid)))) := by
  refine ⟨?_, ?_⟩
  · have := C01_drain_bounded n nh hops hp ls0 s h0 ls hna s' h; omega
  · intro hmax
    have hreach : run n nh St.init (ls0 ++ ls) = some s' := by rw [run_append ls0 ls St.init s h0]; exact h
    exact C01_maximal_run_settled n nh hr (ls0 ++ ls) s' hreach hmax

/-! ### instances: the three routing schemes, block placement and every well-formed placement -/

theorem router_inRange (sch : Router.Scheme) (N p : Nat) : InRange (N * p) (Router.nextHop sch p) := by
  intro r d hr hd; exact Router.nextHop_lt sch hr hd

theorem routerP_inRange (P : RouterP.Placement) (hP : P.WF) (sch : Router.Scheme) :
    InRange P.size (P.nextHop sch) := by
  intro r d hr hd; exact RouterP.Placement.nextHop_lt hP sch hr hd

/-- **the real router never strands a message** (NONE / NR / NLNR, every `N × p` block layout): every async-free
continuation of a reachable state has at most `total` steps, and when it cannot be extended every issued message
has executed exactly once on its destination -/
theorem C01_every_drain_settles_router (sch : Router.Scheme) (N p : Nat) (hp : 0 < p)
    (ls0 : List Label) (s : St) (h0 : run (N * p) (Router.nextHop sch p) St.init ls0 = some s)
    (ls : List Label) (hna : ∀ l ∈ ls, isAsync l = false) (s' : St)
    (h : run (N * p) (Router.nextHop sch p) s ls = some s') :
    ls.length ≤ total (N * p) (fun x d => Router.hopsLeft sch p x d) s ∧
    ((∀ l, isAsync l = false → step (N * p) (Router.nextHop sch p) s' l = none) →
      settled (N * p) s' ∧ List.Perm s'.executed (s'.es.map (fun e => (e.dest, e.uid)))) :=
  C01_every_drain_settles (N * p) _ _ (router_inRange sch N p) (router_progress sch N p hp) ls0 s h0 ls hna s' h

theorem C01_drains_to_settled_router (sch : Router.Scheme) (N p : Nat) (hp : 0 < p)
    (ls0 : List Label) (s : St) (h0 : run (N * p) (Router.nextHop sch p) St.init ls0 = some s) :
    ∃ ls s', (∀ l ∈ ls, isAsync l = false) ∧ ls.length ≤ total (N * p) (fun x d => Router.hopsLeft sch p x d) s ∧
      run (N * p) (Router.nextHop sch p) s ls = some s' ∧ settled (N * p) s' ∧
      List.Perm s'.executed (s'.es.map (fun e => (e.dest, e.uid))) :=
  C01_drains_to_settled (N * p) _ _ (router_inRange sch N p) (router_progress sch N p hp) ls0 s h0

/-- the same under EVERY placement of ranks on nodes (block, round-robin, any bijection) -/
theorem C01_every_drain_settles_routerP (P : RouterP.Placement) (hP : P.WF) (sch : Router.Scheme)
    (ls0 : List Label) (s : St) (h0 : run P.size (P.nextHop sch) St.init ls0 = some s)
    (ls : List Label) (hna : ∀ l ∈ ls, isAsync l = false) (s' : St)
    (h : run P.size (P.nextHop sch) s ls = some s') :
    ls.length ≤ total P.size (fun x d => P.hopsLeft sch x d) s ∧
    ((∀ l, isAsync l = false → step P.size (P.nextHop sch) s' l = none) →
      settled P.size s' ∧ List.Perm s'.executed (s'.es.map (fun e => (e.dest, e.uid)))) :=
  C01_every_drain_settles P.size _ _ (routerP_inRange P hP sch) (routerP_progress P hP sch) ls0 s h0 ls hna s' h

theorem C01_drains_to_settled_routerP (P : RouterP.Placement) (hP : P.WF) (sch : Router.Scheme)
    (ls0 : List Label) (s : St) (h0 : run P.size (P.nextHop sch) St.init ls0 = some s) :
    ∃ ls s', (∀ l ∈ ls, isAsync l = false) ∧ ls.length ≤ total P.size (fun x d => P.hopsLeft sch x d) s ∧
      run P.size (P.nextHop sch) s ls = some s' ∧ settled P.size s' ∧
      List.Perm s'.executed (s'.es.map (fun e => (e.dest, e.uid))) :=
  C01_drains_to_settled P.size _ _ (routerP_inRange P hP sch) (routerP_progress P hP sch) ls0 s h0

/-- the hypothesis `InRange` is needed: a routing function that points outside the communicator strands the message
(the posted buffer can never be received) — this is what the real code turns into MPI_ERR_RANK -/
example : ((run 2 (fun _ _ => 5) St.init [.async 0 1 1 false, .isend 0 5]).map
    (fun s => (quiescent s, (step 2 (fun _ _ => 5) s (.recvBegin 5 0 0)).isSome))) = some (false, false) := by decide

/-- non-vacuity: the demo history of `Props/C01` stops in a settled state, and cut short it is not settled and can go on -/
private def nhDemo (me d : Nat) : Nat := if me / 2 = d / 2 then d else (d / 2) * 2 + me % 2

example : ((run 4 nhDemo St.init [.async 0 7 3 false, .isend 0 2, .recvBegin 2 0 0]).map
    (fun s => (quiescent s, (step 4 nhDemo s (.fwd 2 7)).isSome, (step 4 nhDemo s (.recvEnd 2)).isSome))) =
    some (false, true, false) := by decide

end YgmVerif.Deliver
