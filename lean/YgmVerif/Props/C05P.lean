import YgmVerif.Lemmas.BcastP
import YgmVerif.Props.C05
/-!
# C05 for EVERY placement of ranks on nodes — async_bcast reaches every rank exactly once

`Props/C05.lean` proves the property for the block placement (rank r on node r / p).  The code never uses that
arithmetic (since the repair of the cyclic-placement defect: not in the remote stage either): it looks every
destination up in the tables of `ygm::detail::layout`.  The theorems here are about `YgmVerif.BcastP`
(Model/BcastP.lean): the same three stages computed through an arbitrary set of lookup tables `P : Placement`, under
the one hypothesis `Valid N p P` — `r ↦ (node_id r, local_id r)` is a bijection between `[0, N*p)` and
`[0,N) × [0,p)` and `local_ranks()` / `strided_ranks()` are its inverse's rows / columns.  For every such placement,
every `N`, `p > 0` (`N > 0` follows from `o < N * p`) and every origin `o < N * p`:

* `bcastP_exec_perm` / `bcastP_each_once` / `bcastP_none_outside` / `bcastP_count_outside`: the executions are a
  permutation of `0 … N*p-1`;
* `bcastP_legs_counted`: legs = executions = `N * p`;
* `bcastP_offnode_same_local`: exactly the stage-2 legs are off-node, they join equal local ids, and the sender is the
  NLNR channel rank of its node for the receiver's node;
* `bcastP_legs_causal`: every forwarding rank forwards because it received the broadcast one stage earlier;
* instances: `valid_block`, `valid_cyclic` (all `N`, `p > 0`), `valid_ofIds` (tables found by search);
  `bcastP_block_legs`: the block instance IS `Bcast.bcastLegs` (nothing is lost);
  `localRanks_rank_order` / `stridedRanks_rank_order`: when local ids / node ids are assigned in rank order (what
  `MPI_Comm_split(…, key = rank)` does; true for block and cyclic) the tables are "the ranks of my node" / "the ranks
  with my local id" in rank order;
* the loop BEFORE the repair (`remotePartnersOld`: `curr_partner += local_size²`): `bcastP_old_block` — for the block
  placement it computes the same legs; `bcastP_old_cyclic_defect` — pinned witness: on 3 nodes x 2 ranks, round-robin
  placement, origin 0, it executes on ranks 1 and 4 twice and never on ranks 2 and 5.
-/
namespace YgmVerif.BcastP
open YgmVerif.Bcast (Leg)

variable {N p : Nat} {P : Placement}

/-- nothing outside the communicator executes (and no leg is addressed outside it) -/
theorem bcastP_none_outside (V : Valid N p P) (hp : 0 < p) {o : Nat} (ho : o < N * p) :
    ∀ r ∈ bcastExec N p P o, r < N * p :=
  fun r hr => (mem_bcastExec V hp ho r).1 hr

/-- every rank of the communicator executes the broadcast lambda exactly once -/
theorem bcastP_each_once (V : Valid N p P) (hp : 0 < p) {o : Nat} (ho : o < N * p) :
    ∀ r, r < N * p → (bcastExec N p P o).count r = 1 := by
  intro r hr
  rw [(bcastExec_nodup V hp ho).count, if_pos ((mem_bcastExec V hp ho r).2 hr)]

/-- … and a rank outside it never -/
theorem bcastP_count_outside (V : Valid N p P) (hp : 0 < p) {o : Nat} (ho : o < N * p) :
    ∀ r, N * p ≤ r → (bcastExec N p P o).count r = 0 := by
  intro r hr
  rw [(bcastExec_nodup V hp ho).count, if_neg]
  intro h; have := (mem_bcastExec V hp ho r).1 h; omega

/-- **main theorem, every placement**: the executing ranks are a permutation of `0 … N*p-1` -/
theorem bcastP_exec_perm (V : Valid N p P) (hp : 0 < p) {o : Nat} (ho : o < N * p) :
    (bcastExec N p P o).Perm (List.range (N * p)) := by
  rw [List.perm_ext_iff_of_nodup (bcastExec_nodup V hp ho) List.nodup_range]
  intro r; rw [mem_bcastExec V hp ho, List.mem_range]

/-- ledger: one `m_send_count++` per leg, one `m_recv_count++` per execution; a broadcast adds `N*p` to both global
counts, and exactly 1 to every rank's receive count -/
theorem bcastP_legs_counted (V : Valid N p P) (hp : 0 < p) {o : Nat} (ho : o < N * p) :
    (bcastLegs N p P o).length = N * p ∧ (bcastExec N p P o).length = N * p ∧
      ∀ r, r < N * p → (bcastExec N p P o).count r = 1 := by
  have hlen : (bcastExec N p P o).length = N * p := by
    rw [(bcastP_exec_perm V hp ho).length_eq, List.length_range]
  refine ⟨?_, hlen, bcastP_each_once V hp ho⟩
  rw [← hlen]; unfold bcastExec; rw [List.length_map]

/-- the legs, stage by stage -/
theorem mem_bcastLegs (N p : Nat) (P : Placement) (o : Nat) (g : Leg) :
    g ∈ bcastLegs N p P o ↔
      (∃ d ∈ localRanks P p o, g = (o, d, 1)) ∨
      (∃ r ∈ localRanks P p o, ∃ q ∈ remotePartners N p P r, g = (r, q, 2)) ∨
      (∃ q ∈ exec2 N p P o, ∃ t ∈ localOthers P p q, g = (q, t, 3)) := by
  unfold bcastLegs
  rw [List.mem_append, List.mem_append, or_assoc]
  refine or_congr ?_ (or_congr ?_ ?_)
  · unfold stage1; rw [List.mem_map]
    exact ⟨fun ⟨d, hd, e⟩ => ⟨d, hd, e.symm⟩, fun ⟨d, hd, e⟩ => ⟨d, hd, e.symm⟩⟩
  · unfold stage2 stage1
    simp only [List.mem_flatMap, List.mem_map, Leg.dst]
    constructor
    · rintro ⟨_, ⟨d, hd, rfl⟩, q, hq, rfl⟩; exact ⟨d, hd, q, hq, rfl⟩
    · rintro ⟨d, hd, q, hq, rfl⟩; exact ⟨_, ⟨d, hd, rfl⟩, q, hq, rfl⟩
  · rw [← stage2_dst]
    unfold stage3
    simp only [List.mem_flatMap, List.mem_map]
    constructor
    · rintro ⟨g2, hg2, t, ht, rfl⟩; exact ⟨_, ⟨g2, hg2, rfl⟩, t, ht, rfl⟩
    · rintro ⟨_, ⟨g2, hg2, rfl⟩, t, ht, rfl⟩; exact ⟨g2, hg2, t, ht, rfl⟩

/-- exactly the stage-2 legs are off-node; they join equal local ids, and the sender is the NLNR channel rank
(`(dest node + my node) % local_size`) of its node for the receiver's node -/
theorem bcastP_offnode_same_local (V : Valid N p P) (hp : 0 < p) {o : Nat} (ho : o < N * p) :
    ∀ g ∈ bcastLegs N p P o,
      (P.nodeId g.src ≠ P.nodeId g.dst ↔ g.stage = 2) ∧
      (g.stage = 2 → P.localId g.src = P.localId g.dst ∧
        P.localId g.src = (P.nodeId g.dst + P.nodeId g.src) % p) := by
  intro g hg
  rw [mem_bcastLegs] at hg
  rcases hg with ⟨d, hd, rfl⟩ | ⟨r, hr, q, hq, rfl⟩ | ⟨q, hq, t, ht, rfl⟩
  · rw [mem_localRanks V ho] at hd
    simp [Leg.src, Leg.dst, Leg.stage, hd.2]
  · rw [mem_localRanks V ho] at hr
    rw [mem_remotePartners V hp hr.1] at hq
    obtain ⟨_, h2, h3, h4⟩ := hq
    simp only [Leg.src, Leg.dst, Leg.stage]
    exact ⟨⟨fun _ => by trivial, fun _ e => h2 e.symm⟩, fun _ => ⟨h3.symm, h4.symm⟩⟩
  · rw [mem_exec2 V hp ho] at hq
    rw [mem_localOthers V hq.1] at ht
    simp [Leg.src, Leg.dst, Leg.stage, ht.2.1]

/-- every forwarding rank forwards because it received the broadcast one stage earlier -/
theorem bcastP_legs_causal (N p : Nat) (P : Placement) (o : Nat) :
    ∀ g ∈ bcastLegs N p P o,
      (g.stage = 1 ∧ g.src = o) ∨
      ∃ g' ∈ bcastLegs N p P o, g'.dst = g.src ∧ g'.stage + 1 = g.stage := by
  intro g hg
  rw [mem_bcastLegs] at hg
  rcases hg with ⟨d, _, rfl⟩ | ⟨r, hr, q, _, rfl⟩ | ⟨q, hq, t, _, rfl⟩
  · exact Or.inl ⟨rfl, rfl⟩
  · refine Or.inr ⟨(o, r, 1), ?_, rfl, rfl⟩
    rw [mem_bcastLegs]; exact Or.inl ⟨r, hr, rfl⟩
  · unfold exec2 at hq
    rw [List.mem_flatMap] at hq
    obtain ⟨r, hr, hq⟩ := hq
    refine Or.inr ⟨(r, q, 2), ?_, rfl, rfl⟩
    rw [mem_bcastLegs]; exact Or.inr (Or.inl ⟨r, hr, q, hq, rfl⟩)

/-! ### the tables in rank order -/

/-- when local ids are assigned in rank order on every node (`MPI_Comm_split_type(…, key = rank)`), `local_ranks()` is
the list of the ranks of my node in rank order -/
theorem localRanks_rank_order (V : Valid N p P)
    (hmono : ∀ r r', r < N * p → r' < N * p → P.nodeId r = P.nodeId r' → r < r' → P.localId r < P.localId r')
    {me : Nat} (hme : me < N * p) :
    localRanks P p me = (List.range (N * p)).filter (fun r => P.nodeId r == P.nodeId me) := by
  have ha := V.node_lt me hme
  have s1 : (localRanks P p me).Pairwise (· < ·) := by
    unfold localRanks
    rw [List.pairwise_map]
    refine List.Pairwise.imp_of_mem ?_ List.pairwise_lt_range
    intro j1 j2 h1 h2 hlt
    have h1' := List.mem_range.1 h1
    have h2' := List.mem_range.1 h2
    rcases Nat.lt_trichotomy (P.nl (P.nodeId me) j1) (P.nl (P.nodeId me) j2) with h | h | h
    · exact h
    · have := congrArg P.localId h
      rw [V.local_nl _ _ ha h1', V.local_nl _ _ ha h2'] at this
      omega
    · have := hmono _ _ (V.nl_lt _ _ ha h2') (V.nl_lt _ _ ha h1')
        (by rw [V.node_nl _ _ ha h2', V.node_nl _ _ ha h1']) h
      rw [V.local_nl _ _ ha h1', V.local_nl _ _ ha h2'] at this
      omega
  have s2 : ((List.range (N * p)).filter (fun r => P.nodeId r == P.nodeId me)).Pairwise (· < ·) :=
    List.pairwise_lt_range.sublist List.filter_sublist
  refine List.Perm.eq_of_pairwise (le := (· ≤ ·)) (fun a b _ _ h1 h2 => Nat.le_antisymm h1 h2)
    (s1.imp Nat.le_of_lt) (s2.imp Nat.le_of_lt) ?_
  rw [List.perm_ext_iff_of_nodup (s1.imp Nat.ne_of_lt) (s2.imp Nat.ne_of_lt)]
  intro t
  rw [mem_localRanks V hme, List.mem_filter, List.mem_range]
  simp

/-- when node ids are assigned in rank order among the ranks of a local id (`MPI_Comm_split(comm, local_id, rank)`),
`strided_ranks()` is the list of the ranks with my local id in rank order -/
theorem stridedRanks_rank_order (V : Valid N p P)
    (hmono : ∀ r r', r < N * p → r' < N * p → P.localId r = P.localId r' → r < r' → P.nodeId r < P.nodeId r')
    {me : Nat} (hme : me < N * p) :
    stridedRanks P N me = (List.range (N * p)).filter (fun r => P.localId r == P.localId me) := by
  have hj := V.local_lt me hme
  have s1 : (stridedRanks P N me).Pairwise (· < ·) := by
    unfold stridedRanks strided
    rw [List.pairwise_map]
    refine List.Pairwise.imp_of_mem ?_ List.pairwise_lt_range
    intro a1 a2 h1 h2 hlt
    have h1' := List.mem_range.1 h1
    have h2' := List.mem_range.1 h2
    rcases Nat.lt_trichotomy (P.nl a1 (P.localId me)) (P.nl a2 (P.localId me)) with h | h | h
    · exact h
    · have := congrArg P.nodeId h
      rw [V.node_nl _ _ h1' hj, V.node_nl _ _ h2' hj] at this
      omega
    · have := hmono _ _ (V.nl_lt _ _ h2' hj) (V.nl_lt _ _ h1' hj)
        (by rw [V.local_nl _ _ h2' hj, V.local_nl _ _ h1' hj]) h
      rw [V.node_nl _ _ h1' hj, V.node_nl _ _ h2' hj] at this
      omega
  have s2 : ((List.range (N * p)).filter (fun r => P.localId r == P.localId me)).Pairwise (· < ·) :=
    List.pairwise_lt_range.sublist List.filter_sublist
  refine List.Perm.eq_of_pairwise (le := (· ≤ ·)) (fun a b _ _ h1 h2 => Nat.le_antisymm h1 h2)
    (s1.imp Nat.le_of_lt) (s2.imp Nat.le_of_lt) ?_
  rw [List.perm_ext_iff_of_nodup (s1.imp Nat.ne_of_lt) (s2.imp Nat.ne_of_lt)]
  intro t
  unfold stridedRanks strided
  rw [List.mem_map, List.mem_filter, List.mem_range]
  constructor
  · rintro ⟨a, ha, rfl⟩
    have ha' := List.mem_range.1 ha
    exact ⟨V.nl_lt _ _ ha' hj, by simp [V.local_nl _ _ ha' hj]⟩
  · rintro ⟨ht, hl⟩
    have hl' : P.localId t = P.localId me := by simpa using hl
    exact ⟨P.nodeId t, List.mem_range.2 (V.node_lt t ht), by rw [← hl']; exact V.nl_ids t ht⟩

theorem block_rank_order (p : Nat) :
    (∀ r r', Router.node p r = Router.node p r' → r < r' → Router.loc p r < Router.loc p r') ∧
    (∀ r r', Router.loc p r = Router.loc p r' → r < r' → Router.node p r < Router.node p r') := by
  unfold Router.node Router.loc
  constructor
  · intro r r' h hlt
    have h1 := Nat.div_add_mod r p
    have h2 := Nat.div_add_mod r' p
    rw [h] at h1; omega
  · intro r r' h hlt
    have h1 := Nat.div_add_mod r p
    have h2 := Nat.div_add_mod r' p
    rcases Nat.lt_or_ge (r / p) (r' / p) with hq | hq
    · exact hq
    · have := Nat.mul_le_mul_left p hq
      omega

theorem cyclic_rank_order (N : Nat) :
    (∀ r r', r % N = r' % N → r < r' → r / N < r' / N) ∧
    (∀ r r', r / N = r' / N → r < r' → r % N < r' % N) := by
  constructor
  · intro r r' h hlt
    have h1 := Nat.div_add_mod r N
    have h2 := Nat.div_add_mod r' N
    rcases Nat.lt_or_ge (r / N) (r' / N) with hq | hq
    · exact hq
    · have := Nat.mul_le_mul_left N hq
      omega
  · intro r r' h hlt
    have h1 := Nat.div_add_mod r N
    have h2 := Nat.div_add_mod r' N
    rw [h] at h1; omega

/-! ### the instances -/

/-- the block instance of the generic model IS the model of `Props/C05.lean` (definitionally) -/
theorem bcastP_block_legs (N p o : Nat) :
    bcastLegs N p (block p) o = Bcast.bcastLegs N p o ∧ bcastExec N p (block p) o = Bcast.bcastExec N p o :=
  ⟨rfl, rfl⟩

/-- … so the block theorem is an instance of the generic one -/
theorem bcastP_block_exec_perm {N p o : Nat} (ho : o < N * p) :
    (Bcast.bcastExec N p o).Perm (List.range (N * p)) :=
  bcastP_exec_perm (valid_block N (Router.pos_of_lt_mul ho)) (Router.pos_of_lt_mul ho) ho

/-- round-robin placement (rank r on node r % N), every `N`, `p`, origin -/
theorem bcastP_cyclic_exec_perm {N p o : Nat} (ho : o < N * p) :
    (bcastExec N p (cyclic N) o).Perm (List.range (N * p)) := by
  have hN : 0 < N := by
    rcases Nat.eq_zero_or_pos N with h | h
    · rw [h, Nat.zero_mul] at ho; omega
    · exact h
  have hp : 0 < p := by
    rcases Nat.eq_zero_or_pos p with h | h
    · rw [h, Nat.mul_zero] at ho; omega
    · exact h
  exact bcastP_exec_perm (valid_cyclic hN p) hp ho

/-! ### the loop before the repair -/

/-- for the block placement the loop before the repair computes the same legs (all `N`, `p > 0`, origins) -/
theorem bcastP_old_block {p : Nat} (hp : 0 < p) (N o : Nat) :
    bcastLegsOld N p (block p) o = Bcast.bcastLegs N p o := by
  have e : ∀ r, remotePartnersOld N p (block p) r = Bcast.remotePartners N p r :=
    fun r => (Bcast.remotePartners_eq_old hp N r).symm
  have e2 : stage2Old N p (block p) o = Bcast.stage2 N p o := by
    unfold stage2Old Bcast.stage2
    show (Bcast.stage1 p o).flatMap _ = _
    congr 1; funext g; rw [e]
  unfold bcastLegsOld stage3Old
  rw [e2]; rfl

/-- **the defect, pinned**: 3 nodes x 2 ranks, round-robin placement (ranks 0,3 / 1,4 / 2,5), origin 0.  The loop
before the repair sends rank 0's remote leg to rank 0 + 2·2 = 4 — rank 3's partner — instead of rank 2: ranks 4 and 1
execute twice, ranks 2 and 5 never.  The repaired loop reaches every rank once. -/
theorem bcastP_old_cyclic_defect :
    bcastLegsOld 3 2 (cyclic 3) 0 = [(0, 0, 1), (0, 3, 1), (0, 4, 2), (3, 4, 2), (4, 1, 3), (4, 1, 3)] ∧
    bcastExecOld 3 2 (cyclic 3) 0 = [0, 3, 4, 4, 1, 1] ∧
    (List.range 6).map (fun r => (bcastExecOld 3 2 (cyclic 3) 0).count r) = [1, 2, 0, 1, 2, 0] ∧
    bcastLegs 3 2 (cyclic 3) 0 = [(0, 0, 1), (0, 3, 1), (0, 2, 2), (3, 4, 2), (2, 5, 3), (4, 1, 3)] ∧
    (List.range 6).map (fun r => (bcastExec 3 2 (cyclic 3) 0).count r) = [1, 1, 1, 1, 1, 1] := by decide

/-- … hence the old loop does not satisfy the property on that placement -/
theorem bcastP_old_not_exactly_once :
    ¬ (bcastExecOld 3 2 (cyclic 3) 0).Perm (List.range (3 * 2)) := by
  intro h
  have := h.count_eq 2
  revert this; decide

/-! ### non-vacuity -/

example : bcastExec 5 2 (cyclic 5) 3 = [3, 8, 1, 5, 7, 9, 6, 0, 2, 4] ∧
    (bcastLegs 5 2 (cyclic 5) 3).map Leg.stage = [1, 1, 2, 2, 2, 2, 3, 3, 3, 3] := by decide
example : localRanks (cyclic 3) 2 4 = [1, 4] ∧ stridedRanks (cyclic 3) 3 4 = [3, 4, 5] := by decide
example : bcastLegs 2 3 (Placement.ofIds 6 (· % 2) (· / 2)) 4 = bcastLegs 2 3 (cyclic 2) 4 := by decide

end YgmVerif.BcastP
