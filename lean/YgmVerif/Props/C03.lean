import YgmVerif.Model.Flush
/-!
# C03 (partial) — every library call returns: what is proved

`flushAll_post`: whenever `flush_all_local_and_process_incoming` returns — after any number of polls,
callbacks and flushes, whatever the polls received — no callback is pending, nothing is unsent and no send
is posted, so the three release assertions of `barrier` / `barrier_reduce_counts` / `~comm`
(`m_pre_barrier_callbacks.empty()`, `m_send_buffer_bytes == 0`, `m_pending_isend_bytes == 0`) cannot
fire.  `pinned_flushAll_counterexample`: with the pinned return value of process_receive_queue the same
loop can return with unsent bytes (defect D1, repaired in /repo).

Not proved (explored by simmpi, see DESIGN.md): termination under fair MPI progress.
-/
namespace YgmVerif.Flush

def Inv (s : St) : Prop :=
  (s.pc = .C → s.did = false → s.cbs = 0) ∧
  (s.pc = .D → s.did = false → s.cbs = 0 ∧ s.ub = 0) ∧
  (s.pc = .Done → s.cbs = 0 ∧ s.ub = 0 ∧ s.sq = 0)

theorem inv_start (c u q : Nat) : Inv (start c u q) := by
  simp [Inv, start]

theorem inv_step {s s' : St} {l : Label} (hi : Inv s) (h : step s l = some s') : Inv s' := by
  obtain ⟨i1, i2, i3⟩ := hi
  cases l with
  | pollA p =>
    simp only [step, stepWith] at h; split at h
    · cases h; simp [Inv, apply]
    · cases h
  | cb c u q =>
    simp only [step, stepWith] at h; split at h
    · rename_i hc; cases h; simp [Inv, hc.1]
    · cases h
  | endB =>
    simp only [step, stepWith] at h; split at h
    · rename_i hc; cases h; simp [Inv, hc.2]
    · cases h
  | flushC b =>
    simp only [step, stepWith] at h; split at h
    · rename_i hc; cases h; simp [Inv, hc.1]
    · cases h
  | pollC p =>
    simp only [step, stepWith] at h; split at h
    · rename_i hc; cases h; simp [Inv, apply, hc.1, hc.2.1]
    · cases h
  | endC =>
    simp only [step, stepWith] at h; split at h
    · rename_i hc; cases h
      refine ⟨by simp, ?_, by simp⟩
      intro _ hd; exact ⟨i1 hc.1 hd, hc.2⟩
    · cases h
  | pollD p =>
    simp only [step, stepWith] at h; split at h
    · rename_i hc
      cases h
      refine ⟨by simp [apply, hc.1], ?_, by simp [apply, hc.1]⟩
      intro _ hd
      simp only [apply, Bool.or_eq_false_iff] at hd
      have hret : p.ret = false := hd.2
      have hrec : p.recvd = false := by
        have := hc.2.2.2; simp only [beq_iff_eq] at this; rw [← this]; exact hret
      have hwf := hc.2.2.1
      simp only [WF, hrec, Bool.false_or, Bool.and_eq_true, beq_iff_eq, decide_eq_true_eq] at hwf
      have := i2 hc.1 hd.1
      simp only [apply]
      exact ⟨by omega, by omega⟩
    · cases h
  | endD =>
    simp only [step, stepWith] at h; split at h
    · rename_i hc; cases h
      by_cases hd : s.did = true
      · simp [Inv, hd]
      · have hd' : s.did = false := by simpa using hd
        have := i2 hc.1 hd'
        simp [Inv, hd', this.1, this.2, hc.2]
    · cases h

theorem inv_run {s s' : St} (ls : List Label) (hi : Inv s) (h : run s ls = some s') : Inv s' := by
  induction ls generalizing s with
  | nil => simp only [run, runWith] at h; cases h; exact hi
  | cons l ls ih =>
    simp only [run, runWith] at h
    cases hst : step s l with
    | none => rw [hst] at h; cases h
    | some s1 => rw [hst] at h; exact ih (inv_step hi hst) h

/-- **post-condition of the flush loop** for every start state and every accepted history of polls,
callbacks and flushes: if the loop has returned, the three release assertions hold -/
theorem C03_flushAll_post (c u q : Nat) (ls : List Label) (s : St)
    (h : run (start c u q) ls = some s) (hd : s.pc = .Done) : s.cbs = 0 ∧ s.ub = 0 ∧ s.sq = 0 :=
  (inv_run ls (inv_start c u q) h).2.2 hd

/-- the loop cannot return while the last thing it saw was a receive: after a poll that received
something it always goes round again -/
theorem C03_no_return_after_receive (s s' : St) (p : Poll) (h : step s (.pollD p) = some s') (hr : p.recvd = true) :
    s'.did = true := by
  simp only [step, stepWith] at h; split at h
  · rename_i hc; cases h
    have := hc.2.2.2; simp only [beq_iff_eq] at this
    simp [apply, this, hr]
  · cases h

/-- **the pinned code violates it** (defect D1): one posted send; the poll that completes it also receives a
buffer whose handler buffers 100 bytes, but reports `false`; the loop returns with 100 unsent bytes, and
`barrier_reduce_counts` then fails `ASSERT_RELEASE(m_send_buffer_bytes == 0)` -/
theorem pinned_flushAll_counterexample :
    ∃ ls s, runWith stepPinned (start 0 0 1) ls = some s ∧ s.pc = .Done ∧ s.ub = 100 :=
  ⟨[.pollA ⟨false, false, 0, 0, 1⟩, .endB, .endC, .pollD ⟨true, false, 0, 100, 0⟩, .endD],
   ⟨.Done, false, 0, 100, 0⟩, by decide, by decide, by decide⟩

/-- … and that very history is rejected by the repaired rule -/
example : (run (start 0 0 1) [.pollA ⟨false, false, 0, 0, 1⟩, .endB, .endC, .pollD ⟨true, false, 0, 100, 0⟩, .endD]).isNone = true := by
  decide

/-! non-vacuity: a history in which work keeps arriving for a while and the loop finally returns -/
example : ((run (start 1 50 0) [.pollA ⟨false, false, 1, 50, 0⟩, .cb 0 80 0, .endB, .flushC 80, .pollC ⟨true, true, 1, 30, 1⟩,
    .flushC 30, .pollC ⟨false, false, 1, 0, 2⟩, .endC, .pollD ⟨false, false, 1, 0, 0⟩, .endD,
    .pollA ⟨false, false, 1, 0, 0⟩, .cb 0 0 0, .endB, .endC, .endD,
    .pollA ⟨false, false, 0, 0, 0⟩, .endB, .endC, .endD]).map (·.pc)) = some .Done := by decide

end YgmVerif.Flush
