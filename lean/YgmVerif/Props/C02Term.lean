import YgmVerif.Props.C02Live
/-!
# C02 / C03 — after global quiescence the barrier ends within two further reduction rounds, on every rank

Over the executable `BarrierME.step`.  Start: any reachable state `s0` that is quiescent inside barrier `e` (nothing
undelivered, every rank inside barrier e, no handler running, no callback pending — by `C02ME_dead_no_work` only the
barrier loops can move from here).  Let `K` bound the reduction rounds posted so far.  For every continuation that consists
of barrier-loop labels (`contribute / result / exit`, in any interleaving over the ranks):

* `C02ME_rounds_after_quiescence` — no rank ever posts a reduction round beyond `K + 2`: rounds `K` and `K+1` are summed from
  contributions made after quiescence, hence carry the true, equal totals twice, and the exit rule holds;
* `C02ME_exit_bounded` — the continuation has at most `mu s0 ≤ n·(2K + 6)` steps (explicit variant);
* `C02ME_drain_not_stuck` — while some rank is still inside the barrier a loop step is enabled, also when other ranks have
  already left (a rank that left never has fewer rounds than one that stays: `j2` + `bDef` — the ranks agree on the last round);
* **`C02ME_all_exit`** — a continuation that cannot be extended has every rank outside the barrier, in epoch `e + 1`.

Together with `C01_every_drain_settles` (the messages drain) this is the model-level content of "barrier() returns": what
remains an environment hypothesis for C03 is that MPI completes matched operations and that the loops poll.
-/
namespace YgmVerif.BarrierME
open YgmVerif.Barrier (sumTo upd b2n upd_same upd_other sumTo_congr sumTo_change sumTo_le sumTo_const_zero b2n_false b2n_true)

/-- what holds along a loop-only continuation of the quiescent state `s0` -/
structure Drain (n K e : Nat) (s0 s : Sys) : Prop where
  sentEq : s.sent = s0.sent
  recvdEq : s.recvd = s0.recvd
  und0 : s.und = 0
  idle : ∀ q, q < n → s.busy q = false ∧ s.cbs q = 0
  phase : ∀ q, q < n → (s.inBar q = true ∧ s.epoch q = e) ∨ (s.inBar q = false ∧ s.epoch q = e + 1)
  baseK : ∀ q, q < n → s.inBar q = true → s.base q ≤ K
  fresh : ∀ q, q < n → ∀ k, K ≤ k → k < s.rounds q → s.snapS k q = s.sent q ∧ s.snapR k q = s.recvd q
  bal : sumTo n s.sent = sumTo n s.recvd
  rle : ∀ q, q < n → s.rounds q ≤ K + 2

theorem drain_init {n K e : Nat} {s0 : Sys} (hi : Inv n s0)
    (hd : s0.und = 0 ∧ ∀ q, q < n → s0.epoch q = e ∧ s0.inBar q = true ∧ s0.busy q = false ∧ s0.cbs q = 0)
    (hK : ∀ q, q < n → s0.rounds q ≤ K) : Drain n K e s0 s0 := by
  refine ⟨rfl, rfl, hd.1, fun q hq => ⟨(hd.2 q hq).2.2.1, (hd.2 q hq).2.2.2⟩,
    fun q hq => Or.inl ⟨(hd.2 q hq).2.1, (hd.2 q hq).1⟩, ?_, ?_, ?_, fun q hq => by have := hK q hq; omega⟩
  · intro q hq hin
    have h1 := hi.bBase q hq hin
    have h2 := (hi.rg q hq).1
    have := hK q hq; omega
  · intro q hq k hk hlt
    have := hK q hq; omega
  · have hl := hi.ledger
    have hz : sumTo n (fun r => b2n (s0.busy r)) = 0 := by
      rw [sumTo_congr n _ (fun _ => 0) (fun i hin => by rw [(hd.2 i hin).2.2.1]; rfl)]
      exact sumTo_const_zero n
    rw [hd.1, hz] at hl; omega

/-- a complete round at or after index K carries the true totals -/
theorem acc_fresh {n K e : Nat} {s0 s : Sys} (hi : Inv n s) (D : Drain n K e s0 s) (k : Nat) (hk : K ≤ k)
    (hc : s.cnt k = n) : s.accS k = sumTo n s.sent ∧ s.accR k = sumTo n s.recvd := by
  have hall := all_rounds_gt hi k hc
  constructor
  · rw [hi.accSI k]
    apply sumTo_congr
    intro i hin
    simp only [hall i hin, if_true]
    exact (D.fresh i hin k hk (hall i hin)).1
  · rw [hi.accRI k]
    apply sumTo_congr
    intro i hin
    simp only [hall i hin, if_true]
    exact (D.fresh i hin k hk (hall i hin)).2

/-- a rank that has consumed rounds K and K+1 satisfies the exit rule -/
theorem rule_at_top {n K e : Nat} {s0 s : Sys} (hi : Inv n s) (D : Drain n K e s0 s) {r : Nat} (hr : r < n)
    (hin : s.inBar r = true) (hg : s.got r = K + 2) :
    (s.cur r).1 = (s.cur r).2 ∧ s.prev r = s.cur r := by
  have hb := D.baseK r hr hin
  have hres := hi.res r hr hin
  have hcur := hres.2.2.1 (K + 1) (by omega) (by omega)
  have hprev := hres.2.2.2 K hb (by omega)
  have c0 := hi.gotC r hr K (by omega)
  have c1 := hi.gotC r hr (K + 1) (by omega)
  have a0 := acc_fresh hi D K (Nat.le_refl _) c0
  have a1 := acc_fresh hi D (K + 1) (by omega) c1
  rw [hcur, hprev, a0.1, a0.2, a1.1, a1.2, D.bal]
  exact ⟨rfl, rfl⟩

theorem drain_step {n K e : Nat} {s0 s s' : Sys} {l : Label} (hi : Inv n s) (D : Drain n K e s0 s)
    (hl : isLoop l = true) (h : step n s l = some s') : Drain n K e s0 s' := by
  cases l with
  | issue r => simp [isLoop] at hl
  | start r => simp [isLoop] at hl
  | finish r => simp [isLoop] at hl
  | regcb r => simp [isLoop] at hl
  | runcb r k j => simp [isLoop] at hl
  | enter r => simp [isLoop] at hl
  | contribute r =>
    simp only [step] at h; split at h
    · rename_i hc
      cases h
      obtain ⟨hr, hin, _, _, hg, hx⟩ := hc
      have hlt : s.rounds r ≤ K + 1 := by
        by_cases hle : s.rounds r ≤ K + 1
        · exact hle
        · exfalso
          have := D.rle r hr
          exact hx (rule_at_top hi D hr hin (by omega))
      refine ⟨D.sentEq, D.recvdEq, D.und0, D.idle, D.phase, D.baseK, ?_, D.bal, ?_⟩
      · intro q hq k hk hlt'
        change k < upd s.rounds r (s.rounds r + 1) q at hlt'
        show upd s.snapS (s.rounds r) (upd (s.snapS (s.rounds r)) r (s.sent r)) k q = s.sent q ∧
             upd s.snapR (s.rounds r) (upd (s.snapR (s.rounds r)) r (s.recvd r)) k q = s.recvd q
        by_cases hqr : q = r
        · subst hqr
          rw [upd_same] at hlt'
          by_cases hk2 : k = s.rounds q
          · subst hk2; simp only [upd_same]; exact ⟨trivial, trivial⟩
          · rw [upd_other _ _ _ _ hk2, upd_other _ _ _ _ hk2]
            exact D.fresh q hq k hk (by omega)
        · rw [upd_other _ _ _ _ hqr] at hlt'
          by_cases hk2 : k = s.rounds r
          · subst hk2
            simp only [upd_same]
            rw [upd_other _ _ _ _ hqr, upd_other _ _ _ _ hqr]
            exact D.fresh q hq _ hk hlt'
          · rw [upd_other _ _ _ _ hk2, upd_other _ _ _ _ hk2]
            exact D.fresh q hq k hk hlt'
      · intro q hq
        show upd s.rounds r (s.rounds r + 1) q ≤ K + 2
        by_cases hqr : q = r
        · subst hqr; rw [upd_same]; omega
        · rw [upd_other _ _ _ _ hqr]; exact D.rle q hq
    · cases h
  | result r =>
    simp only [step] at h; split at h
    · cases h
      exact ⟨D.sentEq, D.recvdEq, D.und0, D.idle, D.phase, D.baseK, D.fresh, D.bal, D.rle⟩
    · cases h
  | exit r =>
    simp only [step] at h; split at h
    · rename_i hc
      cases h
      refine ⟨D.sentEq, D.recvdEq, D.und0, D.idle, ?_, ?_, D.fresh, D.bal, D.rle⟩
      · intro q hq
        show (upd s.inBar r false q = true ∧ upd s.epoch r (s.epoch r + 1) q = e) ∨
             (upd s.inBar r false q = false ∧ upd s.epoch r (s.epoch r + 1) q = e + 1)
        by_cases hqr : q = r
        · subst hqr
          right
          simp only [upd_same, true_and]
          rcases D.phase q hq with h1 | h1
          · rw [h1.2]
          · rw [h1.1] at hc; exact absurd hc.2.1 (by simp)
        · rw [upd_other _ _ _ _ hqr, upd_other _ _ _ _ hqr]; exact D.phase q hq
      · intro q hq hin
        change upd s.inBar r false q = true at hin
        by_cases hqr : q = r
        · subst hqr; rw [upd_same] at hin; cases hin
        · rw [upd_other _ _ _ _ hqr] at hin; exact D.baseK q hq hin
    · cases h

/-- the variant: rounds still allowed + results not yet consumed + still inside -/
def mu (n K : Nat) (s : Sys) : Nat :=
  sumTo n (fun q => 2 * (K + 2 - s.rounds q) + (s.rounds q - s.got q) + b2n (s.inBar q))

theorem mu_step {n K e : Nat} {s0 s s' : Sys} {l : Label} (hi : Inv n s) (D : Drain n K e s0 s)
    (hl : isLoop l = true) (h : step n s l = some s') : mu n K s' + 1 ≤ mu n K s := by
  have D' := drain_step hi D hl h
  cases l with
  | issue r => simp [isLoop] at hl
  | start r => simp [isLoop] at hl
  | finish r => simp [isLoop] at hl
  | regcb r => simp [isLoop] at hl
  | runcb r k j => simp [isLoop] at hl
  | enter r => simp [isLoop] at hl
  | contribute r =>
    simp only [step] at h; split at h
    · rename_i hc
      cases h
      obtain ⟨hr, _, _, _, hg, _⟩ := hc
      have hle := D'.rle r hr
      change upd s.rounds r (s.rounds r + 1) r ≤ K + 2 at hle
      rw [upd_same] at hle
      have := sumTo_change n (fun q => 2 * (K + 2 - s.rounds q) + (s.rounds q - s.got q) + b2n (s.inBar q))
        (fun q => 2 * (K + 2 - upd s.rounds r (s.rounds r + 1) q) + (upd s.rounds r (s.rounds r + 1) q - s.got q)
          + b2n (s.inBar q)) r hr (fun i _ hne => by simp only [upd_other _ _ _ _ hne])
      simp only [upd_same] at this
      simp only [mu]
      omega
    · cases h
  | result r =>
    simp only [step] at h; split at h
    · rename_i hc
      cases h
      obtain ⟨hr, _, hg, _⟩ := hc
      have := sumTo_change n (fun q => 2 * (K + 2 - s.rounds q) + (s.rounds q - s.got q) + b2n (s.inBar q))
        (fun q => 2 * (K + 2 - s.rounds q) + (s.rounds q - upd s.got r (s.got r + 1) q) + b2n (s.inBar q))
        r hr (fun i _ hne => by simp only [upd_other _ _ _ _ hne])
      simp only [upd_same] at this
      simp only [mu]
      omega
    · cases h
  | exit r =>
    simp only [step] at h; split at h
    · rename_i hc
      cases h
      obtain ⟨hr, hin, _, _, _⟩ := hc
      have := sumTo_change n (fun q => 2 * (K + 2 - s.rounds q) + (s.rounds q - s.got q) + b2n (s.inBar q))
        (fun q => 2 * (K + 2 - s.rounds q) + (s.rounds q - s.got q) + b2n (upd s.inBar r false q))
        r hr (fun i _ hne => by simp only [upd_other _ _ _ _ hne])
      simp only [upd_same, hin, b2n_true, b2n_false] at this
      simp only [mu]
      omega
    · cases h

theorem run_append {n : Nat} :
    ∀ (ls1 ls2 : List Label) (s s1 : Sys), run n s ls1 = some s1 → run n s (ls1 ++ ls2) = run n s1 ls2 := by
  intro ls1
  induction ls1 with
  | nil => intro ls2 s s1 h; simp only [run] at h; cases h; rfl
  | cons l ls ih =>
    intro ls2 s s1 h
    simp only [run, List.cons_append] at h ⊢
    cases hst : step n s l with
    | none => rw [hst] at h; cases h
    | some s' => rw [hst] at h; simp only; exact ih ls2 s' s1 h

/-- along every loop-only continuation of a quiescent state: `Drain` holds and the variant pays for every step -/
theorem drain_run {n K e : Nat} {s0 : Sys} (ls0 : List Label) (h0 : run n init ls0 = some s0) :
    ∀ (ls : List Label) (s s' : Sys), run n s0 [] = some s0 → ∀ (pre : List Label), run n s0 pre = some s →
      Drain n K e s0 s → (∀ l ∈ ls, isLoop l = true) → run n s ls = some s' →
      Drain n K e s0 s' ∧ ls.length + mu n K s' ≤ mu n K s := by
  intro ls
  induction ls with
  | nil => intro s s' _ pre _ D _ h; simp only [run] at h; cases h; exact ⟨D, by simp⟩
  | cons l ls ih =>
    intro s s' h00 pre hpre D hall h
    simp only [run] at h
    cases hst : step n s l with
    | none => rw [hst] at h; cases h
    | some s1 =>
      rw [hst] at h
      have hreach : run n init (ls0 ++ pre) = some s := by rw [run_append ls0 pre init s0 h0]; exact hpre
      have hi := run_inv (ls0 ++ pre) hreach
      have hl := hall l List.mem_cons_self
      have D1 := drain_step hi D hl hst
      have m1 := mu_step hi D hl hst
      have hpre1 : run n s0 (pre ++ [l]) = some s1 := by
        rw [run_append pre [l] s0 s hpre]; simp only [run, hst]
      obtain ⟨D', hm⟩ := ih s1 s' h00 (pre ++ [l]) hpre1 D1 (fun l' hl' => hall l' (List.mem_cons_of_mem _ hl')) h
      refine ⟨D', ?_⟩
      simp only [List.length_cons]; omega

theorem sumTo_const (m c : Nat) : sumTo m (fun _ => c) = m * c := by
  induction m with
  | zero => simp [sumTo]
  | succ k ih => show sumTo k (fun _ => c) + c = (k + 1) * c; rw [ih, Nat.succ_mul]

/-- **no rank posts a reduction round beyond K + 2 after quiescence** -/
theorem C02ME_rounds_after_quiescence (n K e : Nat) (ls0 : List Label) (s0 : Sys) (h0 : run n init ls0 = some s0)
    (hd : s0.und = 0 ∧ ∀ q, q < n → s0.epoch q = e ∧ s0.inBar q = true ∧ s0.busy q = false ∧ s0.cbs q = 0)
    (hK : ∀ q, q < n → s0.rounds q ≤ K)
    (ls : List Label) (hall : ∀ l ∈ ls, isLoop l = true) (s' : Sys) (h : run n s0 ls = some s') :
    ∀ q, q < n → s'.rounds q ≤ K + 2 := by
  have D0 := drain_init (run_inv ls0 h0) hd hK
  exact (drain_run ls0 h0 ls s0 s' rfl [] rfl D0 hall h).1.rle

/-- **the barrier loops stop**: a loop-only continuation of a quiescent state has at most `mu s0` steps -/
theorem C02ME_exit_bounded (n K e : Nat) (ls0 : List Label) (s0 : Sys) (h0 : run n init ls0 = some s0)
    (hd : s0.und = 0 ∧ ∀ q, q < n → s0.epoch q = e ∧ s0.inBar q = true ∧ s0.busy q = false ∧ s0.cbs q = 0)
    (hK : ∀ q, q < n → s0.rounds q ≤ K)
    (ls : List Label) (hall : ∀ l ∈ ls, isLoop l = true) (s' : Sys) (h : run n s0 ls = some s') :
    ls.length ≤ mu n K s0 ∧ mu n K s0 ≤ n * (2 * K + 6) := by
  have D0 := drain_init (run_inv ls0 h0) hd hK
  have := (drain_run ls0 h0 ls s0 s' rfl [] rfl D0 hall h).2
  refine ⟨by omega, ?_⟩
  have hle := sumTo_le n (fun q => 2 * (K + 2 - s0.rounds q) + (s0.rounds q - s0.got q) + b2n (s0.inBar q))
    (fun _ => 2 * K + 6) (fun i hin => by
      have h1 := (run_inv ls0 h0).rg i hin
      have h2 : b2n (s0.inBar i) ≤ 1 := by cases s0.inBar i <;> simp [b2n]
      omega)
  rw [sumTo_const n (2 * K + 6)] at hle
  exact hle

/-- **no deadlock while the ranks leave**: every rank is idle and either inside barrier e or already out of it
(epoch e+1); if somebody is still inside, a barrier-loop step is enabled -/
theorem C02ME_drain_not_stuck (n e : Nat) (s : Sys) (ls : List Label) (hrun : run n init ls = some s)
    (hidle : ∀ q, q < n → s.busy q = false ∧ s.cbs q = 0)
    (hphase : ∀ q, q < n → (s.inBar q = true ∧ s.epoch q = e) ∨ (s.inBar q = false ∧ s.epoch q = e + 1))
    (r : Nat) (hr : r < n) (hin : s.inBar r = true) :
    ∃ l, isLoop l = true ∧ (step n s l).isSome = true := by
  have hi := run_inv ls hrun
  -- a rank inside the barrier moves as soon as every rank has at least as many rounds as it has
  have moves : ∀ q, q < n → s.inBar q = true → (∀ x, x < n → s.rounds q ≤ s.rounds x) →
      ∃ l, isLoop l = true ∧ (step n s l).isSome = true := by
    intro q hq hqin hmin
    have hrg := hi.rg q hq
    by_cases he : s.rounds q = s.got q
    · rcases idle_rank_moves hq hqin (hidle q hq).1 (hidle q hq).2 he with h | h
      · exact ⟨_, rfl, h⟩
      · exact ⟨_, rfl, h⟩
    · have hr1 : s.rounds q = s.got q + 1 := by omega
      have hf : s.cnt (s.got q) = n := cnt_full hi (s.got q) (fun x hx => by have := hmin x hx; omega)
      exact ⟨.result q, rfl, by simp only [step, hq, hqin, hr1, hf, and_self, if_true, Option.isSome_some]⟩
  -- a rank that has left never has fewer rounds than one that stays
  have left_ge : ∀ q, q < n → s.inBar q = false → ∀ x, x < n → s.inBar x = true → s.rounds x ≤ s.rounds q := by
    intro q hq hqout x hx hxin
    have eq : s.epoch q = e + 1 := by
      rcases hphase q hq with h | h
      · rw [h.1] at hqout; cases hqout
      · exact h.2
    have ex : s.epoch x = e := by
      rcases hphase x hx with h | h
      · exact h.2
      · rw [h.1] at hxin; cases hxin
    obtain ⟨m, hb, hle, _, hrule, _⟩ := hi.bDef q hq e (by omega)
    have hrq := (hi.bOut q hq hqout).1
    rw [eq, hb] at hrq
    have hbx := hi.bIn x hx hxin
    rw [ex] at hbx
    by_cases hgt : s.rounds x ≤ s.rounds q
    · exact hgt
    · exfalso
      exact hi.j2 x hx hxin m (by omega) (by omega) hrule
  obtain ⟨q, hq, hmin⟩ := exists_min n (by omega) s.rounds
  cases hqin : s.inBar q with
  | true => exact moves q hq hqin hmin
  | false =>
    refine moves r hr hin (fun x hx => ?_)
    have h1 := left_ge q hq hqin r hr hin
    have h2 := hmin x hx
    omega

/-- **every rank leaves**: a loop-only continuation of a quiescent state that cannot be extended by a barrier-loop step
has every rank outside the barrier, in epoch e + 1 -/
theorem C02ME_all_exit (n K e : Nat) (ls0 : List Label) (s0 : Sys) (h0 : run n init ls0 = some s0)
    (hd : s0.und = 0 ∧ ∀ q, q < n → s0.epoch q = e ∧ s0.inBar q = true ∧ s0.busy q = false ∧ s0.cbs q = 0)
    (hK : ∀ q, q < n → s0.rounds q ≤ K)
    (ls : List Label) (hall : ∀ l ∈ ls, isLoop l = true) (s' : Sys) (h : run n s0 ls = some s')
    (hmax : ∀ l, isLoop l = true → step n s' l = none) :
    ∀ q, q < n → s'.inBar q = false ∧ s'.epoch q = e + 1 := by
  have D0 := drain_init (run_inv ls0 h0) hd hK
  have D := (drain_run ls0 h0 ls s0 s' rfl [] rfl D0 hall h).1
  have hreach : run n init (ls0 ++ ls) = some s' := by rw [run_append ls0 ls init s0 h0]; exact h
  intro q hq
  rcases D.phase q hq with h1 | h1
  · exfalso
    obtain ⟨l, hl, hen⟩ := C02ME_drain_not_stuck n e s' (ls0 ++ ls) hreach D.idle D.phase q hq h1.1
    rw [hmax l hl] at hen; cases hen
  · exact h1

/-! non-vacuity: 2 ranks, one message 0 → 1 executed, both enter: quiescent at K = 0; the loops run 3 rounds each and leave -/
private def pre : List Label := [.issue 0, .start 1, .finish 1, .enter 0, .enter 1]
private def loops : List Label :=
  [.contribute 0, .contribute 1, .result 0, .result 1, .contribute 0, .contribute 1, .result 0, .result 1, .exit 0, .exit 1]

example : ((run 2 init pre).map (fun s => (s.und, s.inBar 0, s.inBar 1, s.rounds 0, s.rounds 1))) =
    some (0, true, true, 0, 0) := by decide
example : ((run 2 init (pre ++ loops)).map (fun s => (s.inBar 0, s.inBar 1, s.epoch 0, s.epoch 1, s.rounds 0))) =
    some (false, false, 1, 1, 2) := by decide
/-- a third round is refused by the model once the rule holds (the code's `while` leaves) -/
example : ((run 2 init (pre ++ loops.take 8)).map (fun s => (step 2 s (.contribute 0)).isSome)) = some false := by decide

end YgmVerif.BarrierME
