import YgmVerif.Lemmas.Bcast
/-!
# C05 — async_bcast reaches every rank exactly once; async_mcast every listed rank

Theorems about `YgmVerif.Bcast` (model of `comm::pack_lambda_broadcast`,
`comm::queue_message_bytes` and `comm::async_mcast`, comm.ipp).  For every layout
`N × p` (`N > p`: several forwarding layers; `N < p`: idle on-node indices), every
origin `o < N*p`.
-/
namespace YgmVerif.Bcast
open YgmVerif.Router

/-- nothing outside the communicator executes (and no leg is addressed outside it) -/
theorem bcast_none_outside {N p o : Nat} (ho : o < N * p) :
    ∀ r ∈ bcastExec N p o, r < N * p :=
  fun r hr => (mem_bcastExec ho r).1 hr

/-- every rank of the communicator executes the broadcast lambda exactly once -/
theorem bcast_each_once {N p o : Nat} (ho : o < N * p) :
    ∀ r, r < N * p → (bcastExec N p o).count r = 1 := by
  intro r hr
  rw [(bcastExec_nodup (pos_of_lt_mul ho) N o).count, if_pos ((mem_bcastExec ho r).2 hr)]

/-- … and a rank outside it never -/
theorem bcast_count_outside {N p o : Nat} (ho : o < N * p) :
    ∀ r, N * p ≤ r → (bcastExec N p o).count r = 0 := by
  intro r hr
  rw [(bcastExec_nodup (pos_of_lt_mul ho) N o).count, if_neg]
  intro h; have := (mem_bcastExec ho r).1 h; omega

/-- the executing ranks are a permutation of `0 … N*p-1` -/
theorem bcast_exec_perm {N p o : Nat} (ho : o < N * p) :
    (bcastExec N p o).Perm (List.range (N * p)) := by
  rw [List.perm_ext_iff_of_nodup (bcastExec_nodup (pos_of_lt_mul ho) N o) List.nodup_range]
  intro r; rw [mem_bcastExec ho, List.mem_range]

/-- ledger: one `m_send_count++` per leg, one `m_recv_count++` per execution; a broadcast
adds `N*p` to both global counts, and exactly 1 to every rank's receive count -/
theorem bcast_legs_counted {N p o : Nat} (ho : o < N * p) :
    (bcastLegs N p o).length = N * p ∧ (bcastExec N p o).length = N * p ∧
      ∀ r, r < N * p → bcastRecvBy N p o r = 1 := by
  have hlen : (bcastExec N p o).length = N * p := by
    rw [(bcast_exec_perm ho).length_eq, List.length_range]
  refine ⟨?_, hlen, fun r hr => bcast_each_once ho r hr⟩
  rw [← hlen]; unfold bcastExec; rw [List.length_map]

/-- the legs, stage by stage -/
theorem mem_bcastLegs (N p o : Nat) (g : Leg) :
    g ∈ bcastLegs N p o ↔
      (∃ d ∈ localTable p o, g = (o, d, 1)) ∨
      (∃ r ∈ localTable p o, ∃ q ∈ remotePartners N p r, g = (r, q, 2)) ∨
      (∃ q ∈ exec2 N p o, ∃ t ∈ localOthers p q, g = (q, t, 3)) := by
  unfold bcastLegs
  rw [List.mem_append, List.mem_append, or_assoc]
  refine or_congr ?_ (or_congr ?_ ?_)
  · unfold stage1; rw [List.mem_map]
    exact ⟨fun ⟨d, hd, e⟩ => ⟨d, hd, e.symm⟩, fun ⟨d, hd, e⟩ => ⟨d, hd, e.symm⟩⟩
  · unfold stage2 stage1
    simp only [List.mem_flatMap, List.mem_map, Leg.dst]
    constructor
    · rintro ⟨_, ⟨d, hd, rfl⟩, q, hq, rfl⟩; exact ⟨d, hd, q, hq, rfl⟩
    · rintro ⟨d, hd, q, hq, rfl⟩; exact ⟨_, ⟨d, hd, rfl⟩, q, hq, rfl⟩
  · rw [← stage2_dst]
    unfold stage3
    simp only [List.mem_flatMap, List.mem_map]
    constructor
    · rintro ⟨g2, hg2, t, ht, rfl⟩; exact ⟨_, ⟨g2, hg2, rfl⟩, t, ht, rfl⟩
    · rintro ⟨_, ⟨g2, hg2, rfl⟩, t, ht, rfl⟩; exact ⟨g2, hg2, t, ht, rfl⟩

/-- exactly the stage-2 legs are off-node; they connect equal on-node indices, and the
sender is the NLNR channel rank of its node for the receiver's node (so the broadcast uses
only off-node rank pairs that NLNR — hence NR — point-to-point traffic uses) -/
theorem bcast_offnode_same_local {N p o : Nat} (hp : 0 < p) :
    ∀ g ∈ bcastLegs N p o,
      (node p g.src ≠ node p g.dst ↔ g.stage = 2) ∧
      (g.stage = 2 → loc p g.src = loc p g.dst ∧ loc p g.src = channel p g.src g.dst) := by
  intro g hg
  rw [mem_bcastLegs] at hg
  rcases hg with ⟨d, hd, rfl⟩ | ⟨r, _, q, hq, rfl⟩ | ⟨q, _, t, ht, rfl⟩
  · rw [mem_localTable hp] at hd
    simp [Leg.src, Leg.dst, Leg.stage, hd]
  · rw [mem_remotePartners hp] at hq
    obtain ⟨_, h2, h3, h4⟩ := hq
    simp only [Leg.src, Leg.dst, Leg.stage, channel]
    exact ⟨⟨fun _ => by trivial, fun _ e => h2 e.symm⟩, fun _ => ⟨h3.symm, h4.symm⟩⟩
  · rw [mem_localOthers hp] at ht
    simp [Leg.src, Leg.dst, Leg.stage, ht.1]

/-- every forwarding rank forwards because it received the broadcast one stage earlier -/
theorem bcast_legs_causal (N p o : Nat) :
    ∀ g ∈ bcastLegs N p o,
      (g.stage = 1 ∧ g.src = o) ∨
      ∃ g' ∈ bcastLegs N p o, g'.dst = g.src ∧ g'.stage + 1 = g.stage := by
  intro g hg
  rw [mem_bcastLegs] at hg
  rcases hg with ⟨d, _, rfl⟩ | ⟨r, hr, q, _, rfl⟩ | ⟨q, hq, t, _, rfl⟩
  · exact Or.inl ⟨rfl, rfl⟩
  · refine Or.inr ⟨(o, r, 1), ?_, rfl, rfl⟩
    rw [mem_bcastLegs]; exact Or.inl ⟨r, hr, rfl⟩
  · unfold exec2 at hq
    rw [List.mem_flatMap] at hq
    obtain ⟨r, hr, hq⟩ := hq
    refine Or.inr ⟨(r, q, 2), ?_, rfl, rfl⟩
    rw [mem_bcastLegs]; exact Or.inr (Or.inl ⟨r, hr, q, hq, rfl⟩)

/-- `async_mcast`: one point-to-point message per list entry, duplicates included, all from
the caller; the lambda therefore runs on `r` as many times as `r` is listed (C01 per message) -/
theorem mcast_spec (src : Nat) (dests : List Nat) :
    (mcastMsgs src dests).length = dests.length ∧
    (∀ m ∈ mcastMsgs src dests, m.1 = src) ∧
    mcastExec src dests = dests ∧
    ∀ r, (mcastExec src dests).count r = dests.count r := by
  have h : mcastExec src dests = dests := by
    unfold mcastExec mcastMsgs; rw [List.map_map]; simp [Function.comp_def]
  refine ⟨by simp [mcastMsgs], ?_, h, fun r => by rw [h]⟩
  intro m hm
  unfold mcastMsgs at hm
  rw [List.mem_map] at hm
  obtain ⟨d, _, rfl⟩ := hm; rfl

/-! ### non-vacuity: `N > p` (three layers), `N < p` (idle on-node indices), origin anywhere -/

example : bcastExec 5 2 3 = [2, 3, 6, 1, 5, 9, 7, 0, 4, 8] ∧ numLayers 5 2 = 3 := by decide
example : (bcastLegs 5 2 3).map Leg.stage = [1, 1, 2, 2, 2, 2, 3, 3, 3, 3] := by decide
example : bcastLegs 2 3 4 = [(4, 3, 1), (4, 4, 1), (4, 5, 1), (4, 1, 2), (1, 0, 3), (1, 2, 3)] := by decide
example : partnerOffset 3 4 = 0 ∧ partnerOffset 3 3 = 2 ∧ partnerOffset 2 9 = 1 := by decide
example : mcastExec 0 [2, 2, 5] = [2, 2, 5] := by decide

end YgmVerif.Bcast
