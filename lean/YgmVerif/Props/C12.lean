import YgmVerif.Lemmas.SetOps
/-!
# C12 — set / multiset membership and conditional callbacks are exact

Theorems about `YgmVerif.SetOps` (the model of set_impl.hpp) composed with `YgmVerif.Dist`.
For all user lambdas, contents, keys and operation sequences (= all interleavings: the sequence
is the order in which the owner ranks executed the operations).

* composition: `final_count_fold`, `callbacks_fold`, `rank_holds_fold`, `stored_only_on_owner`
* `set_invariant`, `set_invariant_run`, `set_membership` (inserted and not erased ⇒ exactly once),
  `set_erased_absent`, `multiset_multiplicity`, `multiset_after_erase`, `erase_all_copies`
* `exe_if_missing_once`, `exe_if_contains_per_hit`, `exe_if_contains_step`, `exe_pure_no_change`
* `consume_all_each_once`, `consume_ledger`, `pop_removes_member`
-/
namespace YgmVerif.SetOps

variable {K A : Type} [DecidableEq K]

/-! ## composition (instances of `Dist`) -/

/-- the multiplicity of `k` after ANY executed sequence is the fold of the per-key step over the
subsequence of operations on `k` — operations on other keys are irrelevant -/
theorem final_count_fold (u : User K A) (s : List K) (ops : List (Op K A)) (k : K) :
    count (Dist.run (container u) s ops).state k
      = (Dist.run ⟨applyK u⟩ (count s k) (ops.filter (fun o => o.key = k))).state :=
  Dist.proj_run (keyed u) s ops k

theorem callbacks_fold (u : User K A) (s : List K) (ops : List (Op K A)) (k : K) :
    (Dist.run (container u) s ops).cbs.filter (fun cb => cb.key = k)
      = (Dist.run ⟨applyK u⟩ (count s k) (ops.filter (fun o => o.key = k))).cbs :=
  Dist.cbs_run (keyed u) s ops k

theorem rank_holds_fold (u : User K A) (ownerK : K → Nat) (g : Nat → List K) (E : List (Op K A)) (r : Nat) :
    Dist.execGlobal (container u) (fun o => ownerK o.key) g E r
      = (E.filter (fun o => ownerK o.key = r)).foldl (fun st op => (apply u st op).1) (g r) := by
  rw [Dist.execGlobal_rank, Dist.run_state_eq_foldl]; rfl

theorem stored_only_on_owner (u : User K A) (ownerK : K → Nat) (g : Nat → List K) (E : List (Op K A))
    (r : Nat) (k : K) (hr : ownerK k ≠ r) :
    count (Dist.execGlobal (container u) (fun o => ownerK o.key) g E r) k = count (g r) k :=
  Dist.stored_only_on_owner (keyed u) ownerK g E r k hr

/-! ## per-key facts (multiplicity as a number) -/

/-- the operation puts the key into the container -/
def Op.inserts : Op K A → Bool
  | .insert _ | .insertMulti _ | .insertExeIfMissing _ _ _ | .insertExeIfContains _ _ _ => true
  | _ => false
/-- the operation can take the key out of the container -/
def Op.removes : Op K A → Bool
  | .erase _ | .pop _ _ => true
  | _ => false

omit [DecidableEq K] in
theorem stateK_le_one (u : User K A) (n : Nat) (l : List (Op K A)) (hn : n ≤ 1)
    (hl : ∀ o ∈ l, o.isSetOp = true) : (Dist.run ⟨applyK u⟩ n l).state ≤ 1 := by
  induction l generalizing n with
  | nil => exact hn
  | cons o l ih =>
    simp only [Dist.run]
    apply ih _ _ (fun o ho => hl o (List.mem_cons_of_mem _ ho))
    have := hl o (List.mem_cons_self ..)
    cases o <;> simp only [applyK, Op.isSetOp] at this ⊢ <;> (try split) <;> (try simp at this) <;> omega

omit [DecidableEq K] in
theorem stateK_pos (u : User K A) (n : Nat) (l : List (Op K A)) (hn : 1 ≤ n)
    (hl : ∀ o ∈ l, o.removes = false) : 1 ≤ (Dist.run ⟨applyK u⟩ n l).state := by
  induction l generalizing n with
  | nil => exact hn
  | cons o l ih =>
    simp only [Dist.run]
    apply ih _ _ (fun o ho => hl o (List.mem_cons_of_mem _ ho))
    have := hl o (List.mem_cons_self ..)
    cases o <;> simp only [applyK, Op.removes] at this ⊢ <;> (try split) <;> (try simp at this) <;> omega

omit [DecidableEq K] in
theorem stateK_zero (u : User K A) (l : List (Op K A)) (hl : ∀ o ∈ l, o.inserts = false) :
    (Dist.run ⟨applyK u⟩ 0 l).state = 0 := by
  induction l with
  | nil => rfl
  | cons o l ih =>
    simp only [Dist.run]
    have := hl o (List.mem_cons_self ..)
    have h0 : (applyK u 0 o).1 = 0 := by
      cases o <;> simp only [applyK, Op.inserts] at this ⊢ <;> (try simp at this) <;> simp
    rw [h0]; exact ih (fun o ho => hl o (List.mem_cons_of_mem _ ho))

omit [DecidableEq K] in
theorem inserts_pos (u : User K A) (n : Nat) (o : Op K A) (h : o.inserts = true) :
    1 ≤ (applyK u n o).1 := by
  cases o <;> simp only [applyK, Op.inserts] at h ⊢ <;> (try simp at h) <;> (try split) <;> omega

/-! ## the `set` invariant and membership -/

theorem nodup_append_absent (s : List K) (k : K) (h : s.Nodup) (hc : count s k = 0) :
    (s ++ [k]).Nodup := by
  rw [List.nodup_append]
  refine ⟨h, by simp, ?_⟩
  intro a ha b hb
  simp only [List.mem_singleton] at hb
  subst hb
  intro e; subst e
  exact (List.count_eq_zero.1 hc) ha

/-- every operation of the `set` interface keeps the elements pairwise distinct -/
theorem set_invariant (u : User K A) (s : List K) (op : Op K A) (h : s.Nodup)
    (hop : op.isSetOp = true) : (apply u s op).1.Nodup := by
  cases op with
  | insert k =>
    simp only [apply]
    split
    · exact nodup_append_absent s k h ‹_›
    · exact h
  | insertMulti k => simp [Op.isSetOp] at hop
  | erase k => exact List.Nodup.sublist List.filter_sublist h
  | insertExeIfMissing k vis a =>
    simp only [apply]
    split
    · exact nodup_append_absent s k h ‹_›
    · exact h
  | insertExeIfContains k vis a =>
    simp only [apply]
    split
    · exact nodup_append_absent s k h ‹_›
    · exact h
  | exeIfMissing k vis a => simp only [apply]; split <;> exact h
  | exeIfContains k vis a => simp only [apply]; split <;> exact h
  | pop k vis =>
    simp only [apply]
    split
    · exact h
    · exact List.Nodup.sublist List.erase_sublist h

theorem set_invariant_run (u : User K A) (s : List K) (ops : List (Op K A)) (h : s.Nodup)
    (hops : ∀ o ∈ ops, o.isSetOp = true) : (Dist.run (container u) s ops).state.Nodup := by
  induction ops generalizing s with
  | nil => exact h
  | cons op ops ih =>
    simp only [Dist.run]
    exact ih _ (set_invariant u s op h (hops op (List.mem_cons_self ..)))
      (fun o ho => hops o (List.mem_cons_of_mem _ ho))

theorem filter_split (pre post : List (Op K A)) (o : Op K A) (k : K) (hk : o.key = k) :
    (pre ++ o :: post).filter (fun x => x.key = k)
      = pre.filter (fun x => x.key = k) ++ o :: post.filter (fun x => x.key = k) := by
  simp [List.filter_append, hk]

/-- **set membership**: a key that was inserted (by any of the three inserting calls) and not
erased afterwards is contained exactly once — whatever else was executed, in any interleaving -/
theorem set_membership (u : User K A) (s : List K) (pre post : List (Op K A)) (ins : Op K A) (k : K)
    (hs : s.Nodup) (hset : ∀ o ∈ pre ++ ins :: post, o.isSetOp = true)
    (hk : ins.key = k) (hins : ins.inserts = true)
    (hpost : ∀ o ∈ post, o.key = k → o.removes = false) :
    count (Dist.run (container u) s (pre ++ ins :: post)).state k = 1 := by
  have hle : count (Dist.run (container u) s (pre ++ ins :: post)).state k ≤ 1 :=
    (List.nodup_iff_count.1 (set_invariant_run u s _ hs hset)) k
  have hge : 1 ≤ count (Dist.run (container u) s (pre ++ ins :: post)).state k := by
    rw [final_count_fold, filter_split pre post ins k hk, Dist.run_append]
    simp only [Dist.run]
    apply stateK_pos
    · exact inserts_pos u _ ins hins
    · intro o ho
      simp only [List.mem_filter, decide_eq_true_eq] at ho
      exact hpost o ho.1 ho.2
  omega

/-- a key that was erased and not inserted afterwards is absent -/
theorem set_erased_absent (u : User K A) (s : List K) (pre post : List (Op K A)) (k : K)
    (hpost : ∀ o ∈ post, o.key = k → o.inserts = false) :
    count (Dist.run (container u) s (pre ++ Op.erase k :: post)).state k = 0 := by
  rw [final_count_fold, filter_split pre post (Op.erase k) k rfl, Dist.run_append]
  simp only [Dist.run, applyK]
  apply stateK_zero
  intro o ho
  simp only [List.mem_filter, decide_eq_true_eq] at ho
  exact hpost o ho.1 ho.2

omit [DecidableEq K] in
theorem stateK_insertMulti (u : User K A) (n : Nat) (l : List (Op K A)) (k : K)
    (hl : ∀ o ∈ l, o = Op.insertMulti k) : (Dist.run ⟨applyK u⟩ n l).state = n + l.length := by
  induction l generalizing n with
  | nil => rfl
  | cons o l ih =>
    simp only [Dist.run, hl o (List.mem_cons_self ..), applyK, List.length_cons]
    rw [ih _ (fun o ho => hl o (List.mem_cons_of_mem _ ho))]; omega

/-- **multiset multiplicity**: if the operations executed on `k` are multiset inserts, `k` is
contained once per insertion (on top of what was there) -/
theorem multiset_multiplicity (u : User K A) (s : List K) (ops : List (Op K A)) (k : K)
    (hops : ∀ o ∈ ops, o.key = k → o = Op.insertMulti k) :
    count (Dist.run (container u) s ops).state k
      = count s k + (ops.filter (fun o => o.key = k)).length := by
  rw [final_count_fold]
  apply stateK_insertMulti
  intro o ho
  simp only [List.mem_filter, decide_eq_true_eq] at ho
  exact hops o ho.1 ho.2

/-- … and after an erase only the later insertions count -/
theorem multiset_after_erase (u : User K A) (s : List K) (pre post : List (Op K A)) (k : K)
    (hpost : ∀ o ∈ post, o.key = k → o = Op.insertMulti k) :
    count (Dist.run (container u) s (pre ++ Op.erase k :: post)).state k
      = (post.filter (fun o => o.key = k)).length := by
  rw [final_count_fold, filter_split pre post (Op.erase k) k rfl, Dist.run_append]
  simp only [Dist.run, applyK]
  rw [stateK_insertMulti u 0 _ k]
  · omega
  · intro o ho
    simp only [List.mem_filter, decide_eq_true_eq] at ho
    exact hpost o ho.1 ho.2

/-- `async_erase` removes all copies of the key, nothing else, and runs no lambda -/
theorem erase_all_copies (u : User K A) (s : List K) (k : K) :
    count (apply u s (.erase k)).1 k = 0
    ∧ (∀ k', k' ≠ k → count (apply u s (.erase k)).1 k' = count s k')
    ∧ (apply u s (.erase k)).2 = ([], []) :=
  ⟨count_eraseAll_same s k, fun k' hk => count_eraseAll_other s k k' hk, rfl⟩

/-! ## conditional callbacks -/

omit [DecidableEq K] in
theorem runK_ieim_present (u : User K A) (n : Nat) (l : List (Op K A)) (k : K) (hn : 1 ≤ n)
    (hl : ∀ o ∈ l, ∃ vis a, o = Op.insertExeIfMissing k vis a) :
    (Dist.run ⟨applyK u⟩ n l).state = n ∧ (Dist.run ⟨applyK u⟩ n l).cbs = [] := by
  induction l with
  | nil => exact ⟨rfl, rfl⟩
  | cons o l ih =>
    obtain ⟨vis, a, rfl⟩ := hl o (List.mem_cons_self ..)
    have hne : ¬ n = 0 := by omega
    simp only [Dist.run, applyK, hne, if_false, List.nil_append]
    exact ih (fun o ho => hl o (List.mem_cons_of_mem _ ho))

/-- **exe_if_missing fires exactly once**: take ANY executed sequence (any interleaving with
arbitrary operations on other keys) in which the operations on `k` are `m ≥ 1` calls of
`async_insert_exe_if_missing(k, …)`, `k` initially absent (and hence never erased): the lambda runs
exactly once — for the call that was executed first — and `k` is contained once -/
theorem exe_if_missing_once (u : User K A) (s : List K) (ops : List (Op K A)) (k : K)
    (vis : Nat) (a : A) (rest : List (Op K A))
    (habs : count s k = 0)
    (hfirst : ops.filter (fun o => o.key = k) = Op.insertExeIfMissing k vis a :: rest)
    (hrest : ∀ o ∈ rest, ∃ vis' a', o = Op.insertExeIfMissing k vis' a') :
    (Dist.run (container u) s ops).cbs.filter (fun cb => cb.key = k) = [Cb.exe vis k a]
    ∧ count (Dist.run (container u) s ops).state k = 1 := by
  rw [callbacks_fold, final_count_fold, hfirst, habs]
  simp only [Dist.run, applyK, if_true]
  obtain ⟨h1, h2⟩ := runK_ieim_present u 1 rest k (Nat.le_refl 1) hrest
  rw [h1, h2]; exact ⟨rfl, rfl⟩

/-- the number of callbacks is one however many ranks inserted (corollary, counting form) -/
theorem exe_if_missing_once_count (u : User K A) (s : List K) (ops : List (Op K A)) (k : K)
    (habs : count s k = 0)
    (hall : ∀ o ∈ ops, o.key = k → ∃ vis a, o = Op.insertExeIfMissing k vis a)
    (hsome : ∃ o ∈ ops, o.key = k) :
    ((Dist.run (container u) s ops).cbs.filter (fun cb => cb.key = k)).length = 1 := by
  cases hf : ops.filter (fun o => o.key = k) with
  | nil =>
    obtain ⟨o, ho, hk⟩ := hsome
    have : o ∈ ops.filter (fun o => o.key = k) := by simp [List.mem_filter, ho, hk]
    rw [hf] at this; simp at this
  | cons o rest =>
    have hmem : ∀ x ∈ o :: rest, ∃ vis a, x = Op.insertExeIfMissing k vis a := by
      intro x hx
      rw [← hf] at hx
      simp only [List.mem_filter, decide_eq_true_eq] at hx
      exact hall x hx.1 hx.2
    obtain ⟨vis, a, rfl⟩ := hmem o (List.mem_cons_self ..)
    rw [(exe_if_missing_once u s ops k vis a rest habs hf
      (fun x hx => hmem x (List.mem_cons_of_mem _ hx))).1]
    rfl

/-- one `async_insert_exe_if_contains`: the lambda runs iff the key was present; afterwards the
key is present -/
theorem exe_if_contains_step (u : User K A) (s : List K) (k : K) (vis : Nat) (a : A) :
    (apply u s (.insertExeIfContains k vis a)).2.2 = (if count s k = 0 then [] else [Cb.exe vis k a])
    ∧ 1 ≤ count (apply u s (.insertExeIfContains k vis a)).1 k := by
  constructor
  · simp only [apply]; split <;> rfl
  · have := apply_same u s (.insertExeIfContains k vis a)
    simp only [Op.key] at this
    rw [this]; exact inserts_pos u _ _ rfl

omit [DecidableEq K] in
theorem runK_ieic_present (u : User K A) (n : Nat) (l : List (Nat × A)) (k : K) (hn : 1 ≤ n) :
    (Dist.run ⟨applyK u⟩ n (l.map (fun p => Op.insertExeIfContains k p.1 p.2))).cbs
      = l.map (fun p => Cb.exe p.1 k p.2)
    ∧ (Dist.run ⟨applyK u⟩ n (l.map (fun p => Op.insertExeIfContains k p.1 p.2))).state = n := by
  induction l with
  | nil => exact ⟨rfl, rfl⟩
  | cons p l ih =>
    have hne : ¬ n = 0 := by omega
    simp only [List.map_cons, Dist.run, applyK, hne, if_false]
    exact ⟨by rw [ih.1]; rfl, ih.2⟩

/-- **exe_if_contains fires once per insertion that found the key present**: in any executed
sequence whose operations on `k` are the calls `async_insert_exe_if_contains(k, visᵢ, aᵢ)` in this
order, with `k` initially absent, exactly the calls after the first one run their lambda; with `k`
initially present all of them do -/
theorem exe_if_contains_per_hit (u : User K A) (s : List K) (ops : List (Op K A)) (k : K)
    (calls : List (Nat × A))
    (hops : ops.filter (fun o => o.key = k) = calls.map (fun p => Op.insertExeIfContains k p.1 p.2)) :
    (Dist.run (container u) s ops).cbs.filter (fun cb => cb.key = k)
      = (if count s k = 0 then calls.tail else calls).map (fun p => Cb.exe p.1 k p.2) := by
  rw [callbacks_fold, hops]
  by_cases h0 : count s k = 0
  · rw [h0]; simp only [if_true]
    cases calls with
    | nil => rfl
    | cons p l =>
      simp only [List.map_cons, Dist.run, applyK, if_true, List.nil_append, List.tail_cons]
      exact (runK_ieic_present u 1 l k (Nat.le_refl 1)).1
  · simp only [h0, if_false]
    exact (runK_ieic_present u _ calls k (by omega)).1

/-- `async_exe_if_missing` / `async_exe_if_contains` never modify the container and run their
lambda according to membership (`count == 0`, resp. `count == 1` — membership in a `set`) -/
theorem exe_pure_no_change (u : User K A) (s : List K) (k : K) (vis : Nat) (a : A) :
    (apply u s (.exeIfMissing k vis a)).1 = s
    ∧ (apply u s (.exeIfMissing k vis a)).2.2 = (if count s k = 0 then [Cb.exe vis k a] else [])
    ∧ (apply u s (.exeIfContains k vis a)).1 = s
    ∧ (apply u s (.exeIfContains k vis a)).2.2 = (if count s k = 1 then [Cb.exe vis k a] else [])
    ∧ (s.Nodup → (count s k = 1 ↔ k ∈ s)) := by
  refine ⟨?_, ?_, ?_, ?_, ?_⟩
  · simp only [apply]; split <;> rfl
  · simp only [apply]; split <;> rfl
  · simp only [apply]; split <;> rfl
  · simp only [apply]; split <;> rfl
  · intro hs
    have hle := (List.nodup_iff_count.1 hs) k
    have hpos := @List.count_pos_iff _ _ _ k s
    unfold count
    constructor
    · intro h; exact hpos.1 (by omega)
    · intro h; have := hpos.2 h; omega

/-! ## consume_all -/

theorem container_apply (u : User K A) (s : List K) (op : Op K A) :
    (container u).apply s op = apply u s op := rfl

/-- **consume_all hands every element to the callback exactly once and leaves the container
empty** (no concurrent producer) -/
theorem consume_all_each_once (u : User K A) (vis : Nat) (s : List K) :
    (consumeAll u vis s).state = [] ∧ (consumeAll u vis s).cbs = s.map (fun k => Cb.consumed vis k) := by
  unfold consumeAll
  induction s with
  | nil => exact ⟨rfl, rfl⟩
  | cons k s ih =>
    have hc : ¬ count (k :: s) k = 0 := by simp [count]
    simp only [List.map_cons, Dist.run, container_apply, apply, hc, if_false, List.erase_cons_head]
    exact ⟨ih.1, by rw [← ih.2]; rfl⟩

/-- the key an operation inserts into a multiset -/
def Op.insertedMulti : Op K A → Option K
  | .insertMulti k => some k
  | _ => none

/-- **consume_all under concurrent producers** (multiset): in any interleaving of consume steps and
inserts, what was handed out plus what is left is exactly what was there plus what was inserted —
nothing lost, nothing handed out twice -/
theorem consume_ledger (u : User K A) (s : List K) (ops : List (Op K A))
    (hops : ∀ o ∈ ops, (∃ k, o = Op.insertMulti k) ∨ (∃ k vis, o = Op.pop k vis)) :
    ((Dist.run (container u) s ops).cbs.map Cb.key ++ (Dist.run (container u) s ops).state).Perm
      (s ++ ops.filterMap Op.insertedMulti) := by
  induction ops generalizing s with
  | nil => simp [Dist.run]
  | cons o ops ih =>
    have ih' := fun s => ih s (fun o ho => hops o (List.mem_cons_of_mem _ ho))
    rcases hops o (List.mem_cons_self ..) with ⟨k, rfl⟩ | ⟨k, vis, rfl⟩
    · simp only [Dist.run, container_apply, apply, List.nil_append, List.filterMap_cons, Op.insertedMulti]
      have := ih' (s ++ [k])
      simpa [List.append_assoc] using this
    · by_cases hc : count s k = 0
      · simp only [Dist.run, container_apply, apply, hc, if_true, List.nil_append, List.filterMap_cons,
          Op.insertedMulti]
        exact ih' s
      · simp only [Dist.run, container_apply, apply, hc, if_false, List.filterMap_cons, Op.insertedMulti,
          List.map_cons, Cb.key, List.cons_append, List.nil_append]
        have hmem : k ∈ s := by
          have := @List.count_pos_iff _ _ _ k s
          unfold count at hc
          exact this.1 (by omega)
        have h1 := ih' (s.erase k)
        have h2 : (s ++ ops.filterMap Op.insertedMulti).Perm
            (k :: (s.erase k ++ ops.filterMap Op.insertedMulti)) :=
          (List.perm_cons_erase hmem).append_right _
        exact (List.Perm.cons k h1).trans h2.symm

/-- in a `set` a consume step really removes the element it hands out -/
theorem pop_removes_member (u : User K A) (s : List K) (k : K) (vis : Nat) (hs : s.Nodup) (hk : k ∈ s) :
    (apply u s (.pop k vis)).2.2 = [Cb.consumed vis k] ∧ k ∉ (apply u s (.pop k vis)).1
    ∧ (∀ k', k' ≠ k → (k' ∈ (apply u s (.pop k vis)).1 ↔ k' ∈ s)) := by
  have hc : ¬ count s k = 0 := by
    unfold count; intro h; exact (List.count_eq_zero.1 h) hk
  have e : apply u s (.pop k vis) = (s.erase k, u.consume vis k, [Cb.consumed vis k]) := by
    simp only [apply, hc, if_false]
  rw [e]
  refine ⟨rfl, ?_, ?_⟩
  · show k ∉ s.erase k
    rw [hs.mem_erase_iff]; simp
  · intro k' hk'
    show k' ∈ s.erase k ↔ k' ∈ s
    rw [hs.mem_erase_iff]; simp [hk']

/-! ## non-vacuity -/
section Examples
def exUser : User Nat Nat where
  exe := fun vis k _ => if vis = 2 then [.insert (k + 100)] else []
  consume := fun _ _ => []

example : count (Dist.run (container exUser) [] [.insert 1, .insert 2, .insert 1, .erase 2, .insertExeIfContains 1 0 0]).state 1 = 1 := by decide
example : (Dist.run (container exUser) [5]
    [.insertExeIfMissing 1 2 7, .insert 5, .insertExeIfMissing 1 0 8, .insertExeIfMissing 2 0 9, .insertExeIfMissing 1 0 9]).cbs
      = [.exe 2 1 7, .exe 0 2 9] := by decide
example : (Dist.run (container exUser) [] [.insertExeIfContains 1 0 7, .insertExeIfContains 1 0 8, .insertExeIfContains 1 0 9]).cbs
      = [.exe 0 1 8, .exe 0 1 9] := by decide
example : count (Dist.run (container exUser) [] [.insertMulti 1, .insertMulti 1, .insertMulti 2, .insertMulti 1]).state 1 = 3 := by decide
/-- the code's `count == 1` test: in a multiset with two copies `exe_if_contains` does not fire -/
example : (apply exUser [1, 1] (.exeIfContains 1 0 0)).2.2 = [] := by decide
example : (consumeAll exUser 0 [3, 1, 2]).cbs = [.consumed 0 3, .consumed 0 1, .consumed 0 2] := by decide
end Examples

end YgmVerif.SetOps
