import YgmVerif.Lemmas.RouterP
/-!
# C04 for every placement of the ranks on the nodes

`Props/C04.lean` proves the hop structure for the block placement (rank `r` on node `r / p`).
layout.hpp / comm_router.hpp are written with lookup tables, so they work for any placement.
Here the same theorems are proved for **every** well-formed `Placement` (the tables
`node_id`, `local_id` form a bijection `[0, N*p) ≃ [0, N) × [0, p)`), and the block and the
round-robin (`cyclic`) placements are shown to be instances for all `N`, `p`.  The block
instance's `nextHop` is the `Router.nextHop` of `Props/C04.lean`.
-/
namespace YgmVerif.RouterP
open YgmVerif.Router (Scheme hops)
namespace Placement

variable {P : Placement}

/-- indices used by `next_hop` without bounds check are in range -/
theorem nextHop_indices_in_range (h : P.WF) {me d : Nat} (hd : d < P.size) :
    P.nodeOf d < P.N ∧ P.channel me d < P.p :=
  ⟨h.node_lt d hd, channel_lt (pos_p hd) me d⟩

/-- every next hop is a rank of the communicator -/
theorem nextHop_lt (h : P.WF) (sch : Scheme) {me d : Nat} (hme : me < P.size) (hd : d < P.size) :
    P.nextHop sch me d < P.size := by
  by_cases e : P.nodeOf me = P.nodeOf d
  · rw [nextHop_local sch e]; exact hd
  · cases sch with
    | NONE => exact hd
    | NR => rw [nextHop_NR_remote e]; exact h.rank_lt _ _ (h.node_lt d hd) (h.loc_lt me hme)
    | NLNR =>
      by_cases hc : P.locOf me = P.channel me d
      · rw [nextHop_NLNR_chan h hme e hc]; exact h.rank_lt _ _ (h.node_lt d hd) (h.loc_lt me hme)
      · rw [nextHop_NLNR_nochan h hme e hc]
        exact h.rank_lt _ _ (h.node_lt me hme) (channel_lt (pos_p hme) me d)

/-- NONE: one direct hop -/
theorem route_none (s d : Nat) : P.route .NONE s d = [d] := route_none_eq s d

/-- NR: at most two hops, an off-node hop followed by an on-node hop -/
theorem route_NR_shape (h : P.WF) {s d : Nat} (hs : s < P.size) (hd : d < P.size) :
    (P.route .NR s d).length ≤ 2 ∧
    P.hopKinds s (P.route .NR s d) ∈ [[false], [true], [true, false]] := by
  rw [route_NR_eq h hs hd]
  have hi := h.loc_lt s hs
  have hb := h.node_lt d hd
  by_cases e : P.nodeOf s = P.nodeOf d
  · rw [if_pos e]; simp [e, hopKinds, hops, offNode]
  · rw [if_neg e]
    by_cases hl : P.locOf s = P.locOf d
    · rw [if_pos hl]; simp [e, hopKinds, hops, offNode]
    · rw [if_neg hl]; simp [e, hopKinds, hops, offNode, h.node_rank _ _ hb hi]

/-- NLNR: at most three hops, on-node then off-node then on-node -/
theorem route_NLNR_shape (h : P.WF) {s d : Nat} (hs : s < P.size) (hd : d < P.size) :
    (P.route .NLNR s d).length ≤ 3 ∧
    P.hopKinds s (P.route .NLNR s d) ∈
      [[false], [true], [false, true], [true, false], [false, true, false]] := by
  rw [route_NLNR_eq h hs hd]
  have hi := h.loc_lt s hs
  have ha := h.node_lt s hs
  have hb := h.node_lt d hd
  have hcl := channel_lt (pos_p hs) s d
  by_cases e : P.nodeOf s = P.nodeOf d
  · rw [if_pos e]; simp [e, hopKinds, hops, offNode]
  · rw [if_neg e]
    by_cases hc : P.locOf s = P.channel s d
    · rw [if_pos hc]
      by_cases hl : P.locOf s = P.locOf d
      · rw [if_pos hl]; simp [e, hopKinds, hops, offNode]
      · rw [if_neg hl]; simp [e, hopKinds, hops, offNode, h.node_rank _ _ hb hi]
    · rw [if_neg hc]
      by_cases hl : P.channel s d = P.locOf d
      · rw [if_pos hl]; simp [e, hopKinds, hops, offNode, h.node_rank _ _ ha hcl]
      · rw [if_neg hl]
        simp [e, hopKinds, hops, offNode, h.node_rank _ _ ha hcl, h.node_rank _ _ hb hcl]

/-- every route ends at the destination -/
theorem route_ends_at_dest (h : P.WF) (sch : Scheme) {s d : Nat} (hs : s < P.size) (hd : d < P.size) :
    (P.route sch s d).getLast? = some d := by
  cases sch with
  | NONE => simp [route_none_eq]
  | NR => rw [route_NR_eq h hs hd]; repeat' split
          all_goals simp
  | NLNR =>
    rw [route_NLNR_eq h hs hd]; repeat' split
    all_goals simp

/-- a route never revisits a rank, the source included -/
theorem route_nodup (h : P.WF) (sch : Scheme) {s d : Nat} (hs : s < P.size) (hd : d < P.size) :
    (P.route sch s d).Nodup ∧ (s ≠ d → s ∉ P.route sch s d) := by
  have hi := h.loc_lt s hs
  have ha := h.node_lt s hs
  have hb := h.node_lt d hd
  have hcl := channel_lt (pos_p hs) s d
  cases sch with
  | NONE => simp [route_none_eq]
  | NR =>
    rw [route_NR_eq h hs hd]
    by_cases e : P.nodeOf s = P.nodeOf d
    · rw [if_pos e]; simp
    · rw [if_neg e]
      by_cases hl : P.locOf s = P.locOf d
      · rw [if_pos hl]; simp
      · have hne : P.rankOf (P.nodeOf d) (P.locOf s) ≠ d := by
          intro e'; have := congrArg P.locOf e'; rw [h.loc_rank _ _ hb hi] at this; exact hl this
        have hsq : s ≠ P.rankOf (P.nodeOf d) (P.locOf s) := by
          intro e'; have := congrArg P.nodeOf e'; rw [h.node_rank _ _ hb hi] at this; exact e this
        rw [if_neg hl]; simp [hne, hsq]
  | NLNR =>
    rw [route_NLNR_eq h hs hd]
    by_cases e : P.nodeOf s = P.nodeOf d
    · rw [if_pos e]; simp
    · rw [if_neg e]
      by_cases hc : P.locOf s = P.channel s d
      · rw [if_pos hc]
        by_cases hl : P.locOf s = P.locOf d
        · rw [if_pos hl]; simp
        · have hne : P.rankOf (P.nodeOf d) (P.locOf s) ≠ d := by
            intro e'; have := congrArg P.locOf e'; rw [h.loc_rank _ _ hb hi] at this; exact hl this
          have hsq : s ≠ P.rankOf (P.nodeOf d) (P.locOf s) := by
            intro e'; have := congrArg P.nodeOf e'; rw [h.node_rank _ _ hb hi] at this; exact e this
          rw [if_neg hl]
          simp [hne, hsq]
      · rw [if_neg hc]
        have hm_d : P.rankOf (P.nodeOf s) (P.channel s d) ≠ d := by
          intro e'; have := congrArg P.nodeOf e'; rw [h.node_rank _ _ ha hcl] at this; exact e this
        have hs_m : s ≠ P.rankOf (P.nodeOf s) (P.channel s d) := by
          intro e'; have := congrArg P.locOf e'; rw [h.loc_rank _ _ ha hcl] at this; exact hc this
        have hs_q : s ≠ P.rankOf (P.nodeOf d) (P.channel s d) := by
          intro e'; have := congrArg P.nodeOf e'; rw [h.node_rank _ _ hb hcl] at this; exact e this
        have hm_q : P.rankOf (P.nodeOf s) (P.channel s d) ≠ P.rankOf (P.nodeOf d) (P.channel s d) := by
          intro e'; have := congrArg P.nodeOf e'
          rw [h.node_rank _ _ ha hcl, h.node_rank _ _ hb hcl] at this; exact e this
        by_cases hl : P.channel s d = P.locOf d
        · rw [if_pos hl]
          simp [hm_d, hs_m]
        · have hq_d : P.rankOf (P.nodeOf d) (P.channel s d) ≠ d := by
            intro e'; have := congrArg P.locOf e'; rw [h.loc_rank _ _ hb hcl] at this; exact hl this
          rw [if_neg hl]
          simp [hm_d, hs_m, hs_q, hm_q, hq_d]

/-- the route stays inside the communicator -/
theorem route_lt (h : P.WF) (sch : Scheme) {s d : Nat} (hs : s < P.size) (hd : d < P.size) :
    ∀ r ∈ P.route sch s d, r < P.size := by
  have hi := h.loc_lt s hs
  have ha := h.node_lt s hs
  have hb := h.node_lt d hd
  have hcl := channel_lt (pos_p hs) s d
  cases sch with
  | NONE => simp [route_none_eq, hd]
  | NR =>
    rw [route_NR_eq h hs hd]; repeat' split
    all_goals simp [hd, h.rank_lt _ _ hb hi]
  | NLNR =>
    rw [route_NLNR_eq h hs hd]; repeat' split
    all_goals simp [hd, h.rank_lt _ _ hb hi, h.rank_lt _ _ ha hcl, h.rank_lt _ _ hb hcl]

/-- NR and NLNR: both ends of every off-node hop have the same local id -/
theorem offnode_same_local (h : P.WF) (sch : Scheme) (hsch : sch ≠ .NONE) {s d : Nat}
    (hs : s < P.size) (hd : d < P.size) :
    ∀ g ∈ hops s (P.route sch s d), P.offNode g = true → P.locOf g.1 = P.locOf g.2 := by
  have hi := h.loc_lt s hs
  have ha := h.node_lt s hs
  have hb := h.node_lt d hd
  have hcl := channel_lt (pos_p hs) s d
  cases sch with
  | NONE => exact absurd rfl hsch
  | NR =>
    rw [route_NR_eq h hs hd]
    by_cases e : P.nodeOf s = P.nodeOf d
    · rw [if_pos e]; simp [hops, offNode, e]
    · rw [if_neg e]
      by_cases hl : P.locOf s = P.locOf d
      · rw [if_pos hl]; simp [hops, offNode, hl]
      · rw [if_neg hl]; simp [hops, offNode, h.node_rank _ _ hb hi, h.loc_rank _ _ hb hi]
  | NLNR =>
    rw [route_NLNR_eq h hs hd]
    by_cases e : P.nodeOf s = P.nodeOf d
    · rw [if_pos e]; simp [hops, offNode, e]
    · rw [if_neg e]
      by_cases hc : P.locOf s = P.channel s d
      · rw [if_pos hc]
        by_cases hl : P.locOf s = P.locOf d
        · rw [if_pos hl]; simp [hops, offNode, hl]
        · rw [if_neg hl]
          simp [hops, offNode, h.node_rank _ _ hb hi, h.loc_rank _ _ hb hi]
      · rw [if_neg hc]
        by_cases hl : P.channel s d = P.locOf d
        · rw [if_pos hl]
          simp only [hops, List.zip_cons_cons, List.zip_nil_right, List.mem_cons, List.not_mem_nil,
            or_false, offNode]
          rintro x (rfl | rfl)
          · simp [h.node_rank _ _ ha hcl]
          · intro _; show P.locOf (P.rankOf (P.nodeOf s) (P.channel s d)) = P.locOf d
            rw [h.loc_rank _ _ ha hcl]; exact hl
        · rw [if_neg hl]
          simp [hops, offNode, h.node_rank _ _ ha hcl, h.loc_rank _ _ ha hcl,
            h.node_rank _ _ hb hcl, h.loc_rank _ _ hb hcl]

/-- closed form of the off-node hops of NR -/
theorem offHops_NR (h : P.WF) {s d : Nat} (hs : s < P.size) (hd : d < P.size) :
    P.offHops .NR s d =
      if P.nodeOf s = P.nodeOf d then [] else [(s, P.rankOf (P.nodeOf d) (P.locOf s))] := by
  have hi := h.loc_lt s hs
  have hb := h.node_lt d hd
  unfold offHops
  rw [route_NR_eq h hs hd]
  by_cases e : P.nodeOf s = P.nodeOf d
  · rw [if_pos e, if_pos e]; simp [hops, offNode, e]
  · rw [if_neg e, if_neg e]
    by_cases hl : P.locOf s = P.locOf d
    · have : P.rankOf (P.nodeOf d) (P.locOf s) = d := by rw [hl]; exact h.rank_node_loc d hd
      rw [if_pos hl, this]
      simp [hops, offNode, e]
    · rw [if_neg hl]; simp [hops, offNode, h.node_rank _ _ hb hi, e]

/-- closed form of the off-node hops of NLNR: the single pair of channel ranks
`(node s, c) → (node d, c)` with `c = (node d + node s) % p` -/
theorem offHops_NLNR (h : P.WF) {s d : Nat} (hs : s < P.size) (hd : d < P.size) :
    P.offHops .NLNR s d =
      if P.nodeOf s = P.nodeOf d then []
      else [(P.rankOf (P.nodeOf s) (P.channel s d), P.rankOf (P.nodeOf d) (P.channel s d))] := by
  have hi := h.loc_lt s hs
  have ha := h.node_lt s hs
  have hb := h.node_lt d hd
  have hcl := channel_lt (pos_p hs) s d
  unfold offHops
  rw [route_NLNR_eq h hs hd]
  by_cases e : P.nodeOf s = P.nodeOf d
  · rw [if_pos e, if_pos e]; simp [hops, offNode, e]
  · rw [if_neg e, if_neg e]
    by_cases hc : P.locOf s = P.channel s d
    · have hss : P.rankOf (P.nodeOf s) (P.channel s d) = s := by rw [← hc]; exact h.rank_node_loc s hs
      rw [if_pos hc]
      by_cases hl : P.locOf s = P.locOf d
      · have hdd : P.rankOf (P.nodeOf d) (P.channel s d) = d := by
          rw [← hc, hl]; exact h.rank_node_loc d hd
        rw [if_pos hl, hss, hdd]
        simp [hops, offNode, e]
      · rw [if_neg hl, hss, ← hc]
        simp [hops, offNode, h.node_rank _ _ hb hi, e]
    · rw [if_neg hc]
      by_cases hl : P.channel s d = P.locOf d
      · have hdd : P.rankOf (P.nodeOf d) (P.channel s d) = d := by rw [hl]; exact h.rank_node_loc d hd
        rw [if_pos hl, hdd]
        simp [hops, offNode, h.node_rank _ _ ha hcl, e]
      · rw [if_neg hl]
        simp [hops, offNode, h.node_rank _ _ ha hcl, h.node_rank _ _ hb hcl, e]

/-- the off-node rank pairs NLNR uses are off-node rank pairs NR uses (same placement) -/
theorem NLNR_pairs_subset_NR (h : P.WF) {s d : Nat} (hs : s < P.size) (hd : d < P.size) :
    ∀ g ∈ P.offHops .NLNR s d,
      ∃ s' d', s' < P.size ∧ d' < P.size ∧ g ∈ P.offHops .NR s' d' := by
  have ha := h.node_lt s hs
  have hcl := channel_lt (pos_p hs) s d
  intro g hg
  rw [offHops_NLNR h hs hd] at hg
  by_cases e : P.nodeOf s = P.nodeOf d
  · simp [e] at hg
  · simp only [e, if_false, List.mem_singleton] at hg
    subst hg
    have hm := h.rank_lt _ _ ha hcl
    refine ⟨P.rankOf (P.nodeOf s) (P.channel s d), d, hm, hd, ?_⟩
    rw [offHops_NR h hm hd, h.node_rank _ _ ha hcl, h.loc_rank _ _ ha hcl]
    simp [e]

/-- under NLNR all traffic from node `a` to node `b ≠ a` crosses on one single ordered rank pair -/
theorem NLNR_single_pair (h : P.WF) {s d s' d' : Nat} (hs : s < P.size) (hd : d < P.size)
    (hs' : s' < P.size) (hd' : d' < P.size)
    (es : P.nodeOf s = P.nodeOf s') (ed : P.nodeOf d = P.nodeOf d') (hne : P.nodeOf s ≠ P.nodeOf d) :
    P.offHops .NLNR s d = P.offHops .NLNR s' d' ∧
    P.offHops .NLNR s d =
      [(P.rankOf (P.nodeOf s) ((P.nodeOf d + P.nodeOf s) % P.p),
        P.rankOf (P.nodeOf d) ((P.nodeOf d + P.nodeOf s) % P.p))] := by
  have hne' : P.nodeOf s' ≠ P.nodeOf d' := by rw [← es, ← ed]; exact hne
  rw [offHops_NLNR h hs hd, offHops_NLNR h hs' hd', if_neg hne, if_neg hne']
  refine ⟨?_, rfl⟩
  unfold channel
  rw [← es, ← ed]

theorem route_length_pos (sch : Scheme) (s d : Nat) : 0 < (P.route sch s d).length := by
  simp [route, Router.routeFuel, routeFrom]

/-- every forwarding step gets strictly closer to the destination (the progress measure of
C01's drain bound), for every placement -/
theorem route_progress (h : P.WF) (sch : Scheme) {x d : Nat} (hx : x < P.size) (hd : d < P.size)
    (hne : x ≠ d) : P.hopsLeft sch (P.nextHop sch x d) d < P.hopsLeft sch x d := by
  unfold hopsLeft
  rw [if_neg hne]
  by_cases hh : P.nextHop sch x d = d
  · rw [if_pos hh]; exact route_length_pos sch x d
  · rw [if_neg hh]
    have hi := h.loc_lt x hx
    have ha := h.node_lt x hx
    have hb := h.node_lt d hd
    have hcl := channel_lt (pos_p hx) x d
    have e : P.nodeOf x ≠ P.nodeOf d := fun e => hh (nextHop_local sch e)
    cases sch with
    | NONE => exact absurd rfl hh
    | NR =>
      have hl : P.locOf x ≠ P.locOf d := by
        intro e'; apply hh; rw [nextHop_NR_remote e, e']; exact h.rank_node_loc d hd
      rw [nextHop_NR_remote e, route_local_eq _ (h.node_rank _ _ hb hi), route_NR_eq h hx hd,
        if_neg e, if_neg hl]
      simp
    | NLNR =>
      by_cases hc : P.locOf x = P.channel x d
      · have hl : P.locOf x ≠ P.locOf d := by
          intro e'; apply hh; rw [nextHop_NLNR_chan h hx e hc, e']; exact h.rank_node_loc d hd
        rw [nextHop_NLNR_chan h hx e hc, route_local_eq _ (h.node_rank _ _ hb hi),
          route_NLNR_eq h hx hd, if_neg e, if_pos hc, if_neg hl]
        simp
      · rw [nextHop_NLNR_nochan h hx e hc]
        have hm_lt : P.rankOf (P.nodeOf x) (P.channel x d) < P.size := h.rank_lt _ _ ha hcl
        have hm_node : P.nodeOf (P.rankOf (P.nodeOf x) (P.channel x d)) = P.nodeOf x :=
          h.node_rank _ _ ha hcl
        have hm_loc : P.locOf (P.rankOf (P.nodeOf x) (P.channel x d)) = P.channel x d :=
          h.loc_rank _ _ ha hcl
        have hm_chan : P.channel (P.rankOf (P.nodeOf x) (P.channel x d)) d = P.channel x d := by
          show (P.nodeOf d + P.nodeOf (P.rankOf (P.nodeOf x) (P.channel x d))) % P.p = P.channel x d
          rw [hm_node]; rfl
        rw [route_NLNR_eq h hm_lt hd, hm_node, hm_loc, hm_chan,
          if_neg e, if_pos rfl, route_NLNR_eq h hx hd, if_neg e, if_neg hc]
        by_cases hl : P.channel x d = P.locOf d
        · rw [if_pos hl, if_pos hl]; simp
        · rw [if_neg hl, if_neg hl]; simp

end Placement

/-! ### the two placements the checks run are instances, for all `N`, `p` -/

theorem block_wf (N p : Nat) : (block N p).WF := by
  refine ⟨?_, ?_, ?_, ?_, ?_, ?_⟩
  · intro r hr; exact Router.node_lt (N := N) (p := p) hr
  · intro r hr; exact Router.loc_lt (Router.pos_of_lt_mul (N := N) hr) r
  · intro a i ha hi; exact Router.mk_lt ha hi
  · intro a i _ hi; exact Router.node_mk hi
  · intro a i _ hi; exact Router.loc_mk hi
  · intro r _; exact Router.mk_node_loc p r

theorem cyclic_wf (N p : Nat) : (cyclic N p).WF := by
  have size_eq : (cyclic N p).size = N * p := rfl
  refine ⟨?_, ?_, ?_, ?_, ?_, ?_⟩
  · intro r hr
    rw [size_eq] at hr
    have hN : 0 < N := by
      rcases Nat.eq_zero_or_pos N with h0 | h0
      · subst h0; simp at hr
      · exact h0
    exact Nat.mod_lt _ hN
  · intro r hr
    rw [size_eq, Nat.mul_comm] at hr
    exact Router.node_lt (N := p) (p := N) hr
  · intro a i ha hi
    rw [size_eq, Nat.mul_comm]
    exact Router.mk_lt (N := p) (p := N) hi ha
  · intro a i ha _; exact Router.loc_mk (p := N) ha
  · intro a i ha _; exact Router.node_mk (p := N) ha
  · intro r _; exact Router.mk_node_loc N r

/-- nothing lost: on the block placement the generic `nextHop` is the `Router.nextHop` of
`Props/C04.lean` (hence so are `route`, `hopsLeft`, `offHops`) -/
theorem block_nextHop_eq (N p : Nat) (sch : Scheme) (me d : Nat) :
    (block N p).nextHop sch me d = Router.nextHop sch p me d := by
  cases sch <;> rfl

theorem block_route_eq (N p : Nat) (sch : Scheme) (s d : Nat) :
    (block N p).route sch s d = Router.route sch p s d := by
  have hf : ∀ fuel cur, (block N p).routeFrom sch d fuel cur = Router.routeFrom sch p d fuel cur := by
    intro fuel
    induction fuel with
    | zero => intro cur; rfl
    | succ k ih =>
      intro cur
      simp only [Placement.routeFrom, Router.routeFrom, block_nextHop_eq, ih]
  exact hf _ _

theorem block_hopsLeft_eq (N p : Nat) (sch : Scheme) (x d : Nat) :
    (block N p).hopsLeft sch x d = Router.hopsLeft sch p x d := by
  unfold Placement.hopsLeft Router.hopsLeft; rw [block_route_eq]

/-- the closed form of `nextHop` on the round-robin placement -/
theorem cyclic_nextHop_NR (N p me d : Nat) (hne : me % N ≠ d % N) :
    (cyclic N p).nextHop .NR me d = (me / N) * N + d % N := by
  simp [Placement.nextHop, Placement.isLocal, Placement.strided, cyclic, hne]

/-! ### non-vacuity: 2 nodes × 3 ranks, round-robin: ranks 0 2 4 on node 0, ranks 1 3 5 on node 1 -/

example : (cyclic 2 3).route .NLNR 0 5 = [2, 3, 5] ∧ (cyclic 2 3).route .NLNR 0 3 = [2, 3]
    ∧ (cyclic 2 3).route .NLNR 2 1 = [3, 1] ∧ (cyclic 2 3).route .NLNR 2 3 = [3]
    ∧ (cyclic 2 3).route .NLNR 0 4 = [4] ∧ (cyclic 2 3).route .NR 0 5 = [1, 5] := by decide
example : (cyclic 2 3).hopKinds 0 ((cyclic 2 3).route .NLNR 0 5) = [false, true, false] := by decide
example : (cyclic 2 3).offHops .NLNR 0 5 = [(2, 3)] ∧ (cyclic 2 3).offHops .NLNR 4 1 = [(2, 3)]
    ∧ (cyclic 2 3).offHops .NR 2 5 = [(2, 3)] := by decide
example : (cyclic 2 3).hopsLeft .NLNR 0 5 = 3 ∧ (cyclic 2 3).hopsLeft .NLNR 2 5 = 2 := by decide
example : (block 2 3).route .NLNR 0 5 = [1, 4, 5] := by decide

end YgmVerif.RouterP
