import YgmVerif.Model.Collective
import YgmVerif.Lemmas.DistComm
import YgmVerif.Props.C02C01
/-!
# Collective container operations (clear / swap / serialize / deserialize) and the barrier — defects D9–D11, D13–D15

`Model/Collective.lean`: a collective operation is `barrier(); <local mutation or read>` (tree as found) or
`barrier(); <local mutation or read>; cf_barrier()` (repaired tree), run over the joint messaging model `Comm`.

* PINNED NEGATIVE (`old_protocol_admits_the_race`, by `decide`): with ONE barrier there is an accepted history on 2 ranks in
  which rank 0 has returned from the collective, issues an operation to rank 1, and rank 1 — still inside `barrier()`, its own
  `exit` not yet taken, polling and running handlers as the barrier loop does — executes it BEFORE its local step, which then
  wipes it (clear), captures it (serialize), overwrites it (deserialize) or moves it to the other container (swap).
* POSITIVE (`repaired_linearises`, all n, all interleavings): with the closing control-flow barrier no operation issued after
  the collective returned on its issuer is executed on any rank before that rank's local step; every rank's local step sees
  exactly the operations issued before the collective, each executed once on its destination; the memory of every rank is
  (local mutation applied to the fold of the earlier operations) followed by the fold of the later operations.
-/
namespace YgmVerif.Collective
open YgmVerif
open YgmVerif.Barrier (upd upd_same upd_other)

/-! ## (3) the pinned negative: the one-barrier protocol admits the race -/

section Negative

/-- a bag of numbers per rank: the remote lambda appends the item -/
def bagCont : Dist.Container (List Nat) Nat Unit := ⟨fun st x => (st ++ [x], [], [])⟩

/-- uid 1 carries `async_insert(7)`, uid 2 carries `async_insert(9)` -/
def demoOp : Nat → Nat
  | 1 => 7
  | _ => 9

/-- `clear()` on 2 ranks; its barrier is the first barrier of the program -/
def clearPar (repaired : Bool) : Par (List Nat) Nat Unit :=
  { n := 2, nh := fun _ d => d, E := 0, repaired := repaired, cont := bagCont, opOf := demoOp,
    loc := fun _ _ => [], g := fun _ => [] }

def round2 : List Label :=
  [.comm (.contribute 0), .comm (.contribute 1), .comm (.result 0), .comm (.result 1)]

/-- rank 0 inserts 7 at rank 1 and both ranks call `clear()`; the insert is executed inside the barrier and the
termination rule becomes true on both ranks -/
def beforeExit : List Label :=
  [.comm (.async 0 1 1 false), .comm (.enter 0), .comm (.enter 1),
   .comm (.isend 0 1), .comm (.recvBegin 1 0 0), .comm (.execBegin 1 1), .comm (.execEnd 1 1), .comm (.recvEnd 1)]
  ++ round2 ++ round2

/-- rank 0 leaves the barrier, clears its local bag, RETURNS from `clear()` and inserts 9 at rank 1.  Rank 1 has not taken
its `exit` yet: it is still inside `barrier()`, receives the message and runs the handler — before its own local clear. -/
def race : List Label :=
  [.comm (.exit 0), .localStep 0, .comm (.async 0 2 1 false), .comm (.isend 0 1),
   .comm (.recvBegin 1 0 1), .comm (.execBegin 1 2), .comm (.execEnd 1 2), .comm (.recvEnd 1)]

set_option maxRecDepth 65536 in
/-- **the one-barrier protocol admits exactly the observed race** (D9–D11: clear; the same history with another `loc` is
D13 swap, D14 / D15 serialize / deserialize).  The history is accepted by the model of the tree as found; in the state it
reaches

* rank 0 has returned from `clear()` (`done 0`), rank 1 has not even left the barrier (`epoch 1 = 0`, `inBar 1`);
* uid 2 was issued AFTER the collective returned on its issuer (`late`) and has been EXECUTED on rank 1 BEFORE rank 1's
  local step (`execPre`): rank 1 holds [7, 9];
* rank 1 may still leave the barrier (`exit 1` is accepted: its termination test saw only its own, unchanged, reduction
  results) and its local clear then wipes the insert that was issued after `clear()` had returned: rank 1 holds []. -/
theorem old_protocol_admits_the_race :
    ((run (clearPar false) (init (clearPar false)) (beforeExit ++ race)).map (fun S =>
      (S.done 0, S.c.b.epoch 1, S.c.b.inBar 1))) = some (true, 0, true) ∧
    ((run (clearPar false) (init (clearPar false)) (beforeExit ++ race)).map (fun S =>
      (S.late, S.execPre, S.mem 1))) = some ([(2, 1, false)], [(1, 1), (1, 2)], [7, 9]) ∧
    ((run (clearPar false) (init (clearPar false)) (beforeExit ++ race ++ [.comm (.exit 1), .localStep 1])).map
      (fun S => (S.done 1, S.mem 0, S.mem 1, S.execPost))) = some (true, [], [], []) := by
  refine ⟨?_, ?_, ?_⟩ <;> decide

set_option maxRecDepth 65536 in
/-- the repaired protocol refuses that history at the first step that differs: rank 0 cannot issue anything between its
local step and the end of the control-flow barrier, and it cannot leave the control-flow barrier before rank 1 has entered
it, i.e. before rank 1 has done its local step -/
example :
    (run (clearPar true) (init (clearPar true)) (beforeExit ++ [.comm (.exit 0), .localStep 0])).isSome = true ∧
    (run (clearPar true) (init (clearPar true))
      (beforeExit ++ [.comm (.exit 0), .localStep 0, .comm (.async 0 2 1 false)])).isNone = true ∧
    (run (clearPar true) (init (clearPar true))
      (beforeExit ++ [.comm (.exit 0), .localStep 0, .cfEnter 0, .cfExit 0])).isNone = true := by decide

end Negative

/-! ## what a `Comm` step does to the counters read here -/

theorem comm_epoch {n : Nat} {nh : Nat → Nat → Nat} {c c' : Comm.St} {l : Comm.Label}
    (h : Comm.step n nh c l = some c') :
    c'.b.epoch = c.b.epoch ∨ ∃ r, l = .exit r ∧ c'.b.epoch = upd c.b.epoch r (c.b.epoch r + 1) := by
  have hB := (Comm.step_some h).2.2.1
  cases l <;> simp only [Comm.projB, Comm.bRun_single, BarrierME.run, BarrierME.step] at hB
  all_goals first
    | (rw [← Option.some.inj hB]; exact Or.inl rfl)
    | (split at hB
       · rw [← Option.some.inj hB]
         first
           | exact Or.inl rfl
           | exact Or.inr ⟨_, rfl, rfl⟩
       · cases hB)

theorem comm_epoch_mono {n : Nat} {nh : Nat → Nat → Nat} {c c' : Comm.St} {l : Comm.Label}
    (h : Comm.step n nh c l = some c') (q : Nat) : c.b.epoch q ≤ c'.b.epoch q := by
  rcases comm_epoch h with e | ⟨r, _, e⟩
  · rw [e]; exact Nat.le_refl _
  · rw [e]
    by_cases hq : q = r
    · subst hq; rw [upd_same]; exact Nat.le_succ _
    · rw [upd_other _ _ _ _ hq]; exact Nat.le_refl _

/-- a rank that waits inside `barrier()` with no handler running, no callback pending and nothing undelivered anywhere can
only move buffers, take part in reduction rounds, or leave the barrier: it issues nothing and executes nothing -/
theorem comm_quiet {n : Nat} {nh : Nat → Nat → Nat} {c c' : Comm.St} {l : Comm.Label}
    (h : Comm.step n nh c l = some c') (hin : c.b.inBar (commRank l) = true) (hbusy : c.b.busy (commRank l) = false)
    (hcbs : c.b.cbs (commRank l) = 0) (hund : c.b.und = 0) :
    Comm.issued l = [] ∧ DistComm.execRec l = [] ∧ c'.b.und = c.b.und ∧ c'.b.busy = c.b.busy ∧ c'.b.cbs = c.b.cbs ∧
    ((c'.b.epoch = c.b.epoch ∧ c'.b.inBar = c.b.inBar) ∨
      ∃ r, l = .exit r ∧ c'.b.epoch = upd c.b.epoch r (c.b.epoch r + 1) ∧ c'.b.inBar = upd c.b.inBar r false) := by
  have hB := (Comm.step_some h).2.2.1
  have ok : ∀ b : BarrierME.Sys, some b = some c'.b → b.und = c.b.und → b.busy = c.b.busy → b.cbs = c.b.cbs →
      b.epoch = c.b.epoch → b.inBar = c.b.inBar →
      c'.b.und = c.b.und ∧ c'.b.busy = c.b.busy ∧ c'.b.cbs = c.b.cbs ∧
      ((c'.b.epoch = c.b.epoch ∧ c'.b.inBar = c.b.inBar) ∨
        ∃ r, l = .exit r ∧ c'.b.epoch = upd c.b.epoch r (c.b.epoch r + 1) ∧ c'.b.inBar = upd c.b.inBar r false) := by
    intro b hb h1 h2 h3 h4 h5
    rw [← Option.some.inj hb]
    exact ⟨h1, h2, h3, Or.inl ⟨h4, h5⟩⟩
  cases l with
  | async r uid dest direct =>
    simp only [commRank] at hin hbusy
    simp only [Comm.projB, Comm.bRun_single, BarrierME.step] at hB
    split at hB
    · rename_i hc
      exfalso
      rcases hc.2 with h1 | h1
      · rw [hin] at h1; cases h1
      · rw [hbusy] at h1; cases h1
    · cases hB
  | regcb r =>
    simp only [commRank] at hin hbusy
    simp only [Comm.projB, Comm.bRun_single, BarrierME.step] at hB
    split at hB
    · rename_i hc
      exfalso
      rcases hc.2 with h1 | h1
      · rw [hin] at h1; cases h1
      · rw [hbusy] at h1; cases h1
    · cases hB
  | runcb r msgs j =>
    simp only [commRank] at hcbs
    simp only [Comm.projB, Comm.bRun_single, BarrierME.step] at hB
    split at hB
    · rename_i hc
      exfalso
      have := hc.2.1
      omega
    · cases hB
  | execBegin r uid =>
    simp only [Comm.projB, Comm.bRun_single, BarrierME.step] at hB
    split at hB
    · rename_i hc
      exfalso
      have := hc.2.1
      omega
    · cases hB
  | execEnd r uid =>
    simp only [commRank] at hbusy
    simp only [Comm.projB, Comm.bRun_single, BarrierME.step] at hB
    split at hB
    · rename_i hc
      exfalso
      have := hc.2
      rw [hbusy] at this; cases this
    · cases hB
  | enter r =>
    simp only [commRank] at hin
    simp only [Comm.projB, Comm.bRun_single, BarrierME.step] at hB
    split at hB
    · rename_i hc
      exfalso
      have := hc.2.1
      rw [hin] at this; cases this
    · cases hB
  | isend r hop =>
    simp only [Comm.projB, BarrierME.run] at hB
    exact ⟨rfl, rfl, ok _ hB rfl rfl rfl rfl rfl⟩
  | recvBegin r src seq =>
    simp only [Comm.projB, BarrierME.run] at hB
    exact ⟨rfl, rfl, ok _ hB rfl rfl rfl rfl rfl⟩
  | fwd r uid =>
    simp only [Comm.projB, BarrierME.run] at hB
    exact ⟨rfl, rfl, ok _ hB rfl rfl rfl rfl rfl⟩
  | recvEnd r =>
    simp only [Comm.projB, BarrierME.run] at hB
    exact ⟨rfl, rfl, ok _ hB rfl rfl rfl rfl rfl⟩
  | contribute r =>
    simp only [Comm.projB, Comm.bRun_single, BarrierME.step] at hB
    split at hB
    · exact ⟨rfl, rfl, ok _ hB rfl rfl rfl rfl rfl⟩
    · cases hB
  | result r =>
    simp only [Comm.projB, Comm.bRun_single, BarrierME.step] at hB
    split at hB
    · exact ⟨rfl, rfl, ok _ hB rfl rfl rfl rfl rfl⟩
    · cases hB
  | exit r =>
    simp only [Comm.projB, Comm.bRun_single, BarrierME.step] at hB
    split at hB
    · rw [← Option.some.inj hB]
      exact ⟨rfl, rfl, rfl, rfl, rfl, Or.inr ⟨r, rfl, rfl, rfl⟩⟩
    · cases hB

/-! ## inversion of the joint step -/

section Inv
variable {σ Op Cb : Type}

theorem step_comm {P : Par σ Op Cb} {S S' : St σ} {l0 : Comm.Label} (h : step P S (.comm l0) = some S') :
    commRank l0 < P.n ∧ frozen P S (commRank l0) = false ∧ Comm.step P.n P.nh S.c l0 = some S'.c ∧
    S'.done = S.done ∧ S'.cfIn = S.cfIn ∧ S'.cfOut = S.cfOut ∧ S'.mem = memAfter P S.mem l0 ∧
    S'.pre = (if returned P S (commRank l0) then S.pre else S.pre ++ Comm.issued l0) ∧
    S'.late = (if returned P S (commRank l0) then S.late ++ Comm.issued l0 else S.late) ∧
    S'.execPre = S.execPre ++ (DistComm.execRec l0).filter (fun p => !S.done p.1) ∧
    S'.execPost = S.execPost ++ (DistComm.execRec l0).filter (fun p => S.done p.1) := by
  unfold step at h
  split at h
  · rename_i hg
    simp only [guard, Bool.and_eq_true, decide_eq_true_eq, Bool.not_eq_true'] at hg
    simp only at h
    cases hc : Comm.step P.n P.nh S.c l0 with
    | none => rw [hc] at h; cases h
    | some c' =>
      rw [hc] at h
      simp only [Option.some.injEq] at h
      subst h
      exact ⟨hg.1, hg.2, rfl, rfl, rfl, rfl, rfl, rfl, rfl, rfl, rfl⟩
  · cases h

theorem step_localStep {P : Par σ Op Cb} {S S' : St σ} {r : Nat} (h : step P S (.localStep r) = some S') :
    r < P.n ∧ P.E < S.c.b.epoch r ∧ S.done r = false ∧ S.c.b.busy r = false ∧
    S' = { S with done := upd S.done r true, mem := upd S.mem r (P.loc r (S.mem r)) } := by
  unfold step at h
  split at h
  · rename_i hg
    simp only [guard, Bool.and_eq_true, decide_eq_true_eq, Bool.not_eq_true'] at hg
    simp only [Option.some.injEq] at h
    exact ⟨hg.1.1.1, hg.1.1.2, hg.1.2, hg.2, h.symm⟩
  · cases h

theorem step_cfEnter {P : Par σ Op Cb} {S S' : St σ} {r : Nat} (h : step P S (.cfEnter r) = some S') :
    P.repaired = true ∧ r < P.n ∧ S.done r = true ∧ S' = { S with cfIn := upd S.cfIn r true } := by
  unfold step at h
  split at h
  · rename_i hg
    simp only [guard, Bool.and_eq_true, decide_eq_true_eq, Bool.not_eq_true'] at hg
    simp only [Option.some.injEq] at h
    exact ⟨hg.1.1.1, hg.1.1.2, hg.1.2, h.symm⟩
  · cases h

theorem step_cfExit {P : Par σ Op Cb} {S S' : St σ} {r : Nat} (h : step P S (.cfExit r) = some S') :
    P.repaired = true ∧ r < P.n ∧ S.cfIn r = true ∧ (∀ q, q < P.n → S.cfIn q = true) ∧
    S' = { S with cfOut := upd S.cfOut r true } := by
  unfold step at h
  split at h
  · rename_i hg
    simp only [guard, Bool.and_eq_true, decide_eq_true_eq, Bool.not_eq_true', List.all_eq_true, List.mem_range] at hg
    simp only [Option.some.injEq] at h
    exact ⟨hg.1.1.1.1, hg.1.1.1.2, hg.1.1.2, hg.2, h.symm⟩
  · cases h

/-! ## invariants of both variants -/

theorem opsOn_append (P : Par σ Op Cb) (L1 L2 : List (Nat × Nat)) (q : Nat) :
    opsOn P (L1 ++ L2) q = opsOn P L1 q ++ opsOn P L2 q := by
  simp [opsOn, List.filter_append]

theorem opsOn_nil (P : Par σ Op Cb) (q : Nat) : opsOn P [] q = [] := rfl

theorem opsOn_single (P : Par σ Op Cb) (x u q : Nat) :
    opsOn P [(x, u)] q = if x = q then [P.opOf u] else [] := by
  by_cases h : x = q <;> simp [opsOn, h]

theorem fold_append (P : Par σ Op Cb) (s : σ) (a b : List Op) : fold P s (a ++ b) = fold P (fold P s a) b := by
  simp [fold, List.foldl_append]

structure BInv (P : Par σ Op Cb) (S : St σ) : Prop where
  reach : ∃ ls, Comm.run P.n P.nh Comm.init ls = some S.c ∧ (ls.flatMap Comm.issued).Perm (S.pre ++ S.late)
  doneEpoch : ∀ r, S.done r = true → P.E < S.c.b.epoch r
  cfInDone : ∀ r, S.cfIn r = true → S.done r = true
  cfOutAll : ∀ r, S.cfOut r = true → S.cfIn r = true ∧ ∀ q, q < P.n → S.cfIn q = true
  exec : S.c.d.executed.Perm (S.execPre ++ S.execPost)
  postDone : ∀ x ∈ S.execPost, S.done x.1 = true
  memFold : ∀ q, S.mem q = fold P (base P S q) (opsOn P S.execPost q)

theorem binv_init (P : Par σ Op Cb) : BInv P (init P) where
  reach := ⟨[], rfl, List.Perm.refl _⟩
  doneEpoch := fun _ h => by cases h
  cfInDone := fun _ h => by cases h
  cfOutAll := fun _ h => by cases h
  exec := List.Perm.refl _
  postDone := fun _ h => by cases h
  memFold := fun _ => rfl

theorem opsOn_post_nil {P : Par σ Op Cb} {S : St σ} (hi : BInv P S) {q : Nat} (hq : S.done q = false) :
    opsOn P S.execPost q = [] := by
  unfold opsOn
  rw [List.filter_eq_nil_iff.2]
  · rfl
  · intro x hx hxq
    have := hi.postDone x hx
    rw [beq_iff_eq] at hxq
    rw [hxq, hq] at this
    cases this

theorem execRec_cases (l0 : Comm.Label) : (∃ q u, l0 = .execEnd q u) ∨ DistComm.execRec l0 = [] := by
  cases l0 <;> first | exact Or.inr rfl | exact Or.inl ⟨_, _, rfl⟩

/-- the memory formula survives a handler execution -/
theorem mem_execEnd {P : Par σ Op Cb} {S : St σ} (hi : BInv P S) (q u x : Nat) :
    upd S.mem q (P.cont.apply (S.mem q) (P.opOf u)).1 x =
      fold P
        (if S.done x = true then
          P.loc x (fold P (P.g x) (opsOn P (S.execPre ++ [(q, u)].filter (fun p => !S.done p.1)) x))
         else fold P (P.g x) (opsOn P (S.execPre ++ [(q, u)].filter (fun p => !S.done p.1)) x))
        (opsOn P (S.execPost ++ [(q, u)].filter (fun p => S.done p.1)) x) := by
  have hm := hi.memFold x
  unfold base at hm
  by_cases hxq : x = q
  · subst hxq
    rw [upd_same]
    cases hd : S.done x with
    | true =>
      have f1 : [(x, u)].filter (fun p => !S.done p.1) = [] := by simp [hd]
      have f2 : [(x, u)].filter (fun p => S.done p.1) = [(x, u)] := by simp [hd]
      rw [f1, f2, List.append_nil, opsOn_append, opsOn_single, fold_append]
      rw [hd] at hm
      simp only [↓reduceIte] at hm ⊢
      rw [← hm]; rfl
    | false =>
      have f1 : [(x, u)].filter (fun p => !S.done p.1) = [(x, u)] := by simp [hd]
      have f2 : [(x, u)].filter (fun p => S.done p.1) = [] := by simp [hd]
      have h0 := opsOn_post_nil hi hd
      rw [f1, f2, List.append_nil, h0, opsOn_append, opsOn_single, fold_append]
      rw [hd, h0] at hm
      simp only [Bool.false_eq_true, ↓reduceIte] at hm ⊢
      rw [hm]; rfl
  · rw [upd_other _ _ _ _ hxq]
    have hqx : ¬ q = x := fun e => hxq e.symm
    have g1 : opsOn P (S.execPre ++ [(q, u)].filter (fun p => !S.done p.1)) x = opsOn P S.execPre x := by
      rw [opsOn_append]
      cases hd : S.done q <;> simp [opsOn, hd, hqx]
    have g2 : opsOn P (S.execPost ++ [(q, u)].filter (fun p => S.done p.1)) x = opsOn P S.execPost x := by
      rw [opsOn_append]
      cases hd : S.done q <;> simp [opsOn, hd, hqx]
    rw [g1, g2]; exact hm

theorem memAfter_nil {P : Par σ Op Cb} {m : Nat → σ} {l0 : Comm.Label} (h : DistComm.execRec l0 = []) :
    memAfter P m l0 = m := by
  unfold memAfter; rw [h]; rfl

theorem step_binv {P : Par σ Op Cb} {S S' : St σ} {l : Label} (hi : BInv P S) (h : step P S l = some S') :
    BInv P S' := by
  cases l with
  | comm l0 =>
    obtain ⟨hrn, hfr, hc, e1, e2, e3, e4, e5, e6, e7, e8⟩ := step_comm h
    obtain ⟨ls, hrun, hperm⟩ := hi.reach
    refine ⟨⟨ls ++ [l0], Comm.run_append ls [l0] hrun (by simp [Comm.run, hc]), ?_⟩, ?_, ?_, ?_, ?_, ?_, ?_⟩
    · rw [List.flatMap_append, List.flatMap_singleton, e5, e6]
      cases returned P S (commRank l0) with
      | true =>
        simp only [if_true]
        rw [← List.append_assoc]
        exact List.Perm.append_right _ hperm
      | false =>
        simp only [Bool.false_eq_true, if_false]
        refine (List.Perm.append_right _ hperm).trans ?_
        rw [List.append_assoc, List.append_assoc]
        exact List.Perm.append_left _ List.perm_append_comm
    · intro r hr
      rw [e1] at hr
      exact Nat.lt_of_lt_of_le (hi.doneEpoch r hr) (comm_epoch_mono hc r)
    · intro r hr; rw [e2] at hr; rw [e1]; exact hi.cfInDone r hr
    · intro r hr; rw [e3] at hr; rw [e2]; exact hi.cfOutAll r hr
    · rw [DistComm.step_executed hc, e7, e8]
      rcases execRec_cases l0 with ⟨q, u, rfl⟩ | hnil
      · simp only [DistComm.execRec]
        cases hd : S.done q with
        | true =>
          have f1 : [(q, u)].filter (fun p => !S.done p.1) = [] := by simp [hd]
          have f2 : [(q, u)].filter (fun p => S.done p.1) = [(q, u)] := by simp [hd]
          rw [f1, f2, List.append_nil, ← List.append_assoc]
          exact List.Perm.append_right _ hi.exec
        | false =>
          have f1 : [(q, u)].filter (fun p => !S.done p.1) = [(q, u)] := by simp [hd]
          have f2 : [(q, u)].filter (fun p => S.done p.1) = [] := by simp [hd]
          rw [f1, f2, List.append_nil]
          refine (List.Perm.append_right _ hi.exec).trans ?_
          rw [List.append_assoc, List.append_assoc]
          exact List.Perm.append_left _ List.perm_append_comm
      · rw [hnil]; simpa using hi.exec
    · intro x hx
      rw [e8, List.mem_append] at hx
      rw [e1]
      rcases hx with hx | hx
      · exact hi.postDone x hx
      · exact (List.mem_filter.1 hx).2
    · intro x
      unfold base
      rw [e4, e7, e8, e1]
      rcases execRec_cases l0 with ⟨q, u, rfl⟩ | hnil
      · exact mem_execEnd hi q u x
      · rw [memAfter_nil hnil, hnil]
        simp only [List.filter_nil, List.append_nil]
        exact hi.memFold x
  | localStep r =>
    obtain ⟨hrn, hep, hnd, _, rfl⟩ := step_localStep h
    refine ⟨hi.reach, ?_, ?_, hi.cfOutAll, hi.exec, ?_, ?_⟩
    · intro q hq
      by_cases hqr : q = r
      · subst hqr; exact hep
      · simp only [upd_other _ _ _ _ hqr] at hq; exact hi.doneEpoch q hq
    · intro q hq
      by_cases hqr : q = r
      · subst hqr; simp [upd_same]
      · simp only [upd_other _ _ _ _ hqr]; exact hi.cfInDone q hq
    · intro x hx
      by_cases hqr : x.1 = r
      · simp [hqr, upd_same]
      · simp only [upd_other _ _ _ _ hqr]; exact hi.postDone x hx
    · intro q
      have hm := hi.memFold q
      unfold base at hm ⊢
      by_cases hqr : q = r
      · subst hqr
        have h0 := opsOn_post_nil hi hnd
        rw [h0, hnd] at hm
        simp only [Bool.false_eq_true, if_false] at hm
        simp only [upd_same, if_true, h0]
        rw [hm]; rfl
      · simp only [upd_other _ _ _ _ hqr]; exact hm
  | cfEnter r =>
    obtain ⟨_, hrn, hd, rfl⟩ := step_cfEnter h
    refine ⟨hi.reach, hi.doneEpoch, ?_, ?_, hi.exec, hi.postDone, hi.memFold⟩
    · intro q hq
      by_cases hqr : q = r
      · subst hqr; exact hd
      · simp only [upd_other _ _ _ _ hqr] at hq; exact hi.cfInDone q hq
    · intro q hq
      obtain ⟨a, b⟩ := hi.cfOutAll q hq
      refine ⟨?_, fun x hx => ?_⟩
      · by_cases hqr : q = r
        · subst hqr; simp [upd_same]
        · simp only [upd_other _ _ _ _ hqr]; exact a
      · by_cases hxr : x = r
        · subst hxr; simp [upd_same]
        · simp only [upd_other _ _ _ _ hxr]; exact b x hx
  | cfExit r =>
    obtain ⟨_, hrn, hin, hall, rfl⟩ := step_cfExit h
    refine ⟨hi.reach, hi.doneEpoch, hi.cfInDone, ?_, hi.exec, hi.postDone, hi.memFold⟩
    intro q hq
    by_cases hqr : q = r
    · subst hqr; exact ⟨hin, hall⟩
    · simp only [upd_other _ _ _ _ hqr] at hq; exact hi.cfOutAll q hq

theorem run_binv {P : Par σ Op Cb} {S S' : St σ} (ls : List Label) (hi : BInv P S) (h : run P S ls = some S') :
    BInv P S' := by
  induction ls generalizing S with
  | nil => simp only [run] at h; cases h; exact hi
  | cons l ls ih =>
    simp only [run] at h
    cases hst : step P S l with
    | none => rw [hst] at h; cases h
    | some S1 => rw [hst] at h; exact ih (step_binv hi hst) h

end Inv

/-! ## the repaired variant -/

section Repaired
variable {σ Op Cb : Type}

/-- every rank has entered the closing control-flow barrier -/
def allCfIn (P : Par σ Op Cb) (S : St σ) : Prop := ∀ q, q < P.n → S.cfIn q = true

/-- nothing undelivered, no handler running, no callback pending, and every rank that has not left barrier `E` is
inside it -/
def Quiet (P : Par σ Op Cb) (S : St σ) : Prop :=
  S.c.b.und = 0 ∧ ∀ q, q < P.n → S.c.b.busy q = false ∧ S.c.b.cbs q = 0 ∧
    (S.c.b.epoch q ≤ P.E → S.c.b.epoch q = P.E ∧ S.c.b.inBar q = true)

structure RInv (P : Par σ Op Cb) (S : St σ) : Prop where
  /-- an operation is issued after the collective returned only when every rank has done its local step -/
  lateAll : S.late ≠ [] → ∀ q, q < P.n → S.done q = true
  closed : ¬ opened P S → S.late = [] ∧ S.execPost = []
  /-- from the first return of barrier `E` until every rank is inside the control-flow barrier the communicator is
  silent -/
  window : opened P S → allCfIn P S ∨ Quiet P S
  /-- once barrier `E` has returned somewhere, the handlers executed before the local steps are exactly the operations
  issued before the collective, each once, on its destination -/
  preExec : opened P S → S.execPre.Perm (S.pre.map (fun m => (m.2.1, m.1)))

theorem rinv_init (P : Par σ Op Cb) : RInv P (init P) where
  lateAll := fun h => absurd rfl h
  closed := fun _ => ⟨rfl, rfl⟩
  window := fun ⟨r, _, hr⟩ => by simp [init, Comm.init, BarrierME.init] at hr
  preExec := fun ⟨r, _, hr⟩ => by simp [init, Comm.init, BarrierME.init] at hr

theorem opened_mono {P : Par σ Op Cb} {S S' : St σ} (h : ∀ q, S.c.b.epoch q ≤ S'.c.b.epoch q) :
    opened P S → opened P S' := fun ⟨r, hr, he⟩ => ⟨r, hr, Nat.lt_of_lt_of_le he (h r)⟩

theorem step_rinv {P : Par σ Op Cb} (hrep : P.repaired = true) {S S' : St σ} {l : Label} (hb : BInv P S)
    (hi : RInv P S) (h : step P S l = some S') : RInv P S' := by
  have hret : ∀ r, returned P S r = S.cfOut r := fun r => by simp [returned, hrep]
  cases l with
  | comm l0 =>
    obtain ⟨hrn, hfr, hc, e1, e2, e3, e4, e5, e6, e7, e8⟩ := step_comm h
    rw [hret] at e5 e6
    have hmono := comm_epoch_mono hc
    -- a returned issuer: every rank has done its local step
    have z1 : S.cfOut (commRank l0) = true → ∀ q, q < P.n → S.done q = true := fun hco q hq =>
      hb.cfInDone q ((hb.cfOutAll _ hco).2 q hq)
    have z2 : S.cfOut (commRank l0) = false → S.c.b.epoch (commRank l0) ≤ P.E := by
      intro hco
      simp only [frozen, hret, hco, Bool.not_false, Bool.and_true, decide_eq_false_iff_not] at hfr
      omega
    have z3 : ∀ x ∈ DistComm.execRec l0, x.1 < P.n := by
      intro x hx
      rcases execRec_cases l0 with ⟨q, u, rfl⟩ | hnil
      · simp only [DistComm.execRec, List.mem_singleton] at hx; subst hx; exact hrn
      · rw [hnil] at hx; cases hx
    have hlate : S'.late ≠ [] → ∀ q, q < P.n → S'.done q = true := by
      intro hne q hq
      rw [e1]
      cases hco : S.cfOut (commRank l0) with
      | true => exact z1 hco q hq
      | false =>
        rw [e6, hco] at hne
        simp only [Bool.false_eq_true, if_false] at hne
        exact hi.lateAll hne q hq
    by_cases hop : opened P S
    · -- barrier E has already returned somewhere
      have hop' : opened P S' := opened_mono hmono hop
      by_cases hall : allCfIn P S
      · have hdone : ∀ q, q < P.n → S.done q = true := fun q hq => hb.cfInDone q (hall q hq)
        have hpre : S'.pre = S.pre := by
          rw [e5]
          cases hco : S.cfOut (commRank l0) with
          | true => rfl
          | false =>
            exfalso
            have := hb.doneEpoch _ (hdone _ hrn)
            have := z2 hco
            omega
        have hexec : S'.execPre = S.execPre := by
          rw [e7]
          have : (DistComm.execRec l0).filter (fun p => !S.done p.1) = [] := by
            apply List.filter_eq_nil_iff.2
            intro x hx
            simp [hdone x.1 (z3 x hx)]
          rw [this, List.append_nil]
        exact ⟨hlate, fun hn => absurd hop' hn, fun _ => Or.inl (fun q hq => by rw [e2]; exact hall q hq),
          fun _ => by rw [hpre, hexec]; exact hi.preExec hop⟩
      · have hq : Quiet P S := by
          rcases hi.window hop with h1 | h1
          · exact absurd h1 hall
          · exact h1
        have hco : S.cfOut (commRank l0) = false := by
          cases hco : S.cfOut (commRank l0) with
          | false => rfl
          | true => exact absurd (hb.cfOutAll _ hco).2 hall
        obtain ⟨hu, hqq⟩ := hq
        obtain ⟨hbz, hcz, hez⟩ := hqq _ hrn
        obtain ⟨hee, hin⟩ := hez (z2 hco)
        obtain ⟨i1, i2, i3, i4, i5, i6⟩ := comm_quiet hc hin hbz hcz hu
        have hpre : S'.pre = S.pre := by rw [e5, hco, i1]; simp
        have hlt : S'.late = S.late := by rw [e6, hco]; simp
        have hexec : S'.execPre = S.execPre := by rw [e7, i2]; simp
        refine ⟨hlate, fun hn => absurd hop' hn, fun _ => Or.inr ⟨by rw [i3]; exact hu, ?_⟩,
          fun _ => by rw [hpre, hexec]; exact hi.preExec hop⟩
        intro q hq
        obtain ⟨a, b, c⟩ := hqq q hq
        rw [i4, i5]
        refine ⟨a, b, ?_⟩
        rcases i6 with ⟨j1, j2⟩ | ⟨r0, _, j1, j2⟩
        · rw [j1, j2]; exact c
        · rw [j1, j2]
          by_cases hqr : q = r0
          · subst hqr
            rw [upd_same]
            intro hle
            have := (hqq q hq).2.2
            omega
          · rw [upd_other _ _ _ _ hqr, upd_other _ _ _ _ hqr]; exact c
    · -- nobody has left barrier E yet
      obtain ⟨hl0, hp0⟩ := hi.closed hop
      have hnd : ∀ q, q < P.n → S.done q = false := by
        intro q hq
        cases hd : S.done q with
        | false => rfl
        | true => exact absurd ⟨q, hq, hb.doneEpoch q hd⟩ hop
      have hco : S.cfOut (commRank l0) = false := by
        cases hco : S.cfOut (commRank l0) with
        | false => rfl
        | true =>
          have := hb.cfInDone _ (hb.cfOutAll _ hco).1
          rw [hnd _ hrn] at this; cases this
      have hlt : S'.late = [] := by rw [e6, hco, hl0]; simp
      have hpost : S'.execPost = [] := by
        rw [e8, hp0]
        have : (DistComm.execRec l0).filter (fun p => S.done p.1) = [] := by
          apply List.filter_eq_nil_iff.2
          intro x hx
          simp [hnd x.1 (z3 x hx)]
        rw [this]; rfl
      by_cases hop' : opened P S'
      · -- this step is the FIRST return of barrier E
        obtain ⟨w, hw, hwe⟩ := hop'
        rcases comm_epoch hc with he | ⟨r0, rfl, he⟩
        · rw [he] at hwe; exact absurd ⟨w, hw, hwe⟩ hop
        · have hwr : w = r0 := by
            by_cases hwr : w = r0
            · exact hwr
            · rw [he, upd_other _ _ _ _ hwr] at hwe; exact absurd ⟨w, hw, hwe⟩ hop
          subst hwr
          rw [he, upd_same] at hwe
          have hle : ∀ q, q < P.n → S.c.b.epoch q ≤ P.E := fun q hq => by
            have : ¬ P.E < S.c.b.epoch q := fun hh => hop ⟨q, hq, hh⟩
            omega
          have hwE : S.c.b.epoch w = P.E := by have := hle w hw; omega
          have hne : ∀ q, q < P.n → S.c.b.epoch q ≤ S.c.b.epoch w := fun q hq => by rw [hwE]; exact hle q hq
          obtain ⟨ls, hrun, hperm⟩ := hb.reach
          have hex := (Comm.C02C01_first_exit_step P.n P.nh ls S.c S'.c w hrun hne hc).2
          have hbst : BarrierME.step P.n S.c.b (.exit w) = some S'.c.b := by
            have := (Comm.step_some hc).2.2.1
            simpa [Comm.projB, Comm.bRun_single] using this
          obtain ⟨hu, hqq⟩ := BarrierME.C02ME_first_exit_step_quiescent P.n S.c.b S'.c.b _ w
            (Comm.run_projB ls hrun) hne hbst
          obtain ⟨_, hin, hbz, hcz⟩ := hqq w hw
          obtain ⟨i1, i2, i3, i4, i5, i6⟩ := comm_quiet hc hin hbz hcz hu
          have hpre : S'.pre = S.pre := by rw [e5, hco, i1]; simp
          have hexec : S'.execPre = S.execPre := by rw [e7, i2]; simp
          refine ⟨hlate, fun hn => absurd ⟨w, hw, by rw [he, upd_same]; exact hwe⟩ hn,
            fun _ => Or.inr ⟨by rw [i3]; exact hu, ?_⟩, fun _ => ?_⟩
          · intro q hq
            obtain ⟨a, b, c, d⟩ := hqq q hq
            rw [i4, i5]
            refine ⟨c, d, ?_⟩
            rcases i6 with ⟨j1, _⟩ | ⟨r1, hr1, j1, j2⟩
            · rw [j1] at he
              have := congrFun he w
              rw [upd_same] at this
              omega
            · cases hr1
              rw [j1, j2]
              by_cases hqr : q = w
              · subst hqr
                rw [upd_same]
                intro hh; omega
              · rw [upd_other _ _ _ _ hqr, upd_other _ _ _ _ hqr]
                intro _
                exact ⟨by rw [a, hwE], b⟩
          · rw [hpre, hexec]
            have h1 : S.execPre.Perm S.c.d.executed := by
              have := hb.exec
              rw [hp0, List.append_nil] at this
              exact this.symm
            have h2 : ((ls.flatMap Comm.issued).map (fun m => (m.2.1, m.1))).Perm
                (S.pre.map (fun m => (m.2.1, m.1))) := by
              have := hperm
              rw [hl0, List.append_nil] at this
              exact this.map _
            exact h1.trans (hex.trans h2)
      · exact ⟨hlate, fun _ => ⟨hlt, hpost⟩, fun ho => absurd ho hop', fun ho => absurd ho hop'⟩
  | localStep r =>
    obtain ⟨hrn, hep, hnd, _, rfl⟩ := step_localStep h
    refine ⟨?_, hi.closed, hi.window, hi.preExec⟩
    intro hne q hq
    by_cases hqr : q = r
    · subst hqr; simp [upd_same]
    · simp only [upd_other _ _ _ _ hqr]; exact hi.lateAll hne q hq
  | cfEnter r =>
    obtain ⟨_, hrn, hd, rfl⟩ := step_cfEnter h
    refine ⟨hi.lateAll, hi.closed, ?_, hi.preExec⟩
    intro ho
    rcases hi.window ho with h1 | h1
    · left
      intro q hq
      by_cases hqr : q = r
      · subst hqr; simp [upd_same]
      · simp only [upd_other _ _ _ _ hqr]; exact h1 q hq
    · exact Or.inr h1
  | cfExit r =>
    obtain ⟨_, hrn, hin, hall, rfl⟩ := step_cfExit h
    exact ⟨hi.lateAll, hi.closed, hi.window, hi.preExec⟩

theorem run_rinv {P : Par σ Op Cb} (hrep : P.repaired = true) {S S' : St σ} (ls : List Label) (hb : BInv P S)
    (hi : RInv P S) (h : run P S ls = some S') : RInv P S' := by
  induction ls generalizing S with
  | nil => simp only [run] at h; cases h; exact hi
  | cons l ls ih =>
    simp only [run] at h
    cases hst : step P S l with
    | none => rw [hst] at h; cases h
    | some S1 => rw [hst] at h; exact ih (step_binv hb hst) (step_rinv hrep hb hi hst) h

end Repaired

/-! ## (2) the positive theorem -/

section Positive
variable {σ Op Cb : Type}

/-- every message is issued once: the uids of the operations issued before and after the collective are pairwise distinct -/
theorem uids_nodup {P : Par σ Op Cb} {S : St σ} (hb : BInv P S) : ((S.pre ++ S.late).map (·.1)).Nodup := by
  obtain ⟨ls, hrun, hperm⟩ := hb.reach
  have hk := Comm.C02C01_entries_are_the_asyncs P.n P.nh ls S.c hrun
  have hnd := (DistComm.reach_inv hrun).1.nodup
  have : (S.c.d.es.map Deliver.key).map (·.1) = S.c.d.es.map (·.uid) := by
    rw [List.map_map]; rfl
  rw [← this, hk] at hnd
  exact (hperm.map _).nodup_iff.1 hnd

/-- **the repaired protocol linearises the collective** (`clear` / `swap` / `serialize` / `deserialize` with the closing
control-flow barrier; every number of ranks, every routing function, every interleaving accepted by `Comm`, operations
issued by main programs, handlers and callbacks, any number of barriers before and after).  In every reachable state:

1. an operation is issued after the collective returned on its issuer only when EVERY rank has done its local step;
2. hence no operation issued after the collective returned on its issuer has been executed on any rank before that
   rank's local step (`execPre` and `late` share no uid);
3. once barrier `E` has returned on some rank, the handlers executed before the local steps are — as a multiset of
   (rank, uid) — exactly the operations issued before the collective, each executed once, on its destination: the local
   step of every rank sees all of them;
4. every handler executed on a rank after its local step belongs to an operation issued after the collective returned on
   its issuer, and ran on that operation's destination;
5. the memory of every rank is (the local mutation applied to the fold of the operations executed before it) followed by
   the fold of the operations executed after it — by 2–4: of exactly the earlier operations addressed to the rank,
   then of later ones only. -/
theorem repaired_linearises (P : Par σ Op Cb) (hrep : P.repaired = true) (ls : List Label) (S : St σ)
    (hrun : run P (init P) ls = some S) :
    (S.late ≠ [] → ∀ q, q < P.n → S.done q = true) ∧
    (∀ x ∈ S.execPre, ∀ m ∈ S.late, x.2 ≠ m.1) ∧
    (opened P S → S.execPre.Perm (S.pre.map (fun m => (m.2.1, m.1)))) ∧
    (∀ x ∈ S.execPost, ∃ m ∈ S.late, m.1 = x.2 ∧ m.2.1 = x.1) ∧
    (∀ q, S.mem q =
      fold P (if S.done q then P.loc q (fold P (P.g q) (opsOn P S.execPre q)) else fold P (P.g q) (opsOn P S.execPre q))
        (opsOn P S.execPost q)) := by
  have hb := run_binv ls (binv_init P) hrun
  have hi := run_rinv hrep ls (binv_init P) (rinv_init P) hrun
  have hnd := uids_nodup hb
  rw [List.map_append] at hnd
  have hdis := (List.nodup_append.1 hnd).2.2
  have h2 : ∀ x ∈ S.execPre, ∀ m ∈ S.late, x.2 ≠ m.1 := by
    intro x hx m hm
    by_cases hop : opened P S
    · have := (hi.preExec hop).mem_iff.1 hx
      obtain ⟨m0, hm0, rfl⟩ := List.mem_map.1 this
      exact hdis m0.1 (List.mem_map.2 ⟨m0, hm0, rfl⟩) m.1 (List.mem_map.2 ⟨m, hm, rfl⟩)
    · rw [(hi.closed hop).1] at hm; cases hm
  refine ⟨hi.lateAll, h2, hi.preExec, ?_, fun q => hb.memFold q⟩
  intro x hx
  have hop : opened P S := by
    by_cases hop : opened P S
    · exact hop
    · rw [(hi.closed hop).2] at hx; cases hx
  obtain ⟨ls', hrun', hperm⟩ := hb.reach
  have hxe : x ∈ S.c.d.executed := hb.exec.mem_iff.2 (List.mem_append_right _ hx)
  obtain ⟨e, he, hu, hd⟩ := Deliver.C01_exec_at_dest P.n P.nh _ S.c.d (Comm.run_projD ls' hrun') x.1 x.2 hxe
  have hk := Comm.C02C01_entries_are_the_asyncs P.n P.nh ls' S.c hrun'
  have hmem : Deliver.key e ∈ S.pre ++ S.late := by
    apply hperm.mem_iff.1
    rw [← hk]
    exact List.mem_map.2 ⟨e, he, rfl⟩
  rcases List.mem_append.1 hmem with hp | hl
  · exfalso
    have h1 : x ∈ S.execPre := by
      apply (hi.preExec hop).mem_iff.2
      refine List.mem_map.2 ⟨Deliver.key e, hp, ?_⟩
      show (e.dest, e.uid) = x
      rw [hu, hd]
    have hnd2 : (S.execPre ++ S.execPost).Nodup := hb.exec.nodup_iff.1 (DistComm.reach_inv hrun').1.execNodup
    exact (List.nodup_append.1 hnd2).2.2 x h1 x hx rfl
  · exact ⟨Deliver.key e, hl, hu, hd⟩

/-- `clear()` in the repaired tree: a rank that has cleared holds exactly the fold, from the empty container, of operations
issued after `clear()` had returned on their issuer -/
theorem clear_linearised (P : Par σ Op Cb) (hrep : P.repaired = true) (empty : σ) (hloc : ∀ q s, P.loc q s = empty)
    (ls : List Label) (S : St σ) (hrun : run P (init P) ls = some S) (q : Nat) (hq : S.done q = true) :
    S.mem q = fold P empty (opsOn P S.execPost q) ∧ ∀ x ∈ S.execPost, ∃ m ∈ S.late, m.1 = x.2 ∧ m.2.1 = x.1 := by
  obtain ⟨_, _, _, h4, h5⟩ := repaired_linearises P hrep ls S hrun
  refine ⟨?_, h4⟩
  rw [h5 q, hq]
  simp only [if_true, hloc]

end Positive

/-! ## (4) non-vacuity of the positive theorem, and the other collectives as instances of the same local step -/

section Examples

/-- the repaired `clear()`: both ranks leave the barrier, clear, enter the control-flow barrier; rank 0 leaves it and
inserts 9 at rank 1 while rank 1 is still inside it — the message waits on the wire until rank 1 is out -/
def repairedRun : List Label :=
  beforeExit ++
  [.comm (.exit 0), .localStep 0, .cfEnter 0, .comm (.exit 1), .localStep 1, .cfEnter 1, .cfExit 0,
   .comm (.async 0 2 1 false), .comm (.isend 0 1), .cfExit 1,
   .comm (.recvBegin 1 0 1), .comm (.execBegin 1 2), .comm (.execEnd 1 2), .comm (.recvEnd 1)]

set_option maxRecDepth 65536 in
/-- accepted; the insert issued before `clear()` was executed before rank 1's local step and wiped, the insert issued
after `clear()` returned was executed after it and survives -/
example :
    ((run (clearPar true) (init (clearPar true)) repairedRun).map (fun S => (S.pre, S.late, S.mem 1))) =
      some ([(1, 1, false)], [(2, 1, false)], [9]) ∧
    ((run (clearPar true) (init (clearPar true)) repairedRun).map (fun S => (S.execPre, S.execPost, S.done 1))) =
      some ([(1, 1)], [(1, 2)], true) := by
  refine ⟨?_, ?_⟩ <;> decide

set_option maxRecDepth 65536 in
/-- inside the control-flow barrier no handler starts: rank 1 cannot receive before its `cfExit` -/
example : (run (clearPar true) (init (clearPar true))
    (beforeExit ++ [.comm (.exit 0), .localStep 0, .cfEnter 0, .comm (.exit 1), .localStep 1, .cfEnter 1, .cfExit 0,
      .comm (.async 0 2 1 false), .comm (.isend 0 1), .comm (.recvBegin 1 0 1)])).isNone = true := by decide

/-- the theorem applied to that run -/
example (S : St (List Nat)) (hrun : run (clearPar true) (init (clearPar true)) repairedRun = some S)
    (hq : S.done 1 = true) : S.mem 1 = fold (clearPar true) [] (opsOn (clearPar true) S.execPost 1) :=
  (clear_linearised (clearPar true) rfl [] (fun _ _ => rfl) repairedRun S hrun 1 hq).1

/-- two bags A and B per rank; an operation says into which of them it inserts -/
def twoBags : Dist.Container (List Nat × List Nat) (Bool × Nat) Unit :=
  ⟨fun st op => (if op.1 then (st.1 ++ [op.2], st.2) else (st.1, st.2 ++ [op.2]), [], [])⟩

/-- `A.swap(B)`: the local step exchanges the two local bags; both inserts go into A -/
def swapPar (repaired : Bool) : Par (List Nat × List Nat) (Bool × Nat) Unit :=
  { n := 2, nh := fun _ d => d, E := 0, repaired := repaired, cont := twoBags,
    opOf := fun u => (true, demoOp u), loc := fun _ st => (st.2, st.1), g := fun _ => ([], []) }

set_option maxRecDepth 65536 in
/-- D13 (swap), same history as `old_protocol_admits_the_race`: with one barrier the insert into A issued after
`A.swap(B)` had returned on rank 0 ends up in B on rank 1; with the control-flow barrier it is in A -/
example :
    ((run (swapPar false) (init (swapPar false)) (beforeExit ++ race ++ [.comm (.exit 1), .localStep 1])).map
      (fun S => S.mem 1)) = some ([], [7, 9]) ∧
    ((run (swapPar true) (init (swapPar true)) repairedRun).map (fun S => S.mem 1)) = some ([9], [7]) := by
  refine ⟨?_, ?_⟩ <;> decide

/-- `serialize()` / `deserialize()`: the container of a rank together with its image file; the local step writes the
image (`serialize`) or loads it (`deserialize`) -/
def serPar (load repaired : Bool) : Par (List Nat × List Nat) (Bool × Nat) Unit :=
  { n := 2, nh := fun _ d => d, E := 0, repaired := repaired, cont := twoBags,
    opOf := fun u => (true, demoOp u),
    loc := fun _ st => if load then (st.2, st.2) else (st.1, st.1), g := fun _ => ([], [100]) }

set_option maxRecDepth 65536 in
/-- D14 / D15: with one barrier the insert issued after `serialize()` had returned appears in rank 1's image, and the
insert issued after `deserialize()` had returned is overwritten by rank 1's load; with the control-flow barrier the image
is [7] and the loaded container keeps the later insert -/
example :
    ((run (serPar false false) (init (serPar false false))
      (beforeExit ++ race ++ [.comm (.exit 1), .localStep 1])).map (fun S => S.mem 1)) = some ([7, 9], [7, 9]) ∧
    ((run (serPar false true) (init (serPar false true)) repairedRun).map (fun S => S.mem 1)) = some ([7, 9], [7]) ∧
    ((run (serPar true false) (init (serPar true false))
      (beforeExit ++ race ++ [.comm (.exit 1), .localStep 1])).map (fun S => S.mem 1)) = some ([100], [100]) ∧
    ((run (serPar true true) (init (serPar true true)) repairedRun).map (fun S => S.mem 1)) =
      some ([100, 9], [100]) := by
  refine ⟨?_, ?_, ?_, ?_⟩ <;> decide

end Examples

end YgmVerif.Collective
