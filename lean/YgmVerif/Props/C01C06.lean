import YgmVerif.Lemmas.DeliverBytes
import YgmVerif.Props.C01
/-!
# C01 + C06 — every async executes exactly once, on its destination, WITH THE ARGUMENTS THAT WERE PASSED

Theorems about `YgmVerif.DeliverBytes.step/run`: `Deliver`'s message movement refined with the concrete
byte strings of `Wire` (send buffers built by `asyncAppend` / `queueAppend`, whole buffers sent, the
receive loop taking one message after the other off the front with `Wire.parseStep`, raw re-buffering with
`forwardCopy` at intermediate hops).  For every communicator size `n`, every next-hop function `nh`, both
values of the routing flag, every handler table `tbl` and every accepted history `ls` whose `async` calls
satisfy `Wire.MsgOk` (the hypotheses C06 already has: lambda id < 2^16, body < 2^32 bytes, destination
< 2^31, arguments `HasTy` the types the registered handler reads).

`C01` says WHICH handler runs WHERE, HOW OFTEN; `C06` says one buffer parses back into what was packed;
here the two are one statement about one machine: what a handler is handed — read by `Wire.des` from
bytes that were packed next to arbitrary neighbours and copied through arbitrarily many hops — is what
the `async` call named by the same uid passed.
-/
namespace YgmVerif.DeliverBytes
open YgmVerif
open YgmVerif.Deliver (Loc)

variable {n : Nat} {nh : Nat → Nat → Nat} {routed : Bool} {tbl : Wire.Table}

/-- what an `async` call is expected to become: one execution on its destination with its lambda id,
functor bytes and argument values -/
def Tag.asHandled (t : Tag) : Handled := ⟨t.msg.dest, t.uid, t.msg.lid, t.msg.fn, t.msg.args⟩

/-! ## simulation: the byte-level machine refines `Deliver` -/

/-- every accepted byte-level step is the corresponding `Deliver` step between the abstractions (under
NONE the next hop is the destination: `nhEff`) -/
theorem step_simulates (s s' : St) (l : Label) (h : step n nh routed tbl s l = some s') :
    Deliver.step n (nhEff routed nh) s.abs l.abs = some s'.abs := step_abs h

theorem run_simulates (ls : List Label) (s : St) (h : run n nh routed tbl St.init ls = some s) :
    Deliver.run n (nhEff routed nh) Deliver.St.init (ls.map Label.abs) = some s.abs := run_abs ls h

/-- the invariant behind everything below holds in every reachable state -/
theorem reachable_inv (ls : List Label) (ok : ∀ l ∈ ls, l.Ok tbl) (s : St)
    (h : run n nh routed tbl St.init ls = some s) : Inv routed tbl s :=
  inv_run ls (inv_init routed tbl) ok h

/-! ## (1) every byte string parses into exactly the messages `Deliver` says are there -/

/-- In every reachable state, for every location `l` that holds bytes (a send buffer, a physical message
in flight, the unread rest of a walk): the bytes are the concatenation of the encodings of the tags, in
order; whoever parses them (`me` arbitrary) gets exactly these messages, each with its own lambda id,
functor bytes and arguments (`Wire.view`); every tag is an issued `async` call; and the uids of the tags
are, up to order, the uids of the entries `Deliver` has at `l`. -/
theorem buffers_parse (ls : List Label) (ok : ∀ l ∈ ls, l.Ok tbl) (s : St)
    (h : run n nh routed tbl St.init ls = some s) (l : Loc) (hl : ∀ r, l ≠ .done r) (me : Int) :
    s.bytes l = Wire.encodeAll routed ((s.tags l).map (·.msg)) ∧
    Wire.parseBuffer routed tbl me (s.bytes l) = some ((s.tags l).map (fun t => Wire.view routed me t.msg)) ∧
    (∀ t ∈ s.tags l, t ∈ ls.flatMap newTags) ∧
    List.Perm ((s.tags l).map (·.uid)) (Deliver.uidsAt s.abs (fun e => e.loc == l)) := by
  have hi := reachable_inv ls ok s h
  have hiss : s.issued = ls.flatMap newTags := by simpa [St.init] using run_issued ls h
  refine ⟨hi.bytesOk l, ?_, ?_, tags_perm hi l hl⟩
  · rw [hi.bytesOk l]
    have := Wire.parseBuffer_encode routed tbl me ((s.tags l).map (·.msg)) (by
      intro m hm
      obtain ⟨t, ht, rfl⟩ := List.mem_map.1 hm
      exact hi.issuedOk t (hi.tagIssued l t ht))
    rw [this, List.map_map]; rfl
  · intro t ht; rw [← hiss]; exact hi.tagIssued l t ht

/-- the send buffer `m_vec_send_buffers[hop]` of rank `r`, parsed by the rank it will be sent to -/
theorem sendBuf_parses (ls : List Label) (ok : ∀ l ∈ ls, l.Ok tbl) (s : St)
    (h : run n nh routed tbl St.init ls = some s) (r hop : Nat) :
    Wire.parseBuffer routed tbl (hop : Int) (s.sendBuf r hop)
      = some ((s.tags (.inBuf r hop)).map (fun t => Wire.view routed (hop : Int) t.msg)) ∧
    List.Perm ((s.tags (.inBuf r hop)).map (·.uid)) (Deliver.uidsAt s.abs (Deliver.inBufOf r hop)) := by
  have := buffers_parse ls ok s h (.inBuf r hop) (by intro q h'; cases h') (hop : Int)
  exact ⟨this.2.1, this.2.2.2⟩

/-- a physical message in flight, parsed by its receiver -/
theorem inFlight_parses (ls : List Label) (ok : ∀ l ∈ ls, l.Ok tbl) (s : St)
    (h : run n nh routed tbl St.init ls = some s) (src dst seq : Nat) :
    Wire.parseBuffer routed tbl (dst : Int) (s.inFlight src dst seq)
      = some ((s.tags (.inWire src dst seq)).map (fun t => Wire.view routed (dst : Int) t.msg)) ∧
    List.Perm ((s.tags (.inWire src dst seq)).map (·.uid)) (Deliver.uidsAt s.abs (Deliver.inWireOf src dst seq)) := by
  have := buffers_parse ls ok s h (.inWire src dst seq) (by intro q h'; cases h') (dst : Int)
  exact ⟨this.2.1, this.2.2.2⟩

/-- the unread rest of the buffer rank `r` is walking -/
theorem walkRest_parses (ls : List Label) (ok : ∀ l ∈ ls, l.Ok tbl) (s : St)
    (h : run n nh routed tbl St.init ls = some s) (r : Nat) :
    Wire.parseBuffer routed tbl (r : Int) (s.walkRest r)
      = some ((s.tags (.inWalk r)).map (fun t => Wire.view routed (r : Int) t.msg)) ∧
    List.Perm ((s.tags (.inWalk r)).map (·.uid)) (Deliver.uidsAt s.abs (Deliver.inWalkOf r)) := by
  have := buffers_parse ls ok s h (.inWalk r) (by intro q h'; cases h') (r : Int)
  exact ⟨this.2.1, this.2.2.2⟩

/-! ## (2) MAIN: the handler is handed what was passed to `async` -/

/-- **one execution.**  Whenever, in a reachable state, the receive loop of rank `r` executes a handler
and the history says this is uid `uid`: there is exactly one `async` call with that uid; `r` is its
destination; and the record appended to `handled` — lambda id, functor bytes and argument values as
`Wire.parseStep` (hence `Wire.des`) READ THEM FROM THE BYTES of the walk — is that call's lambda id,
functor bytes and argument values. -/
theorem exec_step_receives_sent_arguments (ls : List Label) (ok : ∀ l ∈ ls, l.Ok tbl) (s : St)
    (h : run n nh routed tbl St.init ls = some s) (r uid : Nat) (s' : St)
    (hs : step n nh routed tbl s (.exec r uid) = some s') :
    ∃ t ∈ ls.flatMap newTags, t.uid = uid ∧ (∀ t' ∈ ls.flatMap newTags, t'.uid = uid → t' = t) ∧
      t.msg.dest = r ∧ s'.handled = s.handled ++ [t.asHandled] := by
  have hi := reachable_inv ls ok s h
  have hiss : s.issued = ls.flatMap newTags := by simpa [St.init] using run_issued ls h
  have hi' := inv_exec hi hs
  obtain ⟨d', t, ts, size, dest, lid, fn, args, rest, hd, hT, hps, hu, rfl⟩ := step_exec hs
  obtain ⟨t0, ht0, hm⟩ := hi'.handledArgs ⟨r, uid, lid, fn, args⟩ (List.mem_append_right _ (by simp))
  obtain ⟨h1, h2, h3, h4, h5⟩ := hm
  simp only at h1 h2 h3 h4 h5 ht0
  rw [← hiss]
  refine ⟨t0, ht0, h1, ?_, h2.symm, ?_⟩
  · intro t' ht' hu'
    exact issued_unique hi ht' ht0 (hu'.trans h1.symm)
  · simp only [Tag.asHandled, ← h1, ← h2, ← h3, ← h4, ← h5]

/-- **every execution of every history.**  Each handler execution recorded after an accepted history
belongs to exactly one `async` label of that history — same uid —, ran on that call's destination, and was
handed that call's lambda id, functor bytes and argument values, bit-exact: whatever was packed around
the message and however many hops re-buffered it. -/
theorem exec_receives_sent_arguments (ls : List Label) (ok : ∀ l ∈ ls, l.Ok tbl) (s : St)
    (h : run n nh routed tbl St.init ls = some s) (x : Handled) (hx : x ∈ s.handled) :
    ∃ r0 m, Label.async r0 x.uid m ∈ ls ∧
      (∀ r1 m1, Label.async r1 x.uid m1 ∈ ls → m1 = m) ∧
      x.rank = m.dest ∧ x.lid = m.lid ∧ x.fn = m.fn ∧ x.args = m.args := by
  have hi := reachable_inv ls ok s h
  have hiss : s.issued = ls.flatMap newTags := by simpa [St.init] using run_issued ls h
  obtain ⟨t, ht, hu, hr, hl, hf, ha⟩ := hi.handledArgs x hx
  have hmem : ∀ t' : Tag, t' ∈ s.issued ↔ ∃ r0, Label.async r0 t'.uid t'.msg ∈ ls := by
    intro t'
    rw [hiss, List.mem_flatMap]
    constructor
    · rintro ⟨l, hl, ht'⟩
      cases l with
      | async r0 u m => simp only [newTags, List.mem_singleton] at ht'; subst ht'; exact ⟨r0, hl⟩
      | _ => simp [newTags] at ht'
    · rintro ⟨r0, hl⟩
      exact ⟨_, hl, by simp [newTags]⟩
  obtain ⟨r0, hr0⟩ := (hmem t).1 ht
  refine ⟨r0, t.msg, by rw [← hu]; exact hr0, ?_, hr, hl, hf, ha⟩
  intro r1 m1 h1
  have h2 : (⟨x.uid, m1⟩ : Tag) ∈ s.issued := (hmem ⟨x.uid, m1⟩).2 ⟨r1, h1⟩
  have := issued_unique hi h2 ht hu.symm
  rw [← this]

/-! ## (3) no overlap: a handler consumes exactly its own bytes; a forward copies exactly its own bytes -/

/-- When a handler executes, the unread bytes of the walk are the encoding of ITS message followed by the
encodings of the messages behind it, and what is left after the handler is exactly the latter: not one
byte of a neighbour is consumed, none of its own is left over. -/
theorem no_overlap (ls : List Label) (ok : ∀ l ∈ ls, l.Ok tbl) (s : St)
    (h : run n nh routed tbl St.init ls = some s) (r uid : Nat) (s' : St)
    (hs : step n nh routed tbl s (.exec r uid) = some s') :
    ∃ t ts, s.tags (.inWalk r) = t :: ts ∧ t.uid = uid ∧ t ∈ ls.flatMap newTags ∧
      s.walkRest r = Wire.encodeMsg routed t.msg ++ s'.walkRest r ∧
      s'.walkRest r = Wire.encodeAll routed (ts.map (·.msg)) ∧
      s'.tags (.inWalk r) = ts := by
  have hi := reachable_inv ls ok s h
  have hiss : s.issued = ls.flatMap newTags := by simpa [St.init] using run_issued ls h
  obtain ⟨d', t, ts, size, dest, lid, fn, args, rest, hd, hT, hps, hu, rfl⟩ := step_exec hs
  have hti : t ∈ s.issued := hi.tagIssued _ t (by rw [hT]; exact List.mem_cons_self)
  obtain ⟨hb, hpf⟩ := parse_front (me := (r : Int)) hi.bytesOk hT (hi.issuedOk t hti)
  rw [hpf] at hps
  injection hps with hps
  injection hps with _ hrest
  subst hrest
  refine ⟨t, ts, hT, hu, by rw [← hiss]; exact hti, ?_, ?_, ?_⟩
  · simp only [St.walkRest, updL_same]; exact hb
  · simp only [St.walkRest, updL_same]
  · simp only [updL_same]

/-- At an intermediate hop the message at the front of the walk is re-buffered byte for byte: the send
buffer of the next hop (`nh r dest`, `dest` = the destination the `async` call named) grows by exactly
the encoding of that message, and the walk continues exactly behind it. -/
theorem forward_copies_own_bytes (ls : List Label) (ok : ∀ l ∈ ls, l.Ok tbl) (s : St)
    (h : run n nh routed tbl St.init ls = some s) (r uid : Nat) (s' : St)
    (hs : step n nh routed tbl s (.fwd r uid) = some s') :
    ∃ t ts, s.tags (.inWalk r) = t :: ts ∧ t.uid = uid ∧ t ∈ ls.flatMap newTags ∧
      routed = true ∧ t.msg.dest ≠ r ∧
      s.walkRest r = Wire.encodeMsg routed t.msg ++ s'.walkRest r ∧
      s'.walkRest r = Wire.encodeAll routed (ts.map (·.msg)) ∧
      s'.sendBuf r (nh r t.msg.dest) = s.sendBuf r (nh r t.msg.dest) ++ Wire.encodeMsg routed t.msg := by
  have hi := reachable_inv ls ok s h
  have hiss : s.issued = ls.flatMap newTags := by simpa [St.init] using run_issued ls h
  obtain ⟨d', t, ts, size, dest, payload, rest, hd, hT, hps, hu, rfl⟩ := step_fwd hs
  have hti : t ∈ s.issued := hi.tagIssued _ t (by rw [hT]; exact List.mem_cons_self)
  obtain ⟨hb, hpf⟩ := parse_front (me := (r : Int)) hi.bytesOk hT (hi.issuedOk t hti)
  rw [hpf] at hps
  injection hps with hps
  injection hps with hview hrest
  subst hrest
  obtain ⟨hrt, hbc, hne, rfl, rfl, rfl⟩ := view_fwd hview
  subst hrt
  have hto : ((t.msg.dest : Int)).toNat = t.msg.dest := Int.toNat_natCast _
  have hnw : Loc.inWalk r ≠ Loc.inBuf r (nhEff true nh r t.msg.dest) := by intro h'; cases h'
  refine ⟨t, ts, hT, hu, by rw [← hiss]; exact hti, rfl, by omega, ?_, ?_, ?_⟩
  · simp only [St.walkRest, hto, updL_other _ _ hnw, updL_same]; exact hb
  · simp only [St.walkRest, hto, updL_other _ _ hnw, updL_same]
  · simp only [St.sendBuf, hto]
    have : nhEff true nh r t.msg.dest = nh r t.msg.dest := rfl
    rw [this, updL_same]
    exact forwardCopy_eq _ _ hbc

/-! ## C01's theorems, transferred along the simulation, about the byte-level executions -/

/-- no loss, no duplication, no invention (C01_entries_are_the_asyncs) -/
theorem entries_are_the_asyncs (ls : List Label) (s : St) (h : run n nh routed tbl St.init ls = some s) :
    s.abs.es.map Deliver.key = ls.flatMap (fun l => Deliver.newKeys l.abs) := by
  have := Deliver.C01_entries_are_the_asyncs n (nhEff routed nh) _ _ (run_simulates ls s h)
  rw [this, List.flatMap_map]

/-- the handler executions of the byte-level machine are the executions `Deliver` records -/
theorem handled_is_executed (ls : List Label) (ok : ∀ l ∈ ls, l.Ok tbl) (s : St)
    (h : run n nh routed tbl St.init ls = some s) :
    s.handled.map (fun x => (x.rank, x.uid)) = s.abs.executed :=
  (reachable_inv ls ok s h).handledExec

/-- at most once (C01_at_most_once): no uid is handed to a handler twice, on any ranks, at any time -/
theorem handled_at_most_once (ls : List Label) (ok : ∀ l ∈ ls, l.Ok tbl) (s : St)
    (h : run n nh routed tbl St.init ls = some s) : (s.handled.map (·.uid)).Nodup := by
  have h1 := Deliver.C01_at_most_once n (nhEff routed nh) _ _ (run_simulates ls s h)
  rw [← handled_is_executed ls ok s h, List.map_map] at h1
  exact h1

/-- **exactly once, on the destination, with the arguments that were passed.**  When nothing is left in
any buffer, on the wire or in a walk (the state `barrier()` waits for — C02), the list of handler
executions — rank, uid, lambda id, functor bytes, argument values as read from the bytes — is a
permutation of the list of `async` calls of the history, each turned into "on its destination, with its
lambda id, its functor bytes, its argument values". -/
theorem exactly_once_bit_exact (ls : List Label) (ok : ∀ l ∈ ls, l.Ok tbl) (s : St)
    (h : run n nh routed tbl St.init ls = some s) (hq : Deliver.quiescent s.abs = true) :
    List.Perm s.handled ((ls.flatMap newTags).map Tag.asHandled) := by
  have hi := reachable_inv ls ok s h
  have hiss : s.issued = ls.flatMap newTags := by simpa [St.init] using run_issued ls h
  rw [← hiss]
  have hperm := Deliver.C01_exactly_once n (nhEff routed nh) _ _ (run_simulates ls s h) hq
  rw [← handled_is_executed ls ok s h] at hperm
  -- rebuild a full record from (rank, uid) by looking the uid up among the issued calls
  let φ : Nat × Nat → Handled := fun p =>
    match s.issued.find? (fun t => t.uid == p.2) with
    | some t => ⟨p.1, p.2, t.msg.lid, t.msg.fn, t.msg.args⟩
    | none => ⟨p.1, p.2, 0, [], []⟩
  have h1 : s.handled = (s.handled.map (fun x => (x.rank, x.uid))).map φ := by
    rw [List.map_map]
    conv => lhs; rw [← List.map_id s.handled]
    apply List.map_congr_left
    intro x hx
    obtain ⟨t, ht, hu, hr, hl, hf, ha⟩ := hi.handledArgs x hx
    have hfind := find_issued hi ht
    rw [hu] at hfind
    simp only [Function.comp, φ, hfind, id]
    cases x; simp_all
  have h2 : s.issued.map Tag.asHandled = (s.abs.es.map (fun e => (e.dest, e.uid))).map φ := by
    have hk : s.abs.es.map (fun e => (e.dest, e.uid)) = s.issued.map (fun t => (t.msg.dest, t.uid)) := by
      have e1 : s.abs.es.map (fun e => (e.dest, e.uid)) = (s.d.es.map Deliver.key).map (fun k => (k.2.1, k.1)) := by
        rw [List.map_map]; rfl
      have e2 : s.issued.map (fun t => (t.msg.dest, t.uid)) = (s.issued.map tagKey).map (fun k => (k.2.1, k.1)) := by
        rw [List.map_map]; rfl
      rw [e1, e2, hi.issuedKey]
    rw [hk, List.map_map]
    apply List.map_congr_left
    intro t ht
    simp only [Function.comp, φ, find_issued hi ht, Tag.asHandled]
  rw [h1, h2]
  exact hperm.map φ

/-! ## the receive loop never gets stuck, the ghost data never blocks it -/

theorem reachable_unrouted (ls : List Label) (ok : ∀ l ∈ ls, l.Ok tbl) (s : St)
    (h : run n nh routed tbl St.init ls = some s) : Unrouted routed s :=
  unrouted_run ls (inv_init routed tbl) (unrouted_init routed) ok h

/-- In every reachable state in which rank `r` is inside `handle_next_receive`: if the archive is empty
the loop can end; otherwise `Wire.parseStep` succeeds on the unread bytes, and the step it dictates
(execute the front message, or forward it) is accepted for the uid of the front tag — the bytes always
decode, and neither the `Deliver` guards nor the tags ever reject what the bytes say. -/
theorem walk_never_stuck (ls : List Label) (ok : ∀ l ∈ ls, l.Ok tbl) (s : St)
    (h : run n nh routed tbl St.init ls = some s) (r : Nat) (hr : r < n) (hw : s.abs.walking r = true) :
    (s.walkRest r = [] → ∃ s', step n nh routed tbl s (.recvEnd r) = some s') ∧
    (s.walkRest r ≠ [] → ∃ t ts, s.tags (.inWalk r) = t :: ts ∧
      ((∃ s', step n nh routed tbl s (.exec r t.uid) = some s') ∨
       (∃ s', step n nh routed tbl s (.fwd r t.uid) = some s'))) := by
  have hi := reachable_inv ls ok s h
  have hun := reachable_unrouted ls ok s h
  have hw' : s.d.walking r = true := hw
  constructor
  · intro hb
    have hb' : s.bytes (.inWalk r) = [] := hb
    have hT : s.tags (.inWalk r) = [] := by
      cases hT : s.tags (.inWalk r) with
      | nil => rfl
      | cons t ts =>
        have := hi.bytesOk (.inWalk r)
        rw [hT, hb'] at this
        obtain ⟨b, bs, hbb⟩ := Wire.encodeMsg_cons routed t.msg
        simp only [List.map_cons, Wire.encodeAll, hbb] at this
        cases this
    have hnone : ¬ s.d.es.any (Deliver.inWalkOf r) = true := by
      intro hany
      obtain ⟨e, he, hl⟩ := List.any_eq_true.1 hany
      have hl' := Deliver.inWalkOf_iff.1 hl
      obtain ⟨t, ht, _⟩ := hi.la e he (isDone_false_of_loc hl' (by intro q h'; cases h'))
      rw [hl', hT] at ht; cases ht
    have hD : Deliver.step n (nhEff routed nh) s.d (.recvEnd r)
        = some { s.d with walking := Deliver.upd s.d.walking r false } := by
      simp only [Deliver.step]; rw [if_pos ⟨hr, hw', hnone⟩]
    simp only [step, hD]
    rw [if_pos hb']
    exact ⟨_, rfl⟩
  · intro hb
    have hb' : s.bytes (.inWalk r) ≠ [] := hb
    cases hT : s.tags (.inWalk r) with
    | nil =>
      have := hi.bytesOk (.inWalk r)
      rw [hT] at this
      exact absurd this hb'
    | cons t ts =>
      refine ⟨t, ts, rfl, ?_⟩
      have htmem : t ∈ s.tags (.inWalk r) := by rw [hT]; exact List.mem_cons_self
      have hti : t ∈ s.issued := hi.tagIssued _ t htmem
      obtain ⟨_, hpf⟩ := parse_front (me := (r : Int)) hi.bytesOk hT (hi.issuedOk t hti)
      obtain ⟨e0, he0, hu0, hl0, hd0, hb0⟩ := hi.lb _ t htmem
      have hsel : (e0.uid == t.uid && Deliver.inWalkOf r e0) = true := by
        simp [hu0, Deliver.inWalkOf_iff.2 hl0]
      -- the execute branch
      have hexec : ∀ size dest, Wire.view routed (r : Int) t.msg = .exec size dest t.msg.lid t.msg.fn t.msg.args →
          (e0.dest = r ∨ e0.direct = true) → ∃ s', step n nh routed tbl s (.exec r t.uid) = some s' := by
        intro size dest hview hdest
        have hany : s.d.es.any (fun e => e.uid == t.uid && Deliver.inWalkOf r e && (e.dest == r || e.direct)) = true := by
          refine List.any_eq_true.2 ⟨e0, he0, ?_⟩
          rw [hsel]
          rcases hdest with h1 | h1 <;> simp [h1]
        have hD : Deliver.step n (nhEff routed nh) s.d (.exec r t.uid)
            = some { s.d with es := Deliver.relocate (fun e => e.uid == t.uid && Deliver.inWalkOf r e) (.done r) s.d.es,
                              executed := s.d.executed ++ [(r, t.uid)] } := by
          simp only [Deliver.step]; rw [if_pos ⟨hr, hw', hany⟩]
        rw [hview] at hpf
        simp only [step, hD, hT, hpf]
        rw [if_pos True.intro]
        exact ⟨_, rfl⟩
      cases hrt : routed with
      | false =>
        subst hrt
        left
        refine hexec 0 0 rfl (Or.inl ?_)
        rw [hd0]
        exact (hun rfl _ t htmem r rfl).symm
      | true =>
        subst hrt
        cases hbc : t.msg.bcast with
        | true =>
          left
          refine hexec 0 (-1) (by simp [Wire.view, hbc]) (Or.inr ?_)
          rw [hb0, hbc]
        | false =>
          by_cases hme : (t.msg.dest : Int) = (r : Int)
          · left
            refine hexec (Wire.body t.msg).length (t.msg.dest : Int) (by simp [Wire.view, hbc, hme]) (Or.inl ?_)
            rw [hd0]; omega
          · right
            have hview : Wire.view true (r : Int) t.msg
                = .fwd (Wire.body t.msg).length (t.msg.dest : Int) (Wire.body t.msg) := by
              simp [Wire.view, hbc, hme]
            rw [hview] at hpf
            have hfind : ∃ e1, s.d.es.find? (fun e => e.uid == t.uid && Deliver.inWalkOf r e) = some e1 := by
              cases hf : s.d.es.find? (fun e => e.uid == t.uid && Deliver.inWalkOf r e) with
              | some e1 => exact ⟨e1, rfl⟩
              | none =>
                have := List.find?_eq_none.1 hf e0 he0
                exact absurd hsel this
            obtain ⟨e1, hf⟩ := hfind
            have hp1 := List.find?_some hf
            have he1 := List.mem_of_find?_eq_some hf
            simp only [Bool.and_eq_true, beq_iff_eq] at hp1
            have : e1 = e0 := Deliver.eq_of_uid_eq hi.dInv.nodup he1 he0 (by rw [hp1.1, hu0])
            subst this
            have hne : e1.dest ≠ r := by rw [hd0]; omega
            have hdir : e1.direct = false := by rw [hb0, hbc]
            have hD : Deliver.step n (nhEff true nh) s.d (.fwd r t.uid)
                = some { s.d with es := Deliver.relocate (fun e => e.uid == t.uid && Deliver.inWalkOf r e)
                                          (.inBuf r (nhEff true nh r e1.dest)) s.d.es } := by
              simp only [Deliver.step, hf]; rw [if_pos ⟨hr, hw', hne, hdir⟩]
            simp only [step, hD, hT, hpf]
            rw [if_pos True.intro]
            exact ⟨_, rfl⟩

/-! ## `Deliver`'s guards are facts about the bytes -/

/-- a location holds bytes exactly when `Deliver` has an entry there -/
theorem bytes_nonempty_iff (ls : List Label) (ok : ∀ l ∈ ls, l.Ok tbl) (s : St)
    (h : run n nh routed tbl St.init ls = some s) (l : Loc) (hl : ∀ r, l ≠ .done r) :
    s.bytes l ≠ [] ↔ ∃ e ∈ s.abs.es, e.loc = l := by
  have hi := reachable_inv ls ok s h
  constructor
  · intro hb
    cases hT : s.tags l with
    | nil =>
      have := hi.bytesOk l
      rw [hT] at this
      exact absurd this hb
    | cons t ts =>
      obtain ⟨e, he, _, hloc, _⟩ := hi.lb l t (by rw [hT]; exact List.mem_cons_self)
      exact ⟨e, he, hloc⟩
  · rintro ⟨e, he, hloc⟩
    obtain ⟨t, ht, _⟩ := hi.la e he (isDone_false_of_loc hloc hl)
    rw [hloc] at ht
    cases hT : s.tags l with
    | nil => rw [hT] at ht; cases ht
    | cons t' ts =>
      rw [hi.bytesOk l, hT]
      obtain ⟨b, bs, hbb⟩ := Wire.encodeMsg_cons routed t'.msg
      simp only [List.map_cons, Wire.encodeAll, hbb]
      intro h'; cases h'

/-- `flush_send_buffer`: a buffer can be sent exactly when it holds bytes -/
theorem isend_enabled_iff (ls : List Label) (ok : ∀ l ∈ ls, l.Ok tbl) (s : St)
    (h : run n nh routed tbl St.init ls = some s) (r hop : Nat) :
    (∃ s', step n nh routed tbl s (.isend r hop) = some s') ↔ (r < n ∧ s.sendBuf r hop ≠ []) := by
  have hbn := bytes_nonempty_iff ls ok s h (.inBuf r hop) (by intro q h'; cases h')
  have hany : s.d.es.any (Deliver.inBufOf r hop) = true ↔ s.sendBuf r hop ≠ [] := by
    rw [St.sendBuf, hbn, List.any_eq_true]
    constructor
    · rintro ⟨e, he, hp⟩; exact ⟨e, he, Deliver.inBufOf_iff.1 hp⟩
    · rintro ⟨e, he, hp⟩; exact ⟨e, he, Deliver.inBufOf_iff.2 hp⟩
  constructor
  · rintro ⟨s', hs⟩
    obtain ⟨d', hd, _⟩ := step_isend hs
    simp only [Deliver.step] at hd
    split at hd
    · rename_i hc; exact ⟨hc.1, hany.1 hc.2⟩
    · cases hd
  · rintro ⟨hr, hb⟩
    have hD : Deliver.step n (nhEff routed nh) s.d (.isend r hop)
        = some { s.d with es := Deliver.relocate (Deliver.inBufOf r hop) (.inWire r hop (s.d.sendSeq r)) s.d.es,
                          sendSeq := Deliver.upd s.d.sendSeq r (s.d.sendSeq r + 1) } := by
      simp only [Deliver.step]; rw [if_pos ⟨hr, hany.2 hb⟩]
    simp only [step, hD]
    exact ⟨_, rfl⟩

/-- a receive can start on a physical message exactly when the rank is not already inside
`handle_next_receive`, the message holds bytes, and no older message of the same channel is still in
flight (MPI non-overtaking) -/
theorem recvBegin_enabled_iff (ls : List Label) (ok : ∀ l ∈ ls, l.Ok tbl) (s : St)
    (h : run n nh routed tbl St.init ls = some s) (r src seq : Nat) :
    (∃ s', step n nh routed tbl s (.recvBegin r src seq) = some s') ↔
      (r < n ∧ s.abs.walking r = false ∧ s.inFlight src r seq ≠ [] ∧ ∀ k, k < seq → s.inFlight src r k = []) := by
  have hbn := fun k => bytes_nonempty_iff ls ok s h (.inWire src r k) (by intro q h'; cases h')
  have hany : s.d.es.any (Deliver.inWireOf src r seq) = true ↔ s.inFlight src r seq ≠ [] := by
    rw [St.inFlight, hbn, List.any_eq_true]
    constructor
    · rintro ⟨e, he, hp⟩; exact ⟨e, he, Deliver.inWireOf_iff.1 hp⟩
    · rintro ⟨e, he, hp⟩; exact ⟨e, he, Deliver.inWireOf_iff.2 hp⟩
  have hold : (¬ s.d.es.any (Deliver.olderInFlight src r seq) = true) ↔ ∀ k, k < seq → s.inFlight src r k = [] := by
    constructor
    · intro hno k hk
      cases hb : s.inFlight src r k with
      | nil => rfl
      | cons b bs =>
        exfalso
        have hne : s.bytes (.inWire src r k) ≠ [] := by
          intro h'; rw [St.inFlight, h'] at hb; cases hb
        obtain ⟨e, he, hloc⟩ := (hbn k).1 hne
        apply hno
        refine List.any_eq_true.2 ⟨e, he, ?_⟩
        simp [Deliver.olderInFlight, hloc, hk]
    · intro hall hany'
      obtain ⟨e, he, hp⟩ := List.any_eq_true.1 hany'
      unfold Deliver.olderInFlight at hp
      split at hp
      · rename_i a d k hloc
        simp only [Bool.and_eq_true, beq_iff_eq, decide_eq_true_eq] at hp
        obtain ⟨⟨rfl, rfl⟩, hk⟩ := hp
        have := (hbn k).2 ⟨e, he, hloc⟩
        exact this (hall k hk)
      · cases hp
  constructor
  · rintro ⟨s', hs⟩
    obtain ⟨d', hd, _⟩ := step_recvBegin hs
    simp only [Deliver.step] at hd
    split at hd
    · rename_i hc; exact ⟨hc.1, hc.2.1, hany.1 hc.2.2.1, hold.1 hc.2.2.2⟩
    · cases hd
  · rintro ⟨hr, hw, hb, ho⟩
    have hD : Deliver.step n (nhEff routed nh) s.d (.recvBegin r src seq)
        = some { s.d with es := Deliver.relocate (Deliver.inWireOf src r seq) (.inWalk r) s.d.es,
                          walking := Deliver.upd s.d.walking r true } := by
      simp only [Deliver.step]; rw [if_pos ⟨hr, hw, hany.2 hb, hold.2 ho⟩]
    simp only [step, hD]
    exact ⟨_, rfl⟩

/-! ## (4) non-vacuity: 2 nodes x 2 ranks, "NR-like" routing; two messages of different types share the
buffer (0 → hop 2), one of them is forwarded by rank 2 to rank 3; a broadcast leg goes 0 → 1 -/

private def nhDemo (me d : Nat) : Nat := if me / 2 = d / 2 then d else (d / 2) * 2 + me % 2

/-- lambda 17: 3-byte functor, `(uint64_t, std::string)`; lambda 18: empty functor, `(std::vector<int16_t>, bool)` -/
private def tblDemo : Wire.Table := fun lid =>
  if lid = 17 then some (3, [.u 8, .str]) else if lid = 18 then some (0, [.vec (.i 2), .bool]) else none

private def mA : Wire.Msg :=
  { bcast := false, dest := 3, lid := 17, fn := [1, 2, 3], args := [.u 8 77, .str [104, 105]] }
private def mB : Wire.Msg :=
  { bcast := false, dest := 2, lid := 18, fn := [], args := [.seq [.i 2 (-2), .i 2 300], .bool true] }
private def mC : Wire.Msg :=
  { bcast := true, dest := 1, lid := 18, fn := [], args := [.seq [], .bool false] }

private def demo : List Label :=
  [.async 0 7 mA, .async 0 8 mB, .async 0 9 mC,
   .isend 0 2, .recvBegin 2 0 0, .fwd 2 7, .exec 2 8, .recvEnd 2,
   .isend 2 3, .recvBegin 3 2 0, .exec 3 7, .recvEnd 3,
   .isend 0 1, .recvBegin 1 0 1, .exec 1 9, .recvEnd 1]

private theorem mA_ok : Wire.MsgOk tblDemo mA :=
  ⟨by decide, ⟨[.u 8, .str], rfl, .cons _ _ _ _ (.u 8 77 (by decide)) (.cons _ _ _ _ (.str _ (by decide)) .nil)⟩,
   by decide, by decide⟩

private theorem mB_ok : Wire.MsgOk tblDemo mB := by
  refine ⟨by decide, ⟨[.vec (.i 2), .bool], rfl, .cons _ _ _ _ (.vec _ _ (by decide) ?_) (.cons _ _ _ _ (.bool true) .nil)⟩,
    by decide, by decide⟩
  intro v hv
  simp only [List.mem_cons, List.mem_nil_iff, or_false] at hv
  rcases hv with rfl | rfl
  · exact .i 2 (-2) (by decide) (by decide)
  · exact .i 2 300 (by decide) (by decide)

private theorem mC_ok : Wire.MsgOk tblDemo mC := by
  refine ⟨by decide, ⟨[.vec (.i 2), .bool], rfl, .cons _ _ _ _ (.vec _ _ (by decide) ?_) (.cons _ _ _ _ (.bool false) .nil)⟩,
    by decide, by decide⟩
  intro v hv; cases hv

/-- the hypotheses of the theorems are met by the demo history -/
private theorem demo_ok : ∀ l ∈ demo, l.Ok tblDemo := by
  intro l hl
  simp only [demo, List.mem_cons, List.mem_nil_iff, or_false] at hl
  rcases hl with rfl | rfl | rfl | rfl | rfl | rfl | rfl | rfl | rfl | rfl | rfl | rfl | rfl | rfl | rfl | rfl
  · exact mA_ok
  · exact mB_ok
  · exact mC_ok
  all_goals exact True.intro

/-- after the three `async` calls the buffer for hop 2 holds both point-to-point messages back to back,
byte for byte (23-byte body for rank 3, then 15-byte body for rank 2) -/
example : ((run 4 nhDemo true tblDemo St.init (demo.take 3)).map (fun s => s.sendBuf 0 2)) =
    some [23, 0, 0, 0, 3, 0, 0, 0, 17, 0, 1, 2, 3, 77, 0, 0, 0, 0, 0, 0, 0, 2, 0, 0, 0, 0, 0, 0, 0, 104, 105,
          15, 0, 0, 0, 2, 0, 0, 0, 18, 0, 2, 0, 0, 0, 0, 0, 0, 0, 0xfe, 0xff, 0x2c, 0x01, 1] := by rfl

/-- the broadcast leg sits in the buffer for rank 1 behind the dummy header {0, -1} -/
example : ((run 4 nhDemo true tblDemo St.init (demo.take 3)).map (fun s => s.sendBuf 0 1)) =
    some [0, 0, 0, 0, 0xff, 0xff, 0xff, 0xff, 18, 0, 0, 0, 0, 0, 0, 0, 0, 0, 0] := by rfl

/-- rank 2 has forwarded the first message: it is in rank 2's buffer for rank 3, unchanged, and the walk
stands exactly at the second message -/
example : ((run 4 nhDemo true tblDemo St.init (demo.take 6)).map (fun s => (s.sendBuf 2 3, s.walkRest 2))) =
    some (Wire.encodeMsg true mA, Wire.encodeMsg true mB) := by rfl

/-- the whole history is accepted; every handler got the arguments of its call; nothing is left -/
example : ((run 4 nhDemo true tblDemo St.init demo).map (fun s => s.handled)) =
    some [(⟨8, mB⟩ : Tag).asHandled, (⟨7, mA⟩ : Tag).asHandled, (⟨9, mC⟩ : Tag).asHandled] := by rfl

example : ((run 4 nhDemo true tblDemo St.init demo).map (fun s => s.handled.map (·.args))) =
    some [[.seq [.i 2 (-2), .i 2 300], .bool true], [.u 8 77, .str [104, 105]], [.seq [], .bool false]] := by rfl

example : ((run 4 nhDemo true tblDemo St.init demo).map (fun s => Deliver.quiescent s.abs)) = some true := by rfl

/-- the theorems apply to it -/
example (s : St) (h : run 4 nhDemo true tblDemo St.init demo = some s) :
    List.Perm s.handled [(⟨7, mA⟩ : Tag).asHandled, (⟨8, mB⟩ : Tag).asHandled, (⟨9, mC⟩ : Tag).asHandled] := by
  have hq : Deliver.quiescent s.abs = true := by
    have : ((run 4 nhDemo true tblDemo St.init demo).map (fun s => Deliver.quiescent s.abs)) = some true := by rfl
    rw [h] at this; simpa using this
  exact exactly_once_bit_exact demo demo_ok s h hq

/-- what the bytes say decides: the history may not claim an execution where the header says "forward" -/
example : (run 4 nhDemo true tblDemo St.init [.async 0 7 mA, .isend 0 2, .recvBegin 2 0 0, .exec 2 7]).isNone = true := by
  rfl

/-- the history may not attribute a walk step to another uid than the one at the front -/
example : (run 4 nhDemo true tblDemo St.init
    [.async 0 7 mA, .async 0 8 mB, .isend 0 2, .recvBegin 2 0 0, .exec 2 8]).isNone = true := by rfl

/-- the loop may not end while bytes are unread -/
example : (run 4 nhDemo true tblDemo St.init
    [.async 0 7 mA, .async 0 8 mB, .isend 0 2, .recvBegin 2 0 0, .fwd 2 7, .recvEnd 2]).isNone = true := by rfl

/-- routing NONE: no headers, both messages packed into one buffer for rank 3, executed in order -/
example : ((run 4 nhDemo false tblDemo St.init
    [.async 0 7 mA, .async 0 8 { mB with dest := 3 }, .isend 0 3, .recvBegin 3 0 0, .exec 3 7, .exec 3 8, .recvEnd 3]).map
      (fun s => (s.handled.map (fun x => (x.rank, x.uid, x.lid, x.fn)), Deliver.quiescent s.abs))) =
    some ([(3, 7, 17, [1, 2, 3]), (3, 8, 18, [])], true) := by rfl

end YgmVerif.DeliverBytes
