import YgmVerif.Lemmas.DistComm
import YgmVerif.Props.C11
import YgmVerif.Props.C12
/-!
# C11–C16 end to end — after a barrier, the contents of a distributed container are a sequential application of all
# operations issued before it

`Model/Dist.lean` (and with it C11/C12, and in the same way C13–C16, C19, C20) states its results under the HYPOTHESIS
`Dist.Complete`: "every operation executes exactly once on its owner, in some order".  This file DISCHARGES that
hypothesis from the messaging theorems (C01 + C02, `Props/C02C01.lean`), for a container run over the joint messaging
model `YgmVerif.Comm` (`Model/DistComm.lean`): an operation is a message (`opOf uid`), issued point-to-point to its
owner (`Addressed`), a handler issues what `Dist.apply` emits (`HandlersApply`), the memory of a rank is changed by
`execEnd r uid` only (`memOf`).

For every number of ranks `n`, every next-hop function `nh`, every joint history `ls` accepted from `Comm.init`, every
container `c`, every `owner`, every initial memory `g`:

* `handlers_atomic`, `handlers_atomic_state`, `memory_changes_only_at_execEnd` — handler atomicity;
* (1) `state_is_fold`      — `memOf … r = List.foldl apply (g r) (opsExecutedOn r)` (no hypothesis at all);
* (2) `executed_ops_owned` — every operation executed on rank r has owner r;
* `executed_partition`     — the per-rank execution lists are duplicate-free, pairwise disjoint in uids, and their
                             concatenation is a permutation of the whole execution record (every reachable state);
* (3) `barrier_contents_are_a_sequential_application` — at the first return of a barrier: …, and that concatenation is
      a permutation of ALL issued operations; `Dist.Complete` holds for the execution extracted from `ls`; the induced
      memory is `Dist.execGlobal` of it;
* `exactly_once_fold_at_barrier` — `Dist.exactly_once_fold` without hypothesis;
* `barrier_later_exits` — the guarantee at every later return of the same barrier;
* `keyed_after_barrier`, `C11_map_after_barrier`, `C12_set_after_barrier` — per-key corollaries (`owner_holds_fold`);
* (4) non-vacuity by `decide`.
-/
namespace YgmVerif.DistComm
open YgmVerif
open YgmVerif.Comm (Label St Msg Link)

section Main
variable {σ Op Cb : Type} (c : Dist.Container σ Op Cb) (owner : Op → Nat) (opOf : Nat → Op)
  (n : Nat) (nh : Nat → Nat → Nat) (g : Nat → σ)

/-! ### handler atomicity -/

/-- **no two handlers overlap on one rank**, in any accepted joint history: if `execBegin r u` and later
`execBegin r v` occur, `execEnd r u` occurs in between -/
theorem handlers_atomic (pre mid post : List Label) (r u v : Nat) (s : St)
    (h : Comm.run n nh Comm.init (pre ++ .execBegin r u :: (mid ++ .execBegin r v :: post)) = some s) :
    .execEnd r u ∈ mid :=
  handlers_do_not_overlap n nh pre mid post r u v s h

/-- in every reachable joint state: while a handler runs on rank r, `execBegin r v` is refused -/
theorem handlers_atomic_state (ls : List Label) (s : St) (hrun : Comm.run n nh Comm.init ls = some s)
    (r u : Nat) (hc : s.cur r = some u) (v : Nat) : Comm.step n nh s (.execBegin r v) = none :=
  no_execBegin_while_running (reach_inv hrun).2 hc v

/-- the memory of rank r is changed by `execEnd r _` only: a handler body is one atomic application -/
theorem memory_changes_only_at_execEnd (s : St) (G : Ghost σ Op) (l : Label) (r : Nat)
    (hl : ∀ uid, l ≠ .execEnd r uid) : (gnext c opOf s G l).mem r = G.mem r := by
  cases l with
  | execEnd r' uid =>
    simp only [gnext]
    by_cases h : r = r'
    · subst h; exact absurd rfl (hl uid)
    · exact Barrier.upd_other _ _ _ _ h
  | _ => rfl

/-! ### (1) the induced state is the fold -/

/-- **(1)** for every accepted joint history, the container state of rank r induced by the history is
`List.foldl apply init` over the operations of the handlers executed on r, in execution order -/
theorem state_is_fold (ls : List Label) (s : St) (hrun : Comm.run n nh Comm.init ls = some s) (r : Nat) :
    memOf c opOf n nh g ls r = List.foldl (fun st op => (c.apply st op).1) (g r) (opsExecutedOn opOf r s) :=
  mem_is_fold c opOf n nh g ls s hrun r

/-! ### (2) operations execute on their owner -/

theorem mem_uidsExecutedOn {q u : Nat} {ex : List (Nat × Nat)} : u ∈ uidsExecutedOn q ex ↔ (q, u) ∈ ex := by
  unfold uidsExecutedOn
  constructor
  · intro h
    obtain ⟨p, hp, rfl⟩ := List.mem_map.1 h
    rw [List.mem_filter, beq_iff_eq] at hp
    rw [← hp.2]; exact hp.1
  · intro h
    exact List.mem_map.2 ⟨(q, u), List.mem_filter.2 ⟨h, by simp⟩, rfl⟩

/-- **(2)** under the issuing discipline, every operation executed on rank r has owner r -/
theorem executed_ops_owned (ls : List Label) (s : St) (hrun : Comm.run n nh Comm.init ls = some s)
    (ha : Addressed owner opOf ls) (r : Nat) :
    (∀ u ∈ uidsExecutedOn r s.d.executed, owner (opOf u) = r) ∧ (∀ op ∈ opsExecutedOn opOf r s, owner op = r) := by
  have h1 : ∀ u ∈ uidsExecutedOn r s.d.executed, owner (opOf u) = r := fun u hu =>
    executed_owned owner opOf n nh ls s hrun ha (r, u) (mem_uidsExecutedOn.1 hu)
  refine ⟨h1, ?_⟩
  intro op hop
  obtain ⟨u, hu, rfl⟩ := List.mem_map.1 hop
  exact h1 u hu

/-! ### the per-rank execution lists partition the execution record -/

/-- in every reachable state: each per-rank list is duplicate-free, two different ranks never executed the same
message, and the concatenation of the per-rank lists is a permutation of the whole record -/
theorem executed_partition (ls : List Label) (s : St) (hrun : Comm.run n nh Comm.init ls = some s) :
    (∀ q, (uidsExecutedOn q s.d.executed).Nodup) ∧
    (∀ q1 q2, q1 ≠ q2 → ∀ u, u ∈ uidsExecutedOn q1 s.d.executed → u ∉ uidsExecutedOn q2 s.d.executed) ∧
    ((List.range n).flatMap (fun q => uidsExecutedOn q s.d.executed)).Perm (s.d.executed.map (·.2)) := by
  have hnd : (s.d.executed.map (·.2)).Nodup := Deliver.C01_at_most_once n nh _ s.d (Comm.run_projD ls hrun)
  obtain ⟨hd, _⟩ := reach_inv hrun
  refine ⟨?_, ?_, ?_⟩
  · intro q
    exact List.Nodup.sublist (List.Sublist.map _ List.filter_sublist) hnd
  · intro q1 q2 hq u h1 h2
    obtain ⟨e1, he1, hu1, hl1⟩ := hd.execDone q1 u (mem_uidsExecutedOn.1 h1)
    obtain ⟨e2, he2, hu2, hl2⟩ := hd.execDone q2 u (mem_uidsExecutedOn.1 h2)
    have := Deliver.eq_of_uid_eq hd.nodup he1 he2 (by rw [hu1, hu2])
    rw [this, hl2] at hl1
    simp only [Deliver.Loc.done.injEq] at hl1
    exact hq hl1.symm
  · have hp := perm_flatMap_filter (fun p : Nat × Nat => p.1) (List.range n) s.d.executed List.nodup_range
      (fun p hp => List.mem_range.2 (executed_rank_lt n nh ls s hrun p hp))
    have := (hp.map (·.2)).symm
    rw [List.map_flatMap] at this
    exact this

/-! ### (3) MAIN -/

/-- at the first return of a barrier no handler is running -/
theorem cur_none_at_exit (ls : List Label) (s : St) (hrun : Comm.run n nh Comm.init ls = some s)
    (r : Nat) (hr : r < n) (hx : BarrierME.exitEnabled s.b r = true) (hne : ∀ q, q < n → s.b.epoch q ≤ s.b.epoch r)
    (q : Nat) : s.cur q = none := by
  have hq := BarrierME.C02ME_exit_implies_quiescent n s.b _ (Comm.run_projB ls hrun) r hr hx _ rfl hne
  obtain ⟨_, hl⟩ := reach_inv hrun
  cases hc : s.cur q with
  | none => rfl
  | some u =>
    have hqn := (hl.curWalk q u hc).1
    have hb := hl.busyCur q
    rw [(hq.2 q hqn).2.2.1, hc] at hb
    cases hb

/-- **`Dist.Complete` from the messaging theorems.**  At the first return of a barrier, the global execution
sequence (the operations of `Deliver.executed`, in execution order) is a permutation of the operations issued from
outside handlers (main programs and pre-barrier callbacks) together with `Dist.emittedGlobal` of that sequence (what
`apply` emits when the sequence is replayed): the hypothesis of `Dist.exactly_once_fold` holds. -/
theorem complete_at_barrier (ls : List Label) (s : St) (hrun : Comm.run n nh Comm.init ls = some s)
    (ha : Addressed owner opOf ls) (hh : HandlersApply c opOf n nh g ls)
    (r : Nat) (hr : r < n) (hx : BarrierME.exitEnabled s.b r = true) (hne : ∀ q, q < n → s.b.epoch q ≤ s.b.epoch r) :
    Dist.Complete c owner g (mainOps opOf (ghostOf c opOf n nh g ls)) (execOps opOf s) := by
  have hmain := (Comm.C02C01_exit_implies_all_executed n nh ls s hrun r hr hx hne).2
  have hnd : (s.d.executed.map (·.2)).Nodup := Deliver.C01_at_most_once n nh _ s.d (Comm.run_projD ls hrun)
  have htag := tagged_uids c opOf n nh g ls s hrun
  have hem := emitted_eq c owner opOf n nh g ls s hrun ha hh
  have hacc := tags_accounted c opOf n nh g ls s hrun
  have hcur := cur_none_at_exit n nh ls s hrun r hr hx hne
  -- the executed uids are the issued uids
  have hu : (s.d.executed.map (·.2)).Perm ((ghostOf c opOf n nh g ls).tagged.map (·.2)) := by
    rw [htag]
    have := hmain.map (·.2)
    rw [List.map_map] at this
    exact this
  -- the tagged list, classified by tag: `none`, then one class per executed handler, in execution order
  have hkn : (none :: (s.d.executed.map (·.2)).map some).Nodup := by
    rw [List.nodup_cons]
    refine ⟨by simp, ?_⟩
    exact List.Pairwise.map some (fun a b h e => h (Option.some.inj e)) hnd
  have hcov : ∀ x ∈ (ghostOf c opOf n nh g ls).tagged,
      x.1 ∈ none :: (s.d.executed.map (·.2)).map some := by
    intro x hx
    cases hx1 : x.1 with
    | none => exact List.mem_cons_self
    | some p =>
      apply List.mem_cons_of_mem
      rcases hacc p x.2 (by rw [← hx1]; exact hx) with h | ⟨q, hq⟩
      · exact List.mem_map.2 ⟨p, h, rfl⟩
      · rw [hcur q] at hq; cases hq
  have hp := perm_flatMap_filter (fun x : Option Nat × Nat => x.1) _ _ hkn hcov
  rw [List.flatMap_cons] at hp
  have hp2 := hp.map (fun p => opOf p.2)
  rw [List.map_append] at hp2
  have hE : execOps opOf s = (s.d.executed.map (·.2)).map opOf := by
    unfold execOps; rw [List.map_map]; rfl
  have hT : (ghostOf c opOf n nh g ls).tagged.map (fun p => opOf p.2) =
      ((ghostOf c opOf n nh g ls).tagged.map (·.2)).map opOf := by
    rw [List.map_map]; rfl
  have hR : (((s.d.executed.map (·.2)).map some).flatMap
        (fun k => (ghostOf c opOf n nh g ls).tagged.filter (fun x => x.1 == k))).map (fun p => opOf p.2) =
      s.d.executed.flatMap (fun p => (children (ghostOf c opOf n nh g ls).tagged p.2).map opOf) := by
    rw [List.flatMap_map, List.flatMap_map, List.map_flatMap]
    apply flatMap_congr_mem
    intro p _
    unfold children
    rw [List.map_map]; rfl
  unfold Dist.Complete
  rw [hem, ← hR, hE]
  exact (hu.map opOf).trans (hT ▸ hp2)

/-- **(3) MAIN.**  For every number of ranks, every routing function, every accepted joint history from program
start and every container whose operations are issued to their owners and whose handlers issue what `apply` emits:
if the exit rule of `comm::barrier` is enabled for rank `r` in its barrier `e` and no rank has completed barrier `e`
(the first return of that barrier), then

* the lists of handlers executed per rank are duplicate-free and pairwise disjoint in uids;
* their concatenation over the ranks `0 … n-1` is a permutation of ALL messages / operations issued so far — by main
  programs, by handlers (transitively) and by pre-barrier callbacks — each exactly once;
* every operation was executed on its owner;
* `Dist.Complete` holds for the execution sequence extracted from the history (so `Dist.exactly_once_fold`,
  `Dist.owner_holds_fold`, … apply without hypothesis);
* the container state of every rank is `Dist.execGlobal` of that sequence = `List.foldl apply (g q)` over the
  operations executed on q, in execution order, and these are the operations of the sequence owned by q. -/
theorem barrier_contents_are_a_sequential_application (ls : List Label) (s : St)
    (hrun : Comm.run n nh Comm.init ls = some s)
    (ha : Addressed owner opOf ls) (hh : HandlersApply c opOf n nh g ls)
    (r : Nat) (hr : r < n) (hx : BarrierME.exitEnabled s.b r = true) (hne : ∀ q, q < n → s.b.epoch q ≤ s.b.epoch r) :
    (∀ q, (uidsExecutedOn q s.d.executed).Nodup) ∧
    (∀ q1 q2, q1 ≠ q2 → ∀ u, u ∈ uidsExecutedOn q1 s.d.executed → u ∉ uidsExecutedOn q2 s.d.executed) ∧
    ((List.range n).flatMap (fun q => uidsExecutedOn q s.d.executed)).Perm ((ls.flatMap Comm.issued).map (·.1)) ∧
    ((List.range n).flatMap (fun q => opsExecutedOn opOf q s)).Perm (issuedOps opOf ls) ∧
    (∀ q, ∀ op ∈ opsExecutedOn opOf q s, owner op = q) ∧
    Dist.Complete c owner g (mainOps opOf (ghostOf c opOf n nh g ls)) (execOps opOf s) ∧
    (∀ q, memOf c opOf n nh g ls q = Dist.execGlobal c owner g (execOps opOf s) q) ∧
    (∀ q, memOf c opOf n nh g ls q =
      List.foldl (fun st op => (c.apply st op).1) (g q) (opsExecutedOn opOf q s)) ∧
    (∀ q, opsExecutedOn opOf q s = (execOps opOf s).filter (fun o => owner o = q)) := by
  have hmain := (Comm.C02C01_exit_implies_all_executed n nh ls s hrun r hr hx hne).2
  obtain ⟨p1, p2, p3⟩ := executed_partition n nh ls s hrun
  have hu : (s.d.executed.map (·.2)).Perm ((ls.flatMap Comm.issued).map (·.1)) := by
    have := hmain.map (·.2)
    rw [List.map_map] at this
    exact this
  have p4 := p3.trans hu
  refine ⟨p1, p2, p4, ?_, fun q => (executed_ops_owned owner opOf n nh ls s hrun ha q).2,
    complete_at_barrier c owner opOf n nh g ls s hrun ha hh r hr hx hne,
    fun q => mem_eq_execGlobal c owner opOf n nh g ls s hrun ha q,
    fun q => state_is_fold c opOf n nh g ls s hrun q,
    fun q => opsExecutedOn_eq_filter owner opOf n nh ls s hrun ha q⟩
  have := p4.map opOf
  rw [List.map_flatMap] at this
  unfold issuedOps
  rw [List.map_map] at this
  exact this

/-- the global execution sequence is a permutation of all issued operations -/
theorem execOps_perm_issuedOps (ls : List Label) (s : St) (hrun : Comm.run n nh Comm.init ls = some s)
    (r : Nat) (hr : r < n) (hx : BarrierME.exitEnabled s.b r = true) (hne : ∀ q, q < n → s.b.epoch q ≤ s.b.epoch r) :
    (execOps opOf s).Perm (issuedOps opOf ls) := by
  have hmain := (Comm.C02C01_exit_implies_all_executed n nh ls s hrun r hr hx hne).2
  have := hmain.map (fun p => opOf p.2)
  unfold execOps issuedOps
  rw [List.map_map] at this
  exact this

/-- **`Dist.exactly_once_fold` WITHOUT hypothesis**: at the first return of a barrier, the container state of every
rank induced by the history is `List.foldl apply init` over the operations it owns in execution order, the per-rank
subsequences are disjoint and cover the execution, and every operation is executed exactly as often as it was issued
(by main programs / callbacks: `mainOps`; by handlers: `emittedGlobal`) -/
theorem exactly_once_fold_at_barrier [BEq Op] [LawfulBEq Op] (ls : List Label) (s : St)
    (hrun : Comm.run n nh Comm.init ls = some s)
    (ha : Addressed owner opOf ls) (hh : HandlersApply c opOf n nh g ls)
    (r : Nat) (hr : r < n) (hx : BarrierME.exitEnabled s.b r = true) (hne : ∀ q, q < n → s.b.epoch q ≤ s.b.epoch r) :
    (∀ q, memOf c opOf n nh g ls q
        = ((execOps opOf s).filter (fun o => owner o = q)).foldl (fun st op => (c.apply st op).1) (g q))
    ∧ (∀ op q, op ∈ (execOps opOf s).filter (fun o => owner o = q) ↔ op ∈ execOps opOf s ∧ owner op = q)
    ∧ (∀ op, (execOps opOf s).count op = (mainOps opOf (ghostOf c opOf n nh g ls)).count op +
        (Dist.emittedGlobal c owner g (execOps opOf s)).count op) := by
  have hc := complete_at_barrier c owner opOf n nh g ls s hrun ha hh r hr hx hne
  obtain ⟨h1, h2, h3⟩ := Dist.exactly_once_fold c owner g _ _ hc
  refine ⟨fun q => ?_, h2, h3⟩
  rw [← h1 q]
  exact mem_eq_execGlobal c owner opOf n nh g ls s hrun ha q

/-- **every later return of the same barrier** (and anything after it): once the first rank may leave barrier `e`
(state `s1`, history `ls1`), whatever happens afterwards (`ls2`), every operation issued before that first return stays
executed on its owner, the execution record only grows, and the container state of every rank is the state it had at
the first return with the operations executed since applied on top, in execution order -/
theorem barrier_later_exits (ls1 ls2 : List Label) (s1 s2 : St)
    (h1 : Comm.run n nh Comm.init ls1 = some s1) (h2 : Comm.run n nh s1 ls2 = some s2)
    (ha : Addressed owner opOf ls1)
    (r : Nat) (hr : r < n) (hx : BarrierME.exitEnabled s1.b r = true)
    (hne : ∀ q, q < n → s1.b.epoch q ≤ s1.b.epoch r) :
    (∀ m ∈ ls1.flatMap Comm.issued, m.1 ∈ uidsExecutedOn (owner (opOf m.1)) s2.d.executed) ∧
    ∃ t, s2.d.executed = s1.d.executed ++ t ∧
      ∀ q, memOf c opOf n nh g (ls1 ++ ls2) q =
        List.foldl (fun st op => (c.apply st op).1) (memOf c opOf n nh g ls1 q) ((uidsExecutedOn q t).map opOf) := by
  have hl := (Comm.C02C01_later_exits n nh ls1 ls2 s1 s2 h1 h2 r hr hx hne).1
  obtain ⟨t, ht⟩ := Comm.dRun_executed _ (Comm.run_projD ls2 h2)
  refine ⟨?_, t, ht, ?_⟩
  · intro m hm
    rw [mem_uidsExecutedOn, ← (ha m hm).1]
    exact hl m hm
  · intro q
    rw [state_is_fold c opOf n nh g (ls1 ++ ls2) s2 (Comm.run_append ls1 ls2 h1 h2) q,
      state_is_fold c opOf n nh g ls1 s1 h1 q]
    unfold opsExecutedOn uidsExecutedOn
    rw [ht, List.filter_append, List.map_append, List.map_append, List.foldl_append]

end Main

/-! ### per-key corollaries -/

section Keyed
variable {σ Op Cb K τ : Type} [DecidableEq K]

/-- **keyed containers** (`Dist.owner_holds_fold` / `stored_only_on_owner` without hypothesis): in every reachable
state the part of key `k` held by `ownerK k` is the fold of the per-key step over the executed operations on `k`, in
execution order, and no other rank ever changes its `k` part; at the first return of a barrier the executed operations
are all issued operations and the execution is `Dist.Complete` -/
theorem keyed_after_barrier (kc : Dist.Keyed σ Op Cb K τ) (ownerK : K → Nat) (opOf : Nat → Op)
    (n : Nat) (nh : Nat → Nat → Nat) (g : Nat → σ) (ls : List Label) (s : St)
    (hrun : Comm.run n nh Comm.init ls = some s)
    (ha : Addressed (fun o => ownerK (kc.key o)) opOf ls) (hh : HandlersApply kc.toContainer opOf n nh g ls)
    (r : Nat) (hr : r < n) (hx : BarrierME.exitEnabled s.b r = true) (hne : ∀ q, q < n → s.b.epoch q ≤ s.b.epoch r)
    (k : K) :
    kc.proj (memOf kc.toContainer opOf n nh g ls (ownerK k)) k
      = (Dist.run kc.perKey (kc.proj (g (ownerK k)) k) (Dist.opsOn kc k (execOps opOf s))).state ∧
    (∀ q, ownerK k ≠ q → kc.proj (memOf kc.toContainer opOf n nh g ls q) k = kc.proj (g q) k) ∧
    (execOps opOf s).Perm (issuedOps opOf ls) ∧
    Dist.Complete kc.toContainer (fun o => ownerK (kc.key o)) g
      (mainOps opOf (ghostOf kc.toContainer opOf n nh g ls)) (execOps opOf s) := by
  refine ⟨?_, ?_, execOps_perm_issuedOps opOf n nh ls s hrun r hr hx hne,
    complete_at_barrier kc.toContainer _ opOf n nh g ls s hrun ha hh r hr hx hne⟩
  · unfold memOf
    rw [mem_eq_execGlobal kc.toContainer _ opOf n nh g ls s hrun ha]
    exact Dist.owner_holds_fold kc ownerK g _ k
  · intro q hq
    unfold memOf
    rw [mem_eq_execGlobal kc.toContainer _ opOf n nh g ls s hrun ha]
    exact Dist.stored_only_on_owner kc ownerK g _ q k hq

/-- the per-key statements need no barrier: in every reachable state (issuing discipline only) -/
theorem keyed_any_time (kc : Dist.Keyed σ Op Cb K τ) (ownerK : K → Nat) (opOf : Nat → Op)
    (n : Nat) (nh : Nat → Nat → Nat) (g : Nat → σ) (ls : List Label) (s : St)
    (hrun : Comm.run n nh Comm.init ls = some s)
    (ha : Addressed (fun o => ownerK (kc.key o)) opOf ls) (k : K) :
    kc.proj (memOf kc.toContainer opOf n nh g ls (ownerK k)) k
      = (Dist.run kc.perKey (kc.proj (g (ownerK k)) k) (Dist.opsOn kc k (execOps opOf s))).state ∧
    (∀ q, ownerK k ≠ q → kc.proj (memOf kc.toContainer opOf n nh g ls q) k = kc.proj (g q) k) := by
  refine ⟨?_, ?_⟩
  · unfold memOf
    rw [mem_eq_execGlobal kc.toContainer _ opOf n nh g ls s hrun ha]
    exact Dist.owner_holds_fold kc ownerK g _ k
  · intro q hq
    unfold memOf
    rw [mem_eq_execGlobal kc.toContainer _ opOf n nh g ls s hrun ha]
    exact Dist.stored_only_on_owner kc ownerK g _ q k hq

end Keyed

/-- **C11 end to end** (`ygm::container::map` / `multimap`): at the first return of a barrier, the values of key `k`
on `owner(k)` are the fold of the per-key step over the operations on `k` in their execution order, no other rank holds
anything for `k` that it did not hold initially, the executed operations are exactly all the operations issued before
the barrier (by main programs, visitors and pre-barrier callbacks), each once, and `Dist.Complete` holds -/
theorem C11_map_after_barrier {K V A : Type} [DecidableEq K] (u : MapOps.User K V A) (dflt : V) (ownerK : K → Nat)
    (opOf : Nat → MapOps.Op K V A) (n : Nat) (nh : Nat → Nat → Nat) (g : Nat → MapOps.Assoc K V)
    (ls : List Label) (s : St) (hrun : Comm.run n nh Comm.init ls = some s)
    (ha : Addressed (fun o => ownerK o.key) opOf ls)
    (hh : HandlersApply (MapOps.container u dflt) opOf n nh g ls)
    (r : Nat) (hr : r < n) (hx : BarrierME.exitEnabled s.b r = true) (hne : ∀ q, q < n → s.b.epoch q ≤ s.b.epoch r)
    (k : K) :
    MapOps.values (memOf (MapOps.container u dflt) opOf n nh g ls (ownerK k)) k
      = (Dist.run ⟨MapOps.applyK u dflt⟩ (MapOps.values (g (ownerK k)) k)
          ((execOps opOf s).filter (fun o => o.key = k))).state ∧
    (∀ q, ownerK k ≠ q → MapOps.values (memOf (MapOps.container u dflt) opOf n nh g ls q) k = MapOps.values (g q) k) ∧
    (execOps opOf s).Perm (issuedOps opOf ls) ∧
    Dist.Complete (MapOps.container u dflt) (fun o => ownerK o.key) g
      (mainOps opOf (ghostOf (MapOps.container u dflt) opOf n nh g ls)) (execOps opOf s) :=
  keyed_after_barrier (MapOps.keyed u dflt) ownerK opOf n nh g ls s hrun ha hh r hr hx hne k

/-- **C12 end to end** (`ygm::container::set` / `multiset`): the multiplicity of `k` on `owner(k)` after a barrier is
the fold of the per-key step over the operations on `k` in their execution order, … -/
theorem C12_set_after_barrier {K A : Type} [DecidableEq K] (u : SetOps.User K A) (ownerK : K → Nat)
    (opOf : Nat → SetOps.Op K A) (n : Nat) (nh : Nat → Nat → Nat) (g : Nat → List K)
    (ls : List Label) (s : St) (hrun : Comm.run n nh Comm.init ls = some s)
    (ha : Addressed (fun o => ownerK o.key) opOf ls)
    (hh : HandlersApply (SetOps.container u) opOf n nh g ls)
    (r : Nat) (hr : r < n) (hx : BarrierME.exitEnabled s.b r = true) (hne : ∀ q, q < n → s.b.epoch q ≤ s.b.epoch r)
    (k : K) :
    SetOps.count (memOf (SetOps.container u) opOf n nh g ls (ownerK k)) k
      = (Dist.run ⟨SetOps.applyK u⟩ (SetOps.count (g (ownerK k)) k)
          ((execOps opOf s).filter (fun o => o.key = k))).state ∧
    (∀ q, ownerK k ≠ q → SetOps.count (memOf (SetOps.container u) opOf n nh g ls q) k = SetOps.count (g q) k) ∧
    (execOps opOf s).Perm (issuedOps opOf ls) ∧
    Dist.Complete (SetOps.container u) (fun o => ownerK o.key) g
      (mainOps opOf (ghostOf (SetOps.container u) opOf n nh g ls)) (execOps opOf s) :=
  keyed_after_barrier (SetOps.keyed u) ownerK opOf n nh g ls s hrun ha hh r hr hx hne k

/-! ### (4) non-vacuity -/

section Examples

/-- 2 nodes x 2 ranks, "NR-like" routing (as in Props/C01.lean, Props/C02C01.lean): rank 0 reaches rank 3 via rank 2,
rank 3 reaches rank 0 via rank 1 -/
private def nhDemo (me d : Nat) : Nat := if me / 2 = d / 2 then d else (d / 2) * 2 + me % 2

/-- every visitor adds its argument to the value and issues `async_insert(key + 1, old value)` from inside the handler -/
private def demoUser : MapOps.User Nat Nat Nat where
  visitor := fun _ k v a => (v + a, [.insert (k + 1) v])
  visitor2 := fun _ _ v _ _ => (v, [])
  visitorG := fun _ _ vs _ => (vs, [])
  reducer := fun _ x y => x + y

/-- which map operation each message carries -/
private def demoOp : Nat → MapOps.Op Nat Nat Nat
  | 7 => .insert 3 10
  | 8 => .visit 3 0 5
  | 9 => .insert 4 10
  | _ => .erase 0

private def ownerK (k : Nat) : Nat := k % 4
private def cont := MapOps.container demoUser 0
private def g0 : Nat → MapOps.Assoc Nat Nat := fun _ => []

private def round4 : List Label :=
  [.contribute 0, .contribute 1, .contribute 2, .contribute 3, .result 0, .result 1, .result 2, .result 3]

/-- ranks 0 and 1 both update map key 3 (owner: rank 3) before a barrier: rank 0 `async_insert(3, 10)` (uid 7,
FORWARDED by rank 2), rank 1 `async_visit(3, +5)` (uid 8, direct).  The visitor runs on rank 3 inside the barrier and
issues `async_insert(4, 10)` (uid 9, owner rank 0, forwarded by rank 1) from inside the handler. -/
private def demo : List Label :=
  [.async 0 7 3 false, .async 1 8 3 false, .enter 0, .enter 1, .enter 2, .enter 3,
   .isend 0 2, .recvBegin 2 0 0, .fwd 2 7, .recvEnd 2, .isend 2 3,
   .recvBegin 3 2 0, .execBegin 3 7, .execEnd 3 7, .recvEnd 3,
   .isend 1 3, .recvBegin 3 1 0, .execBegin 3 8, .async 3 9 0 false, .execEnd 3 8, .recvEnd 3,
   .isend 3 1, .recvBegin 1 3 0, .fwd 1 9, .recvEnd 1, .isend 1 0,
   .recvBegin 0 1 1, .execBegin 0 9, .execEnd 0 9, .recvEnd 0] ++ round4 ++ round4

set_option maxRecDepth 32768 in
/-- the history is accepted, at its end the exit rule holds (first return of barrier 0), all three handlers ran -/
example : ((Comm.run 4 nhDemo Comm.init demo).map (fun s =>
    (s.d.executed, BarrierME.exitEnabled s.b 0, BarrierME.exitEnabled s.b 3,
     (List.range 4).map s.b.epoch, (Comm.step 4 nhDemo s (.exit 0)).isSome))) =
    some ([(3, 7), (3, 8), (0, 9)], true, true, [0, 0, 0, 0], true) := by decide

set_option maxRecDepth 32768 in
/-- the issuing discipline and `HandlersApply` hold for it: the hypotheses of the main theorem are satisfiable -/
example : Addressed (fun o => ownerK o.key) demoOp demo ∧ HandlersApply cont demoOp 4 nhDemo g0 demo := by decide

set_option maxRecDepth 32768 in
/-- the induced memories: rank 3 holds key 3 with 10 + 5, rank 0 holds key 4, ranks 1 and 2 (pure forwarders) nothing;
uid 9 is tagged as issued by the handler of uid 8, the other two as main-issued -/
example : (List.range 4).map (memOf cont demoOp 4 nhDemo g0 demo) = [[(4, 10)], [], [], [(3, 15)]] ∧
    (ghostOf cont demoOp 4 nhDemo g0 demo).tagged = [(none, 7), (none, 8), (some 8, 9)] ∧
    mainOps demoOp (ghostOf cont demoOp 4 nhDemo g0 demo) = [.insert 3 10, .visit 3 0 5] ∧
    (ghostOf cont demoOp 4 nhDemo g0 demo).handlerLog = [([], []), ([.insert 4 10], [.insert 4 10]), ([], [])] := by
  decide

set_option maxRecDepth 32768 in
/-- the per-rank execution lists of that run and the extracted global execution sequence -/
example : ((Comm.run 4 nhDemo Comm.init demo).map (fun s =>
    ((List.range 4).map (fun q => opsExecutedOn demoOp q s), execOps demoOp s))) =
    some ([[.insert 4 10], [], [], [.insert 3 10, .visit 3 0 5]], [.insert 3 10, .visit 3 0 5, .insert 4 10]) := by
  decide

/-- what `Dist` computes from that sequence: the emitted operations are the handler-issued message, the global
execution yields the induced memories, and the sequence is `Dist.Complete` for the main-issued operations -/
example : Dist.emittedGlobal cont (fun o => ownerK o.key) g0 [.insert 3 10, .visit 3 0 5, .insert 4 10] = [.insert 4 10] ∧
    (List.range 4).map (Dist.execGlobal cont (fun o => ownerK o.key) g0 [.insert 3 10, .visit 3 0 5, .insert 4 10]) =
      [[(4, 10)], [], [], [(3, 15)]] := by decide

/-- the end-to-end theorem applied to the demo: every hypothesis about the history is discharged by `decide` -/
example (s : St) (hrun : Comm.run 4 nhDemo Comm.init demo = some s) (hx : BarrierME.exitEnabled s.b 0 = true)
    (hne : ∀ q, q < 4 → s.b.epoch q ≤ s.b.epoch 0) :
    MapOps.values (memOf cont demoOp 4 nhDemo g0 demo (ownerK 3)) 3
      = (Dist.run ⟨MapOps.applyK demoUser 0⟩ [] ((execOps demoOp s).filter (fun o => o.key = 3))).state ∧
    (execOps demoOp s).Perm (issuedOps demoOp demo) :=
  have h := C11_map_after_barrier demoUser 0 ownerK demoOp 4 nhDemo g0 demo s hrun (by decide) (by decide) 0
    (by decide) hx hne 3
  ⟨h.1, h.2.2.1⟩

/-- a handler that does NOT issue what the visitor emits is not a history of this container -/
example : ¬ HandlersApply cont demoOp 4 nhDemo g0
    [.async 0 7 3 false, .async 1 8 3 false, .isend 0 2, .recvBegin 2 0 0, .fwd 2 7, .recvEnd 2, .isend 2 3,
     .recvBegin 3 2 0, .execBegin 3 7, .execEnd 3 7, .recvEnd 3,
     .isend 1 3, .recvBegin 3 1 0, .execBegin 3 8, .execEnd 3 8] := by decide

/-- an operation sent to a rank that does not own its key violates the issuing discipline -/
example : ¬ Addressed (fun o => ownerK o.key) demoOp [.async 0 7 2 false] := by decide

/-- the other execution order (visit before insert) is a different history of a different program: the visitor then
sees the default value, so uid 9 would have to carry `insert 4 0` — with `demoOp` it is rejected -/
example : ¬ HandlersApply cont demoOp 4 nhDemo g0
    [.async 0 7 3 false, .async 1 8 3 false,
     .isend 1 3, .recvBegin 3 1 0, .execBegin 3 8, .async 3 9 0 false, .execEnd 3 8] := by decide

/-- handler atomicity: a second handler cannot start on rank 3 while the first has not returned -/
example : (Comm.run 4 nhDemo Comm.init
    [.async 0 7 3 false, .async 1 8 3 false, .isend 0 2, .recvBegin 2 0 0, .fwd 2 7, .recvEnd 2, .isend 2 3,
     .isend 1 3, .recvBegin 3 2 0, .execBegin 3 7, .recvEnd 3]).isNone = true ∧
    (Comm.run 4 nhDemo Comm.init
    [.async 0 7 3 false, .async 0 8 3 false, .isend 0 2, .recvBegin 2 0 0, .fwd 2 7, .fwd 2 8, .recvEnd 2, .isend 2 3,
     .recvBegin 3 2 0, .execBegin 3 7, .execBegin 3 8]).isNone = true := by decide

end Examples

end YgmVerif.DistComm
