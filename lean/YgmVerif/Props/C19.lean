import YgmVerif.Lemmas.Out
/-!
# C19 — multi_output / daily_output write every line exactly once to the file of its subpath

Theorems about `YgmVerif.Out` (the model of multi_output.hpp / daily_output.hpp).
Quantifiers: every buffer length `L ≥ 0`, every list of lines (empty lines and lines
longer than `L` included), every write history (one list per origin rank), every
hash function and communicator size, every delivery order that is a permutation of
what was sent (that exactly-once delivery is C01/C02: the destructor's `barrier()`),
every day number.

Outside the model (trusted, exercised by the correspondence run): the filesystem,
`std::ofstream`, `std::hash<std::string>`, `std::gmtime`.
-/
namespace YgmVerif.Out

/-! ## the buffered stream -/

/-- The bytes handed to `ofstream::write`, concatenated, are exactly the lines, each
followed by one `'\n'`, in arrival order — for every buffer length and every line list. -/
theorem flushes_concat (L : Nat) (lines : List Bytes) :
    (bufferedAppend L lines).flatten = withNl lines := by
  have h := feed_all L Buf.empty lines
  have h2 := flushBuffer_all (feed L Buf.empty lines)
  have h3 := flushBuffer_buf (feed L Buf.empty lines)
  unfold bufferedAppend
  unfold Buf.all at h h2
  rw [h3] at h2
  simp only [List.append_nil] at h2
  rw [h2, h]
  simp [Buf.empty]

/-- Every single `write` is non-empty and consists of whole lines: the line list is cut
into consecutive non-empty groups and each chunk is one group (a line is never split
across two writes, a line longer than `L` forms a chunk with the lines buffered before it). -/
theorem flushes_whole_lines (L : Nat) (lines : List Bytes) :
    ∃ groups : List (List Bytes), groups.flatten = lines ∧
      bufferedAppend L lines = groups.map withNl ∧ ∀ g ∈ groups, g ≠ [] := by
  have h0 : Grouped Buf.empty [] := ⟨[], [], rfl, rfl, rfl, by simp⟩
  have h1 := feed_grouped L Buf.empty [] lines h0
  have h2 := flushBuffer_grouped _ _ h1
  obtain ⟨gs, g, e1, e2, e3, e4⟩ := h2
  have hb := flushBuffer_buf (feed L Buf.empty lines)
  rw [hb] at e3
  have hg : g = [] := withNl_eq_nil e3.symm
  subst hg
  exact ⟨gs, by simpa using e1, e2, e4⟩

/-- After every `buffer_output` at most `L` bytes are pending (`>` in the code, not `≥`:
exactly `L` bytes stay buffered). -/
theorem buffer_bounded (L : Nat) (st : Buf) (s : Bytes) : (bufferOutput L st s).buf.length ≤ L :=
  bufferOutput_buf_le L st s

/-- A buffer of exactly `L` bytes is *not* flushed (the comparison is strict). -/
theorem buffer_keeps_exactly_L (st : Buf) (s : Bytes) :
    (bufferOutput (st.buf ++ s ++ [nl]).length st s).written = st.written := by
  simp [bufferOutput]

/-- Reading the written bytes back line by line gives the lines, each once, in order,
with nothing left over — provided no line contains `'\n'` itself. -/
theorem lines_read_back (L : Nat) (lines : List Bytes) (h : ∀ l ∈ lines, nl ∉ l) :
    splitNl (bufferedAppend L lines).flatten = (lines, []) := by
  rw [flushes_concat, splitNl_withNl lines h]

/-! ## packing the arguments of a call -/

/-- formatting state set by a manipulator argument acts on the LATER arguments of the same call … -/
theorem pack_append (st : Fmt) (a b : List Tok) :
    packFrom st (a ++ b) =
      ((packFrom st a).1 ++ (packFrom (packFrom st a).2 b).1, (packFrom (packFrom st a).2 b).2) := by
  induction a generalizing st with
  | nil => simp [packFrom]
  | cons t ts ih => simp [packFrom, ih, List.append_assoc]

/-- … and on nothing else: whatever calls were made before or after on the same object (with
`std::hex`, `std::boolalpha`, … among their arguments), the line a call writes is the text a
freshly constructed stream produces for that call's own arguments -/
theorem line_independent_of_history (before after : List (List Tok)) (c : List Tok) :
    (linesOf (before ++ c :: after))[before.length]? = some (pack c) := by
  simp [linesOf]

/-- string arguments are concatenated unchanged -/
theorem pack_strings (bs : List Bytes) : pack (bs.map Tok.str) = bs.flatten := by
  unfold pack
  generalize Fmt.init = st
  induction bs with
  | nil => rfl
  | cons b bs ih => simp [packFrom, emit, ih]

/-- `("h=", std::hex, 255)` is `h=ff`; a later `(255, true)` is `2551`, not `ff` / `true` -/
example : pack [.str [104, 61], .hex, .nat 255] = [104, 61, 102, 102] ∧
    linesOf [[.hex, .boolalpha, .nat 255], [.nat 255, .bool true]] = [[102, 102], [50, 53, 53, 49]] := by
  refine ⟨?_, ?_⟩ <;> simp [linesOf, pack, packFrom, emit, Fmt.init, digitsIn, digitChar] <;> decide

/-! ## open modes -/

/-- append on: the old content stays ahead of the new lines -/
theorem append_keeps_old (old : Bytes) (L : Nat) (lines : List Bytes) (h : lines ≠ []) :
    fileAfter true (some old) L lines = some (old ++ withNl lines) := by
  cases lines with
  | nil => exact absurd rfl h
  | cons l ls => simp [fileAfter, flushes_concat]

/-- append on, no file before: just the lines -/
theorem append_creates (L : Nat) (lines : List Bytes) (h : lines ≠ []) :
    fileAfter true none L lines = some (withNl lines) := by
  cases lines with
  | nil => exact absurd rfl h
  | cons l ls => simp [fileAfter, flushes_concat]

/-- append off: whatever was there is replaced by the lines -/
theorem trunc_replaces (old : Option Bytes) (L : Nat) (lines : List Bytes) (h : lines ≠ []) :
    fileAfter false old L lines = some (withNl lines) := by
  cases lines with
  | nil => exact absurd rfl h
  | cons l ls => simp [fileAfter, flushes_concat]

/-- a subpath nobody writes to is never opened: the file (or its absence) is left as it was,
in both modes -/
theorem unwritten_untouched (append : Bool) (old : Option Bytes) (L : Nat) :
    fileAfter append old L [] = old := rfl

/-! ## one writer per file -/

/-- the owner of a subpath is a valid rank -/
theorem owner_lt {S : Type} (hash : S → Nat) (n : Nat) (hn : 0 < n) (s : S) : owner hash n s < n :=
  Nat.mod_lt _ hn

/-- Let `hist r` be the writes issued on rank `r` and let `arr r` be what rank `r` has
received when the destructor's barrier returns — any order, but exactly the writes
destined to it (C01/C02).  Then for every subpath `s`:
* no rank other than `owner s` ever sees a line of `s` (so it never opens the file), and
* the owner sees exactly the lines written to `s` by all ranks — a permutation of the
  concatenated per-origin-rank sequences. -/
theorem one_writer_per_file {S : Type} [DecidableEq S] (hash : S → Nat) (n : Nat)
    (hist : List (List (Write S))) (arr : Nat → List (Write S))
    (harr : ∀ r, (arr r).Perm (destinedTo hash n hist r)) (s : S) :
    (∀ r, r ≠ owner hash n s → linesFor (arr r) s = []) ∧
    (linesFor (arr (owner hash n s)) s).Perm ((hist.map (linesFor · s)).flatten) := by
  constructor
  · intro r hr
    have := linesFor_perm (harr r) s
    rw [linesFor_destined_other hash n hist s r hr] at this
    exact List.Perm.eq_nil this
  · have := linesFor_perm (harr (owner hash n s)) s
    rw [linesFor_destined_owner, allWrites, linesFor_flatten] at this
    exact this

/-- End to end for one subpath that receives at least one line: after destruction the file
is `kept ++ (got with a newline after each)`, where `kept` is the old content (append on)
or nothing (append off), and `got` is a permutation of all lines written to the subpath by
all ranks; if no line contains `'\n'`, reading the new part back yields exactly `got`. -/
theorem file_holds_exactly_the_lines {S : Type} [DecidableEq S] (hash : S → Nat) (n : Nat)
    (hist : List (List (Write S))) (arr : Nat → List (Write S))
    (harr : ∀ r, (arr r).Perm (destinedTo hash n hist r)) (s : S)
    (append : Bool) (old : Option Bytes) (L : Nat)
    (hne : (hist.map (linesFor · s)).flatten ≠ []) :
    ∃ got : List Bytes, got.Perm ((hist.map (linesFor · s)).flatten) ∧
      fileAfter append old L (linesFor (arr (owner hash n s)) s) =
        some ((if append then old.getD [] else []) ++ withNl got) ∧
      ((∀ l ∈ (hist.map (linesFor · s)).flatten, nl ∉ l) → splitNl (withNl got) = (got, [])) := by
  obtain ⟨_, hp⟩ := one_writer_per_file hash n hist arr harr s
  refine ⟨linesFor (arr (owner hash n s)) s, hp, ?_, ?_⟩
  · have hne' : linesFor (arr (owner hash n s)) s ≠ [] := by
      intro e; rw [e] at hp; exact hne (List.Perm.eq_nil hp.symm)
    cases hl : linesFor (arr (owner hash n s)) s with
    | nil => exact absurd hl hne'
    | cons a as => simp [fileAfter, flushes_concat]
  · intro hnl
    apply splitNl_withNl
    intro l hl
    exact hnl l (hp.subset hl)

/-! ## daily_output: the date path -/

/-- round trip day number → (y, m, d) → day number, for every day -/
theorem civil_days_roundtrip (z : Nat) :
    eraDaysFromCivil (civilFromDays z).1 (civilFromDays z).2.1 (civilFromDays z).2.2 = z + 719468 :=
  civil_roundtrip z

/-- month and day are in calendar range, for every day -/
theorem civil_valid (z : Nat) :
    1 ≤ (civilFromDays z).2.1 ∧ (civilFromDays z).2.1 ≤ 12 ∧
    1 ≤ (civilFromDays z).2.2 ∧ (civilFromDays z).2.2 ≤ 31 := by
  have hdoe : (z + 719468) % 146097 < 146097 := Nat.mod_lt _ (by omega)
  obtain ⟨_, _, hhi⟩ := yoe_spec _ hdoe
  obtain ⟨m1, m12, d1, d31, _⟩ := mdOfDoy_spec _ hhi
  rw [civilFromDays_eq]
  exact ⟨m1, m12, d1, d31⟩

/-- the day of month never exceeds the length of its month (leap rule included) -/
theorem civil_day_in_month (z : Nat) :
    (civilFromDays z).2.2 ≤ daysInMonth (civilFromDays z).1 (civilFromDays z).2.1 := by
  obtain ⟨era, y, doy, hy, hd, hz⟩ := civil_nf z
  rw [civil_of_nf z era y doy hy hd hz]
  have hlen : eraLen y = 365 ∨ eraLen y = 366 := by unfold eraLen; split <;> simp
  obtain ⟨m1, m12, _, _, _⟩ := mdOfDoy_spec doy (by omega)
  have hdim := daysInMonth_civ y era (mdOfDoy doy).1 m1 m12
  have hle := mdOf_le_dim doy (eraLen y) _ hlen hd rfl
  rw [← mdOfDoy_eq] at hle
  unfold civOf
  simp only []
  rw [hdim]
  exact hle

/-- day 0 is 1 January 1970 … -/
theorem civil_epoch : civilFromDays 0 = (1970, 1, 1) := by decide

/-- … and every following day is the Gregorian successor of the day before
(`nextDay`: next day of the month, else first of the next month, else 1 January of the next
year; February has 29 days iff the year is divisible by 4 and not by 100, or by 400).
Together with `civil_epoch` this determines `civilFromDays` completely: it IS the
proleptic Gregorian calendar, for all days. -/
theorem civil_succ (z : Nat) : civilFromDays (z + 1) = nextDay (civilFromDays z) :=
  civil_succ_lemma z

/-- different days have different civil dates -/
theorem civil_injective {a b : Nat} (h : civilFromDays a = civilFromDays b) : a = b := by
  have ha := civil_roundtrip a
  have hb := civil_roundtrip b
  rw [h] at ha
  omega

/-- `std::to_string` rendering is injective and never contains the separator -/
theorem dec_inj {a b : Nat} (h : dec a = dec b) : a = b := dec_injective h

/-- Two timestamps get the same `year/month/day` subpath iff they lie on the same UTC day:
same date ⇒ same path, different dates ⇒ different paths (no padding, `/` separators). -/
theorem date_path_injective (a b : Nat) : datePath a = datePath b ↔ a / 86400 = b / 86400 := by
  constructor
  · intro h
    exact civil_injective (datePathOf_injective h)
  · intro h
    unfold datePath
    rw [h]

/-! ## non-vacuity -/

/-- buffer length 3: a short line stays buffered, a line longer than the buffer is flushed
together with it, an empty line is a lone `'\n'`, the destructor flushes the rest -/
example : bufferedAppend 3 [[1, 2], [3], [4, 5, 6, 7], [], [8]] =
    [[1, 2, 10, 3, 10], [4, 5, 6, 7, 10], [10, 8, 10]] := by decide
/-- buffer length 0: every line is its own write -/
example : bufferedAppend 0 [[1], [], [2, 3]] = [[1, 10], [10], [2, 3, 10]] := by decide
/-- exactly `L` bytes pending are not flushed by `buffer_output` -/
example : (bufferOutput 3 Buf.empty [1, 2]).written = [] ∧ (bufferOutput 2 Buf.empty [1, 2]).written = [[1, 2, 10]] := by decide
example : fileAfter true (some [7, 10]) 1 [[1], [2]] = some [7, 10, 1, 10, 2, 10] ∧
    fileAfter false (some [7, 10]) 1 [[1], [2]] = some [1, 10, 2, 10] ∧
    fileAfter false (some [7, 10]) 1 [] = some [7, 10] := by decide
/-- two ranks, two subpaths (0 and 1, identity hash): each file gets the lines of both origins -/
example : (destinedTo (fun s : Nat => s) 2 [[(0, [1]), (1, [2])], [(1, [3]), (0, [4])]] 1) = [(1, [2]), (1, [3])] := by decide
/-- epoch, a leap day, the day after, a century non-leap year, year end -/
example : civilFromDays 0 = (1970, 1, 1) ∧ civilFromDays 11016 = (2000, 2, 29) ∧
    civilFromDays 11017 = (2000, 3, 1) ∧ civilFromDays 47540 = (2100, 2, 28) ∧
    civilFromDays 47541 = (2100, 3, 1) ∧ civilFromDays 364 = (1970, 12, 31) ∧ civilFromDays 365 = (1971, 1, 1) := by decide
/-- the successor rule at a leap day, a century non-leap year and a year end -/
example : nextDay (2000, 2, 28) = (2000, 2, 29) ∧ nextDay (2100, 2, 28) = (2100, 3, 1) ∧
    nextDay (1999, 12, 31) = (2000, 1, 1) ∧ nextDay (2024, 4, 30) = (2024, 5, 1) := by decide

end YgmVerif.Out
