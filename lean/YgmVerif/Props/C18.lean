import YgmVerif.Lemmas.Lines
/-!
# C18 — line_parser hands out every line of every file exactly once

Theorems about `YgmVerif.Lines` (model of `ygm::io::line_parser::for_all`, the csv and
ndjson wrappers).  They hold for every list of files (any number, empty files, empty lines,
lines longer than a rank's share, missing final newline), every communicator size `n > 0`
and every granule `G` (8 MiB in the code, a parameter here — `G = 0` included).

The only hypothesis on files is `File.WF`: the *representation* is canonical (a file
without final newline is not written with an empty last line; that byte string is the file
with one line less and a final newline).  Every byte string has exactly one canonical
representation, so no file is excluded.
-/
namespace YgmVerif.Lines

/-! ## read_spec: the boundary rule of the reader -/

theorem inRange_iff (b e s : Nat) : inRange b e s = true ↔ (s = 0 ∧ b = 0) ∨ (b < s ∧ s ≤ e) := by
  simp only [inRange, Bool.or_eq_true, Bool.and_eq_true, decide_eq_true_eq, beq_iff_eq]
  omega

/-- The reader assigned `(file, b, e)` delivers, in file order, exactly the lines whose
start offset `s` satisfies `s = 0 = b ∨ b < s ≤ e`. -/
theorem read_spec (f : File) (b e : Nat) (hwf : f.WF) :
    readRange f b e =
      (f.starts.zipIdx).filterMap (fun (p : Nat × Nat) => if inRange b e p.1 then some p.2 else none) :=
  readRange_eq f b e hwf

theorem starts_length (f : File) : f.starts.length = f.lens.length := offsets_length 0 f.lens

/-- membership form of `read_spec` -/
theorem mem_readRange (f : File) (b e i : Nat) (hwf : f.WF) :
    i ∈ readRange f b e ↔ ∃ s, f.starts[i]? = some s ∧ ((s = 0 ∧ b = 0) ∨ (b < s ∧ s ≤ e)) := by
  rw [read_spec f b e hwf, List.mem_filterMap]
  constructor
  · rintro ⟨⟨s, j⟩, hmem, h⟩
    have hj := List.mem_zipIdx_iff_getElem?.mp hmem
    by_cases hr : inRange b e s = true
    · simp only [hr, if_true, Option.some.injEq] at h
      subst h
      exact ⟨s, hj, (inRange_iff b e s).mp hr⟩
    · simp [hr] at h
  · rintro ⟨s, hs, hc⟩
    refine ⟨(s, i), List.mem_zipIdx_iff_getElem?.mpr hs, ?_⟩
    simp [(inRange_iff b e s).mpr hc]

/-- no line twice within one range, and in file order -/
theorem readRange_sublist (f : File) (b e : Nat) (hwf : f.WF) :
    (readRange f b e).Sublist (List.range f.lens.length) := by
  rw [read_spec f b e hwf, List.range_eq_range', ← offsets_zipIdx_snd 0 0 f.lens]
  unfold File.starts
  generalize (offsets 0 f.lens).zipIdx = l
  induction l with
  | nil => simp
  | cons x t ih =>
    rw [List.filterMap_cons, List.map_cons]
    split
    · exact ih.cons _
    · next h =>
      split at h
      · simp only [Option.some.injEq] at h; subst h; exact ih.cons_cons _
      · simp at h

theorem readRange_nodup (f : File) (b e : Nat) (hwf : f.WF) : (readRange f b e).Nodup :=
  (readRange_sublist f b e hwf).nodup List.nodup_range

/-- two adjacent assignments deliver together what the joint assignment would -/
theorem read_adjacent (f : File) (b m e : Nat) (hwf : f.WF) (hbm : b < m) (hme : m ≤ e) :
    (readRange f b m ++ readRange f m e).Perm (readRange f b e) := readRange_split f b m e hwf hbm hme

/-- the assignment `[0, size]` delivers every line -/
theorem read_whole (f : File) (hwf : f.WF) : readRange f 0 f.size = List.range f.lens.length :=
  readRange_whole f hwf

/-! ## carve_consecutive: the byte ranges of a file tile `[0, size]` -/

/-- `Consecutive size b l`: `l = [(b,e₁),(e₁,e₂),…,(e_k,size)]`, non-empty, with
`b < e₁ < e₂ < … < e_k < size` for the interior cut points -/
def Consecutive (size : Nat) : Nat → List (Nat × Nat) → Prop
  | _, [] => False
  | b, (b', e) :: rest => b' = b ∧ ((rest = [] ∧ e = size) ∨ (b < e ∧ e < size ∧ Consecutive size e rest))

instance decConsecutive : ∀ (size b : Nat) (l : List (Nat × Nat)), Decidable (Consecutive size b l)
  | _, _, [] => isFalse (by simp [Consecutive])
  | size, b, (b', e) :: rest => by
    unfold Consecutive
    have := decConsecutive size e rest
    exact inferInstance

/-- the assignments of file `f`, in rank order (and in sending order within a rank) -/
def rangesOf (f : Nat) (L : List Range) : List (Nat × Nat) :=
  (L.filter (fun r => r.file == f)).map (fun r => (r.b, r.e))

theorem tiling_consecutive {rem : List Rem} {L : List Range} (h : Tiling rem L)
    (hnd : (rem.map (·.1)).Nodup) :
    (∀ x ∈ rem, Consecutive x.2.2 x.2.1 (rangesOf x.1 L)) ∧
    (∀ f, f ∉ rem.map (·.1) → rangesOf f L = []) := by
  induction h with
  | nil => simp [rangesOf]
  | @whole g cur fsz rest L _ ih =>
    simp only [List.map_cons, List.nodup_cons] at hnd
    obtain ⟨ih1, ih2⟩ := ih hnd.2
    constructor
    · intro x hx
      rcases List.mem_cons.mp hx with hx | hx
      · subst hx
        have : rangesOf g L = [] := ih2 g hnd.1
        simp only [rangesOf, List.filter_cons, beq_self_eq_true, if_true, List.map_cons] at this ⊢
        rw [this]; simp [Consecutive]
      · have hne : g ≠ x.1 := by
          intro hh; apply hnd.1; rw [hh]; exact List.mem_map_of_mem hx
        have := ih1 x hx
        simpa [rangesOf, List.filter_cons, hne] using this
    · intro f hf
      simp only [List.map_cons, List.mem_cons, not_or] at hf
      have hne : g ≠ f := fun hh => hf.1 hh.symm
      have := ih2 f hf.2
      simpa [rangesOf, List.filter_cons, hne] using this
  | @part g cur fsz x rest L _ hx0 hlt ih =>
    simp only [List.map_cons] at hnd ih
    obtain ⟨ih1, ih2⟩ := ih hnd
    have hnd' := List.nodup_cons.mp hnd
    constructor
    · intro y hy
      rcases List.mem_cons.mp hy with hy | hy
      · subst hy
        have := ih1 (g, cur + x, fsz) (List.mem_cons_self ..)
        simp only [rangesOf, List.filter_cons, beq_self_eq_true, if_true, List.map_cons] at this ⊢
        simp only [Consecutive, true_and]
        right
        exact ⟨by omega, hlt, this⟩
      · have hne : g ≠ y.1 := by
          intro hh; apply hnd'.1; rw [hh]; exact List.mem_map_of_mem hy
        have := ih1 y (List.mem_cons_of_mem _ hy)
        simpa [rangesOf, List.filter_cons, hne] using this
    · intro f hf
      have hf' := hf
      simp only [List.map_cons, List.mem_cons, not_or] at hf
      have hne : g ≠ f := fun hh => hf.1 hh.symm
      have := ih2 f hf'
      simpa [rangesOf, List.filter_cons, hne] using this

theorem initRem_ids (sizes : List Nat) : (initRem sizes).map (·.1) = (List.range sizes.length).reverse := by
  unfold initRem
  rw [List.map_reverse, List.map_map]
  congr 1
  have : (fun (x : Rem) => x.1) ∘ (fun (p : Nat × Nat) => ((p.2, 0, p.1) : Rem)) = (fun p => p.2) := rfl
  rw [this, List.range_eq_range']
  generalize 0 = k
  induction sizes generalizing k with
  | nil => rfl
  | cons a t ih => simp [List.zipIdx_cons, List.range'_succ, ih]

theorem mem_initRem (sizes : List Nat) (f : Nat) (hf : f < sizes.length) :
    (f, 0, sizes[f]) ∈ initRem sizes := by
  unfold initRem
  rw [List.mem_reverse, List.mem_map]
  exact ⟨(sizes[f], f), List.mem_zipIdx_iff_getElem?.mpr (by simp [hf]), rfl⟩

theorem carve_length (sizes : List Nat) (n G : Nat) : (carve sizes n G).length = n := by
  unfold carve; split
  · exact carveLoop_length _ _ _
  · simp

/-- For every communicator size `n > 0`, every granule and every list of file sizes with a
positive total (empty files, files ending exactly on a budget boundary included): the
ranges assigned for file `f`, in rank order, are `[0,e₁],[e₁,e₂],…,[e_k,size_f]` with
strictly increasing cut points. -/
theorem carve_consecutive (sizes : List Nat) (n G : Nat) (hn : 0 < n) (htot : 0 < sizes.sum)
    (f : Nat) (hf : f < sizes.length) :
    Consecutive sizes[f] 0 (rangesOf f (carve sizes n G).flatten) := by
  have ht := carve_tiling sizes n G hn htot
  have hnd : ((initRem sizes).map (·.1)).Nodup := by
    rw [initRem_ids]; exact (List.reverse_perm _).nodup_iff.mpr List.nodup_range
  exact (tiling_consecutive ht hnd).1 _ (mem_initRem sizes f hf)

/-- no range for a file index that does not exist -/
theorem carve_no_foreign (sizes : List Nat) (n G : Nat) (hn : 0 < n) (htot : 0 < sizes.sum)
    (f : Nat) (hf : sizes.length ≤ f) : rangesOf f (carve sizes n G).flatten = [] := by
  have ht := carve_tiling sizes n G hn htot
  have hnd : ((initRem sizes).map (·.1)).Nodup := by
    rw [initRem_ids]; exact (List.reverse_perm _).nodup_iff.mpr List.nodup_range
  apply (tiling_consecutive ht hnd).2
  rw [initRem_ids]; simp; omega

/-- rank 0's `if (total_size > 0)`: nothing is assigned when every file is empty -/
theorem carve_total_zero (sizes : List Nat) (n G : Nat) (h : sizes.sum = 0) :
    (carve sizes n G).flatten = [] := by
  unfold carve; simp [h]

/-! ## lines_exactly_once -/

theorem readFile_split (files : List File) (hwf : ∀ F ∈ files, F.WF) (f b m e : Nat)
    (hbm : b < m) (hme : m ≤ e) :
    (readFile files ⟨f, b, m⟩ ++ readFile files ⟨f, m, e⟩).Perm (readFile files ⟨f, b, e⟩) := by
  unfold readFile
  simp only
  cases hF : files[f]? with
  | none => simp
  | some F =>
    simp only [← List.map_append]
    exact (readRange_split F b m e (hwf F (List.mem_of_getElem? hF)) hbm hme).map _

theorem tiling_perm (files : List File) (hwf : ∀ F ∈ files, F.WF) {rem : List Rem} {L : List Range}
    (h : Tiling rem L) :
    (L.flatMap (readFile files)).Perm
      (rem.flatMap (fun x => readFile files ⟨x.1, x.2.1, x.2.2⟩)) := by
  induction h with
  | nil => simp
  | whole _ ih =>
    simp only [List.flatMap_cons]
    exact ih.append_left _
  | @part g cur fsz x rest L _ hx0 hlt ih =>
    simp only [List.flatMap_cons] at ih ⊢
    refine (ih.append_left _).trans ?_
    rw [← List.append_assoc]
    exact (readFile_split files hwf g cur (cur + x) fsz (by omega) (by omega)).append_right _

theorem flatten_map_flatMap {α β : Type} (g : α → List β) (l : List (List α)) :
    (l.map (fun rs => rs.flatMap g)).flatten = l.flatten.flatMap g := by
  induction l with
  | nil => rfl
  | cons a t ih => simp [List.flatMap_append, ih]

theorem flatMap_congr' {α β : Type} {g h : α → List β} {l : List α} (H : ∀ x ∈ l, g x = h x) :
    l.flatMap g = l.flatMap h := by
  induction l with
  | nil => rfl
  | cons a t ih =>
    rw [List.flatMap_cons, List.flatMap_cons, H a (List.mem_cons_self ..),
      ih (fun x hx => H x (List.mem_cons_of_mem _ hx))]

theorem sum_eq_zero_mem {l : List Nat} (h : l.sum = 0) : ∀ x ∈ l, x = 0 := by
  induction l with
  | nil => simp
  | cons a t ih =>
    simp only [List.sum_cons] at h
    intro x hx
    rcases List.mem_cons.mp hx with hx | hx
    · omega
    · exact ih (by omega) x hx

/-- **Exactly once.** For every list of (canonically represented) files, every communicator
size `n > 0` and every granule `G`, the `(file, line)` pairs delivered over all ranks and
all assigned ranges are a permutation of all lines of all files. -/
theorem lines_exactly_once (files : List File) (n G : Nat) (hn : 0 < n) (hwf : ∀ F ∈ files, F.WF) :
    (delivered files n G).flatten.Perm (allLines files) := by
  unfold delivered
  rw [flatten_map_flatMap]
  by_cases htot : 0 < (files.map File.size).sum
  · refine (tiling_perm files hwf (carve_tiling _ n G hn htot)).trans ?_
    unfold initRem allLines
    refine (List.Perm.flatMap_right _ (List.reverse_perm _)).trans ?_
    rw [List.zipIdx_map, List.map_map, List.flatMap_map]
    apply List.Perm.of_eq
    apply flatMap_congr'
    intro p hp
    have hget := List.mem_zipIdx_iff_getElem?.mp hp
    simp only [Function.comp, readFile, Prod.map, id, hget]
    rw [readRange_whole p.1 (hwf _ (List.mem_of_getElem? hget))]
  · have h0 : (files.map File.size).sum = 0 := by omega
    rw [carve_total_zero _ n G h0]
    have hz := sum_eq_zero_mem h0
    unfold allLines
    apply List.Perm.of_eq
    symm
    simp only [List.flatMap_nil]
    rw [List.flatMap_eq_nil_iff]
    intro p hp
    have hget := List.mem_zipIdx_iff_getElem?.mp hp
    have hmem : p.1 ∈ files := List.mem_of_getElem? hget
    have hs : p.1.size = 0 := hz _ (List.mem_map_of_mem hmem)
    simp [size_eq_zero_lens (hwf _ hmem) hs]

/-- every rank of the communicator gets an entry (possibly empty) -/
theorem delivered_length (files : List File) (n G : Nat) : (delivered files n G).length = n := by
  unfold delivered; rw [List.length_map, carve_length]

/-- counting form: each line of each file is delivered exactly once, nothing else is -/
theorem delivered_count (files : List File) (n G : Nat) (hn : 0 < n) (hwf : ∀ F ∈ files, F.WF)
    (x : Nat × Nat) : (delivered files n G).flatten.count x = (allLines files).count x :=
  (lines_exactly_once files n G hn hwf).count_eq x

/-! ## records_spec: the csv and ndjson wrappers -/

/-- `csv_parser::for_all` over all ranks yields, up to order, `parse_csv_line` of every line
whose field vector is not empty (`parseCsv` and the line texts are parameters) -/
theorem records_spec_csv {α φ : Type} (text : Nat × Nat → α) (parseCsv : α → List φ)
    (files : List File) (n G : Nat) (hn : 0 < n) (hwf : ∀ F ∈ files, F.WF) :
    (((delivered files n G).map (fun ls => csvWrap parseCsv (ls.map text))).flatten).Perm
      (csvWrap parseCsv ((allLines files).map text)) := by
  have h := lines_exactly_once files n G hn hwf
  have : ((delivered files n G).map (fun ls => csvWrap parseCsv (ls.map text))).flatten
      = csvWrap parseCsv ((delivered files n G).flatten.map text) := by
    generalize delivered files n G = d
    induction d with
    | nil => rfl
    | cons a t ih => simp [csvWrap, List.filterMap_append] at ih ⊢; rw [ih]
  rw [this]
  exact (h.map text).filterMap _

/-- `ndjson_parser::for_all` over all ranks yields, up to order, the parse of every line -/
theorem records_spec_ndjson {α ω : Type} (text : Nat × Nat → α) (parseJson : α → ω)
    (files : List File) (n G : Nat) (hn : 0 < n) (hwf : ∀ F ∈ files, F.WF) :
    (((delivered files n G).map (fun ls => ndjsonWrap parseJson (ls.map text))).flatten).Perm
      (ndjsonWrap parseJson ((allLines files).map text)) := by
  have h := lines_exactly_once files n G hn hwf
  have : ((delivered files n G).map (fun ls => ndjsonWrap parseJson (ls.map text))).flatten
      = ndjsonWrap parseJson ((delivered files n G).flatten.map text) := by
    generalize delivered files n G = d
    induction d with
    | nil => rfl
    | cons a t ih => simp [ndjsonWrap] at ih ⊢; rw [ih]
  rw [this]
  exact (h.map text).map _

/-! ## non-vacuity: concrete instances (small granule so that files really split) -/

/-- three files (one empty, one without final newline, one with an empty line and a line
longer than the share), 3 ranks, granule 0: budget 19/3+1 = 7 -/
def exFiles : List File := [⟨[2, 3, 0, 1], true⟩, ⟨[], false⟩, ⟨[7, 1], false⟩]

example : ∀ F ∈ exFiles, F.WF := by decide
example : carve (exFiles.map File.size) 3 0 =
    [[⟨2, 0, 7⟩], [⟨2, 7, 9⟩, ⟨1, 0, 0⟩, ⟨0, 0, 5⟩], [⟨0, 5, 10⟩]] := by decide
example : delivered exFiles 3 0 = [[(2, 0)], [(2, 1), (0, 0), (0, 1)], [(0, 2), (0, 3)]] := by decide
example : allLines exFiles = [(0, 0), (0, 1), (0, 2), (0, 3), (2, 0), (2, 1)] := by decide
-- the boundary rule: a line starting exactly at `e` belongs to the range ending at `e`
example : readRange ⟨[2, 3, 0, 1], true⟩ 0 3 = [0, 1] ∧ readRange ⟨[2, 3, 0, 1], true⟩ 3 10 = [2, 3] := by decide
-- a range that lies inside one long line delivers nothing
example : readRange ⟨[20, 1], true⟩ 5 10 = [] ∧ readRange ⟨[20, 1], true⟩ 0 5 = [0]
    ∧ readRange ⟨[20, 1], true⟩ 10 23 = [1] := by decide
-- a file ending exactly on the budget boundary is assigned whole, the next rank starts the next file
example : carve [4, 6] 2 0 = [[⟨1, 0, 6⟩], [⟨0, 0, 4⟩]] := by decide
example : Consecutive 10 0 (rangesOf 0 (carve (exFiles.map File.size) 3 0).flatten) := by decide
-- WF is needed only to exclude the non-canonical spelling of a file
example : ¬ (File.WF ⟨[1, 0], false⟩) := by decide
example : csvWrap (fun (n : Nat) => List.replicate n ()) [2, 0, 1] = [[(), ()], [()]] := by decide

end YgmVerif.Lines
