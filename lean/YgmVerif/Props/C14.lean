import YgmVerif.Lemmas.BagOps
/-!
# C14 — bags conserve their items through every operation; rebalance evens them out; tags are unique

Theorems about `YgmVerif.BagOps` (model of bag.hpp / detail/bag.ipp / tagged_bag.hpp above `Part`).
For all item types, all communicator sizes `ranks > 0`, all placements (empty ranks, everything on one
rank, fewer items than ranks, no items), all iteration orders of `to_send`, all interleavings of the
ranks' local actions with the executions of the messages (a vector shipped by a fast rank may be
appended to a slow rank's bag before that rank pops or swaps out), all shuffle outcomes.  `rebalance` is the repaired one (`% ranks`); `pinned_traps`
records that the expression found in the tree divides by zero.
-/
namespace YgmVerif.BagOps
open YgmVerif.Part

variable {α : Type}

/-! ## inserts -/

/-- the round-robin insert addresses a rank of the communicator, and successive inserts of one rank
walk through the ranks one by one starting at the rank itself -/
theorem insertRR_dest (b : Bag α) (src : Nat) (x : α) (hr : 0 < b.ranks) :
    (insertRR b src x).2.dest < b.ranks ∧ (insertRR b src x).2.items = [x] ∧
    (insertRR b src x).2.dest = (b.rr.getD src 0 + src) % b.ranks ∧
    (src < b.rr.length → (insertRR b src x).1.rr.getD src 0 = b.rr.getD src 0 + 1) ∧
    (insertRR b src x).1.bags = b.bags := by
  refine ⟨Nat.mod_lt _ hr, rfl, rfl, ?_, rfl⟩
  intro hs
  simp [insertRR, List.getD_eq_getElem?_getD, List.getElem?_eq_getElem hs]

/-- **items_conserved** for a batch of inserts (any of the three overloads, from any ranks) executed in
any order: afterwards the bag holds what it held plus exactly the inserted items; nothing is lost,
duplicated or invented; rank `r` grew by what was addressed to it -/
theorem inserts_conserved {b b' : Bag α} {ms : List (Msg α)} {sched : List Nat}
    (h : deliverSched b ms sched = some b') :
    (items b').Perm (items b ++ ms.flatMap (·.items)) ∧
    ∀ r, (b'.bags.getD r []).length = (b.bags.getD r []).length + recv ms r :=
  let s := deliverSched_spec h
  ⟨s.2.2.2.1, s.2.2.2.2.1⟩

/-- legal inserts never abort -/
theorem inserts_some (b : Bag α) (ms : List (Msg α)) (sched : List Nat) (hw : WF b)
    (hs : sched.Perm (List.range ms.length)) (hd : ∀ m ∈ ms, m.dest < b.ranks) :
    ∃ b', deliverSched b ms sched = some b' ∧ WF b' := by
  obtain ⟨b', hb⟩ := deliverSched_some b ms sched hs (by intro m hm; rw [hw]; exact hd m hm)
  have s := deliverSched_spec hb
  exact ⟨b', hb, by unfold WF; rw [s.2.2.1, s.1]; exact hw⟩

/-! ## rebalance -/

theorem sizes_getD (b : Bag α) (r : Nat) : (sizes b).getD r 0 = (b.bags.getD r []).length := by
  simp only [sizes, List.getD_eq_getElem?_getD, List.getElem?_map]
  cases b.bags[r]? <;> simp

theorem rebalance_inv {b b' : Bag α} {ords : List (List Nat)} {evs : List Ev}
    (h : rebalance b ords evs = some b') :
    rebalanceOk b ords = true ∧ ∃ st, (rebalanceInit b ords).run evs = some st ∧ st.done = true ∧
      b' = { b with bags := st.bags } := by
  unfold rebalance at h
  split at h
  next hok =>
    split at h
    next st hst =>
      split at h
      next hd => exact ⟨hok, st, hst, hd, (Option.some.inj h).symm⟩
      · simp at h
    · simp at h
  · simp at h

theorem rebalanceOk_inv {b : Bag α} {ords : List (List Nat)} (h : rebalanceOk b ords = true) (r : Nat) (hr : r < b.ranks) :
    (ords.getD r []).Perm (sendKeys (total b) b.ranks (prefixOf (sizes b) r) (b.bags.getD r []).length r) := by
  unfold rebalanceOk at h
  rw [List.all_eq_true] at h
  have := h r (List.mem_range.mpr hr)
  simp only [Bool.and_eq_true] at this
  exact List.isPerm_iff.mp this.2

theorem rebalanceOk_of_perms (b : Bag α) (ords : List (List Nat)) (hr : 0 < b.ranks)
    (hords : ∀ r, r < b.ranks → (ords.getD r []).Perm
      (sendKeys (total b) b.ranks (prefixOf (sizes b) r) (b.bags.getD r []).length r)) :
    rebalanceOk b ords = true := by
  unfold rebalanceOk
  rw [List.all_eq_true]
  intro r hrr
  have hrr' := List.mem_range.mp hrr
  have hle : prefixOf (sizes b) r + (b.bags.getD r []).length ≤ total b := by
    rw [← sizes_getD, ← prefixOf_succ]; exact prefixOf_le_sum _ _
  rw [no_traps _ _ _ _ hr hle, List.isPerm_iff.mpr (hords r hrr')]
  rfl

theorem owedAt_acts (c : Nat → Nat) (ord : List Nat) (r : Nat) :
    owedAt r (ord.map (fun t => Act.pop t (c t))) = ((ord.filter (fun t => t == r)).map c).sum := by
  induction ord with
  | nil => rfl
  | cons t ts ih =>
    unfold owedAt at ih ⊢
    rw [List.map_cons, List.filter_cons, List.filter_cons]
    by_cases h : t = r
    · simp [Act.goesTo, h, Act.size] at ih ⊢; rw [ih]
    · simp [Act.goesTo, h] at ih ⊢; rw [ih]

theorem needOf_acts (c : Nat → Nat) (ord : List Nat) :
    needOf (ord.map (fun t => Act.pop t (c t))) = (ord.map c).sum := by
  unfold needOf
  rw [List.map_map]
  rfl

/-- the state right after the second barrier of `rebalance` satisfies the counting invariant with
target = the block sizes of an array of length `total` -/
theorem rebalanceInit_inv (b : Bag α) (ords : List (List Nat)) (hw : WF b) (hr : 0 < b.ranks)
    (hok : rebalanceOk b ords = true) :
    RInv (localSize (total b) b.ranks) (rebalanceInit b ords) := by
  have htodo : ∀ s, s < b.ranks → (rebalanceInit b ords).todo.getD s [] =
      rebalanceActs (total b) b.ranks (prefixOf (sizes b) s) (b.bags.getD s []).length s (ords.getD s []) := by
    intro s hs
    simp [rebalanceInit, List.getD_eq_getElem?_getD, List.getElem?_range hs]
  have htodo' : ∀ s, b.ranks ≤ s → (rebalanceInit b ords).todo.getD s [] = [] := by
    intro s hs
    simp [rebalanceInit, List.getD_eq_getElem?_getD, hs]
  have hle : ∀ s, prefixOf (sizes b) s + (b.bags.getD s []).length ≤ total b := by
    intro s; rw [← sizes_getD, ← prefixOf_succ]; exact prefixOf_le_sum _ _
  have hneed : ∀ s, s < b.ranks → needOf ((rebalanceInit b ords).todo.getD s []) =
      ((List.range b.ranks).map (sendCount (total b) b.ranks (prefixOf (sizes b) s) (b.bags.getD s []).length s)).sum := by
    intro s hs
    rw [htodo s hs, rebalanceActs, needOf_acts, ((rebalanceOk_inv hok s hs).map _).sum_nat, sum_sendKeys]
  have hlen0 : (rebalanceInit b ords).todo.length = (rebalanceInit b ords).bags.length := by
    show ((List.range b.ranks).map _).length = b.bags.length
    rw [List.length_map, List.length_range]; exact hw.symm
  refine ⟨hlen0, ?_, ?_, ?_, by simp [rebalanceInit], ?_⟩
  · intro l hl a ha
    simp only [rebalanceInit, List.mem_map, List.mem_range] at hl
    obtain ⟨s, _, rfl⟩ := hl
    simp only [rebalanceActs, List.mem_map] at ha
    obtain ⟨t, _, rfl⟩ := ha
    rfl
  · intro r hrb
    have hrr : r < b.ranks := by rw [← hw]; exact hrb
    simp only [Net.load, Net.owed, Net.need]
    rw [hneed r hrr]
    have hlen : (rebalanceInit b ords).todo.length = b.ranks := by simp [rebalanceInit]
    rw [hlen]
    have howed : (List.range b.ranks).map (fun s => owedAt r ((rebalanceInit b ords).todo.getD s [])) =
        (List.range b.ranks).map (fun s =>
          sendCount (total b) b.ranks (prefixOf (sizes b) s) (b.bags.getD s []).length s r) := by
      apply List.map_congr_left
      intro s hs
      have hs' := List.mem_range.mp hs
      rw [htodo s hs', rebalanceActs, owedAt_acts, (((rebalanceOk_inv hok s hs').filter _).map _).sum_nat,
        sum_sendKeys_at _ _ _ _ _ _ hrr]
    rw [howed]
    have hflight : recv (rebalanceInit b ords).flight r = 0 := by simp [rebalanceInit, recv_nil]
    have hbags : (rebalanceInit b ords).bags = b.bags := rfl
    rw [hflight, hbags]
    -- held = kept + sent;  kept + received = block size
    have h1 := sum_sendCount (total b) b.ranks (prefixOf (sizes b) r) (b.bags.getD r []).length r hr hrr (hle r)
    have hsplit : (List.range b.ranks).map (fun s =>
          cntT (total b) b.ranks (prefixOf (sizes b) s) ((sizes b).getD s 0) r) =
        (List.range b.ranks).map (fun s =>
          sendCount (total b) b.ranks (prefixOf (sizes b) s) (b.bags.getD s []).length s r +
          (if s = r then cntT (total b) b.ranks (prefixOf (sizes b) s) (b.bags.getD s []).length r else 0)) := by
      apply List.map_congr_left
      intro s _
      rw [sizes_getD]
      unfold sendCount
      by_cases hs : r = s
      · subst hs; simp
      · have : ¬ (s = r) := fun h => hs h.symm
        simp [hs, this]
    have hall := sum_cntT_prefix (total b) b.ranks r (sizes b) b.ranks
    rw [hsplit, sum_map_add, sum_indicator] at hall
    simp only [hrr, if_true] at hall
    have hlen2 : b.ranks = (sizes b).length := by simp [sizes]; exact hw.symm
    have htot : prefixOf (sizes b) b.ranks = total b := by
      rw [hlen2]; exact prefixOf_length _
    rw [htot, cntT_total _ _ _ hr hrr] at hall
    omega
  · intro s
    simp only [Net.need]
    by_cases hs : s < b.ranks
    · rw [hneed s hs]
      have h1 := sum_sendCount (total b) b.ranks (prefixOf (sizes b) s) (b.bags.getD s []).length s hr hs (hle s)
      have hbags : (rebalanceInit b ords).bags = b.bags := rfl
      rw [hbags]; omega
    · rw [htodo' s (by omega)]; simp [needOf]
  · intro l hl a ha t n hat
    simp only [rebalanceInit, List.mem_map, List.mem_range] at hl
    obtain ⟨s, hs, rfl⟩ := hl
    simp only [rebalanceActs, List.mem_map] at ha
    obtain ⟨t', ht', rfl⟩ := ha
    simp only [Act.pop.injEq] at hat
    have := (rebalanceOk_inv hok s hs).mem_iff.mp ht'
    unfold sendKeys at this
    have := List.mem_range.mp (List.mem_filter.mp this).1
    show t < b.bags.length
    rw [hw, ← hat.1]; exact this

/-- **rebalance_counts**: after `rebalance`, whatever the iteration order of the `to_send` maps and
however the ranks' pops interleave with the executions of the shipped vectors, rank `r` holds exactly
`Part.localSize total ranks r` items — the block sizes of an array of that length (so they differ by
at most one), for every total including `0` and totals below the number of ranks -/
theorem rebalance_counts {b b' : Bag α} {ords : List (List Nat)} {evs : List Ev}
    (hw : WF b) (hr : 0 < b.ranks) (h : rebalance b ords evs = some b') :
    ∀ r, r < b.ranks → (b'.bags.getD r []).length = localSize (total b) b.ranks r := by
  intro r hrr
  obtain ⟨hok, st, hrun, hd, rfl⟩ := rebalance_inv h
  have hinv := (rebalanceInit_inv b ords hw hr hok).run hrun
  have hlen := (Net.run_conserved hrun).2.1
  exact hinv.final hd r (by rw [hlen]; show r < b.bags.length; rw [hw]; exact hrr)

/-- the sizes after `rebalance` differ by at most one -/
theorem rebalance_balanced {b b' : Bag α} {ords : List (List Nat)} {evs : List Ev}
    (hw : WF b) (hr : 0 < b.ranks) (h : rebalance b ords evs = some b') (r s : Nat)
    (hrr : r < b.ranks) (hss : s < b.ranks) :
    (b'.bags.getD r []).length ≤ (b'.bags.getD s []).length + 1 := by
  rw [rebalance_counts hw hr h r hrr, rebalance_counts hw hr h s hss]
  exact sizes_differ_le_one _ _ _ _

/-- **items_conserved** for `rebalance`: the bag holds the same multiset afterwards, and the result
is well-formed -/
theorem rebalance_conserved {b b' : Bag α} {ords : List (List Nat)} {evs : List Ev}
    (hw : WF b) (h : rebalance b ords evs = some b') :
    (items b').Perm (items b) ∧ WF b' ∧ b'.ranks = b.ranks := by
  obtain ⟨_, st, hrun, hd, rfl⟩ := rebalance_inv h
  obtain ⟨hp, hl, _⟩ := Net.run_conserved hrun
  obtain ⟨hf, _⟩ := Net.done_inv hd
  refine ⟨?_, ?_, rfl⟩
  · simpa [Net.all, hf, rebalanceInit, items] using hp
  · show st.bags.length = b.ranks
    rw [hl]; exact hw

/-- **no abort in any interleaving**: after any sequence of events of a `rebalance` (any iteration
orders of the `to_send` maps), every rank that still has a vector to pop can pop it (`local_pop`'s
assertion holds even if nothing has arrived yet) and every vector in flight can be executed; no
target computation divides by zero — for every total, including totals below the number of ranks -/
theorem rebalance_never_aborts (b : Bag α) (ords : List (List Nat)) (hw : WF b) (hr : 0 < b.ranks)
    (hords : ∀ r, r < b.ranks → (ords.getD r []).Perm
      (sendKeys (total b) b.ranks (prefixOf (sizes b) r) (b.bags.getD r []).length r)) :
    rebalanceOk b ords = true ∧
    ∀ evs st, (rebalanceInit b ords).run evs = some st →
      (∀ s ds a rest, st.todo[s]? = some (a :: rest) → (st.step (.act s ds)).isSome = true) ∧
      (∀ k, k < st.flight.length → (st.step (.recv k)).isSome = true) := by
  have hok := rebalanceOk_of_perms b ords hr hords
  refine ⟨hok, ?_⟩
  intro evs st hrun
  exact ((rebalanceInit_inv b ords hw hr hok).run hrun).progress

theorem le_sum_of_mem (L : List Nat) (x : Nat) (h : x ∈ L) : x ≤ L.sum := by
  induction L with
  | nil => simp at h
  | cons y ys ih =>
    rcases List.mem_cons.mp h with rfl | h
    · simp
    · have := ih h; simp only [List.sum_cons]; omega

theorem sum_map_set_length {β : Type} (L : List (List β)) (s : Nat) (a : β) (rest : List β) (h : L[s]? = some (a :: rest)) :
    ((L.set s rest).map List.length).sum + 1 = (L.map List.length).sum := by
  induction L generalizing s with
  | nil => simp at h
  | cons l L ih =>
    cases s with
    | zero =>
      simp only [List.getElem?_cons_zero, Option.some.injEq] at h
      subst h; simp; omega
    | succ s =>
      simp only [List.getElem?_cons_succ] at h
      have := ih s h
      simp only [List.set_cons_succ, List.map_cons, List.sum_cons]; omega

/-- from any state satisfying the invariant the protocol can be run to completion -/
theorem RInv.complete {target : Nat → Nat} (n : Nat) : ∀ (st : Net α), RInv target st →
    2 * (st.todo.map List.length).sum + st.flight.length ≤ n →
    ∃ evs st', st.run evs = some st' ∧ st'.done = true := by
  induction n with
  | zero =>
    intro st _ hm
    have h1 : (st.todo.map List.length).sum = 0 := by omega
    have h2 : st.flight = [] := List.eq_nil_of_length_eq_zero (by omega)
    refine ⟨[], st, rfl, ?_⟩
    unfold Net.done
    simp only [h2, List.isEmpty_nil, Bool.and_true, List.all_eq_true, List.isEmpty_iff]
    intro l hl
    have : l.length ≤ (st.todo.map List.length).sum := le_sum_of_mem _ _ (List.mem_map_of_mem hl)
    exact List.eq_nil_of_length_eq_zero (by omega)
  | succ n ih =>
    intro st hi hm
    by_cases hall' : ∀ l ∈ st.todo, l = []
    · have hall : st.todo.all (·.isEmpty) = true := by
        rw [List.all_eq_true]; intro l hl; rw [hall' l hl]; rfl
      cases hf : st.flight with
      | nil =>
        exact ⟨[], st, rfl, by unfold Net.done; simp [hall, hf]⟩
      | cons m ms =>
        have hk : 0 < st.flight.length := by rw [hf]; simp
        have hs := hi.progress.2 0 hk
        obtain ⟨st1, h1⟩ := Option.isSome_iff_exists.mp hs
        have hi1 := hi.step h1
        rcases Net.step_cases h1 with ⟨_, _, _, _, _, _, _, _, he, _⟩ | ⟨_, _, _, _, _, he, _⟩ | ⟨k, m', he, _, _, rfl⟩
        · cases he
        · cases he
        · cases he
          obtain ⟨evs, st', hr, hd⟩ := ih _ hi1 (by simp only [hf, List.eraseIdx_cons_zero, List.length_cons] at hm ⊢; omega)
          exact ⟨.recv 0 :: evs, st', by simp only [Net.run, h1, Option.bind_some]; exact hr, hd⟩
    · -- some rank still has an action
      obtain ⟨l, hl'⟩ := Classical.not_forall.mp hall'
      obtain ⟨hl, hne⟩ := Classical.not_imp.mp hl'
      obtain ⟨s, hs, rfl⟩ := List.getElem_of_mem hl
      cases hls : st.todo[s] with
      | nil => exact absurd hls hne
      | cons a rest =>
        have ht : st.todo[s]? = some (a :: rest) := by rw [List.getElem?_eq_getElem hs, hls]
        have hsome := hi.progress.1 s [] a rest ht
        obtain ⟨st1, h1⟩ := Option.isSome_iff_exists.mp hsome
        have hi1 := hi.step h1
        rcases Net.step_cases h1 with ⟨s', ds, t, n', rest', l', kept, popped, he, ht', _, _, rfl⟩ |
          ⟨s', _, rest', _, _, he, ht', _, _, _⟩ | ⟨_, _, he, _⟩
        · cases he
          rw [ht] at ht'
          simp only [Option.some.injEq, List.cons.injEq] at ht'
          obtain ⟨_, rfl⟩ := ht'
          have hsum := sum_map_set_length st.todo s a rest ht
          obtain ⟨evs, st', hr, hd⟩ := ih _ hi1 (by simp only [List.length_append, List.length_cons, List.length_nil]; omega)
          exact ⟨.act s [] :: evs, st', by simp only [Net.run, h1, Option.bind_some]; exact hr, hd⟩
        · cases he
          have hmem : (Act.shuf :: rest') ∈ st.todo := List.mem_of_getElem? ht'
          have := hi.pops _ hmem Act.shuf List.mem_cons_self
          simp [Act.isPop] at this
        · cases he

/-- **rebalance_some**: `rebalance` of a well-formed bag can always be completed (and, by
`rebalance_never_aborts`, no interleaving can get stuck in an abort) — for every total incl. 0 and
totals below the number of ranks, every iteration order of the `to_send` maps -/
theorem rebalance_some (b : Bag α) (ords : List (List Nat)) (hw : WF b) (hr : 0 < b.ranks)
    (hords : ∀ r, r < b.ranks → (ords.getD r []).Perm
      (sendKeys (total b) b.ranks (prefixOf (sizes b) r) (b.bags.getD r []).length r)) :
    ∃ evs b', rebalance b ords evs = some b' := by
  have hok := rebalanceOk_of_perms b ords hr hords
  obtain ⟨evs, st', hrun, hd⟩ := RInv.complete _ _ (rebalanceInit_inv b ords hw hr hok) (Nat.le_refl _)
  exact ⟨evs, { b with bags := st'.bags }, by simp [rebalance, hok, hrun, hd]⟩

/-- the tree as found (D4): with fewer items than ranks the large block size is `0` and the first
target computation divides by zero; the repaired expression does not -/
theorem pinned_traps : targetPinned 2 4 0 = none ∧ rebalanceTarget 2 4 0 = some 0 ∧
    (∀ tot ranks idx, 0 < tot → tot < ranks → idx < tot → targetPinned tot ranks idx = none) := by
  refine ⟨by decide, by decide, ?_⟩
  intro tot ranks idx h0 hlt hidx
  have hdiv : tot / ranks = 0 := Nat.div_eq_of_lt hlt
  have hmod : tot % ranks = tot := Nat.mod_eq_of_lt hlt
  simp [targetPinned, largePinned, hdiv, hmod, cdiv]

/-- the one-token repair changes nothing else: with at least as many items as ranks the expression
found in the tree and the repaired one compute the same target for every position -/
theorem pinned_same_when_enough_items (tot ranks idx : Nat) (hr : 0 < ranks) (h : ranks ≤ tot) :
    targetPinned tot ranks idx = rebalanceTarget tot ranks idx := by
  have hs : 0 < tot / ranks := Nat.div_pos h hr
  unfold targetPinned largePinned rebalanceTarget owner large small rem
  by_cases hz : tot % ranks = 0
  · simp [hz, hs]
  · have : tot % ranks > 0 := Nat.pos_of_ne_zero hz
    simp [hs, this]

/-! ## shuffles, swap, clear -/

theorem localShuffle_conserved [BEq α] [LawfulBEq α] {b b' : Bag α} {r : Nat} {new : List α}
    (h : localShuffleAt b r new = some b') :
    (items b').Perm (items b) ∧ b'.bags.length = b.bags.length ∧ b'.ranks = b.ranks ∧
    (∀ s, ((b'.bags.getD s []).Perm (b.bags.getD s []))) := by
  unfold localShuffleAt at h
  split at h
  · simp at h
  next old hold =>
    split at h
    next hp =>
      have hp' := List.isPerm_iff.mp hp
      simp only [Option.some.injEq] at h
      subst h
      refine ⟨flatten_set_perm _ _ _ _ hold hp', by simp, rfl, ?_⟩
      intro s
      simp only [List.getD_eq_getElem?_getD, List.getElem?_set]
      have hrl : r < b.bags.length := (List.getElem?_eq_some_iff.mp hold).1
      by_cases hs : r = s
      · subst hs
        have h2 := (List.getElem?_eq_some_iff.mp hold).2
        simp [hrl]; rw [h2]; exact hp'
      · simp [hs]
    · simp at h

theorem flatten_map_nil (L : List (List α)) : (L.map (fun _ => ([] : List α))).flatten = [] := by
  induction L with
  | nil => rfl
  | cons x xs ih => simp [ih]

/-- **items_conserved** for `global_shuffle`, for every drawn destination and every interleaving of
the ranks' swap-outs with the executions of the sends (an item that reaches a rank before its
swap-out is sent on once more) -/
theorem globalShuffle_conserved {b b' : Bag α} {evs : List Ev}
    (h : globalShuffle b evs = some b') :
    (items b').Perm (items b) ∧ b'.bags.length = b.bags.length ∧ b'.ranks = b.ranks := by
  unfold globalShuffle at h
  split at h
  next st hrun =>
    split at h
    next hd =>
      simp only [Option.some.injEq] at h
      subst h
      obtain ⟨hp, hl, _⟩ := Net.run_conserved hrun
      obtain ⟨hf, _⟩ := Net.done_inv hd
      exact ⟨by simpa [Net.all, hf, items] using hp, hl, rfl⟩
    · simp at h
  · simp at h

/-- **items_conserved** for `swap`: each bag holds exactly what the other held, on the same ranks -/
theorem swap_conserved (a b : Bag α) :
    (swap a b).1.bags = b.bags ∧ (swap a b).2.bags = a.bags ∧
    (items (swap a b).1 ++ items (swap a b).2).Perm (items a ++ items b) := by
  refine ⟨rfl, rfl, ?_⟩
  simp only [swap, items]
  exact List.perm_append_comm

theorem clear_empty (b : Bag α) : items (clear b) = [] ∧ (clear b).bags.length = b.bags.length := by
  simp [clear, items, flatten_map_nil]

/-! ## a whole history -/

theorem step_conserved [BEq α] [LawfulBEq α] {s s' : St α} {o : Op α} (hw : WF s.bag)
    (hc : isClear o = false) (h : step s o = some s') :
    (items s'.bag ++ s'.pending.flatMap (·.items)).Perm
      (items s.bag ++ s.pending.flatMap (·.items) ++ o.inserted) ∧ WF s'.bag ∧ s'.bag.ranks = s.bag.ranks := by
  cases o with
  | insRR src x =>
    simp only [step, Option.some.injEq] at h
    subst h
    simp [insertRR, Op.inserted, items, List.flatMap_append, WF] at hw ⊢
    exact hw
  | insTo src d x =>
    simp only [step, Option.some.injEq] at h
    subst h
    simp [insertTo, Op.inserted, List.flatMap_append]
    exact hw
  | insVec src d xs =>
    simp only [step, Option.some.injEq] at h
    subst h
    simp [insertVec, Op.inserted, List.flatMap_append]
    exact hw
  | barrier sched =>
    simp only [step] at h
    cases hd : deliverSched s.bag s.pending sched with
    | none => simp [hd] at h
    | some b1 =>
      simp only [hd, Option.map_some, Option.some.injEq] at h
      subst h
      have sp := deliverSched_spec hd
      refine ⟨by simpa [Op.inserted] using sp.2.2.2.1, ?_, sp.1⟩
      unfold WF; rw [sp.2.2.1, sp.1]; exact hw
  | rebalance ords evs =>
    simp only [step] at h
    split at h
    next hpe =>
      cases hd : BagOps.rebalance s.bag ords evs with
      | none => simp [hd] at h
      | some b1 =>
        simp only [hd, Option.map_some, Option.some.injEq] at h
        subst h
        have sp := rebalance_conserved hw hd
        exact ⟨by simpa [Op.inserted] using List.Perm.append_right _ sp.1, sp.2.1, sp.2.2⟩
    · simp at h
  | lshuffle r new =>
    simp only [step] at h
    split at h
    next hpe =>
      cases hd : localShuffleAt s.bag r new with
      | none => simp [hd] at h
      | some b1 =>
        simp only [hd, Option.map_some, Option.some.injEq] at h
        subst h
        have sp := localShuffle_conserved hd
        refine ⟨by simpa [Op.inserted] using List.Perm.append_right _ sp.1, ?_, sp.2.2.1⟩
        unfold WF; rw [sp.2.1, sp.2.2.1]; exact hw
    · simp at h
  | gshuffle evs =>
    simp only [step] at h
    split at h
    next hpe =>
      cases hd : globalShuffle s.bag evs with
      | none => simp [hd] at h
      | some b1 =>
        simp only [hd, Option.map_some, Option.some.injEq] at h
        subst h
        have sp := globalShuffle_conserved hd
        refine ⟨by simpa [Op.inserted] using List.Perm.append_right _ sp.1, ?_, sp.2.2⟩
        unfold WF; rw [sp.2.1, sp.2.2]; exact hw
    · simp at h
  | clear => simp [isClear] at hc

/-- **items_conserved**: through any history of inserts (all three overloads, any issuing ranks),
barriers, rebalances, local and global shuffles — with any schedules, iteration orders and shuffle
outcomes — the multiset of items held (in the local bags, or issued and still in flight) is exactly
what was there at the start plus everything inserted -/
theorem items_conserved [BEq α] [LawfulBEq α] {s s' : St α} {ops : List (Op α)} (hw : WF s.bag)
    (hc : ∀ o ∈ ops, isClear o = false) (h : stepAll s ops = some s') :
    (items s'.bag ++ s'.pending.flatMap (·.items)).Perm
      (items s.bag ++ s.pending.flatMap (·.items) ++ ops.flatMap Op.inserted) := by
  induction ops generalizing s with
  | nil => simp only [stepAll, Option.some.injEq] at h; subst h; simp
  | cons o os ih =>
    simp only [stepAll] at h
    cases h1 : step s o with
    | none => simp [h1] at h
    | some s1 =>
      simp only [h1, Option.bind_some] at h
      have sp := step_conserved hw (hc o (by simp)) h1
      have := ih sp.2.1 (fun o ho => hc o (by simp [ho])) h
      refine this.trans ?_
      simp only [List.flatMap_cons]
      rw [← List.append_assoc]
      exact List.Perm.append_right _ sp.1

/-! ## gather -/

theorem flatMap_range_getD (L : List (List α)) :
    (List.range L.length).flatMap (fun s => L.getD s []) = L.flatten := by
  have : (List.range L.length).map (fun s => L.getD s []) = L := by
    apply List.ext_getElem
    · simp
    · intro i h1 h2
      simp [List.getD_eq_getElem?_getD, List.getElem?_eq_getElem h2]
  rw [List.flatMap_def, this]

/-- **gather_spec**: `gather_to_vector(dest)` returns, on `dest`, all items of the bag (every rank's
local bag once, in arrival order) and the empty vector elsewhere; `gather_to_vector()` returns one
and the same full vector on every rank -/
theorem gather_spec {b : Bag α} {dest : Nat} {order : List Nat} {res : List (List α)} (hw : WF b)
    (h : gatherTo b dest order = some res) :
    res.length = b.ranks ∧ dest < b.ranks ∧ (res.getD dest []).Perm (items b) ∧
    ∀ r, r ≠ dest → res.getD r [] = [] := by
  unfold gatherTo at h
  split at h
  next hc =>
    simp only [Option.some.injEq] at h
    subst h
    have hp := List.isPerm_iff.mp hc.2
    refine ⟨by simp, hc.1, ?_, ?_⟩
    · have hfm := flatMap_range_getD b.bags
      rw [hw] at hfm
      rw [List.getD_eq_getElem?_getD, List.getElem?_map, List.getElem?_range hc.1]
      simp only [Option.map_some, if_true, Option.getD_some]
      refine (hp.flatMap_right _).trans ?_
      rw [hfm]
      exact List.Perm.refl _
    · intro r hr
      simp only [List.getD_eq_getElem?_getD, List.getElem?_map]
      by_cases hrr : r < b.ranks
      · simp [List.getElem?_range hrr, hr]
      · rw [List.getElem?_eq_none (by simp; omega)]; rfl
  · simp at h

theorem gatherAll_spec {b : Bag α} {order : List Nat} {res : List (List α)} (hw : WF b)
    (h : gatherAll b order = some res) :
    res.length = b.ranks ∧ ∃ v, v.Perm (items b) ∧ ∀ r, r < b.ranks → res.getD r [] = v := by
  unfold gatherAll at h
  cases hg : gatherTo b 0 order with
  | none => simp [hg] at h
  | some res0 =>
    simp only [hg, Option.map_some, Option.some.injEq] at h
    subst h
    have sp := gather_spec hw hg
    refine ⟨by simp, res0.getD 0 [], sp.2.2.1, ?_⟩
    intro r hr
    simp [List.getD_eq_getElem?_getD, hr]

/-! ## tagged_bag -/

theorem two_pow_40 : (2 : Nat) ^ 40 = 1099511627776 := by decide
theorem two_pow_64 : (2 : Nat) ^ 64 = 18446744073709551616 := by decide

/-- **tag_injective**: the tag is `rank · 2^40 + serial` (the real encoding, `size_t(rank) << 40`
incremented per insert, in 64-bit arithmetic); for serial numbers below `2^40` and ranks below `2^24`
distinct (rank, serial) pairs get distinct tags -/
theorem tag_injective (r s r' s' : Nat) (hs : s < 2 ^ 40) (hs' : s' < 2 ^ 40) (hr : r < 2 ^ 24) (hr' : r' < 2 ^ 24)
    (h : tag r s = tag r' s') : r = r' ∧ s = s' := by
  unfold tag tagBits at h
  rw [Nat.shiftLeft_eq, Nat.shiftLeft_eq] at h
  have e24 : (2 : Nat) ^ 24 = 16777216 := by decide
  rw [two_pow_40, two_pow_64] at *
  rw [e24] at hr hr'
  omega

theorem tag_eq (r s : Nat) (hs : s < 2 ^ 40) (hr : r < 2 ^ 24) : tag r s = r * 2 ^ 40 + s := by
  unfold tag tagBits
  rw [Nat.shiftLeft_eq]
  have e24 : (2 : Nat) ^ 24 = 16777216 := by decide
  rw [two_pow_40, two_pow_64] at *
  rw [e24] at hr
  omega

/-- the serial-number bound is needed: the `2^40`-th insert of rank 0 collides with the first tag
of rank 1 -/
example : tag 0 (2 ^ 40) = tag 1 0 := by decide

/-- invariant of a tagged bag built by inserts only: every stored tag is `tag r s` of a rank `r`
and a serial `s` already used by `r`; stored tags are pairwise distinct -/
def TInv (tb : TBag α) : Prop :=
  (tb.store.map (·.1)).Nodup ∧ tb.next.length < 2 ^ 24 ∧
  (∀ r, tb.next.getD r 0 < 2 ^ 40) ∧
  ∀ p ∈ tb.store, ∃ r s, r < tb.next.length ∧ s < tb.next.getD r 0 ∧ p.1 = tag r s

theorem TInv_empty (ranks : Nat) (h : ranks < 2 ^ 24) : TInv (TBag.empty ranks : TBag α) := by
  refine ⟨by simp [TBag.empty], by simpa [TBag.empty] using h, ?_, by simp [TBag.empty]⟩
  intro r
  simp only [TBag.empty, List.getD_eq_getElem?_getD, List.getElem?_replicate]
  split <;> simp

/-- **tag uniqueness across all ranks**: a fresh insert returns a tag no stored item has, stores the
item under it, and keeps the invariant (as long as the rank has made fewer than `2^40 - 1` inserts) -/
theorem insert_fresh {tb : TBag α} (hi : TInv tb) (r : Nat) (x : α) (hr : r < tb.next.length)
    (hs : tb.next.getD r 0 + 1 < 2 ^ 40) :
    let p := tb.insert r x
    (∀ q ∈ tb.store, q.1 ≠ p.2) ∧ p.1.store = tb.store ++ [(p.2, x)] ∧ TInv p.1 ∧ p.1.get p.2 = [x] := by
  obtain ⟨hnd, hn, hb, hst⟩ := hi
  have hfresh : ∀ q ∈ tb.store, q.1 ≠ tag r (tb.next.getD r 0) := by
    intro q hq he
    obtain ⟨r', s', hr', hs', hq'⟩ := hst q hq
    rw [hq'] at he
    have := tag_injective r' s' r (tb.next.getD r 0) (by have := hb r'; omega) (by omega) (by omega) (by omega) he
    obtain ⟨rfl, rfl⟩ := this
    omega
  have hany : tb.store.any (fun p => p.1 == tag r (tb.next.getD r 0)) = false := by
    rw [Bool.eq_false_iff]
    intro hc
    rw [List.any_eq_true] at hc
    obtain ⟨q, hq, he⟩ := hc
    exact hfresh q hq (by simpa using he)
  have hstore : (tb.insert r x).1.store = tb.store ++ [(tag r (tb.next.getD r 0), x)] := by
    simp only [TBag.insert, insertUnique, hany, Bool.false_eq_true, if_false]
  have hnext : ∀ q, (tb.insert r x).1.next.getD q 0 = tb.next.getD q 0 + (if q = r then 1 else 0) := by
    intro q
    simp only [TBag.insert, List.getD_eq_getElem?_getD, List.getElem?_modify]
    by_cases hq : q = r
    · subst hq; simp [List.getElem?_eq_getElem hr]
    · have : ¬ (r = q) := fun h => hq h.symm
      cases tb.next[q]? <;> simp [hq, this]
  refine ⟨hfresh, hstore, ⟨?_, ?_, ?_, ?_⟩, ?_⟩
  · rw [hstore, List.map_append, List.nodup_append]
    refine ⟨hnd, by simp, ?_⟩
    intro a ha b hb'
    simp only [List.map_cons, List.map_nil, List.mem_singleton] at hb'
    subst hb'
    simp only [List.mem_map] at ha
    obtain ⟨q, hq, rfl⟩ := ha
    exact hfresh q hq
  · simpa [TBag.insert] using hn
  · intro q
    rw [hnext q]
    by_cases hq : q = r
    · subst hq; rw [if_pos rfl]; omega
    · have := hb q; rw [if_neg hq]; omega
  · intro p hp
    rw [hstore, List.mem_append] at hp
    have hlen : (tb.insert r x).1.next.length = tb.next.length := by simp [TBag.insert]
    rcases hp with hp | hp
    · obtain ⟨r', s', h1, h2, h3⟩ := hst p hp
      exact ⟨r', s', by omega, by rw [hnext r']; omega, h3⟩
    · simp only [List.mem_singleton] at hp
      subst hp
      exact ⟨r, tb.next.getD r 0, by omega, by rw [hnext r]; simp, rfl⟩
  · show (tb.insert r x).1.get (tag r (tb.next.getD r 0)) = [x]
    unfold TBag.get
    rw [hstore, List.filter_append]
    have : tb.store.filter (fun p => p.1 == tag r (tb.next.getD r 0)) = [] := by
      rw [List.filter_eq_nil_iff]
      intro q hq
      simpa using hfresh q hq
    rw [this]; simp

/-- **tags stay unique through swap**: `tagged_bag::swap` exchanges contents and counters, so both bags keep
the invariant — every later insert into either bag returns a tag no live item of that bag has
(`insert_fresh`) -/
theorem swap_inv {a b : TBag α} (ha : TInv a) (hb : TInv b) :
    TInv (TBag.swap a b).1 ∧ TInv (TBag.swap a b).2 ∧
    (TBag.swap a b).1.store = b.store ∧ (TBag.swap a b).2.store = a.store ∧
    (TBag.swap a b).1.next = b.next ∧ (TBag.swap a b).2.next = a.next :=
  ⟨hb, ha, rfl, rfl, rfl, rfl⟩

/-- after a swap, an insert into the first bag returns a tag that none of its (new) items has -/
theorem insert_fresh_after_swap {a b : TBag α} (ha : TInv a) (hb : TInv b) (r : Nat) (x : α)
    (hr : r < b.next.length) (hs : b.next.getD r 0 + 1 < 2 ^ 40) :
    ∀ q ∈ (TBag.swap a b).1.store, q.1 ≠ ((TBag.swap a b).1.insert r x).2 :=
  (insert_fresh (swap_inv ha hb).1 r x hr hs).1

/-- exchanging the counters is necessary: A made one insert, B three (all on rank 0); if swap forgot the
counters, the next insert into A would return tag 1, which a live item (22) holds, and overwrite it -/
example :
    let a : TBag Nat := ((TBag.empty 2).insert 0 10).1
    let b : TBag Nat := ((((TBag.empty 2).insert 0 21).1.insert 0 22).1.insert 0 23).1
    ((TBag.swapStoreOnly a b).1.insert 0 99).2 = 1 ∧ ((TBag.swapStoreOnly a b).1.insert 0 99).1.get 1 = [99] ∧
    ((TBag.swap a b).1.insert 0 99).2 = 3 ∧ ((TBag.swap a b).1.insert 0 99).1.get 1 = [22] := by decide

theorem get_visit_other (st : List (Nat × α)) (t t' : Nat) (f : α → α) (ht : t' ≠ t) :
    ((st.map (fun p => if p.1 == t then (p.1, f p.2) else p)).filter (fun p => p.1 == t')).map (·.2) =
      (st.filter (fun p => p.1 == t')).map (·.2) := by
  induction st with
  | nil => rfl
  | cons p ps ih =>
    rw [List.map_cons, List.filter_cons, List.filter_cons]
    by_cases hp : p.1 = t
    · have h1 : (p.1 == t) = true := by simpa using hp
      have h2 : (p.1 == t') = false := by
        have : p.1 ≠ t' := fun h => ht (by rw [← h, hp])
        simpa using this
      rw [if_pos h1]
      simp only [h2, Bool.false_eq_true, if_false]
      exact ih
    · have h1 : ¬ ((p.1 == t) = true) := by simpa using hp
      rw [if_neg h1]
      by_cases h3 : (p.1 == t') = true
      · rw [if_pos h3, if_pos h3, List.map_cons, List.map_cons, ih]
      · rw [if_neg h3, if_neg h3]; exact ih

theorem visit_key (t : Nat) (x : α) (f : α → α) : ∀ (st : List (Nat × α)), (st.map (·.1)).Nodup → (t, x) ∈ st →
    (st.filter (fun p => p.1 == t)).map (·.2) = [x] ∧
    ((st.map (fun p => if p.1 == t then (p.1, f p.2) else p)).filter (fun p => p.1 == t)).map (·.2) = [f x] ∧
    (st.filter (fun p => !(p.1 == t))).length + 1 = st.length := by
  intro st
  induction st with
  | nil => intro _ h; simp at h
  | cons p ps ih =>
    intro hn hm
    rw [List.map_cons, List.nodup_cons] at hn
    rcases List.mem_cons.mp hm with rfl | hm
    · have hnone : ∀ q ∈ ps, (q.1 == t) = false := by
        intro q hq
        have hmem : q.1 ∈ ps.map (·.1) := List.mem_map_of_mem (f := (·.1)) hq
        have : q.1 ≠ t := by intro he; rw [he] at hmem; exact hn.1 hmem
        simpa using this
      have h1 : ps.filter (fun p => p.1 == t) = [] := by
        rw [List.filter_eq_nil_iff]; intro q hq; simp [hnone q hq]
      have h2 : (ps.map (fun p => if p.1 == t then (p.1, f p.2) else p)).filter (fun p => p.1 == t) = [] := by
        rw [List.filter_eq_nil_iff]
        intro q hq
        rw [List.mem_map] at hq
        obtain ⟨q0, hq0, rfl⟩ := hq
        rw [if_neg (by simp [hnone q0 hq0])]
        simp [hnone q0 hq0]
      have h3 : ps.filter (fun p => !(p.1 == t)) = ps := by
        rw [List.filter_eq_self]; intro q hq; simp [hnone q hq]
      have ht : ((t, x).1 == t) = true := by simp
      refine ⟨?_, ?_, ?_⟩
      · rw [List.filter_cons, if_pos ht, h1]; rfl
      · rw [List.map_cons, if_pos ht, List.filter_cons, if_pos (by simp), h2]; rfl
      · rw [List.filter_cons, if_neg (by simp), h3]; rfl
    · have hp : (p.1 == t) = false := by
        have hmem : t ∈ ps.map (·.1) := List.mem_map_of_mem (f := (·.1)) hm
        have : p.1 ≠ t := by intro he; rw [← he] at hmem; exact hn.1 hmem
        simpa using this
      obtain ⟨i1, i2, i3⟩ := ih hn.2 hm
      refine ⟨?_, ?_, ?_⟩
      · rw [List.filter_cons, if_neg (by simp [hp])]; exact i1
      · rw [List.map_cons, if_neg (by simp [hp]), List.filter_cons, if_neg (by simp [hp])]; exact i2
      · rw [List.filter_cons, if_pos (by simp [hp]), List.length_cons, List.length_cons]; omega

/-- **tag_visits_item**: through a tag, exactly the item stored under it is visited (once), gathered
and erased; every other item is untouched.  Needs only that stored tags are distinct. -/
theorem tag_visits_item {tb : TBag α} (hnd : (tb.store.map (·.1)).Nodup) (t : Nat) (x : α) (hx : (t, x) ∈ tb.store)
    (f : α → α) :
    tb.get t = [x] ∧
    (tb.visitIfExists t f).get t = [f x] ∧
    (∀ t', t' ≠ t → (tb.visitIfExists t f).get t' = tb.get t') ∧
    (tb.visitIfExists t f).store.map (·.1) = tb.store.map (·.1) ∧
    (tb.erase t).get t = [] ∧
    (∀ t', t' ≠ t → (tb.erase t).get t' = tb.get t') ∧
    (tb.erase t).store.length + 1 = tb.store.length := by
  have key := visit_key t x f
  obtain ⟨k1, k2, k3⟩ := key tb.store hnd hx
  refine ⟨k1, k2, ?_, ?_, ?_, ?_, k3⟩
  · intro t' ht
    exact get_visit_other tb.store t t' f ht
  · unfold TBag.visitIfExists
    simp only [List.map_map]
    apply List.map_congr_left
    intro p _
    simp only [Function.comp]
    split <;> rfl
  · unfold TBag.get TBag.erase
    simp only [List.filter_filter]
    have : (tb.store.filter (fun p => (p.1 == t) && !(p.1 == t))) = [] := by
      rw [List.filter_eq_nil_iff]; intro q _; simp
    rw [this]; rfl
  · intro t' ht
    unfold TBag.get TBag.erase
    simp only [List.filter_filter]
    congr 1
    apply List.filter_congr
    intro q _
    by_cases hq : q.1 = t'
    · have : ¬ (q.1 = t) := by rw [hq]; exact ht
      simp [hq, ht]
    · simp [hq]

/-! ## non-vacuity -/

/-- 2 items on 4 ranks, both on rank 3 (fewer items than ranks, empty ranks): rebalance succeeds and
gives 1,1,0,0 -/
example : ((rebalance ({ ranks := 4, bags := [[], [], [], [7, 8]], rr := [0, 0, 0, 0] } : Bag Nat) [[], [], [], [1, 0]]
    [.act 3 [], .act 3 [], .recv 0, .recv 0]).map (·.bags)) = some [[7], [8], [], []] := by decide
/-- 6 items as 1,4,1 on 3 ranks: rank 1 ships to 0 and 2 -/
example : ((rebalance ({ ranks := 3, bags := [[1], [2, 3, 4, 5], [6]], rr := [0, 0, 0] } : Bag Nat) [[], [2, 0], []]
    [.act 1 [], .recv 0, .act 1 [], .recv 0]).map (·.bags)) = some [[1, 4], [2, 3], [6, 5]] := by decide
/-- the interleaving decides WHICH items move, not how many: rank 2 ships two items to rank 1, rank 1 ships two to
rank 0; if rank 2's vector is executed on rank 1 before rank 1 pops, rank 1 passes on those very items -/
example : ((rebalance ({ ranks := 3, bags := [[], [1, 2], [3, 4, 5, 6]], rr := [0, 0, 0] } : Bag Nat) [[], [0], [1]]
    [.act 2 [], .recv 0, .act 1 [], .recv 0]).map (·.bags)) = some [[5, 6], [1, 2], [3, 4]] ∧
  ((rebalance ({ ranks := 3, bags := [[], [1, 2], [3, 4, 5, 6]], rr := [0, 0, 0] } : Bag Nat) [[], [0], [1]]
    [.act 2 [], .act 1 [], .recv 0, .recv 0]).map (·.bags)) = some [[1, 2], [5, 6], [3, 4]] := by decide
example : ((rebalance ({ ranks := 4, bags := [[], [], [], []], rr := [0, 0, 0, 0] } : Bag Nat) [[], [], [], []] []).map
    (·.bags)) = some [[], [], [], []] := by decide
/-- an iteration order that is not a permutation of the keys is refused; an unfinished run is refused -/
example : (rebalance ({ ranks := 2, bags := [[1, 2], []], rr := [0, 0] } : Bag Nat) [[], []] []).isNone = true := by decide
example : (rebalance ({ ranks := 2, bags := [[1, 2], []], rr := [0, 0] } : Bag Nat) [[1], []] [.act 0 []]).isNone = true := by decide
/-- global_shuffle on 2 ranks where rank 1's item reaches rank 0 before rank 0 swaps out and is sent on -/
example : ((globalShuffle ({ ranks := 2, bags := [[1], [2]], rr := [0, 0] } : Bag Nat)
    [.act 1 [0], .recv 0, .act 0 [1, 1], .recv 0, .recv 0]).map (·.bags)) = some [[], [1, 2]] := by decide
example : tag 3 0 = 3298534883328 := by decide

end YgmVerif.BagOps
