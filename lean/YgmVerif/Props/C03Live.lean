import YgmVerif.Props.C03
import YgmVerif.Lemmas.FlushLive
/-!
# C03 (liveness half) — `flush_all_local_and_process_incoming` RETURNS once the environment goes quiet

`Props/C03.lean` proves safety: IF the loop returns THEN nothing is pending.  Here, for the part that is YGM's own
logic, the converse direction: the loop returns after a bounded number of steps.

The loop is run by the deterministic driver of `Lemmas/FlushLive.lean` (`adv` / `iter`, labels `labels`), which from
a state executes the unique label the code would execute next against
  `env i s`   (what the i-th `process_receive_queue` does in state `s`),
  `cbEff j s` (effect of the j-th pre-barrier callback),
  `fb s`      (bytes of the front send buffer),
with loop C = flushC, pollC, pollC (the poll inside `flush_send_buffer` and the explicit one).

Hypotheses of the termination theorem (all stated in `Lemmas/FlushLive.lean`):
* `EnvOK env`       every poll satisfies `WF` and the return rule of the repaired code (needed only so that the
                    history is a history of the model, i.e. to invoke `C03_flushAll_post`);
* `FlushOK fb`      a flush removes `0 < b ≤ ub` bytes;
* `QuietFrom K env` from poll index `K` on a poll receives nothing (`recvd = ret = false`, `cbs`, `ub` unchanged,
                    `sq` not increased) and a poll of the wait loop D with `sq > 0` completes ≥ 1 posted send
                    (fairness of MPI send completion; it is only required where the loop actually waits —
                    `QuietFromStrong`, which requires it of every poll, implies it);
* `CbTame J U Q cbEff` from callback index `J` on a callback registers no new callback (`cbs` strictly decreases) but
                    may buffer up to `U` new bytes and post up to `Q` new sends, which the loop then flushes / waits for.

Bound: from a driver state `d` with `K ≤ d.np`, `J ≤ d.nc`, the driver is at `Done` after
  `measure U Q d = (1 + 4U + Q)·cbs + 4·ub + sq + owe + overhead ≤ (1 + 4U + Q)·cbs + 4·ub + sq + owe + 10`
steps (`owe ≤ 2` = polls loop C still owes for its last flush; `ub` bounds the number of buffers to flush since each
has ≥ 1 byte), and `measure` strictly decreases at every driver step (`C03_variant_decreases`).

Converse observations: `C03_no_return_while_sends_pending`, `C03_spins_while_send_never_completes` (the livelock the
simulated-MPI spin detector reports), `C03_spins_if_never_quiet`, `C03_spins_if_callback_reregisters`.

NOT covered: that the environment does go quiet (global termination of the message cascade, MPI progress) — that is the
assumption; simmpi explores it.
-/
namespace YgmVerif.Flush

variable {env : Nat → St → Poll} {cbEff : Nat → St → Nat × Nat × Nat} {fb : St → Nat}

/-! ## 1. the driver only takes steps accepted by `step` -/

/-- one driver step from a state that has not returned is a `step` of the model with the driver's label -/
theorem C03_driver_step_accepted (d : DSt) (henv : EnvOK env) (hfb : FlushOK fb) (hok : DOk d)
    (hnd : d.st.pc ≠ .Done) :
    ∃ l, next env cbEff fb d = some l ∧ step d.st l = some (adv env cbEff fb d).st :=
  next_step (henv.from d.np) hfb hok hnd

/-- the first `n` driver steps from the loop entry are a history accepted by the model, ending in the driver's state -/
theorem C03_driver_sound (henv : EnvOK env) (hfb : FlushOK fb) (c u q n : Nat) :
    run (start c u q) (labels env cbEff fb n (dstart c u q)) = some (iter env cbEff fb n (dstart c u q)).st :=
  run_labels hfb n (dstart c u q) (henv.from _) (dOk_dstart c u q)

/-! ## 3. termination -/

/-- **the variant**: every driver step strictly decreases `measure U Q` once polls are quiet and callbacks tame -/
theorem C03_variant_decreases {K J U Q : Nat} (hq : QuietFrom K env) (hc : CbTame J U Q cbEff) (hfb : FlushOK fb)
    (d : DSt) (hK : K ≤ d.np) (hJ : J ≤ d.nc) (hnd : d.st.pc ≠ .Done) :
    measure U Q (adv env cbEff fb d) < measure U Q d :=
  measure_adv hq hc hfb d hK hJ hnd

/-- termination from ANY driver state (reachable or not) past the quiet point, with the explicit bound -/
theorem C03_flushAll_terminates_from {K J U Q : Nat} (hq : QuietFrom K env) (hc : CbTame J U Q cbEff)
    (hfb : FlushOK fb) (d : DSt) (hK : K ≤ d.np) (hJ : J ≤ d.nc) :
    (∀ n, measure U Q d ≤ n → (iter env cbEff fb n d).st.pc = .Done) ∧
    measure U Q d ≤ (1 + 4 * U + Q) * d.st.cbs + 4 * d.st.ub + d.st.sq + d.owe + 10 :=
  ⟨fun n hn => iter_done_of_measure_le hq hc hfb n d hK hJ hn, measure_le_bound U Q d⟩

/-- **MAIN THEOREM.**  Enter the loop with `c` callbacks, `u` unsent bytes, `q` posted sends and let it run `m` steps
against an arbitrary legal environment.  If by then `K` polls have been made and `J` callbacks run, the environment
is quiet from poll `K` on and callbacks are tame from callback `J` on, then after at most
`N = measure U Q d ≤ (1+4U+Q)·cbs + 4·ub + sq + owe + 10` further steps (`d` = the state after the `m` steps) the
loop has returned, and — by `C03_flushAll_post` — with no callback pending, nothing unsent, no send posted. -/
theorem C03_flushAll_terminates {K J U Q : Nat} (henv : EnvOK env) (hfb : FlushOK fb)
    (hq : QuietFrom K env) (hc : CbTame J U Q cbEff) (c u q m : Nat)
    (hK : K ≤ (iter env cbEff fb m (dstart c u q)).np) (hJ : J ≤ (iter env cbEff fb m (dstart c u q)).nc)
    (n : Nat) (hn : measure U Q (iter env cbEff fb m (dstart c u q)) ≤ n) :
    (iter env cbEff fb (m + n) (dstart c u q)).st.pc = .Done ∧
    (iter env cbEff fb (m + n) (dstart c u q)).st.cbs = 0 ∧
    (iter env cbEff fb (m + n) (dstart c u q)).st.ub = 0 ∧
    (iter env cbEff fb (m + n) (dstart c u q)).st.sq = 0 ∧
    run (start c u q) (labels env cbEff fb (m + n) (dstart c u q))
      = some (iter env cbEff fb (m + n) (dstart c u q)).st := by
  have hdone : (iter env cbEff fb (m + n) (dstart c u q)).st.pc = .Done := by
    rw [iter_add]; exact iter_done_of_measure_le hq hc hfb n _ hK hJ hn
  have hrun := C03_driver_sound (cbEff := cbEff) henv hfb c u q (m + n)
  have hpost := C03_flushAll_post c u q _ _ hrun hdone
  exact ⟨hdone, hpost.1, hpost.2.1, hpost.2.2, hrun⟩

/-- the same with the closed-form bound as the number of steps -/
theorem C03_flushAll_terminates_bound {K J U Q : Nat} (henv : EnvOK env) (hfb : FlushOK fb)
    (hq : QuietFrom K env) (hc : CbTame J U Q cbEff) (c u q m : Nat)
    (hK : K ≤ (iter env cbEff fb m (dstart c u q)).np) (hJ : J ≤ (iter env cbEff fb m (dstart c u q)).nc) :
    (iter env cbEff fb (m + bound U Q (iter env cbEff fb m (dstart c u q))) (dstart c u q)).st
      = { pc := .Done, did := false, cbs := 0, ub := 0, sq := 0 } ∨
    (iter env cbEff fb (m + bound U Q (iter env cbEff fb m (dstart c u q))) (dstart c u q)).st
      = { pc := .Done, did := true, cbs := 0, ub := 0, sq := 0 } := by
  have h := C03_flushAll_terminates henv hfb hq hc c u q m hK hJ _ (measure_le_bound U Q _)
  generalize (iter env cbEff fb (m + bound U Q (iter env cbEff fb m (dstart c u q))) (dstart c u q)).st = s at h
  obtain ⟨pc, did, c', u', q'⟩ := s
  obtain ⟨h1, h2, h3, h4, _⟩ := h
  simp only at h1 h2 h3 h4
  subst h1 h2 h3 h4
  cases did <;> simp

/-- in particular: entered in an already quiet environment (K = J = 0) the loop returns within
`(1+4U+Q)·c + 4·u + q + 8` steps -/
theorem C03_flushAll_terminates_quiet_entry {U Q : Nat} (hfb : FlushOK fb)
    (hq : QuietFrom 0 env) (hc : CbTame 0 U Q cbEff) (c u q : Nat) :
    (iter env cbEff fb ((1 + 4 * U + Q) * c + 4 * u + q + 8) (dstart c u q)).st.pc = .Done := by
  apply iter_done_of_measure_le hq hc hfb _ _ (Nat.zero_le _) (Nat.zero_le _)
  have h8 : hA c u ≤ 8 := by unfold hA; split <;> omega
  show cbCost U Q * c + 4 * u + q + 0 + hA c u ≤ (1 + 4 * U + Q) * c + 4 * u + q + 8
  have : cbCost U Q = 1 + 4 * U + Q := rfl
  rw [this]; omega

/-! ## 4. the hypotheses are needed -/

/-- **the loop cannot return while a send is posted**: the only transition into `Done` is `endD`, taken at `sq = 0` -/
theorem C03_no_return_while_sends_pending (s s' : St) (l : Label) (h : step s l = some s')
    (hnd : s.pc ≠ .Done) (hd : s'.pc = .Done) : s.sq = 0 ∧ s'.sq = 0 := by
  obtain ⟨pc, did, c, u, q⟩ := s
  cases l <;> simp only [step, stepWith] at h <;> split at h <;> cases h <;> simp_all [apply]

/-- … so if posted sends never complete, the driver spins in the wait loop D for ever (the livelock the
simulated-MPI spin detector reports) -/
theorem C03_spins_while_send_never_completes (hns : ∀ i s, s.sq ≤ (env i s).sq) (d : DSt)
    (hD : d.st.pc = .D) (hq : 0 < d.st.sq) (n : Nat) :
    (iter env cbEff fb n d).st.pc = .D ∧ 0 < (iter env cbEff fb n d).st.sq := by
  induction n generalizing d with
  | zero => exact ⟨hD, hq⟩
  | succ n ih =>
    simp only [iter]
    apply ih
    · obtain ⟨⟨pc, did, c, u, q⟩, np, nc, o⟩ := d
      simp only at hD hq; subst hD
      simp [adv, hq, apply]
    · obtain ⟨⟨pc, did, c, u, q⟩, np, nc, o⟩ := d
      simp only at hD hq; subst hD
      have := hns np ⟨.D, did, c, u, q⟩
      simp only at this
      simp only [adv, hq, if_true, apply]
      omega

/-- **termination needs the environment to go quiet**: if every poll keeps receiving, the driver never returns -/
theorem C03_spins_if_never_quiet (hbusy : ∀ i s, (env i s).recvd = true ∧ (env i s).ret = true)
    (d : DSt) (hnd : d.st.pc ≠ .Done) (hdid : d.st.pc = .A ∨ d.st.did = true) :
    ∀ n, (iter env cbEff fb n d).st.pc ≠ .Done := by
  intro n
  induction n generalizing d with
  | zero => exact hnd
  | succ n ih =>
    simp only [iter]
    obtain ⟨⟨pc, did, c, u, q⟩, np, nc, o⟩ := d
    have hr : ∀ s, (env np s).ret = true := fun s => (hbusy np s).2
    cases pc
    · apply ih <;> simp [adv, hr]
    · apply ih <;> simp only [adv] <;> split <;> simp_all
    · apply ih <;> simp only [adv] <;> (repeat' split) <;> simp_all [apply]
    · have hd : did = true := by simpa using hdid
      subst hd
      apply ih <;> simp only [adv] <;> split <;> simp [apply]
    · exact absurd rfl hnd

/-- from the loop entry in particular -/
theorem C03_spins_if_never_quiet_start (hbusy : ∀ i s, (env i s).recvd = true ∧ (env i s).ret = true)
    (c u q : Nat) : ∀ n, (iter env cbEff fb n (dstart c u q)).st.pc ≠ .Done :=
  C03_spins_if_never_quiet hbusy (dstart c u q) (by simp [dstart, start]) (Or.inl rfl)

/-- **tameness of callbacks is needed too**: if every callback registers a successor, the driver never leaves loop B -/
theorem C03_spins_if_callback_reregisters (hre : ∀ j s, 0 < s.cbs → 0 < (cbEff j s).1) (d : DSt)
    (hB : d.st.pc = .B) (hc : 0 < d.st.cbs) (n : Nat) :
    (iter env cbEff fb n d).st.pc = .B ∧ 0 < (iter env cbEff fb n d).st.cbs := by
  induction n generalizing d with
  | zero => exact ⟨hB, hc⟩
  | succ n ih =>
    simp only [iter]
    obtain ⟨⟨pc, did, c, u, q⟩, np, nc, o⟩ := d
    simp only at hB hc; subst hB
    have := hre nc ⟨.B, did, c, u, q⟩ hc
    apply ih <;> simp [adv, hc, this]

/-! ## 5. non-vacuity -/

/-- two busy polls (each registers a callback and buffers 10 bytes), then quiet polls completing one send each -/
def envEx (i : Nat) (s : St) : Poll :=
  if i < 2 then ⟨true, true, s.cbs + 1, s.ub + 10, s.sq⟩ else ⟨false, false, s.cbs, s.ub, s.sq - 1⟩
/-- a callback buffers 5 bytes and posts one send -/
def cbEx (_ : Nat) (s : St) : Nat × Nat × Nat := (s.cbs - 1, s.ub + 5, s.sq + 1)
/-- buffers of at most 8 bytes -/
def fbEx (s : St) : Nat := min s.ub 8

theorem envEx_ok : EnvOK envEx := by
  intro i s; simp only [envEx, WF]; split <;> simp

theorem envEx_quiet : QuietFromStrong 2 envEx := by
  intro i s hi
  have : ¬ i < 2 := by omega
  simp only [envEx, this, if_false, true_and]
  omega

theorem cbEx_tame : CbTame 0 5 1 cbEx := by
  intro j s _ hc; simp only [cbEx]; omega

theorem fbEx_ok : FlushOK fbEx := by
  intro s hu; simp only [fbEx]; omega

/-- the driver against this environment: returned, everything drained -/
example : (iter envEx cbEx fbEx 60 (dstart 1 20 1)).st = ⟨.Done, false, 0, 0, 0⟩ := by decide
/-- … at step 39 exactly … -/
example : (iter envEx cbEx fbEx 38 (dstart 1 20 1)).st.pc = .D ∧ (iter envEx cbEx fbEx 39 (dstart 1 20 1)).st.pc = .Done := by
  decide
/-- … its history is a history of the model … -/
example : (run (start 1 20 1) (labels envEx cbEx fbEx 60 (dstart 1 20 1))).map (·.pc) = some .Done := by decide
/-- … after 6 steps the environment is quiet (2 polls made; the 2nd, made inside loop C, registered a callback, so
three more passes are needed) and the variant is 205 -/
example : (iter envEx cbEx fbEx 6 (dstart 1 20 1)).np = 2 ∧
    (iter envEx cbEx fbEx 6 (dstart 1 20 1)).st = ⟨.C, true, 1, 42, 4⟩ ∧
    measure 5 1 (iter envEx cbEx fbEx 6 (dstart 1 20 1)) = 205 := by decide
/-- the hypotheses of the main theorem are jointly satisfiable, and it yields the concrete conclusion -/
example : (iter envEx cbEx fbEx (6 + 205) (dstart 1 20 1)).st.pc = .Done :=
  (C03_flushAll_terminates envEx_ok fbEx_ok envEx_quiet.weaken cbEx_tame 1 20 1 6 (by decide) (by decide) 205
    (by decide)).1
/-- the variant decreases by at least one along that run (here: steps 6 → 7) -/
example : measure 5 1 (iter envEx cbEx fbEx 7 (dstart 1 20 1)) < measure 5 1 (iter envEx cbEx fbEx 6 (dstart 1 20 1)) := by
  decide

/-- an environment that never goes quiet: still in the loop after 60 steps -/
def envBusy (_ : Nat) (s : St) : Poll := ⟨true, true, s.cbs, s.ub, 0⟩
example : (iter envBusy cbEx fbEx 60 (dstart 0 0 0)).st.pc ≠ .Done := by decide
example : ∀ n, (iter envBusy cbEx fbEx n (dstart 0 0 0)).st.pc ≠ .Done :=
  C03_spins_if_never_quiet_start (fun _ _ => ⟨rfl, rfl⟩) 0 0 0

/-- an environment whose posted send never completes: the driver sits in D -/
def envStuck (_ : Nat) (s : St) : Poll := ⟨false, false, s.cbs, s.ub, s.sq⟩
example : (iter envStuck cbEx fbEx 60 (dstart 0 0 1)).st = ⟨.D, false, 0, 0, 1⟩ := by decide
example : ∀ n, (iter envStuck cbEx fbEx (3 + n) (dstart 0 0 1)).st.pc = .D := by
  intro n
  rw [iter_add]
  exact (C03_spins_while_send_never_completes (fun _ _ => Nat.le_refl _) _ (by decide) (by decide) n).1

/-- a callback that re-registers itself: the driver sits in B -/
example : ∀ n, (iter envStuck (fun _ s => (s.cbs, s.ub, s.sq)) fbEx (1 + n) (dstart 1 0 0)).st.pc = .B := by
  intro n
  rw [iter_add]
  exact (C03_spins_if_callback_reregisters (fun _ _ h => h) _ (by decide) (by decide) n).1

end YgmVerif.Flush
