import YgmVerif.Model.Cache
/-!
The count cache of `counting_set` and the cache of `reducing_adapter` in the statement
order of the PINNED tree (defects D5 / D6), as the same kind of labelled machine as
`YgmVerif.Cache` — and `decide`d witness histories on which that order duplicates a
count, loses a count / a value, and leaves an entry cached behind a finished pre-barrier
callback with no new callback registered.  `YgmVerif.Cache` (the repaired order) is proved
free of all three (`Props/C15`, `Props/C16`).

    flush(slot):   [counting_set: copy key and count]  send;  free the slot   ← after the send
                   [adapter: the send takes slot.key / slot.value BY REFERENCE,
                    they are read when `comm::async` packs its arguments]
    insert(k,v):   register if needed; slot free → occupy; same key → combine;
                   else { flush(slot); slot := (k, v) }                        ← no re-check
    flush_all():   for every slot in order: flush;  m_cache_empty := true      ← after the loop

Executable, core Lean only (the driver replays real traces of an unrepaired tree through it).
-/
namespace YgmVerif.PinnedCache
open YgmVerif.Cache

structure PCfg (V : Type) extends Cfg V where
  /-- adapter: arguments of the send are references into the slot -/
  byRef : Bool

inductive PFrame (V : Type) where
  /-- insert of `(k, v)` whose eviction flush is inside `comm::async` -/
  | ins (k : Key) (v : V) (ph : Phase V)
  /-- overflow flush of slot `s` inside `comm::async` -/
  | ovf (s : Nat) (ph : Phase V)
  /-- bypass send in progress / insert about to return -/
  | tail (ph : Phase V)
  /-- flush-all loop: flush of slot `i` inside `comm::async`; `fin` = loop finished -/
  | fall (i : Nat) (ph : Phase V)
  deriving Repr, DecidableEq

def PFrame.phase {V} : PFrame V → Phase V
  | .ins _ _ ph => ph
  | .ovf _ ph => ph
  | .tail ph => ph
  | .fall _ ph => ph

def PFrame.setPhase {V} : PFrame V → Phase V → PFrame V
  | .ins k v _, ph => .ins k v ph
  | .ovf s _, ph => .ovf s ph
  | .tail _, ph => .tail ph
  | .fall i _, ph => .fall i ph

structure PSt (V : Type) where
  cache : CMap V
  reg : Bool
  stack : List (PFrame V)
  deriving Repr

def PSt.init {V} : PSt V := { cache := [], reg := false, stack := [] }

def canEnter {V} : List (PFrame V) → Bool
  | [] => true
  | f :: _ => match f.phase with
    | .fin => false
    | _ => true

/-- slot a frame's send refers to -/
def PFrame.slot? {V} (cfg : PCfg V) : PFrame V → Option Nat
  | .ins k _ _ => some (slot cfg.toCfg k)
  | .ovf s _ => some s
  | .tail _ => none
  | .fall i _ => some i

/-- the message `pack` serialises: the copied entry, or (adapter) the slot as it is now -/
def pending {V} (cfg : PCfg V) (s : PSt V) : Option (Msg V) :=
  match s.stack with
  | f :: _ =>
    match f.phase with
    | .pend m =>
      if cfg.byRef then
        match f.slot? cfg with
        | some sl =>
          match s.cache.get sl with
          | some (k, v) => some ⟨m.toContainer, k, v⟩
          | none => some m
        | none => some m
      else some m
    | _ => none
  | [] => none

/-- after occupy/combine: `if (count == max) flush(slot)` — the slot keeps its entry during the send -/
def afterEnter {V} (cfg : PCfg V) (c : CMap V) (k : Key) (w : V) : CMap V × PFrame V :=
  let c' := c.set (slot cfg.toCfg k) (k, w)
  if cfg.full w then (c', .ovf (slot cfg.toCfg k) (.pend ⟨cfg.direct, k, w⟩)) else (c', .tail .fin)

/-- flush-all loop looking at slots `≥ i`; at the end `m_cache_empty = true` -/
def fallLoop {V} (cfg : PCfg V) (c : CMap V) (reg : Bool) (i : Nat) : Bool × PFrame V :=
  match nextOcc c i cfg.nslots with
  | none => (false, .fall cfg.nslots .fin)
  | some j =>
    match c.get j with
    | none => (false, .fall cfg.nslots .fin)
    | some (k, v) => (reg, .fall j (.pend ⟨cfg.direct, k, v⟩))

def step {V} (cfg : PCfg V) (s : PSt V) : Label V → Option (PSt V)
  | .ins k v =>
    if canEnter s.stack then
      if cfg.isOwner k then
        some { s with stack := .tail (.pend ⟨true, k, v⟩) :: s.stack }
      else
        match s.cache.get (slot cfg.toCfg k) with
        | none =>
          let (c, f) := afterEnter cfg s.cache k v
          some { cache := c, reg := true, stack := f :: s.stack }
        | some (k', v') =>
          if k' = k then
            let (c, f) := afterEnter cfg s.cache k (cfg.op v' v)
            some { cache := c, reg := true, stack := f :: s.stack }
          else
            some { s with reg := true, stack := .ins k v (.pend ⟨cfg.direct, k', v'⟩) :: s.stack }
    else none
  | .pack =>
    match s.stack with
    | f :: rest =>
      match f.phase with
      | .pend _ => some { s with stack := f.setPhase .sent :: rest }
      | _ => none
    | [] => none
  | .ret =>
    match s.stack with
    | .ins k v .sent :: rest =>
      -- slot freed after the send, then overwritten without looking at it again
      let (c, f) := afterEnter cfg (s.cache.clear (slot cfg.toCfg k)) k v
      some { s with cache := c, stack := f :: rest }
    | .ovf sl .sent :: rest => some { s with cache := s.cache.clear sl, stack := .tail .fin :: rest }
    | .tail .sent :: rest => some { s with stack := .tail .fin :: rest }
    | .fall i .sent :: rest =>
      let c := s.cache.clear i
      let (r, f) := fallLoop cfg c s.reg (i + 1)
      some { cache := c, reg := r, stack := f :: rest }
    | _ => none
  | .done =>
    match s.stack with
    | .tail .fin :: rest => some { s with stack := rest }
    | _ => none
  | .fb =>
    if s.stack.isEmpty ∧ s.reg then
      let (r, f) := fallLoop cfg s.cache s.reg 0
      some { s with reg := r, stack := [f] }
    else none
  | .fe =>
    match s.stack with
    | .fall _ .fin :: rest => some { s with stack := rest }
    | _ => none
  | .bar => if s.stack.isEmpty ∧ s.reg = false then some s else none

def run {V} (cfg : PCfg V) : PSt V → List (Label V) → Option (PSt V)
  | s, [] => some s
  | s, l :: ls => match step cfg s l with
    | none => none
    | some s' => run cfg s' ls

def emitted {V} (cfg : PCfg V) : PSt V → List (Label V) → List (Msg V)
  | _, [] => []
  | s, l :: ls =>
    match step cfg s l with
    | none => []
    | some s' =>
      match l, pending cfg s with
      | .pack, some m => m :: emitted cfg s' ls
      | _, _ => emitted cfg s' ls

/-- pinned counting_set with a 4-slot cache -/
def cset4 : PCfg Nat := { csetCfg 4 with byRef := false }
/-- pinned reducing adapter (sum) with a 4-slot cache on a rank that owns nothing here -/
def adapter4 : PCfg Nat := { adapterCfg 4 (· + ·) (fun _ => 1) 0 with byRef := true }

/-! ### D5: a count is sent twice and another one is dropped

Keys 1 and 5 share slot 1.  Main inserts 1, then 5; the eviction of key 1 is inside
`comm::async` when a handler inserts 5: it sees key 1 still in the slot, flushes it AGAIN,
and occupies the slot with (5,1) — which the outer flush then wipes before the outer
insert writes its own (5,1).  Two inserts of 5 arrive as one, one insert of 1 as two. -/
def d5History : List (Label Nat) :=
  [.ins 1 1, .done,
   .ins 5 1, .pack,                       -- main: evict (1,1); arguments packed
     .ins 5 1, .pack, .ret, .done,        -- handler inside the send: flushes (1,1) again
   .ret, .done,                           -- outer: frees the slot, overwrites it
   .fb, .pack, .ret, .fe, .bar]           -- barrier

example : (run cset4 .init d5History).map (fun s => (s.stack.length, s.reg, s.cache)) = some (0, false, []) := by decide
example : received d5History = [(1, 1), (5, 1), (5, 1)] := by decide
/-- key 1: one insert, count 2 -/
theorem cache_duplicates : ownerCount (emitted cset4 .init d5History) 1 = 2 := by decide
/-- key 5: two inserts, count 1 -/
theorem cache_loses : ownerCount (emitted cset4 .init d5History) 5 = 1 := by decide
/-- the repaired order on the same history (one more `pack`/`ret`: the outer insert
re-checks the slot, finds the handler's entry for its own key and combines) is exact -/
def d5HistoryRepaired : List (Label Nat) :=
  [.ins 1 1, .done, .ins 5 1, .pack, .ins 5 1, .done, .ret, .done, .fb, .pack, .ret, .fe, .bar]
example : (Cache.run (csetCfg 4) .init d5HistoryRepaired).map (fun s => (s.stack.length, s.reg, s.cache)) = some (0, false, []) := by decide
example : ownerCount (Cache.emitted (csetCfg 4) .init d5HistoryRepaired) 1 = 1
    ∧ ownerCount (Cache.emitted (csetCfg 4) .init d5HistoryRepaired) 5 = 2 := by decide

/-! ### D6: a contributed value is lost

The adapter evicts (1,10) for key 5; after the arguments are packed a handler reduces 3
into key 1: it combines into the slot that is about to be marked free. -/
def d6History : List (Label Nat) :=
  [.ins 1 10, .done,
   .ins 5 7, .pack,
     .ins 1 3, .done,                     -- handler: slot still holds key 1 → (1,13)
   .ret, .done,                           -- occupied := false; slot := (5,7)
   .fb, .pack, .ret, .fe, .bar]

example : (run adapter4 .init d6History).map (fun s => (s.stack.length, s.reg, s.cache)) = some (0, false, []) := by decide
/-- key 1 received 10 and 3, only 10 leaves the rank -/
theorem reduce_loses : total (· + ·) (msgValsOf 1 (emitted adapter4 .init d6History)) = some 10
    ∧ total (· + ·) (valsOf 1 (received d6History)) = some 13 := by decide

/-! ### the flag: an entry survives the pre-barrier callback and no callback is registered

Slots 1 and 2 are occupied.  While slot 2 is being flushed a handler inserts key 1 into the
already visited slot 1; `m_cache_empty` is still `false`, so nothing is registered, and the
callback then sets it to `true`.  The barrier ends with (1,1) cached. -/
def flagHistory : List (Label Nat) :=
  [.ins 1 1, .done, .ins 2 1, .done,
   .fb, .pack, .ret,                      -- slot 1 flushed
        .pack, .ins 1 1, .done, .ret,     -- slot 2: handler re-occupies slot 1
   .fe, .bar]                             -- the barrier returns with (1,1) still cached

theorem flushAll_leaves_entry :
    (run cset4 .init flagHistory).map (fun s => (s.stack.length, s.reg, s.cache)) = some (0, false, [(1, (1, 1))]) := by
  decide

end YgmVerif.PinnedCache
