/-
Model of `ygm::container::disjoint_set` (detail/disjoint_set_impl.hpp) as a message
system.  Executable, core Lean only.

* state: `ent : Item → Entry` = `m_local_item_parent_map` of all ranks together (an item
  lives on exactly one rank, C10); an absent item reads as `(rank 0, parent self)`, which is
  what `async_visit` inserts before running a visitor.  `dom` lists the items present in
  the map (`size()` = its length).
* messages: the three visitors `async_union` / `async_union_and_execute` send
  - `walk`    = `simul_parent_walk_functor` (arguments in the order of the code:
                target, my_child, other_parent, other_item, other_rank, + orig_a, orig_b;
                `exec = true` for the `_and_execute` variant; the plain variant does not
                carry orig_a/orig_b — they are ghost fields there, no branch reads them),
  - `setp`    = `update_parent_lambda` / the anonymous set_parent visitor (path splitting
                and the "tell merging item about new parent" message of resolve_merge),
  - `resolve` = `resolve_merge_lambda`.
* `deliver s i` takes the i-th in-flight message (ANY i: any delivery order) and runs the
  handler body literally.  `ASSERT_RELEASE` failures set `aborted`.
* `clear s` = `clear()`: barrier (so: nothing in flight), then every local map emptied.
* ghost fields (never read by a handler): `issued`, `mergeLog`; `cbs` = user callbacks run.

Ranks are `Int` (the initial walk carries `other_rank = -1`); the code's `int16_t` would
need 2^32767 items to overflow.  Items are `Nat` with the usual order (harness: int64 ≥ 0).
-/
namespace YgmVerif.DSet

/-- items are natural numbers (`scoped notation`, so that `omega` sees `Nat`) -/
scoped notation "Item" => Nat

structure Entry where
  rank : Int
  parent : Item
deriving DecidableEq, Repr, Inhabited

inductive Msg where
  /-- `async_visit(t, simul_parent_walk_functor(), c, op, oi, ork [, oa, ob])` -/
  | walk (exec : Bool) (t c op oi : Item) (ork : Int) (oa ob : Item)
  /-- `async_visit(x, update_parent_lambda, z)` -/
  | setp (x z : Item)
  /-- `async_visit(p, resolve_merge_lambda, x, k)` -/
  | resolve (p x : Item) (k : Int)
deriving DecidableEq, Repr, Inhabited

structure State where
  ent : Item → Entry
  dom : List Item
  msgs : List Msg
  /-- callbacks executed by `async_union_and_execute`, newest first: (orig_a, orig_b) -/
  cbs : List (Item × Item)
  /-- ghost: root merges performed, newest first: (exec, root, its new parent) -/
  mergeLog : List (Bool × Item × Item)
  /-- ghost: unions issued so far, newest first -/
  issued : List (Item × Item)
  /-- ghost: how many of them were plain `async_union`s (no callback) -/
  plainIssued : Nat
  aborted : Bool

def init : State :=
  { ent := fun x => ⟨0, x⟩, dom := [], msgs := [], cbs := [], mergeLog := [], issued := [], plainIssued := 0, aborted := false }

def rank (s : State) (x : Item) : Int := (s.ent x).rank
def parent (s : State) (x : Item) : Item := (s.ent x).parent

/-! ### primitive state transformers -/

/-- `async_visit`'s wrapper: insert `(0, item)` if the item is not in the map -/
def visit (s : State) (t : Item) : State :=
  if t ∈ s.dom then s else { s with dom := t :: s.dom }

/-- `p_dset->async_visit(...)` from inside a handler: one more message in flight -/
def send (s : State) (m : Msg) : State := { s with msgs := s.msgs ++ [m] }

/-- `item_info.second.set_parent(z)` on item `x` -/
def reparent (s : State) (x z : Item) : State :=
  { s with ent := fun y => if y = x then ⟨(s.ent x).rank, z⟩ else s.ent y }

def bump (s : State) (p : Item) (r : Int) : State :=
  { s with ent := fun y => if y = p then ⟨r, (s.ent p).parent⟩ else s.ent y }

/-- `rank_parent_t::increase_rank(new_rank)` -/
def increaseRank (s : State) (p : Item) (r : Int) : State :=
  if r > rank s p then bump s p r else s

def logMerge (s : State) (ex : Bool) (t op : Item) : State :=
  { s with mergeLog := (ex, t, op) :: s.mergeLog }

/-- the user function of `async_union_and_execute`, called with (orig_a, orig_b) -/
def callback (s : State) (a b : Item) : State := { s with cbs := (a, b) :: s.cbs }

/-! ### handlers -/

/-- "Path splitting": `if (my_child != my_item) async_visit(my_child, update_parent_lambda, my_parent)` -/
def splitChild (s : State) (t c : Item) : State :=
  if c ≠ t then send s (.setp c (parent s t)) else s

/-- the branch `simul_parent_walk_functor` takes, as a function of what it reads -/
inductive WalkCase where
  | stop        -- my_parent == other_parent || my_parent == other_item
  | switch      -- visit other_parent with the roles of the two paths exchanged
  | mergeTie    -- equal rank, at a root, my_item < other_parent: attach + resolve / callback
  | climb       -- not at a root: continue walking the current path
  | mergeLow    -- lower rank, at a root: attach
deriving DecidableEq, Repr

def walkCase (myRank : Int) (myParent t op oi : Item) (ork : Int) : WalkCase :=
  if myParent = op ∨ myParent = oi then .stop
  else if myRank > ork then .switch
  else if myRank = ork then
    if myParent = t then (if t < op then .mergeTie else .switch) else .climb
  else
    if myParent = t then .mergeLow else .climb

/-- `simul_parent_walk_functor::operator()` executed on the owner of `t` -/
def onWalk (s : State) (ex : Bool) (t c op oi : Item) (ork : Int) (oa ob : Item) : State :=
  let s0 := visit s t
  let myRank := rank s0 t
  let myParent := parent s0 t
  let s1 := splitChild s0 t c
  match walkCase myRank myParent t op oi ork with
  | .stop => s1
  | .switch => send s1 (.walk ex op oi myParent t myRank oa ob)
  | .climb => send s1 (.walk ex myParent t op oi ork oa ob)
  | .mergeTie =>
    let s2 := logMerge (reparent s1 t op) ex t op
    -- the `_and_execute` variant runs the callback and `return`s before the resolve_merge send
    if ex then callback s2 oa ob else send s2 (.resolve op t myRank)
  | .mergeLow =>
    let s2 := logMerge (reparent s1 t op) ex t op
    if ex then callback s2 oa ob else s2

/-- `resolve_merge_lambda` executed on the owner of `p` -/
def onResolve (s : State) (p x : Item) (k : Int) : State :=
  let s0 := visit s p
  if rank s0 p < k then { s0 with aborted := true }        -- ASSERT_RELEASE(my_rank >= merging_rank)
  else if rank s0 p > k then s0
  else                                                      -- ASSERT_RELEASE(my_rank == merging_rank) holds here
    if parent s0 p = p then increaseRank s0 p (k + 1)
    else send s0 (.setp x (parent s0 p))

/-- `update_parent_lambda` executed on the owner of `x` -/
def onSetp (s : State) (x z : Item) : State := reparent (visit s x) x z

def handle (s : State) : Msg → State
  | .walk ex t c op oi ork oa ob => onWalk s ex t c op oi ork oa ob
  | .setp x z => onSetp s x z
  | .resolve p x k => onResolve s p x k

/-- deliver the `i`-th message in flight (any `i`) -/
def deliver (s : State) (i : Nat) : State :=
  match s.msgs[i]? with
  | none => s
  | some m => handle { s with msgs := s.msgs.eraseIdx i } m

/-- `async_union(a, b)` (`ex = false`) / `async_union_and_execute(a, b, fn)` (`ex = true`) -/
def issue (s : State) (ex : Bool) (a b : Item) : State :=
  { send s (.walk ex a a b b (-1) a b) with
    issued := (a, b) :: s.issued
    plainIssued := if ex then s.plainIssued else s.plainIssued + 1 }

/-! ### lookups -/

/-- follow parents at most `fuel` times (`find_rep_functor` of `all_find`) -/
def find (s : State) : Nat → Item → Item
  | 0, x => x
  | n + 1, x => if parent s x = x then x else find s n (parent s x)

/-- the representative; `dom.length + 1` steps always suffice (theorem `root_isRoot`) -/
def root (s : State) (x : Item) : Item := find s (s.dom.length + 1) x

/-- `num_sets()`: items that are their own parent -/
def numSets (s : State) : Nat := (s.dom.filter (fun x => parent s x = x)).length

/-- `size()` -/
def size (s : State) : Nat := s.dom.length

/-- what `all_find` does to a queried item: `local_get_parent` inserts it if absent, the
representative is written back with `local_set_parent(source_item, root)` (writing a root's
own name over itself changes nothing) -/
def compress (s : State) (x : Item) : State :=
  let s0 := visit s x
  if parent s0 x = x then s0 else reparent s0 x (root s0 x)

/-- `clear()`: `m_comm.barrier(); m_local_item_parent_map.clear();` — the barrier comes FIRST, so
this step is only taken when nothing is in flight (`Step.clear` carries `s.msgs = []`; the
driver drains before it).  Every rank then empties its map.  The ghost logs restart:
connectivity, callbacks and merges are from now on "w.r.t. the unions issued since the last
clear". -/
def clear (s : State) : State := { init with aborted := s.aborted }

/-- `all_compress()` (behind `for_all`): every item ends up pointing at its representative -/
def compressAll (s : State) : State := s.dom.foldl compress s

/-! ### decidable versions of the invariants, run on dumps of the real parent map -/

def lexLtB (s : State) (x y : Item) : Bool :=
  rank s x < rank s y || (rank s x == rank s y && x < y)

/-- `lexInc` on the items of `dom` -/
def checkLex (s : State) : Bool :=
  s.dom.all (fun x => parent s x == x || lexLtB s x (parent s x))

/-- parents of present items are present -/
def checkClosed (s : State) : Bool := s.dom.all (fun x => s.dom.contains (parent s x))

/-- state with the given `(item, rank, parent)` triples and nothing in flight -/
def ofDump (l : List (Item × Int × Item)) : State :=
  { init with
    ent := fun x => match l.find? (fun e => e.1 == x) with
      | some (_, r, p) => ⟨r, p⟩
      | none => ⟨0, x⟩
    dom := l.map (·.1) }

end YgmVerif.DSet
