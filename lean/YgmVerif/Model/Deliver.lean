/-
Model of message movement in ygm::comm (comm.ipp: async / queue_message_bytes, flush_send_buffer,
handle_next_receive with its execute-or-forward branch), for every layout and routing function.

Every message ever issued has one entry with a *location*; the steps relocate entries exactly the way the
code moves bytes: `async` puts the message into the send buffer of its next hop, `isend` turns a whole
buffer into one physical message on the wire, `recvBegin` starts walking the oldest physical message of a
channel (MPI non-overtaking), `exec` runs the handler of a message addressed to this rank (or of a
broadcast leg, which carries header dest −1 and is executed wherever it lands), `fwd` re-buffers a
message that is not addressed here towards `nh me dest`, `recvEnd` re-posts the receive.

`nh : me → dest → next hop` is a parameter (instantiated with `Router.nextHop scheme p` by the driver).
Executable, core Lean only.
-/
namespace YgmVerif.Deliver

inductive Loc where
  | inBuf (r hop : Nat)            -- in rank r's send buffer for `hop` (m_vec_send_buffers[hop])
  | inWire (src dst seq : Nat)     -- inside the seq-th physical message sent by src, travelling to dst
  | inWalk (r : Nat)               -- inside the received buffer rank r is currently processing
  | done (r : Nat)                 -- handler executed on rank r
  deriving DecidableEq, Repr

structure Entry where
  uid : Nat
  dest : Nat
  direct : Bool        -- broadcast leg (queue_message_bytes): sent straight to `dest`, executed where it lands
  loc : Loc
  deriving DecidableEq, Repr

structure St where
  es : List Entry
  executed : List (Nat × Nat)       -- (rank, uid) in execution order
  sendSeq : Nat → Nat               -- per source rank: physical sends so far
  walking : Nat → Bool              -- rank is inside handle_next_receive

def St.init : St := { es := [], executed := [], sendSeq := fun _ => 0, walking := fun _ => false }

inductive Label where
  | async (r uid dest : Nat) (direct : Bool)
  | isend (r hop : Nat)
  | recvBegin (r src seq : Nat)
  | exec (r uid : Nat)
  | fwd (r uid : Nat)
  | recvEnd (r : Nat)
  deriving Repr

def upd {α} (f : Nat → α) (i : Nat) (v : α) : Nat → α := fun j => if j = i then v else f j

/-- move every entry satisfying `p` to location `l` -/
def relocate (p : Entry → Bool) (l : Loc) (es : List Entry) : List Entry :=
  es.map (fun e => if p e then { e with loc := l } else e)

def inBufOf (r hop : Nat) (e : Entry) : Bool := e.loc == Loc.inBuf r hop
def inWireOf (src dst seq : Nat) (e : Entry) : Bool := e.loc == Loc.inWire src dst seq
def inWalkOf (r : Nat) (e : Entry) : Bool := e.loc == Loc.inWalk r
/-- an older physical message of the same channel is still in flight -/
def olderInFlight (src dst seq : Nat) (e : Entry) : Bool :=
  match e.loc with
  | .inWire s d k => s == src && d == dst && k < seq
  | _ => false

/-- one step; `none` = the label is not enabled -/
def step (n : Nat) (nh : Nat → Nat → Nat) (s : St) : Label → Option St
  | .async r uid dest direct =>
    if r < n ∧ dest < n ∧ s.es.all (fun e => e.uid != uid) then
      let hop := if direct then dest else nh r dest
      some { s with es := s.es ++ [{ uid := uid, dest := dest, direct := direct, loc := .inBuf r hop }] }
    else none
  | .isend r hop =>
    if r < n ∧ s.es.any (inBufOf r hop) then
      some { s with es := relocate (inBufOf r hop) (.inWire r hop (s.sendSeq r)) s.es,
                    sendSeq := upd s.sendSeq r (s.sendSeq r + 1) }
    else none
  | .recvBegin r src seq =>
    if r < n ∧ s.walking r = false ∧ s.es.any (inWireOf src r seq) ∧ ¬ s.es.any (olderInFlight src r seq) then
      some { s with es := relocate (inWireOf src r seq) (.inWalk r) s.es, walking := upd s.walking r true }
    else none
  | .exec r uid =>
    if r < n ∧ s.walking r = true ∧
        s.es.any (fun e => e.uid == uid && inWalkOf r e && (e.dest == r || e.direct)) then
      some { s with es := relocate (fun e => e.uid == uid && inWalkOf r e) (.done r) s.es,
                    executed := s.executed ++ [(r, uid)] }
    else none
  | .fwd r uid =>
    match s.es.find? (fun e => e.uid == uid && inWalkOf r e) with
    | some e =>
      if r < n ∧ s.walking r = true ∧ e.dest ≠ r ∧ e.direct = false then
        some { s with es := relocate (fun e => e.uid == uid && inWalkOf r e) (.inBuf r (nh r e.dest)) s.es }
      else none
    | none => none
  | .recvEnd r =>
    if r < n ∧ s.walking r = true ∧ ¬ s.es.any (inWalkOf r) then
      some { s with walking := upd s.walking r false }
    else none

def run (n : Nat) (nh : Nat → Nat → Nat) (s : St) : List Label → Option St
  | [] => some s
  | l :: ls => match step n nh s l with
    | none => none
    | some s' => run n nh s' ls

/-- nothing in buffers, on the wire or being walked: every issued message has executed -/
def quiescent (s : St) : Bool := s.es.all (fun e => match e.loc with | .done _ => true | _ => false)

def isAsync : Label → Bool
  | .async .. => true
  | _ => false

/-- the uids of the entries at a location (what the acceptor compares with the real buffer contents) -/
def uidsAt (s : St) (p : Entry → Bool) : List Nat := (s.es.filter p).map (·.uid)

end YgmVerif.Deliver
