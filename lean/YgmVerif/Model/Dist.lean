/-
Generic composition "operation routed to its owner, applied there exactly once, atomically".

A distributed container is a state type `σ` (what one rank holds), an operation type `Op`
(one remote lambda call with its arguments), an `owner : Op → Nat` (hash % ranks of the key)
and `apply : σ → Op → σ × List Op × List Cb` — the body of the remote lambda: new local state,
the operations the user callback issued from inside the handler (they are routed like any other
operation) and the log of user-callback invocations.

Assumption imported from the messaging layer (C01/C02/C08, proved elsewhere): by the time a
barrier returns every issued operation — issued by the main program or from inside a handler —
has been executed exactly once, atomically, on its owner.  So there is a global execution
sequence `E` (a permutation of all issued operations, `Complete`) and the state of rank `r` is
`run apply init (E.filter (owner · = r))`  (`execGlobal_rank`).

What is proved here, for every container that is *keyed* (`Keyed`: every operation touches the
part of the state that belongs to one key only):
  * `proj_run`      the final value of key `k` is the fold of the per-key step over the
                    subsequence of operations on `k`, in the order they were executed;
  * `cbs_run`       the callback log of key `k` is the log of that per-key fold;
  * `commute`       adjacent operations on different keys commute;
  * `subseq_determines` two executions with the same per-key subsequences agree on every key;
  * `stored_only_on_owner` a rank that does not own `k` never changes its `k` part;
  * `exactly_once_fold` the packaged statement for a `Complete` execution.

Core Lean only (the driver links this file).
-/
namespace YgmVerif.Dist

/-- body of the remote lambdas of one container -/
structure Container (σ Op Cb : Type) where
  apply : σ → Op → σ × List Op × List Cb

/-- result of executing a sequence: final state, operations emitted by callbacks (in order),
callback invocations (in order) -/
structure Out (σ Op Cb : Type) where
  state : σ
  emitted : List Op
  cbs : List Cb

variable {σ Op Cb K τ : Type}

/-- sequential, atomic execution of `ops` in list order -/
def run (c : Container σ Op Cb) : σ → List Op → Out σ Op Cb
  | s, [] => ⟨s, [], []⟩
  | s, op :: ops =>
    let r := c.apply s op
    let o := run c r.1 ops
    ⟨o.state, r.2.1 ++ o.emitted, r.2.2 ++ o.cbs⟩

/-- the state component is literally `List.foldl` of the state transformer -/
theorem run_state_eq_foldl (c : Container σ Op Cb) (s : σ) (ops : List Op) :
    (run c s ops).state = ops.foldl (fun st op => (c.apply st op).1) s := by
  induction ops generalizing s with
  | nil => rfl
  | cons op ops ih => simp [run, ih]

theorem run_append (c : Container σ Op Cb) (s : σ) (a b : List Op) :
    run c s (a ++ b) =
      ⟨(run c (run c s a).state b).state,
       (run c s a).emitted ++ (run c (run c s a).state b).emitted,
       (run c s a).cbs ++ (run c (run c s a).state b).cbs⟩ := by
  induction a generalizing s with
  | nil => simp [run]
  | cons op a ih => simp [run, ih, List.append_assoc]

/-! ### Keyed containers: per-key independence -/

/-- every operation reads and writes only the part `proj s (key op)` of the state, and what it
emits / logs depends only on that part -/
structure Keyed (σ Op Cb K τ : Type) extends Container σ Op Cb where
  key : Op → K
  cbKey : Cb → K
  proj : σ → K → τ
  applyK : τ → Op → τ × List Op × List Cb
  proj_same : ∀ s op, proj (apply s op).1 (key op) = (applyK (proj s (key op)) op).1
  proj_other : ∀ s op k, k ≠ key op → proj (apply s op).1 k = proj s k
  out_local : ∀ s op, (apply s op).2 = (applyK (proj s (key op)) op).2
  cb_key : ∀ t op cb, cb ∈ (applyK t op).2.2 → cbKey cb = key op

/-- the per-key container -/
def Keyed.perKey (kc : Keyed σ Op Cb K τ) : Container τ Op Cb := ⟨kc.applyK⟩

/-- operations on key `k`, in execution order -/
def opsOn [DecidableEq K] (kc : Keyed σ Op Cb K τ) (k : K) (ops : List Op) : List Op :=
  ops.filter (fun o => kc.key o = k)

/-- **per-key fold**: the `k` part of the final state is the fold of the per-key step over the
subsequence of operations on `k`, in the order they were executed -/
theorem proj_run [DecidableEq K] (kc : Keyed σ Op Cb K τ) (s : σ) (ops : List Op) (k : K) :
    kc.proj (run kc.toContainer s ops).state k
      = (run kc.perKey (kc.proj s k) (opsOn kc k ops)).state := by
  induction ops generalizing s with
  | nil => rfl
  | cons op ops ih =>
    by_cases h : kc.key op = k
    · subst h
      simp only [run, opsOn, List.filter_cons, decide_true, if_true]
      rw [ih]
      simp only [opsOn, Keyed.perKey, kc.proj_same]
    · simp only [run, opsOn, List.filter_cons, h, decide_false]
      rw [ih, kc.proj_other _ _ _ (fun e => h e.symm)]
      simp [opsOn]

/-- the callbacks logged for key `k` are exactly those of the per-key fold -/
theorem cbs_run [DecidableEq K] (kc : Keyed σ Op Cb K τ) (s : σ) (ops : List Op) (k : K) :
    (run kc.toContainer s ops).cbs.filter (fun cb => kc.cbKey cb = k)
      = (run kc.perKey (kc.proj s k) (opsOn kc k ops)).cbs := by
  induction ops generalizing s with
  | nil => rfl
  | cons op ops ih =>
    have hall : ∀ cb ∈ (kc.apply s op).2.2, kc.cbKey cb = kc.key op := by
      intro cb hcb; rw [kc.out_local] at hcb; exact kc.cb_key _ _ _ hcb
    by_cases h : kc.key op = k
    · subst h
      simp only [run, opsOn, List.filter_cons, decide_true, if_true, List.filter_append]
      rw [ih]
      have : (kc.apply s op).2.2.filter (fun cb => kc.cbKey cb = kc.key op) = (kc.apply s op).2.2 :=
        List.filter_eq_self.mpr (fun cb hcb => by simp [hall cb hcb])
      rw [this]
      simp only [opsOn, Keyed.perKey, kc.proj_same, kc.out_local]
    · simp only [run, opsOn, List.filter_cons, h, decide_false, List.filter_append]
      have : (kc.apply s op).2.2.filter (fun cb => kc.cbKey cb = k) = [] :=
        List.filter_eq_nil_iff.mpr (fun cb hcb => by simp [hall cb hcb, h])
      rw [this, ih, kc.proj_other _ _ _ (fun e => h e.symm)]
      simp [opsOn]

/-- two executions whose per-key subsequences coincide agree on every key -/
theorem subseq_determines [DecidableEq K] (kc : Keyed σ Op Cb K τ) (s : σ) (e1 e2 : List Op)
    (h : ∀ k, opsOn kc k e1 = opsOn kc k e2) (k : K) :
    kc.proj (run kc.toContainer s e1).state k = kc.proj (run kc.toContainer s e2).state k := by
  rw [proj_run, proj_run, h k]

/-- adjacent operations on different keys commute (anywhere in an execution) -/
theorem commute [DecidableEq K] (kc : Keyed σ Op Cb K τ) (s : σ) (pre post : List Op) (a b : Op)
    (hab : kc.key a ≠ kc.key b) (k : K) :
    kc.proj (run kc.toContainer s (pre ++ a :: b :: post)).state k
      = kc.proj (run kc.toContainer s (pre ++ b :: a :: post)).state k := by
  apply subseq_determines
  intro k'
  simp only [opsOn, List.filter_append, List.filter_cons]
  by_cases ha : kc.key a = k' <;> by_cases hb : kc.key b = k' <;> simp [ha, hb]
  exact absurd (ha.trans hb.symm) hab

/-- a key nobody operated on keeps its part of the state -/
theorem untouched [DecidableEq K] (kc : Keyed σ Op Cb K τ) (s : σ) (ops : List Op) (k : K)
    (h : ∀ o ∈ ops, kc.key o ≠ k) :
    kc.proj (run kc.toContainer s ops).state k = kc.proj s k := by
  rw [proj_run]
  have : opsOn kc k ops = [] := List.filter_eq_nil_iff.mpr (fun o ho => by simp [h o ho])
  rw [this]; rfl

/-! ### Ranks -/

/-- the whole machine: every operation of the global execution sequence is applied on its owner -/
def execGlobal (c : Container σ Op Cb) (owner : Op → Nat) : (Nat → σ) → List Op → (Nat → σ)
  | g, [] => g
  | g, op :: ops =>
    execGlobal c owner (fun r => if r = owner op then (c.apply (g r) op).1 else g r) ops

/-- operations emitted by callbacks during a global execution -/
def emittedGlobal (c : Container σ Op Cb) (owner : Op → Nat) : (Nat → σ) → List Op → List Op
  | _, [] => []
  | g, op :: ops =>
    (c.apply (g (owner op)) op).2.1 ++
      emittedGlobal c owner (fun r => if r = owner op then (c.apply (g r) op).1 else g r) ops

/-- **exactly-once fold**: rank `r` holds the fold of `apply` over the operations it owns, in the
order they were executed -/
theorem execGlobal_rank (c : Container σ Op Cb) (owner : Op → Nat) (g : Nat → σ) (E : List Op)
    (r : Nat) :
    execGlobal c owner g E r = (run c (g r) (E.filter (fun o => owner o = r))).state := by
  induction E generalizing g with
  | nil => rfl
  | cons op E ih =>
    simp only [execGlobal, List.filter_cons]
    rw [ih]
    by_cases h : owner op = r
    · simp [h, run]
    · have h' : ¬ r = owner op := fun e => h e.symm
      simp [h, h']

/-- `E` executes every main-issued and every handler-emitted operation exactly once
(the guarantee of the messaging layer at a barrier) -/
def Complete (c : Container σ Op Cb) (owner : Op → Nat) (g : Nat → σ) (main E : List Op) : Prop :=
  E.Perm (main ++ emittedGlobal c owner g E)

/-- in a complete execution every operation is executed as often as it was issued -/
theorem complete_count [BEq Op] [LawfulBEq Op] (c : Container σ Op Cb) (owner : Op → Nat)
    (g : Nat → σ) (main E : List Op) (h : Complete c owner g main E) (op : Op) :
    E.count op = main.count op + (emittedGlobal c owner g E).count op := by
  rw [h.count_eq, List.count_append]

/-- **exactly_once_fold** (the composition the container properties rest on): for a complete
execution `E`, every rank holds `List.foldl apply init` over the operations it owns in execution
order, these per-rank subsequences are disjoint and cover `E` (each executed operation is in exactly
the subsequence of its owner), and every operation is executed as often as it was issued by the main
program or by a handler -/
theorem exactly_once_fold [BEq Op] [LawfulBEq Op] (c : Container σ Op Cb) (owner : Op → Nat)
    (g : Nat → σ) (main E : List Op) (h : Complete c owner g main E) :
    (∀ r, execGlobal c owner g E r
        = (E.filter (fun o => owner o = r)).foldl (fun st op => (c.apply st op).1) (g r))
    ∧ (∀ op r, op ∈ E.filter (fun o => owner o = r) ↔ op ∈ E ∧ owner op = r)
    ∧ (∀ op, E.count op = main.count op + (emittedGlobal c owner g E).count op) := by
  refine ⟨fun r => ?_, fun op r => ?_, complete_count c owner g main E h⟩
  · rw [execGlobal_rank, run_state_eq_foldl]
  · simp [List.mem_filter]

/-- a rank that is not the owner of key `k` never changes its `k` part: elements are stored on
their owner only -/
theorem stored_only_on_owner [DecidableEq K] (kc : Keyed σ Op Cb K τ) (ownerK : K → Nat)
    (g : Nat → σ) (E : List Op) (r : Nat) (k : K) (hr : ownerK k ≠ r) :
    kc.proj (execGlobal kc.toContainer (fun o => ownerK (kc.key o)) g E r) k = kc.proj (g r) k := by
  rw [execGlobal_rank]
  apply untouched
  intro o ho hk
  simp only [List.mem_filter, decide_eq_true_eq] at ho
  exact hr (hk ▸ ho.2)

/-- on its owner, key `k` ends as the per-key fold over *all* executed operations on `k` -/
theorem owner_holds_fold [DecidableEq K] (kc : Keyed σ Op Cb K τ) (ownerK : K → Nat)
    (g : Nat → σ) (E : List Op) (k : K) :
    kc.proj (execGlobal kc.toContainer (fun o => ownerK (kc.key o)) g E (ownerK k)) k
      = (run kc.perKey (kc.proj (g (ownerK k)) k) (opsOn kc k E)).state := by
  rw [execGlobal_rank, proj_run]
  have : opsOn kc k (E.filter (fun o => ownerK (kc.key o) = ownerK k)) = opsOn kc k E := by
    simp only [opsOn, List.filter_filter]
    apply List.filter_congr
    intro o _
    by_cases h : kc.key o = k <;> simp [h]
  rw [this]

end YgmVerif.Dist
