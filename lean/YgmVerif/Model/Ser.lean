import YgmVerif.Model.Out
/-
Model of `serialize(fname)` / `deserialize(fname)` of the YGM containers
(map_impl.hpp:248-271, set_impl.hpp:163-185, bag.ipp:166-191, counting_set.hpp:82-83)
and of the string escaping of the archive they use.  Executable, core Lean only.

What the code does:

* `serialize(fname)`: `m_comm.barrier()` FIRST (so every operation issued before the
  call by any rank has been applied to its owner's local store, and counting_set's
  cache has been flushed by its pre-barrier callback), then every rank writes ONE file
  `fname + to_string(rank)` with a `cereal::JSONOutputArchive`:
    map, multimap, counting_set (all `map_impl`):  (m_local_map, m_default_value, comm.size())
    set, multiset (`set_impl`):                    (m_local_set, comm.size())
    bag:                                           (m_local_bag, m_round_robin, comm.size())
  There is NO barrier after the write.
* `deserialize(fname)`: `m_comm.barrier()`, then every rank reads `fname + rank` into
  the same members with a `cereal::JSONInputArchive`.  cereal `clear()`s associative
  containers / `resize`s vectors before loading, so the previous local contents are
  replaced.  The stored communicator size is only compared: a mismatch prints a
  warning on rank 0 and nothing else.
* local stores: `std::multimap` for map, multimap AND counting_set, `std::multiset`
  for set AND multiset (uniqueness is enforced by the insert handlers, not by the
  store), `std::vector` for bag.
* cereal loads a (multi)map/(multi)set by `hint = c.emplace_hint(hint, elem)` starting
  from `begin()`: each element is inserted as close as possible *before* the element
  inserted just before it, i.e. for the sorted sequences `serialize` produces, at the
  lower bound of its key.  Runs of equal keys therefore come back reversed; strictly
  increasing sequences come back unchanged.
* JSON strings: RapidJSON `Writer::WriteString` (UTF8→UTF8, no validation flag):
  `"`→`\"`, `\`→`\\`, 0x08→`\b`, 0x0C→`\f`, 0x0A→`\n`, 0x0D→`\r`, 0x09→`\t`, every
  other byte below 0x20 → `\u00XY` (upper-case hex), every other byte — including
  0x7F, `/` and all bytes ≥ 0x80 — copied as is.  Reader: `ParseStringToStream`
  (default flags, no validation): the inverse, plus `\/`, lower-case hex, arbitrary
  `\uXXXX` (encoded to UTF-8, surrogate pairs combined); a raw byte below 0x20 is an error.
* cereal's `JSONInputArchive::loadValue(std::string&)` assigns `GetString()`, a
  `const char*`: the loaded string ends at its first NUL byte (`cLoad` below).
-/
namespace YgmVerif.Ser

abbrev Bytes := List UInt8

/-! ## JSON string tokens -/

/-- upper-case hex digit, as RapidJSON's writer emits -/
def hexDigit (n : Nat) : UInt8 := if n < 10 then UInt8.ofNat (48 + n) else UInt8.ofNat (55 + n)

/-- `Writer::WriteString`, one source byte -/
def escapeByte (c : UInt8) : Bytes :=
  if c = 34 then [92, 34]
  else if c = 92 then [92, 92]
  else if c = 8 then [92, 98]
  else if c = 12 then [92, 102]
  else if c = 10 then [92, 110]
  else if c = 13 then [92, 114]
  else if c = 9 then [92, 116]
  else if c < 32 then [92, 117, 48, 48, hexDigit (c.toNat / 16), hexDigit (c.toNat % 16)]
  else [c]

def escapeBody (bs : Bytes) : Bytes := (bs.map escapeByte).flatten

/-- the string token written for `bs`, quotes included -/
def escape (bs : Bytes) : Bytes := 34 :: (escapeBody bs ++ [34])

/-- `ParseHex4`, one digit -/
def hexVal (c : UInt8) : Option Nat :=
  if 48 ≤ c ∧ c ≤ 57 then some (c.toNat - 48)
  else if 65 ≤ c ∧ c ≤ 70 then some (c.toNat - 55)
  else if 97 ≤ c ∧ c ≤ 102 then some (c.toNat - 87)
  else none

def hex4 (a b c d : UInt8) : Option Nat :=
  match hexVal a, hexVal b, hexVal c, hexVal d with
  | some a, some b, some c, some d => some (((a * 16 + b) * 16 + c) * 16 + d)
  | _, _, _, _ => none

/-- `UTF8<>::Encode` -/
def utf8 (cp : Nat) : Bytes :=
  if cp ≤ 0x7F then [UInt8.ofNat cp]
  else if cp ≤ 0x7FF then [UInt8.ofNat (0xC0 + cp / 64), UInt8.ofNat (0x80 + cp % 64)]
  else if cp ≤ 0xFFFF then
    [UInt8.ofNat (0xE0 + cp / 4096), UInt8.ofNat (0x80 + cp / 64 % 64), UInt8.ofNat (0x80 + cp % 64)]
  else
    [UInt8.ofNat (0xF0 + cp / 262144), UInt8.ofNat (0x80 + cp / 4096 % 64),
     UInt8.ofNat (0x80 + cp / 64 % 64), UInt8.ofNat (0x80 + cp % 64)]

/-- the reader's single-character escapes -/
def simpleEsc (e : UInt8) : Option UInt8 :=
  if e = 34 then some 34 else if e = 92 then some 92 else if e = 47 then some 47
  else if e = 98 then some 8 else if e = 102 then some 12 else if e = 110 then some 10
  else if e = 114 then some 13 else if e = 116 then some 9 else none

def consTo (pre : Bytes) (p : Option (Bytes × Bytes)) : Option (Bytes × Bytes) :=
  p.map (fun q => (pre ++ q.1, q.2))

/-- `ParseStringToStream` after the opening quote: decoded bytes and the input left
after the closing quote; `none` = parse error -/
def unescapeBody : Bytes → Option (Bytes × Bytes)
  | [] => none
  | c :: rest =>
    if c = 34 then some ([], rest)
    else if c = 92 then
      match rest with
      | [] => none
      | e :: rest1 =>
        if e = 117 then
          match rest1 with
          | h1 :: h2 :: h3 :: h4 :: rest2 =>
            match hex4 h1 h2 h3 h4 with
            | none => none
            | some cp =>
              if 0xD800 ≤ cp ∧ cp ≤ 0xDBFF then
                match rest2 with
                | b1 :: b2 :: l1 :: l2 :: l3 :: l4 :: rest3 =>
                  if b1 = 92 ∧ b2 = 117 then
                    match hex4 l1 l2 l3 l4 with
                    | none => none
                    | some cp2 =>
                      if 0xDC00 ≤ cp2 ∧ cp2 ≤ 0xDFFF then
                        consTo (utf8 ((cp - 0xD800) * 1024 + (cp2 - 0xDC00) + 0x10000)) (unescapeBody rest3)
                      else none
                  else none
                | _ => none
              else consTo (utf8 cp) (unescapeBody rest2)
          | _ => none
        else
          match simpleEsc e with
          | some x => consTo [x] (unescapeBody rest1)
          | none => none
    else if c < 32 then none
    else consTo [c] (unescapeBody rest)

/-- parse one complete string token -/
def unescape (tok : Bytes) : Option Bytes :=
  match tok with
  | c :: rest =>
    if c = 34 then
      match unescapeBody rest with
      | some (o, []) => some o
      | _ => none
    else none
  | [] => none

/-- `std::string = const char*`: cut at the first NUL -/
def cstr (bs : Bytes) : Bytes := bs.takeWhile (· ≠ 0)

/-- what cereal's `JSONInputArchive` hands back for a string token -/
def cLoad (tok : Bytes) : Option Bytes := (unescape tok).map cstr

/-! ## container images -/

/-- the six containers with a `serialize` member -/
inductive Kind | map | multimap | set | multiset | bag | countingSet
deriving DecidableEq, Repr

/-- local store discipline: `std::multimap`/`std::multiset` or `std::vector` -/
inductive Disc | tree | seq
deriving DecidableEq, Repr

def Kind.disc : Kind → Disc
  | .bag => .seq
  | _ => .tree

/-- does the image carry a second field (default value / round-robin cursor)? -/
def Kind.hasExtra : Kind → Bool
  | .set | .multiset => false
  | _ => true

/-- rank-local state of a container: the local store in iteration order, and the extra
member the image carries (`m_default_value`, `m_round_robin`; `Unit` for sets) -/
structure Local (E X : Type) where
  items : List E
  extra : X
deriving Repr, DecidableEq

/-- content of one rank's file, in archive order -/
structure Image (E X : Type) where
  contents : List E
  extra : X
  commSize : Nat
deriving Repr, DecidableEq

/-- `emplace_hint` at the lower bound of the key (see the header comment) -/
def insertLB {E K : Type} (key : E → K) (lt : K → K → Bool) (x : E) : List E → List E
  | [] => [x]
  | y :: ys => if lt (key y) (key x) then y :: insertLB key lt x ys else x :: y :: ys

/-- what cereal builds from the archived sequence -/
def rebuild {E K : Type} (d : Disc) (key : E → K) (lt : K → K → Bool) (xs : List E) : List E :=
  match d with
  | .seq => xs
  | .tree => xs.foldl (fun acc x => insertLB key lt x acc) []

/-- the file rank writes (after the barrier) on a communicator of `n` ranks -/
def serializeRank {E X : Type} (n : Nat) (c : Local E X) : Image E X := ⟨c.items, c.extra, n⟩

/-- the rank-local state after `deserialize`: whatever was there is replaced -/
def deserializeRank {E X K : Type} (d : Disc) (key : E → K) (lt : K → K → Bool)
    (img : Image E X) (_old : Local E X) : Local E X :=
  ⟨rebuild d key lt img.contents, img.extra⟩

/-- the only use of the stored size: a warning -/
def sizeWarning {E X : Type} (n : Nat) (img : Image E X) : Bool := img.commSize != n

/-- a distributed container = one `Local` per rank; `serialize` writes one file per rank -/
def serializeAll {E X : Type} (c : List (Local E X)) : List (Image E X) :=
  c.map (serializeRank c.length)

/-- rank `r` reads file `r` (same communicator size: as many files as ranks) -/
def deserializeAll {E X K : Type} (d : Disc) (key : E → K) (lt : K → K → Bool)
    (imgs : List (Image E X)) (tgt : List (Local E X)) : List (Local E X) :=
  List.zipWith (deserializeRank d key lt) imgs tgt

/-! ## the rank files under one prefix (a prefix may be reused) -/

/-- name of rank `r`'s file: `fname + std::to_string(m_comm.rank())` — plain decimal, no padding;
`serialize` and `deserialize` build it with the same expression -/
def rankFileName (fname : Bytes) (r : Nat) : Bytes := fname ++ YgmVerif.Out.dec r

/-- the names `serialize` creates on `n` ranks -/
def fileNames (fname : Bytes) (n : Nat) : List Bytes := (List.range n).map (rankFileName fname)

/-- the files `fname ++ to_string(r)`: what each holds, if it exists -/
abbrev Files (E X : Type) := Nat → Option (Image E X)

/-- `serialize(fname)` on a communicator of `c.length` ranks: EVERY rank — also one that owns
nothing — opens `fname + rank` with `std::ofstream(.., binary)` (which truncates) and writes its
image; files with other indices (left by a run on more ranks) are not touched -/
def writeAll {E X : Type} (fs : Files E X) (c : List (Local E X)) : Files E X :=
  fun r => if h : r < c.length then some (serializeRank c.length c[r]) else fs r

/-- `deserialize(fname)`: rank `r` reads file `r` into its state; `none` = the file does not
exist (the archive constructor throws on the failed stream: the rank dies) -/
def readAll {E X K : Type} (d : Disc) (key : E → K) (lt : K → K → Bool)
    (fs : Files E X) (tgt : List (Local E X)) : List (Option (Local E X)) :=
  tgt.mapIdx (fun r t => (fs r).map (fun img => deserializeRank d key lt img t))

/-! ## the leading barrier -/

/-- State of rank `r` when the barrier at the head of `serialize` returns: every pending
operation destined to `r` has been applied, in the arrival order `arr`. -/
def afterBarrier {E X Op : Type} (apply : Local E X → Op → Local E X) (c : Local E X) (arr : List Op) : Local E X :=
  arr.foldl apply c

/-- the pending operations a rank must receive: those whose destination it is -/
def pendingFor {Op : Type} (dest : Op → Nat) (pending : List Op) (r : Nat) : List Op :=
  pending.filter (fun o => dest o = r)

/-- the `async_insert` handler of `set`: insert unless an equal element is present -/
def setInsert {E K X : Type} [DecidableEq E] (key : E → K) (lt : K → K → Bool) (l : Local E X) (x : E) : Local E X :=
  if x ∈ l.items then l else { l with items := insertLB key lt x l.items }

/-- operations of a set whose order matters: `async_insert` and `async_erase` -/
inductive SetOp (E : Type)
  | ins (x : E)
  | del (x : E)
deriving Repr, DecidableEq

def SetOp.elem {E : Type} : SetOp E → E
  | .ins x => x
  | .del x => x

/-- the two handlers: insert unless present; erase every equal element -/
def applySetOp {E K X : Type} [DecidableEq E] (key : E → K) (lt : K → K → Bool) (l : Local E X) : SetOp E → Local E X
  | .ins x => setInsert key lt l x
  | .del x => { l with items := l.items.filter (fun y => y ≠ x) }

/-- does `x` survive a sequence of operations, given whether it was present before? (the last operation on `x` decides) -/
def survives {E : Type} [DecidableEq E] (x : E) (present : Bool) (ops : List (SetOp E)) : Bool :=
  ops.foldl (fun b o => if o.elem = x then (match o with | .ins _ => true | .del _ => false) else b) present

/-- `std::string::compare` order: lexicographic on unsigned bytes, shorter first -/
def bytesLt : Bytes → Bytes → Bool
  | [], [] => false
  | [], _ :: _ => true
  | _ :: _, [] => false
  | a :: as, b :: bs => a < b || (a == b && bytesLt as bs)

end YgmVerif.Ser
