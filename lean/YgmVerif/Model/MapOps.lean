import YgmVerif.Model.Dist
/-
Sequential semantics of the remote lambdas of `ygm::container::map` / `multimap`
(include/ygm/container/detail/map_impl.hpp), as executed on the owner rank of the key.

State of one rank: `Assoc K V = List (K × V)` — the pairs of `m_local_map` (a `std::multimap`).
A new pair is appended at the end; since `std::multimap::insert` puts a pair after all pairs with
an equal key, the *values of one key* appear in the model in exactly the order they have in the
real container (`values`).  The relative order of different keys (the real container is sorted by
`Compare`) is presentation only; the checks sort by key (stably) before comparing `for_all` output.
Invariant of a `map` (as opposed to `multimap`): keys are pairwise distinct — `NodupKeys`,
preserved by every operation of the `map` interface (theorem `map_invariant`, Props/C11).

User lambdas are parameters (`User`): a visitor may change the value it is handed (it receives
`mapped_type&`) and may issue further container operations (through the `pmap` / `pcomm` argument);
everything it issues is returned in the `emitted` list, every invocation is recorded as a `Cb`.

Core Lean only.
-/
namespace YgmVerif.MapOps

abbrev Assoc (K V : Type) := List (K × V)

/-- one call of the asynchronous interface = one remote lambda executed on `owner(key)` -/
inductive Op (K V A : Type) where
  /-- `map::async_insert` / `async_set` → `async_insert_unique` (map_impl.hpp:53) -/
  | insert (k : K) (v : V)
  /-- `multimap::async_insert` → `async_insert_multi` (:74) -/
  | insertMulti (k : K) (v : V)
  /-- `async_insert_if_missing` (:67) -/
  | insertIfMissing (k : K) (v : V)
  /-- `async_visit` (:84) -/
  | visit (k : K) (vis : Nat) (arg : A)
  /-- `async_visit_group` (:104) -/
  | visitGroup (k : K) (vis : Nat) (arg : A)
  /-- `async_visit_if_exists` (:129) -/
  | visitIfExists (k : K) (vis : Nat) (arg : A)
  /-- `async_insert_if_missing_else_visit` (:143) -/
  | elseVisit (k : K) (v : V) (vis : Nat) (arg : A)
  /-- `async_reduce` (:165) -/
  | reduce (k : K) (v : V) (rop : Nat)
  /-- `async_erase` (:182) -/
  | erase (k : K)
  deriving DecidableEq, Repr

def Op.key {K V A : Type} : Op K V A → K
  | .insert k _ | .insertMulti k _ | .insertIfMissing k _ | .visit k _ _ | .visitGroup k _ _
  | .visitIfExists k _ _ | .elseVisit k _ _ _ | .reduce k _ _ | .erase k => k

/-- one invocation of a user lambda, with what it was handed -/
inductive Cb (K V A : Type) where
  /-- visitor of `async_visit` / `async_visit_if_exists`: `(key, value&, args…)` -/
  | single (vis : Nat) (k : K) (v : V) (arg : A)
  /-- visitor of `async_insert_if_missing_else_visit`: `(key, value&, offered value, args…)` -/
  | offered (vis : Nat) (k : K) (v : V) (new : V) (arg : A)
  /-- visitor of `async_visit_group`: `(begin, end, args…)` over all values of the key -/
  | group (vis : Nat) (k : K) (vs : List V) (arg : A)
  deriving DecidableEq, Repr

def Cb.key {K V A : Type} : Cb K V A → K
  | .single _ k _ _ | .offered _ k _ _ _ | .group _ k _ _ => k

/-- the user's lambdas, selected by an id carried in the operation: new value(s) + operations issued -/
structure User (K V A : Type) where
  visitor : Nat → K → V → A → V × List (Op K V A)
  visitor2 : Nat → K → V → V → A → V × List (Op K V A)
  visitorG : Nat → K → List V → A → List V × List (Op K V A)
  reducer : Nat → V → V → V

variable {K V A : Type} [DecidableEq K]

/-! ### the association structure -/

/-- values stored under `k`, in container order (`equal_range`) -/
def values (m : Assoc K V) (k : K) : List V :=
  m.filterMap (fun p => if p.1 = k then some p.2 else none)

/-- `m_local_map.find(key) != end()` -/
def contains (m : Assoc K V) (k : K) : Bool := m.any (fun p => decide (p.1 = k))

/-- `itr = find(key); itr->second = f(itr->second)` (first pair of the key) -/
def modifyFirst (k : K) (f : V → V) : Assoc K V → Assoc K V
  | [] => []
  | (k', v) :: r => if k' = k then (k', f v) :: r else (k', v) :: modifyFirst k f r

/-- `m_local_map.erase(key)`: every pair of the key -/
def eraseKey (m : Assoc K V) (k : K) : Assoc K V := m.filter (fun p => decide (p.1 ≠ k))

/-- `local_visit`: the lambda is applied to every pair of `equal_range(key)` in order -/
def localVisit {O C : Type} (f : V → V × List O × List C) (k : K) :
    Assoc K V → Assoc K V × List O × List C
  | [] => ([], [], [])
  | (k', v) :: r =>
    if k' = k then
      let x := f v
      let y := localVisit f k r
      ((k', x.1) :: y.1, x.2.1 ++ y.2.1, x.2.2 ++ y.2.2)
    else
      let y := localVisit f k r
      ((k', v) :: y.1, y.2.1, y.2.2)

/-- write back what a group visitor did through the iterators: the i-th pair of the key gets the
i-th new value (the structure of the container cannot be changed through the iterators) -/
def assign (k : K) : List V → Assoc K V → Assoc K V
  | _, [] => []
  | nv, (k', v) :: r =>
    if k' = k then
      match nv with
      | [] => (k', v) :: assign k [] r
      | x :: nv' => (k', x) :: assign k nv' r
    else (k', v) :: assign k nv r

/-- `if (range.first == range.second) insert(make_pair(key, m_default_value))` -/
def ensure (dflt : V) (m : Assoc K V) (k : K) : Assoc K V :=
  if contains m k then m else m ++ [(k, dflt)]

/-- body of the remote lambda of each operation, on the owner's local container -/
def apply (u : User K V A) (dflt : V) (m : Assoc K V) :
    Op K V A → Assoc K V × List (Op K V A) × List (Cb K V A)
  | .insert k v =>
    if contains m k then (modifyFirst k (fun _ => v) m, [], []) else (m ++ [(k, v)], [], [])
  | .insertMulti k v => (m ++ [(k, v)], [], [])
  | .insertIfMissing k v =>
    -- insert_if_missing_else_visit with an empty visitor
    if contains m k then (m, [], []) else (m ++ [(k, v)], [], [])
  | .visit k vis a =>
    localVisit (fun v => let r := u.visitor vis k v a; (r.1, r.2, [Cb.single vis k v a])) k
      (ensure dflt m k)
  | .visitGroup k vis a =>
    let m1 := ensure dflt m k
    let vs := values m1 k
    let r := u.visitorG vis k vs a
    (assign k r.1 m1, r.2, [Cb.group vis k vs a])
  | .visitIfExists k vis a =>
    localVisit (fun v => let r := u.visitor vis k v a; (r.1, r.2, [Cb.single vis k v a])) k m
  | .elseVisit k v vis a =>
    if contains m k then
      localVisit (fun old => let r := u.visitor2 vis k old v a; (r.1, r.2, [Cb.offered vis k old v a])) k m
    else (m ++ [(k, v)], [], [])
  | .reduce k v rop =>
    if contains m k then (modifyFirst k (fun old => u.reducer rop old v) m, [], [])
    else (m ++ [(k, v)], [], [])
  | .erase k => (eraseKey m k, [], [])

/-! ### the same operations on the values of one key (what `Dist.Keyed` needs) -/

def visitVals {O C : Type} (f : V → V × List O × List C) : List V → List V × List O × List C
  | [] => ([], [], [])
  | v :: r =>
    let x := f v
    let y := visitVals f r
    (x.1 :: y.1, x.2.1 ++ y.2.1, x.2.2 ++ y.2.2)

def assignVals : List V → List V → List V
  | _, [] => []
  | [], v :: r => v :: assignVals [] r
  | x :: nv, _ :: r => x :: assignVals nv r

def modifyHead (f : V → V) : List V → List V
  | [] => []
  | v :: r => f v :: r

def ensureVals (dflt : V) (vs : List V) : List V := if vs.isEmpty then [dflt] else vs

/-- the operation as a function of the values of its own key only -/
def applyK (u : User K V A) (dflt : V) (vs : List V) :
    Op K V A → List V × List (Op K V A) × List (Cb K V A)
  | .insert _ v => (if vs.isEmpty then [v] else modifyHead (fun _ => v) vs, [], [])
  | .insertMulti _ v => (vs ++ [v], [], [])
  | .insertIfMissing _ v => (if vs.isEmpty then [v] else vs, [], [])
  | .visit k vis a =>
    visitVals (fun v => let r := u.visitor vis k v a; (r.1, r.2, [Cb.single vis k v a]))
      (ensureVals dflt vs)
  | .visitGroup k vis a =>
    let vs1 := ensureVals dflt vs
    let r := u.visitorG vis k vs1 a
    (assignVals r.1 vs1, r.2, [Cb.group vis k vs1 a])
  | .visitIfExists k vis a =>
    visitVals (fun v => let r := u.visitor vis k v a; (r.1, r.2, [Cb.single vis k v a])) vs
  | .elseVisit k v vis a =>
    if vs.isEmpty then ([v], [], [])
    else visitVals (fun old => let r := u.visitor2 vis k old v a; (r.1, r.2, [Cb.offered vis k old v a])) vs
  | .reduce _ v rop =>
    (if vs.isEmpty then [v] else modifyHead (fun old => u.reducer rop old v) vs, [], [])
  | .erase _ => ([], [], [])

/-- the container handed to `Dist` -/
def container (u : User K V A) (dflt : V) : Dist.Container (Assoc K V) (Op K V A) (Cb K V A) :=
  ⟨apply u dflt⟩

/-! ### queries, as functions of the abstract contents -/

/-- `size()` (sum of the local sizes) -/
def size (m : Assoc K V) : Nat := m.length
/-- `count(key)` -/
def count (m : Assoc K V) (k : K) : Nat := (values m k).length
/-- `for_all`: every stored pair is presented once -/
def forAll (m : Assoc K V) : List (K × V) := m
/-- `multimap::all_gather(keys)`: every value of every requested key (a key requested twice is
fetched twice; the result is a `std::multimap`) -/
def allGatherMulti (m : Assoc K V) (keys : List K) : List (K × V) :=
  keys.flatMap (fun k => (values m k).map (fun v => (k, v)))
/-- keep the first pair of every key (`std::map::insert` does not overwrite) -/
def firstPerKey : List (K × V) → List (K × V)
  | [] => []
  | (k, v) :: r => (k, v) :: (firstPerKey r).filter (fun p => decide (p.1 ≠ k))
/-- `map::all_gather(keys)`: the result is a `std::map` -/
def allGatherMap (m : Assoc K V) (keys : List K) : List (K × V) :=
  firstPerKey (allGatherMulti m keys)
/-- `topk(k, cfn)`: the first `k` pairs in the order `cfn` -/
def topk (k : Nat) (le : K × V → K × V → Bool) (m : Assoc K V) : List (K × V) :=
  (m.mergeSort le).take k
/-- `clear()` -/
def clear (_ : Assoc K V) : Assoc K V := []
/-- `swap(other)`: contents and default value change places -/
def swap (a b : Assoc K V × V) : (Assoc K V × V) × (Assoc K V × V) := (b, a)

/-- copy construction `map b(a)` (map_impl.hpp:45): the copy starts with the contents and the
default value of the original; afterwards the two are separate containers -/
def copy (a : Assoc K V × V) : Assoc K V × V := (a.1, a.2)

/-- two containers of one program (the original and its copy): an operation addressed to
container `i` is applied there with that container's default value, the other one is untouched -/
def applyAt (u : User K V A) (p : (Assoc K V × V) × (Assoc K V × V)) (i : Bool) (op : Op K V A) :
    (Assoc K V × V) × (Assoc K V × V) :=
  if i then (p.1, ((apply u p.2.2 p.2.1 op).1, p.2.2)) else (((apply u p.1.2 p.1.1 op).1, p.1.2), p.2)

/-- the `map` invariant: one pair per key -/
def NodupKeys (m : Assoc K V) : Prop := (m.map Prod.fst).Nodup

/-- operations offered by the `map` class (everything but the multimap insert and the group visit) -/
def Op.isMapOp : Op K V A → Bool
  | .insertMulti _ _ | .visitGroup _ _ _ => false
  | _ => true

end YgmVerif.MapOps
