/-
Model of YGM's wire format (property C06).

* `ser` / `des`: the byte layout `cereal::YGMOutputArchive` / `YGMInputArchive`
  (ygm_cereal_archive.hpp) produce when driven by cereal's type support
  (cereal/types/{string,vector,map,set,utility,tuple}.hpp): arithmetic types are raw
  little-endian `sizeof(T)` bytes (`saveBinary(addressof(t), sizeof(t))`), `SizeTag` is a raw
  `size_t` (8 bytes), containers are `size` followed by the elements in iteration order, a map
  element is key then value, pair/tuple/user `serialize(ar){ar(a,b,..)}` are the members in
  order with no framing, `ygm_ptr` archives its `uint32_t idx` (ygm_ptr.hpp), a trivially
  copyable functor is `sizeof(Lambda)` raw bytes (comm.ipp `pack_lambda_generic`), a
  `boost::json::value` is an `int8_t` kind followed by the payload (cereal_boost_json.hpp).
* `encodeMsg`, `asyncAppend`, `queueAppend`: what `comm::async` / `queue_message_bytes` append to
  a send buffer (comm.ipp 145-177, 832-858, `pack_header`, `pack_lambda_generic`), including the
  back-patch of `header_t::message_size`.
* `parseBuffer`: the receive loop of `handle_next_receive` (comm.ipp 860-906) over one physical
  buffer: execute (type-directed read of functor bytes and argument tuple, *not* delimited by
  the header) or forward (`message_size` raw bytes re-buffered behind a fresh header).
* `forwardCopy`, `hopBytes`: the re-buffering at an intermediate hop.

Executable, core Lean only.  Nothing here bounds a payload size; the only widths are the ones
the code has: `size_t` length prefixes (8 bytes), `uint32_t message_size`, `int32_t dest`,
`uint16_t` lambda id.
-/
namespace YgmVerif.Wire

abbrev Bytes := List UInt8

/-! ## little-endian fields -/

/-- the `k` low-order bytes of `n`, least significant first (memcpy of a `k`-byte unsigned) -/
def leBytes : Nat → Nat → Bytes
  | 0, _ => []
  | k+1, n => UInt8.ofNat (n % 256) :: leBytes k (n / 256)

def leVal : Bytes → Nat
  | [] => 0
  | b :: bs => b.toNat + 256 * leVal bs

/-- two's-complement image of a signed value in a `k`-byte field -/
def toTwos (k : Nat) (z : Int) : Nat := (z % ((256 : Int) ^ k)).toNat

/-- signed reading of a `k`-byte field -/
def ofTwos (k : Nat) (n : Nat) : Int :=
  if 2 * n < 256 ^ k then (n : Int) else (n : Int) - ((256 : Int) ^ k)

/-- `loadBinary(size)`: the next `k` bytes and the remaining stream; `none` = reading past the
end of the buffer (the code's `ASSERT_DEBUG(m_position + size <= m_capacity)`).  Accumulator
form so that multi-megabyte reads do not recurse deeply when executed. -/
def takeAcc : Nat → Bytes → Bytes → Option (Bytes × Bytes)
  | 0, bs, acc => some (acc.reverse, bs)
  | _+1, [], _ => none
  | k+1, b :: bs, acc => takeAcc k bs (b :: acc)

def take? (k : Nat) (bs : Bytes) : Option (Bytes × Bytes) := takeAcc k bs []

/-- read a `k`-byte unsigned field -/
def readNat (k : Nat) (bs : Bytes) : Option (Nat × Bytes) :=
  match take? k bs with
  | none => none
  | some (a, r) => some (leVal a, r)

/-! ## the value universe -/

/-- values, carrying the width of every fixed-width field -/
inductive Val where
  | unit                      -- an empty class / the end of a tuple: no bytes
  | u (k n : Nat)             -- unsigned integer of `k` bytes
  | i (k : Nat) (z : Int)     -- signed integer of `k` bytes
  | bool (b : Bool)
  | f (k bits : Nat)          -- float (`k = 4`) / double (`k = 8`) given by its bit pattern
  | str (bs : Bytes)          -- std::string / boost::json::string
  | seq (vs : List Val)       -- vector / set / map (of pairs) / json array / json object
  | pair (a b : Val)          -- std::pair, one tuple cell, a map item, a json (kind, payload)
  | ptr (idx : Nat)           -- ygm_ptr: index into the per-rank pointer table
  | raw (bs : Bytes)          -- raw bytes of a trivially copyable object

inductive Ty where
  | unit
  | u (k : Nat) | i (k : Nat) | bool | f32 | f64
  | str
  | vec (t : Ty) | set (t : Ty) | map (k v : Ty)
  | pair (a b : Ty)
  | ptr
  | raw (k : Nat)
  | json

/-- `std::tuple<T1..Tn>` / a user type whose `serialize` archives `n` members: cells in order,
no framing.  Represented as right-nested pairs ending in `unit`. -/
def Ty.tuple : List Ty → Ty
  | [] => .unit
  | t :: ts => .pair t (Ty.tuple ts)

def Val.tuple : List Val → Val
  | [] => .unit
  | v :: vs => .pair v (Val.tuple vs)

/-! ## serialisation (cereal binary layout as driven by YGMOutputArchive) -/

mutual
def ser : Val → Bytes
  | .unit => []
  | .u k n => leBytes k n
  | .i k z => leBytes k (toTwos k z)
  | .bool b => [if b then 1 else 0]
  | .f k bits => leBytes k bits
  | .str bs => leBytes 8 bs.length ++ bs
  | .seq vs => leBytes 8 vs.length ++ serList vs
  | .pair a b => ser a ++ ser b
  | .ptr idx => leBytes 4 idx
  | .raw bs => bs
def serList : List Val → Bytes
  | [] => []
  | v :: vs => ser v ++ serList vs
end

/-! ## deserialisation -/

/-- `n` consecutive elements (accumulator form: wide containers do not recurse deeply) -/
def desNAcc {α : Type} (d : Bytes → Option (α × Bytes)) : Nat → Bytes → List α → Option (List α × Bytes)
  | 0, bs, acc => some (acc.reverse, bs)
  | n+1, bs, acc =>
    match d bs with
    | none => none
    | some (v, r) => desNAcc d n r (v :: acc)

def desN {α : Type} (d : Bytes → Option (α × Bytes)) (n : Nat) (bs : Bytes) : Option (List α × Bytes) :=
  desNAcc d n bs []

/-- size tag followed by that many elements -/
def desSeq (d : Bytes → Option (Val × Bytes)) (bs : Bytes) : Option (Val × Bytes) :=
  match readNat 8 bs with
  | none => none
  | some (n, r) =>
    match desN d n r with
    | none => none
    | some (vs, r') => some (.seq vs, r')

def desPair (da db : Bytes → Option (Val × Bytes)) (bs : Bytes) : Option (Val × Bytes) :=
  match da bs with
  | none => none
  | some (x, r) =>
    match db r with
    | none => none
    | some (y, r') => some (.pair x y, r')

def desU (k : Nat) (bs : Bytes) : Option (Val × Bytes) :=
  match readNat k bs with
  | none => none
  | some (n, r) => some (.u k n, r)

def desI (k : Nat) (bs : Bytes) : Option (Val × Bytes) :=
  match readNat k bs with
  | none => none
  | some (n, r) => some (.i k (ofTwos k n), r)

def desF (k : Nat) (bs : Bytes) : Option (Val × Bytes) :=
  match readNat k bs with
  | none => none
  | some (n, r) => some (.f k n, r)

/-- a `bool` object holding anything but 0 or 1 is undefined behaviour: not a value -/
def desBool : Bytes → Option (Val × Bytes)
  | [] => none
  | b :: r => if b = 0 then some (.bool false, r) else if b = 1 then some (.bool true, r) else none

def desStr (bs : Bytes) : Option (Val × Bytes) :=
  match readNat 8 bs with
  | none => none
  | some (n, r) =>
    match take? n r with
    | none => none
    | some (s, r') => some (.str s, r')

def desOpaque (k : Nat) (bs : Bytes) : Option (Val × Bytes) :=
  match take? k bs with
  | none => none
  | some (s, r) => some (.raw s, r)

def desPtr (bs : Bytes) : Option (Val × Bytes) :=
  match readNat 4 bs with
  | none => none
  | some (n, r) => some (.ptr n, r)

/-- `boost::json::value` (cereal_boost_json.hpp): `int8_t` kind
`0 null | 1 bool | 2 int64 | 3 uint64 | 4 double | 5 string | 6 array | 7 object`, then the
payload; represented as `pair (u 1 kind) payload`.  The parse is directed by the kind byte, not
by a type, so it carries a nesting budget (`des .json` supplies the stream length, which is
never exhausted: every nesting level consumes at least its kind byte). -/
def desJson : Nat → Bytes → Option (Val × Bytes)
  | 0, _ => none
  | fuel+1, bs =>
    match bs with
    | [] => none
    | tag :: r =>
      let payload : Option (Val × Bytes) :=
        if tag = 0 then some (.unit, r)
        else if tag = 1 then desBool r
        else if tag = 2 then desI 8 r
        else if tag = 3 then desU 8 r
        else if tag = 4 then desF 8 r
        else if tag = 5 then desStr r
        else if tag = 6 then desSeq (desJson fuel) r
        else if tag = 7 then desSeq (desPair desStr (desJson fuel)) r
        else none
      match payload with
      | none => none
      | some (p, r') => some (.pair (.u 1 tag.toNat) p, r')

/-- type-directed read, as the instantiated `load` functions of cereal perform it -/
def des : Ty → Bytes → Option (Val × Bytes)
  | .unit, bs => some (.unit, bs)
  | .u k, bs => desU k bs
  | .i k, bs => desI k bs
  | .bool, bs => desBool bs
  | .f32, bs => desF 4 bs
  | .f64, bs => desF 8 bs
  | .str, bs => desStr bs
  | .vec t, bs => desSeq (des t) bs
  | .set t, bs => desSeq (des t) bs
  | .map k v, bs => desSeq (desPair (des k) (des v)) bs
  | .pair a b, bs => desPair (des a) (des b) bs
  | .ptr, bs => desPtr bs
  | .raw k, bs => desOpaque k bs
  | .json, bs => desJson bs.length bs

/-- the argument tuple of a message, cell by cell -/
def desAll : List Ty → Bytes → Option (List Val × Bytes)
  | [], bs => some ([], bs)
  | t :: ts, bs =>
    match des t bs with
    | none => none
    | some (v, r) =>
      match desAll ts r with
      | none => none
      | some (vs, r') => some (v :: vs, r')

/-! ## typing -/

/-- values a `boost::json::value` can hold, in the `pair (kind) payload` representation -/
inductive IsJson : Val → Prop where
  | null : IsJson (.pair (.u 1 0) .unit)
  | bool (b : Bool) : IsJson (.pair (.u 1 1) (.bool b))
  | int (z : Int) (h1 : -((256 : Int) ^ 8) ≤ 2 * z) (h2 : 2 * z < (256 : Int) ^ 8) : IsJson (.pair (.u 1 2) (.i 8 z))
  | uint (n : Nat) (h : n < 256 ^ 8) : IsJson (.pair (.u 1 3) (.u 8 n))
  | dbl (bits : Nat) (h : bits < 256 ^ 8) : IsJson (.pair (.u 1 4) (.f 8 bits))
  | str (bs : Bytes) (h : bs.length < 256 ^ 8) : IsJson (.pair (.u 1 5) (.str bs))
  | arr (js : List Val) (h : js.length < 256 ^ 8) (hj : ∀ j ∈ js, IsJson j) : IsJson (.pair (.u 1 6) (.seq js))
  | obj (ms : List (Bytes × Val)) (h : ms.length < 256 ^ 8) (hk : ∀ m ∈ ms, m.1.length < 256 ^ 8)
      (hj : ∀ m ∈ ms, IsJson m.2) :
      IsJson (.pair (.u 1 7) (.seq (ms.map fun m => .pair (.str m.1) m.2)))

/-- `HasTy v t`: `v` is a value of the C++ type described by `t` (every number fits its field,
every length fits a `size_t`) -/
inductive HasTy : Val → Ty → Prop where
  | unit : HasTy .unit .unit
  | u (k n : Nat) (h : n < 256 ^ k) : HasTy (.u k n) (.u k)
  | i (k : Nat) (z : Int) (h1 : -((256 : Int) ^ k) ≤ 2 * z) (h2 : 2 * z < (256 : Int) ^ k) : HasTy (.i k z) (.i k)
  | bool (b : Bool) : HasTy (.bool b) .bool
  | f32 (bits : Nat) (h : bits < 256 ^ 4) : HasTy (.f 4 bits) .f32
  | f64 (bits : Nat) (h : bits < 256 ^ 8) : HasTy (.f 8 bits) .f64
  | str (bs : Bytes) (h : bs.length < 256 ^ 8) : HasTy (.str bs) .str
  | vec (t : Ty) (vs : List Val) (h : vs.length < 256 ^ 8) (hv : ∀ v ∈ vs, HasTy v t) : HasTy (.seq vs) (.vec t)
  | set (t : Ty) (vs : List Val) (h : vs.length < 256 ^ 8) (hv : ∀ v ∈ vs, HasTy v t) : HasTy (.seq vs) (.set t)
  | map (k v : Ty) (vs : List Val) (h : vs.length < 256 ^ 8) (hv : ∀ x ∈ vs, HasTy x (.pair k v)) : HasTy (.seq vs) (.map k v)
  | pair (a b : Ty) (x y : Val) (hx : HasTy x a) (hy : HasTy y b) : HasTy (.pair x y) (.pair a b)
  | ptr (idx : Nat) (h : idx < 256 ^ 4) : HasTy (.ptr idx) .ptr
  | raw (bs : Bytes) : HasTy (.raw bs) (.raw bs.length)
  | json (v : Val) (h : IsJson v) : HasTy v .json

/-- argument lists: cell-wise typing -/
inductive HasTys : List Val → List Ty → Prop where
  | nil : HasTys [] []
  | cons (v : Val) (t : Ty) (vs : List Val) (ts : List Ty) (h : HasTy v t) (hs : HasTys vs ts) : HasTys (v :: vs) (t :: ts)

/-! ## messages and send buffers -/

/-- `header_t { uint32_t message_size; int32_t dest; }`, `memcpy`'d (comm.ipp `pack_header`) -/
def header (size : Nat) (dest : Int) : Bytes := leBytes 4 size ++ leBytes 4 (toTwos 4 dest)

structure Msg where
  /-- queued by `queue_message_bytes` (broadcast legs): dummy header `{0, -1}` -/
  bcast : Bool
  /-- final destination of a point-to-point `async` -/
  dest : Nat
  /-- `uint16_t` lambda id -/
  lid : Nat
  /-- raw bytes of the function object (`[]` for an empty class) -/
  fn : Bytes
  /-- the argument tuple -/
  args : List Val

/-- what `pack_lambda_generic` appends: id, functor bytes, serialised argument tuple -/
def body (m : Msg) : Bytes := leBytes 2 m.lid ++ (m.fn ++ serList m.args)

def msgHeader (m : Msg) : Bytes :=
  if m.bcast then header 0 (-1) else header (body m).length (m.dest : Int)

/-- the bytes of one message inside a send buffer (`routed` = `YGM_COMM_ROUTING ≠ NONE`) -/
def encodeMsg (routed : Bool) (m : Msg) : Bytes :=
  if routed then msgHeader m ++ body m else body m

def encodeAll (routed : Bool) (ms : List Msg) : Bytes :=
  match ms with
  | [] => []
  | m :: r => encodeMsg routed m ++ encodeAll routed r

/-- overwrite `bs.length` bytes of `buf` at `pos` (`std::memcpy(&*iter, ..)`) -/
def patch (buf : Bytes) (pos : Nat) (bs : Bytes) : Bytes :=
  buf.take pos ++ (bs ++ buf.drop (pos + bs.length))

/-- `comm::async` on the buffer of the next hop: header with size 0, the packed lambda, then
the back-patch of the size at `end - (header_bytes + bytes)` where `bytes` is a `uint32_t`. -/
def asyncAppend (routed : Bool) (buf : Bytes) (m : Msg) : Bytes :=
  if routed then
    let b1 := buf ++ header 0 (m.dest : Int)
    let b2 := b1 ++ body m
    let bytes := (body m).length % 2 ^ 32
    patch b2 (b2.length - (8 + bytes)) (leBytes 4 bytes)
  else buf ++ body m

/-- `comm::queue_message_bytes` -/
def queueAppend (routed : Bool) (buf : Bytes) (m : Msg) : Bytes :=
  if routed then (buf ++ header 0 (-1)) ++ body m else buf ++ body m

/-! ## the receive loop -/

/-- per lambda id: `sizeof(Lambda)` (0 for an empty class) and the argument types, i.e. what the
registered dispatch function reads -/
abbrev Table := Nat → Option (Nat × List Ty)

inductive Item where
  /-- the handler `lid` ran with these functor bytes and arguments (`size`/`dest`: the header
  fields that preceded it, `0`/`0` when there is no header) -/
  | exec (size : Nat) (dest : Int) (lid : Nat) (fn : Bytes) (args : List Val)
  /-- `size` raw bytes re-buffered towards `dest` -/
  | fwd (size : Nat) (dest : Int) (payload : Bytes)

/-- `loadBinary(&lid)`, `m_lambda_map.execute(lid, ..)`: the dispatch lambda reads the functor
bytes and the argument tuple from the stream -/
def desHandler (tbl : Table) (bs : Bytes) : Option ((Nat × Bytes × List Val) × Bytes) :=
  match readNat 2 bs with
  | none => none
  | some (lid, r) =>
    match tbl lid with
    | none => none
    | some (k, tys) =>
      match take? k r with
      | none => none
      | some (fn, r1) =>
        match desAll tys r1 with
        | none => none
        | some (args, r2) => some ((lid, fn, args), r2)

/-- one iteration of `while (!iarchive.empty())` in `handle_next_receive` on rank `me`:
the item and the remaining stream -/
def parseStep (routed : Bool) (tbl : Table) (me : Int) (bs : Bytes) : Option (Item × Bytes) :=
  if routed then
    match readNat 4 bs with          -- iarchive.loadBinary(&h, sizeof(header_t))
    | none => none
    | some (size, r0) =>
      match readNat 4 r0 with
      | none => none
      | some (d, r) =>
        let dest := ofTwos 4 d
        if dest = me ∨ (dest = -1 ∧ size = 0) then
          match desHandler tbl r with
          | none => none
          | some ((lid, fn, args), r') => some (.exec size dest lid fn args, r')
        else
          match take? size r with      -- iarchive.loadBinary(&buf[precopy_size], h.message_size)
          | none => none
          | some (payload, r') => some (.fwd size dest payload, r')
  else
    match desHandler tbl bs with
    | none => none
    | some ((lid, fn, args), r') => some (.exec 0 0 lid fn args, r')

def parseLoop (routed : Bool) (tbl : Table) (me : Int) : Nat → Bytes → Option (List Item)
  | _, [] => some []                   -- iarchive.empty()
  | 0, _ :: _ => none
  | fuel+1, b :: bs =>
    match parseStep routed tbl me (b :: bs) with
    | none => none
    | some (it, r) =>
      match parseLoop routed tbl me fuel r with
      | none => none
      | some items => some (it :: items)

/-- one physical buffer (an MPI message) handled on rank `me`.  Every iteration consumes at
least one byte, so the budget `bs.length` is never the reason for `none`. -/
def parseBuffer (routed : Bool) (tbl : Table) (me : Int) (bs : Bytes) : Option (List Item) :=
  parseLoop routed tbl me bs.length bs

/-- forwarding branch: `pack_header(buf, h.dest, h.message_size)` then `message_size` bytes -/
def forwardCopy (buf : Bytes) (size : Nat) (dest : Int) (payload : Bytes) : Bytes :=
  (buf ++ header size dest) ++ payload

/-- everything a rank re-buffers while handling one incoming buffer, in order -/
def forwardAll : List Item → Bytes → Bytes
  | [], buf => buf
  | .fwd s d p :: r, buf => forwardAll r (forwardCopy buf s d p)
  | .exec .. :: r, buf => forwardAll r buf

def hopBytes (tbl : Table) (me : Int) (inbuf : Bytes) : Option Bytes :=
  match parseBuffer true tbl me inbuf with
  | none => none
  | some items => some (forwardAll items [])

/-- relay a buffer through a list of intermediate ranks -/
def relay (tbl : Table) : List Nat → Bytes → Option Bytes
  | [], bs => some bs
  | r :: rs, bs =>
    match hopBytes tbl (r : Int) bs with
    | none => none
    | some out => relay tbl rs out

/-- what rank `me` does with message `m` (the expected `Item`) -/
def view (routed : Bool) (me : Int) (m : Msg) : Item :=
  if routed then
    if m.bcast then .exec 0 (-1) m.lid m.fn m.args
    else if (m.dest : Int) = me then .exec (body m).length (m.dest : Int) m.lid m.fn m.args
    else .fwd (body m).length (m.dest : Int) (body m)
  else .exec 0 0 m.lid m.fn m.args

end YgmVerif.Wire
