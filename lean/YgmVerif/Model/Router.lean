/-
Model of `ygm::detail::layout` (layout.hpp) for an `N × p` block placement and of
`ygm::detail::comm_router::next_hop` (comm_router.hpp), plus the route a message
takes when `comm::async` picks the first hop and `comm::handle_next_receive`'s
forwarding branch picks every further hop (comm.ipp).

Executable, core Lean only.  Ranks are `0 … N*p-1`; rank `r` lives on node
`r / p` with on-node index `r % p` (this is what `MPI_Comm_split_type(SHARED)` +
`MPI_Comm_split(local_id)` produce for a block placement; the correspondence run
compares the five layout tables of every rank with the functions below).
-/
namespace YgmVerif.Router

/-- `routing_type` of comm_environment.hpp -/
inductive Scheme where
  | NONE | NR | NLNR
  deriving DecidableEq, Repr, Inhabited

/-- `layout::node_id(rank)` = `m_rank_to_node[rank]` -/
def node (p r : Nat) : Nat := r / p
/-- `layout::local_id(rank)` = `m_rank_to_local[rank]` -/
def loc (p r : Nat) : Nat := r % p
/-- `layout::nl_to_rank(nid, lid)` -/
def mk (p a i : Nat) : Nat := a * p + i
/-- `m_strided_ranks[k]` as seen on rank `me`: the rank with my on-node index on node `k` -/
def strided (p me k : Nat) : Nat := mk p k (loc p me)
/-- `m_local_ranks[j]` as seen on rank `me`: the `j`-th rank of my node -/
def localRank (p me j : Nat) : Nat := mk p (node p me) j
/-- `layout::is_local(rank)` evaluated on rank `me` -/
def isLocal (p me r : Nat) : Bool := node p me == node p r
/-- `layout::is_strided(rank)` evaluated on rank `me` -/
def isStrided (p me r : Nat) : Bool := loc p me == loc p r

/-- the cached tables of `layout` on rank `me` (for the table comparison) -/
def stridedTable (N p me : Nat) : List Nat := (List.range N).map (strided p me)
def localTable (p me : Nat) : List Nat := (List.range p).map (localRank p me)
def rankToNode (N p : Nat) : List Nat := (List.range (N * p)).map (node p)
def rankToLocal (N p : Nat) : List Nat := (List.range (N * p)).map (loc p)

/-- NLNR: `comm_channel_offset = (dest_node + m_layout.node_id()) % m_layout.local_size()` -/
def channel (p me d : Nat) : Nat := (node p d + node p me) % p

/-- `comm_router::next_hop(dest, route)` evaluated on rank `me` of a layout with `p`
ranks per node.  The code indexes `strided_ranks()[node_id(dest)]` and
`local_ranks()[channel]` without a bounds check; `Props/C04` proves both indices in
range (`node p d < N`, `channel p me d < p`) for `d < N*p`, `0 < p`. -/
def nextHop (sch : Scheme) (p me d : Nat) : Nat :=
  match sch with
  | .NONE => d
  | .NR => if isLocal p me d then d else strided p me (node p d)
  | .NLNR =>
    if isLocal p me d then d
    else
      let localCommRank := localRank p me (channel p me d)
      if me = localCommRank then strided p me (node p d) else localCommRank

/-- The ranks a message visits after leaving `cur`: `cur` sends to `nextHop cur d`
(`comm::async` for the origin, the forwarding branch of `handle_next_receive` for an
intermediate rank); the receiver executes iff it is `d` (`h.dest == m_layout.rank()`),
otherwise it forwards.  `fuel` bounds the iteration. -/
def routeFrom (sch : Scheme) (p d : Nat) : Nat → Nat → List Nat
  | 0, _ => []
  | fuel + 1, cur =>
    let h := nextHop sch p cur d
    h :: (if h = d then [] else routeFrom sch p d fuel h)

/-- fuel used by `route`; the theorems show every route has length ≤ 3 -/
def routeFuel : Nat := 4

/-- receivers of the successive MPI sends that carry a message from `s` to `d` -/
def route (sch : Scheme) (p s d : Nat) : List Nat := routeFrom sch p d routeFuel s

/-- number of MPI sends a message addressed to `d` still needs when it sits on rank `x`
(0 once it is on its destination; used as the progress measure of C01's drain bound) -/
def hopsLeft (sch : Scheme) (p x d : Nat) : Nat := if x = d then 0 else (route sch p x d).length

/-- the (sender, receiver) pairs of those sends -/
def hops (s : Nat) (r : List Nat) : List (Nat × Nat) := List.zip (s :: r) r

/-- a hop is off-node when sender and receiver live on different nodes -/
def offNode (p : Nat) (h : Nat × Nat) : Bool := node p h.1 != node p h.2

/-- on/off-node pattern of a route (`true` = off-node hop) -/
def hopKinds (p s : Nat) (r : List Nat) : List Bool := (hops s r).map (offNode p)

/-- the off-node (sender, receiver) pairs used for a message from `s` to `d` -/
def offHops (sch : Scheme) (p s d : Nat) : List (Nat × Nat) :=
  (hops s (route sch p s d)).filter (offNode p)

end YgmVerif.Router
