import YgmVerif.Model.Bcast
import YgmVerif.Model.Comm
/-
`comm::async_bcast` RUN OVER the joint messaging model `YgmVerif.Comm` (message movement `Deliver` × count-based
multi-epoch barrier `BarrierME`): a *broadcast discipline* on joint histories.

* A broadcast `b` with origin `o` is a FAMILY of `direct = true` messages, one per leg of `Bcast.bcastLegs N p o`
  (the three nested remote lambdas of `pack_lambda_broadcast`, comm.ipp): leg number `i` (its index in `bcastLegs`)
  carries the uid `legUid n b i = b * n + i` (`n = N * p` = the number of legs of one broadcast, `Bcast.bcast_legs_counted`),
  i.e. uids are pairs (broadcast id, leg index): `bidOf n u = u / n`, `idxOf n u = u % n`.
  Messages whose broadcast id is not in the set `B` under consideration are arbitrary (point-to-point `async`s, …).
* Nothing of `Comm` is re-implemented.  The discipline is a decidable predicate on the joint label list; it reads two
  things off the list:
    `tagged ls`   every message issued by the history, in issue order, as (issuing rank, handler context, message), where
                  the handler context is the ghost `Comm.St.cur r` of the issuing rank at that moment (`curNext` is
                  `Comm.nextCur`): `some u` = issued from INSIDE the handler of message `u` (between `execBegin r u` and
                  `execEnd r u`), `none` = issued from the main program or by a pre-barrier callback;
    `execRec`     the handler returns `execEnd r u` (= the records `Deliver.executed`, Lemmas/BcastComm.lean).
* `WellIssued`: every issued message with a broadcast id `b ∈ B` IS the leg with its index: sent by `queue_message_bytes`
  (`direct`) from the leg's source to the leg's destination; a stage-1 leg may be issued from any context of the origin
  (main program, a handler, a callback); a leg of stage k+1 with source r is issued by r from inside the handler of the
  stage-k leg of the same broadcast that r received.
* `Forwards`: a leg's handler that has RETURNED has issued, from inside the handler, every leg of the next stage whose
  source is the rank it ran on (the `for` loops of `forward_remote_and_dispatch_lambda` / `forward_local_and_dispatch_lambda`
  are straight-line code of the handler: `queue_message_bytes` neither flushes nor receives).
* `Stage1Order` (separate from `Disc`, used only by `stage1_all_or_nothing` and its corollaries): program order of the
  stage-1 loop on the origin — while it is half-way (`Open`) the origin neither starts / finishes a handler nor enters /
  leaves a barrier.  `Started` = all stage-1 legs issued, `Begun` = at least one.
* every leg's handler ends by applying the user lambda (`ygm::meta::apply_optional(*pl, …)` in all three lambdas), so
  "the user function of broadcast b ran on r" = a handler return `(r, u)` with `bidOf n u = b` (`userRuns`).

Executable, core Lean only.
-/
namespace YgmVerif.BcastComm
open YgmVerif
open YgmVerif.Comm (Label St Msg)
open YgmVerif.Bcast (Leg bcastLegs)

/-! ### uids = (broadcast id, leg index) -/

/-- the uid of leg `i` of broadcast `b` on a communicator of `n` ranks -/
def legUid (n b i : Nat) : Nat := b * n + i
/-- the broadcast id of a uid -/
def bidOf (n u : Nat) : Nat := u / n
/-- the leg index of a uid -/
def idxOf (n u : Nat) : Nat := u % n

/-- leg number `i` of a broadcast with origin `o` -/
def legAt (N p o i : Nat) : Leg := (bcastLegs N p o).getD i (0, 0, 0)

/-- the message that IS leg `i` of broadcast `b` (origin `o`): (uid, dest, direct) -/
def legMsg (N p o b i : Nat) : Msg := (legUid (N * p) b i, (legAt N p o i).dst, true)

/-! ### what a joint history issues, by whom, from which context; which handlers returned -/

/-- the ghost `cur` after a label, as a function of `cur` alone (it is `Comm.nextCur`: `nextCur_eq`) -/
def curNext (c : Nat → Option Nat) : Label → (Nat → Option Nat)
  | .execBegin r uid => Barrier.upd c r (some uid)
  | .execEnd r _ => Barrier.upd c r none
  | _ => c

/-- an issue event: (issuing rank, handler running on that rank / none, message) -/
abbrev Issue := Nat × Option Nat × Msg

def Issue.rank (t : Issue) : Nat := t.1
def Issue.ctx (t : Issue) : Option Nat := t.2.1
def Issue.msg (t : Issue) : Msg := t.2.2
def Issue.uid (t : Issue) : Nat := t.2.2.1
def Issue.dest (t : Issue) : Nat := t.2.2.2.1
def Issue.direct (t : Issue) : Bool := t.2.2.2.2

/-- the issue events of one label taken when the handler contexts are `c` -/
def issuesOf (c : Nat → Option Nat) : Label → List Issue
  | .async r uid dest direct => [(r, c r, (uid, dest, direct))]
  | .runcb r msgs _ => msgs.map (fun m => (r, c r, m))
  | _ => []

def taggedFrom (c : Nat → Option Nat) : List Label → List Issue
  | [] => []
  | l :: ls => issuesOf c l ++ taggedFrom (curNext c l) ls

/-- every message issued by a history from program start, in issue order, with issuer and handler context -/
def tagged (ls : List Label) : List Issue := taggedFrom (fun _ => none) ls

/-- the handler return a label records: (rank, uid) — what `Deliver.exec` appends to `Deliver.executed` -/
def execRec : Label → List (Nat × Nat)
  | .execEnd r uid => [(r, uid)]
  | _ => []

/-! ### the broadcast discipline -/

/-- the context required of a leg `g` of stage > 1 of broadcast `b`: the handler of the leg of `b` that `g.src`
received one stage earlier -/
def ParentCtx (N p o b : Nat) (g : Leg) : Option Nat → Prop
  | none => False
  | some u => bidOf (N * p) u = b ∧ (legAt N p o (idxOf (N * p) u)).dst = g.src ∧
      (legAt N p o (idxOf (N * p) u)).stage + 1 = g.stage

instance (N p o b : Nat) (g : Leg) (c : Option Nat) : Decidable (ParentCtx N p o b g c) := by
  cases c <;> unfold ParentCtx <;> exact inferInstance

/-- the issue event `t` (whose uid has broadcast id `b`) is the leg with its index, issued the way
`pack_lambda_broadcast` issues it -/
def LegIssueOk (N p o b : Nat) (t : Issue) : Prop :=
  t.rank = (legAt N p o (idxOf (N * p) t.uid)).src ∧
  t.dest = (legAt N p o (idxOf (N * p) t.uid)).dst ∧
  t.direct = true ∧
  ((legAt N p o (idxOf (N * p) t.uid)).stage = 1 ∨ ParentCtx N p o b (legAt N p o (idxOf (N * p) t.uid)) t.ctx)

instance (N p o b : Nat) (t : Issue) : Decidable (LegIssueOk N p o b t) := by
  unfold LegIssueOk; exact inferInstance

/-- every issued message with a broadcast id in `B` is a leg of that broadcast, issued by the right rank from the
right context -/
def WellIssued (N p : Nat) (origin : Nat → Nat) (B : List Nat) (ls : List Label) : Prop :=
  ∀ t ∈ tagged ls, bidOf (N * p) t.uid ∈ B →
    LegIssueOk N p (origin (bidOf (N * p) t.uid)) (bidOf (N * p) t.uid) t

/-- leg `i` is forwarded by the receiver of leg `j`: next stage, sent by the rank leg `j` was sent to -/
def SuccLeg (N p o j i : Nat) : Prop :=
  (legAt N p o i).src = (legAt N p o j).dst ∧ (legAt N p o i).stage = (legAt N p o j).stage + 1

instance (N p o j i : Nat) : Decidable (SuccLeg N p o j i) := by unfold SuccLeg; exact inferInstance

/-- if leg `i` is forwarded by the receiver of the leg with uid `u`, it has been issued by that receiver from inside
the handler of `u` -/
def ForwardedLeg (N p o b u i : Nat) (ls : List Label) : Prop :=
  SuccLeg N p o (idxOf (N * p) u) i → ((legAt N p o i).src, some u, legMsg N p o b i) ∈ tagged ls

instance (N p o b u i : Nat) (ls : List Label) : Decidable (ForwardedLeg N p o b u i ls) := by
  unfold ForwardedLeg; exact inferInstance

/-- the handler of the leg with uid `u` of broadcast `b` (origin `o`) has issued, from inside the handler, all the
legs it forwards -/
def ForwardedBy (N p o b u : Nat) (ls : List Label) : Prop :=
  ∀ i, i < N * p → ForwardedLeg N p o b u i ls

instance (N p o b u : Nat) (ls : List Label) : Decidable (ForwardedBy N p o b u ls) := by
  unfold ForwardedBy; exact inferInstance

/-- a returned leg handler has issued, from inside the handler, all the legs it forwards -/
def Forwards (N p : Nat) (origin : Nat → Nat) (B : List Nat) (ls : List Label) : Prop :=
  ∀ x ∈ ls.flatMap execRec, bidOf (N * p) x.2 ∈ B →
    ForwardedBy N p (origin (bidOf (N * p) x.2)) (bidOf (N * p) x.2) x.2 ls

/-- **the broadcast discipline** for the broadcasts `B` (ids) with origins `origin b`, on an `N × p` layout -/
structure Disc (N p : Nat) (origin : Nat → Nat) (B : List Nat) (ls : List Label) : Prop where
  /-- origins are ranks of the communicator -/
  origins : ∀ b ∈ B, origin b < N * p
  wellIssued : WellIssued N p origin B ls
  forwards : Forwards N p origin B ls

instance (N p : Nat) (origin : Nat → Nat) (B : List Nat) (ls : List Label) :
    Decidable (WellIssued N p origin B ls) := by unfold WellIssued; exact inferInstance

instance (N p : Nat) (origin : Nat → Nat) (B : List Nat) (ls : List Label) :
    Decidable (Forwards N p origin B ls) := by unfold Forwards; exact inferInstance

instance (N p : Nat) (origin : Nat → Nat) (B : List Nat) (ls : List Label) :
    Decidable (Disc N p origin B ls) :=
  if h1 : ∀ b ∈ B, origin b < N * p then
    if h2 : WellIssued N p origin B ls then
      if h3 : Forwards N p origin B ls then isTrue ⟨h1, h2, h3⟩
      else isFalse (fun h => h3 h.forwards)
    else isFalse (fun h => h2 h.wellIssued)
  else isFalse (fun h => h1 h.origins)

/-- the broadcast `b` (origin `o`) has been started: the `for` loop of `pack_lambda_broadcast` on the origin has
issued the stage-1 legs -/
def Started (N p o b : Nat) (ls : List Label) : Prop :=
  ∀ i, i < N * p → (legAt N p o i).stage = 1 → legUid (N * p) b i ∈ (ls.flatMap Comm.issued).map (·.1)

instance (N p o b : Nat) (ls : List Label) : Decidable (Started N p o b ls) := by
  unfold Started; exact inferInstance

/-! ### program order of the stage-1 loop on the origin -/

/-- the `async_bcast` call of broadcast `b` has begun: some stage-1 leg has been issued -/
def Begun (N p o b : Nat) (ls : List Label) : Prop :=
  ∃ i, i < N * p ∧ ((legAt N p o i).stage = 1 ∧ legUid (N * p) b i ∈ (ls.flatMap Comm.issued).map (·.1))

instance (N p o b : Nat) (ls : List Label) : Decidable (Begun N p o b ls) := by
  unfold Begun; exact inferInstance

/-- the stage-1 loop `for (auto dest : layout().local_ranks()) queue_message_bytes(packed_msg, dest);` is half-way -/
def Open (N p o b : Nat) (ls : List Label) : Prop := Begun N p o b ls ∧ ¬ Started N p o b ls

instance (N p o b : Nat) (ls : List Label) : Decidable (Open N p o b ls) := by
  unfold Open; exact inferInstance

/-- the labels by which rank `o` starts or finishes a handler, enters or leaves a barrier -/
def isControlOf (o : Nat) : Label → Bool
  | .execBegin r _ => r == o
  | .execEnd r _ => r == o
  | .enter r => r == o
  | .exit r => r == o
  | _ => false

/-- an `async` / `queue_message_bytes` call of rank `o` (not a callback run) -/
def isAsyncOf (o : Nat) : Label → Bool
  | .async r _ _ _ => r == o
  | _ => false

/-- **program order of `pack_lambda_broadcast` on the origin** (`pre` = the history so far):
* while the stage-1 loop of `b` is half-way, the origin neither starts nor finishes a handler and neither enters nor
  leaves a barrier (`queue_message_bytes` only appends to a send buffer: it neither receives nor flushes, and the loop
  is straight-line code of the caller — the main program or a handler);
* the label that issues the first stage-1 leg of `b` is an `async` of the origin, or it issues all stage-1 legs at once
  (a pre-barrier callback, which the joint model runs as ONE label `runcb`). -/
def Stage1OrderFrom (N p o b : Nat) : List Label → List Label → Prop
  | _, [] => True
  | pre, l :: post =>
    (Open N p o b pre → isControlOf o l = false) ∧
    (¬ Begun N p o b pre → Begun N p o b (pre ++ [l]) → isAsyncOf o l = true ∨ Started N p o b (pre ++ [l])) ∧
    Stage1OrderFrom N p o b (pre ++ [l]) post

def Stage1Order (N p o b : Nat) (ls : List Label) : Prop := Stage1OrderFrom N p o b [] ls

instance instDecStage1OrderFrom (N p o b : Nat) :
    (pre post : List Label) → Decidable (Stage1OrderFrom N p o b pre post)
  | _, [] => isTrue trivial
  | pre, l :: post =>
    have := instDecStage1OrderFrom N p o b (pre ++ [l]) post
    by unfold Stage1OrderFrom; exact inferInstance

instance (N p o b : Nat) (ls : List Label) : Decidable (Stage1Order N p o b ls) := by
  unfold Stage1Order; exact inferInstance

/-! ### what is observed -/

/-- the ranks on which the user function of broadcast `b` has run (one entry per run): every leg handler applies
the user lambda once, so these are the ranks of the handler returns with broadcast id `b` -/
def userRuns (n b : Nat) (s : St) : List Nat :=
  (s.d.executed.filter (fun x => bidOf n x.2 == b)).map (·.1)

/-- the message is a leg of broadcast `b` -/
def isLegOf (n b : Nat) (e : Deliver.Entry) : Bool := bidOf n e.uid == b

/-- the message is a leg of one of the broadcasts `B` -/
def isBcastLeg (n : Nat) (B : List Nat) (e : Deliver.Entry) : Bool := B.contains (bidOf n e.uid)

/-- the legs of broadcast `b` issued by rank `r` (`m_send_count++` of `queue_message_bytes` on r for b) -/
def legsIssuedBy (n b r : Nat) (ls : List Label) : Nat :=
  (tagged ls).countP (fun t => bidOf n t.uid == b && t.rank == r)

end YgmVerif.BcastComm
