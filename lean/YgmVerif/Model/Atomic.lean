/-
Model of handler atomicity on ONE rank (comm.ipp: process_receive_queue's re-entrancy guard
m_in_process_receive_queue, the early return under m_enable_interrupts == false, the guarded calls in
flush_send_buffer / local_progress / check_if_production_halt_required, barrier_reduce_counts' receive
path, handle_next_receive; interrupt_mask.hpp).

The state is the rank's call stack abstracted to the frames that matter, plus the two mechanism flags.
Labels are the observable control events (they are the hooks `prq±`, `hnr±`, `ex±`, `im±` of comm.ipp / interrupt_mask.hpp).
-/
namespace YgmVerif.Atomic

inductive Frame where
  | poll (masked : Bool)       -- inside process_receive_queue; `masked` = interrupts were disabled on entry
  | walk                       -- inside handle_next_receive called from process_receive_queue / local_process_incoming
  | bwalk                      -- inside handle_next_receive called from barrier_reduce_counts' wait loop
  | handler (maskAtEntry : Bool)  -- inside a message handler (m_lambda_map.execute)
  deriving DecidableEq, Repr

structure St where
  stack : List Frame      -- innermost first; [] = the main program
  G : Bool                -- m_in_process_receive_queue
  M : Bool                -- an interrupt_mask is alive (m_enable_interrupts == false)
  deriving DecidableEq, Repr

def St.init : St := { stack := [], G := false, M := false }

inductive Label where
  | pollBegin | pollEnd          -- process_receive_queue entered / left
  | walkBegin | walkEnd          -- handle_next_receive from a poll
  | bwalkBegin | bwalkEnd        -- handle_next_receive from the barrier's wait loop
  | handlerBegin | handlerEnd
  | maskOn | maskOff
  deriving DecidableEq, Repr

def topIsUser (s : St) : Bool :=
  match s.stack with
  | [] => true
  | .handler _ :: _ => true
  | _ => false

/-- the local rules of the code; `none` = the code cannot do this here -/
def step (s : St) : Label → Option St
  | .pollBegin =>
    -- every call site tests `!m_in_process_receive_queue` (and the function asserts it)
    if s.G = false then some { s with stack := .poll s.M :: s.stack, G := true } else none
  | .pollEnd =>
    match s.stack with
    | .poll _ :: rest => some { s with stack := rest, G := false }
    | _ => none
  | .walkBegin =>
    -- a poll entered with interrupts disabled returns before touching MPI
    match s.stack with
    | .poll false :: _ => some { s with stack := .walk :: s.stack }
    | _ => none
  | .walkEnd =>
    match s.stack with
    | .walk :: rest => some { s with stack := rest }
    | _ => none
  | .bwalkBegin =>
    -- barrier() is called from the main program, outside any mask; the flag is set around the call
    if s.stack = [] ∧ s.G = false ∧ s.M = false then some { s with stack := [.bwalk], G := true } else none
  | .bwalkEnd =>
    match s.stack with
    | .bwalk :: rest => some { s with stack := rest, G := false }
    | _ => none
  | .handlerBegin =>
    match s.stack with
    | .walk :: _ => some { s with stack := .handler s.M :: s.stack }
    | .bwalk :: _ => some { s with stack := .handler s.M :: s.stack }
    | _ => none
  | .handlerEnd =>
    -- masks are scoped objects: a handler leaves the mask state as it found it
    match s.stack with
    | .handler m :: rest => if s.M = m then some { s with stack := rest } else none
    | _ => none
  | .maskOn => if topIsUser s then some { s with M := true } else none
  | .maskOff => if topIsUser s then some { s with M := false } else none

def run (s : St) : List Label → Option St
  | [] => some s
  | l :: ls => match step s l with
    | none => none
    | some s' => run s' ls

def isHandler : Frame → Bool
  | .handler _ => true
  | _ => false

/-- handler nesting depth -/
def depth (s : St) : Nat := (s.stack.filter isHandler).length

end YgmVerif.Atomic
