import YgmVerif.Model.DistComm
import YgmVerif.Model.ArrayOps
import YgmVerif.Model.BagOps
/-
The remaining containers as instances of `Dist.Container`, so that they can be RUN OVER the joint messaging model
`YgmVerif.Comm` by `Model/DistComm.lean` (a container operation is a message; the memory of a rank changes only at
`execEnd r uid`, by `apply`).

* array (`Model/ArrayOps.lean`): the state of a rank is its rank id (it determines `m_local_start_index`) and its
  `m_local_vec`; `none` = one of the handler's `ASSERT_RELEASE`s fired (`ArrayOps.deliver` returned `none`) — kept so
  that nothing is true only because a trap was totalised away.  `apply` CALLS `ArrayOps.deliver`.
* bag (`Model/BagOps.lean`): the state of a rank is `m_local_bag`; the remote lambda appends the shipped items
  (the per-rank part of `BagOps.deliver`); the destination is a field of the message (round robin or chosen).

Executable, core Lean only.
-/
namespace YgmVerif.ContainersComm
open YgmVerif

/-! ### array -/

/-- the remote lambda of `ygm::container::array` (`putter` / `visit_wrapper`) on one rank -/
def arrContainer {α : Type} (len ranks : Nat) : Dist.Container (Nat × Option (List α)) (ArrayOps.Msg α) Unit :=
  ⟨fun st m => ((st.1, st.2.bind (fun v => ArrayOps.deliver len ranks st.1 v m)), [], [])⟩

/-- `array::owner(index)` as a total function (the trap of a zero divisor is excluded by the hypotheses
`0 < ranks`, `index < len` of the theorems, under which `Part.owner` is `some`) -/
def arrOwner {α : Type} (len ranks : Nat) (m : ArrayOps.Msg α) : Nat := (Part.owner len ranks m.idx).getD 0

/-- what rank `r` holds of the distributed array `a` -/
def arrInit {α : Type} (a : ArrayOps.Arr α) (r : Nat) : Nat × Option (List α) := (r, a.vecs[r]?)

/-! ### bag -/

/-- the remote lambda of `ygm::container::bag` on one rank: append the shipped items to `m_local_bag` -/
def bagContainer {α : Type} : Dist.Container (List α) (BagOps.Msg α) Unit :=
  ⟨fun st m => (st ++ m.items, [], [])⟩

/-- the destination of an insert is carried by the message -/
def bagOwner {α : Type} (m : BagOps.Msg α) : Nat := m.dest

/-- what rank `r` holds of the distributed bag `b` -/
def bagInit {α : Type} (b : BagOps.Bag α) (r : Nat) : List α := b.bags.getD r []

end YgmVerif.ContainersComm
