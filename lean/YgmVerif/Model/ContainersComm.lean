import YgmVerif.Model.DistComm
import YgmVerif.Model.ArrayOps
import YgmVerif.Model.BagOps
import YgmVerif.Model.Cache
import YgmVerif.Model.DSet
/-
The remaining containers as instances of `Dist.Container`, so that they can be RUN OVER the joint messaging model
`YgmVerif.Comm` by `Model/DistComm.lean` (a container operation is a message; the memory of a rank changes only at
`execEnd r uid`, by `apply`).

* array (`Model/ArrayOps.lean`): the state of a rank is its rank id (it determines `m_local_start_index`) and its
  `m_local_vec`; `none` = one of the handler's `ASSERT_RELEASE`s fired (`ArrayOps.deliver` returned `none`) — kept so
  that nothing is true only because a trap was totalised away.  `apply` CALLS `ArrayOps.deliver`.
* bag (`Model/BagOps.lean`): the state of a rank is `m_local_bag`; the remote lambda appends the shipped items
  (the per-rank part of `BagOps.deliver`); the destination is a field of the message (round robin or chosen).

* counting_set (`Model/Cache.lean`), namespace `YgmVerif.CSetComm`: the PRODUCT of the joint messaging model `Comm` with one
  count cache (`Cache.St Nat`, configuration `Cache.csetCfg`) per rank.  The component step functions are CALLED as they
  are (`Comm.run`, `Cache.step`); this file only says which component labels a joint label consists of:
      ins r k first   `async_insert(k)` on rank r = Cache `ins k 1`  (+ `Comm.regcb r` iff no callback was registered)
      pack r uid      Cache `pack` on r = `Comm.async r uid (owner key) false`   — the packed message IS the async
      cbpack r uid    Cache `pack` inside the flush-all callback = `Comm.runcb r [(uid, owner key, false)] 1`
      ret r / done r  Cache `ret` / `done` alone
      fb r            the pre-barrier callback begins: Cache `fb` = `Comm.runcb r [] 1`
      fe r            ... returns: Cache `fe` = `Comm.runcb r [] 0`
      comm l          every other `Comm` label alone (send, receive, forward, handler begin / end, barrier steps)
  A callback during whose sends handlers run is the chain `fb, cbpack, …, fe` of `runcb` steps each of which
  re-registers its continuation (`j = 1`) except the last: between them `execBegin … execEnd` and inserts from the
  handler are accepted, and `BarrierME` sees a pending callback throughout (no reduction round can be started).
  The joint guard ties the content of a packed message to the cache: `Cache.pending = some (opOf uid)`.

* disjoint_set (`Model/DSet.lean`), namespace `YgmVerif.DSetComm`: the PRODUCT of `Comm` with the (global) message system
  `DSet.State`.  `DSet.issue` / `DSet.deliver` are CALLED as they are.  `DSet` has "any in-flight message deliverable
  next" and runs a handler body atomically; here the same body runs at `Comm.execBegin` and the messages it sends
  (`DSet.send` from inside the handler) are the next `Comm.async` labels of that rank, in order (ghost `outbox`):
      union r uid ex a b   `async_union[_and_execute](a, b)` on rank r = `DSet.issue` + `Comm.async r uid (owner a) false`
      begin r uid          the handler of uid starts on r = `Comm.execBegin r uid` + `DSet.deliver` of that message
      hsend r uid          the running handler issues its next message = `Comm.async r uid (owner target) false`
      comm l               every other `Comm` label alone; `execEnd r _` only when the handler has issued everything
  ghost `fl` = uids issued whose handler has not started (Comm's in-flight set, `|fl| = BarrierME.und`).

* reducing adapter (`Model/Cache.lean`, `Cache.Net`), namespace `YgmVerif.ReduceComm`: the PRODUCT of `Comm` with the
  system of all ranks `Cache.Net` (one reducing-adapter cache per rank, the partial values in flight, the target
  container).  `Cache.netStep` is CALLED as it is.  Labels as for counting_set, and
      user r k v first    `async_reduce(k, v)` called by user code on rank r = `netStep (.user r k v)` (+ `Comm.regcb r`)
      begin r uid first   the handler of message uid starts on r = `Comm.execBegin r uid` + `netStep (.deliver i)` for the
                          entry `(r, opOf uid)` of `Net.flight` (a container operation is applied to the target container;
                          a forwarded partial value re-enters the cache of r: `cache_reduce` in handler context)
  Joint guards: user code runs outside `barrier()` or inside a handler; `barrier()` is entered and a handler returns
  only with the container calls it made completed (ghost `hb` = depth of the call stack when the handler started).

Executable, core Lean only.
-/
namespace YgmVerif.ContainersComm
open YgmVerif

/-! ### array -/

/-- the remote lambda of `ygm::container::array` (`putter` / `visit_wrapper`) on one rank -/
def arrContainer {α : Type} (len ranks : Nat) : Dist.Container (Nat × Option (List α)) (ArrayOps.Msg α) Unit :=
  ⟨fun st m => ((st.1, st.2.bind (fun v => ArrayOps.deliver len ranks st.1 v m)), [], [])⟩

/-- `array::owner(index)` as a total function (the trap of a zero divisor is excluded by the hypotheses
`0 < ranks`, `index < len` of the theorems, under which `Part.owner` is `some`) -/
def arrOwner {α : Type} (len ranks : Nat) (m : ArrayOps.Msg α) : Nat := (Part.owner len ranks m.idx).getD 0

/-- what rank `r` holds of the distributed array `a` -/
def arrInit {α : Type} (a : ArrayOps.Arr α) (r : Nat) : Nat × Option (List α) := (r, a.vecs[r]?)

/-! ### bag -/

/-- the remote lambda of `ygm::container::bag` on one rank: append the shipped items to `m_local_bag` -/
def bagContainer {α : Type} : Dist.Container (List α) (BagOps.Msg α) Unit :=
  ⟨fun st m => (st ++ m.items, [], [])⟩

/-- the destination of an insert is carried by the message -/
def bagOwner {α : Type} (m : BagOps.Msg α) : Nat := m.dest

/-- what rank `r` holds of the distributed bag `b` -/
def bagInit {α : Type} (b : BagOps.Bag α) (r : Nat) : List α := b.bags.getD r []

end YgmVerif.ContainersComm

namespace YgmVerif.CSetComm
open YgmVerif

/-- the owner side of counting_set: `m_map.async_visit(key, count += to_add, cached_count)`; the map of a rank as a
function key ↦ count (absent = 0) -/
def cntContainer : Dist.Container (Nat → Nat) (Cache.Msg Nat) Unit :=
  ⟨fun st m => ((fun k => if m.key = k then st k + m.val else st k), [], [])⟩

/-- parameters: ranks, cache slots, routing, key partitioner, and which message each uid carries -/
structure Par where
  n : Nat
  nslots : Nat
  nh : Nat → Nat → Nat
  owner : Nat → Nat
  opOf : Nat → Cache.Msg Nat

inductive Label where
  | comm (l : Comm.Label)
  | ins (r k : Nat) (first : Bool)
  | pack (r uid : Nat)
  | cbpack (r uid : Nat)
  | ret (r : Nat)
  | done (r : Nat)
  | fb (r : Nat)
  | fe (r : Nat)
  deriving Repr

structure St where
  c : Comm.St
  k : Nat → Cache.St Nat

def init : St := { c := Comm.init, k := fun _ => Cache.St.init }

/-- `Comm` labels that may occur on their own: everything except issuing a message and the callback steps, which only
occur as the `Comm` side of a cache label -/
def allowed : Comm.Label → Bool
  | .async .. => false
  | .regcb _ => false
  | .runcb .. => false
  | _ => true

/-- the messaging part of a joint label -/
def projC (P : Par) : Label → List Comm.Label
  | .comm l => [l]
  | .ins r _ first => if first then [.regcb r] else []
  | .pack r uid => [.async r uid (P.owner (P.opOf uid).key) false]
  | .cbpack r uid => [.runcb r [(uid, P.owner (P.opOf uid).key, false)] 1]
  | .ret _ => []
  | .done _ => []
  | .fb r => [.runcb r [] 1]
  | .fe r => [.runcb r [] 0]

/-- the cache part of a joint label: (rank, label of `Cache.step`) -/
def projK : Label → Option (Nat × Cache.Label Nat)
  | .comm _ => none
  | .ins r k _ => some (r, .ins k 1)
  | .pack r _ => some (r, .pack)
  | .cbpack r _ => some (r, .pack)
  | .ret r => some (r, .ret)
  | .done r => some (r, .done)
  | .fb r => some (r, .fb)
  | .fe r => some (r, .fe)

def topIsFall : List (Cache.Frame Nat) → Bool
  | .fall _ _ :: _ => true
  | _ => false

/-- the joint part of the guard (everything else is checked by the component steps) -/
def guard (P : Par) (S : St) : Label → Bool
  | .comm l => allowed l
  | .ins r _ first => decide (r < P.n) && (first == !(S.k r).reg)
  | .pack r uid => decide (r < P.n) && (Cache.pending (S.k r) == some (P.opOf uid))
  | .cbpack r uid => decide (r < P.n) && (Cache.pending (S.k r) == some (P.opOf uid)) && topIsFall (S.k r).stack
  | .ret r => decide (r < P.n)
  | .done r => decide (r < P.n)
  | .fb r => decide (r < P.n)
  | .fe r => decide (r < P.n)

/-- the cache side of a joint step: `Cache.step` of the rank's cache, all other caches untouched -/
def kStep (P : Par) (S : St) (l : Label) : Option (Nat → Cache.St Nat) :=
  match projK l with
  | none => some S.k
  | some (r, lab) => (Cache.step (Cache.csetCfg P.nslots) (S.k r) lab).map (fun s' => Barrier.upd S.k r s')

/-- one joint step; `none` = not enabled (the joint guard or a guard of one of the component steps fails) -/
def step (P : Par) (S : St) (l : Label) : Option St :=
  if guard P S l then
    match Comm.run P.n P.nh S.c (projC P l), kStep P S l with
    | some c', some k' => some { c := c', k := k' }
    | _, _ => none
  else none

def run (P : Par) (S : St) : List Label → Option St
  | [] => some S
  | l :: ls => match step P S l with
    | none => none
    | some S' => run P S' ls

/-- the `Cache` history of rank r -/
def projR (r : Nat) (jls : List Label) : List (Cache.Label Nat) :=
  jls.filterMap (fun l => match projK l with
    | some (q, lab) => if q = r then some lab else none
    | none => none)

/-- (rank, key) of every `async_insert` of the history, in order -/
def insList (jls : List Label) : List (Nat × Nat) :=
  jls.filterMap (fun l => match l with
    | .ins r k _ => some (r, k)
    | _ => none)

/-- (rank, uid) of every packed message of the history, in order -/
def sentList (jls : List Label) : List (Nat × Nat) :=
  jls.filterMap (fun l => match l with
    | .pack r uid => some (r, uid)
    | .cbpack r uid => some (r, uid)
    | _ => none)

end YgmVerif.CSetComm

namespace YgmVerif.DSetComm
open YgmVerif

structure Par where
  n : Nat
  nh : Nat → Nat → Nat
  /-- partitioner of the items -/
  owner : Nat → Nat
  /-- which disjoint_set message each uid carries -/
  opOf : Nat → DSet.Msg

/-- the item whose owner executes the message (first argument of `async_visit`) -/
def target : DSet.Msg → Nat
  | .walk _ t _ _ _ _ _ _ => t
  | .setp x _ => x
  | .resolve p _ _ => p

inductive Label where
  | comm (l : Comm.Label)
  | union (r uid : Nat) (ex : Bool) (a b : Nat)
  | begin (r uid : Nat)
  | hsend (r uid : Nat)
  deriving Repr

structure St where
  c : Comm.St
  ds : DSet.State
  /-- ghost: uids issued whose handler has not started -/
  fl : List Nat
  /-- ghost: what the handler running on a rank still has to send, in order -/
  outbox : Nat → List DSet.Msg

def init : St := { c := Comm.init, ds := DSet.init, fl := [], outbox := fun _ => [] }

/-- `Comm` labels that may occur on their own -/
def allowed : Comm.Label → Bool
  | .async .. => false
  | .runcb .. => false
  | .execBegin .. => false
  | _ => true

def projC (P : Par) : Label → List Comm.Label
  | .comm l => [l]
  | .union r uid _ a _ => [.async r uid (P.owner a) false]
  | .begin r uid => [.execBegin r uid]
  | .hsend r uid => [.async r uid (P.owner (target (P.opOf uid))) false]

/-- the messages a handler body sends: what it appended to the in-flight list -/
def sent (s : DSet.State) (m : DSet.Msg) : List DSet.Msg := (DSet.handle s m).msgs.drop s.msgs.length

/-- the joint part of the guard -/
def guard (P : Par) (S : St) : Label → Bool
  | .comm l => allowed l && (match l with
      | .execEnd r _ => (S.outbox r).isEmpty
      | _ => true)
  | .union r uid ex a b => decide (r < P.n) && (P.opOf uid == DSet.Msg.walk ex a a b b (-1) a b)
  | .begin r uid => decide (r < P.n) && S.fl.contains uid && S.ds.msgs.contains (P.opOf uid)
  | .hsend r uid => decide (r < P.n) && ((S.outbox r).head? == some (P.opOf uid))

/-- the disjoint_set side and the ghosts after the label -/
def next (P : Par) (S : St) : Label → DSet.State × List Nat × (Nat → List DSet.Msg)
  | .comm _ => (S.ds, S.fl, S.outbox)
  | .union _ uid ex a b => (DSet.issue S.ds ex a b, S.fl ++ [uid], S.outbox)
  | .begin r uid =>
    let i := S.ds.msgs.idxOf (P.opOf uid)
    (DSet.deliver S.ds i, S.fl.erase uid,
     Barrier.upd S.outbox r (S.outbox r ++ sent { S.ds with msgs := S.ds.msgs.eraseIdx i } (P.opOf uid)))
  | .hsend r uid => (S.ds, S.fl ++ [uid], Barrier.upd S.outbox r (S.outbox r).tail)

def step (P : Par) (S : St) (l : Label) : Option St :=
  if guard P S l then
    match Comm.run P.n P.nh S.c (projC P l) with
    | some c' => some { c := c', ds := (next P S l).1, fl := (next P S l).2.1, outbox := (next P S l).2.2 }
    | none => none
  else none

def run (P : Par) (S : St) : List Label → Option St
  | [] => some S
  | l :: ls => match step P S l with
    | none => none
    | some S' => run P S' ls

/-- the unions issued by the history, in order -/
def unions (jls : List Label) : List (Nat × Nat) :=
  jls.filterMap (fun l => match l with
    | .union _ _ _ a b => some (a, b)
    | _ => none)

end YgmVerif.DSetComm

namespace YgmVerif.ReduceComm
open YgmVerif

structure Par where
  n : Nat
  /-- cache size, reducer, key partitioner, the adapter's next hop -/
  nc : Cache.NetCfg Nat
  /-- routing of the communicator -/
  nh : Nat → Nat → Nat
  /-- which message each uid carries -/
  opOf : Nat → Cache.Msg Nat

inductive Label where
  | comm (l : Comm.Label)
  | user (r k v : Nat) (first : Bool)
  | pack (r uid : Nat)
  | cbpack (r uid : Nat)
  | ret (r : Nat)
  | done (r : Nat)
  | fb (r : Nat)
  | fe (r : Nat)
  | begin (r uid : Nat) (first : Bool)
  deriving Repr

structure St where
  c : Comm.St
  net : Cache.Net Nat
  /-- ghost: depth of the container-call stack of a rank when its running handler started -/
  hb : Nat → Nat

def init (P : Par) (st0 : List (Nat × Nat)) : St :=
  { c := Comm.init, net := Cache.Net.init P.n st0, hb := fun _ => 0 }

/-- the adapter cache of rank r -/
def rankSt (S : St) (r : Nat) : Cache.St Nat := S.net.ranks.getD r Cache.St.init

def allowed : Comm.Label → Bool
  | .async .. => false
  | .regcb _ => false
  | .runcb .. => false
  | .execBegin .. => false
  | _ => true

def projC (P : Par) : Label → List Comm.Label
  | .comm l => [l]
  | .user r _ _ first => if first then [.regcb r] else []
  | .pack r uid => [.async r uid (P.nc.dest r (P.opOf uid)) false]
  | .cbpack r uid => [.runcb r [(uid, P.nc.dest r (P.opOf uid), false)] 1]
  | .ret _ => []
  | .done _ => []
  | .fb r => [.runcb r [] 1]
  | .fe r => [.runcb r [] 0]
  | .begin r uid first => .execBegin r uid :: (if first then [.regcb r] else [])

/-- the `Cache.Net` part of a joint label -/
def netLabel (P : Par) (S : St) : Label → Option (Cache.NetLabel Nat)
  | .comm _ => none
  | .user r k v _ => some (.user r k v)
  | .pack r _ => some (.loc r .pack)
  | .cbpack r _ => some (.loc r .pack)
  | .ret r => some (.loc r .ret)
  | .done r => some (.loc r .done)
  | .fb r => some (.loc r .fb)
  | .fe r => some (.loc r .fe)
  | .begin r uid _ => some (.deliver (S.net.flight.idxOf (r, P.opOf uid)))

/-- a `cache_reduce(k, _)` on rank r registers the callback: r is not the owner and none is registered -/
def registers (P : Par) (S : St) (r k : Nat) : Bool := !(rankSt S r).reg && !(P.nc.at r).isOwner k

def guard (P : Par) (S : St) : Label → Bool
  | .comm l => allowed l && (match l with
      | .enter r => (rankSt S r).stack.isEmpty
      | .execEnd r _ => (rankSt S r).stack.length == S.hb r
      | _ => true)
  | .user r k _ first => decide (r < P.n) && (S.c.b.inBar r == false || S.c.b.busy r) && (first == registers P S r k)
  | .pack r uid => decide (r < P.n) && (Cache.pending (rankSt S r) == some (P.opOf uid))
  | .cbpack r uid => decide (r < P.n) && (Cache.pending (rankSt S r) == some (P.opOf uid))
  | .ret r => decide (r < P.n)
  | .done r => decide (r < P.n)
  | .fb r => decide (r < P.n)
  | .fe r => decide (r < P.n)
  | .begin r uid first => decide (r < P.n) && S.net.flight.contains (r, P.opOf uid) &&
      (first == (!(P.opOf uid).toContainer && registers P S r (P.opOf uid).key))

def nextHb (S : St) : Label → (Nat → Nat)
  | .begin r _ _ => Barrier.upd S.hb r (rankSt S r).stack.length
  | _ => S.hb

def nStep (P : Par) (S : St) (l : Label) : Option (Cache.Net Nat) :=
  match netLabel P S l with
  | none => some S.net
  | some nl => Cache.netStep P.nc S.net nl

def step (P : Par) (S : St) (l : Label) : Option St :=
  if guard P S l then
    match Comm.run P.n P.nh S.c (projC P l), nStep P S l with
    | some c', some net' => some { c := c', net := net', hb := nextHb S l }
    | _, _ => none
  else none

def run (P : Par) (S : St) : List Label → Option St
  | [] => some S
  | l :: ls => match step P S l with
    | none => none
    | some S' => run P S' ls

/-- the `Cache.Net` history of a joint history (the index of a delivered message is read off the state) -/
def netLabels (P : Par) : St → List Label → List (Cache.NetLabel Nat)
  | _, [] => []
  | S, l :: ls => match step P S l with
    | none => []
    | some S' => (match netLabel P S l with
      | none => []
      | some nl => [nl]) ++ netLabels P S' ls

/-- the contributions `async_reduce(k, v)` of user code in the history, in order -/
def contribs (jls : List Label) : List (Nat × Nat) :=
  jls.filterMap (fun l => match l with
    | .user _ k v _ => some (k, v)
    | _ => none)

end YgmVerif.ReduceComm
