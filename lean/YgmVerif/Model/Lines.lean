/-
Model of `ygm::io::line_parser::for_all` (include/ygm/io/line_parser.hpp) and of the
`csv_parser` / `ndjson_parser` wrappers.  Executable, core Lean only.

A file is the list of its line lengths (newline excluded) plus "the last line is
terminated by a newline".  Only the *positions* of the newlines matter to the code
(`seekg`, `getline`, `tellg`), so the text of the lines is a parameter.

* `carve sizes nranks G` mirrors rank 0's loop (line_parser.hpp:102-149): the budget
  `max(total / nranks + 1, G)` (`G` = 8 MiB in the code), files taken from the *back*
  of the (sorted) path list, one `(file, bytes_begin, bytes_end)` per `async`.
* `readRange f b e` mirrors the reader (line_parser.hpp:154-176): if `bytes_begin > 0`
  `seekg(bytes_begin)` and throw away one `getline`; then
  `while (ifs.tellg() <= bytes_end && std::getline(ifs, line)) fn(line)`.
  The stream is modelled by a cursor: the lengths of the lines not yet consumed, the index
  of the first of them and its byte offset (`tellg()`).  Once `getline` runs into the end
  of the file (eofbit, or failbit when nothing could be extracted) `tellg()` returns `-1`,
  which as a `size_t` is larger than every `bytes_end`: the loop ends.
-/
namespace YgmVerif.Lines

structure File where
  /-- lengths of the lines, newline excluded -/
  lens : List Nat
  /-- the file ends with `'\n'` -/
  finalNL : Bool
  deriving Repr, DecidableEq

/-- number of bytes when every line carries its newline -/
def bytesTerm : List Nat → Nat
  | [] => 0
  | l :: rest => l + 1 + bytesTerm rest

/-- `fs::file_size` -/
def File.size (f : File) : Nat :=
  if f.finalNL || f.lens.isEmpty then bytesTerm f.lens else bytesTerm f.lens - 1

/-- the representation is canonical: without a final newline the last line is not empty
(`"a\n"` is `⟨[1], true⟩`, never `⟨[1, 0], false⟩`; the empty file is `⟨[], _⟩`) -/
def File.WF (f : File) : Prop := f.finalNL = false → f.lens.getLast? ≠ some 0

instance (f : File) : Decidable f.WF := by unfold File.WF; exact inferInstance

/-- byte offsets at which the lines of a file start (first line at `pos`) -/
def offsets (pos : Nat) : List Nat → List Nat
  | [] => []
  | l :: rest => pos :: offsets (pos + l + 1) rest

def File.starts (f : File) : List Nat := offsets 0 f.lens

/-! ### the reader -/

/-- `while (ifs.tellg() <= bytes_end && std::getline(ifs, line)) fn(line);`
with the stream positioned at byte `pos`, the start of line `i`; `rest` are the lengths of
line `i` and of the lines after it.  Result: the indices of the lines handed to `fn`. -/
def readLoop (nl : Bool) (e : Nat) : List Nat → Nat → Nat → List Nat
  | [], _, _ => []                        -- pos = size: getline extracts nothing (failbit)
  | l :: rest, i, pos =>
    if pos ≤ e then                       -- ifs.tellg() <= bytes_end
      if rest.isEmpty && !nl then         -- last line, not newline-terminated
        if l = 0 then []                  --   nothing left to extract: failbit
        else [i]                          --   delivered; eofbit makes tellg() = -1: loop ends
      else i :: readLoop nl e rest (i + 1) (pos + l + 1)
    else []

/-- `ifs.seekg(b); std::getline(ifs, line);` on a freshly opened stream whose cursor is at
the start `s` of line `i` (`s ≤ b`): consume from byte `b` through the next newline.
`some (rest, i', pos')` is the cursor afterwards; `none`: the end of the file was hit
(nothing extracted, or no newline found), `tellg()` is `-1` from now on. -/
def skipFrom (nl : Bool) : List Nat → Nat → Nat → Nat → Option (List Nat × Nat × Nat)
  | [], _, _, _ => none
  | l :: rest, i, s, b =>
    if b ≤ s + l then                     -- byte b is in line i (its text or its newline)
      if rest.isEmpty && !nl then none
      else some (rest, i + 1, s + l + 1)
    else skipFrom nl rest (i + 1) (s + l + 1) b

/-- the lines (indices) a rank delivers for the assignment `(file, b, e)` -/
def readRange (f : File) (b e : Nat) : List Nat :=
  if b > 0 then
    match skipFrom f.finalNL f.lens 0 0 b with
    | none => []
    | some (rest, i, pos) => readLoop f.finalNL e rest i pos
  else readLoop f.finalNL e f.lens 0 0

/-- the boundary rule of the reader, as a predicate on the start offset `s` of a line:
`s = 0 = b  ∨  b < s ≤ e` -/
def inRange (b e s : Nat) : Bool := (b == 0 && s == 0) || (decide (b < s) && decide (s ≤ e))

/-! ### rank 0's carving loop -/

structure Range where
  file : Nat
  b : Nat
  e : Nat
  deriving Repr, DecidableEq

/-- an entry of `remaining_files`: (index of the path, cur_position, file size) -/
abbrev Rem := Nat × Nat × Nat

/-- the `while (remaining_budget > 0 && !remaining_files.empty())` loop of one rank.
`rem` is `remaining_files` with its *back* as the head of the list.  Returns the ranges
sent to the rank and the updated `remaining_files`. -/
def rankLoop : List Rem → Nat → List Range × List Rem
  | [], _ => ([], [])
  | (f, cur, fsz) :: rest, budget =>
    if budget = 0 then ([], (f, cur, fsz) :: rest)
    else if fsz - cur > budget then       -- file_remaining > remaining_budget
      ([⟨f, cur, cur + budget⟩], (f, cur + budget, fsz) :: rest)   -- remaining_budget = 0
    else                                  -- file_remaining <= remaining_budget
      let r := rankLoop rest (budget - (fsz - cur))                -- pop_back
      (⟨f, cur, fsz⟩ :: r.1, r.2)

/-- `for (int rank = 0; rank < m_comm.size(); ++rank)` with `k` ranks to go -/
def carveLoop (bpr : Nat) : Nat → List Rem → List (List Range)
  | 0, _ => []
  | k + 1, rem =>
    let r := rankLoop rem bpr
    r.1 :: carveLoop bpr k r.2

/-- `remaining_files` as built by rank 0, back first -/
def initRem (sizes : List Nat) : List Rem :=
  (sizes.zipIdx.map (fun (p : Nat × Nat) => (p.2, 0, p.1))).reverse

/-- `bytes_per_rank` -/
def budget (total nranks G : Nat) : Nat := max (total / nranks + 1) G

/-- per rank (in rank order) the list of `(file, bytes_begin, bytes_end)` it receives, in
the order rank 0 sends them.  `sizes` are the file sizes in `m_paths` (sorted) order. -/
def carve (sizes : List Nat) (nranks G : Nat) : List (List Range) :=
  if sizes.sum > 0 then carveLoop (budget sizes.sum nranks G) nranks (initRem sizes)
  else List.replicate nranks []

/-! ### what `for_all` delivers -/

/-- the `(file, line)` pairs delivered for one assignment -/
def readFile (files : List File) (r : Range) : List (Nat × Nat) :=
  match files[r.file]? with
  | some f => (readRange f r.b r.e).map (fun i => (r.file, i))
  | none => []

/-- `line_parser::for_all`: per rank the `(file, line)` pairs handed to the callback, in order -/
def delivered (files : List File) (nranks G : Nat) : List (List (Nat × Nat)) :=
  (carve (files.map File.size) nranks G).map (fun rs => rs.flatMap (readFile files))

/-- every line of every file: what a sequential `std::getline` loop over the files sees -/
def allLines (files : List File) : List (Nat × Nat) :=
  files.zipIdx.flatMap (fun (p : File × Nat) => (List.range p.1.lens.length).map (fun i => (p.2, i)))

/-- `csv_parser::for_all`: `parse_csv_line`, callback only for a non-empty field vector -/
def csvWrap {α φ : Type} (parseCsv : α → List φ) (lines : List α) : List (List φ) :=
  lines.filterMap (fun l => let v := parseCsv l; if v.length > 0 then some v else none)

/-- `ndjson_parser::for_all`: `boost::json::parse(line).as_object()` for every line -/
def ndjsonWrap {α ω : Type} (parseJson : α → ω) (lines : List α) : List ω := lines.map parseJson

end YgmVerif.Lines
