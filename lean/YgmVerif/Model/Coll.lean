/-
Model of the collectives of YGM (property C09).

* `comm::all_reduce(in, merge)` (comm.ipp:301-326): binary-heap reduction tree
  (rank r receives from 2r+1, then from 2(r+1), merges in that order, sends to
  (r-1)/2, rank 0's value is broadcast).  This part is YGM's own code and is
  modelled step by step: `subtreeVal`, `treeReduce`, `subtreeList`, `parent`.
* `comm::mpi_send / mpi_recv / mpi_bcast` (comm.ipp:328-377) and `ygm::bcast`
  (collective.hpp:132-157): serialise, transfer the length, transfer the bytes,
  deserialise.  The serialiser is a parameter (`Codec`; its round trip is C06).
* `comm::all_reduce_sum/min/max`, `ygm::sum/min/max/logical_and/logical_or`,
  `ygm::prefix_sum`, trivially-copyable `ygm::bcast`: thin wrappers around
  `MPI_Allreduce / MPI_Exscan / MPI_Bcast`.  MPI ITSELF IS NOT VERIFIED: the
  three calls are modelled by their MPI-standard specification (`mpiAllreduce`,
  `mpiExscan`, `mpiBcast` below — an assumption, differential-tested against
  simmpi/Open MPI only).  The YGM-side content is (a) the operator that is
  passed, (b) the datatype mapping `mpi_typeof` (mpi.hpp:27-96), (c) the
  `barrier()` the free functions call first, (d) how `prefix_sum` treats rank 0
  (`T to_return{0}` + MPI_Exscan not writing rank 0's buffer), (e) the
  composition in `is_same`.

Executable, core Lean only.
-/
namespace YgmVerif.Coll

/-! ## 1. the reduction tree of `comm::all_reduce` -/

/-- `int parent = (rank() - 1) / 2;`  (C: `(0-1)/2 = 0`, Nat: `(0-1)/2 = 0`) -/
def parent (r : Nat) : Nat := (r - 1) / 2
/-- `int first_child = 2 * rank() + 1;` -/
def firstChild (r : Nat) : Nat := 2 * r + 1
/-- `int second_child = 2 * (rank() + 1);` -/
def secondChild (r : Nat) : Nat := 2 * (r + 1)

/-- the value rank `r` holds in `tmp` after Step 1 (and sends to its parent in Step 2):
```
T tmp = in;
if (first_child  < size()) { T fc = mpi_recv<T>(first_child,…);  tmp = merge(tmp, fc); }
if (second_child < size()) { T sc = mpi_recv<T>(second_child,…); tmp = merge(tmp, sc); }
```
What `mpi_recv(c)` returns is what rank `c` passed to `mpi_send`, i.e. rank `c`'s `tmp`
(the send/receive pairs match: `C09.recv_matches_send`; transfers are the identity:
`xfer_id`). -/
def subtreeVal {α : Type} (n : Nat) (merge : α → α → α) (x : Nat → α) (r : Nat) : α :=
  let tmp := x r
  let tmp := if _h : firstChild r < n then merge tmp (subtreeVal n merge x (firstChild r)) else tmp
  let tmp := if _h : secondChild r < n then merge tmp (subtreeVal n merge x (secondChild r)) else tmp
  tmp
termination_by n - r
decreasing_by all_goals (simp only [firstChild, secondChild] at *; omega)

/-- `MPI_Bcast` seen at value level: every rank ends with the root's buffer -/
def bcastFrom {α : Type} (root : Nat) (vals : Nat → α) : Nat → α := fun _ => vals root

/-- `comm::all_reduce(in, merge)` on `n` ranks, inputs `x 0 … x (n-1)`: the value returned on `rank`
(Step 3: `mpi_bcast(tmp, 0, …)`) -/
def treeReduce {α : Type} (n : Nat) (merge : α → α → α) (x : Nat → α) (rank : Nat) : α :=
  bcastFrom 0 (subtreeVal n merge x) rank

/-- the ranks whose inputs enter rank `r`'s `tmp`, in the order in which they are merged:
pre-order of the implicit binary heap on `0 … n-1`, restricted to the subtree of `r` -/
def subtreeList (n r : Nat) : List Nat :=
  if _h : r < n then r :: (subtreeList n (firstChild r) ++ subtreeList n (secondChild r)) else []
termination_by n - r
decreasing_by all_goals (simp only [firstChild, secondChild] at *; omega)

/-- list interface used by the driver and the headline theorem: inputs `x0 :: rest`
(so the communicator has `rest.length + 1 ≥ 1` ranks), result = the value on every rank -/
def treeReduceL {α : Type} (merge : α → α → α) (x0 : α) (rest : List α) : List α :=
  let n := rest.length + 1
  (List.range n).map (treeReduce n merge (fun i => (x0 :: rest).getD i x0))

/-! ## 2. MPI primitives, by specification (ASSUMED, see header) -/

/-- `MPI_Allreduce(…, op, comm)`: every rank receives `x₀ op x₁ op … op x_{n-1}` (rank order;
for the non-associative floating-point case MPI leaves the bracketing open — the check uses
integer-valued doubles for which every bracketing agrees). -/
def mpiAllreduce {α : Type} (op : α → α → α) : List α → List α
  | [] => []
  | x0 :: rest => List.replicate (rest.length + 1) (rest.foldl op x0)

/-- `MPI_Exscan(…, op, comm)`: rank `r > 0` receives `x₀ op … op x_{r-1}`; on rank 0 the receive
buffer is *not written* (`none`; the standard calls its content undefined/not significant, every
implementation incl. simmpi leaves it untouched). -/
def mpiExscan {α : Type} (op : α → α → α) (xs : List α) : List (Option α) :=
  (List.range xs.length).map fun r =>
    match xs.take r with
    | [] => none
    | y0 :: ys => some (ys.foldl op y0)

/-- `MPI_Bcast(buf, count, …, root, comm)` on buffers: every rank ends with the root's buffer.
Erroneous (`none`) when the root is not a rank or the ranks pass different counts. -/
def mpiBcast {β : Type} (root : Nat) (bufs : List (List β)) : Option (List (List β)) :=
  match bufs[root]? with
  | none => none
  | some b => if bufs.all (fun x => x.length == b.length) then some (bufs.map fun _ => b) else none

/-! ## 3. the free functions of collective.hpp and comm's MPI wrappers -/

/-- `comm::all_reduce_sum/min/max(t)`, `ygm::sum/min/max/logical_and/logical_or(value, c)`:
`MPI_Allreduce(&value, &to_return, 1, mpi_typeof(T()), OP, …)` -/
def allReduceOp {α : Type} (op : α → α → α) (xs : List α) : List α := mpiAllreduce op xs

/-- `ygm::prefix_sum`: `T to_return{0}; c.barrier(); MPI_Exscan(&value, &to_return, …, MPI_SUM, …)`.
Rank 0 keeps the initial `0` because `MPI_Exscan` does not write its buffer. -/
def prefixSum {α : Type} (zero : α) (add : α → α → α) (xs : List α) : List α :=
  (mpiExscan add xs).map (·.getD zero)

/-- `ygm::bcast` for trivially copyable `T`: `MPI_Bcast(&to_bcast, sizeof(T), MPI_BYTE, root, …)`.
`none`: root is not a rank (erroneous MPI call). -/
def bcastPod {α : Type} (root : Nat) (vals : List α) : Option (List α) :=
  (vals[root]?).map fun v => vals.map fun _ => v

/-- a serialiser (cereal through YGMOutputArchive / YGMInputArchive); parameter of the model -/
structure Codec (α β : Type) where
  ser : α → List β
  des : List β → Option α

/-- `mpi_send(data, …)` on one side and `mpi_recv<T>(…)` on the other: the length is sent, the
receiver resizes to it, the bytes are sent, the receiver deserialises. -/
def xfer {α β : Type} (c : Codec α β) (v : α) : Option α :=
  let packed := c.ser v
  let packedSize := packed.length          -- first MPI_Send / MPI_Recv
  let buf := packed.take packedSize        -- `packed.resize(packed_size)` + second MPI_Recv
  c.des buf

/-- `ygm::bcast` for serialised `T` (collective.hpp:137-156), value left in `to_bcast` on every rank:
the root keeps its value, the others deserialise what the two `MPI_Bcast`s delivered. -/
def bcastSer {α β : Type} (c : Codec α β) (dflt : β) (root : Nat) (vals : List α) : Option (List (Option α)) :=
  let n := vals.length
  -- `if (cm.rank() == root) oarchive(to_bcast);`
  let packed : List (List β) := (List.range n).map fun r => if r = root then ((vals[r]?).map c.ser).getD [] else []
  -- `MPI_Bcast(&packed_size, 1, …, root, …)`
  match mpiBcast root (packed.map fun p => [p.length]) with
  | none => none
  | some sizes =>
    -- `if (cm.rank() != root) packed.resize(packed_size);`
    let resized : List (List β) := (List.range n).map fun r =>
      let p := packed.getD r []
      let sz := (sizes.getD r []).headD 0
      if r = root then p else p.take sz ++ List.replicate (sz - p.length) dflt
    -- `MPI_Bcast(packed.data(), packed_size, MPI_BYTE, root, …)`
    match mpiBcast root resized with
    | none => none
    | some bufs =>
      some ((List.range n).map fun r =>
        if r = root then vals[r]? else c.des (bufs.getD r []))

/-- `comm::mpi_bcast` (comm.ipp:358-377, used by the tree all_reduce): as `bcastSer` but *every* rank,
the root included, returns the deserialised buffer. -/
def mpiBcastSer {α β : Type} (c : Codec α β) (dflt : β) (root : Nat) (vals : List α) : Option (List (Option α)) :=
  match bcastSer c dflt root vals with
  | none => none
  | some out => some ((List.range vals.length).map fun r =>
      if r = root then (vals[r]?).bind (xfer c) else out.getD r none)

/-- `ygm::is_same(to_check, cm)`: rank 0's value is broadcast, compared locally with `equals`,
the flags are and-reduced (`logical_and`, which calls `barrier()` first). -/
def isSame {α : Type} (eq : α → α → Bool) (xs : List α) : List Bool :=
  match bcastPod 0 xs with
  | none => []
  | some fromRoot => allReduceOp (· && ·) ((xs.zip fromRoot).map fun (mine, root) => eq mine root)

/-! ## 4. `mpi_typeof` (mpi.hpp) -/

/-- the C++ types that have an `mpi_typeof` specialisation -/
inductive CTy where
  | char | bool | i8 | i16 | i32 | i64 | u8 | u16 | u32 | u64 | f32 | f64 | ldouble
  deriving DecidableEq, Repr, Inhabited

/-- MPI predefined datatypes returned by `mpi_typeof` -/
inductive Dt where
  | CHAR | CXX_BOOL | INT8_T | INT16_T | INT32_T | INT64_T | UINT8_T | UINT16_T | UINT32_T | UINT64_T
  | FLOAT | DOUBLE | LONG_DOUBLE
  deriving DecidableEq, Repr, Inhabited

inductive Kind where
  | char | bool | sint | uint | float
  deriving DecidableEq, Repr, Inhabited

def CTy.all : List CTy := [.char, .bool, .i8, .i16, .i32, .i64, .u8, .u16, .u32, .u64, .f32, .f64, .ldouble]

/-- value category of the C++ type -/
def CTy.kind : CTy → Kind
  | .char => .char | .bool => .bool
  | .i8 | .i16 | .i32 | .i64 => .sint
  | .u8 | .u16 | .u32 | .u64 => .uint
  | .f32 | .f64 | .ldouble => .float

/-- `sizeof` on the LP64 x86-64 ABI the check runs on (compared with the compiler's `sizeof`) -/
def CTy.bytes : CTy → Nat
  | .char | .bool | .i8 | .u8 => 1
  | .i16 | .u16 => 2
  | .i32 | .u32 | .f32 => 4
  | .i64 | .u64 | .f64 => 8
  | .ldouble => 16

/-- what the MPI standard says the predefined datatype stands for -/
def Dt.kind : Dt → Kind
  | .CHAR => .char | .CXX_BOOL => .bool
  | .INT8_T | .INT16_T | .INT32_T | .INT64_T => .sint
  | .UINT8_T | .UINT16_T | .UINT32_T | .UINT64_T => .uint
  | .FLOAT | .DOUBLE | .LONG_DOUBLE => .float

def Dt.bytes : Dt → Nat
  | .CHAR | .CXX_BOOL | .INT8_T | .UINT8_T => 1
  | .INT16_T | .UINT16_T => 2
  | .INT32_T | .UINT32_T | .FLOAT => 4
  | .INT64_T | .UINT64_T | .DOUBLE => 8
  | .LONG_DOUBLE => 16

/-- `ygm::detail::mpi_typeof<T>(T)` -/
def mpiTypeof : CTy → Dt
  | .char => .CHAR | .bool => .CXX_BOOL
  | .i8 => .INT8_T | .i16 => .INT16_T | .i32 => .INT32_T | .i64 => .INT64_T
  | .u8 => .UINT8_T | .u16 => .UINT16_T | .u32 => .UINT32_T | .u64 => .UINT64_T
  | .f32 => .FLOAT | .f64 => .DOUBLE | .ldouble => .LONG_DOUBLE

/-! ## 5. which MPI operation each collective issues, and whether `barrier()` precedes it -/

inductive Op where
  | SUM | MIN | MAX | LAND | LOR
  deriving DecidableEq, Repr, Inhabited

/-- the communication steps of one collective call, in program order -/
inductive Prim where
  | barrier                 -- `c.barrier()` (YGM barrier: flush + count rounds, C02)
  | allreduce (op : Op)     -- `MPI_Allreduce(…, 1, mpi_typeof(T()), op, …)`
  | exscan (op : Op)        -- `MPI_Exscan`
  | bcast                   -- `MPI_Bcast` (one for POD, length + bytes for serialised values)
  | treeGather              -- Steps 1–2 of `comm::all_reduce`: blocking `MPI_Recv`/`MPI_Send` along the tree
  deriving DecidableEq, Repr, Inhabited

inductive Coll where
  | sum | min | max | prefixSum | logicalAnd | logicalOr | bcast | isSame      -- collective.hpp
  | commAllReduceSum | commAllReduceMin | commAllReduceMax | commAllReduce     -- members of ygm::comm
  deriving DecidableEq, Repr, Inhabited

def Coll.all : List Coll :=
  [.sum, .min, .max, .prefixSum, .logicalAnd, .logicalOr, .bcast, .isSame,
   .commAllReduceSum, .commAllReduceMin, .commAllReduceMax, .commAllReduce]

/-- the free-function *reductions* of collective.hpp (the ones the property says complete all
outstanding asyncs first) -/
def Coll.freeReductions : List Coll := [.sum, .min, .max, .prefixSum, .logicalAnd, .logicalOr, .isSame]

def Coll.prims : Coll → List Prim
  | .sum => [.barrier, .allreduce .SUM]
  | .min => [.barrier, .allreduce .MIN]
  | .max => [.barrier, .allreduce .MAX]
  | .prefixSum => [.barrier, .exscan .SUM]
  | .logicalAnd => [.barrier, .allreduce .LAND]
  | .logicalOr => [.barrier, .allreduce .LOR]
  | .bcast => [.bcast]
  | .isSame => [.bcast, .barrier, .allreduce .LAND]
  | .commAllReduceSum => [.allreduce .SUM]
  | .commAllReduceMin => [.allreduce .MIN]
  | .commAllReduceMax => [.allreduce .MAX]
  | .commAllReduce => [.treeGather, .bcast]

/-- WHEN a collective reads the caller's input relative to its own `barrier()`.  This matters for the
idiom `ygm::sum(counter, world)` with asyncs outstanding whose handlers update `counter`: handlers run
inside the barrier, so a function that reads its argument *after* the barrier folds the FINAL values.
* `sum / min / max / prefix_sum` take `const T &value` and hand `&value` to `MPI_Allreduce / MPI_Exscan`
  after `c.barrier()`: the referenced object is read **after the barrier**.
* `logical_and / logical_or` take `bool value` BY VALUE: the argument is copied at the call, before the
  barrier — for them the property can only speak about the value passed.
* `is_same` takes `const T &to_check`, but reads it in `to_bcast = to_check`, and in `equals(to_check,
  to_bcast)` right after the (barrier-less, blocking) `bcast` — both before `logical_and`'s barrier and
  with no YGM progress in between: **at the call**.
* `bcast` and the `comm::` members have no barrier at all: at the call. -/
inductive InputRead where
  | atCall | afterBarrier
  deriving DecidableEq, Repr, Inhabited

def Coll.inputRead : Coll → InputRead
  | .sum | .min | .max | .prefixSum => .afterBarrier
  | .logicalAnd | .logicalOr | .isSame => .atCall
  | .bcast | .commAllReduceSum | .commAllReduceMin | .commAllReduceMax | .commAllReduce => .atCall

/-- the per-rank values that enter the reduction, given the values the argument variables held when the
function was called (`atCall`) and after all outstanding asyncs have been applied (`final`) -/
def contributed {α : Type} (c : Coll) (atCall final : List α) : List α :=
  match c.inputRead with
  | .afterBarrier => final
  | .atCall => atCall

def Prim.isReduction : Prim → Bool
  | .allreduce _ | .exscan _ => true
  | _ => false

/-- every reduction step of the program has a `barrier` somewhere before it -/
def barrierBeforeReductions : List Prim → Bool
  | [] => true
  | .barrier :: _ => true
  | p :: rest => !p.isReduction && barrierBeforeReductions rest

/-! ## 6. concrete operators used by the correspondence run -/

/-- the C++ `+` on a value of type `t` held as an `Int`: modular for the unsigned types;
exact for the signed ones (overflow is undefined there — the generators keep sums in range). -/
def addTy (t : CTy) (a b : Int) : Int :=
  match t.kind with
  | .uint => (a + b) % (2 ^ (8 * t.bytes) : Int)
  | _ => a + b

def opInt (t : CTy) : Op → Int → Int → Int
  | .SUM => addTy t
  | .MIN => fun a b => if b < a then b else a
  | .MAX => fun a b => if a < b then b else a
  | .LAND => fun a b => if a ≠ 0 ∧ b ≠ 0 then 1 else 0
  | .LOR => fun a b => if a ≠ 0 ∨ b ≠ 0 then 1 else 0

/-- IEEE binary64 / binary32 operators (`double`, `float`).  Lean's `Float`/`Float32` are opaque to the
logic: no theorem is stated about them — the generic definitions above (`allReduceOp`, `prefixSum`,
`treeReduceL`) are simply *run* with these operators as the fold parameter, so that rounding, overflow and
infinities are compared bit for bit.  `+` is not associative here: the MPI-delegated sum is compared against
the rank-order left fold (what `mpiAllreduce`/`mpiExscan` say and simmpi does; MPI itself leaves the
bracketing open), the tree sum against the tree's own nesting.  `LAND`/`LOR` are not defined by MPI on
floating types and are never issued. -/
def opF64 : Op → Float → Float → Float
  | .SUM => fun a b => a + b
  | .MIN => fun a b => if b < a then b else a
  | .MAX => fun a b => if a < b then b else a
  | .LAND | .LOR => fun a _ => a

def opF32 : Op → Float32 → Float32 → Float32
  | .SUM => fun a b => a + b
  | .MIN => fun a b => if b < a then b else a
  | .MAX => fun a b => if a < b then b else a
  | .LAND | .LOR => fun a _ => a

/-- non-associative, non-commutative merge used to pin the exact shape of the tree -/
def parenMerge (a b : String) : String := "(" ++ a ++ "." ++ b ++ ")"

end YgmVerif.Coll
