/-
Model of the count-based barrier of ygm::comm (comm.ipp: barrier, barrier_reduce_counts,
flush_all_local_and_process_incoming's callback loop), one barrier epoch, n ranks.

State: per rank the two counters the code reduces (`sent` = m_send_count, `recvd` = m_recv_count),
`busy` (a handler is executing), `cbs` (pending pre-barrier callbacks), `inBar`, `exited`, the number of
reduction rounds it has contributed to (`rounds`) and consumed (`got`), and the two result pairs the exit
rule compares (`prev`, `cur`, initialised to the code's sentinels (1,2) and (3,4)).  Global: `und` = number
of issued messages whose handler has not started; per reduction round the contribution count and the
running sums (`cnt`, `accR`, `accS`).  Ghost history used only by the proof: `snapS/snapR` (what each rank
contributed to each round), `gS/gR/gDead/gNoExit` (the global counters / facts at the first contribution of
each round).  `step` is executable; the ghost `Prop` fields are erased by the compiler.
-/
namespace YgmVerif.Barrier


def sumTo (n : Nat) (f : Nat → Nat) : Nat :=
  match n with
  | 0 => 0
  | k+1 => sumTo k f + f k

def upd {α} (f : Nat → α) (i : Nat) (v : α) : Nat → α := fun j => if j = i then v else f j

structure Sys where
  sent : Nat → Nat
  recvd : Nat → Nat
  cbs : Nat → Nat
  rounds : Nat → Nat
  got : Nat → Nat
  busy : Nat → Bool
  inBar : Nat → Bool
  exited : Nat → Bool
  prev : Nat → Nat × Nat
  cur : Nat → Nat × Nat
  und : Nat
  cnt : Nat → Nat
  accR : Nat → Nat
  accS : Nat → Nat
  snapS : Nat → Nat → Nat
  snapR : Nat → Nat → Nat
  gS : Nat → Nat → Nat
  gR : Nat → Nat → Nat
  gDead : Nat → Prop
  gNoExit : Nat → Prop

def Dead (n : Nat) (s : Sys) : Prop :=
  s.und = 0 ∧ ∀ r, r < n → s.busy r = false ∧ s.cbs r = 0 ∧ s.inBar r = true ∧ s.exited r = false

def NoneExited (n : Nat) (s : Sys) : Prop := ∀ r, r < n → s.exited r = false

def b2n (b : Bool) : Nat := if b then 1 else 0


/-- the labels of the transition system (what a rank can do) -/
inductive Label where
  | issue (r : Nat)              -- a message is issued (m_send_count++), from main context or a handler
  | start (r : Nat)              -- a handler starts on r (consumes one undelivered message)
  | finish (r : Nat)             -- it finishes (m_recv_count++)
  | regcb (r : Nat)              -- register_pre_barrier_callback
  | runcb (r k j : Nat)          -- a callback runs: issues k messages, registers j new callbacks
  | enter (r : Nat)              -- barrier() is entered
  | contribute (r : Nat)         -- barrier_reduce_counts posts MPI_Iallreduce(recvd, sent)
  | result (r : Nat)             -- ... and consumes its result
  | exit (r : Nat)               -- barrier() returns
  deriving Repr

/-- executable one-step function: `none` = the label is not enabled (the code cannot do this here) -/
def step (n : Nat) (s : Sys) : Label → Option Sys
  | .issue r =>
    if r < n ∧ (s.inBar r = false ∨ s.busy r = true) then
      some { s with sent := upd s.sent r (s.sent r + 1), und := s.und + 1 } else none
  | .start r =>
    if r < n ∧ 0 < s.und ∧ s.busy r = false then
      some { s with busy := upd s.busy r true, und := s.und - 1 } else none
  | .finish r =>
    if r < n ∧ s.busy r = true then
      some { s with busy := upd s.busy r false, recvd := upd s.recvd r (s.recvd r + 1) } else none
  | .regcb r =>
    if r < n ∧ (s.inBar r = false ∨ s.busy r = true) then
      some { s with cbs := upd s.cbs r (s.cbs r + 1) } else none
  | .runcb r k j =>
    if r < n ∧ 0 < s.cbs r ∧ s.busy r = false then
      some { s with cbs := upd s.cbs r (s.cbs r - 1 + j), sent := upd s.sent r (s.sent r + k),
                    und := s.und + k } else none
  | .enter r =>
    if r < n ∧ s.inBar r = false ∧ s.exited r = false ∧ s.busy r = false then
      some { s with inBar := upd s.inBar r true, prev := upd s.prev r (1, 2), cur := upd s.cur r (3, 4) }
    else none
  | .contribute r =>
    if r < n ∧ s.inBar r = true ∧ s.busy r = false ∧ s.cbs r = 0 ∧ s.rounds r = s.got r then
      some { s with
        rounds := upd s.rounds r (s.rounds r + 1),
        cnt := upd s.cnt (s.rounds r) (s.cnt (s.rounds r) + 1),
        accS := upd s.accS (s.rounds r) (s.accS (s.rounds r) + s.sent r),
        accR := upd s.accR (s.rounds r) (s.accR (s.rounds r) + s.recvd r),
        snapS := upd s.snapS (s.rounds r) (upd (s.snapS (s.rounds r)) r (s.sent r)),
        snapR := upd s.snapR (s.rounds r) (upd (s.snapR (s.rounds r)) r (s.recvd r)),
        gS := if s.cnt (s.rounds r) = 0 then upd s.gS (s.rounds r) s.sent else s.gS,
        gR := if s.cnt (s.rounds r) = 0 then upd s.gR (s.rounds r) s.recvd else s.gR,
        gDead := if s.cnt (s.rounds r) = 0 then upd s.gDead (s.rounds r) (Dead n s) else s.gDead,
        gNoExit := if s.cnt (s.rounds r) = 0 then upd s.gNoExit (s.rounds r) (NoneExited n s) else s.gNoExit }
    else none
  | .result r =>
    if r < n ∧ s.inBar r = true ∧ s.rounds r = s.got r + 1 ∧ s.cnt (s.got r) = n then
      some { s with
        prev := upd s.prev r (s.cur r),
        cur := upd s.cur r (s.accR (s.got r), s.accS (s.got r)),
        got := upd s.got r (s.got r + 1) }
    else none
  | .exit r =>
    if r < n ∧ s.inBar r = true ∧ s.rounds r = s.got r ∧ (s.cur r).1 = (s.cur r).2 ∧ s.prev r = s.cur r then
      some { s with inBar := upd s.inBar r false, exited := upd s.exited r true }
    else none

/-- run a label sequence; `none` as soon as one label is not enabled -/
def run (n : Nat) (s : Sys) : List Label → Option Sys
  | [] => some s
  | l :: ls => match step n s l with
    | none => none
    | some s' => run n s' ls

/-- the exit rule of `comm::barrier` evaluated on rank r -/
def exitEnabled (s : Sys) (r : Nat) : Bool :=
  s.inBar r && s.rounds r == s.got r && (s.cur r).1 == (s.cur r).2 && s.prev r == s.cur r

/-- start state of an epoch: given per-rank counters and busy flags; `und` is what the ledger dictates -/
def mkInit (sent recvd : Nat → Nat) (busy : Nat → Bool) (cbs : Nat → Nat) (und : Nat) : Sys :=
  { sent := sent, recvd := recvd, cbs := cbs, rounds := fun _ => 0, got := fun _ => 0, busy := busy,
    inBar := fun _ => false, exited := fun _ => false, prev := fun _ => (1, 2), cur := fun _ => (3, 4),
    und := und, cnt := fun _ => 0, accR := fun _ => 0, accS := fun _ => 0,
    snapS := fun _ _ => 0, snapR := fun _ _ => 0, gS := fun _ _ => 0, gR := fun _ _ => 0,
    gDead := fun _ => True, gNoExit := fun _ => True }

end YgmVerif.Barrier
