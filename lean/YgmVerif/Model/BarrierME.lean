import YgmVerif.Model.Barrier
/-
Multi-epoch model of the count-based barrier of ygm::comm (comm.ipp: barrier, barrier_reduce_counts), n ranks,
any number of barrier() calls per rank, epochs overlapping in time.

Differences to the single-epoch model `YgmVerif.Barrier` (Model/Barrier.lean):
* `exited : Nat → Bool` is replaced by `epoch : Nat → Nat`, the number of barriers the rank has completed;
* `base r` = the rank's `rounds` value when it entered its current barrier (its first reduction round there);
* `enter r` is enabled whenever the rank is outside a barrier and not busy; it resets `prev`/`cur` to the code's
  sentinels (1,2)/(3,4) and sets `base r := rounds r`;
* `exit r` leaves the barrier and increments `epoch r`;
* `contribute r` is disabled while the exit rule holds for r (the code's `while` leaves as soon as it holds);
* reduction rounds are ONE global sequence: round k of the barrier communicator sums every rank's k-th
  contribution (`cnt/accR/accS` indexed by the global round number, `rounds r` = number of contributions of r so
  far over all its barriers), exactly MPI's matching rule for collectives on one communicator.

Ghost state used only by the proof (erased / never inspected by the executable acceptor):
`bnd e` = the global round index at which epoch e starts (recorded at every exit), `snapS/snapR` what each rank
contributed to each round, `gS/gR` the global counters at the first contribution of each round and the two
Prop-valued histories `gPre k e` / `gDead k e` ("at the first contribution to round k nobody was beyond epoch e and
some rank was already inside barrier e with an earlier round" / "the system was quiescent in epoch e then").
-/
namespace YgmVerif.BarrierME
open YgmVerif.Barrier (sumTo upd b2n)

structure Sys where
  sent : Nat → Nat
  recvd : Nat → Nat
  cbs : Nat → Nat
  rounds : Nat → Nat
  got : Nat → Nat
  busy : Nat → Bool
  inBar : Nat → Bool
  epoch : Nat → Nat
  base : Nat → Nat
  prev : Nat → Nat × Nat
  cur : Nat → Nat × Nat
  und : Nat
  cnt : Nat → Nat
  accR : Nat → Nat
  accS : Nat → Nat
  bnd : Nat → Nat
  snapS : Nat → Nat → Nat
  snapR : Nat → Nat → Nat
  gS : Nat → Nat → Nat
  gR : Nat → Nat → Nat
  gPre : Nat → Nat → Prop
  gDead : Nat → Nat → Prop

/-- quiescent in epoch e: nothing undelivered, every rank inside barrier e, no handler running, no callback pending -/
def Dead (n : Nat) (s : Sys) (e : Nat) : Prop :=
  s.und = 0 ∧ ∀ r, r < n → s.busy r = false ∧ s.cbs r = 0 ∧ s.inBar r = true ∧ s.epoch r = e

/-- nobody has completed barrier e -/
def AllLe (n : Nat) (s : Sys) (e : Nat) : Prop := ∀ q, q < n → s.epoch q ≤ e

/-- nobody is beyond epoch e and some rank is inside barrier e since a round before k -/
def Pre (n : Nat) (s : Sys) (k e : Nat) : Prop :=
  AllLe n s e ∧ ∃ r, r < n ∧ s.inBar r = true ∧ s.epoch r = e ∧ s.base r < k

inductive Label where
  | issue (r : Nat)              -- a message is issued (m_send_count++), from main context or a handler
  | start (r : Nat)              -- a handler starts on r (consumes one undelivered message)
  | finish (r : Nat)             -- it finishes (m_recv_count++)
  | regcb (r : Nat)              -- register_pre_barrier_callback
  | runcb (r k j : Nat)          -- a callback runs: issues k messages, registers j new callbacks
  | enter (r : Nat)              -- barrier() is entered
  | contribute (r : Nat)         -- barrier_reduce_counts posts MPI_Iallreduce(recvd, sent)
  | result (r : Nat)             -- ... and consumes its result
  | exit (r : Nat)               -- barrier() returns
  deriving Repr

/-- the exit rule of `comm::barrier` evaluated on rank r -/
def exitEnabled (s : Sys) (r : Nat) : Bool :=
  s.inBar r && s.rounds r == s.got r && (s.cur r).1 == (s.cur r).2 && s.prev r == s.cur r

/-- executable one-step function: `none` = the label is not enabled (the code cannot do this here) -/
def step (n : Nat) (s : Sys) : Label → Option Sys
  | .issue r =>
    if r < n ∧ (s.inBar r = false ∨ s.busy r = true) then
      some { s with sent := upd s.sent r (s.sent r + 1), und := s.und + 1 } else none
  | .start r =>
    if r < n ∧ 0 < s.und ∧ s.busy r = false then
      some { s with busy := upd s.busy r true, und := s.und - 1 } else none
  | .finish r =>
    if r < n ∧ s.busy r = true then
      some { s with busy := upd s.busy r false, recvd := upd s.recvd r (s.recvd r + 1) } else none
  | .regcb r =>
    if r < n ∧ (s.inBar r = false ∨ s.busy r = true) then
      some { s with cbs := upd s.cbs r (s.cbs r + 1) } else none
  | .runcb r k j =>
    if r < n ∧ 0 < s.cbs r ∧ s.busy r = false then
      some { s with cbs := upd s.cbs r (s.cbs r - 1 + j), sent := upd s.sent r (s.sent r + k),
                    und := s.und + k } else none
  | .enter r =>
    if r < n ∧ s.inBar r = false ∧ s.busy r = false then
      some { s with inBar := upd s.inBar r true, prev := upd s.prev r (1, 2), cur := upd s.cur r (3, 4),
                    base := upd s.base r (s.rounds r) }
    else none
  | .contribute r =>
    if r < n ∧ s.inBar r = true ∧ s.busy r = false ∧ s.cbs r = 0 ∧ s.rounds r = s.got r ∧
       ¬ ((s.cur r).1 = (s.cur r).2 ∧ s.prev r = s.cur r) then
      some { s with
        rounds := upd s.rounds r (s.rounds r + 1),
        cnt := upd s.cnt (s.rounds r) (s.cnt (s.rounds r) + 1),
        accS := upd s.accS (s.rounds r) (s.accS (s.rounds r) + s.sent r),
        accR := upd s.accR (s.rounds r) (s.accR (s.rounds r) + s.recvd r),
        snapS := upd s.snapS (s.rounds r) (upd (s.snapS (s.rounds r)) r (s.sent r)),
        snapR := upd s.snapR (s.rounds r) (upd (s.snapR (s.rounds r)) r (s.recvd r)),
        gS := if s.cnt (s.rounds r) = 0 then upd s.gS (s.rounds r) s.sent else s.gS,
        gR := if s.cnt (s.rounds r) = 0 then upd s.gR (s.rounds r) s.recvd else s.gR,
        gPre := if s.cnt (s.rounds r) = 0 then upd s.gPre (s.rounds r) (Pre n s (s.rounds r)) else s.gPre,
        gDead := if s.cnt (s.rounds r) = 0 then upd s.gDead (s.rounds r) (Dead n s) else s.gDead }
    else none
  | .result r =>
    if r < n ∧ s.inBar r = true ∧ s.rounds r = s.got r + 1 ∧ s.cnt (s.got r) = n then
      some { s with
        prev := upd s.prev r (s.cur r),
        cur := upd s.cur r (s.accR (s.got r), s.accS (s.got r)),
        got := upd s.got r (s.got r + 1) }
    else none
  | .exit r =>
    if r < n ∧ s.inBar r = true ∧ s.rounds r = s.got r ∧ (s.cur r).1 = (s.cur r).2 ∧ s.prev r = s.cur r then
      some { s with inBar := upd s.inBar r false, epoch := upd s.epoch r (s.epoch r + 1),
                    bnd := upd s.bnd (s.epoch r + 1) (s.rounds r) }
    else none

/-- run a label sequence; `none` as soon as one label is not enabled -/
def run (n : Nat) (s : Sys) : List Label → Option Sys
  | [] => some s
  | l :: ls => match step n s l with
    | none => none
    | some s' => run n s' ls

/-- the one initial state: program start, nothing sent, nobody in a barrier -/
def init : Sys :=
  { sent := fun _ => 0, recvd := fun _ => 0, cbs := fun _ => 0, rounds := fun _ => 0, got := fun _ => 0,
    busy := fun _ => false, inBar := fun _ => false, epoch := fun _ => 0, base := fun _ => 0,
    prev := fun _ => (1, 2), cur := fun _ => (3, 4), und := 0,
    cnt := fun _ => 0, accR := fun _ => 0, accS := fun _ => 0, bnd := fun _ => 0,
    snapS := fun _ _ => 0, snapR := fun _ _ => 0, gS := fun _ _ => 0, gR := fun _ _ => 0,
    gPre := fun _ _ => True, gDead := fun _ _ => True }

end YgmVerif.BarrierME
