import YgmVerif.Model.Part
/-!
Model of `ygm::container::bag` (bag.hpp / detail/bag.ipp) and of the tag generator and store of
`tagged_bag` (tagged_bag.hpp).

Rank `r` holds `m_local_bag` = `bags[r]` (a vector: `local_pop` takes from its end) and
`m_round_robin` = `rr[r]`.  Every remote lambda of the bag ("push_back / insert at end on rank
`dest`") is one message `Msg`.  `none` models what aborts in the real code: an `async` to a rank
outside the communicator (`ASSERT_RELEASE(dest < size)`), the integer division trap in
`rebalance`'s target computation (through `Part.rebalanceTarget`), `local_pop`'s
`ASSERT_RELEASE(n <= local_size())`.

`rebalance` is modelled with the REPAIRED block-size expression `global_size % ranks` (the
arithmetic of `Part.large`); the expression of the tree as found, `global_size / ranks`, divides by
zero when `0 < total < ranks` — see `largePinned` / `targetPinned` below.

Parameters that the code leaves to the environment are explicit arguments: the iteration order
of `rebalance`'s `std::unordered_map to_send` (`ords`), the order in which pending inserts are
executed (`sched`, a permutation of message positions), the destinations drawn by
`global_shuffle`, the arrangement produced by `std::shuffle`, and — for `rebalance` and
`global_shuffle`, whose sends start right after a barrier while slower ranks may still be inside
it — the full interleaving of local actions and message executions (`evs`, machine `Net`): a vector
shipped by a fast rank can be appended to a slow rank's local bag BEFORE that rank pops / swaps
out, and is then popped / re-sent by it.  Theorems quantify over all of them.

Core Lean only (the driver links this file).
-/
namespace YgmVerif.BagOps
open YgmVerif.Part

structure Msg (α : Type) where
  dest : Nat
  items : List α

structure Bag (α : Type) where
  ranks : Nat
  bags : List (List α)
  rr : List Nat

/-- constructor: empty local bags, round-robin counters 0 -/
def empty {α : Type} (ranks : Nat) : Bag α :=
  { ranks := ranks, bags := List.replicate ranks [], rr := List.replicate ranks 0 }

def WF {α : Type} (b : Bag α) : Prop := b.bags.length = b.ranks

/-- all items of the distributed bag, rank after rank -/
def items {α : Type} (b : Bag α) : List α := b.bags.flatten

def sizes {α : Type} (b : Bag α) : List Nat := b.bags.map List.length

/-- `size()` -/
def total {α : Type} (b : Bag α) : Nat := (sizes b).sum

/-- the remote lambda: append `m.items` to `m_local_bag` of `m.dest` -/
def deliver {α : Type} (b : Bag α) (m : Msg α) : Option (Bag α) :=
  if m.dest < b.bags.length then some { b with bags := b.bags.modify m.dest (· ++ m.items) } else none

/-- messages executed in the given order -/
def deliverAll {α : Type} (b : Bag α) : List (Msg α) → Option (Bag α)
  | [] => some b
  | m :: ms => (deliver b m).bind (fun b' => deliverAll b' ms)

/-- `async_insert(item)` on rank `src`: `dest = (m_round_robin++ + rank) % size` -/
def insertRR {α : Type} (b : Bag α) (src : Nat) (x : α) : Bag α × Msg α :=
  ({ b with rr := b.rr.modify src (· + 1) }, { dest := ((b.rr.getD src 0) + src) % b.ranks, items := [x] })

/-- `async_insert(item, dest)` -/
def insertTo {α : Type} (dest : Nat) (x : α) : Msg α := { dest := dest, items := [x] }

/-- `async_insert(vector, dest)` -/
def insertVec {α : Type} (dest : Nat) (xs : List α) : Msg α := { dest := dest, items := xs }

/-- reorder `ms` by a list of positions -/
def reorder {γ : Type} (ms : List γ) (sched : List Nat) : List γ := sched.filterMap (ms[·]?)

/-- deliver `ms` in the order `sched`, which must be a permutation of the positions of `ms` -/
def deliverSched {α : Type} (b : Bag α) (ms : List (Msg α)) (sched : List Nat) : Option (Bag α) :=
  if sched.isPerm (List.range ms.length) then deliverAll b (reorder ms sched) else none

/-! ### rebalance -/

/-- `ygm::prefix_sum(local_size())`: MPI_Exscan, rank 0 gets 0 -/
def prefixOf (szs : List Nat) (r : Nat) : Nat := (szs.take r).sum

/-- number of the positions `pre, …, pre+sz-1` whose target rank is `t` -/
def cntT (tot ranks pre sz t : Nat) : Nat :=
  ((List.range sz).filter (fun i => rebalanceTarget tot ranks (pre + i) == some t)).length

/-- `to_send[t]` of rank `r` (`if (target_rank != rank) to_send[target_rank]++`) -/
def sendCount (tot ranks pre sz r t : Nat) : Nat := if t = r then 0 else cntT tot ranks pre sz t

/-- some target computation of this rank traps -/
def traps (tot ranks pre sz : Nat) : Bool :=
  (List.range sz).any (fun i => (rebalanceTarget tot ranks (pre + i)).isNone)

/-- the keys of `to_send`, in increasing order (the code iterates an `unordered_map`: any
permutation of this list is possible) -/
def sendKeys (tot ranks pre sz r : Nat) : List Nat :=
  (List.range ranks).filter (fun t => sendCount tot ranks pre sz r t > 0)

/-- `local_pop(n)`: (what stays, the last `n` items) -/
def localPop {α : Type} (l : List α) (n : Nat) : Option (List α × List α) :=
  if n ≤ l.length then some (l.take (l.length - n), l.drop (l.length - n)) else none

/-- the sends of one rank in `global_shuffle`: item `k` of the swapped-out local bag goes to `ds[k]` -/
def shuffleMsgs {α : Type} (l : List α) (ds : List Nat) : Option (List (Msg α)) :=
  if ds.length = l.length then some (List.zipWith (fun x d => { dest := d, items := [x] }) l ds) else none

/-! #### the interleaving machine

After the barrier inside `rebalance` / `global_shuffle` every rank performs its local actions
(`async_insert(local_pop(n), t)` for each key of `to_send`; or swap the local bag out and send every
item to a drawn rank) while messages of ranks that were faster are already being executed on it. -/

/-- a local action a rank still has to perform -/
inductive Act where
  | pop (t n : Nat)    -- `async_insert(local_pop(n), t)`
  | shuf               -- `std::swap(old, m_local_bag)`; one `async(distrib(r), send_item, item)` per item

def Act.size : Act → Nat
  | .pop _ n => n
  | .shuf => 0

def Act.goesTo (r : Nat) : Act → Bool
  | .pop t _ => t == r
  | .shuf => false

def Act.isPop : Act → Bool
  | .pop _ _ => true
  | .shuf => false

inductive Ev where
  | act (s : Nat) (ds : List Nat)   -- rank `s` performs its next action (`ds`: the ranks it draws, for `shuf`)
  | recv (k : Nat)                  -- the in-flight message number `k` is executed on its destination

structure Net (α : Type) where
  bags : List (List α)
  todo : List (List Act)
  flight : List (Msg α)

def Net.step {α : Type} (st : Net α) : Ev → Option (Net α)
  | .act s ds =>
    match st.todo[s]?, st.bags[s]? with
    | some (.pop t n :: rest), some l =>
      (localPop l n).map (fun p =>
        { bags := st.bags.set s p.1, todo := st.todo.set s rest, flight := st.flight ++ [{ dest := t, items := p.2 }] })
    | some (.shuf :: rest), some l =>
      (shuffleMsgs l ds).map (fun ms =>
        { bags := st.bags.set s [], todo := st.todo.set s rest, flight := st.flight ++ ms })
    | _, _ => none
  | .recv k =>
    match st.flight[k]? with
    | some m =>
      if m.dest < st.bags.length then
        some { st with bags := st.bags.modify m.dest (· ++ m.items), flight := st.flight.eraseIdx k }
      else none
    | none => none

def Net.run {α : Type} (st : Net α) : List Ev → Option (Net α)
  | [] => some st
  | e :: es => (st.step e).bind (fun st' => st'.run es)

/-- every rank has performed all its actions and every message has been executed (what the closing
barrier waits for) -/
def Net.done {α : Type} (st : Net α) : Bool := st.todo.all (·.isEmpty) && st.flight.isEmpty

/-- rank `r`'s actions in `rebalance`, for the iteration order `ord` of its `to_send` -/
def rebalanceActs (tot ranks pre sz r : Nat) (ord : List Nat) : List Act :=
  ord.map (fun t => Act.pop t (sendCount tot ranks pre sz r t))

/-- `ords[r]` is a possible iteration order of rank `r`'s `to_send` and no target computation traps -/
def rebalanceOk {α : Type} (b : Bag α) (ords : List (List Nat)) : Bool :=
  (List.range b.ranks).all (fun r =>
    !(traps (total b) b.ranks (prefixOf (sizes b) r) (b.bags.getD r []).length) &&
    (ords.getD r []).isPerm (sendKeys (total b) b.ranks (prefixOf (sizes b) r) (b.bags.getD r []).length r))

def rebalanceInit {α : Type} (b : Bag α) (ords : List (List Nat)) : Net α :=
  { bags := b.bags,
    todo := (List.range b.ranks).map (fun r =>
      rebalanceActs (total b) b.ranks (prefixOf (sizes b) r) (b.bags.getD r []).length r (ords.getD r [])),
    flight := [] }

/-- `rebalance()`; `ords[r]` = iteration order of rank `r`'s `to_send`, `evs` = interleaving of the
ranks' pops and of the executions of the shipped vectors -/
def rebalance {α : Type} (b : Bag α) (ords : List (List Nat)) (evs : List Ev) : Option (Bag α) :=
  if rebalanceOk b ords then
    match (rebalanceInit b ords).run evs with
    | some st => if st.done then some { b with bags := st.bags } else none
    | none => none
  else none

/-! the block-size expression of bag.ipp as found in the tree (D4) -/
def largePinned (tot ranks : Nat) : Nat := tot / ranks + (if tot / ranks > 0 then 1 else 0)
def targetPinned (tot ranks idx : Nat) : Option Nat :=
  if idx < (tot % ranks) * largePinned tot ranks then cdiv idx (largePinned tot ranks)
  else (cdiv (idx - (tot % ranks) * largePinned tot ranks) (tot / ranks)).map (tot % ranks + ·)

/-! ### shuffles, swap, gather -/

/-- `local_shuffle` on rank `r`: `std::shuffle` leaves some rearrangement `new` of the local bag -/
def localShuffleAt {α : Type} [BEq α] (b : Bag α) (r : Nat) (new : List α) : Option (Bag α) :=
  match b.bags[r]? with
  | none => none
  | some old => if new.isPerm old then some { b with bags := b.bags.set r new } else none

/-- `global_shuffle`: every rank swaps its local bag out and sends each item to a drawn rank;
`evs` = interleaving of the swap-outs (with the drawn ranks) and of the executions of the sends -/
def globalShuffle {α : Type} (b : Bag α) (evs : List Ev) : Option (Bag α) :=
  match ({ bags := b.bags, todo := b.bags.map (fun _ => [Act.shuf]), flight := [] } : Net α).run evs with
  | some st => if st.done then some { b with bags := st.bags } else none
  | none => none

/-- `clear()` -/
def clear {α : Type} (b : Bag α) : Bag α := { b with bags := b.bags.map (fun _ => []) }

/-- `a.swap(b)`: the local bags are exchanged (the round-robin counters are not) -/
def swap {α : Type} (a b : Bag α) : Bag α × Bag α := ({ a with bags := b.bags }, { b with bags := a.bags })

/-- `gather_to_vector(dest)`: every rank sends its local bag to `dest`, which appends them in arrival
order `order`; result per rank -/
def gatherTo {α : Type} (b : Bag α) (dest : Nat) (order : List Nat) : Option (List (List α)) :=
  if dest < b.ranks ∧ order.isPerm (List.range b.ranks) then
    some ((List.range b.ranks).map (fun r => if r = dest then order.flatMap (fun s => b.bags.getD s []) else []))
  else none

/-- `gather_to_vector()`: gather to rank 0, then rank 0 broadcasts its result: all ranks hold the
same vector -/
def gatherAll {α : Type} (b : Bag α) (order : List Nat) : Option (List (List α)) :=
  (gatherTo b 0 order).map (fun res => List.replicate b.ranks (res.getD 0 []))

/-! ### one collective history (what the driver executes) -/

inductive Op (α : Type) where
  | insRR (src : Nat) (x : α)            -- async_insert(x) issued by rank src
  | insTo (src dest : Nat) (x : α)       -- async_insert(x, dest)
  | insVec (src dest : Nat) (xs : List α)
  | barrier (sched : List Nat)           -- pending inserts execute, in the order sched
  | rebalance (ords : List (List Nat)) (evs : List Ev)
  | lshuffle (r : Nat) (new : List α)
  | gshuffle (evs : List Ev)
  | clear

/-- state: the bag and the inserts issued but not yet executed -/
structure St (α : Type) where
  bag : Bag α
  pending : List (Msg α)

def step {α : Type} [BEq α] (s : St α) : Op α → Option (St α)
  | .insRR src x => let p := insertRR s.bag src x; some { bag := p.1, pending := s.pending ++ [p.2] }
  | .insTo _ d x => some { s with pending := s.pending ++ [insertTo d x] }
  | .insVec _ d xs => some { s with pending := s.pending ++ [insertVec d xs] }
  | .barrier sched => (deliverSched s.bag s.pending sched).map (fun b => { bag := b, pending := [] })
  | .rebalance ords evs => if s.pending.isEmpty then (rebalance s.bag ords evs).map (fun b => { s with bag := b }) else none
  | .lshuffle r new => if s.pending.isEmpty then (localShuffleAt s.bag r new).map (fun b => { s with bag := b }) else none
  | .gshuffle evs => if s.pending.isEmpty then (globalShuffle s.bag evs).map (fun b => { s with bag := b }) else none
  | .clear => if s.pending.isEmpty then some { s with bag := clear s.bag } else none

/-- items an operation adds to the bag -/
def Op.inserted {α : Type} : Op α → List α
  | .insRR _ x => [x] | .insTo _ _ x => [x] | .insVec _ _ xs => xs | _ => []

def isClear {α : Type} : Op α → Bool | .clear => true | _ => false

def stepAll {α : Type} [BEq α] (s : St α) : List (Op α) → Option (St α)
  | [] => some s
  | o :: os => (step s o).bind (fun s' => stepAll s' os)

/-! ### tagged_bag -/

def tagBits : Nat := 40

/-- the tag returned by the insert number `serial` (from 0) of rank `r`:
`m_next_tag = size_t(rank) << 40`, then `m_next_tag++`, in 64-bit arithmetic -/
def tag (r serial : Nat) : Nat := ((r <<< tagBits) + serial) % 2 ^ 64

/-- tagged_bag: per-rank number of inserts so far, and the underlying `map<tag, item>` as an
association list (`async_insert_unique`: an existing key is overwritten) -/
structure TBag (α : Type) where
  next : List Nat
  store : List (Nat × α)

def TBag.empty {α : Type} (ranks : Nat) : TBag α := { next := List.replicate ranks 0, store := [] }

def insertUnique {α : Type} (store : List (Nat × α)) (t : Nat) (x : α) : List (Nat × α) :=
  if store.any (fun p => p.1 == t) then store.map (fun p => if p.1 == t then (t, x) else p) else store ++ [(t, x)]

/-- `tagged_bag::async_insert` on rank `r`: returns the tag -/
def TBag.insert {α : Type} (tb : TBag α) (r : Nat) (x : α) : TBag α × Nat :=
  let t := tag r (tb.next.getD r 0)
  ({ next := tb.next.modify r (· + 1), store := insertUnique tb.store t x }, t)

/-- `async_visit_if_exists(tag, f)`; `async_visit(tag, f)` is the same on an existing tag (on a missing
tag it would default-construct an entry: not used through tags handed out by `insert`) -/
def TBag.visitIfExists {α : Type} (tb : TBag α) (t : Nat) (f : α → α) : TBag α :=
  { tb with store := tb.store.map (fun p => if p.1 == t then (p.1, f p.2) else p) }

def TBag.erase {α : Type} (tb : TBag α) (t : Nat) : TBag α :=
  { tb with store := tb.store.filter (fun p => !(p.1 == t)) }

/-- `local_get(tag)` on the owner / `all_gather({tag})` -/
def TBag.get {α : Type} (tb : TBag α) (t : Nat) : List α :=
  (tb.store.filter (fun p => p.1 == t)).map (·.2)

/-- `tagged_bag::swap`: exchanges the contents (`m_tagged_bag.swap`) AND the tag counters
(`std::swap(m_next_tag, s.m_next_tag)`) on every rank -/
def TBag.swap {α : Type} (a b : TBag α) : TBag α × TBag α :=
  ({ next := b.next, store := b.store }, { next := a.next, store := a.store })

/-- a swap that forgets the counters (not the code; used to show that exchanging them is necessary) -/
def TBag.swapStoreOnly {α : Type} (a b : TBag α) : TBag α × TBag α :=
  ({ next := a.next, store := b.store }, { next := b.next, store := a.store })

/-- the rank holding a tag: `std::hash<size_t>` is the identity in libstdc++ (parameter `h`) -/
def tagOwner (h : Nat → Nat) (t ranks : Nat) : Nat := hashOwner (h t) ranks

end YgmVerif.BagOps
