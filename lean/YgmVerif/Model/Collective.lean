import YgmVerif.Model.DistComm
/-
Collective container operations — `clear()`, `swap()`, `serialize()`, `deserialize()` of the ygm containers — on top of the
joint messaging model `YgmVerif.Comm` (message movement × count-based multi-epoch barrier).

In the code a collective operation is

    m_comm.barrier();                 -- the existing barrier: barrier number `E` of every rank
    <local mutation / local read>     -- `localStep r`: m_local_map.clear(), std::swap(...), write / load the rank's file
    m_comm.cf_barrier();              -- ONLY in the repaired tree (`repaired = true`): MPI_Barrier

Program points of rank r: the `Comm` labels `enter r … exit r` of its barrier number `E` (nothing new), then `localStep r`
(atomic, main context), then — repaired variant — `cfEnter r`, `cfExit r`.  `cfExit r` is enabled only when every rank has
done `cfEnter` (MPI_Barrier: nobody leaves before everybody has entered).

Between its `exit` of barrier `E` and its return from the collective (`localStep` in the old variant, `cfExit` in the
repaired one) a rank executes no communicator code at all — the statements follow each other in `clear()` etc., and
MPI_Barrier runs no ygm handler —: `frozen r`, every `Comm` label of rank r is refused.  A rank that has NOT yet taken its
`exit` is inside `barrier()`, whose loop keeps polling and running handlers between reduction rounds (comm.ipp); `BarrierME`
allows `start` / `finish` for it, and so does this model.

`Comm.step` is CALLED as it is.  Ghost data: the container memory `mem` (changed by `execEnd q u`, which applies `opOf u`, and
by `localStep q`, which applies `loc q`), the messages issued by ranks that had not / had returned from the collective
(`pre` / `late`), the handler executions on ranks that had not / had done their local step (`execPre` / `execPost`).

Executable, core Lean only.
-/
namespace YgmVerif.Collective
open YgmVerif
open YgmVerif.Barrier (upd)

structure Par (σ Op Cb : Type) where
  n : Nat
  nh : Nat → Nat → Nat
  /-- the barrier inside the collective is barrier number `E` of every rank -/
  E : Nat
  /-- the closing control-flow barrier is present -/
  repaired : Bool
  cont : Dist.Container σ Op Cb
  opOf : Nat → Op
  /-- the local mutation / read of rank r (`clear`: everything away; `swap`: exchange the two halves; …) -/
  loc : Nat → σ → σ
  /-- initial container memory -/
  g : Nat → σ

inductive Label where
  | comm (l : Comm.Label)
  | localStep (r : Nat)
  | cfEnter (r : Nat)
  | cfExit (r : Nat)
  deriving Repr

structure St (σ : Type) where
  c : Comm.St
  done : Nat → Bool
  cfIn : Nat → Bool
  cfOut : Nat → Bool
  mem : Nat → σ
  pre : List Comm.Msg
  late : List Comm.Msg
  execPre : List (Nat × Nat)
  execPost : List (Nat × Nat)

variable {σ Op Cb : Type}

def init (P : Par σ Op Cb) : St σ :=
  { c := Comm.init, done := fun _ => false, cfIn := fun _ => false, cfOut := fun _ => false, mem := P.g,
    pre := [], late := [], execPre := [], execPost := [] }

/-- the rank a `Comm` label belongs to -/
def commRank : Comm.Label → Nat
  | .async r _ _ _ => r
  | .isend r _ => r
  | .recvBegin r _ _ => r
  | .fwd r _ => r
  | .recvEnd r => r
  | .execBegin r _ => r
  | .execEnd r _ => r
  | .regcb r => r
  | .runcb r _ _ => r
  | .enter r => r
  | .contribute r => r
  | .result r => r
  | .exit r => r

/-- the collective has returned on rank r -/
def returned (P : Par σ Op Cb) (S : St σ) (r : Nat) : Bool := if P.repaired then S.cfOut r else S.done r

/-- rank r has left barrier `E` and the collective has not returned on it: it runs no communicator code -/
def frozen (P : Par σ Op Cb) (S : St σ) (r : Nat) : Bool := decide (P.E < S.c.b.epoch r) && !returned P S r

def guard (P : Par σ Op Cb) (S : St σ) : Label → Bool
  | .comm l => decide (commRank l < P.n) && !frozen P S (commRank l)
  | .localStep r => decide (r < P.n) && decide (P.E < S.c.b.epoch r) && !S.done r && !S.c.b.busy r
  | .cfEnter r => P.repaired && decide (r < P.n) && S.done r && !S.cfIn r
  | .cfExit r => P.repaired && decide (r < P.n) && S.cfIn r && !S.cfOut r && (List.range P.n).all S.cfIn

/-- the container memory after the handler executions a label records -/
def memAfter (P : Par σ Op Cb) (mem : Nat → σ) (l : Comm.Label) : Nat → σ :=
  (DistComm.execRec l).foldl (fun m p => upd m p.1 (P.cont.apply (m p.1) (P.opOf p.2)).1) mem

def step (P : Par σ Op Cb) (S : St σ) (l : Label) : Option (St σ) :=
  if guard P S l then
    match l with
    | .comm l0 =>
      match Comm.step P.n P.nh S.c l0 with
      | none => none
      | some c' =>
        some { S with
          c := c'
          mem := memAfter P S.mem l0
          pre := if returned P S (commRank l0) then S.pre else S.pre ++ Comm.issued l0
          late := if returned P S (commRank l0) then S.late ++ Comm.issued l0 else S.late
          execPre := S.execPre ++ (DistComm.execRec l0).filter (fun p => !S.done p.1)
          execPost := S.execPost ++ (DistComm.execRec l0).filter (fun p => S.done p.1) }
    | .localStep r => some { S with done := upd S.done r true, mem := upd S.mem r (P.loc r (S.mem r)) }
    | .cfEnter r => some { S with cfIn := upd S.cfIn r true }
    | .cfExit r => some { S with cfOut := upd S.cfOut r true }
  else none

def run (P : Par σ Op Cb) (S : St σ) : List Label → Option (St σ)
  | [] => some S
  | l :: ls => match step P S l with
    | none => none
    | some S' => run P S' ls

/-- the operations of the handler executions recorded for rank q, in execution order -/
def opsOn (P : Par σ Op Cb) (L : List (Nat × Nat)) (q : Nat) : List Op :=
  (L.filter (fun p => p.1 == q)).map (fun p => P.opOf p.2)

def fold (P : Par σ Op Cb) (s : σ) (ops : List Op) : σ := ops.foldl (fun st op => (P.cont.apply st op).1) s

/-- what rank q holds when the operations executed after its local step are taken away: the fold of the operations
executed before the local step, with the local mutation applied on top once it has happened -/
def base (P : Par σ Op Cb) (S : St σ) (q : Nat) : σ :=
  if S.done q then P.loc q (fold P (P.g q) (opsOn P S.execPre q)) else fold P (P.g q) (opsOn P S.execPre q)

/-- some rank has left barrier `E` -/
def opened (P : Par σ Op Cb) (S : St σ) : Prop := ∃ r, r < P.n ∧ P.E < S.c.b.epoch r

end YgmVerif.Collective
