/-
Model of the direct-mapped write-combining cache in front of `counting_set`
(counting_set.hpp: cache_insert / count_cache_flush / count_cache_flush_all /
m_cache_empty) and of `reducing_adapter` (reducing_adapter.hpp: cache_reduce /
cache_flush / cache_flush_all / owner bypass), in the REPAIRED statement order

    flush(slot):  copy the entry out; free the slot; send the copy
    insert(k,v):  register the pre-barrier callback if none is registered;
                  while (slot holds a different key) flush(slot);
                  occupy or combine; (counting_set: flush when the count is full)
    flush_all():  mark "no callback registered"; for every slot in order: flush

`YgmVerif.PinnedCache` is the same machine with the statement order of the pinned tree.

The model is a labelled transition system of ONE rank at statement granularity.
A container call that is inside `comm::async` is a `Frame` on a stack: `comm::async`
may run other message handlers before it packs its arguments
(`check_if_production_halt_required`) and after it packed them (`flush_to_capacity →
flush_send_buffer → process_receive_queue`), and such a handler may call back into the
same container (label `ins` while a frame is on the stack).  The labels are exactly
what a run of the real code shows (harness events + the comm hooks):

    ins k v   async_insert / async_reduce / a forwarded partial value begins (any context)
    pack      comm::async serialises the message of the innermost call
    ret       that comm::async returns
    done      the innermost insert returns
    fb / fe   the pre-barrier callback (flush_all) begins / returns
    bar       `barrier()` returns on this rank: enabled only when no container call is active
              and no callback is registered (comm.ipp: the barrier loop runs the callbacks
              until none is left and asserts `m_pre_barrier_callbacks.empty()`)

Executable, core Lean only.
-/
namespace YgmVerif.Cache

abbrev Key := Nat

/-- a message handed to `comm::async`: `toContainer = true` is an operation on the
target container executed by the owner (counting_set: `async_visit` adding the count;
adapter: `async_reduce` / `async_binary_op_update_value` after the owner bypass),
`false` is the adapter's own "cache_reduce at the next hop" message -/
structure Msg (V : Type) where
  toContainer : Bool
  key : Key
  val : V
  deriving Repr, DecidableEq

structure Cfg (V : Type) where
  /-- `count_cache_size` / `cache_size` (2^20 in the code) -/
  nslots : Nat
  /-- counting_set: `+` on counts; adapter: the user's reducer, called as `op cached new` -/
  op : V → V → V
  /-- counting_set: `count == INT32_MAX` forces a flush; adapter: never -/
  full : V → Bool
  /-- counting_set flushes straight into its map (`true`); the adapter flushes to the
  adapter instance of the next NLNR hop (`false`) -/
  direct : Bool
  /-- adapter: `comm().rank() == owner(key)` bypasses the cache; counting_set: never -/
  isOwner : Key → Bool

/-- `std::hash(key) % cache_size` (the hash of the integer keys used is the identity) -/
def slot {V} (cfg : Cfg V) (k : Key) : Nat := k % cfg.nslots

/-! ### the slot array, sparse: association list slot ↦ (key, value); absent = free -/

abbrev CMap (V : Type) := List (Nat × (Key × V))

def CMap.get {V} : CMap V → Nat → Option (Key × V)
  | [], _ => none
  | (t, e) :: c, s => if t = s then some e else CMap.get c s

def CMap.clear {V} (c : CMap V) (s : Nat) : CMap V := c.filter (fun p => p.1 ≠ s)

def CMap.set {V} (c : CMap V) (s : Nat) (e : Key × V) : CMap V := (s, e) :: c.clear s

/-- least occupied slot `s` with `i ≤ s < n` (the next iteration of the flush-all loop
that finds `occupied` / `count > 0`) -/
def nextOcc {V} : CMap V → Nat → Nat → Option Nat
  | [], _, _ => none
  | (s, _) :: c, i, n =>
    let r := nextOcc c i n
    if i ≤ s ∧ s < n then
      match r with
      | none => some s
      | some b => some (min b s)
    else r

/-! ### frames -/

/-- where the `comm::async` of a frame stands -/
inductive Phase (V : Type) where
  /-- entry copied out, slot freed, `comm::async` called, arguments not yet packed -/
  | pend (m : Msg V)
  /-- arguments packed, `comm::async` has not returned -/
  | sent
  /-- no send in progress, the call is about to return -/
  | fin
  deriving Repr, DecidableEq

inductive Frame (V : Type) where
  /-- insert of `(k, v)` inside the eviction loop; `(k, v)` is not in the cache yet -/
  | ins (k : Key) (v : V) (ph : Phase V)
  /-- insert after its value entered the cache (overflow flush, or finished) or on the
  owner-bypass path (the container operation is being sent, or finished) -/
  | tail (ph : Phase V)
  /-- flush-all loop; `i` = next slot index to look at -/
  | fall (i : Nat) (ph : Phase V)
  deriving Repr, DecidableEq

def Frame.phase {V} : Frame V → Phase V
  | .ins _ _ ph => ph
  | .tail ph => ph
  | .fall _ ph => ph

def Frame.setPhase {V} : Frame V → Phase V → Frame V
  | .ins k v _, ph => .ins k v ph
  | .tail _, ph => .tail ph
  | .fall i _, ph => .fall i ph

structure St (V : Type) where
  cache : CMap V
  /-- a flush-all callback is registered with the communicator (`!m_cache_empty`) -/
  reg : Bool
  /-- innermost call first -/
  stack : List (Frame V)
  deriving Repr, DecidableEq

def St.init {V} : St V := { cache := [], reg := false, stack := [] }

inductive Label (V : Type) where
  | ins (k : Key) (v : V)
  | pack
  | ret
  | done
  | fb
  | fe
  | bar
  deriving Repr

/-- after the eviction loop: occupy the free slot or combine with the cached value of
the same key; counting_set then flushes a full counter -/
def enter {V} (cfg : Cfg V) (c : CMap V) (k : Key) (w : V) : CMap V × Frame V :=
  if cfg.full w then (c.clear (slot cfg k), .tail (.pend ⟨cfg.direct, k, w⟩))
  else (c.set (slot cfg k) (k, w), .tail .fin)

/-- head of `while (slot holds a different key) flush(slot);` followed by occupy/combine -/
def insLoop {V} (cfg : Cfg V) (c : CMap V) (k : Key) (v : V) : CMap V × Frame V :=
  match c.get (slot cfg k) with
  | none => enter cfg c k v
  | some (k', v') =>
    if k' = k then enter cfg c k (cfg.op v' v)
    else (c.clear (slot cfg k), .ins k v (.pend ⟨cfg.direct, k', v'⟩))

/-- head of the flush-all loop at index `i` -/
def fallLoop {V} (cfg : Cfg V) (c : CMap V) (i : Nat) : CMap V × Frame V :=
  match nextOcc c i cfg.nslots with
  | none => (c, .fall cfg.nslots .fin)
  | some j =>
    match c.get j with
    | none => (c, .fall cfg.nslots .fin)        -- unreachable (nextOcc_some)
    | some (k, v) => (c.clear j, .fall (j + 1) (.pend ⟨cfg.direct, k, v⟩))

/-- a handler (or the main program) can call into the container when no container call
is active or the innermost one is inside `comm::async` -/
def canEnter {V} : List (Frame V) → Bool
  | [] => true
  | f :: _ => match f.phase with
    | .fin => false
    | _ => true

/-- the message `pack` serialises -/
def pending {V} (s : St V) : Option (Msg V) :=
  match s.stack with
  | f :: _ => match f.phase with
    | .pend m => some m
    | _ => none
  | [] => none

def step {V} (cfg : Cfg V) (s : St V) : Label V → Option (St V)
  | .ins k v =>
    if canEnter s.stack then
      if cfg.isOwner k then
        some { s with stack := .tail (.pend ⟨true, k, v⟩) :: s.stack }
      else
        let (c, f) := insLoop cfg s.cache k v
        some { cache := c, reg := true, stack := f :: s.stack }
    else none
  | .pack =>
    match s.stack with
    | f :: rest =>
      match f.phase with
      | .pend _ => some { s with stack := f.setPhase .sent :: rest }
      | _ => none
    | [] => none
  | .ret =>
    match s.stack with
    | .ins k v .sent :: rest =>
      let (c, f) := insLoop cfg s.cache k v
      some { s with cache := c, stack := f :: rest }
    | .tail .sent :: rest => some { s with stack := .tail .fin :: rest }
    | .fall i .sent :: rest =>
      let (c, f) := fallLoop cfg s.cache i
      some { s with cache := c, stack := f :: rest }
    | _ => none
  | .done =>
    match s.stack with
    | .tail .fin :: rest => some { s with stack := rest }
    | _ => none
  | .fb =>
    if s.stack.isEmpty ∧ s.reg then
      let (c, f) := fallLoop cfg s.cache 0
      some { cache := c, reg := false, stack := [f] }
    else none
  | .fe =>
    match s.stack with
    | .fall _ .fin :: rest => some { s with stack := rest }
    | _ => none
  | .bar => if s.stack.isEmpty ∧ s.reg = false then some s else none

/-- run a label sequence; `none` = some label was not enabled -/
def run {V} (cfg : Cfg V) : St V → List (Label V) → Option (St V)
  | s, [] => some s
  | s, l :: ls => match step cfg s l with
    | none => none
    | some s' => run cfg s' ls

/-- the messages packed along a run (oldest first) -/
def emitted {V} (cfg : Cfg V) : St V → List (Label V) → List (Msg V)
  | _, [] => []
  | s, l :: ls =>
    match step cfg s l with
    | none => []
    | some s' =>
      match l, pending s with
      | .pack, some m => m :: emitted cfg s' ls
      | _, _ => emitted cfg s' ls

/-- the contributions that entered along a run (oldest first) -/
def received {V} : List (Label V) → List (Key × V)
  | [] => []
  | .ins k v :: ls => (k, v) :: received ls
  | _ :: ls => received ls

/-! ### what a rank holds for a key: a commutative-monoid view

`Option V` with `none` as unit, so that no unit of `op` is needed. -/

def omerge {V} (op : V → V → V) : Option V → Option V → Option V
  | none, y => y
  | x, none => x
  | some a, some b => some (op a b)

/-- total of a list of optional values -/
def ototal {V} (op : V → V → V) : List (Option V) → Option V
  | [] => none
  | a :: l => omerge op a (ototal op l)

/-- total of a list of values -/
def total {V} (op : V → V → V) : List V → Option V
  | [] => none
  | a :: l => omerge op (some a) (total op l)

def valsOf {V} (k : Key) (l : List (Key × V)) : List V :=
  (l.filter (fun p => p.1 = k)).map (·.2)

def msgValsOf {V} (k : Key) (l : List (Msg V)) : List V :=
  (l.filter (fun m => m.key = k)).map (·.val)

def cachedOf {V} (nslots : Nat) (c : CMap V) (k : Key) : Option V :=
  match c.get (k % nslots) with
  | some (k', v) => if k' = k then some v else none
  | none => none

def phaseHeld {V} (k : Key) : Phase V → Option V
  | .pend m => if m.key = k then some m.val else none
  | _ => none

def frameHeld {V} (op : V → V → V) (k : Key) : Frame V → Option V
  | .ins k' v ph => omerge op (if k' = k then some v else none) (phaseHeld k ph)
  | .tail ph => phaseHeld k ph
  | .fall _ ph => phaseHeld k ph

def stackHeld {V} (op : V → V → V) (k : Key) : List (Frame V) → Option V
  | [] => none
  | f :: fs => omerge op (frameHeld op k f) (stackHeld op k fs)

/-- everything rank-local that belongs to key `k`: the cached partial value, entries
copied out but not yet packed, and contributions whose insert has not yet occupied a slot -/
def held {V} (cfg : Cfg V) (s : St V) (k : Key) : Option V :=
  omerge cfg.op (cachedOf cfg.nslots s.cache k) (stackHeld cfg.op k s.stack)

/-- no slot is occupied -/
def cacheEmpty {V} (c : CMap V) : Prop := ∀ s, c.get s = none

instance {V} (c : CMap V) : Decidable (cacheEmpty c) :=
  match c with
  | [] => isTrue (fun _ => rfl)
  | (t, e) :: _ => isFalse (fun h => by have := h t; simp [CMap.get] at this)

/-- quiescent: no container call active, nothing cached, no callback registered — the
state the pre-barrier callback loop of `barrier()` leaves behind -/
def quiet {V} (s : St V) : Prop := s.stack = [] ∧ cacheEmpty s.cache

/-! ### owner side of counting_set: `m_map.async_visit(key, count += to_add, cached_count)` -/

/-- `count(k)` after the messages `ms` have been executed (in any order) -/
def ownerCount (ms : List (Msg Nat)) (k : Key) : Nat := (msgValsOf k ms).sum

/-- `count_all()` -/
def ownerCountAll (ms : List (Msg Nat)) : Nat := (ms.map (·.val)).sum

/-- the distinct elements of a list -/
def dedup : List Nat → List Nat
  | [] => []
  | a :: l => if a ∈ dedup l then dedup l else a :: dedup l

/-- keys with a map entry (`async_visit` creates the entry it visits): `size()` is its length -/
def ownerKeys (ms : List (Msg Nat)) : List Key := dedup (ms.map (·.key))

/-- the owner's map after executing the visits `ms` one after the other:
`visit_wrapper` inserts the default value 0 if the key is absent, the visitor adds `to_add` -/
def visitAll : List (Msg Nat) → Key → Option Nat
  | [], _ => none
  | m :: ms, k =>
    if m.key = k then some ((visitAll ms k).getD 0 + m.val) else visitAll ms k

/-- configuration of the counting_set count cache -/
def csetCfg (nslots : Nat) : Cfg Nat :=
  { nslots := nslots, op := (· + ·), full := fun c => c == 2147483647, direct := true,
    isOwner := fun _ => false }

/-- configuration of a reducing adapter on rank `me` -/
def adapterCfg {V} (nslots : Nat) (op : V → V → V) (owner : Key → Nat) (me : Nat) : Cfg V :=
  { nslots := nslots, op := op, full := fun _ => false, direct := false,
    isOwner := fun k => owner k == me }

/-! ### the system of all ranks (reducing adapter) -/

/-- `comm_router::next_hop(dest, NLNR)` on rank `me` of a layout with `p` ranks per node
(block placement: rank `r` is on node `r / p` with on-node index `r % p`) -/
def nlnrHop (p me dest : Nat) : Nat :=
  if me / p = dest / p then dest
  else
    let ch := (dest / p + me / p) % p
    let localCommRank := (me / p) * p + ch
    if me = localCommRank then (dest / p) * p + me % p else localCommRank

structure Net (V : Type) where
  ranks : List (St V)
  /-- packed messages not yet executed: (destination rank, message) -/
  flight : List (Nat × Msg V)
  /-- target container, all owners together: key ↦ value -/
  stored : List (Key × V)

structure NetCfg (V : Type) where
  nslots : Nat
  op : V → V → V
  owner : Key → Nat
  /-- next hop from a rank towards an owner -/
  nh : Nat → Nat → Nat

def NetCfg.at {V} (nc : NetCfg V) (r : Nat) : Cfg V := adapterCfg nc.nslots nc.op nc.owner r

/-- destination of a message packed on rank `r` -/
def NetCfg.dest {V} (nc : NetCfg V) (r : Nat) (m : Msg V) : Nat :=
  if m.toContainer then nc.owner m.key else nc.nh r (nc.owner m.key)

/-- `async_reduce` on a map / `async_binary_op_update_value` on an array at the owner -/
def storeReduce {V} (op : V → V → V) : List (Key × V) → Key → V → List (Key × V)
  | [], k, v => [(k, v)]
  | (k', w) :: l, k, v => if k' = k then (k', op w v) :: l else (k', w) :: storeReduce op l k v

def storedOf {V} (k : Key) : List (Key × V) → Option V
  | [] => none
  | (k', w) :: l => if k' = k then some w else storedOf k l

inductive NetLabel (V : Type) where
  /-- the program (main context or a user handler) calls `async_reduce(k, v)` on rank `r` -/
  | user (r : Nat) (k : Key) (v : V)
  /-- the `i`-th message in flight is executed by its destination -/
  | deliver (i : Nat)
  /-- a local label other than `ins` on rank `r` -/
  | loc (r : Nat) (l : Label V)

def netStep {V} (nc : NetCfg V) (n : Net V) : NetLabel V → Option (Net V)
  | .user r k v =>
    match n.ranks[r]? with
    | none => none
    | some s =>
      match step (nc.at r) s (.ins k v) with
      | none => none
      | some s' => some { n with ranks := n.ranks.set r s' }
  | .deliver i =>
    match n.flight[i]? with
    | none => none
    | some (d, m) =>
      if m.toContainer then
        some { n with flight := n.flight.eraseIdx i, stored := storeReduce nc.op n.stored m.key m.val }
      else
        match n.ranks[d]? with
        | none => none
        | some s =>
          match step (nc.at d) s (.ins m.key m.val) with
          | none => none
          | some s' => some { n with ranks := n.ranks.set d s', flight := n.flight.eraseIdx i }
  | .loc _ (.ins _ _) => none
  | .loc r l =>
    match n.ranks[r]? with
    | none => none
    | some s =>
      match step (nc.at r) s l with
      | none => none
      | some s' =>
        match l, pending s with
        | .pack, some m =>
          some { n with ranks := n.ranks.set r s', flight := (nc.dest r m, m) :: n.flight }
        | _, _ => some { n with ranks := n.ranks.set r s' }

/-- the values the program contributed along a run (oldest first) -/
def userContribs {V} : List (NetLabel V) → List (Key × V)
  | [] => []
  | .user _ k v :: ls => (k, v) :: userContribs ls
  | _ :: ls => userContribs ls

def netRun {V} (nc : NetCfg V) : Net V → List (NetLabel V) → Option (Net V)
  | n, [] => some n
  | n, l :: ls => match netStep nc n l with
    | none => none
    | some n' => netRun nc n' ls

def Net.init {V} (nranks : Nat) (stored : List (Key × V)) : Net V :=
  { ranks := List.replicate nranks St.init, flight := [], stored := stored }

/-- what all ranks hold for key `k` (cached, copied out, in progress) -/
def heldAll {V} (nc : NetCfg V) (ranks : List (St V)) (k : Key) : Option V :=
  ototal nc.op (ranks.map (fun s => held (nc.at 0) s k))

/-- what is in flight for key `k` -/
def flightTot {V} (nc : NetCfg V) (fl : List (Nat × Msg V)) (k : Key) : Option V :=
  total nc.op (msgValsOf k (fl.map (·.2)))

/-- everything the system holds for key `k`: stored ⊎ held on every rank ⊎ in flight -/
def netHeld {V} (nc : NetCfg V) (n : Net V) (k : Key) : Option V :=
  omerge nc.op (storedOf k n.stored) (omerge nc.op (heldAll nc n.ranks k) (flightTot nc n.flight k))

/-- all ranks idle with empty caches and nothing in flight -/
def netQuiet {V} (n : Net V) : Prop := (∀ s ∈ n.ranks, quiet s) ∧ n.flight = []

/-- the rank a partial value for owner `o` is on after `j` flushes, starting on rank `r` -/
def hopIter (nh : Nat → Nat → Nat) (o : Nat) : Nat → Nat → Nat
  | 0, r => r
  | j + 1, r => hopIter nh o j (nh r o)

/-- hops a partial value for an owner `o` takes from rank `r` (at most `fuel`) -/
def hopPath (nh : Nat → Nat → Nat) (o : Nat) : Nat → Nat → List Nat
  | 0, _ => []
  | fuel + 1, r => if r = o then [] else nh r o :: hopPath nh o fuel (nh r o)

end YgmVerif.Cache
