import YgmVerif.Model.Router
/-
Placement-generic model of `ygm::detail::layout` (layout.hpp) and of
`ygm::detail::comm_router::next_hop` (comm_router.hpp).

layout.hpp never computes a rank arithmetically: it builds lookup tables with
`MPI_Comm_split_type` / `MPI_Comm_split` / `MPI_Allgather`
  m_rank_to_node[r]   = node_id(r)   (rank of r inside the communicator of the ranks with r's local id)
  m_rank_to_local[r]  = local_id(r)  (rank of r inside its shared-memory communicator)
  m_local_ranks[j]    = the rank with local id j on my node
  m_strided_ranks[k]  = the rank with my local id on node k
and comm_router.hpp only reads those tables.  A `Placement` is exactly that data: the two
global tables and their inverse `rankOf node local` (from which the two per-rank tables are
read).  `Placement.WF` says that `(node_id, local_id)` is a bijection between the ranks
`[0, N*p)` and `[0, N) × [0, p)` with inverse `rankOf` — every placement of `N*p` ranks on `N`
nodes with `p` ranks each gives such tables.  `block` (rank r on node r / p) and `cyclic`
(rank r on node r % N, simmpi `SIMMPI_PLACEMENT=cyclic`) are the two instances the checks run.

Executable, core Lean only.
-/
namespace YgmVerif.RouterP
open YgmVerif.Router (Scheme)

structure Placement where
  /-- `layout::node_size()` -/
  N : Nat
  /-- `layout::local_size()` -/
  p : Nat
  /-- `layout::node_id(rank)` = `m_rank_to_node[rank]` -/
  nodeOf : Nat → Nat
  /-- `layout::local_id(rank)` = `m_rank_to_local[rank]` -/
  locOf : Nat → Nat
  /-- the rank with node id `a` and local id `i` (what the allgathers put into
  `m_strided_ranks` / `m_local_ranks`) -/
  rankOf : Nat → Nat → Nat

namespace Placement

/-- `layout::size()` -/
def size (P : Placement) : Nat := P.N * P.p

/-- `(node_id, local_id)` is a bijection `[0, N*p) ≃ [0, N) × [0, p)` with inverse `rankOf` -/
structure WF (P : Placement) : Prop where
  node_lt : ∀ r, r < P.size → P.nodeOf r < P.N
  loc_lt : ∀ r, r < P.size → P.locOf r < P.p
  rank_lt : ∀ a i, a < P.N → i < P.p → P.rankOf a i < P.size
  node_rank : ∀ a i, a < P.N → i < P.p → P.nodeOf (P.rankOf a i) = a
  loc_rank : ∀ a i, a < P.N → i < P.p → P.locOf (P.rankOf a i) = i
  rank_node_loc : ∀ r, r < P.size → P.rankOf (P.nodeOf r) (P.locOf r) = r

/-- `m_strided_ranks[k]` as seen on rank `me` -/
def strided (P : Placement) (me k : Nat) : Nat := P.rankOf k (P.locOf me)
/-- `m_local_ranks[j]` as seen on rank `me` -/
def localRank (P : Placement) (me j : Nat) : Nat := P.rankOf (P.nodeOf me) j
/-- `layout::is_local(rank)` evaluated on rank `me` -/
def isLocal (P : Placement) (me r : Nat) : Bool := P.nodeOf me == P.nodeOf r
/-- `layout::is_strided(rank)` evaluated on rank `me` -/
def isStrided (P : Placement) (me r : Nat) : Bool := P.locOf me == P.locOf r

def stridedTable (P : Placement) (me : Nat) : List Nat := (List.range P.N).map (P.strided me)
def localTable (P : Placement) (me : Nat) : List Nat := (List.range P.p).map (P.localRank me)
def rankToNode (P : Placement) : List Nat := (List.range P.size).map P.nodeOf
def rankToLocal (P : Placement) : List Nat := (List.range P.size).map P.locOf

/-- NLNR: `comm_channel_offset = (dest_node + m_layout.node_id()) % m_layout.local_size()` -/
def channel (P : Placement) (me d : Nat) : Nat := (P.nodeOf d + P.nodeOf me) % P.p

/-- `comm_router::next_hop(dest, route)` evaluated on rank `me` -/
def nextHop (P : Placement) (sch : Scheme) (me d : Nat) : Nat :=
  match sch with
  | .NONE => d
  | .NR => if P.isLocal me d then d else P.strided me (P.nodeOf d)
  | .NLNR =>
    if P.isLocal me d then d
    else
      let localCommRank := P.localRank me (P.channel me d)
      if me = localCommRank then P.strided me (P.nodeOf d) else localCommRank

/-- receivers of the successive sends after `cur` (see `Router.routeFrom`) -/
def routeFrom (P : Placement) (sch : Scheme) (d : Nat) : Nat → Nat → List Nat
  | 0, _ => []
  | fuel + 1, cur =>
    let h := P.nextHop sch cur d
    h :: (if h = d then [] else routeFrom P sch d fuel h)

/-- receivers of the successive MPI sends that carry a message from `s` to `d` -/
def route (P : Placement) (sch : Scheme) (s d : Nat) : List Nat :=
  P.routeFrom sch d Router.routeFuel s

/-- number of sends a message addressed to `d` still needs when it sits on rank `x` -/
def hopsLeft (P : Placement) (sch : Scheme) (x d : Nat) : Nat :=
  if x = d then 0 else (P.route sch x d).length

/-- a hop is off-node when sender and receiver have different node ids -/
def offNode (P : Placement) (h : Nat × Nat) : Bool := P.nodeOf h.1 != P.nodeOf h.2

/-- on/off-node pattern of a route (`true` = off-node hop) -/
def hopKinds (P : Placement) (s : Nat) (r : List Nat) : List Bool :=
  (Router.hops s r).map P.offNode

/-- the off-node (sender, receiver) pairs used for a message from `s` to `d` -/
def offHops (P : Placement) (sch : Scheme) (s d : Nat) : List (Nat × Nat) :=
  (Router.hops s (P.route sch s d)).filter P.offNode

end Placement

/-- block placement: rank `r` on node `r / p` with local id `r % p` -/
def block (N p : Nat) : Placement :=
  { N := N, p := p, nodeOf := fun r => r / p, locOf := fun r => r % p, rankOf := fun a i => a * p + i }

/-- round-robin placement: rank `r` on node `r % N` with local id `r / N` -/
def cyclic (N p : Nat) : Placement :=
  { N := N, p := p, nodeOf := fun r => r % N, locOf := fun r => r / N, rankOf := fun a i => i * N + a }

/-- placements by name (driver) -/
def byName? (name : String) (N p : Nat) : Option Placement :=
  if name = "block" then some (block N p)
  else if name = "cyclic" then some (cyclic N p)
  else none

end YgmVerif.RouterP
