/-
Model of `comm::flush_all_local_and_process_incoming` on ONE rank (comm.ipp), the loop every barrier,
destructor and wait relies on:

    did = true
    while (did) {
      did = poll();                                              -- pc A
      while (!callbacks.empty()) { did = true; run one }          -- pc B
      while (!dest_queue.empty()) { did = true; flush front; poll(); }   -- pc C  (poll result ignored)
      while (!send_queue.empty()) { did |= poll(); }              -- pc D
    }

`poll` is process_receive_queue.  What a poll does is a parameter (`Poll`): whether it received at least one
buffer, what it returned, and the three quantities afterwards.  `WF` says a poll that received nothing
changes nothing except completing sends; `step` (the repaired code) additionally requires the return value
to report the receive — `stepPinned` is the pinned code, whose poll could return false although it had
received (`received_to_return != local_process_incoming();`).
-/
namespace YgmVerif.Flush

inductive PC where
  | A | B | C | D | Done
  deriving DecidableEq, Repr

structure St where
  pc : PC
  did : Bool
  cbs : Nat      -- pending pre-barrier callbacks
  ub : Nat       -- unsent bytes (m_send_buffer_bytes); > 0 iff the dest queue is non-empty
  sq : Nat       -- posted, incomplete sends (m_send_queue.size())
  deriving DecidableEq, Repr

structure Poll where
  recvd : Bool   -- it received (and processed) at least one buffer
  ret : Bool     -- its return value
  cbs : Nat      -- the three quantities when it returns
  ub : Nat
  sq : Nat
  deriving DecidableEq, Repr

def start (cbs ub sq : Nat) : St := { pc := .A, did := true, cbs := cbs, ub := ub, sq := sq }

/-- a poll that received nothing ran no handler: no callback registered, nothing buffered, no new send -/
def WF (s : St) (p : Poll) : Bool :=
  p.recvd || (p.cbs == s.cbs && p.ub == s.ub && p.sq ≤ s.sq)

def apply (s : St) (p : Poll) : St := { s with cbs := p.cbs, ub := p.ub, sq := p.sq }

inductive Label where
  | pollA (p : Poll)
  | cb (cbs ub sq : Nat)      -- a callback runs (it may send, flush, poll: arbitrary effect)
  | endB
  | flushC (b : Nat)          -- flush_send_buffer of the front buffer (b bytes)
  | pollC (p : Poll)          -- the polls of loop C (return value ignored)
  | endC
  | pollD (p : Poll)
  | endD
  deriving Repr

/-- `retOk p` = the return-value rule of the variant of the code being modelled -/
def stepWith (retOk : Poll → Bool) (s : St) : Label → Option St
  | .pollA p =>
    if s.pc = .A ∧ WF s p ∧ retOk p then some { apply s p with pc := .B, did := p.ret } else none
  | .cb c u q =>
    if s.pc = .B ∧ 0 < s.cbs then some { s with did := true, cbs := c, ub := u, sq := q } else none
  | .endB => if s.pc = .B ∧ s.cbs = 0 then some { s with pc := .C } else none
  | .flushC b =>
    if s.pc = .C ∧ 0 < b ∧ b ≤ s.ub then some { s with did := true, ub := s.ub - b, sq := s.sq + 1 } else none
  | .pollC p =>
    if s.pc = .C ∧ s.did = true ∧ WF s p ∧ retOk p then some (apply s p) else none
  | .endC => if s.pc = .C ∧ s.ub = 0 then some { s with pc := .D } else none
  | .pollD p =>
    if s.pc = .D ∧ 0 < s.sq ∧ WF s p ∧ retOk p then some { apply s p with did := s.did || p.ret } else none
  | .endD =>
    if s.pc = .D ∧ s.sq = 0 then some { s with pc := if s.did then .A else .Done } else none

/-- the repaired code: a poll returns true whenever it received something -/
def step : St → Label → Option St := stepWith (fun p => p.ret == p.recvd)
/-- the pinned code: the receive made by the MPI_Test path was not reported -/
def stepPinned : St → Label → Option St := stepWith (fun p => !p.ret || p.recvd)

def runWith (f : St → Label → Option St) (s : St) : List Label → Option St
  | [] => some s
  | l :: ls => match f s l with
    | none => none
    | some s' => runWith f s' ls

def run := runWith step

end YgmVerif.Flush
