import YgmVerif.Model.Dist
/-
Sequential semantics of the remote lambdas of `ygm::container::set` / `multiset`
(include/ygm/container/detail/set_impl.hpp) as executed on the owner rank of the key, and of
`consume_all` (set_impl.hpp:133, 201; for_all_adapter.hpp).

State of one rank: the elements of `m_local_set` (a `std::multiset`) as a list; a new element is
appended.  Only multiplicities are observable through the interface (`count`, `for_all`, `size`),
the order of the list is presentation (the checks sort before comparing).
Invariant of a `set`: no element twice (`List.Nodup`), preserved by every operation of the `set`
interface (theorem `set_invariant`, Props/C12).

Core Lean only.
-/
namespace YgmVerif.SetOps

inductive Op (K A : Type) where
  /-- `set::async_insert` → `async_insert_unique` (set_impl.hpp:45) -/
  | insert (k : K)
  /-- `multiset::async_insert` → `async_insert_multi` (:37) -/
  | insertMulti (k : K)
  /-- `async_erase` (:55) -/
  | erase (k : K)
  /-- `async_insert_exe_if_missing` (:65) -/
  | insertExeIfMissing (k : K) (vis : Nat) (arg : A)
  /-- `async_insert_exe_if_contains` (:81) -/
  | insertExeIfContains (k : K) (vis : Nat) (arg : A)
  /-- `async_exe_if_missing` (:98) -/
  | exeIfMissing (k : K) (vis : Nat) (arg : A)
  /-- `async_exe_if_contains` (:113) -/
  | exeIfContains (k : K) (vis : Nat) (arg : A)
  /-- one iteration of `local_consume_all` (:204-208): an element equal to `k` is removed and
  handed to the callback `vis` -/
  | pop (k : K) (vis : Nat)
  deriving DecidableEq, Repr

def Op.key {K A : Type} : Op K A → K
  | .insert k | .insertMulti k | .erase k | .insertExeIfMissing k _ _ | .insertExeIfContains k _ _
  | .exeIfMissing k _ _ | .exeIfContains k _ _ | .pop k _ => k

inductive Cb (K A : Type) where
  /-- the lambda of one of the four conditional-execute calls ran with `(key, args…)` -/
  | exe (vis : Nat) (k : K) (arg : A)
  /-- the `consume_all` callback was handed `k` -/
  | consumed (vis : Nat) (k : K)
  deriving DecidableEq, Repr

def Cb.key {K A : Type} : Cb K A → K
  | .exe _ k _ | .consumed _ k => k

/-- user lambdas: what they issue when they run -/
structure User (K A : Type) where
  exe : Nat → K → A → List (Op K A)
  consume : Nat → K → List (Op K A)

variable {K A : Type} [DecidableEq K]

/-- `m_local_set.count(key)` -/
def count (s : List K) (k : K) : Nat := s.count k

/-- body of the remote lambda of each operation on the owner's local container -/
def apply (u : User K A) (s : List K) : Op K A → List K × List (Op K A) × List (Cb K A)
  | .insert k => if count s k = 0 then (s ++ [k], [], []) else (s, [], [])
  | .insertMulti k => (s ++ [k], [], [])
  | .erase k => (s.filter (fun x => decide (x ≠ k)), [], [])
  | .insertExeIfMissing k vis a =>
    if count s k = 0 then (s ++ [k], u.exe vis k a, [Cb.exe vis k a]) else (s, [], [])
  | .insertExeIfContains k vis a =>
    if count s k = 0 then (s ++ [k], [], []) else (s, u.exe vis k a, [Cb.exe vis k a])
  | .exeIfMissing k vis a =>
    if count s k = 0 then (s, u.exe vis k a, [Cb.exe vis k a]) else (s, [], [])
  | .exeIfContains k vis a =>
    -- the code tests `count(key) == 1`
    if count s k = 1 then (s, u.exe vis k a, [Cb.exe vis k a]) else (s, [], [])
  | .pop k vis =>
    if count s k = 0 then (s, [], []) else (s.erase k, u.consume vis k, [Cb.consumed vis k])

/-- the same operations on the multiplicity of their own key -/
def applyK (u : User K A) (n : Nat) : Op K A → Nat × List (Op K A) × List (Cb K A)
  | .insert _ => (if n = 0 then 1 else n, [], [])
  | .insertMulti _ => (n + 1, [], [])
  | .erase _ => (0, [], [])
  | .insertExeIfMissing k vis a => if n = 0 then (1, u.exe vis k a, [Cb.exe vis k a]) else (n, [], [])
  | .insertExeIfContains k vis a => if n = 0 then (1, [], []) else (n, u.exe vis k a, [Cb.exe vis k a])
  | .exeIfMissing k vis a => if n = 0 then (n, u.exe vis k a, [Cb.exe vis k a]) else (n, [], [])
  | .exeIfContains k vis a => if n = 1 then (n, u.exe vis k a, [Cb.exe vis k a]) else (n, [], [])
  | .pop k vis => if n = 0 then (0, [], []) else (n - 1, u.consume vis k, [Cb.consumed vis k])

def container (u : User K A) : Dist.Container (List K) (Op K A) (Cb K A) := ⟨apply u⟩

/-- `local_consume_all(fn)` with no concurrent producer: pop until empty -/
def consumeAll (u : User K A) (vis : Nat) (s : List K) : Dist.Out (List K) (Op K A) (Cb K A) :=
  Dist.run (container u) s (s.map (fun k => Op.pop k vis))

/-- `consume_all` when the callback itself inserts (for_all_adapter.hpp,
`consume_all_iterative_adapter`): pop the first element, run the callback, apply what it issued
at once (one legal interleaving), repeat until empty; `fuel` bounds the iteration -/
def consumeIter (u : User K A) (vis : Nat) : Nat → List K → List (Cb K A) → List K × List (Cb K A)
  | 0, s, acc => (s, acc)
  | fuel + 1, s, acc =>
    match s with
    | [] => ([], acc)
    | k :: _ =>
      let r := apply u s (Op.pop k vis)
      let o := Dist.run (container u) r.1 r.2.1
      consumeIter u vis fuel o.state (acc ++ r.2.2 ++ o.cbs)

/-! ### queries -/
def size (s : List K) : Nat := s.length
def forAll (s : List K) : List K := s
def clear (_ : List K) : List K := []
def swap (a b : List K) : List K × List K := (b, a)

/-- operations of the `set` class -/
def Op.isSetOp : Op K A → Bool
  | .insertMulti _ => false
  | _ => true

end YgmVerif.SetOps
