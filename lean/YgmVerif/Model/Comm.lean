import YgmVerif.Model.Deliver
import YgmVerif.Model.BarrierME
/-
The PRODUCT of the two models of ygm::comm (comm.ipp):

* `YgmVerif.Deliver`   — message MOVEMENT: which message is where (send buffer / wire / receive walk / done);
* `YgmVerif.BarrierME` — the count-based BARRIER: the counters `m_send_count` / `m_recv_count`, the reduction rounds,
                          the exit rule; messages only as the number `und` of handlers not yet started.

A joint state is a pair of component states plus one ghost function `cur`: the uid of the message whose handler is
running on a rank (`none` = no handler running).  A joint label performs the component steps TOGETHER: the component
`step`/`run` functions are CALLED as they are (`Deliver.run n nh s.d (projD l)`, `BarrierME.run n s.b (projB l)`), no
guard of a component is re-implemented here.  The only things this file adds are

* which component labels a joint label consists of (`projD`, `projB`):
    async r uid dest direct = Deliver.async + BarrierME.issue r          (m_send_count++ and the bytes are buffered)
    isend / recvBegin / fwd / recvEnd = the Deliver step alone            (forwarding is not counted)
    execBegin r uid = BarrierME.start r                                   (the handler starts ...)
    execEnd r uid   = Deliver.exec r uid + BarrierME.finish r             (... returns: m_recv_count++)
    regcb / enter / contribute / result / exit = the BarrierME step alone
    runcb r msgs j  = BarrierME.runcb r |msgs| j + one Deliver.async per message the callback issues
* the joint guard (`guard`) that ties the two sides of a handler execution together: `execBegin r uid` needs the entry
  `uid` in the buffer rank r is walking, addressed to r (or a broadcast leg), and remembers it in `cur r`;
  `execEnd r uid` needs `cur r = some uid` — Deliver's atomic `exec` is performed at the END of the handler, so while
  the handler runs the entry is still `inWalk r` (neither `fwd` nor `recvEnd` nor a second `execBegin` can touch it:
  Lemmas/Comm.lean).

`projD` / `projB` recover the component histories from a joint history; `run` of the joint system implies `run` of
each component on its projection (Lemmas/Comm.lean: `run_projD`, `run_projB`), so every theorem about a component
transfers.  Executable, core Lean only.
-/
namespace YgmVerif.Comm
open YgmVerif

/-- what `async` is called with: (uid, dest, direct) -/
abbrev Msg := Nat × Nat × Bool

structure St where
  d : Deliver.St
  b : BarrierME.Sys
  cur : Nat → Option Nat            -- ghost: the uid of the message whose handler is running on the rank

def init : St := { d := Deliver.St.init, b := BarrierME.init, cur := fun _ => none }

inductive Label where
  | async (r uid dest : Nat) (direct : Bool)       -- comm::async / a broadcast leg, from main context or a handler
  | isend (r hop : Nat)                            -- flush_send_buffer
  | recvBegin (r src seq : Nat)                    -- handle_next_receive starts on a received buffer
  | fwd (r uid : Nat)                              -- ... a message not addressed here is re-buffered
  | recvEnd (r : Nat)                              -- ... the receive is re-posted
  | execBegin (r uid : Nat)                        -- ... the handler of a message addressed here starts
  | execEnd (r uid : Nat)                          -- ... and returns (m_recv_count++)
  | regcb (r : Nat)                                -- register_pre_barrier_callback
  | runcb (r : Nat) (msgs : List Msg) (j : Nat)    -- a callback runs: issues `msgs`, registers j new callbacks
  | enter (r : Nat)                                -- barrier() is entered (explicitly or by ~comm)
  | contribute (r : Nat)                           -- barrier_reduce_counts posts MPI_Iallreduce
  | result (r : Nat)                               -- ... and consumes its result
  | exit (r : Nat)                                 -- barrier() returns
  deriving Repr

/-- the `Deliver.async` labels of the messages a callback issues -/
def asyncLabels (r : Nat) (msgs : List Msg) : List Deliver.Label :=
  msgs.map (fun m => Deliver.Label.async r m.1 m.2.1 m.2.2)

/-- the message-movement part of a joint label -/
def projD : Label → List Deliver.Label
  | .async r uid dest direct => [.async r uid dest direct]
  | .isend r hop => [.isend r hop]
  | .recvBegin r src seq => [.recvBegin r src seq]
  | .fwd r uid => [.fwd r uid]
  | .recvEnd r => [.recvEnd r]
  | .execBegin _ _ => []
  | .execEnd r uid => [.exec r uid]
  | .regcb _ => []
  | .runcb r msgs _ => asyncLabels r msgs
  | .enter _ => []
  | .contribute _ => []
  | .result _ => []
  | .exit _ => []

/-- the counter / barrier part of a joint label -/
def projB : Label → List BarrierME.Label
  | .async r _ _ _ => [.issue r]
  | .isend _ _ => []
  | .recvBegin _ _ _ => []
  | .fwd _ _ => []
  | .recvEnd _ => []
  | .execBegin r _ => [.start r]
  | .execEnd r _ => [.finish r]
  | .regcb r => [.regcb r]
  | .runcb r msgs j => [.runcb r msgs.length j]
  | .enter r => [.enter r]
  | .contribute r => [.contribute r]
  | .result r => [.result r]
  | .exit r => [.exit r]

/-- the handler of `uid` may run on r: the entry is in the buffer r is walking and is addressed to r (or is a
broadcast leg, executed wherever it lands) — the condition `Deliver.exec r uid` will check again at `execEnd` -/
def runnable (d : Deliver.St) (r uid : Nat) : Bool :=
  d.walking r && d.es.any (fun e => e.uid == uid && Deliver.inWalkOf r e && (e.dest == r || e.direct))

/-- the joint part of the guard (everything else is checked by the component steps) -/
def guard (s : St) : Label → Bool
  | .execBegin r uid => runnable s.d r uid
  | .execEnd r uid => s.cur r == some uid
  | _ => true

/-- the ghost `cur` after the label -/
def nextCur (s : St) : Label → (Nat → Option Nat)
  | .execBegin r uid => Barrier.upd s.cur r (some uid)
  | .execEnd r _ => Barrier.upd s.cur r none
  | _ => s.cur

/-- one joint step; `none` = not enabled (the joint guard or a guard of one of the component steps fails) -/
def step (n : Nat) (nh : Nat → Nat → Nat) (s : St) (l : Label) : Option St :=
  if guard s l then
    match Deliver.run n nh s.d (projD l), BarrierME.run n s.b (projB l) with
    | some d', some b' => some { d := d', b := b', cur := nextCur s l }
    | _, _ => none
  else none

def run (n : Nat) (nh : Nat → Nat → Nat) (s : St) : List Label → Option St
  | [] => some s
  | l :: ls => match step n nh s l with
    | none => none
    | some s' => run n nh s' ls

/-- the identities (uid, dest, direct) of the messages a joint label issues -/
def issued : Label → List Msg
  | .async _ uid dest direct => [(uid, dest, direct)]
  | .runcb _ msgs _ => msgs
  | _ => []

def isExit : Label → Bool
  | .exit _ => true
  | _ => false

end YgmVerif.Comm
