/-
Model of send aggregation and back-pressure on ONE rank (comm.ipp: async's buffering, flush_to_capacity,
flush_send_buffer's byte accounting, check_if_production_halt_required).

`Q` is the destination queue (m_send_dest_queue) with the byte size of each non-empty send buffer
(m_vec_send_buffers[hop].size(), routing header included); `unsent` = m_send_buffer_bytes is its total;
`pending` = m_pending_isend_bytes.
-/
namespace YgmVerif.Bytes

abbrev Q := List (Nat × Nat)          -- (next hop, buffered bytes), in dest-queue order

def total (q : Q) : Nat := (q.map (·.2)).sum

/-- append `b` bytes to the buffer of `hop` (async / queue_message_bytes / the forwarding branch):
a new buffer goes to the back of the dest queue -/
def add (hop b : Nat) : Q → Q
  | [] => [(hop, b)]
  | (h, x) :: rest => if h = hop then (h, x + b) :: rest else (h, x) :: add hop b rest

/-- `flush_to_capacity`: while more than `cap` bytes are unsent, send the front buffer whole.
Returns (remaining queue, buffers put on the wire in order). -/
def flushToCap (cap : Nat) : Q → Q × Q
  | [] => ([], [])
  | (h, x) :: rest =>
    if total ((h, x) :: rest) > cap then
      let (q', sent) := flushToCap cap rest
      (q', (h, x) :: sent)
    else ((h, x) :: rest, [])

structure St where
  q : Q
  pending : Nat
  deriving Repr

/-- an async issued by the main program (interrupts enabled): the halt check has let it through
(precondition `pending ≤ cap`), the message is buffered, then `flush_to_capacity` runs.
Returns the new state and the physical sends. -/
def asyncMain (cap : Nat) (s : St) (hop b : Nat) : St × Q :=
  let (q', sent) := flushToCap cap (add hop b s.q)
  ({ q := q', pending := s.pending + total sent }, sent)

/-- an async issued from inside a handler: buffered only (the flush is deferred to the end of the walk) -/
def asyncHandler (s : St) (hop b : Nat) : St := { s with q := add hop b s.q }

/-- end of handle_next_receive: `flush_to_capacity` -/
def walkEnd (cap : Nat) (s : St) : St × Q :=
  let (q', sent) := flushToCap cap s.q
  ({ q := q', pending := s.pending + total sent }, sent)

/-- a flush point (barrier / local_progress / wait): the front buffer is sent unconditionally -/
def flushFront (s : St) : St × Q :=
  match s.q with
  | [] => (s, [])
  | (h, x) :: rest => ({ q := rest, pending := s.pending + x }, [(h, x)])

/-- take the buffer of `hop` out of the destination queue -/
def removeHop (hop : Nat) : Q → Option (Nat × Q)
  | [] => none
  | (h, x) :: rest =>
    if h = hop then some (x, rest)
    else match removeHop hop rest with
      | none => none
      | some (b, q') => some (b, (h, x) :: q')

/-- a flush point puts the buffer of SOME buffered destination on the wire, whole.  Which one comes first is not
observable by any single destination (each destination is queued at most once), so the model leaves the order of a
flush point free; `flush_to_capacity` (`flushStep`) stays front-first. -/
def flushHop (s : St) (hop : Nat) : Option (St × Q) :=
  match removeHop hop s.q with
  | none => none
  | some (x, q') => some ({ q := q', pending := s.pending + x }, [(hop, x)])

/-- one iteration of the `flush_to_capacity` loop: enabled only while more than `cap` bytes are unsent -/
def flushStep (cap : Nat) (s : St) : Option (St × Q) :=
  if total s.q > cap then some (flushFront s) else none

/-- a posted send completes -/
def sendDone (s : St) (b : Nat) : Option St := if b ≤ s.pending then some { s with pending := s.pending - b } else none

end YgmVerif.Bytes
