import YgmVerif.Model.Router
/-
Model of the fan-out of `comm::async_bcast` = `comm::pack_lambda_broadcast`
(comm.ipp) and of `comm::async_mcast`.

A broadcast is three nested remote lambdas; every one of them ends by applying the
user lambda, so every receiver of a *leg* executes the user lambda exactly once:

* stage 1 (`pack_lambda_broadcast` itself): the origin queues one message to every
  entry of `layout().local_ranks()` — itself included (a real MPI self-send);
* stage 2 (`forward_remote_and_dispatch_lambda`, run by every stage-1 receiver `r`):
    num_layers          = node_size / local_size + (node_size % local_size > 0)
    node_partner_offset = (local_id - node_id) % local_size   (C remainder; `+= local_size` if negative)
    for (l = 0; l < num_layers; l++) {
      partner_node = node_partner_offset + l * local_size;
      if (partner_node >= node_size) break;
      curr_partner = strided_ranks()[partner_node];
      if (!is_local(curr_partner)) queue(curr_partner); }
  (the partner is LOOKED UP in the layout by its node; before the repair of the cyclic-placement defect the loop
  advanced by rank arithmetic, `curr_partner += local_size * local_size`, starting from
  `strided_ranks()[node_partner_offset]` and stopping at `curr_partner >= size` — the same ranks for the block
  placement modelled here (`Lemmas/Bcast.lean: remotePartners_eq_old`), different ones for other placements
  (`YgmVerif.BcastP`, Props/C05P.lean));
* stage 3 (`forward_local_and_dispatch_lambda`, run by every stage-2 receiver `q`):
  one message to every entry of `local_ranks()` different from `q`.

Legs are queued with `queue_message_bytes(packed, dest)`: straight into the send
buffer of `dest` (no `next_hop`), `m_send_count++` per leg; the receiver does
`m_recv_count++` per execution.  Executable, core Lean only.
-/
namespace YgmVerif.Bcast
open YgmVerif.Router

/-- `num_layers` -/
def numLayers (N p : Nat) : Nat := N / p + (if N % p > 0 then 1 else 0)

/-- `node_partner_offset` of a rank with on-node index `lid` on node `nid`.  `Int.tmod` is C's `%` (truncation
towards zero, sign of the dividend); the `if` is the code's fix-up of a negative remainder. -/
def offsetOf (p lid nid : Nat) : Nat :=
  let o : Int := Int.tmod ((lid : Int) - (nid : Int)) (p : Int)
  (if o < 0 then o + (p : Int) else o).toNat

/-- `node_partner_offset` on rank `r` -/
def partnerOffset (p r : Nat) : Nat := offsetOf p (loc p r) (node p r)

/-- the values `partner_node` takes at the top of the loop body, for `l = 0 … num_layers-1` -/
def layerCandidates (N p r : Nat) : List Nat :=
  (List.range (numLayers N p)).map (fun l => partnerOffset p r + l * p)

/-- stage-2 destinations of rank `r`: `takeWhile` is the `break`, `map` the lookup `strided_ranks()[partner_node]`,
`filter` the `is_local` test -/
def remotePartners (N p r : Nat) : List Nat :=
  (((layerCandidates N p r).takeWhile (fun b => decide (b < N))).map (strided p r)).filter
    (fun c => !isLocal p r c)

/-- the loop as it was before the repair: start at `strided_ranks()[node_partner_offset]` (if that node exists),
advance by `local_size * local_size`, stop at `curr_partner >= size` -/
def remotePartnersOld (N p r : Nat) : List Nat :=
  if partnerOffset p r < N then
    (((List.range (numLayers N p)).map (fun l => strided p r (partnerOffset p r) + l * (p * p))).takeWhile
      (fun c => decide (c < N * p))).filter (fun c => !isLocal p r c)
  else []

/-- stage-3 destinations of rank `q`: `for dest in local_ranks() if dest != rank()` -/
def localOthers (p q : Nat) : List Nat := (localTable p q).filter (fun d => d != q)

/-- a leg: (sender, receiver, stage) -/
abbrev Leg := Nat × Nat × Nat

def Leg.src (l : Leg) : Nat := l.1
def Leg.dst (l : Leg) : Nat := l.2.1
def Leg.stage (l : Leg) : Nat := l.2.2

def stage1 (p o : Nat) : List Leg := (localTable p o).map (fun d => (o, d, 1))

def stage2 (N p o : Nat) : List Leg :=
  (stage1 p o).flatMap (fun g => (remotePartners N p g.dst).map (fun q => (g.dst, q, 2)))

def stage3 (N p o : Nat) : List Leg :=
  (stage2 N p o).flatMap (fun g => (localOthers p g.dst).map (fun t => (g.dst, t, 3)))

/-- every `queue_message_bytes` call of one `async_bcast` issued on rank `o` -/
def bcastLegs (N p o : Nat) : List Leg := stage1 p o ++ stage2 N p o ++ stage3 N p o

/-- the ranks that execute the user lambda, with multiplicity (one per leg received) -/
def bcastExec (N p o : Nat) : List Nat := (bcastLegs N p o).map Leg.dst

/-- `m_send_count` increments of rank `r` caused by the broadcast -/
def bcastSentBy (N p o r : Nat) : Nat := ((bcastLegs N p o).map Leg.src).count r
/-- `m_recv_count` increments of rank `r` caused by the broadcast -/
def bcastRecvBy (N p o r : Nat) : Nat := (bcastExec N p o).count r

/-- `async_mcast(dests, fn, args…)` is `for (auto dest : dests) async(dest, fn, args…)`:
one point-to-point message per list entry, duplicates included. -/
def mcastMsgs (src : Nat) (dests : List Nat) : List (Nat × Nat) := dests.map (fun d => (src, d))

/-- ranks executing the lambda of an `async_mcast`, with multiplicity (each message
executes once on its destination — C01) -/
def mcastExec (src : Nat) (dests : List Nat) : List Nat := (mcastMsgs src dests).map Prod.snd

end YgmVerif.Bcast
