import YgmVerif.Model.Comm
import YgmVerif.Model.Dist
/-
A distributed container (`YgmVerif.Dist`: state, Op, owner, apply) RUN OVER the joint messaging model `YgmVerif.Comm`
(message movement `Deliver` × count-based multi-epoch barrier `BarrierME`).

* A container operation IS a message.  `opOf : uid → Op` says which operation the message `uid` carries; the issuing
  discipline (`Addressed`) is that every message of the history is issued as `Comm.async r uid (owner (opOf uid)) false`
  (or, by a pre-barrier callback, as an element `(uid, owner (opOf uid), false)` of `runcb`): point-to-point, to the
  owner of the operation.  Operations emitted by a user callback from INSIDE a remote lambda (`emit` of `Dist.apply`)
  are `async` labels of the executing rank between `execBegin r uid` and `execEnd r uid` of the parent.
* Nothing of `Comm` is re-implemented: `ghostRun` CALLS `Comm.step` and only decorates an accepted history with ghost
  data (`Ghost`):
    `mem r`      the container memory of rank r: changed ONLY by `execEnd r uid`, which applies `opOf uid` to it (the body
                 of the remote lambda; `Deliver.exec`, i.e. the append to `Deliver.executed`, happens at the same label);
    `tagged`     every message issued so far, in issue order, tagged with `Comm.St.cur r` of the issuing rank at that
                 moment: `some p` = issued by the handler of message `p` (handler-emitted), `none` = issued from main
                 context or by a pre-barrier callback;
    `handlerLog` for every handler that has returned: (the operations it issued, in order,
                 the operations `Dist.apply` says the remote lambda emits when run on the memory of that rank).
* `HandlersApply`: the history is a history of THIS container — every handler issued exactly what `apply` says
  (both components of every `handlerLog` entry agree).  This is the only link between the user-level behaviour of a
  handler and the container model; it is decidable and checked by `decide` in the examples.

`opsExecutedOn r` / `execOps` are read off `Deliver.executed` (which is in execution order).
Executable, core Lean only.
-/
namespace YgmVerif.DistComm
open YgmVerif
open YgmVerif.Comm (Label St Msg)

variable {σ Op Cb : Type}

structure Ghost (σ Op : Type) where
  /-- container memory of every rank -/
  mem : Nat → σ
  /-- (handler that issued it / none, uid) of every message issued so far, in issue order -/
  tagged : List (Option Nat × Nat)
  /-- per returned handler: (operations it issued, operations `apply` emits) -/
  handlerLog : List (List Op × List Op)

def Ghost.init (g : Nat → σ) : Ghost σ Op := { mem := g, tagged := [], handlerLog := [] }

/-- the uids of the messages issued by the handler of message `u`, in issue order -/
def children (T : List (Option Nat × Nat)) (u : Nat) : List Nat :=
  (T.filter (fun p => p.1 == some u)).map (·.2)

/-- the ghost data after one ACCEPTED joint step `l` taken in joint state `s` -/
def gnext (c : Dist.Container σ Op Cb) (opOf : Nat → Op) (s : St) (G : Ghost σ Op) : Label → Ghost σ Op
  | .async r uid _ _ => { G with tagged := G.tagged ++ [(s.cur r, uid)] }
  | .runcb r msgs _ => { G with tagged := G.tagged ++ msgs.map (fun m => (s.cur r, m.1)) }
  | .execEnd r uid =>
    { G with mem := Barrier.upd G.mem r (c.apply (G.mem r) (opOf uid)).1,
             handlerLog := G.handlerLog ++
               [((children G.tagged uid).map opOf, (c.apply (G.mem r) (opOf uid)).2.1)] }
  | _ => G

/-- decorate a joint history: `Comm.step` is called as it is; the ghost never blocks a step and stops where `Comm`
stops -/
def ghostRun (c : Dist.Container σ Op Cb) (opOf : Nat → Op) (n : Nat) (nh : Nat → Nat → Nat) :
    St → Ghost σ Op → List Label → Ghost σ Op
  | _, G, [] => G
  | s, G, l :: ls => match Comm.step n nh s l with
    | none => G
    | some s' => ghostRun c opOf n nh s' (gnext c opOf s G l) ls

/-- the ghost data of a history from program start; `g r` = the initial container memory of rank r -/
def ghostOf (c : Dist.Container σ Op Cb) (opOf : Nat → Op) (n : Nat) (nh : Nat → Nat → Nat) (g : Nat → σ)
    (ls : List Label) : Ghost σ Op :=
  ghostRun c opOf n nh Comm.init (Ghost.init g) ls

/-- **the container state of rank r induced by a joint history** -/
def memOf (c : Dist.Container σ Op Cb) (opOf : Nat → Op) (n : Nat) (nh : Nat → Nat → Nat) (g : Nat → σ)
    (ls : List Label) (r : Nat) : σ :=
  (ghostOf c opOf n nh g ls).mem r

/-- uids of the handlers executed on rank r, in execution order -/
def uidsExecutedOn (r : Nat) (ex : List (Nat × Nat)) : List Nat := (ex.filter (fun p => p.1 == r)).map (·.2)

/-- the operations executed on rank r, in execution order -/
def opsExecutedOn (opOf : Nat → Op) (r : Nat) (s : St) : List Op := (uidsExecutedOn r s.d.executed).map opOf

/-- the global execution sequence: the operations of all executed handlers, in execution order -/
def execOps (opOf : Nat → Op) (s : St) : List Op := s.d.executed.map (fun p => opOf p.2)

/-- the operations of ALL messages issued by the history (main context, handlers, callbacks), in issue order -/
def issuedOps (opOf : Nat → Op) (ls : List Label) : List Op := (ls.flatMap Comm.issued).map (fun m => opOf m.1)

/-- the operations issued from outside any handler (main context and pre-barrier callbacks), in issue order -/
def mainOps (opOf : Nat → Op) (G : Ghost σ Op) : List Op :=
  (G.tagged.filter (fun p => p.1 == none)).map (fun p => opOf p.2)

/-- the operations issued from inside handlers, in issue order -/
def handlerOps (opOf : Nat → Op) (G : Ghost σ Op) : List Op :=
  (G.tagged.filter (fun p => p.1.isSome)).map (fun p => opOf p.2)

/-- **issuing discipline**: every message carries its operation point-to-point to the owner of that operation -/
def Addressed (owner : Op → Nat) (opOf : Nat → Op) (ls : List Label) : Prop :=
  ∀ m ∈ ls.flatMap Comm.issued, m.2.1 = owner (opOf m.1) ∧ m.2.2 = false

/-- every returned handler issued exactly the operations `apply` emits -/
def Ghost.Conforms (G : Ghost σ Op) : Prop := ∀ p ∈ G.handlerLog, p.1 = p.2

/-- **the history is a history of container `c`**: every handler `execBegin r uid … execEnd r uid` issued, in order,
exactly the operations that `c.apply (memory of r) (opOf uid)` emits -/
def HandlersApply (c : Dist.Container σ Op Cb) (opOf : Nat → Op) (n : Nat) (nh : Nat → Nat → Nat) (g : Nat → σ)
    (ls : List Label) : Prop :=
  (ghostOf c opOf n nh g ls).Conforms

instance (owner : Op → Nat) (opOf : Nat → Op) (ls : List Label) : Decidable (Addressed owner opOf ls) := by
  unfold Addressed; exact inferInstance

instance [DecidableEq Op] (G : Ghost σ Op) : Decidable G.Conforms := by
  unfold Ghost.Conforms; exact inferInstance

instance [DecidableEq Op] (c : Dist.Container σ Op Cb) (opOf : Nat → Op) (n : Nat) (nh : Nat → Nat → Nat)
    (g : Nat → σ) (ls : List Label) : Decidable (HandlersApply c opOf n nh g ls) := by
  unfold HandlersApply; exact inferInstance

/-- the part of the record of executions a label appends -/
def execRec : Label → List (Nat × Nat)
  | .execEnd r uid => [(r, uid)]
  | _ => []

end YgmVerif.DistComm
