/-
Model of `ygm::io::multi_output` (multi_output.hpp) and `ygm::io::daily_output`
(daily_output.hpp).  Executable, core Lean only.

What the code does, and what is modelled here:

* `async_write_line(subpath, args...)` packs the arguments into one string `s`
  (`ss << ... << args`) and sends `(subpath, s)` to `owner(subpath) =
  std::hash<std::string>(subpath) % comm.size()` (`hash_partitioner`).
* The owner looks the subpath up in `m_map_file_pointers`; on the first line for
  a subpath it creates the missing directories and opens
  `prefix + subpath` with `binary | app` (append flag set) or `binary | trunc`
  (append flag clear).  A subpath that never receives a line is never opened,
  whatever the flag.
* `buffered_ofstream::buffer_output(s)`: `buffer += s; buffer += "\n";
  if (buffer.size() > buffer_length) flush_buffer();`   — strictly greater.
* `flush_buffer()`: nothing when the buffer is empty, otherwise one
  `ofstream::write` of the whole buffer, then `clear()`.
* `~multi_output()`: `barrier()` (every line has reached its owner), then
  `flush_all_buffers()`; the `std::ofstream`s are closed by the member destructors.
* `daily_output::async_write_line(timestamp, args...)`: `std::gmtime(&t)`, fields
  `tm_year + 1900`, `tm_mon + 1`, `tm_mday`, each through `std::to_string`
  (no zero padding), joined by `/`; the result is the subpath.

The file is modelled as the concatenation of the chunks handed to `write`.
The filesystem and `std::ofstream` themselves are outside the model.
-/
namespace YgmVerif.Out

abbrev Bytes := List UInt8

/-- `'\n'` -/
def nl : UInt8 := 10

/-- state of one `buffered_ofstream`: the pending buffer and the chunks already
handed to `ofstream::write` (oldest first) -/
structure Buf where
  buf : Bytes
  written : List Bytes
deriving Repr, DecidableEq

def Buf.empty : Buf := ⟨[], []⟩

/-- `buffered_ofstream::flush_buffer` -/
def flushBuffer (st : Buf) : Buf :=
  if st.buf.length = 0 then st else ⟨[], st.written ++ [st.buf]⟩

/-- `buffered_ofstream::buffer_output(s)` with `buffer_length = L` -/
def bufferOutput (L : Nat) (st : Buf) (s : Bytes) : Buf :=
  let st' : Buf := ⟨st.buf ++ s ++ [nl], st.written⟩
  if st'.buf.length > L then flushBuffer st' else st'

/-- every `buffer_output` of a stream's life -/
def feed (L : Nat) (st : Buf) (lines : List Bytes) : Buf := lines.foldl (bufferOutput L) st

/-- the chunks written by a stream that receives `lines` and is then flushed by the
destructor of `multi_output` -/
def bufferedAppend (L : Nat) (lines : List Bytes) : List Bytes :=
  (flushBuffer (feed L Buf.empty lines)).written

/-- what the lines are supposed to look like in the file -/
def withNl (lines : List Bytes) : Bytes := (lines.map (· ++ [nl])).flatten

/-- Content of one file after the `multi_output` is destroyed.  `old = none`: no such
file before.  `lines`: what arrived at the owner for this subpath, in arrival order.
No line ⇒ the file is never opened (neither truncated nor created). -/
def fileAfter (append : Bool) (old : Option Bytes) (L : Nat) (lines : List Bytes) : Option Bytes :=
  match lines with
  | [] => old
  | _ => some ((if append then old.getD [] else []) ++ (bufferedAppend L lines).flatten)

/-- read a file back as newline-terminated lines; the second component is the
unterminated rest (empty for every file `multi_output` writes) -/
def splitNl : Bytes → List Bytes × Bytes
  | [] => ([], [])
  | c :: rest =>
    let (ls, tail) := splitNl rest
    if c = nl then
      ([] :: ls, tail)
    else
      match ls with
      | [] => ([], c :: tail)
      | l :: ls' => ((c :: l) :: ls', tail)

/-! ### routing: one writer per subpath -/

/-- a write as issued on some rank: subpath and packed line -/
abbrev Write (S : Type) := S × Bytes

/-- `multi_output::owner`: `hash_partitioner` (first component) -/
def owner {S : Type} (hash : S → Nat) (n : Nat) (s : S) : Nat := hash s % n

/-- all writes of a history (one list per origin rank), in rank order -/
def allWrites {S : Type} (hist : List (List (Write S))) : List (Write S) := hist.flatten

/-- the writes rank `r` must receive -/
def destinedTo {S : Type} (hash : S → Nat) (n : Nat) (hist : List (List (Write S))) (r : Nat) : List (Write S) :=
  (allWrites hist).filter (fun w => owner hash n w.1 = r)

/-- the lines of a write sequence that go to subpath `s`, in order -/
def linesFor {S : Type} [DecidableEq S] (ws : List (Write S)) (s : S) : List Bytes :=
  (ws.filter (fun w => w.1 = s)).map (·.2)

/-! ### packing the arguments of one `async_write_line` call

`pack_stream(args...)`: `std::stringstream ss; (ss << ... << args); return ss.str();` — the stream
is constructed inside the call, so formatting state set by a manipulator argument (`std::hex`,
`std::boolalpha`, …) acts on the later arguments of THAT call only.  Modelled for string,
non-negative integer and bool arguments and the base / boolalpha manipulators (floating-point
formatting is left to the oracle: a fresh `std::ostringstream` fed the same arguments). -/

inductive Tok
  | str (b : Bytes) | nat (n : Nat) | bool (b : Bool)
  | hex | dec | oct | boolalpha | noboolalpha
deriving Repr, DecidableEq

/-- formatting state of a stream: `basefield` and `boolalpha` -/
structure Fmt where
  base : Nat
  alpha : Bool
deriving Repr, DecidableEq

/-- a freshly constructed stream -/
def Fmt.init : Fmt := ⟨10, false⟩

def digitChar (d : Nat) : UInt8 := if d < 10 then UInt8.ofNat (48 + d) else UInt8.ofNat (87 + d)

/-- digits of `n` in base `b` (lower case, no prefix) -/
def digitsIn (b n : Nat) : Bytes :=
  if _h : n < b ∨ b < 2 then [digitChar n] else digitsIn b (n / b) ++ [digitChar (n % b)]
termination_by n
decreasing_by
  have hb : 2 ≤ b := by omega
  exact Nat.div_lt_self (by omega) hb

/-- `ss << arg` -/
def emit (st : Fmt) : Tok → Bytes × Fmt
  | .str b => (b, st)
  | .nat n => (digitsIn st.base n, st)
  | .bool v => (if st.alpha then (if v then [116, 114, 117, 101] else [102, 97, 108, 115, 101]) else (if v then [49] else [48]), st)
  | .hex => ([], { st with base := 16 })
  | .dec => ([], { st with base := 10 })
  | .oct => ([], { st with base := 8 })
  | .boolalpha => ([], { st with alpha := true })
  | .noboolalpha => ([], { st with alpha := false })

/-- `(ss << ... << args)` on a stream in state `st`: text produced and the state left behind -/
def packFrom (st : Fmt) : List Tok → Bytes × Fmt
  | [] => ([], st)
  | t :: ts =>
    let r := emit st t
    let r' := packFrom r.2 ts
    (r.1 ++ r'.1, r'.2)

/-- the line one call writes: a NEW stream per call -/
def pack (args : List Tok) : Bytes := (packFrom Fmt.init args).1

/-- the lines a sequence of calls on one `multi_output` object writes -/
def linesOf (calls : List (List Tok)) : List Bytes := calls.map pack

/-! ### daily_output: the date path -/

/-- `std::to_string` of a non-negative integer: decimal digits, no padding -/
def dec (n : Nat) : Bytes :=
  if h : n < 10 then [UInt8.ofNat (48 + n)] else dec (n / 10) ++ [UInt8.ofNat (48 + n % 10)]
termination_by n
decreasing_by omega

/-- year of the 400-year era (`0..399`, years starting on 1 March) of the era day `doe`
(`0..146096`) -/
def yoeOf (doe : Nat) : Nat := (doe - doe / 1460 + doe / 36524 - doe / 146096) / 365

/-- era day on which year-of-era `yoe` starts -/
def yearStart (yoe : Nat) : Nat := 365 * yoe + yoe / 4 - yoe / 100

/-- month (1..12) and day of month of the `doy`-th day (`0..365`) of a year starting on 1 March -/
def mdOfDoy (doy : Nat) : Nat × Nat :=
  let mp := (5 * doy + 2) / 153
  (if mp < 10 then mp + 3 else mp - 9, doy - (153 * mp + 2) / 5 + 1)

/-- proleptic Gregorian civil date `(year, month 1..12, day 1..31)` of the day number
`z` counted from 1970-01-01 (what `gmtime` yields in `tm_year+1900, tm_mon+1, tm_mday`
for `t = 86400*z + s`, `0 ≤ s < 86400`).  Days are shifted to the era starting
0000-03-01 (`+ 719468`), eras have 146097 days. -/
def civilFromDays (z : Nat) : Nat × Nat × Nat :=
  let z := z + 719468
  let era := z / 146097
  let doe := z % 146097
  let yoe := yoeOf doe
  let md := mdOfDoy (doe - yearStart yoe)
  let y := yoe + era * 400
  (if md.1 ≤ 2 then y + 1 else y, md.1, md.2)

/-- inverse direction: day number counted from 0000-03-01 (i.e. *not* shifted back by
719468, so that it is a natural number) -/
def eraDaysFromCivil (y m d : Nat) : Nat :=
  let y := if m ≤ 2 then y - 1 else y
  let era := y / 400
  let yoe := y % 400
  let doy := (153 * (if m > 2 then m - 3 else m + 9) + 2) / 5 + d - 1
  era * 146097 + (yearStart yoe + doy)

def isLeap (y : Nat) : Bool := y % 4 = 0 ∧ (y % 100 ≠ 0 ∨ y % 400 = 0)

def daysInMonth (y m : Nat) : Nat :=
  if m = 2 then (if isLeap y then 29 else 28)
  else if m = 4 ∨ m = 6 ∨ m = 9 ∨ m = 11 then 30 else 31

/-- the day after a civil date, by the Gregorian rules (specification side of `civil_succ`) -/
def nextDay (c : Nat × Nat × Nat) : Nat × Nat × Nat :=
  if c.2.2 < daysInMonth c.1 c.2.1 then (c.1, c.2.1, c.2.2 + 1)
  else if c.2.1 < 12 then (c.1, c.2.1 + 1, 1) else (c.1 + 1, 1, 1)

/-- `'/'` -/
def slash : UInt8 := 47

/-- `to_string(year) + "/" + to_string(month) + "/" + to_string(day)` -/
def datePathOf (c : Nat × Nat × Nat) : Bytes :=
  dec c.1 ++ [slash] ++ dec c.2.1 ++ [slash] ++ dec c.2.2

/-- the subpath `daily_output` derives from a UTC timestamp (seconds since the epoch) -/
def datePath (ts : Nat) : Bytes := datePathOf (civilFromDays (ts / 86400))

end YgmVerif.Out
