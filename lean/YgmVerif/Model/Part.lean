/-
Model of the block partition of `ygm::container::array` (array.ipp: resize,
owner, is_mine, local_index, global_index), of `bag::rebalance`'s target
computation (bag.ipp) and of the hash partitioner (hash_partitioner.hpp).

Executable, core Lean only.  `cdiv` returns `none` on a zero divisor so that a
theorem can never become true because Lean totalises `x / 0 = 0`: the real code
raises SIGFPE there.
-/
namespace YgmVerif.Part

/-- `m_small_block_size = size / comm.size()` -/
def small (len ranks : Nat) : Nat := len / ranks
def rem (len ranks : Nat) : Nat := len % ranks
/-- `m_large_block_size = small + ((size % comm.size()) > 0)` -/
def large (len ranks : Nat) : Nat := small len ranks + (if rem len ranks > 0 then 1 else 0)
/-- `m_local_vec.resize(small + (rank < size % comm.size()))` -/
def localSize (len ranks r : Nat) : Nat := small len ranks + (if r < rem len ranks then 1 else 0)
/-- `m_local_start_index` -/
def start (len ranks r : Nat) : Nat :=
  if r < rem len ranks then r * large len ranks
  else rem len ranks * large len ranks + (r - rem len ranks) * small len ranks

/-- C integer division: `none` models the trap of the real code. -/
def cdiv (a b : Nat) : Option Nat := if b = 0 then none else some (a / b)

/-- `array::owner(index)` -/
def owner (len ranks i : Nat) : Option Nat :=
  if i < rem len ranks * large len ranks then cdiv i (large len ranks)
  else (cdiv (i - rem len ranks * large len ranks) (small len ranks)).map (rem len ranks + ·)

/-- `array::local_index(index)` evaluated on rank `r` -/
def localIndex (len ranks r i : Nat) : Nat := i - start len ranks r
/-- `array::global_index(local)` evaluated on rank `r` -/
def globalIndex (len ranks r j : Nat) : Nat := start len ranks r + j

/-- `hash_partitioner::operator()`: owner of a key with hash `h` -/
def hashOwner (h nranks : Nat) : Nat := h % nranks

/-- `bag::rebalance`: target rank of the item with global position `idx`
(same arithmetic as `array::owner`, applied to the bag's total size) -/
def rebalanceTarget (total ranks idx : Nat) : Option Nat := owner total ranks idx

/-- the global indices rank `r` presents in `for_all` -/
def indicesOf (len ranks r : Nat) : List Nat :=
  (List.range (localSize len ranks r)).map (globalIndex len ranks r)

end YgmVerif.Part
