import YgmVerif.Model.Part
/-!
Model of `ygm::container::array` (array.hpp / detail/array.ipp) above the block partition `Part`.

Rank `r` holds `m_local_vec` = `vecs[r]`.  Every `async_set / async_visit / async_*_op_update_value`
is one message `Msg` = (global index, what the remote lambda does to the addressed element).
`apply` is "issue + deliver + execute": `dest = owner(index)` is computed by the issuing rank with the
arithmetic of `Part.owner` (a zero divisor is a trap = `none`), the handler on `dest` computes
`l_index = index - m_local_start_index` and updates `m_local_vec[l_index]`.  The three
`ASSERT_RELEASE`s of the code (`index < m_global_size`, `l_index <= m_small_block_size`,
`l_index < m_local_vec.size()`) and the unsigned wrap of `index - start` are modelled as `none`
so that no theorem is true only because `Nat` subtraction or `List.modify` are total.

Execution model (C01, proved for the messaging layer): every message is delivered exactly once to the
rank it is addressed to and executed atomically there, in some order.  Ranks do not share state, so
the set of reachable final states is `run a ms'` for the permutations `ms'` of the issued messages.

Core Lean only (the driver links this file).
-/
namespace YgmVerif.ArrayOps
open YgmVerif.Part

/-- one remote update: `f index value` is the new value of element `idx` -/
structure Msg (α : Type) where
  idx : Nat
  f : Nat → α → α

/-- a distributed array: `vecs[r]` is `m_local_vec` of rank `r` -/
structure Arr (α : Type) where
  len : Nat
  ranks : Nat
  dv : α
  vecs : List (List α)

/-- constructor + `resize(size, default)`: every rank fills its block with the default value -/
def fresh {α : Type} (len ranks : Nat) (dv : α) : Arr α :=
  { len := len, ranks := ranks, dv := dv,
    vecs := (List.range ranks).map (fun r => List.replicate (localSize len ranks r) dv) }

/-- the handler (`putter` / `visit_wrapper`) running on rank `r` -/
def deliver {α : Type} (len ranks r : Nat) (vec : List α) (m : Msg α) : Option (List α) :=
  if start len ranks r ≤ m.idx ∧ localIndex len ranks r m.idx ≤ small len ranks ∧
      localIndex len ranks r m.idx < vec.length
  then some (vec.modify (localIndex len ranks r m.idx) (m.f m.idx)) else none

/-- an async update issued by any rank: routed by `owner`, executed on the owner -/
def apply {α : Type} (a : Arr α) (m : Msg α) : Option (Arr α) :=
  if m.idx < a.len then
    match owner a.len a.ranks m.idx with
    | none => none
    | some d =>
      match a.vecs[d]? with
      | none => none
      | some vec => (deliver a.len a.ranks d vec m).map (fun v' => { a with vecs := a.vecs.set d v' })
  else none

/-- a whole history, in execution order -/
def run {α : Type} (a : Arr α) (ms : List (Msg α)) : Option (Arr α) := ms.foldlM apply a

/-- raw slot `l` of rank `r` -/
def slot {α : Type} (a : Arr α) (r l : Nat) : Option α := (a.vecs[r]?).bind (·[l]?)

/-- element with global index `i` (looked up where the code would look it up) -/
def get {α : Type} (a : Arr α) (i : Nat) : Option α :=
  match owner a.len a.ranks i with
  | none => none
  | some r => slot a r (localIndex a.len a.ranks r i)

/-- what `for_all((index, value))` presents on rank `r`, in order: `global_index(i), m_local_vec[i]` -/
def presented {α : Type} (a : Arr α) (r : Nat) : List (Nat × α) :=
  ((a.vecs[r]?).getD []).zipIdx.map (fun p => (globalIndex a.len a.ranks r p.2, p.1))

/-- the value-only form of `for_all` on rank `r` -/
def presentedValues {α : Type} (a : Arr α) (r : Nat) : List α := (a.vecs[r]?).getD []

/-- everything `for_all` presents, rank after rank -/
def presentedAll {α : Type} (a : Arr α) : List (Nat × α) := (List.range a.ranks).flatMap (presented a)

/-- copy constructor: copies sizes, start index, default value and `m_local_vec` on every rank -/
def copy {α : Type} (a : Arr α) : Arr α :=
  { len := a.len, ranks := a.ranks, dv := a.dv, vecs := a.vecs.map (fun v => v) }

/-- `resize(size, fill_value)` (barrier; new block sizes and start index; `m_local_vec.resize(new local
size, fill_value)`; barrier): `std::vector::resize` keeps the old LOCAL prefix of every rank — the values
stay at their local positions, whatever global index those positions now have — and appends copies of
`fill_value`.  `resize(size)` is `resize(size, m_default_value)`. -/
def resize {α : Type} (a : Arr α) (newLen : Nat) (fill : α) : Arr α :=
  { len := newLen, ranks := a.ranks, dv := a.dv,
    vecs := (List.range a.ranks).map (fun r =>
      ((a.vecs.getD r []).take (localSize newLen a.ranks r)) ++
        List.replicate (localSize newLen a.ranks r - (a.vecs.getD r []).length) fill) }

/-- a `for_all` callback that does more than look: for the slot `l` of rank `r` (global index `g`) it may
modify the value it was handed by reference (`direct`) and issue asynchronous updates to the SAME array
(`emits`: to the element being visited, to other elements of the rank, to elements of other ranks).
What it emits must not depend on the value it sees (that value depends on how far other ranks are). -/
structure Callback (α : Type) where
  direct : Nat → Nat → Nat → α → α
  emits : Nat → Nat → Nat → List (Msg α)

/-- everything one `for_all(cb)` does to the array, as updates: per presented slot the callback's own
modification through the reference (an update of exactly that element) and the updates it emits.  The
modification through the reference is one statement of the callback, the emitted updates are executed by
handlers (inside the callback's own `async` calls when the send buffer is small, or later): every one
is applied exactly once, atomically, in some order — `run` over any permutation of this list. -/
def forAllMsgs {α : Type} (a : Arr α) (cb : Callback α) : List (Msg α) :=
  (List.range a.ranks).flatMap (fun r =>
    (List.range (localSize a.len a.ranks r)).flatMap (fun l =>
      let g := globalIndex a.len a.ranks r l
      { idx := g, f := fun _ v => cb.direct r l g v } :: cb.emits r l g))

/-- invariant established by `resize`: one vector per rank, of the rank's block size -/
def WF {α : Type} (a : Arr α) : Prop :=
  a.vecs.length = a.ranks ∧ ∀ r, r < a.ranks → (a.vecs[r]?).map List.length = some (localSize a.len a.ranks r)

/-! ### the concrete operations of array.hpp on `uint64_t` (what the driver executes) -/

inductive Op where
  | set (v : UInt64) | plus (v : UInt64) | minus (v : UInt64) | mult (v : UInt64) | div (v : UInt64)
  | band (v : UInt64) | bor (v : UInt64) | bxor (v : UInt64) | land (v : UInt64) | lor (v : UInt64)
  | inc | dec
  | visit (k : UInt64)     -- the harness' visitor: `v = v*3 + k + 7*index`
  deriving Repr

def b2u (b : Bool) : UInt64 := if b then 1 else 0

/-- `std::plus` … `std::logical_or` on `uint64_t`, the increment / decrement lambdas, `=` -/
def Op.eval : Op → Nat → UInt64 → UInt64
  | .set x, _, _ => x
  | .plus x, _, v => v + x
  | .minus x, _, v => v - x
  | .mult x, _, v => v * x
  | .div x, _, v => v / x          -- the generator never divides by 0 (user error in C++)
  | .band x, _, v => v &&& x
  | .bor x, _, v => v ||| x
  | .bxor x, _, v => v ^^^ x
  | .land x, _, v => b2u (v != 0 && x != 0)
  | .lor x, _, v => b2u (v != 0 || x != 0)
  | .inc, _, v => v + 1
  | .dec, _, v => v - 1
  | .visit k, i, v => v * 3 + k + 7 * i.toUInt64

def Op.msg (i : Nat) (op : Op) : Msg UInt64 := { idx := i, f := op.eval }

/-- the harness' emitting callback (`E` scripts): operator `mk` (one commuting family), own modification
`v ← mk c applied to v`, and per round `j < k` three updates: to the visited element, to its right
neighbour (same rank except at a block end) and to a far element -/
def harnessCallback (len : Nat) (mk : UInt64 → Op) (c salt k : Nat) : Callback UInt64 :=
  { direct := fun _ _ g v => (mk (UInt64.ofNat c)).eval g v,
    emits := fun _ _ g =>
      (List.range k).flatMap (fun j =>
        let x := (g * 3 + salt + j) % 97 + 1
        [Op.msg g (mk (UInt64.ofNat x)),
         Op.msg ((g + 1) % len) (mk (UInt64.ofNat (x + 1))),
         Op.msg ((g * 7 + salt + j) % len) (mk (UInt64.ofNat (x + 2)))]) }

end YgmVerif.ArrayOps
